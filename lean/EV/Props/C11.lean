import EV.Proofs.HeaderCacheInv

/-!
# C11 — Every merkle proof the server hands out verifies against the current chain

> For any indexed chain, also after reorganisations and with requests in flight while blocks are
> undone, a transaction merkle proof (by hash or by position, classic or TSC format) folds to the
> merkle root in the header of that block, and a header proof for (height, checkpoint height)
> folds to the merkle root of all current block hashes up to the checkpoint; requests outside the
> chain are refused rather than answered wrongly.

Composition (DESIGN.md §6 C11):
 1. C12 (`EV/Props/C12.lean`): whatever list the server folds, the branch it returns folds to that
    list's Bitcoin merkle root — classic and TSC, direct path and `MerkleCache` path.
 2. *Which* list, transaction proofs: the tx-hash list of the block at that height on the current
    chain (tx table of the index, C02; by-height caches cleared on reorg, C10) — validated by suite
    `system` (every tx of every block, by hash and by position, classic and TSC, folded by an
    independent verifier against the header's merkle root, after every phase of every history).
 3. *Which* list, header proofs — **this file**: model `EV/Model/HeaderCache.lean`: any number of
    concurrent `block.header(height, cp)` requests, each a program counter over the awaits of
    `MerkleCache.branch_and_root` / `_extend_to` / `_level_for`, every read cut into issue /
    perform in a worker thread against the hashes visible *then* / deliver; back-outs cut into
    their two effects (lowering `DB.state`, `header_mc.truncate`) in the order of the code; new
    blocks.  Theorems, for **all** event sequences and any number of requests:
      * `C11_header_safe`     every answer is the from-scratch branch and Bitcoin merkle root of
                              the first `cp+1` hashes of a chain that was visible during the request
      * `C11_header_current`  … of the chain visible at the moment of the answer, when no back-out
                              overlapped the request
      * `C11_header_inv`      the cache is consistent with the visible chain whenever no back-out
                              is half done, and with the chain before the back-out in the window
      * `C11_header_refused`, `C11_header_never_wrong`
                              out-of-range requests are refused; a request ends refused, with an
                              error, or with an answer satisfying the safety clause
      * `seen_sound`          the ghost history `Req.seen` is what it is said to be
    and the pinned code violates the property in three ways, each fixed by its own commit:
      * `F17_counterexample`  two extensions in flight (`_extend_to` without the `cached_length` test)
      * `F18_counterexample`  `flush_backup` truncating before it lowers `DB.state`
      * `F19_counterexample`  a truncation between `_extend_to` and `_level_for` of one request
Tie to the code: suite `headercache` (the real `_merkle_proof` → `header_branch_and_root` →
`MerkleCache` → `fs_block_hashes` → `read_headers` coroutines, reads performed and delivered under
the control of the event sequence; the real `flush_backup` in a second thread held between its two
effects) and suite `system` (real server).
-/
namespace EV.HeaderCache
open EV.Merkle

variable {Node : Type} (H : Node → Node → Node)

/-! ## the ghost history is what it is said to be (every variant of the code) -/

theorem enterExtend_ghost (c : Cache Node) (T : Nat) (r : Req Node) :
    (enterExtend c T r).seen = r.seen ∧ (enterExtend c T r).bo = r.bo ∧
      (enterExtend c T r).length = r.length ∧ (enterExtend c T r).index = r.index := by
  unfold enterExtend; split <;> exact ⟨rfl, rfl, rfl, rfl⟩

theorem finish_ghost (cfg : Cfg) (c : Cache Node) (T : Nat) (r : Req Node)
    (res : Except PyExc (List (Elt Node) × Node)) :
    (finish cfg c T r res).seen = r.seen ∧ (finish cfg c T r res).bo = r.bo ∧
      (finish cfg c T r res).length = r.length ∧ (finish cfg c T r res).index = r.index := by
  unfold finish
  split
  · exact ⟨rfl, rfl, rfl, rfl⟩
  · split
    · exact enterExtend_ghost c T _
    · exact ⟨rfl, rfl, rfl, rfl⟩

theorem deliverReq_ghost [DecidableEq Node] (cfg : Cfg) (c : Cache Node) (T : Nat) (r : Req Node) :
    (deliverReq H cfg c T r).2.seen = r.seen ∧ (deliverReq H cfg c T r).2.bo = r.bo ∧
      (deliverReq H cfg c T r).2.length = r.length ∧ (deliverReq H cfg c T r).2.index = r.index := by
  unfold deliverReq
  repeat' split
  all_goals first
    | exact ⟨rfl, rfl, rfl, rfl⟩
    | exact enterExtend_ghost c T r
    | exact enterExtend_ghost _ T r
    | exact finish_ghost cfg c T r _

theorem performReq_ghost (c : Cache Node) (src : List Node) (r : Req Node) :
    (performReq c src r).seen = r.seen ∧ (performReq c src r).bo = r.bo ∧
      (performReq c src r).length = r.length ∧ (performReq c src r).index = r.index := by
  unfold performReq; split <;> exact ⟨rfl, rfl, rfl, rfl⟩

theorem see_seen (S : List Node) (r : Req Node) :
    (r.see S).seen = r.seen ∨ ((r.see S).seen = S :: r.seen ∧ r.active = true) := by
  unfold Req.see; split
  · next h => exact Or.inr ⟨rfl, h⟩
  · exact Or.inl rfl

theorem markBo_seen (r : Req Node) : r.markBo.seen = r.seen := by
  unfold Req.markBo; split <;> rfl

/-- **the ghost history is sound** (every variant of the code): a new request starts with the
singleton history `[src]`; in one step the history of an existing request either stays as it is or
gets the *new* visible chain pushed in front, and the latter only for a request that has not
finished.  So `seen` lists values the visible chain had between the request's start and its end. -/
theorem seen_sound [DecidableEq Node] (cfg : Cfg) (s : St Node) (ev : Ev Node) :
    (∀ (i : Nat) (r : Req Node), s.reqs[i]? = some r → ∃ r' : Req Node, (step H cfg s ev).reqs[i]? = some r' ∧
      (r'.seen = r.seen ∨ (r'.seen = (step H cfg s ev).src :: r.seen ∧ r.active = true))) ∧
    (∀ (i : Nat) (r' : Req Node), s.reqs.length ≤ i → (step H cfg s ev).reqs[i]? = some r' →
      r'.seen = [(step H cfg s ev).src]) := by
  have hmap : ∀ (f : Req Node → Req Node) (S : List Node),
      (∀ r, (f r).seen = r.seen ∨ ((f r).seen = S :: r.seen ∧ r.active = true)) →
      ∀ (i : Nat) (r : Req Node), s.reqs[i]? = some r → ∃ r' : Req Node, (s.reqs.map f)[i]? = some r' ∧
        (r'.seen = r.seen ∨ (r'.seen = S :: r.seen ∧ r.active = true)) := by
    intro f S hf i r hr
    exact ⟨f r, by rw [List.getElem?_map, hr]; rfl, hf r⟩
  have hmapnew : ∀ (f : Req Node → Req Node) (S : List Node) (i : Nat) (r' : Req Node), s.reqs.length ≤ i →
      (s.reqs.map f)[i]? = some r' → r'.seen = [S] := by
    intro f S i r' hi hr'
    rw [List.getElem?_eq_none (by rw [List.length_map]; exact hi)] at hr'
    cases hr'
  have hsetnew : ∀ (j : Nat) (x : Req Node) (S : List Node) (i : Nat) (r' : Req Node), s.reqs.length ≤ i →
      (s.reqs.set j x)[i]? = some r' → r'.seen = [S] := by
    intro j x S i r' hi hr'
    rw [List.getElem?_eq_none (by rw [List.length_set]; exact hi)] at hr'
    cases hr'
  have hset : ∀ (j : Nat) (r0 x : Req Node) (S : List Node), s.reqs[j]? = some r0 → x.seen = r0.seen →
      ∀ (i : Nat) (r : Req Node), s.reqs[i]? = some r → ∃ r' : Req Node, (s.reqs.set j x)[i]? = some r' ∧
        (r'.seen = r.seen ∨ (r'.seen = S :: r.seen ∧ r.active = true)) := by
    intro j r0 x S hj hx i r hr
    by_cases hij : j = i
    · subst hij
      rw [hj] at hr; cases hr
      have hlt : j < s.reqs.length := by
        by_contra hc
        rw [List.getElem?_eq_none (by omega)] at hj; cases hj
      exact ⟨x, by rw [List.getElem?_set_self hlt], Or.inl hx⟩
    · exact ⟨r, by rw [List.getElem?_set_ne hij, hr], Or.inl rfl⟩
  have hid : ∀ (i : Nat) (r : Req Node), s.reqs[i]? = some r → ∃ r' : Req Node, s.reqs[i]? = some r' ∧
      (r'.seen = r.seen ∨ (r'.seen = s.src :: r.seen ∧ r.active = true)) :=
    fun i r hr => ⟨r, hr, Or.inl rfl⟩
  have hidnew : ∀ (i : Nat) (r' : Req Node), s.reqs.length ≤ i → s.reqs[i]? = some r' → r'.seen = [s.src] := by
    intro i r' hi hr'
    rw [List.getElem?_eq_none hi] at hr'
    cases hr'
  cases ev with
  | start cp height =>
    simp only [step]
    refine ⟨fun i r hr => ⟨r, ?_, Or.inl rfl⟩, ?_⟩
    · have hlt : i < s.reqs.length := by
        by_contra hc
        rw [List.getElem?_eq_none (by omega)] at hr; cases hr
      rw [List.getElem?_append_left hlt, hr]
    · intro i r' hi hr'
      rw [List.getElem?_append_right hi] at hr'
      cases hk : i - s.reqs.length with
      | zero =>
        rw [hk] at hr'
        simp only [List.getElem?_cons_zero, Option.some.injEq] at hr'
        subst hr'
        unfold newReq
        split
        · exact (enterExtend_ghost _ _ _).1
        · rfl
      | succ k => rw [hk] at hr'; simp at hr'
  | perform j =>
    simp only [step]
    split
    · exact ⟨hid, hidnew⟩
    · next r0 hj => exact ⟨hset j r0 _ _ hj (performReq_ghost _ _ _).1, hsetnew j _ _⟩
  | deliver j =>
    simp only [step]
    split
    · exact ⟨hid, hidnew⟩
    · next r0 hj => exact ⟨hset j r0 _ _ hj (deliverReq_ghost H _ _ _ _).1, hsetnew j _ _⟩
  | boBegin n =>
    simp only [step]
    split
    · split
      · exact ⟨hmap _ _ (fun r => by rw [markBo_seen]; exact see_seen _ r), hmapnew _ _⟩
      · exact ⟨hmap _ _ (fun r => Or.inl (markBo_seen r)), hmapnew _ _⟩
    · exact ⟨hid, hidnew⟩
  | boEnd =>
    simp only [step]
    split
    · exact ⟨hid, hidnew⟩
    · split
      · exact ⟨hmap _ _ (fun r => Or.inl (markBo_seen r)), hmapnew _ _⟩
      · exact ⟨hmap _ _ (fun r => by rw [markBo_seen]; exact see_seen _ r), hmapnew _ _⟩
  | append ns =>
    simp only [step]
    split
    · exact ⟨hmap _ _ (fun r => see_seen _ r), hmapnew _ _⟩
    · exact ⟨hid, hidnew⟩

/-! ## safety -/

/-- **C11 (header proofs verify — linearizability).**  Start from a cache that is consistent with
the visible block hashes (`initialize`, C12 `cache_init`) and let *any* sequence of events happen:
any number of header-proof requests started at any time, each of their reads performed by a worker
thread at any later time and delivered at any time after that, back-outs of any number of blocks
(the visible chain lowered, later `truncate`), new blocks — in any order.  Then every answer
`(branch, root)` a request for `(length = cp+1, index = height)` returns is exactly the
from-scratch `branch_and_root` of `S[:length]` at `index`, for a chain `S` that was the visible chain
at some moment between the request's start and its answer (`S ∈ seen`, see `seen_sound`) and that
reaches the checkpoint (`length ≤ len S`); in particular `root` is the Bitcoin merkle root of the
first `cp+1` block hashes of that chain (and by C12 `bar_fold` the branch folds to it). -/
theorem C11_header_safe [DecidableEq Node] (s : St Node) (evs : List (Ev Node)) (h0 : Init H s) :
    ∀ r ∈ (run H Cfg.fixed s evs).reqs, ∀ br root, r.pc = .done (.answer br root) →
      ∃ S ∈ r.seen, r.length ≤ S.length ∧
        branchAndRoot H (S.take r.length) (.int r.index) none false = .ok (br, root) ∧
        ∃ hne, root = merkleRoot H (S.take r.length) hne := by
  intro r hr br root hpc
  have hsafe := ((inv_run H s evs h0.inv).reqs r hr).safe
  unfold Req.Safe at hsafe
  rw [hpc] at hsafe
  obtain ⟨S, hS, hlen, hbar⟩ := hsafe
  refine ⟨S, hS, hlen, hbar, ?_⟩
  obtain ⟨h1, h2⟩ := branchAndRoot_ok_range H hbar
  have hidx : r.index < (S.take r.length).length := by omega
  obtain ⟨br', hbr'⟩ := bar_root H (S.take r.length) r.index false hidx
  rw [hbar] at hbr'
  injection hbr' with hbr'
  injection hbr' with _ hroot
  exact ⟨_, hroot⟩

/-- **C11 (no back-out overlapping the request: the current chain).**  If no back-out was half
done, began or ended while the request was active (`bo = false`), its answer is the from-scratch
branch and root of the first `cp+1` hashes of the chain visible *at the moment of the answer* (the
head of the history), which reaches the checkpoint. -/
theorem C11_header_current [DecidableEq Node] (s : St Node) (evs : List (Ev Node)) (h0 : Init H s) :
    ∀ r ∈ (run H Cfg.fixed s evs).reqs, ∀ br root, r.pc = .done (.answer br root) → r.bo = false →
      ∀ cur, r.seen.head? = some cur → r.length ≤ cur.length ∧
        branchAndRoot H (cur.take r.length) (.int r.index) none false = .ok (br, root) := by
  intro r hr br root hpc hbo cur hcur
  obtain ⟨S, hS, hlen, hbar, _⟩ := C11_header_safe H s evs h0 r hr br root hpc
  have hpre := ((inv_run H s evs h0.inv).reqs r hr).nobo hbo S hS cur hcur
  exact ⟨by have := hpre.length_le; omega, by rw [take_of_prefix hpre hlen]; exact hbar⟩

/-! ## cache invariant -/

/-- **C11 (header cache invariant).**  In every reachable state — any number of extensions in
flight —: when no back-out is half done the cache is consistent with the visible block hashes
(`CacheInv`: its level is level `depth_higher` of the tree of the first `length` visible hashes);
between the two halves of a back-out to `n` hashes it is consistent with the reference chain `ref`,
of which the visible chain is the first `n` hashes (the cache may still cover hashes that are no
longer visible; the pending `truncate` removes them).  `ref_window` below: `ref` is the chain that
was visible before the back-out began. -/
theorem C11_header_inv [DecidableEq Node] (s : St Node) (evs : List (Ev Node)) (h0 : Init H s) :
    ((run H Cfg.fixed s evs).pending = none →
      CacheInv H (run H Cfg.fixed s evs).c (run H Cfg.fixed s evs).src) ∧
    (∀ n, (run H Cfg.fixed s evs).pending = some n →
      CacheInv H (run H Cfg.fixed s evs).c (run H Cfg.fixed s evs).ref ∧
      (run H Cfg.fixed s evs).src = (run H Cfg.fixed s evs).ref.take n ∧
      0 < n ∧ n < (run H Cfg.fixed s evs).ref.length) := by
  have hinv := inv_run H s evs h0.inv
  exact ⟨fun hp => by have := hinv.cache; rw [hinv.quiet hp] at this; exact this,
    fun n hn => ⟨hinv.cache, hinv.half n hn⟩⟩

/-- the reference chain of the half-done window: when a back-out begins in a state satisfying the
invariant, `ref` is (and stays) the chain that was visible before; no event inside the window
changes it -/
theorem ref_window [DecidableEq Node] (s : St Node) (hinv : Inv H s) :
    (∀ n, s.pending = none → (step H Cfg.fixed s (.boBegin n)).ref = s.src) ∧
    (∀ ev n n', s.pending = some n → (step H Cfg.fixed s ev).pending = some n' →
      (step H Cfg.fixed s ev).ref = s.ref) := by
  refine ⟨fun n hp => ?_, fun ev n n' hp hp' => ?_⟩
  · simp only [step]
    split
    · simp only [fixed_lowerFirst, if_true]; exact hinv.quiet hp
    · exact hinv.quiet hp
  · cases ev with
    | start cp height => rfl
    | perform i => simp only [step]; split <;> rfl
    | deliver i => simp only [step]; split <;> rfl
    | boBegin m => simp only [step, hp]; simp
    | boEnd => simp only [step, hp, fixed_lowerFirst, if_true] at hp'; cases hp'
    | append ns => simp only [step, hp]; simp

/-- **C11 (quiescent header proof).**  In every reachable state in which no back-out is half done,
a header-proof request `(height, cp_height)` inside the chain answered atomically through the cache
returns exactly the from-scratch branch of the current first `cp_height + 1` block hashes and
their Bitcoin merkle root. -/
theorem C11_header_proof [DecidableEq Node] (s : St Node) (evs : List (Ev Node)) (h0 : Init H s)
    (hq : (run H Cfg.fixed s evs).pending = none) (height cp : Nat)
    (hh : height ≤ cp) (hcp : cp < (run H Cfg.fixed s evs).src.length) :
    ((run H Cfg.fixed s evs).c.query H (run H Cfg.fixed s evs).src (.int (cp + 1 : Nat)) (.int height) false).2 =
      Outcome.ofExcept (branchAndRoot H ((run H Cfg.fixed s evs).src.take (cp + 1)) (.int height) none false) ∧
    ∃ br hne, branchAndRoot H ((run H Cfg.fixed s evs).src.take (cp + 1)) (.int height) none false =
      .ok (br, merkleRoot H ((run H Cfg.fixed s evs).src.take (cp + 1)) hne) := by
  have hinv := (C11_header_inv H s evs h0).1 hq
  have h1 := cache_correct H (run H Cfg.fixed s evs).c (run H Cfg.fixed s evs).src (cp + 1 : Nat) height false hinv
    (by omega) (by simp; omega) (by omega)
  refine ⟨by simpa using h1.1, ?_⟩
  have hlen : height < ((run H Cfg.fixed s evs).src.take (cp + 1)).length := by
    simp only [List.length_take]; omega
  obtain ⟨br, hbr⟩ := bar_root H ((run H Cfg.fixed s evs).src.take (cp + 1)) height false hlen
  exact ⟨br, _, hbr⟩

/-! ## refusal -/

/-- **C11 (requests outside the chain are refused).**  Whatever the variant of the code: a request
whose checkpoint is beyond the visible chain (or below its height) at the range check is refused at
once and changes nothing else; a request inside is not refused. -/
theorem C11_header_refused [DecidableEq Node] (cfg : Cfg) (s : St Node) (cp height : Nat) :
    (step H cfg s (.start cp height)).c = s.c ∧
    (step H cfg s (.start cp height)).truncations = s.truncations ∧
    (step H cfg s (.start cp height)).src = s.src ∧
    ∃ r, (step H cfg s (.start cp height)).reqs = s.reqs ++ [r] ∧ r.length = cp + 1 ∧ r.index = height ∧
      (¬ (height ≤ cp ∧ cp < s.src.length) → r.pc = .done .refused) ∧
      ((height ≤ cp ∧ cp < s.src.length) → r.active = true) := by
  refine ⟨rfl, rfl, rfl, _, rfl, ?_⟩
  unfold newReq
  split
  · next hin =>
    refine ⟨(enterExtend_ghost _ _ _).2.2.1, (enterExtend_ghost _ _ _).2.2.2, fun h => absurd hin h, fun _ => ?_⟩
    unfold beginIter enterExtend
    split <;> rfl
  · next hout => exact ⟨rfl, rfl, fun _ => rfl, fun h => absurd h hout⟩

/-- **C11 (never a wrong answer).**  However a request ends — in every reachable state — it was
refused, it failed with an error, or it returned an answer that satisfies the safety clause. -/
theorem C11_header_never_wrong [DecidableEq Node] (s : St Node) (evs : List (Ev Node)) (h0 : Init H s) :
    ∀ r ∈ (run H Cfg.fixed s evs).reqs, ∀ res, r.pc = .done res →
      res = .refused ∨ (∃ e, res = .error e) ∨
      ∃ br root, res = .answer br root ∧ ∃ S ∈ r.seen, r.length ≤ S.length ∧
        branchAndRoot H (S.take r.length) (.int r.index) none false = .ok (br, root) := by
  intro r hr res hpc
  cases res with
  | refused => exact Or.inl rfl
  | error e => exact Or.inr (Or.inl ⟨e, rfl⟩)
  | answer br root =>
    obtain ⟨S, hS, hlen, hbar, _⟩ := C11_header_safe H s evs h0 r hr br root hpc
    exact Or.inr (Or.inr ⟨br, root, rfl, S, hS, hlen, hbar⟩)

/-! ## non-vacuity, and the three ways the pinned code violates the property -/

/-- Cantor pairing: an *injective* stand-in for the hash on `Nat`, so two different trees have
different roots -/
def Hc (a b : Nat) : Nat := (a + b) * (a + b + 1) / 2 + b

def src9 : List Nat := [10, 11, 12, 13, 14, 15, 16, 17, 18]

/-- nine visible block hashes, the cache initialised by the real `initialize(4)`
(`depth_higher = 1`: segments of two) -/
def s9 : St Nat := { c := (({} : Cache Nat).init Hc src9 4).1, src := src9, ref := src9 }

/-- the hypothesis `Init` of the theorems is satisfiable (C12 `cache_init`) -/
theorem s9_init : Init Hc s9 :=
  ⟨(cache_init Hc {} src9 4 (by decide) (by decide)).2, rfl, rfl, rfl⟩

instance (r : Req Nat) : Decidable (r.Safe Hc) := by
  unfold Req.Safe
  split <;> infer_instance

/-- F17: A = `block.header(0, cp=8)` and B = `block.header(0, cp=5)` both above the cache (4): both
extension reads in flight; A's `_extend_to(9)` finishes, then B's shorter one. -/
def evsF17 : List (Ev Nat) :=
  [.start 8 0, .start 5 0, .perform 0, .perform 1, .deliver 0, .deliver 1,
   .perform 0, .deliver 0, .perform 0, .deliver 0]

/-- **F17 (pinned `_extend_to`: no `cached_length` test).**  B's extension writes
`level[2:] = level(h4,h5)` and `length = 6` over A's longer one; A's `_level_for(9)` then takes
`level[:4]` of a 3-entry level and returns a root over the hashes 0–5 and 8: not the root of any
chain.  (`lowerFirst`, `retry` as in the current code: no reorganisation is involved.) -/
theorem F17_counterexample :
    (run Hc { extFix := false } s9 evsF17).reqs.map (fun r => decide (r.Safe Hc)) = [false, true] ∧
    (run Hc { extFix := false } s9 evsF17).c.length = 6 := by decide

/-- F18: a back-out to 7 hashes begins; a request for `cp = 8` starts between its two halves,
extends the cache, the back-out ends, two new blocks arrive, a second request for `cp = 8`. -/
def evsF18 : List (Ev Nat) :=
  [.boBegin 7, .start 8 0, .perform 0, .deliver 0, .boEnd, .append [27, 28],
   .perform 0, .deliver 0, .perform 0, .deliver 0,
   .start 8 0, .perform 1, .deliver 1, .perform 1, .deliver 1, .perform 1, .deliver 1]

/-- **F18 (pinned `flush_backup`: `truncate` before `DB.state` is lowered).**  The request
started in the window passes the range check against the not-yet-lowered state, re-reads the
hashes being undone and stores them (`truncate` already ran, so neither `truncations` test fires);
the cache keeps orphaned hashes in a quiescent state, and the *next* request is answered with a root
over them. -/
theorem F18_counterexample :
    (run Hc { lowerFirst := false } s9 evsF18).reqs.map (fun r => decide (r.Safe Hc)) = [true, false] ∧
    (run Hc { lowerFirst := false } s9 evsF18).pending = none ∧
    (run Hc { lowerFirst := false } s9 evsF18).src = [10, 11, 12, 13, 14, 15, 16, 27, 28] ∧
    (run Hc { lowerFirst := false } s9 evsF18).c.level ≠
      lvl Hc 1 ((run Hc { lowerFirst := false } s9 evsF18).src.take 9) := by decide

/-- F19: one request for `cp = 8`; its extension completes (cache 9); while it waits for its leaf
hashes a back-out to 5 hashes truncates the cache to 4 and four new blocks arrive. -/
def evsF19 : List (Ev Nat) :=
  [.start 8 1, .perform 0, .deliver 0, .boBegin 5, .boEnd, .append [25, 26, 27, 28],
   .perform 0, .deliver 0, .perform 0, .deliver 0]

/-- **F19 (pinned `branch_and_root`: one pass, no truncation check).**  `_level_for(9)` takes
`self.level[:4]` from the truncated 2-entry level and appends the final partial segment: a root over
the hashes 0–3 and 8; the "leaf hashes inconsistent with level" check passes because the leaf's own
segment is intact. -/
theorem F19_counterexample :
    (run Hc { retry := false } s9 evsF19).reqs.map (fun r => decide (r.Safe Hc)) = [false] := by decide

/-- the same three schedules under the current code: every request that has ended is safe (as the
theorem says), and answers do occur (the theorem is not vacuous) -/
example :
    (run Hc Cfg.fixed s9 evsF17).reqs.map (fun r => (decide (r.Safe Hc), r.active)) = [(true, false), (true, true)] ∧
    (run Hc Cfg.fixed s9 evsF18).reqs.map (fun r => (decide (r.Safe Hc), r.active)) = [(true, false), (true, false)] ∧
    (run Hc Cfg.fixed s9 (evsF19 ++ [.perform 0, .deliver 0, .perform 0, .deliver 0])).reqs.map
      (fun r => (decide (r.Safe Hc), r.active, r.bo)) = [(true, false, true)] := by decide

/-- `C11_header_current` is not vacuous: a request that no back-out overlapped, answered -/
example : (run Hc Cfg.fixed s9 [.start 8 0, .perform 0, .deliver 0, .perform 0, .deliver 0]).reqs.map
    (fun r => (r.bo, r.active, r.seen.head?)) = [(false, false, some src9)] := by decide

/-- the refusal clause is not vacuous -/
example : (step Hc Cfg.fixed s9 (.start 9 0)).reqs.map (·.pc) = [.done .refused] ∧
    (step Hc Cfg.fixed s9 (.start 3 4)).reqs.map (·.pc) = [.done .refused] := by decide

end EV.HeaderCache

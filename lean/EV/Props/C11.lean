import EV.Proofs.HeaderCache

/-!
# C11 — Every merkle proof the server hands out verifies against the current chain

Composition (DESIGN.md §6 C11):
 1. C12 (`EV/Props/C12.lean`): whatever list the server folds, the branch it returns folds to that
    list's Bitcoin merkle root — classic and TSC, direct path and `MerkleCache` path.
 2. *Which* list: for transaction proofs the tx-hash list of the block at that height on the current
    chain (tx table of the index, C02; by-height caches cleared on reorg, C10) — validated by suite
    `system` (every tx of every block, by hash and by position, classic and TSC, folded by an
    independent verifier against the header's merkle root, after every phase of every history).
 3. Header proofs: the header merkle cache under concurrency with reorganisations — **this file**:
    the cache stays consistent with the DB's block hashes under every interleaving of extensions in
    flight, back-outs and new blocks, so a header proof for `(height, cp_height)` folds to the merkle
    root of the current block hashes `0 … cp_height`.
Tie to the code: suite `headercache` (the real `MerkleCache` with a suspending source function,
all interleavings up to a bound) and suite `system` (real server, header-proof requests concurrent
with reorgs, incl. the F7 interleaving as a corpus scenario).
-/
namespace EV.HeaderCache
open EV.Merkle

variable {Node : Type} (H : Node → Node → Node)

/-- **C11 (header cache invariant).**  Start from a cache that is consistent with the DB's block
hashes (`initialize`, C12 `cache_init`) and let *any* sequence of events happen — extension
started by a header-proof request, its worker-thread read, its completion, a back-out of any
number of blocks with `truncate`, new blocks — in any order, with the read and the completion of an
extension separated by arbitrarily many other events: the cache is consistent with the DB's block
hashes in every state reached (current code). -/
theorem C11_header_inv (s : St Node) (evs : List (Ev Node))
    (hc : CacheInv H s.c s.src) (hext : s.ext = none) :
    CacheInv H (run H true s evs).c (run H true s evs).src :=
  (inv_run H s evs ⟨hc, by simp [ExtOK, hext], by intro e he; simp [hext] at he⟩).cache

/-- **C11 (header proofs verify).**  In every reachable state, a header-proof request
`(height, cp_height)` inside the chain (`height ≤ cp_height < number of block hashes`) answered
through the cache returns exactly the from-scratch branch of the current first `cp_height + 1`
block hashes and their Bitcoin merkle root. -/
theorem C11_header_proof [DecidableEq Node] (s : St Node) (evs : List (Ev Node))
    (hc : CacheInv H s.c s.src) (hext : s.ext = none) (height cp : Nat)
    (hh : height ≤ cp) (hcp : cp < (run H true s evs).src.length) :
    ((run H true s evs).c.query H (run H true s evs).src (.int (cp + 1 : Nat)) (.int height) false).2 =
      Outcome.ofExcept (branchAndRoot H ((run H true s evs).src.take (cp + 1)) (.int height) none false) ∧
    ∃ br hne, branchAndRoot H ((run H true s evs).src.take (cp + 1)) (.int height) none false =
      .ok (br, merkleRoot H ((run H true s evs).src.take (cp + 1)) hne) := by
  have hinv := C11_header_inv H s evs hc hext
  have h1 := cache_correct H (run H true s evs).c (run H true s evs).src (cp + 1 : Nat) height false hinv
    (by omega) (by simp; omega) (by omega)
  refine ⟨by simpa using h1.1, ?_⟩
  have hlen : height < ((run H true s evs).src.take (cp + 1)).length := by
    simp only [List.length_take]; omega
  obtain ⟨br, hbr⟩ := bar_root H ((run H true s evs).src.take (cp + 1)) height false hlen
  exact ⟨br, _, hbr⟩

end EV.HeaderCache

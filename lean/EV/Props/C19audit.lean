import EV.Props.C19

/-!
# C19 — "spread over networks" with a concrete bucket function (audit §C19)

`C19_bucket` holds for ANY labelling: `bucket` is a free field of the modelled peer (`PeerV`) and
`bucketOf` a free parameter of `viewOf`; with a constant label it only says "at most 2 clearnet peers in
total".  What the property means by bucket is `Peer.bucket_for_external_interface`: the IPv4 `/16`,
resp. the IPv6 `/56` network of the peer's `ip_addr`.  Here that content is made explicit on a small
type of IP literals:

* `IpLit`, `netOf`: an IPv4 literal `a.b.c.d` lies in the network `(a, b)`; an IPv6 literal with the
  eight 16-bit groups `g0 … g7` lies in the network `(g0, g1, g2, g3 / 256)` — its first 56 bits;
* `C19_spread`: if every returned clearnet peer carries, as its bucket, a label that is a function of
  the network of its address (what `str(IPv4Network(..).supernet(..))` is), then for every network at
  most **two** returned clearnet peers other than the server's own identities have their address in
  it.  (No injectivity of the labelling is needed for this direction: a labelling that merges two
  networks only makes the answer sparser.)

What stays outside Lean: that `bucket_for_external_interface` computes these prefixes (Python
`ipaddress`; pinned on a table by suite `peers`), and the parsing of `ip_addr` strings into literals
(`ip : PeerV → Option IpLit` is a parameter).
-/
namespace EV.Peers

/-- an IP literal: four octets, or eight 16-bit groups -/
inductive IpLit where
  | v4 (a b c d : Nat)
  | v6 (g0 g1 g2 g3 g4 g5 g6 g7 : Nat)
deriving Repr, DecidableEq

/-- a network in the sense of `bucket_for_external_interface` -/
inductive IpNet where
  | p16 (a b : Nat)               -- IPv4 a.b.0.0/16
  | p56 (g0 g1 g2 hi : Nat)       -- IPv6 g0:g1:g2:hi00::/56 (`hi` = the high byte of the 4th group)
deriving Repr, DecidableEq

/-- `IPv4Network(ip).supernet(prefixlen_diff=32-16)` / `IPv6Network(ip).supernet(prefixlen_diff=128-56)` -/
def netOf : IpLit → IpNet
  | .v4 a b _ _ => .p16 a b
  | .v6 g0 g1 g2 g3 _ _ _ _ => .p56 g0 g1 g2 (g3 / 256)

/-- **C19 (spread over networks).**  Let `ip` give the parsed `ip_addr` of a peer and `label` be the
rendering of networks as strings.  If every returned non-onion peer that has an address carries the
label of that address's network as its bucket (what `bucket_for_external_interface` returns), then
for every network `net` at most **two** returned non-onion peers other than the server's own
identities have their address in `net` — whatever the peer list, the requester kind and the shuffle
outcomes. -/
theorem C19_spread (now : Int) (peers myselves : List PeerV) (isTor : Bool)
    (shuf : Nat → List PeerV → List PeerV) (hshuf : IsShuffle shuf)
    (ip : PeerV → Option IpLit) (label : IpNet → String)
    (hlab : ∀ r ∈ onPeersSubscribe now peers myselves isTor shuf, r.isTor = false →
      ∀ a, ip r = some a → r.bucket = label (netOf a))
    (net : IpNet) :
    (onPeersSubscribe now peers myselves isTor shuf).countP
      (fun r => !r.isTor && decide ((ip r).map netOf = some net) && !isMyself myselves r) ≤ 2 := by
  refine Nat.le_trans (List.countP_mono_left ?_) (C19_bucket now peers myselves isTor shuf hshuf (label net))
  intro r hr hp
  simp only [Bool.and_eq_true, Bool.not_eq_eq_eq_not, Bool.not_true, decide_eq_true_eq] at hp ⊢
  obtain ⟨⟨h1, h2⟩, h3⟩ := hp
  refine ⟨⟨h1, ?_⟩, h3⟩
  cases hip : ip r with
  | none => rw [hip] at h2; simp at h2
  | some a =>
    rw [hip] at h2
    simp only [Option.map_some, Option.some.injEq] at h2
    rw [hlab r hr h1 a hip, h2]

/-! ### non-vacuity: a concrete answer -/

/-- a toy rendering of networks as strings (decimal rendering is Python's business) -/
def toyLabel : IpNet → String
  | .p16 a b => String.ofList ['4', Char.ofNat (48 + a), Char.ofNat (48 + b)]
  | .p56 g0 g1 g2 hi =>
    String.ofList ['6', Char.ofNat (48 + g0), Char.ofNat (48 + g1), Char.ofNat (48 + g2), Char.ofNat (48 + hi)]

def toyIp (p : PeerV) : Option IpLit :=
  if p.id = 1 then some (.v4 8 8 1 1) else if p.id = 2 then some (.v4 8 8 2 2)
  else if p.id = 3 then some (.v4 8 8 200 3) else if p.id = 4 then some (.v4 9 9 9 9)
  else if p.id = 5 then some (.v6 1 2 3 0x1234 0 0 0 1)
  else if p.id = 6 then some (.v6 1 2 3 0x12ff 0 0 0 2) else none

def toyPeer (i : Nat) : PeerV :=
  { id := i, host := "h", lastGood := 1000,
    bucket := match toyIp { id := i } with | some a => toyLabel (netOf a) | none => "" }

/-- same /16 for 8.8.1.1, 8.8.2.2, 8.8.200.3 (different /24s); same /56 for the two IPv6 literals
    (4th groups 0x1234 and 0x12ff: same high byte); 9.9.9.9 elsewhere -/
example : netOf (.v4 8 8 1 1) = netOf (.v4 8 8 200 3) ∧ netOf (.v4 8 8 1 1) ≠ netOf (.v4 9 9 9 9) ∧
    netOf (.v6 1 2 3 0x1234 0 0 0 1) = netOf (.v6 1 2 3 0x12ff 0 0 0 2) ∧
    netOf (.v6 1 2 3 0x1234 0 0 0 1) ≠ netOf (.v6 1 2 3 0x1334 0 0 0 1) := by decide

/-- six recent good peers, three of them in 8.8.0.0/16: the answer has two of those three, the one in
    9.9.0.0/16 and both IPv6 peers (one /56, two members) -/
example : (onPeersSubscribe 1000 (List.map toyPeer [1, 2, 3, 4, 5, 6]) [] false (fun _ l => l)).map (·.id)
    = [1, 2, 4, 5, 6] := by decide

/-- the hypothesis `hlab` of `C19_spread` holds of that answer (with `toyIp`, `toyLabel`), so the
    theorem applies to it: at most two returned peers in 8.8.0.0/16 — and exactly two are -/
example : (onPeersSubscribe 1000 (List.map toyPeer [1, 2, 3, 4, 5, 6]) [] false (fun _ l => l)).countP
      (fun r => !r.isTor && decide ((toyIp r).map netOf = some (.p16 8 8)) && !isMyself [] r) ≤ 2 := by
  apply C19_spread 1000 _ [] false (fun _ l => l) (fun _ l => List.Perm.refl l) toyIp toyLabel
  intro r hr hT a ha
  have hall : (onPeersSubscribe 1000 (List.map toyPeer [1, 2, 3, 4, 5, 6]) [] false (fun _ l => l)).all
      (fun r => match toyIp r with | some a => r.bucket == toyLabel (netOf a) | none => true) = true := by
    decide
  have := List.all_eq_true.mp hall r hr
  rw [ha] at this
  exact eq_of_beq this

example : (onPeersSubscribe 1000 (List.map toyPeer [1, 2, 3, 4, 5, 6]) [] false (fun _ l => l)).countP
      (fun r => !r.isTor && decide ((toyIp r).map netOf = some (.p16 8 8)) && !isMyself [] r) = 2 := by
  decide

end EV.Peers

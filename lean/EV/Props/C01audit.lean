import EV.Props.C01
import EV.Props.C03run

/-!
# C01 — audit strengthenings

* `C01run_balance` / `C01run_balance_end_to_end`: the confirmed balance.  `ElectrumX.get_balance`
  computes `sum(utxo.value for utxo in await self.db.all_utxos(hashX))`; `Spec.balanceOf` occurred in
  no theorem.  At every fully flushed state of the whole-run invariant the sum of the values of the
  `all_utxos` answer IS `Spec.balanceOf` of the chain (the answer is a permutation of the
  specification's UTXOs of the script hash: `C01_observables`).
* `C01run_committed_view`: what the model gives in states that are NOT fully flushed (between
  flushes, after a history-only flush while caught up).  Stated precisely below; in short: `DB.state`
  and the UTXO table on disk are those of the COMMITTED chain (the chain up to the last UTXO flush),
  `all_utxos` succeeds and returns the UTXOs of the committed chain, and a tx number above the
  committed height resolves to no hash (`limited_history` then answers `none` = "sleep and retry").
* a Props-level `ValidOps2` example with a genuine 4-byte prefix collision (all earlier examples had
  txids with prefix 0).
-/
namespace EV.Index
open EV.Spec

/-! ## confirmed balance -/

theorem foldl_add_perm {l₁ l₂ : List Nat} (p : l₁.Perm l₂) (z : Nat) :
    l₁.foldl (· + ·) z = l₂.foldl (· + ·) z := by
  induction p generalizing z with
  | nil => rfl
  | cons x _ ih => simp only [List.foldl_cons]; exact ih _
  | swap x y l =>
    simp only [List.foldl_cons]
    rw [Nat.add_right_comm]
  | trans _ _ ih1 ih2 => exact (ih1 z).trans (ih2 z)

/-- the sum `get_balance` computes over an `all_utxos` answer -/
def balanceOfRows (rows : List UtxoRow) : Nat := (rows.map (·.value)).foldl (· + ·) 0

/-- **C01 (confirmed balance).**  In a fully flushed state of the whole-run invariant (after any valid
run of advances, flushes, back-outs and restarts), `all_utxos` succeeds and the sum of the values it
returns — what `get_balance` reports as `confirmed` — is the specification's balance of the script
hash on the (surviving) chain. -/
theorem C01run_balance {cfg : Cfg} {chain : List Block} {K : List Nat} {s : Sys}
    (inv : FullInv' cfg chain K s) (hf : s.m.dbst.height = s.m.st.height) (hx : HashX) :
    ∃ rows, allUtxos s hx = some rows ∧
      balanceOfRows rows = balanceOf (specChain cfg.act chain) hx := by
  obtain ⟨u1, -, -, -⟩ := C01_observables inv.base (flushed_of_db inv.base hf)
  obtain ⟨rows, h1, hp⟩ := u1 hx
  refine ⟨rows, h1, ?_⟩
  unfold balanceOfRows balanceOf utxosOf
  rw [foldl_add_perm (hp.map (·.value)), List.map_map]
  rfl

/-- **C01 (confirmed balance), end to end**: any valid run with reorganisations and restarts, followed
by a full flush. -/
theorem C01run_balance_end_to_end (cfg : Cfg) (ops : List IOp2) (hv : ValidOps2 cfg {} ops) :
    ∃ s, runOps2 cfg {} (ops ++ [.flush true]) = .ok s ∧
      ∀ hx, ∃ rows, allUtxos s hx = some rows ∧
        balanceOfRows rows = balanceOf (specChain cfg.act (chainOf2 [] 0 ops)) hx := by
  obtain ⟨s, s0, K, h1, -, -, inv, hf, -⟩ := fresh_index cfg ops hv
  exact ⟨s, h1, fun hx => C01run_balance inv hf hx⟩

/-! ## non-flushed states: the committed view -/

/-- heights of committed tx numbers are the same whether read off the whole `tx_counts` or off the
    committed prefix -/
theorem bisect_take (chain : List Block) (k : Nat) {n : Nat}
    (hn : n < (allTxids (chain.take k)).length) :
    bisectRight (cumCounts chain) n = bisectRight (cumCounts (chain.take k)) n := by
  rw [cumCounts_take chain k]
  obtain ⟨c, hc, hlt⟩ := cumFrom_exists_gt 0 (chain.take k) (Nat.zero_le n) (by omega)
  exact (bisectRight_append_of_gt (cs := cumCounts (chain.take k)) ⟨c, hc, hlt⟩ _).1

theorem allTxids_getD_take (chain : List Block) (k : Nat) {n : Nat}
    (hn : n < (allTxids (chain.take k)).length) :
    (allTxids chain).getD n 0 = (allTxids (chain.take k)).getD n 0 := by
  have h := allTxids_append (chain.take k) (chain.drop k)
  rw [List.take_append_drop] at h
  rw [h, List.getD_eq_getElem?_getD, List.getD_eq_getElem?_getD, List.getElem?_append_left hn]

/-- **C01 (what the index answers between flushes — the committed view).**  In ANY state of the
whole-run invariant (flushed or not; `dbc` = the chain up to the last UTXO flush, `DB.state.height + 1`
blocks):

1. `DB.state` — what sessions and the header / merkle code read — is the state of an index of `dbc`:
   height, tx count, UTXO count, tip, chain size;
2. the `u` table on disk holds exactly the rows of the specification's UTXO set of `dbc`;
3. the tx number of every UTXO of `dbc` resolves (through the files, which may have been written
   ahead by history-only flushes, and the in-memory `tx_counts`, which cover the WHOLE chain) to that
   UTXO's txid and height;
4. hence `all_utxos` succeeds, and the rows it returns are exactly (as a set) the specification's
   UTXOs of the script hash on `dbc` — the UTXOs as of the last UTXO flush, not those of the blocks
   indexed since;
5. a tx number of a block ABOVE `DB.state.height` resolves to no hash, so `limited_history` of a
   script hash whose flushed history rows contain such a number (possible after a history-only flush)
   is `none` — the model's value for "sleep and retry" (`DB.limited_history` loops until the hashes
   are resolvable).

Not stated (not cheap): multiplicities in 4 ("each exactly once" is proved at fully flushed states
only: `C01run_observables`), and the exact list `limited_history` returns in a non-flushed state when
it does return (all numbers committed). -/
theorem C01run_committed_view {cfg : Cfg} {chain : List Block} {K : List Nat} {s : Sys}
    (inv : FullInv' cfg chain K s) :
    -- 1
    (s.m.dbst.height = (((chain.take (s.m.dbst.height + 1).toNat).length : Nat) : Int) - 1 ∧
      s.m.dbst.txCount = (specChain cfg.act (chain.take (s.m.dbst.height + 1).toNat)).txs.length ∧
      s.m.dbst.utxoCount =
        ((specChain cfg.act (chain.take (s.m.dbst.height + 1).toNat)).utxos.length : Int) ∧
      s.m.dbst.tip = ((chain.take (s.m.dbst.height + 1).toNat).getLast?.map (·.hash)).getD 0 ∧
      s.m.dbst.chainSize = ((chain.take (s.m.dbst.height + 1).toNat).map (·.size)).sum) ∧
    -- 2
    (∀ e, e ∈ s.p.u ↔
      ∃ u ∈ (specChain cfg.act (chain.take (s.m.dbst.height + 1).toNat)).utxos,
        e = (ukey u, u.value)) ∧
    -- 3
    (∀ u ∈ (specChain cfg.act (chain.take (s.m.dbst.height + 1).toNat)).utxos,
      fsTxHash s u.txnum = (some u.txid, u.height)) ∧
    -- 4
    (∀ hx, ∃ rows, allUtxos s hx = some rows ∧ ∀ r, r ∈ rows ↔
      ∃ u ∈ utxosOf (specChain cfg.act (chain.take (s.m.dbst.height + 1).toNat)) hx,
        r = ⟨u.txnum, u.idx, u.txid, u.height, u.value⟩) ∧
    -- 5
    (∀ n, s.m.dbst.height < (bisectRight (cumCounts chain) n : Int) → (fsTxHash s n).1 = none) := by
  have f := inv.base.files
  have hord := f.order
  have hK := f.dbK
  have hres3 : ∀ u ∈ (specChain cfg.act (chain.take (s.m.dbst.height + 1).toNat)).utxos,
      fsTxHash s u.txnum = (some u.txid, u.height) := by
    intro u hu
    have hs := (specOK_chain cfg.act (chain.take (s.m.dbst.height + 1).toNat)).utxoTx u hu
    obtain ⟨hid, hh⟩ := spec_height_eq_bisect cfg.act _ hs
    have hlt : u.txnum < (allTxids (chain.take (s.m.dbst.height + 1).toNat)).length := by
      rw [← specChain_txs_length cfg.act]
      exact (List.getElem?_eq_some_iff.mp hs).1
    rw [fsTxHash_eq, resolve_of_files f hlt, f.txCounts, bisect_take chain _ hlt,
      allTxids_getD_take chain _ hlt, ← hid, ← hh]
  refine ⟨⟨?_, ?_, inv.db.utxoCount, inv.base.dbTip, inv.db.chainSize⟩, inv.db.rowsU, hres3, ?_, ?_⟩
  · rw [List.length_take, Nat.min_eq_left hK]; omega
  · rw [specChain_txs_length]; exact f.dbTx
  · intro hx
    have hall : ∀ e ∈ s.p.u.filter (fun e => e.1.1 == hx),
        (match fsTxHash s e.1.2.2 with
         | (some h, ht) => some (⟨e.1.2.2, e.1.2.1, h, ht, e.2⟩ : UtxoRow)
         | (none, _) => none) =
        some ⟨e.1.2.2, e.1.2.1, ((fsTxHash s e.1.2.2).1).getD 0, (fsTxHash s e.1.2.2).2, e.2⟩ := by
      intro e he
      obtain ⟨u, hu, rfl⟩ := (inv.db.rowsU e).mp (List.mem_filter.mp he).1
      simp only [ukey]
      rw [hres3 u hu]
      rfl
    refine ⟨(s.p.u.filter (fun e => e.1.1 == hx)).map
      (fun e : UKey × Nat => (⟨e.1.2.2, e.1.2.1, ((fsTxHash s e.1.2.2).1).getD 0,
        (fsTxHash s e.1.2.2).2, e.2⟩ : UtxoRow)), ?_, ?_⟩
    · simp only [allUtxos]
      exact mapM_option_eq_some _ _ _ (by
        intro e he
        obtain ⟨⟨a, b, c⟩, v⟩ := e
        exact hall _ he)
    · intro r
      simp only [List.mem_map, List.mem_filter, utxosOf]
      constructor
      · rintro ⟨e, ⟨he, hhx⟩, rfl⟩
        obtain ⟨u, hu, rfl⟩ := (inv.db.rowsU e).mp he
        refine ⟨u, ⟨hu, by simpa [ukey] using hhx⟩, ?_⟩
        simp only [ukey]
        rw [hres3 u hu]
        rfl
      · rintro ⟨u, ⟨hu, hhx⟩, rfl⟩
        refine ⟨(ukey u, u.value), ⟨(inv.db.rowsU _).mpr ⟨u, hu, rfl⟩, by simpa [ukey] using hhx⟩, ?_⟩
        simp only [ukey]
        rw [hres3 u hu]
        rfl
  · intro n hn
    unfold fsTxHash
    simp only
    rw [f.txCounts, if_pos hn]

/-- …for every state a valid run passes through (the hypothesis is satisfiable: `C03run_every_step`
    produces such states, flushed or not) -/
theorem C01run_committed_view_run (cfg : Cfg) (ops : List IOp2) (hv : ValidOps2 cfg {} ops) (k : Nat) :
    ∃ s, runOps2 cfg {} (ops.take k) = .ok s ∧
      ∀ hx, ∃ rows, allUtxos s hx = some rows ∧ ∀ r, r ∈ rows ↔
        ∃ u ∈ utxosOf (specChain cfg.act
            ((chainOf2 [] 0 (ops.take k)).take (s.m.dbst.height + 1).toNat)) hx,
          r = ⟨u.txnum, u.idx, u.txid, u.height, u.value⟩ := by
  obtain ⟨s, h1, inv⟩ := C03run_every_step cfg ops hv k
  exact ⟨s, h1, (C01run_committed_view inv).2.2.2.1⟩

/-! ## non-vacuity with a real 4-byte prefix collision

Two transactions whose ids `5·2^224 + 1` and `5·2^224 + 2` share the 4-byte prefix 5 (`pfx`), each
creating output 0 — so their `h` rows have the same `(prefix, index)` part and `spend_utxo` has two
candidates, which it tells apart through the tx-number files.  Both are spent FROM DISK (a full flush
lies in between) by a third transaction; a back-out and re-advance of that block follow. -/

def colA : Hash := 5 * 2 ^ 224 + 1
def colB : Hash := 5 * 2 ^ 224 + 2

example : pfx colA = pfx colB ∧ colA ≠ colB := by decide

def colCfg : Cfg := { act := 1, reorgLimit := 2 }
def colB0 : Block :=
  ⟨7, 0, 100, 80, [⟨colA, [⟨0, 4294967295⟩], [⟨50, 1, .normal⟩]⟩,
                   ⟨colB, [⟨0, 4294967295⟩], [⟨60, 2, .normal⟩]⟩]⟩
/-- spends the second colliding output first, then the first -/
def colB1 : Block := ⟨8, 7, 101, 81, [⟨12, [⟨colB, 0⟩, ⟨colA, 0⟩], [⟨110, 3, .normal⟩]⟩]⟩

def colOps : List IOp2 :=
  [.adv colB0 0, .flush true, .adv colB1 1, .flush true, .backup colB1, .adv colB1 1, .flush false]

/-- `ValidOps2` holds of a run in which two rows with colliding compressed keys are spent from disk,
    restored by a back-out and spent again -/
example : ValidOps2 colCfg {} colOps := by decide

example : chainOf2 [] 0 colOps = [colB0, colB1] := by decide

/-- the state in the middle of the run (after the first full flush): both colliding outputs are on
    disk and `all_utxos` / the balance tell them apart -/
example :
    (allUtxos (okSysD (runOps2 colCfg {} (colOps.take 2))) 1).map (·.map (fun r => (r.txid, r.value)))
      = some [(colA, 50)] ∧
    (allUtxos (okSysD (runOps2 colCfg {} (colOps.take 2))) 2).map (·.map (fun r => (r.txid, r.value)))
      = some [(colB, 60)] := by decide

/-- the hypotheses of `C01run_balance` hold after the back-out (fully flushed, chain `[colB0]`), and
    those of `C01run_committed_view` at the end of the run (NOT fully flushed: one block committed,
    two indexed, history written ahead) -/
example : ∃ s, FullInv' colCfg [colB0] [0] s ∧ s.m.dbst.height = s.m.st.height := by
  obtain ⟨s, -, ti⟩ := trackInv_run (colOps.take 5) (trackInv_init colCfg) (by decide)
  exact ⟨s, ti.inv, ti.flushed (by decide)⟩

example : ∃ s, FullInv' colCfg [colB0, colB1] [1, 0] s ∧ s.m.dbst.height = 0 ∧ s.m.st.height = 1 ∧
    s.m.fsHeight = 1 := by
  obtain ⟨s, h, ti⟩ := trackInv_run colOps (trackInv_init colCfg) (by decide)
  have h2 : (okSysD (runOps2 colCfg {} colOps)).m.fsHeight = 1 := by decide
  rw [h] at h2
  exact ⟨s, ti.inv, ti.db, ti.inv.base.files.height, h2⟩

end EV.Index

import EV.Props.C08

/-!
# C09 — the mempool tracker survives every daemon race with its index intact

"Whatever the daemon does during a refresh - a block arrives, transactions vanish between listing
and fetching, a parent is confirmed while its child is fetched, the index is a block behind or
ahead, UTXO lookups miss - the refresh never raises, never records a transaction with a wrong input
value, script hash or fee, keeps its by-script-hash index the exact inverse of its transaction set,
and reaches the exact view of C08 on the next quiet refresh."

Model: `EV/Model/Mempool.lean`.  Every race in the statement is an instance of `EnvSound W fetch
lookup` (`EV/Proofs/MempoolAccept.lean`): `fetch h` may be `none` for any hash at any time (vanished,
confirmed meanwhile) but a delivered transaction is the one with that id; `lookup k ps` may answer
`None` for any prevout of any chunk (index behind, lookup miss, spent meanwhile) or the true pair
(index ahead or behind: outputs of blocks the daemon has or has not yet got) — never a false pair;
`allHashes` and the completion `order` of the chunk tasks are arbitrary (no relation to `fetch`
required); `Valid W` = transactions only name output indices that exist in their parent, which is
what rules out the one exception `_accept_transactions` does not catch (`IndexError`, see
`C09_counterexample_index_error`).

`MpInv W st` (`EV/Proofs/MempoolBasic.lean`) =
  `txs` has unique keys ∧ `hashXs` has unique keys, no empty and no duplicated sets ∧
  `h ∈ hashXs[x] ↔ ∃ tx, txs[h] = tx ∧ x` is a script hash of an input or output pair of `tx` ∧
  every stored `tx` under `h` has the prevouts, output pairs and size of *the* transaction `h`,
  `in_pairs = prevouts.map truePair` and `fee = max 0 (Σin − Σout)`.

What is validated rather than proved: that the awaits of the real coroutines fall where the model
cuts them (each chunk task touches shared state only in its final synchronous segment) — checked on
every run by the `mempool` suite's race entry, which injects an event at each suspension point.
-/
namespace EV.Mempool

/-- **C09 (the refresh never raises and keeps the invariant).**  From any `MpInv` state, under any
sound environment, for every listing, every completion order and every pending `touched`:
`_process_mempool` raises `DBSyncError` — before touching anything — iff the heights differ, and
otherwise returns with `MpInv` intact: no `KeyError` from `hashXs[hashX].remove`, no `IndexError`,
the loop fuel of the model never runs out. -/
theorem C09_inv (W : Hash → Option RawTx) (fetch : Hash → Option RawTx)
    (lookup : Nat → List Prevout → List (Option Pair)) (st : St)
    (hinv : MpInv W st) (henv : EnvSound W fetch lookup)
    (allHashes : List Hash) (order : List Nat) (touched : List HashX) (mh dbh : Int) :
    (mh ≠ dbh → processMempool st allHashes touched mh dbh fetch lookup order = .error .dbSyncError) ∧
    (mh = dbh → ∃ r, processMempool st allHashes touched mh dbh fetch lookup order = .ok r ∧
      MpInv W r.st ∧ (∀ e ∈ r.st.txs, e.1 ∈ allHashes)) := by
  constructor
  · intro hne
    simp only [processMempool, processMempoolN, ne_eq, hne, not_false_eq_true, if_true]
  · intro heq
    subst heq
    obtain ⟨r, h1, F⟩ := processMempoolN_sound (henv.soundOn allHashes) EV.Gen.mempoolChunk hinv
      touched mh order
    exact ⟨r, h1, F.inv, F.listed⟩

/-- **C09 (nothing wrong is ever recorded), spelled out.**  After such a refresh every stored
record is the true record of its transaction (input values and script hashes, fee) and the index
is the exact inverse of the transaction set. -/
theorem C09_truthful (W : Hash → Option RawTx) (fetch : Hash → Option RawTx)
    (lookup : Nat → List Prevout → List (Option Pair)) (st : St)
    (hinv : MpInv W st) (henv : EnvSound W fetch lookup)
    (allHashes : List Hash) (order : List Nat) (touched : List HashX) (h : Int) :
    ∃ r, processMempool st allHashes touched h h fetch lookup order = .ok r ∧
      (∀ e ∈ r.st.txs, ∃ t, W e.1 = some t ∧ e.2.prevouts = (mkTx t).prevouts ∧
        e.2.outPairs = t.outs ∧ e.2.inPairs.map some = e.2.prevouts.map (truePair W) ∧
        e.2.fee = max 0 (sumV e.2.inPairs - sumV e.2.outPairs)) ∧
      (∀ x k, (∃ s, (x, s) ∈ r.st.hashXs ∧ k ∈ s) ↔
        ∃ tx, (k, tx) ∈ r.st.txs ∧ x ∈ (tx.inPairs ++ tx.outPairs).map (·.1)) ∧
      (∀ e ∈ r.st.hashXs, e.2 ≠ []) := by
  obtain ⟨r, h1, h2, _⟩ := (C09_inv W fetch lookup st hinv henv allHashes order touched h h).2 rfl
  refine ⟨r, h1, ?_, ?_, ?_⟩
  · intro e he
    obtain ⟨t, g1, g2, g3, _, g5, g6⟩ := h2.true e he
    exact ⟨t, g1, g2, g3, g5, g6⟩
  · intro x k
    have := h2.inverse x k
    simp only [idx] at this
    rw [this]
    constructor
    · rintro ⟨tx, g1, g2⟩; exact ⟨tx, g1, mem_txHashXs.mp g2⟩
    · rintro ⟨tx, g1, g2⟩; exact ⟨tx, g1, mem_txHashXs.mpr g2⟩
  · exact fun e he => (h2.wf.sets e he).1

/-- **C09 (recovery).**  Whatever a racing refresh left behind, the next quiet refresh reaches the
exact view of C08: nothing dropped, exactly the specification pool, invariant intact. -/
theorem C09_recovers (W : Hash → Option RawTx) (st : St) (hinv : MpInv W st)
    -- the racing refresh
    (fetch₁ : Hash → Option RawTx) (lookup₁ : Nat → List Prevout → List (Option Pair))
    (henv₁ : EnvSound W fetch₁ lookup₁) (all₁ : List Hash) (order₁ : List Nat)
    (touched₁ : List HashX) (h₁ : Int)
    -- the quiet refresh after it
    (M : List Hash) (U : List (Prevout × Pair)) (fetch₂ : Hash → Option RawTx)
    (lookup₂ : Nat → List Prevout → List (Option Pair)) (henv₂ : EnvQuiet W M U fetch₂ lookup₂)
    (touched₂ : List HashX) (h₂ : Int) (order₂ : List Nat) :
    ∃ r₁, processMempool st all₁ touched₁ h₁ h₁ fetch₁ lookup₁ order₁ = .ok r₁ ∧
      (order₂.Perm (List.range (numChunks EV.Gen.mempoolChunk r₁.st M)) →
        ∃ r₂, processMempool r₁.st M touched₂ h₂ h₂ fetch₂ lookup₂ order₂ = .ok r₂ ∧
          r₂.dropped = [] ∧ r₂.st.txs.Perm (specPool W M U) ∧ MpInv W r₂.st) := by
  obtain ⟨r₁, g1, g2, _⟩ := (C09_inv W fetch₁ lookup₁ st hinv henv₁ all₁ order₁ touched₁ h₁ h₁).2 rfl
  exact ⟨r₁, g1, fun hord => C08_exact W M U fetch₂ lookup₂ r₁.st touched₂ h₂ order₂ g2 henv₂ hord⟩

/-- **C09 (height guard).**  One iteration of `_refresh_hashes` either changes nothing at all
(`continue` because the daemon height moved during the listing, or `DBSyncError` because the index
is at another height) or calls `on_mempool(touched, h)` exactly once with `h` = the daemon height
before the listing = the daemon height after the listing = the DB height when processing began,
and starts a fresh `touched`. -/
theorem C09_height_guard (cs : Nat) (l l' : Loop) (r : Round)
    (h : refreshRound cs l r = .ok l') :
    l' = l ∨
    (∃ p, processMempoolN cs l.st r.hashes l.touched r.cachedHeight r.dbHeight r.fetch r.lookup
            r.order = .ok p ∧
      l' = { st := p.st, touched := [], emits := l.emits ++ [(p.touched, r.cachedHeight)] } ∧
      r.cachedHeight = r.height ∧ r.cachedHeight = r.dbHeight) := by
  unfold refreshRound at h
  split at h
  · injection h with h; exact Or.inl h.symm
  · rename_i hh
    have hh' : r.cachedHeight = r.height := Classical.not_not.mp hh
    split at h
    · injection h with h; exact Or.inl h.symm
    · cases h
    · rename_i p hp
      injection h with h
      refine Or.inr ⟨p, hp, h.symm, hh', ?_⟩
      apply Classical.byContradiction
      intro hdb
      simp only [processMempoolN, ne_eq, hdb, not_false_eq_true, if_true] at hp
      cases hp

/-- **C09 (the whole task).**  `_refresh_hashes` run over *any* sequence of rounds, each with its
own sound environment (heights moving arbitrarily, index ahead or behind, any listing), never
raises, ends in an `MpInv` state, and every `on_mempool(h)` it made was guarded as above. -/
theorem C09_loop (W : Hash → Option RawTx) (rounds : List Round)
    (henv : ∀ r ∈ rounds, EnvSound W r.fetch r.lookup) :
    ∀ (l : Loop), MpInv W l.st →
      ∃ l', refreshLoop EV.Gen.mempoolChunk l rounds = .ok l' ∧ MpInv W l'.st ∧
        ∀ e ∈ l'.emits, e ∈ l.emits ∨
          ∃ r ∈ rounds, e.2 = r.cachedHeight ∧ r.cachedHeight = r.height ∧
            r.cachedHeight = r.dbHeight := by
  induction rounds with
  | nil => intro l hinv; exact ⟨l, rfl, hinv, fun e he => Or.inl he⟩
  | cons r rs ih =>
    intro l hinv
    obtain ⟨l1, h1, _⟩ := C08_touched_handed_over W l r hinv (henv r (by simp))
    have hinv1 : MpInv W l1.st := by
      rcases C09_height_guard _ _ _ _ h1 with g | ⟨p, g1, g2, g3, g4⟩
      · rw [g]; exact hinv
      · rw [g2]
        rw [← g4] at g1
        obtain ⟨p', g5, g6, _⟩ := (C09_inv W r.fetch r.lookup l.st hinv (henv r (by simp)) r.hashes
          r.order l.touched r.cachedHeight r.cachedHeight).2 rfl
        have : p = p' := by
          have := g1.symm.trans g5
          injection this
        exact this ▸ g6
    obtain ⟨l', h2, h3, h4⟩ := ih (fun r' hr' => henv r' (List.mem_cons_of_mem _ hr')) l1 hinv1
    refine ⟨l', by simp only [refreshLoop, h1]; exact h2, h3, ?_⟩
    intro e he
    rcases h4 e he with g | ⟨r', g1, g2⟩
    · rcases C09_height_guard _ _ _ _ h1 with g' | ⟨p, _, g2, g3, g4⟩
      · rw [g'] at g; exact Or.inl g
      · rw [g2] at g
        rcases List.mem_append.mp g with g5 | g5
        · exact Or.inl g5
        · have : e = (p.touched, r.cachedHeight) := by simpa using g5
          exact Or.inr ⟨r, by simp, by rw [this], g3, g4⟩
    · exact Or.inr ⟨r', List.mem_cons_of_mem _ g1, g2⟩

/-! ### non-vacuity: a racing world -/

namespace Race

open Example in
/-- the world of `C08.Example`, but: the daemon answers `None` for 10 (it was mined while the
    refresh was fetching), and the index — a block behind — knows only (5,1); the listing still
    names 10, 11, 12, 13 and an id (99) nobody can deliver -/
theorem sound : EnvSound (dget Example.tb)
    (fun h => if [10, 99].contains h then none else dget Example.tb h)
    (lookupFrom [((5, 1), (6, 30))]) :=
  envSound_of_table (by decide) (by decide) [10, 99]

/-- the hypotheses of `C09_inv` hold, and the run is not trivial: 13 is accepted, 11 and 12 are
    deferred and finally dropped, nothing raises -/
example : (resultOf (processMempool {} [12, 99, 13, 11, 10] [] 100 100
      (fun h => if [10, 99].contains h then none else dget Example.tb h)
      (lookupFrom [((5, 1), (6, 30))]) [0])).map
      (fun r => (r.st.txs.map (·.1), r.dropped)) = some ([13], [12, 11]) := by decide

example : ∃ r, processMempool {} [12, 99, 13, 11, 10] [] 100 100
      (fun h => if [10, 99].contains h then none else dget Example.tb h)
      (lookupFrom [((5, 1), (6, 30))]) [0] = .ok r ∧ MpInv (dget Example.tb) r.st ∧
      ∀ e ∈ r.st.txs, e.1 ∈ [12, 99, 13, 11, 10] :=
  (C09_inv _ _ _ _ (MpInv_empty _) sound _ _ _ 100 100).2 rfl

end Race

/-! ### why `Valid` is a hypothesis -/

namespace IndexError

/-- 31 names output 3 of 30, which has one output -/
def tb : Table :=
  [(30, { inputs := [(0, 4294967295)], outs := [(7, 50)], size := 100 }),
   (31, { inputs := [(30, 3)], outs := [(9, 40)], size := 90 })]

/-- `txs[prev_hash].out_pairs[prev_index]` raises `IndexError`, which `_accept_transactions` does
    not catch: the refresh task dies.  Every clause of `EnvSound` except `Valid` holds (the daemon
    delivers the true transactions, the index answers nothing).  Replayed on the real class by the
    `mempool` suite (`MALFORMED`); bitcoind never relays such a transaction. -/
theorem C09_counterexample_index_error :
    validB tb = false ∧
    outcome (processMempool {} [30, 31] [] 100 100 (dget tb) (lookupFrom []) [0]) =
      some .indexError := by decide

end IndexError

end EV.Mempool

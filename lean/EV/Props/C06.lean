import EV.Props.C06task
import EV.Proofs.Shutdown

/-!
# C06 — Shutdown at any moment leaves a consistent database and keeps finished work

The failure mode a shutdown can provoke is two writer jobs (flushes / block advance / back-out) at
the same time — the defect F6: `on_caught_up` and `reorg_chain` flushed outside `state_lock`, so a
cancellation during that flush started the shutdown flush alongside it.  Once writer jobs are
serialised, every execution is a sequential sequence of `advance`, `flush`, `backup` on the index,
whose persistent state is consistent after each of them (C01–C04), and the shutdown flush — which
can only start after the job in flight has finished — stores every block advanced before it.

This file proves the serialisation for every trace that obeys the locking discipline as
implemented (writer jobs are started by the task holding `state_lock`, which releases it only
after the job has returned; cancellation never releases it early because the holder is shielded);
suite `shutdown` ties the real task to the discipline: with the shutdown request injected at every
scheduling point (worker jobs gated at every storage effect) each real trace of lock and job events
must be accepted by `EV.Shutdown.step`, and the database is reopened and compared with the
specification of the chain at the stored height.
-/
namespace EV.Shutdown

/-- **C06 (mutual exclusion).**  After any event sequence accepted by the discipline, from the
initial state, at most one writer job is running, and the task that started it holds the lock. -/
theorem C06_mutex (es : List Ev) (st : St) (h : run {} es = some st) :
    st.running.length ≤ 1 ∧ ∀ t ∈ st.running, st.lock = some t := by
  have := run_inv (st := {}) (by intro t ht; simp at ht) (by simp) h
  exact ⟨running_le_one this.1 this.2, this.1⟩

/-- a second writer job can never be started while one is running (so the shutdown flush waits) -/
theorem C06_no_second_job (es : List Ev) (st : St) (h : run {} es = some st) (t t' : Nat)
    (ht : t ∈ st.running) : t' ≠ t → step st (.jobStart t') = none := by
  intro hne
  have := (C06_mutex es st h).2 t ht
  simp only [step, this]
  rw [if_neg]
  intro hh; simp at hh; exact hne hh.1.symm

/-- F6 at the pinned commit: a flush started without the lock is not accepted — and accepting it
    (i.e. the code as it was) allows two jobs: the shutdown flush's task 2 acquires the free lock
    and starts its job while task 1's unlocked flush is still running -/
theorem C06_counterexample_unlocked_flush :
    run {} [.jobStart 1] = none ∧
    (match step { lock := none, running := [1] } (.acquire 2) with
     | some st => (step st (.jobStart 2)).map (·.running.length)
     | none => none) = some 2 := by decide

/-! non-vacuity: a normal cycle and a cancelled one are accepted -/
example : (run {} [.acquire 1, .jobStart 1, .jobEnd 1, .release 1, .acquire 2, .jobStart 2, .jobEnd 2, .release 2]).isSome := by
  decide

end EV.Shutdown

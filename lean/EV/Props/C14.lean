import EV.Proofs.CompactIndex
import EV.Proofs.CompactTotal
import EV.Proofs.CompactBackup
import EV.Gen.Consts

/-!
# C14 — history compaction never changes any script hash's history

> Running the history compaction tool on any database - in one go, stopped and resumed after any
> batch, or killed between batches - leaves every script hash's history exactly as before; a server
> started after a complete or abandoned compaction serves the same histories, and blocks indexed or
> undone afterwards still yield exact, ordered histories.

Model: `EV/Model/Compact.lean` (literal model of `History._compact_hashX / _compact_prefix /
_compact_history / _flush_compaction`, the driver script `electrumx_compact_history`,
`DB.set_flush_count`) on the store of `EV/Model/Index.lean` (`getTxnums`, `openDbs` with
`clear_excess` and `_cancel_compaction`, `histFlushEffect`); tied to the real classes on LevelDB by
the `compaction` suite on every run.

The history of a script hash is `getTxnums p hx none` (what `History.get_txnums(hashX, None)`
yields: the rows of the hashX concatenated in key order).  All theorems are for **every** store,
every row length (rows longer than a compacted row included), every `max_hist_row_entries > 0`, every
batch limit (0 included), every number of batches.

Hypotheses, all explicit predicates (non-vacuity examples at the end of the file):
* `NodupKeys hist` - a LevelDB table holds each key once (the model keeps tables as lists);
* `HxWidth hist` - hashXs are 11 bytes (`hx < 2^88`): only such keys are reached by the 65536 prefixes;
* `IdsOrdered hist F cfc cursor` - **the ordering hypothesis**: ids of hashXs below the compaction
  cursor are `≤ comp_flush_count`, all others `≤ flush_count`.  With no compaction in progress
  (`cursor = -1`) it says that every id is `≤ flush_count`, i.e. that key order has been chronological
  order so far *and stays so for the next flush*;
* `IdsTight`, `CfcTight` - compacted hashXs occupy exactly ids `0 … n-1`, and `comp_flush_count` is
  `≤ 1` or one less than the row count of some hashX (both hold trivially when no compaction is in
  progress; they are what a partly compacted database looks like);
* `hF p ≤ uF p` (`PInv.notAhead`) - the history DB is not ahead of the UTXO DB: otherwise the first
  thing any start does is `clear_excess`, which deletes rows by design (C04's business, not C14's).
Width facts that the *model* does not need because its ids are unbounded naturals, but the
correspondence with the byte-level code does: flush ids `< 2^16` (at 65536 `pack_be_uint16` raises:
modelled as `CErr.structError` inside `_compact_hashX`, never reached by the suite), tx numbers `< 2^40`.
-/
namespace EV.Compact
open EV.Index

/-! ### constants read from the source (`harness/gen_consts.py`) -/

/-- `util.chunks` needs a positive row size (12500 at present) -/
theorem C14_maxRow_pos : 0 < EV.Gen.maxHistRowEntries := by decide

/-- the 2-byte prefix of an 11-byte hashX: `prefixOf hx = hx / 256^(HASHX_LEN - 2)` -/
theorem C14_prefix_width : (2 : Nat) ^ 72 = 256 ^ (EV.Gen.hashXLen - 2) := by decide

/-! ### one batch -/

/-- **C14 (one batch, histories).**  A `_compact_history(limit)` call that returns leaves
`get_txnums` of **every** hashX - compacted in this batch, earlier, or not yet - unchanged; it
commits exactly one write batch.  Needs nothing but distinct keys.  (A call that raises has not
reached `_flush_compaction`: `compactHistory` then yields no effect at all.) -/
theorem C14_batch_histories (maxRow limit : Nat) (hm : 0 < maxRow) (s : Sys) (e : Effect) (s' : Sys)
    (hn : NodupKeys s.p.hist) (h : compactHistory maxRow limit s = .ok (e, s')) :
    (∀ hx, getTxnums s'.p hx none = getTxnums s.p hx none) ∧ NodupKeys s'.p.hist := by
  obtain ⟨k, cfc', _, _, hok, _, _, _, _, _, hp, _⟩ := compactHistory_ok maxRow limit s e s' hn h
  refine ⟨fun hx => ?_, ?_⟩
  · rw [hp]; exact getTxnums_after_batch maxRow hm s.p hn _ _ _ hok _ hx
  · rw [hp]; exact (hist_after_batch maxRow s.p hn _ _ _ hok _).1

/-- **C14 (one batch).**  For every system whose rows satisfy the ordering hypothesis and every
limit: one `_compact_history` batch leaves the history of every hashX unchanged, is one atomic
`histBatch` (deletes, then puts, then the state record, which equals the in-memory state), touches
no other table, and re-establishes the ordering hypothesis (`SInv`) for the next batch. -/
theorem C14_batch (maxRow limit : Nat) (hm : 0 < maxRow) (s : Sys) (e : Effect) (s' : Sys)
    (hI : SInv maxRow s) (h : compactHistory maxRow limit s = .ok (e, s')) :
    (∀ hx, getTxnums s'.p hx none = getTxnums s.p hx none) ∧ SInv maxRow s' ∧
    s'.p = applyEffect s.p e ∧ (∃ dels puts, e = .histBatch dels puts (hstateOf s'.m)) ∧
    SameOther s.p s'.p := by
  obtain ⟨h1, h2, h3, h4, _, h6, _, _⟩ := batch_inv maxRow limit hm s e s' hI h
  exact ⟨h1, h2, h3, h4, h6⟩

/-- the same for the row size of the source -/
theorem C14_batch_pinned (limit : Nat) (s : Sys) (e : Effect) (s' : Sys)
    (hI : SInv EV.Gen.maxHistRowEntries s)
    (h : compactHistory EV.Gen.maxHistRowEntries limit s = .ok (e, s')) :
    (∀ hx, getTxnums s'.p hx none = getTxnums s.p hx none) ∧ SInv EV.Gen.maxHistRowEntries s' :=
  let r := C14_batch EV.Gen.maxHistRowEntries limit C14_maxRow_pos s e s' hI h
  ⟨r.1, r.2.1⟩

/-- **C14 (a batch does not raise).**  The batch theorems are not vacuous: on a table without empty
rows (`History.flush` / `History.backup` / compaction never write one) in which no hashX needs more
than 65536 rows, `_compact_history(limit)` returns for every limit, given a compaction cursor `≥ 0`
(the driver script provides it) - and both hypotheses hold again afterwards.  Outside them the real
code raises (`assert n + 1 == nrows`, `struct.error`), modelled as `CErr`, before anything is written. -/
theorem C14_batch_total (maxRow limit : Nat) (hm : 0 < maxRow) (s : Sys) (hT : TInv maxRow s)
    (hc : 0 ≤ s.m.compCursor ∨ limit = 0) :
    ∃ e s', compactHistory maxRow limit s = .ok (e, s') ∧ TInv maxRow s' := by
  obtain ⟨e, s', h⟩ := compactHistory_total maxRow limit hm s hT.nodup hT.noEmpty hT.rowCount hc
  exact ⟨e, s', h, tinv_batch maxRow limit hm s e s' hT h⟩

/-! ### any interruption -/

theorem allOK_take (cfg : Cfg) (maxRow : Nat) (p : Store) (evs : List Ev) (n : Nat)
    (h : AllOK cfg maxRow p evs) : AllOK cfg maxRow p (evs.take n) := by
  induction evs generalizing p n with
  | nil => simp [AllOK]
  | cons ev evs ih =>
    cases n with
    | zero => simp [AllOK]
    | succ n => exact ⟨h.1, ih _ n h.2⟩

/-- when `set_flush_count` is never lost, no side condition is needed -/
theorem allOK_of_setFlush (cfg : Cfg) (maxRow : Nat) (p : Store) (evs : List Ev)
    (h : ∀ limits b, Ev.compact limits b ∈ evs → b = true) : AllOK cfg maxRow p evs := by
  induction evs generalizing p with
  | nil => trivial
  | cons ev evs ih =>
    refine ⟨?_, ih _ (fun l b hm => h l b (List.mem_cons_of_mem _ hm))⟩
    cases ev with
    | compact l b => exact Or.inl (h l b List.mem_cons_self)
    | serverStart => trivial

/-- **C14 (any interruption).**  Take any sequence of processes on the database directory: runs of
the compaction script that are stopped or killed after any number of batches (each batch with any
limit; batches are atomic, so "killed during a batch" is "before" or "after" it), that resume where
the state record says, or that run to the end and die before or after `set_flush_count`; and normal
server starts in between.  Then at **every** point of the sequence the history of every hashX is
what it was at the start, the invariant holds again, and a server opened at that point
(`open_for_sync` / `open_for_serving`: `clear_excess`, `_cancel_compaction`) serves the same
histories.
Side condition (`AllOK`): a run whose `set_flush_count` is lost must start from a store whose UTXO
flush count is `≥ 1` and covers the compacted row ids (`RowsFit … (uF p)`): without it the claim is
false - `C14_counterexample_lost_set_flush_count_clear_excess`. -/
theorem C14_any_interruption (cfg : Cfg) (maxRow : Nat) (hm : 0 < maxRow) (p0 : Store) (evs : List Ev)
    (hP : PInv maxRow p0) (hok : AllOK cfg maxRow p0 evs) (n : Nat) :
    (∀ hx, getTxnums (runEvs cfg maxRow p0 (evs.take n)) hx none = getTxnums p0 hx none) ∧
    PInv maxRow (runEvs cfg maxRow p0 (evs.take n)) ∧
    (∀ keep es s, openDbs cfg (runEvs cfg maxRow p0 (evs.take n)) false keep = some (es, s) →
      ∀ hx, getTxnums s.p hx none = getTxnums p0 hx none) := by
  obtain ⟨h1, h2⟩ := runEvs_inv cfg maxRow hm p0 (evs.take n) hP (allOK_take cfg maxRow p0 evs n hok)
  refine ⟨h1, h2, ?_⟩
  intro keep es s ho hx
  obtain ⟨o1, _⟩ := openDbs_spec cfg _ false keep es s h2.notAhead ho
  rw [getTxnums_hist_congr o1, h1]

/-- **C14 (any interruption, unrestricted).**  If no run loses its `set_flush_count`, nothing but
the invariant is assumed of the database. -/
theorem C14_any_interruption_unrestricted (cfg : Cfg) (maxRow : Nat) (hm : 0 < maxRow) (p0 : Store)
    (evs : List Ev) (hP : PInv maxRow p0)
    (hset : ∀ limits b, Ev.compact limits b ∈ evs → b = true) (n : Nat) :
    (∀ hx, getTxnums (runEvs cfg maxRow p0 (evs.take n)) hx none = getTxnums p0 hx none) ∧
    PInv maxRow (runEvs cfg maxRow p0 (evs.take n)) :=
  let r := C14_any_interruption cfg maxRow hm p0 evs hP (allOK_of_setFlush cfg maxRow p0 evs hset) n
  ⟨r.1, r.2.1⟩

/-- **C14 (in one go).**  The script with positive limits (it uses 8 000 000) allowed to run - 65536
iterations always suffice, each batch handles at least one prefix - on a database it can open
(`openDbs … = some`, `first_sync` false), without empty rows or hashXs of more than 65536 rows: it
does reach the end; afterwards every history is unchanged, no compaction is in progress on disk, both
flush counts agree, and every row id is `≤` the flush count (so `C14_then_index` applies with its
first alternative). -/
theorem C14_one_go (cfg : Cfg) (maxRow : Nat) (hm : 0 < maxRow) (p : Store) (limits : List Nat)
    (hP : PInv maxRow p) (he : NoEmptyRows p.hist) (hw : RowCountOK maxRow p)
    (hcur : (hsOf p).compCursor = -1 ∨ (0 ≤ (hsOf p).compCursor ∧ (hsOf p).compCursor < 65536))
    (hl : ∀ l ∈ limits, 0 < l) (hlen : 65536 ≤ limits.length)
    (es : List Effect) (s : Sys) (ho : openDbs cfg p true none = some (es, s))
    (hfs : s.m.dbst.firstSync = false) :
    (∀ hx, getTxnums (compactScript cfg maxRow p limits true) hx none = getTxnums p hx none) ∧
    PInv maxRow (compactScript cfg maxRow p limits true) ∧
    (hsOf (compactScript cfg maxRow p limits true)).compCursor = -1 ∧
    uF (compactScript cfg maxRow p limits true) = hF (compactScript cfg maxRow p limits true) ∧
    AllIdsLE (compactScript cfg maxRow p limits true) := by
  obtain ⟨h1, h2⟩ := compactScript_inv cfg maxRow hm p limits true hP (Or.inl rfl)
  obtain ⟨h3, h4⟩ := compactScript_completes cfg maxRow hm p limits hP he hw hcur hl hlen es s ho hfs
  exact ⟨h1, h2, h3, h4, allIdsLE_of_idle h2 h3⟩

/-! ### indexing afterwards -/

/-- **C14 (then index).**  Let `p` be any store the sequences above can reach (`PInv`), on which
either no compaction is in progress - in particular after a **complete** compaction, with or
without `set_flush_count` - or an **abandoned** one under the property's restriction: no hashX needs
more compacted rows than the flush count allows (`RowsFit maxRow p (hF p)`: at most `flush_count + 1`
rows, ids `0 … flush_count`; the property says "not more rows than the flush count").
Open it normally, let the block processor accumulate any `unflushed` dict, and flush: the flush id
`flush_count + 1` is larger than every existing id of every hashX, so for **every** hashX the new tx
numbers are appended to its history and nothing else changes; ids are again all `≤` the new flush
count (so the statement applies to the next flush as well), and the state record written has the
compaction fields cancelled. -/
theorem C14_then_index (cfg : Cfg) (maxRow : Nat) (p : Store) (hP : PInv maxRow p)
    (hcase : (hsOf p).compCursor = -1 ∨ RowsFit maxRow p (hF p))
    (keep : Option (List Nat)) (es : List Effect) (s0 : Sys)
    (ho : openDbs cfg p false keep = some (es, s0))
    (s : Sys) (hp : s.p = s0.p) (hm : s.m.histFlush = s0.m.histFlush)
    (hcf : s.m.compFlush = s0.m.compFlush) (hcc : s.m.compCursor = s0.m.compCursor)
    (hu : (s.m.unflushed.map (·.1)).Nodup) :
    (∀ e ∈ s.p.hist, e.1.2 < s.m.histFlush + 1) ∧
    (∀ hx, getTxnums (applyEffect s.p (histFlushEffect s)) hx none =
      getTxnums p hx none ++ (alookup hx s.m.unflushed).getD []) ∧
    NodupKeys (applyEffect s.p (histFlushEffect s)).hist ∧
    AllIdsLE (applyEffect s.p (histFlushEffect s)) ∧
    (applyEffect s.p (histFlushEffect s)).hstate =
      some { flushCount := hF p + 1, compFlushCount := -1, compCursor := -1 } := by
  obtain ⟨o1, _, _, o4, _, o6, o7⟩ := openDbs_spec cfg p false keep es s0 hP.notAhead ho
  have hle : AllIdsLE p := by
    rcases hcase with hc | hc
    · exact allIdsLE_of_idle hP hc
    · exact allIdsLE_of_fit hP hc
  have hhist : s.p.hist = p.hist := by rw [hp, o1]
  have hfl : s.m.histFlush = hF p := by rw [hm, o4]
  have hn : NodupKeys s.p.hist := by rw [hhist]; exact hP.nodup
  have hle' : ∀ e ∈ s.p.hist, e.1.2 ≤ s.m.histFlush := by
    intro e he; rw [hhist] at he; rw [hfl]; exact hle e he
  obtain ⟨f1, f2, f3, f4, _⟩ := histFlush_appends s hn hle' hu
  refine ⟨fun e he => by have := hle' e he; omega, ?_, f1, ?_, ?_⟩
  · intro hx; rw [f2, getTxnums_hist_congr hhist]
  · intro e he
    have := f3 e he
    unfold hF hsOf; rw [f4]; exact this
  · rw [f4]; unfold hstateOf
    simp only [Bool.false_eq_true, if_false] at o6 o7
    rw [hfl, hcf, hcc, o6, o7]

/-- **C14 (then index, and on).**  Under the hypotheses of `C14_then_index`, with 11-byte hashXs in
the `unflushed` dict: once the UTXO DB has caught up with the flush (`uF ≥ flush_count + 1`: the
UTXO batch of the same `flush_dbs` writes it), the store satisfies the invariant `PInv` again - so
`C14_any_interruption` applies to the next compaction, and `C14_then_index` to the flush after it. -/
theorem C14_then_index_again (cfg : Cfg) (maxRow : Nat) (p : Store) (hP : PInv maxRow p)
    (hcase : (hsOf p).compCursor = -1 ∨ RowsFit maxRow p (hF p))
    (keep : Option (List Nat)) (es : List Effect) (s0 : Sys)
    (ho : openDbs cfg p false keep = some (es, s0))
    (s : Sys) (hp : s.p = s0.p) (hm : s.m.histFlush = s0.m.histFlush)
    (hcf : s.m.compFlush = s0.m.compFlush) (hcc : s.m.compCursor = s0.m.compCursor)
    (hu : (s.m.unflushed.map (·.1)).Nodup) (huw : ∀ e ∈ s.m.unflushed, e.1 < 2 ^ 88)
    (p' : Store) (h1 : p'.hist = (applyEffect s.p (histFlushEffect s)).hist)
    (h2 : p'.hstate = (applyEffect s.p (histFlushEffect s)).hstate) (h3 : hF p + 1 ≤ uF p') :
    PInv maxRow p' := by
  obtain ⟨o1, _, _, o4, _, _, _⟩ := openDbs_spec cfg p false keep es s0 hP.notAhead ho
  obtain ⟨_, _, t3, t4, t5⟩ := C14_then_index cfg maxRow p hP hcase keep es s0 ho s hp hm hcf hcc hu
  have hle : AllIdsLE p := by
    rcases hcase with hc | hc
    · exact allIdsLE_of_idle hP hc
    · exact allIdsLE_of_fit hP hc
  have hhist : s.p.hist = p.hist := by rw [hp, o1]
  have hfl : s.m.histFlush = hF p := by rw [hm, o4]
  have hn : NodupKeys s.p.hist := by rw [hhist]; exact hP.nodup
  have hle' : ∀ e ∈ s.p.hist, e.1.2 ≤ s.m.histFlush := by
    intro e he; rw [hhist] at he; rw [hfl]; exact hle e he
  obtain ⟨_, _, _, _, f5⟩ := histFlush_appends s hn hle' hu
  have hs : hsOf p' = { flushCount := hF p + 1, compFlushCount := -1, compCursor := -1 } := by
    unfold hsOf; rw [h2, t5]; rfl
  have hf : hF p' = hF p + 1 := by show (hsOf p').flushCount = hF p + 1; rw [hs]
  refine ⟨by rw [h1]; exact t3, ?_, ?_, ?_, ?_, by rw [hf]; exact h3⟩
  · intro e he
    rw [h1] at he
    rcases f5 e he with h | h
    · rw [hhist] at h; exact hP.width e h
    · exact huw _ h
  · intro e he
    rw [hs]
    have hlt : ¬ ((prefixOf e.1.1 : Int) < -1) := by omega
    simp only [if_neg hlt]
    rw [h1] at he
    have := t4 e he
    unfold hF hsOf at this ⊢
    rw [t5] at this
    rw [h2, t5]
    exact this
  · intro e _ hlt; rw [hs] at hlt; simp only at hlt; omega
  · rw [hs]; left; simp only; omega

/-- **C14 (then undo).**  `History.backup(hashXs, tx_count)` - what undoing blocks does to the
history DB - on **any** table with distinct keys, hence on every store the sequences above can
reach, compacted, partly compacted or not, before or after further flushes: every touched hashX
whose history is ascending (chronological: tx numbers only grow; compaction does not change
histories, so it does not change this either) keeps exactly its entries below `tx_count`, every
other hashX keeps its history, keys stay distinct and no new key appears (so all ids stay `≤` the
flush count, which `backup` increments). -/
theorem C14_then_undo (s : Sys) (touched : List HashX) (tc : Nat) (hn : NodupKeys s.p.hist) :
    NodupKeys (applyEffect s.p (histBackupEffect s touched tc)).hist ∧
    (∀ hx ∈ touched, (getTxnums s.p hx none).Pairwise (· ≤ ·) →
      getTxnums (applyEffect s.p (histBackupEffect s touched tc)) hx none =
        (getTxnums s.p hx none).takeWhile (fun n => decide (n < tc))) ∧
    (∀ hx, hx ∉ touched →
      getTxnums (applyEffect s.p (histBackupEffect s touched tc)) hx none = getTxnums s.p hx none) ∧
    (∀ e ∈ (applyEffect s.p (histBackupEffect s touched tc)).hist, ∃ e' ∈ s.p.hist, e'.1 = e.1) :=
  histBackup_truncates s touched tc hn

/-! ### the property fails where the proof needs its side conditions -/

set_option linter.unusedSimpArgs false

/-- evaluate the model on literals (`decide` cannot unfold `List.mergeSort`, which is defined by
    well-founded recursion; `simp` rewrites with its equations) -/
syntax "ev_eval" "[" Lean.Parser.Tactic.simpLemma,* "]" : tactic
macro_rules
  | `(tactic| ev_eval [$ls,*]) => `(tactic|
    simp (config := { decide := true }) [compactScript, serverStart, openDbs, openStore, openStore1, openUndoEffects,
      openHistState, openState, openTxCounts, sysOps, finishTx, spendUtxo, clearExcessEffect, applyEffects,
      applyEffect, clearUndoKeys, driverInit, driverLoop, compactHistory, histLoop, compactPrefix, scanPrefix,
      prefixLoop, compactHashX, chunkLoop, chunks, chunksAux, fullHist, nrowsOf, flushCompaction, prefixOf,
      statePrefix, keyLE, setFlushCountEffect, advance, advanceTxs, spendInputs, addOutputs, unspendable,
      addUnflushed, ainsert, aerase, alookup, flushDbs, flush, assertFlushed, flushFsAsserts, flushFsEffects,
      histFlushEffect, utxoBatchEffect, sortByKey, hstateOf, fileWrite, getTxnums, pfx, applyDelKey, List.zipIdx,
      List.eraseDups, List.eraseDupsBy, List.eraseDupsBy.loop, List.mergeSort,
      List.MergeSort.Internal.splitInTwo, List.merge, $ls,*])

namespace Cex

def cfg : Cfg := { act := 0, reorgLimit := 10 }
/-- a hashX of the last 2-byte prefix (so that a resumed compaction has one prefix left to do) -/
def hx : HashX := 65535 * 2 ^ 72 + 7

/-- a database flushed four times (one tx number of `hx` per flush), compaction in progress with
    everything but the last prefix done.  `F` = flush count of the UTXO DB. -/
def pre : Store :=
  { ustate := some { height := 0, txCount := 4, chainSize := 100, tip := 1000, flushCount := 4,
                     utxoCount := 0, firstSync := false },
    hist := [((hx, 1), [0]), ((hx, 2), [1]), ((hx, 3), [2]), ((hx, 4), [3])],
    hstate := some { flushCount := 4, compFlushCount := 1, compCursor := 65535 },
    headers := [500], txcounts := [4], hashes := [10, 11, 12, 13] }

/-- the same database after the compaction has completed; `uflush` = UTXO flush count on disk -/
def post (uflush : Nat) : Store :=
  { ustate := some { height := 0, txCount := 4, chainSize := 100, tip := 1000, flushCount := uflush,
                     utxoCount := 0, firstSync := false },
    hist := [((hx, 0), [0, 1, 2, 3])],
    hstate := some { flushCount := 1, compFlushCount := -1, compCursor := -1 },
    headers := [500], txcounts := [4], hashes := [10, 11, 12, 13] }

/-- block 1: one transaction (tx number 4) paying `hx` -/
def blk : Block := ⟨1001, 1000, 501, 50, [⟨14, [], [⟨5, hx, .normal⟩]⟩]⟩

def exToOpt {α : Type} : Except Err α → Option α
  | .ok a => some a
  | .error _ => none

/-- server start on `p`, index block 1, flush - the process dies after the first `k` effects of the
    flush (`k = 4`: after the history commit, before the UTXO commit); server start, index block 1
    again, flush completely.  Result: the history of `hx`. -/
def crashDuringFlush (p : Store) (k : Nat) : Option (List Nat) :=
  (openDbs cfg p false none).bind fun r0 =>
  (exToOpt (advance cfg 1 r0.2 blk)).bind fun s1 =>
  (flushDbs s1 true).bind fun f1 =>
  (openDbs cfg (applyEffects s1.p (f1.1.take k)) false none).bind fun r2 =>
  (exToOpt (advance cfg 1 r2.2 blk)).bind fun s3 =>
  (exToOpt (flush s3 true)).bind fun s4 =>
  some (getTxnums s4.p hx none)

end Cex

open Cex in
/-- **Finding F9 (C14 × C04).**  The last batch of a compaction commits, the process dies before
`set_flush_count`: the history DB's flush count (1) is now *below* the UTXO DB's (4).  Histories are
intact (first two clauses: `C14_any_interruption` covers this point).  But if the server then crashes
between the history commit and the UTXO commit of its next flush, `clear_excess` does not fire
(`2 ≤ 4`), the uncommitted row survives, and re-indexing the block appends tx number 4 a second time:
`[0,1,2,3,4,4]`.  With `set_flush_count` done (`post 1`) the same crash is repaired: `[0,1,2,3,4]`. -/
theorem C14_counterexample_after_lost_set_flush_count :
    compactScript cfg 4 pre [8000000] false = post 4 ∧
    getTxnums (post 4) hx none = getTxnums pre hx none ∧
    crashDuringFlush (post 4) 4 = some [0, 1, 2, 3, 4, 4] ∧
    compactScript cfg 4 pre [8000000] true = post 1 ∧
    crashDuringFlush (post 1) 4 = some [0, 1, 2, 3, 4] := by
  refine ⟨?_, ?_, ?_, ?_, ?_⟩
  · ev_eval [pre, post, cfg, hx]
  · ev_eval [pre, post, cfg, hx]
  · ev_eval [crashDuringFlush, post, cfg, hx, blk, exToOpt]
  · ev_eval [pre, post, cfg, hx]
  · ev_eval [crashDuringFlush, post, cfg, hx, blk, exToOpt]

namespace Cex

/-- one flush so far; `hx` has ten entries in its one row; compaction in progress, last prefix left -/
def pre2 : Store :=
  { ustate := some { height := 0, txCount := 10, chainSize := 100, tip := 1000, flushCount := 1,
                     utxoCount := 0, firstSync := false },
    hist := [((hx, 1), [0, 1, 2, 3, 4, 5, 6, 7, 8, 9])],
    hstate := some { flushCount := 1, compFlushCount := 1, compCursor := 65535 },
    headers := [500], txcounts := [10], hashes := [10, 11, 12, 13, 14, 15, 16, 17, 18, 19] }

end Cex

open Cex in
/-- **Finding F9b.**  Same lost `set_flush_count`, on a database where a hashX needs more compacted
rows (3: ids 0,1,2) than the UTXO flush count (1) covers.  The compaction itself preserves the
history, but it sets the history flush count to 2 > 1, so the next start of *anything* runs
`clear_excess` and deletes row 2: entries 8 and 9 are gone.  This is why `C14_any_interruption` has
the side condition `AllOK`; with `set_flush_count` done the history survives the start. -/
theorem C14_counterexample_lost_set_flush_count_clear_excess :
    getTxnums (compactScript cfg 4 pre2 [8000000] false) hx none = getTxnums pre2 hx none ∧
    getTxnums (serverStart cfg (compactScript cfg 4 pre2 [8000000] false)) hx none = [0, 1, 2, 3, 4, 5, 6, 7] ∧
    getTxnums (serverStart cfg (compactScript cfg 4 pre2 [8000000] true)) hx none = getTxnums pre2 hx none ∧
    ¬ RowsFit 4 pre2 (uF pre2) := by
  refine ⟨?_, ?_, ?_, ?_⟩
  · ev_eval [pre2, cfg, hx]
  · ev_eval [pre2, cfg, hx]
  · ev_eval [pre2, cfg, hx]
  · intro h
    have := h hx
    revert this
    ev_eval [nchunks, pre2, uF, hx]

namespace Cex

/-- one flush so far, ten entries of `hx0` (prefix 0) in one row, no compaction in progress -/
def hx0 : HashX := 7
def pre3 : Store :=
  { ustate := some { height := 0, txCount := 10, chainSize := 100, tip := 1000, flushCount := 1,
                     utxoCount := 0, firstSync := false },
    hist := [((hx0, 1), [0, 1, 2, 3, 4, 5, 6, 7, 8, 9])],
    hstate := some { flushCount := 1, compFlushCount := -1, compCursor := -1 },
    headers := [500], txcounts := [10], hashes := [10, 11, 12, 13, 14, 15, 16, 17, 18, 19] }

/-- the server's memory after a normal start on `p` and indexing one tx (number 10) that touches `hx0` -/
def afterStart (p : Store) : Option Sys :=
  (openDbs cfg p false none).map fun r => { r.2 with m := { r.2.m with unflushed := [(hx0, [10])] } }

end Cex

open Cex in
/-- **The restriction of the abandoned-then-index clause is needed.**  A compaction is abandoned
after its first batch (limit 1: the batch stops after prefix 0); `hx0` now has rows 0,1,2 but the
flush count is still 1.  The server's next flush writes under id 2 - *onto* the third compacted
row: entries 8 and 9 are lost.  (`RowsFit` fails: 3 rows > flush count + 1.) -/
theorem C14_restriction_needed :
    getTxnums (compactScript cfg 4 pre3 [1] false) hx0 none = getTxnums pre3 hx0 none ∧
    (hsOf (compactScript cfg 4 pre3 [1] false)).compCursor = 1 ∧
    ((afterStart (compactScript cfg 4 pre3 [1] false)).map
        fun s => getTxnums (applyEffect s.p (histFlushEffect s)) hx0 none) =
      some [0, 1, 2, 3, 4, 5, 6, 7, 10] ∧
    ¬ RowsFit 4 pre3 (hF pre3) := by
  refine ⟨?_, ?_, ?_, ?_⟩
  · ev_eval [pre3, cfg, hx0]
  · ev_eval [pre3, cfg, hx0, hsOf]
  · ev_eval [afterStart, pre3, cfg, hx0]
  · intro h
    have := h hx0
    revert this
    ev_eval [nchunks, pre3, hF, hsOf, hx0]

/-! ### non-vacuity of the hypotheses -/

namespace Ex

/-- two hashXs sharing the 2-byte prefix 3 and one of prefix 7 -/
def a : HashX := 3 * 2 ^ 72 + 1
def b : HashX := 3 * 2 ^ 72 + 2
def c : HashX := 7 * 2 ^ 72

/-- a database flushed five times, compaction (row size 4) in progress with cursor 5: `a` and `b`
    are compacted (`a`: 6 entries in rows 0,1; `b`: one row), `c` is not (rows 2 and 5, the second
    one longer than a compacted row) -/
def p : Store :=
  { ustate := some { flushCount := 5, firstSync := false },
    hist := [((a, 0), [0, 1, 2, 3]), ((a, 1), [4, 9]), ((b, 0), [5]), ((c, 2), [6]), ((c, 5), [7, 8, 10, 11, 12, 13])],
    hstate := some { flushCount := 5, compFlushCount := 1, compCursor := 5 } }

/-- the compaction process resumed on it -/
def s : Sys := { p := p, m := { histFlush := 5, compFlush := 1, compCursor := 5 } }

end Ex

open Ex in
example : PInv 4 p := by
  refine ⟨?_, ?_, ?_, ?_, ?_, ?_⟩
  · unfold NodupKeys; ev_eval [p, a, b, c]
  · unfold HxWidth; ev_eval [p, a, b, c]
  · unfold IdsOrdered; ev_eval [p, a, b, c, hF, hsOf]
  · unfold IdsTight; ev_eval [nchunks, p, a, b, c, hsOf]
  · right; refine ⟨a, ?_⟩; ev_eval [nchunks, p, a, b, c, hsOf]
  · ev_eval [p, hF, uF, hsOf]

open Ex in
example : SInv 4 s := by
  refine ⟨?_, ?_, ?_, ?_, ?_⟩
  · unfold NodupKeys; ev_eval [s, p, a, b, c]
  · unfold HxWidth; ev_eval [s, p, a, b, c]
  · unfold IdsOrdered; ev_eval [s, p, a, b, c]
  · unfold IdsTight; ev_eval [nchunks, s, p, a, b, c]
  · right; refine ⟨a, ?_⟩; ev_eval [nchunks, s, p, a, b, c]

open Ex in
/-- no hashX of the example needs more than 2 rows -/
theorem Ex.nchunks_le (hx : HashX) : nchunks 4 p hx ≤ 5 + 1 := by
  unfold nchunks
  apply chunks_length_le
  rw [getTxnums_eq]
  by_cases ha : hx = a
  · subst ha; ev_eval [rowsOf, p, a, b, c]
  · by_cases hb : hx = b
    · subst hb; ev_eval [rowsOf, p, a, b, c]
    · by_cases hc : hx = c
      · subst hc; ev_eval [rowsOf, p, a, b, c]
      · have : rowsOf p.hist hx = [] := by
          unfold rowsOf
          have : p.hist.filter (fun e => e.1.1 == hx) = [] := by
            simp [p, List.filter_cons, Ne.symm ha, Ne.symm hb, Ne.symm hc]
          rw [this]; exact List.mergeSort_nil
        rw [this]; simp

open Ex in
example : TInv 4 s := by
  refine ⟨?_, ?_, ?_⟩
  · unfold NodupKeys; ev_eval [s, p, a, b, c]
  · unfold NoEmptyRows; ev_eval [s, p, a, b, c]
  · intro hx
    have := Ex.nchunks_le hx
    show nchunks 4 p hx ≤ 65536
    omega

open Ex in
/-- its histories are chronological (the hypothesis of `C14_then_undo`) -/
example : (getTxnums p a none).Pairwise (· ≤ ·) ∧ (getTxnums p c none).Pairwise (· ≤ ·) := by
  refine ⟨?_, ?_⟩
  · have : getTxnums p a none = [0, 1, 2, 3, 4, 9] := by ev_eval [p, a, b, c]
    rw [this]; decide
  · have : getTxnums p c none = [6, 7, 8, 10, 11, 12, 13] := by ev_eval [p, a, b, c]
    rw [this]; decide

open Ex in
/-- the script can open it (`openDbs … = some`, `first_sync` false, cursor in range): `C14_one_go`'s
    remaining hypotheses -/
example : (openDbs Cex.cfg p true none).map (fun r => r.2.m.dbst.firstSync) = some false ∧
    (0 ≤ (hsOf p).compCursor ∧ (hsOf p).compCursor < 65536) := by
  refine ⟨?_, ?_, ?_⟩
  · ev_eval [p, Cex.cfg]
  · ev_eval [p, hsOf]
  · ev_eval [p, hsOf]

open Ex in
/-- the abandoned-then-index restriction holds of it (at most 2 rows per hashX, flush count 5), and so
    does the side condition for a lost `set_flush_count` -/
example : RowsFit 4 p (hF p) ∧ EvOK 4 p (.compact [50, 1] false) :=
  ⟨Ex.nchunks_le, Or.inr ⟨by ev_eval [p, uF], Ex.nchunks_le⟩⟩

end EV.Compact

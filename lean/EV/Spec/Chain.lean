import EV.Model.Index

/-!
Abstract specification: what a chain *means* (no cache, no rows, no flushes, no undo).

`specChain act chain` folds the transactions of the chain, in order, over
  * the UTXO set (a list of `Utxo`, each spendable unspent output exactly once),
  * for every tx number the set of script hashes the tx touches (spends from or pays to),
  * the tx-number ↦ (txid, height) table.
Block `i` of the list has height `i`.  No imports beyond the model's datatypes
(the spec is evaluated by `evdrv` for the direct oracle).
-/
namespace EV.Spec
open EV.Index

structure Utxo where
  txid : Hash
  idx : Nat
  txnum : Nat
  height : Nat
  value : Nat
  hx : HashX
deriving DecidableEq, Repr, Inhabited

structure St where
  utxos : List Utxo := []
  /-- entry `n` = script hashes touched by tx number `n` (with repetitions) -/
  touched : List (List HashX) := []
  /-- entry `n` = (txid, height) of tx number `n` -/
  txs : List (Hash × Nat) := []
deriving DecidableEq, Repr, Inhabited

/-- does input `i` name utxo `u` -/
def names (i : TxIn) (u : Utxo) : Bool := i.prev == u.txid && i.idx == u.idx

/-- consume one input: the UTXO it names leaves the set and its script hash is touched;
    generation-like inputs consume nothing -/
def spendInput (st : List Utxo × List HashX) (i : TxIn) : List Utxo × List HashX :=
  if i.isGen then st
  else (st.1.filter (fun u => !names i u), st.2 ++ (st.1.filter (names i)).map (·.hx))

/-- spendable outputs of a tx as UTXOs -/
def newUtxos (act height txnum : Nat) (txid : Hash) : List TxOut → Nat → List Utxo
  | [], _ => []
  | o :: rest, idx =>
    if unspendable act height o.kind then newUtxos act height txnum txid rest (idx + 1)
    else ⟨txid, idx, txnum, height, o.value, o.hx⟩ :: newUtxos act height txnum txid rest (idx + 1)

def applyTx (act height : Nat) (s : St) (tx : Tx) : St :=
  { utxos := (tx.ins.foldl spendInput (s.utxos, [])).1 ++
               newUtxos act height s.txs.length tx.id tx.outs 0,
    touched := s.touched ++ [(tx.ins.foldl spendInput (s.utxos, [])).2 ++
               (newUtxos act height s.txs.length tx.id tx.outs 0).map (·.hx)],
    txs := s.txs ++ [(tx.id, height)] }

def applyBlock (act : Nat) (s : St) (height : Nat) (b : Block) : St :=
  b.txs.foldl (applyTx act height) s

def specFrom (act : Nat) (s : St) (height : Nat) : List Block → St
  | [] => s
  | b :: rest => specFrom act (applyBlock act s height b) (height + 1) rest

def specChain (act : Nat) (chain : List Block) : St := specFrom act {} 0 chain

/-! observables -/

def utxosOf (s : St) (hx : HashX) : List Utxo := s.utxos.filter (·.hx == hx)

def balanceOf (s : St) (hx : HashX) : Nat := ((utxosOf s hx).map (·.value)).foldl (· + ·) 0

/-- confirmed history of a script hash: tx numbers in chain order, each once -/
def historyOf (s : St) (hx : HashX) : List Nat :=
  (List.range s.touched.length).filter (fun n => (s.touched.getD n []).contains hx)

def historyPairs (s : St) (hx : HashX) (limit : Option Nat) : List (Hash × Nat) :=
  let nums := historyOf s hx
  let nums := match limit with | none => nums | some k => nums.take k
  nums.map (fun n => s.txs.getD n (0, 0))

def lookup (s : St) (txid : Hash) (idx : Nat) : Option (HashX × Nat) :=
  (s.utxos.find? (fun u => u.txid == txid && u.idx == idx)).map (fun u => (u.hx, u.value))

def txHashesAt (s : St) (height : Nat) : List Hash :=
  (s.txs.filter (·.2 == height)).map (·.1)

end EV.Spec

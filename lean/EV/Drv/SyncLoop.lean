import EV.Model.SyncLoop
import EV.Model.SyncLoopT
import EV.Drv.Index

/-! Line-protocol driver for suite `sync`: the forward processing loop `EV.SyncLoop` (`B`, `C`) and
the loop with its touched set and reorganisations `EV.SyncLoopT` (`BT`, `S`, `E`, `CT`, `R`; every answer
ends with `| ` and the touched set — at a told point: the set handed over — as sorted distinct
numbers).  Both models share the loop state. -/
open EV EV.Wire EV.Index EV.SyncLoop

namespace Drv.SyncLoopD

structure DSt where
  cfg : Cfg := { act := 0, reorgLimit := 200 }
  blocks : List (Nat × Block) := []
  l : Loop := {}
deriving Inhabited

def heights (s : Sys) : String := s!"{s.m.st.height} {s.m.dbst.height} {s.m.fsHeight}"

/-- a touched set, canonically: distinct, ascending -/
def showSet (l : List HashX) : String :=
  " |" ++ String.join ((l.eraseDups.mergeSort (fun a b => decide (a ≤ b))).map (fun x => s!" {x}"))

def parseArg (arg : String) : Option (Option Bool) :=
  if arg = "-" then some none else if arg = "0" then some (some false)
  else if arg = "1" then some (some true) else none

/-- the blocks with the given ids, `none` if one is unknown -/
def lookupBlocks (blocks : List (Nat × Block)) : List String → Option (List Block)
  | [] => some []
  | w :: r =>
    match w.toNat? with
    | none => none
    | some i =>
      match alookup i blocks, lookupBlocks blocks r with
      | some b, some bs => some (b :: bs)
      | _, _ => none

def stepLine (d : DSt) (line : String) : DSt × String :=
  match words line with
  | ["CFG", act, lim] =>
    match act.toNat?, lim.toNat? with
    | some a, some l => ({ cfg := { act := a, reorgLimit := l } }, "ok")
    | _, _ => (d, "bad-op")
  | "BLK" :: _ =>
    match Drv.IndexD.parseBlock line with
    | some (i, b) => ({ d with blocks := (i, b) :: d.blocks.filter (·.1 ≠ i) }, "ok")
    | none => (d, "bad-op")
  | ["B", i, dh, arg] =>
    let arg? : Option (Option Bool) :=
      if arg = "-" then some none else if arg = "0" then some (some false)
      else if arg = "1" then some (some true) else none
    match i.toNat?, dh.toInt?, arg? with
    | some i, some dh, some a =>
      match alookup i d.blocks with
      | none => (d, "bad-op")
      | some b =>
        match step d.cfg d.l (.block b dh a) with
        | .ok (l', _) => ({ d with l := l' }, "ok " ++ heights l'.s)
        | .error e => (d, Drv.IndexD.showErr e)
    | _, _, _ => (d, "bad-op")
  | ["BT", i, dh, arg] =>
    match i.toNat?, dh.toInt?, parseArg arg with
    | some i, some dh, some a =>
      match alookup i d.blocks with
      | none => (d, "bad-op")
      | some b =>
        match SyncLoopT.step d.cfg d.l (.block b dh a) with
        | .ok (l', _) => ({ d with l := l' }, "ok " ++ heights l'.s ++ showSet l'.s.m.touched)
        | .error e => (d, Drv.IndexD.showErr e)
    | _, _, _ => (d, "bad-op")
  | ["S", arg] =>
    match parseArg arg with
    | some a =>
      match SyncLoopT.step d.cfg d.l (.stale a) with
      | .ok (l', _) => ({ d with l := l' }, "ok " ++ heights l'.s ++ showSet l'.s.m.touched)
      | .error e => (d, Drv.IndexD.showErr e)
    | none => (d, "bad-op")
  | ["E"] =>
    match SyncLoopT.step d.cfg d.l .batchEnd with
    | .ok (l', _) => ({ d with l := l' }, "ok " ++ heights l'.s ++ showSet l'.s.m.touched)
    | .error e => (d, Drv.IndexD.showErr e)
  | ["CT"] =>
    match SyncLoopT.step d.cfg d.l .caughtUp with
    | .ok (l', some (.told h t _)) => ({ d with l := l' }, s!"told {h} " ++ heights l'.s ++ showSet t)
    | .ok (l', _) => ({ d with l := l' }, "first " ++ heights l'.s ++ showSet l'.s.m.touched)
    | .error e => (d, Drv.IndexD.showErr e)
  | "R" :: ids =>
    match lookupBlocks d.blocks ids with
    | none => (d, "bad-op")
    | some bs =>
      match SyncLoopT.step d.cfg d.l (.reorg bs) with
      | .ok (l', _) => ({ d with l := l' }, "ok " ++ heights l'.s ++ showSet l'.s.m.touched)
      | .error e => (d, Drv.IndexD.showErr e)
  | ["C"] =>
    match step d.cfg d.l .caughtUp with
    | .ok (l', some h) => ({ d with l := l' }, s!"told {h} " ++ heights l'.s)
    | .ok (l', none) => ({ d with l := l' }, "first " ++ heights l'.s)
    | .error e => (d, Drv.IndexD.showErr e)
  | _ => (d, "bad-op")

end Drv.SyncLoopD

import EV.Model.SyncLoop
import EV.Drv.Index

/-! Line-protocol driver for suite `sync` (the forward processing loop, `EV.SyncLoop`). -/
open EV EV.Wire EV.Index EV.SyncLoop

namespace Drv.SyncLoopD

structure DSt where
  cfg : Cfg := { act := 0, reorgLimit := 200 }
  blocks : List (Nat × Block) := []
  l : Loop := {}
deriving Inhabited

def heights (s : Sys) : String := s!"{s.m.st.height} {s.m.dbst.height} {s.m.fsHeight}"

def stepLine (d : DSt) (line : String) : DSt × String :=
  match words line with
  | ["CFG", act, lim] =>
    match act.toNat?, lim.toNat? with
    | some a, some l => ({ cfg := { act := a, reorgLimit := l } }, "ok")
    | _, _ => (d, "bad-op")
  | "BLK" :: _ =>
    match Drv.IndexD.parseBlock line with
    | some (i, b) => ({ d with blocks := (i, b) :: d.blocks.filter (·.1 ≠ i) }, "ok")
    | none => (d, "bad-op")
  | ["B", i, dh, arg] =>
    let arg? : Option (Option Bool) :=
      if arg = "-" then some none else if arg = "0" then some (some false)
      else if arg = "1" then some (some true) else none
    match i.toNat?, dh.toInt?, arg? with
    | some i, some dh, some a =>
      match alookup i d.blocks with
      | none => (d, "bad-op")
      | some b =>
        match step d.cfg d.l (.block b dh a) with
        | .ok (l', _) => ({ d with l := l' }, "ok " ++ heights l'.s)
        | .error e => (d, Drv.IndexD.showErr e)
    | _, _, _ => (d, "bad-op")
  | ["C"] =>
    match step d.cfg d.l .caughtUp with
    | .ok (l', some h) => ({ d with l := l' }, s!"told {h} " ++ heights l'.s)
    | .ok (l', none) => ({ d with l := l' }, "first " ++ heights l'.s)
    | .error e => (d, Drv.IndexD.showErr e)
  | _ => (d, "bad-op")

end Drv.SyncLoopD

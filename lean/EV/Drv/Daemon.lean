import EV.Model.Wire
import EV.Model.Daemon

/-!
Line-protocol driver for suite `daemon` (no imports outside the model: linked into `evdrv`).

State: one `Daemon` object = configuration, `url_index`, cached height.

    N <nUrls> D <u>             new Daemon(coin, urls) with the default retry times (EV.Gen);
                                url_index = u
    N <nUrls> <init> <max> <u>  new Daemon(coin, urls, init_retry=…, max_retry=…) (any common unit)
    U <u>                       self.url_index = u
    H ; <reply>*                height()
    M ; <reply>*                mempool_hashes()
    B <first> <count> ; <reply>*   block_hex_hashes(first, count)
    V <0|1> <n> ; <reply>*      _send_vector(method, n requests, replace_errs)
    G <0|1> <n> ; <reply>*      getrawtransactions(n hashes, replace_errs)
    F <hex> ; <filereply>*      get_block(hash, file) with the file initially holding <hex>

    reply     = X<5 flags>:<tag> | T | J<item> | A<item>,<item>,…
    item      = <err>/<val>
    err       = n | f<tag> | o<code or ->:<tag> | s<tag>
    val       = N | S<text, '_' for ' '> | O<0|1><canonical text>
    filereply = X<5 flags>:<tag> | T | C<hex>,<hex>,…/<. or X…>
-/
open EV EV.Wire

namespace Drv
namespace DaemonD
open EV.Daemon

structure St where
  cfg : Cfg := defaultCfg 1
  u : Nat := 0
  cached : Option Val := none

def init : St := {}

def wu : Int := EV.Gen.daemonWarmingUp

/-! ### parsing -/

def splitOnC (sep : Char) : List Char → List (List Char)
  | [] => [[]]
  | c :: cs =>
    match splitOnC sep cs with
    | [] => [[]]
    | w :: ws => if c = sep then [] :: w :: ws else (c :: w) :: ws

def toNatC (cs : List Char) : Option Nat := (String.ofList cs).toNat?

def toIntC (cs : List Char) : Option Int := (String.ofList cs).toInt?

def bit (ch : Char) : Option Bool :=
  if ch = '1' then some true else if ch = '0' then some false else none

def parseExc (cs : List Char) : Option ExcClass :=
  match splitOnC ':' cs with
  | [[a, b, c, d, e], tag] => do
    pure ⟨← bit a, ← bit b, ← bit c, ← bit d, ← bit e, ← toNatC tag⟩
  | _ => none

def parseErr : List Char → Option JErr
  | ['n'] => some .null
  | 'f' :: t => do pure (.falsy (← toNatC t))
  | 's' :: t => do pure (.nonObj (← toNatC t))
  | 'o' :: rest =>
    match splitOnC ':' rest with
    | [code, tag] => do
      let code ← if code = ['-'] then pure none else (toIntC code).map some
      pure (.obj code (← toNatC tag))
    | _ => none
  | _ => none

def unesc (c : Char) : Char := if c = '_' then ' ' else c

def esc (c : Char) : Char := if c = ' ' then '_' else c

def parseVal : List Char → Option Val
  | ['N'] => some .null
  | 'S' :: t => some (.str (t.map unesc))
  | 'O' :: '0' :: t => some (.other false (String.ofList t))
  | 'O' :: '1' :: t => some (.other true (String.ofList t))
  | _ => none

def parseItem (cs : List Char) : Option Item :=
  match splitOnC '/' cs with
  | [e, v] => do pure ⟨← parseErr e, ← parseVal v⟩
  | _ => none

def parseReply : List Char → Option Reply
  | 'X' :: t => (parseExc t).map .raises
  | ['T'] => some .nonJson
  | 'J' :: t => (parseItem t).map (fun it => .json (.obj it))
  | 'A' :: t =>
    if t.isEmpty then some (.json (.arr []))
    else ((splitOnC ',' t).mapM parseItem).map (fun its => .json (.arr its))
  | _ => none

def parseChunks (cs : List Char) : Option (List Bytes) :=
  if cs.isEmpty then some [] else (splitOnC ',' cs).mapM (fun w => ofHex (String.ofList w))

def parseEnd : List Char → Option StreamEnd
  | ['.'] => some .done
  | 'X' :: x => (parseExc x).map .raises
  | _ => none

def parseFileReply : List Char → Option FileReply
  | 'X' :: t => (parseExc t).map .raises
  | ['T'] => some .wrongType
  | 'C' :: t =>
    match splitOnC '/' t with
    | [chunks, e] => do pure (.stream (← parseChunks chunks) (← parseEnd e))
    | _ => none
  | _ => none

/-! ### printing -/

def showErr : JErr → String
  | .null => "n"
  | .falsy t => s!"f{t}"
  | .nonObj t => s!"s{t}"
  | .obj none t => s!"o-:{t}"
  | .obj (some c) t => s!"o{c}:{t}"

def showVal : Val → String
  | .null => "N"
  | .str s => "S" ++ String.ofList (s.map esc)
  | .other t tok => (if t then "O1" else "O0") ++ tok

def showExc : Exc → String
  | .daemonErrorOne e => s!"DaemonError1({showErr e})"
  | .daemonErrorMany es => s!"DaemonErrorL({joinWith "," (es.map showErr)})"
  | .typeError => "TypeError"
  | .attributeError => "AttributeError"
  | .valueError => "ValueError"
  | .other t => s!"Other:{t}"

def showRes {α : Type} (f : α → String) : Res α Exc → String
  | .returned v => s!"ret {f v}"
  | .raised e => s!"exc {showExc e}"
  | .pending => "pending"

def showGood : Option GoodMsg → String
  | none => "-"
  | some .restored => "restored"
  | some .normal => "normal"

def showOut {α σ : Type} (f : α → String) (o : SendOut α Exc σ) : String :=
  s!"{showRes f o.res} | u {o.urlIndex} | s {showNats o.sleeps} | c {showNats o.contacted} | g {showGood o.logged}"

def showVals (vs : List Val) : String := "[" ++ joinWith "," (vs.map showVal) ++ "]"

def showTx : Option Bytes → String
  | none => "N"
  | some b => showHex b

def showTxs (l : List (Option Bytes)) : String := "[" ++ joinWith "," (l.map showTx) ++ "]"

/-! ### one line -/

/-- split `head… ; reply…` -/
def splitSemi : List String → List String × List String
  | [] => ([], [])
  | w :: ws => if w = ";" then ([], ws) else (w :: (splitSemi ws).1, (splitSemi ws).2)

def replies (ws : List String) : Option (List Reply) := ws.mapM (fun w => parseReply w.toList)

def fileReplies (ws : List String) : Option (List FileReply) := ws.mapM (fun w => parseFileReply w.toList)

def bool01 (w : String) : Option Bool := if w = "1" then some true else if w = "0" then some false else none

def stepLine (s : St) (line : String) : St × String :=
  let (head, rs) := splitSemi (words line)
  match head with
  | ["N", n, "D", u] =>
    match n.toNat?, u.toNat? with
    | some n, some u => ({ cfg := defaultCfg n, u := u, cached := none }, "ok")
    | _, _ => (s, "bad-op")
  | ["N", n, i, m, u] =>
    match n.toNat?, i.toNat?, m.toNat?, u.toNat? with
    | some n, some i, some m, some u => ({ cfg := ⟨n, i, m⟩, u := u, cached := none }, "ok")
    | _, _, _, _ => (s, "bad-op")
  | ["U", u] =>
    match u.toNat? with
    | some u => ({ s with u := u }, "ok")
    | none => (s, "bad-op")
  | ["H"] =>
    match replies rs with
    | some rs =>
      let (o, cached) := height s.cfg wu s.u s.cached rs
      ({ s with u := o.urlIndex, cached := cached },
       -- `cached_height()` is `None` both before any call and after a call that returned null
       showOut showVal o ++ " | h " ++
         (match cached with | none => "-" | some .null => "-" | some v => showVal v))
    | none => (s, "bad-op")
  | ["M"] =>
    match replies rs with
    | some rs =>
      let o := mempoolHashes s.cfg wu s.u rs
      ({ s with u := o.urlIndex }, showOut showVal o)
    | none => (s, "bad-op")
  | ["B", first, count] =>
    match first.toNat?, count.toNat?, replies rs with
    | some first, some count, some rs =>
      let o := blockHexHashes s.cfg wu s.u first count rs
      ({ s with u := o.urlIndex }, showOut showVals o)
    | _, _, _ => (s, "bad-op")
  | ["V", rep, n] =>
    match bool01 rep, n.toNat?, replies rs with
    | some rep, some n, some rs =>
      let o := sendVector s.cfg wu s.u rep (List.range n) rs
      ({ s with u := o.urlIndex }, showOut showVals o)
    | _, _, _ => (s, "bad-op")
  | ["G", rep, n] =>
    match bool01 rep, n.toNat?, replies rs with
    | some rep, some n, some rs =>
      let o := getRawTransactions s.cfg wu s.u rep (List.range n) rs
      ({ s with u := o.urlIndex }, showOut showTxs o)
    | _, _, _ => (s, "bad-op")
  | ["F", file] =>
    match ofHex file, fileReplies rs with
    | some file, some rs =>
      let o := getBlock s.cfg s.u file rs
      ({ s with u := o.urlIndex }, showOut toString o ++ " | f " ++ showHex o.side)
    | _, _ => (s, "bad-op")
  | _ => (s, "bad-op")

end DaemonD
end Drv

import EV.Model.Wire
import EV.Model.TxCache
import EV.Drv.Merkle

/-! Driver for suite `txcache`:
  NEW <flags> <thr> <blocks>      fresh caught-up server over the chain; flags = 6 chars in {0,1} =
                                  Cfg.reread, stateBound, signal, hitBound, sanity, fifo; thr = the
                                  `_merkle_branch` threshold read from the source by the suite;
                                  blocks = `<block>;<block>;…`, block = `<id>:<tx>,<tx>,…` (`-` = no tx;
                                  `<id>!:…` = header whose merkle-root field is NOT the root of the txs)
  ST <I|P|H|T> <height> <pos|tx>  request: id_from_pos | merkle_branch_for_tx_pos |
                                  merkle_branch_for_tx_hash | tsc_merkle_proof_for_tx_hash
  PF <i> | DL <i> | ET <h> | EM <h> | AD <block> | FF | FS | RS <n> | BP | BL | RE | HN
                                  the other events of EV.TxCache
Output after every line:
  `<vis> <fsN> <unflushed> <tx_counts> | <bp> | <rc> <woken> | <txc> | <mc> | <req> ; <req> ; …`
  bp  = `I` | `B<left><p|->`
  txc = `<h>=<txs>` …            mc = `<h>=<length>/<depth_higher>/<init>/<level>/<len src>:<first>:<last>` …
  req = `R <rc> <?|!|E|txs>` | `Q <pos> <branch> <root> <?|!|hdr id>`
      | `A I <tx>` | `A P <branch> <tx>` | `A H <branch> <pos>` | `A T <pos> <hdr id> <branch>`
      | `X <why>` | `E <error>`. -/
open EV EV.Wire EV.Merkle EV.TxCache

namespace Drv.TxCacheD
open Drv.MerkleD

structure DSt where
  cfg : Cfg := {}
  s : TxCache.St Node := {}
  /-- the heights that requests have named (the only keys the caches can have) -/
  hs : List Nat := []

def parseBlock (w : String) : Option (Block Node) :=
  match w.splitOn ":" with
  | [idp, txs] =>
    match (idp.toList.filter (· != '!') |> String.ofList).toNat? with
    | some id =>
      let l := parseList txs
      let root := if idp.toList.contains '!' then s!"bad{id}"
        else match Merkle.root H l none with
          | .ok r => r
          | .error _ => "none"
      some ⟨⟨id, root⟩, l⟩
    | none => none
  | _ => none

def parseChain (w : String) : Option (List (Block Node)) :=
  if w = "-" then some [] else (w.splitOn ";").mapM parseBlock

def showBr (br : List (Elt Node)) : String := showList (br.map showElt)

def showWhy : Why → String
  | .dbError => "db"
  | .noTx => "notx"
  | .notInBlock => "notin"
  | .noHeader => "nohdr"
  | .sanity => "sanity"

def showErr : Err → String
  | .readError => "read"
  | .py e => showExc e
  | .blocked => "blocked"

def showReq (r : Req Node) : String :=
  match r.pc with
  | .rd rc .issued => s!"R {rc} ?"
  | .rd rc .dbError => s!"R {rc} !"
  | .rd rc .pyError => s!"R {rc} E"
  | .rd rc (.got l) => s!"R {rc} {showList l}"
  | .hdr pos br root .issued => s!"Q {pos} {showBr br} {root} ?"
  | .hdr pos br root .outOfRange => s!"Q {pos} {showBr br} {root} !"
  | .hdr pos br root (.got hd) => s!"Q {pos} {showBr br} {root} {hd.id}"
  | .done (.txid tx) => s!"A I {tx}"
  | .done (.branchPos br tx) => s!"A P {showBr br} {tx}"
  | .done (.branchHash br pos) => s!"A H {showBr br} {pos}"
  | .done (.tsc pos hd br) => s!"A T {pos} {hd.id} {showBr br}"
  | .done (.refused w) => s!"X {showWhy w}"
  | .done (.error e) => s!"E {showErr e}"

def showTxc (s : TxCache.St Node) (hs : List Nat) : String :=
  let es := hs.filterMap (fun h => (s.txc h).map (fun l => s!"{h}={showList l}"))
  if es.isEmpty then "-" else joinWith " " es

def showMc (s : TxCache.St Node) (hs : List Nat) : String :=
  let es := hs.filterMap (fun h => (s.mc h).map (fun e =>
    s!"{h}={e.c.length}/{e.c.depthHigher}/{if e.c.initialized then 1 else 0}/{showList e.c.level}/{e.src.length}:{e.src.head?.getD "-"}:{e.src.getLast?.getD "-"}"))
  if es.isEmpty then "-" else joinWith " " es

def showSt (d : DSt) : String :=
  let s := d.s
  let bp := match s.bp with
    | .idle => "I"
    | .backing n p => s!"B{n}{if p then "p" else "-"}"
  s!"{s.vis} {s.fsN} {s.unfl.length} {if s.txCounts.isEmpty then "-" else showNats s.txCounts} | {bp} | {s.rc} {if s.woken then 1 else 0} | " ++
    s!"{showTxc s d.hs} | {showMc s d.hs} | " ++ joinWith " ; " (s.reqs.map showReq)

def flag (cs : List Char) (i : Nat) : Bool := cs.getD i '1' == '1'

def ev (d : DSt) (e : Ev Node) : DSt × String :=
  let d' := { d with s := step H d.cfg d.s e }
  (d', showSt d')

def insertSorted (h : Nat) : List Nat → List Nat
  | [] => [h]
  | x :: xs => if h < x then h :: x :: xs else if h = x then x :: xs else x :: insertSorted h xs

def stepLine (d : DSt) (line : String) : DSt × String :=
  match words line with
  | ["NEW", v, thr, ch] =>
    match thr.toNat?, parseChain ch with
    | some thr, some ch =>
      let cs := v.toList
      let d' : DSt :=
        { cfg := { reread := flag cs 0, stateBound := flag cs 1, signal := flag cs 2, hitBound := flag cs 3,
                   sanity := flag cs 4, fifo := flag cs 5, thr := thr },
          s := St.ofChain ch, hs := [] }
      (d', showSt d')
    | _, _ => (d, "bad-op")
  | ["ST", k, h, a] =>
    match h.toNat? with
    | some h =>
      let d := { d with hs := insertSorted h d.hs }
      match k, a.toNat? with
      | "I", some pos => ev d (.start (.idPos pos) h)
      | "P", some pos => ev d (.start (.brPos pos) h)
      | "H", _ => ev d (.start (.brHash a) h)
      | "T", _ => ev d (.start (.tsc a) h)
      | _, _ => (d, "bad-op")
    | none => (d, "bad-op")
  | ["PF", i] =>
    match i.toNat? with
    | some i => ev d (.perform i)
    | none => (d, "bad-op")
  | ["DL", i] =>
    match i.toNat? with
    | some i => ev d (.deliver i)
    | none => (d, "bad-op")
  | ["ET", h] =>
    match h.toNat? with
    | some h => ev d (.evictTx h)
    | none => (d, "bad-op")
  | ["EM", h] =>
    match h.toNat? with
    | some h => ev d (.evictMc h)
    | none => (d, "bad-op")
  | ["AD", b] =>
    match parseBlock b with
    | some b => ev d (.advance b)
    | none => (d, "bad-op")
  | ["FF"] => ev d .flushFs
  | ["FS"] => ev d .flushSt
  | ["RS", n] =>
    match n.toNat? with
    | some n => ev d (.reorgStart n)
    | none => (d, "bad-op")
  | ["BP"] => ev d .boPop
  | ["BL"] => ev d .boLower
  | ["RE"] => ev d .reorgEnd
  | ["HN"] => ev d .handler
  | _ => (d, "bad-op")

end Drv.TxCacheD

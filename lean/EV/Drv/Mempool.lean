import EV.Model.Wire
import EV.Model.Mempool

/-! Line-protocol driver for suite `mempool` (C08 / C09).

```
R                               reset everything
SV / RS                         save / restore the tracker state (txs, hashXs, pending touched)
RT                              the `_refresh_hashes` task is restarted (its local `touched` starts empty)
T id size nin (ph pi)* nout (hx value)*     the parsed transaction with id `id` (daemon truth)
N h*                            hashes whose raw tx the daemon answers `None` in the next round
L k r*                          `lookup_utxos` answers of chunk k in the next round: `-` or hx:value
P cached height db cs ; order* ; allHashes*     one `_refresh_hashes` iteration (cs = 0: the source's chunk size)
S                               dump txs + hashXs
Q x                             the five observables for hashX x
Z ; M* ; (ph pi hx value)*      the Lean *specification* pool of mempool M over UTXO map U, in `S` format
ZQ x                            the spec observables for hashX x on that pool, in `Q` format
```
-/
open EV EV.Wire EV.Mempool

namespace Drv.MempoolD

structure DSt where
  W : List (Hash × RawTx) := []
  noneSet : List Hash := []
  lookups : List (Nat × List (Option Pair)) := []
  loop : Loop := {}
  saved : Loop := {}
  spec : TxMap := []
deriving Inhabited

def lexLe : List Nat → List Nat → Bool
  | [], _ => true
  | _ :: _, [] => false
  | a :: as, b :: bs => if a < b then true else if a > b then false else lexLe as bs

def sortRows {α : Type} (key : α → List Nat) (l : List α) : List α :=
  l.mergeSort (fun a b => lexLe (key a) (key b))

def showPair (p : Pair) : String := s!"{p.1}:{p.2}"
def showPrevout (p : Prevout) : String := s!"{p.1}:{p.2}"

def showTx (e : Hash × MemPoolTx) : String :=
  let tx := e.2
  s!"{e.1}/{joinWith "," (tx.prevouts.map showPrevout)}/{joinWith "," (tx.inPairs.map showPair)}/" ++
  s!"{joinWith "," (tx.outPairs.map showPair)}/{tx.fee}/{tx.size}"

def showTxs (txs : TxMap) : String :=
  joinWith " " ((sortRows (fun e => [e.1]) txs).map showTx)

def showHashXs (hx : HashXs) : String :=
  joinWith " " ((sortRows (fun e => [e.1]) hx).map fun e => s!"{e.1}:[{showNats (canonSet e.2)}]")

def showState (txs : TxMap) (hx : HashXs) : String := s!"txs {showTxs txs} | hx {showHashXs hx}"

def showExc : PyExc → String
  | .keyError => "KeyError"
  | .indexError => "IndexError"
  | .attributeError => "AttributeError"
  | .dbSyncError => "DBSyncError"
  | .fuel => "FUEL"

def showExcept {α : Type} (f : α → String) : Except PyExc α → String
  | .error e => s!"err:{showExc e}"
  | .ok a => f a

def showSummaries (l : List Summary) : String :=
  joinWith " " ((sortRows (fun (e : Summary) => [e.1]) l).map fun e => s!"{e.1}:{e.2.1}:{if e.2.2 then 1 else 0}")

def showUtxos (l : List MpUtxo) : String :=
  joinWith " " ((sortRows (fun (e : MpUtxo) => [e.1, e.2.1]) l).map fun e => s!"{e.1}:{e.2.1}:{e.2.2}")

def showSpends (l : List Prevout) : String :=
  joinWith " " (((sortRows (fun (e : Prevout) => [e.1, e.2]) l).eraseDups).map showPrevout)

def showObs (b : Except PyExc Int) (s : Except PyExc (List Summary)) (u : Except PyExc (List MpUtxo))
    (p : Except PyExc (List Prevout)) : String :=
  s!"bal {showExcept toString b} | sum {showExcept showSummaries s} | utxo {showExcept showUtxos u} | ps {showExcept showSpends p}"

def parsePairs : Nat → List Int → Option (List (Nat × Int) × List Int)
  | 0, r => some ([], r)
  | n + 1, a :: b :: r => do
    if a < 0 then none
    let (l, r') ← parsePairs n r
    pure ((a.toNat, b) :: l, r')
  | _, _ => none

/-- `T id size nin (ph pi)* nout (hx value)*` -/
def parseTx (ws : List String) : Option (Hash × RawTx) := do
  let ns ← intList ws
  match ns with
  | id :: size :: nin :: r =>
    if id < 0 ∨ size < 0 ∨ nin < 0 then none
    let (ins, r1) ← parsePairs nin.toNat r
    if ins.any (fun p => p.2 < 0) then none
    match r1 with
    | nout :: r2 =>
      if nout < 0 then none
      let (outs, r3) ← parsePairs nout.toNat r2
      if r3.isEmpty then pure (id.toNat, { inputs := ins.map (fun p => (p.1, p.2.toNat)), outs := outs, size := size.toNat })
      else none
    | _ => none
  | _ => none

def parseLookup (w : String) : Option (Option Pair) :=
  if w = "-" then some none
  else match w.splitOn ":" with
    | [a, b] => do pure (some ((← a.toNat?), (← b.toInt?)))
    | _ => none

def parseUtxos : List Int → Option (List (Prevout × Pair))
  | [] => some []
  | a :: b :: c :: d :: r => do
    if a < 0 ∨ b < 0 ∨ c < 0 then none
    let l ← parseUtxos r
    pure (((a.toNat, b.toNat), (c.toNat, d)) :: l)
  | _ => none

def splitSemi (line : String) : List (List String) := (line.splitOn ";").map words

def fetchOf (d : DSt) (h : Hash) : Option RawTx :=
  if d.noneSet.contains h then none else dget d.W h

def lookupOf (d : DSt) (k : Nat) (_ps : List Prevout) : List (Option Pair) :=
  match d.lookups.find? (fun e => e.1 == k) with
  | some e => e.2
  | none => []

def showRound (before after : Loop) : String :=
  let emit := if after.emits.length > before.emits.length then
      match after.emits.getLast? with
      | some (t, h) => s!"E {h} [{showNats (canonSet t)}]"
      | none => "-"
    else "-"
  s!"{emit} | pending [{showNats (canonSet after.touched)}]"

def stepLine (d : DSt) (line : String) : DSt × String :=
  match splitSemi line with
  | [["R"]] => ({}, "ok")
  | [["SV"]] => ({ d with saved := d.loop }, "ok")
  | [["RS"]] => ({ d with loop := d.saved }, "ok")
  | [["RT"]] => ({ d with loop := { d.loop with touched := [] } }, "ok")
  | [("T" :: ws)] =>
    match parseTx ws with
    | some e => ({ d with W := dset d.W e.1 e.2 }, "ok")
    | none => (d, "bad-op")
  | [("N" :: ws)] =>
    match natList ws with
    | some l => ({ d with noneSet := l }, "ok")
    | none => (d, "bad-op")
  | [("L" :: k :: ws)] =>
    match k.toNat?, ws.mapM parseLookup with
    | some k, some l => ({ d with lookups := (k, l) :: d.lookups }, "ok")
    | _, _ => (d, "bad-op")
  | [["P", c, h, db, cs], order, all] =>
    match c.toInt?, h.toInt?, db.toInt?, cs.toNat?, natList order, natList all with
    | some c, some h, some db, some cs, some order, some all =>
      let cs' := if cs = 0 then EV.Gen.mempoolChunk else cs
      let r : Round := { cachedHeight := c, hashes := all, height := h, dbHeight := db,
                         fetch := fetchOf d, lookup := lookupOf d, order := order }
      -- the dropped hashes are reported separately (they are not part of `Loop`)
      let dropped :=
        if c ≠ h then "-" else
        match processMempoolN cs' d.loop.st all d.loop.touched c db (fetchOf d) (lookupOf d) order with
        | .ok p => s!"[{showNats (canonSet p.dropped)}]"
        | .error _ => "-"
      match refreshRound cs' d.loop r with
      | .error e => ({ d with noneSet := [], lookups := [] }, s!"err:{showExc e}")
      | .ok l' => ({ d with loop := l', noneSet := [], lookups := [] },
                   s!"ok | {showRound d.loop l'} | dropped {dropped}")
    | _, _, _, _, _, _ => (d, "bad-op")
  | [["S"]] => (d, showState d.loop.st.txs d.loop.st.hashXs)
  | [["Q", x]] =>
    match x.toNat? with
    | some x => (d, showObs (balanceDelta d.loop.st x) (transactionSummaries d.loop.st x)
                            (unorderedUTXOs d.loop.st x) (potentialSpends d.loop.st x))
    | none => (d, "bad-op")
  | [["Z"], m, u] =>
    match natList m, (intList u).bind parseUtxos with
    | some m, some u =>
      let pool := specPool (dget d.W) m u
      ({ d with spec := pool }, showState pool (specIndex pool))
    | _, _ => (d, "bad-op")
  | [["ZQ", x]] =>
    match x.toNat? with
    | some x => (d, showObs (.ok (specBalance d.spec x)) (.ok (specSummaries d.spec x))
                            (.ok (specUTXOs d.spec x)) (.ok (specSpends d.spec x)))
    | none => (d, "bad-op")
  | _ => (d, "bad-op")

end Drv.MempoolD

import EV.Model.Wire
import EV.Model.Peers

/-! Line-protocol driver for suite `peers` (no imports outside the model: linked into `evdrv`).

Strings travel as `s<cp>.<cp>…` (decimal code points, `s` alone = empty string), Python `None`
as `n`.  A decoded JSON value is a prefix-coded token sequence:
`N` | `T` | `F` | `I<int>` | `D0`/`D1` (float, falsy/truthy) | `S<cps>` | `A<n>` v₁…vₙ |
`O<n>` `K<cps>` v₁ … `K<cps>` vₙ.

Lines (sections separated by ` | `):
* `S <now> <isTor> | <myself views> | <peer views> | <shuffle results>` — a view is
  `id,lastGood,bad,tor,pub,<bucket>,<host>,<ip>`; a shuffle result is the ids after the shuffle
  joined by `.` (`-` = empty list), one per `random.shuffle` call in call order.
  → `R <id:first:host …sorted by id> | B <pre-shuffle lists>`
* `F <source> | <json> | <int() overrides s…=v> | <net table s…=n0|n1|a<g><p><m><u>>`
  → `ok <peer>;<peer>…` or `exc <Class>`
* `P <host> <source> | <json> | … | …`  (`Peer(host, features, source)` directly)
* `I <string>` → `int(string)`;   `Z <int>` → `str(int)`
-/
open EV EV.Wire

namespace Drv
namespace PeersD
open EV.Peers

def decStr (w : String) : Option String :=
  match w.toList with
  | 's' :: rest =>
    (((String.ofList rest).splitOn ".").filter (· ≠ "")).mapM String.toNat? |>.map
      fun cps => String.ofList (cps.map Char.ofNat)
  | _ => none

def decOptStr (w : String) : Option (Option String) :=
  if w = "n" then some none else (decStr w).map some

def encStr (s : String) : String := "s" ++ joinWith "." (s.toList.map fun c => toString c.toNat)

def encOptStr : Option String → String
  | none => "n"
  | some s => encStr s

def sections (line : String) : List (List String) := (line.splitOn "|").map words

def parseBool (w : String) : Option Bool :=
  if w = "1" then some true else if w = "0" then some false else none

/-! ### JSON -/

mutual
partial def parseJ : List String → Option (J × List String)
  | [] => none
  | tok :: rest =>
    match tok.toList with
    | ['N'] => some (.null, rest)
    | ['T'] => some (.bool true, rest)
    | ['F'] => some (.bool false, rest)
    | ['D', '0'] => some (.flt false, rest)
    | ['D', '1'] => some (.flt true, rest)
    | 'I' :: ds => (String.ofList ds).toInt?.map fun i => (.int i, rest)
    | 'S' :: cs => (decStr (String.ofList ('s' :: cs))).map fun s => (.str s, rest)
    | 'A' :: ds =>
      match (String.ofList ds).toNat? with
      | some n => (parseArr n rest []).map fun (l, r) => (.arr l, r)
      | none => none
    | 'O' :: ds =>
      match (String.ofList ds).toNat? with
      | some n => (parseObj n rest []).map fun (l, r) => (.obj l, r)
      | none => none
    | _ => none
partial def parseArr : Nat → List String → List J → Option (List J × List String)
  | 0, ts, acc => some (acc.reverse, ts)
  | n + 1, ts, acc =>
    match parseJ ts with
    | some (j, r) => parseArr n r (j :: acc)
    | none => none
partial def parseObj : Nat → List String → List (String × J) →
    Option (List (String × J) × List String)
  | 0, ts, acc => some (acc.reverse, ts)
  | _ + 1, [], _ => none
  | n + 1, k :: ts, acc =>
    match k.toList with
    | 'K' :: cs =>
      match decStr (String.ofList ('s' :: cs)), parseJ ts with
      | some key, some (j, r) => parseObj n r ((key, j) :: acc)
      | _, _ => none
    | _ => none
end

def parseJson (ts : List String) : Option J :=
  match parseJ ts with
  | some (j, []) => some j
  | _ => none

partial def showJ : J → String
  | .null => "N"
  | .bool true => "T"
  | .bool false => "F"
  | .int i => s!"I{i}"
  | .flt t => if t then "D1" else "D0"
  | .str s => "S" ++ (encStr s).drop 1
  | .arr l => joinWith " " (s!"A{l.length}" :: l.map showJ)
  | .obj kv => joinWith " " (s!"O{kv.length}" :: kv.map fun (k, v) => "K" ++ (encStr k).drop 1 ++ " " ++ showJ v)

/-! ### the `Py` and `Net` instances of a case -/

def parseIntOverride (w : String) : Option (String × Option Int) :=
  match w.splitOn "=" with
  | [k, v] => do
    let k ← decStr k
    if v = "-" then pure (k, none) else do
      let i ← v.toInt?
      pure (k, some i)
  | _ => none

def mkPy (ov : List (String × Option Int)) : Py :=
  { intOfString := fun s =>
      match ov.find? (·.1 == s) with
      | some (_, r) => r
      | none => pyIntAscii s
    strOfInt := pyStrOfInt }

def parseNetEntry (w : String) : Option (String × Option Addr × Bool) :=
  match w.splitOn "=" with
  | [k, v] => do
    let k ← decStr k
    match v.toList with
    | ['n', b] => do
      let b ← parseBool (String.ofList [b])
      pure (k, none, b)
    | ['a', g, p, m, u] => do
      let g ← parseBool (String.ofList [g])
      let p ← parseBool (String.ofList [p])
      let m ← parseBool (String.ofList [m])
      let u ← parseBool (String.ofList [u])
      pure (k, some { isGlobal := g, isPrivate := p, isMulticast := m, isUnspecified := u }, false)
    | _ => none
  | _ => none

def mkNet (tbl : List (String × Option Addr × Bool)) : Net :=
  { ipOf := fun h => (tbl.find? (·.1 == h)).bind (·.2.1)
    validHostname := fun h =>
      match tbl.find? (·.1 == h) with
      | some e => e.2.2
      | none => false }

def showOptInt : Option Int → String
  | none => "-"
  | some i => toString i

def b01 (b : Bool) : String := if b then "1" else "0"

def showPeer (N : Net) (p : Peer) : String :=
  s!"h={encStr p.host} src={encStr p.source} tcp={showOptInt p.tcpPort} ssl={showOptInt p.sslPort} " ++
  s!"pr={showOptInt p.pruning} sv={encOptStr p.serverVersion} pmin={encStr p.protocolMin} " ++
  s!"pmax={encStr p.protocolMax} tor={b01 p.isTor} valid={b01 (p.isValid N)} " ++
  s!"pub={b01 (p.isPublic N)} ip={b01 (N.ipOf p.host).isSome} f={showJ (.obj p.features)}"

def showExc : PyExc → String
  | .assertionError => "exc AssertionError"
  | .typeError => "exc TypeError"
  | .valueError => "exc ValueError"

/-! ### `on_peers_subscribe` -/

def parseView (w : String) : Option PeerV :=
  match w.splitOn "," with
  | [id, lg, bad, tor, pub, bucket, host, ip] => do
    let id ← id.toNat?
    let lg ← lg.toInt?
    let bad ← parseBool bad
    let tor ← parseBool tor
    let pub ← parseBool pub
    let bucket ← decStr bucket
    let host ← decStr host
    let ip ← decOptStr ip
    pure { id := id, host := host, ipAddr := ip, lastGood := lg, bad := bad, isTor := tor,
           isPublic := pub, bucket := bucket }
  | _ => none

def parseIds (w : String) : Option (List Nat) :=
  if w = "-" then some [] else (w.splitOn ".").mapM String.toNat?

/-- the logged outcome of the `i`-th shuffle, applied to the model's own list -/
def shufOf (log : List (List Nat)) (i : Nat) (l : List PeerV) : List PeerV :=
  match log[i]? with
  | some ids => ids.filterMap fun id => l.find? (·.id == id)
  | none => l

def showIds (l : List PeerV) : String :=
  if l.isEmpty then "-" else joinWith "." (l.map fun p => toString p.id)

def subscribeLine (hdr mys prs shs : List String) : Option String :=
  match hdr with
  | [_, now, isTor] => do
    let now ← now.toInt?
    let isTor ← parseBool isTor
    let myselves ← mys.mapM parseView
    let peers ← prs.mapM parseView
    let log ← shs.mapM parseIds
    let shuf := shufOf log
    let res := onPeersSubscribe now peers myselves isTor shuf
    let res := res.mergeSort (fun a b => decide (a.id ≤ b.id))
    let sp := split (recentGood now peers)
    let pre := sp.2.map (fun kl => showIds kl.2) ++ [showIds sp.1]
    let shown := res.map fun p => s!"{p.id}:{encStr (toTuple p).1}:{encStr (toTuple p).2}"
    pure s!"R {joinWith " " shown} | B {joinWith " " pre}"
  | _ => none

def featuresLine (hdr js ovs nets : List String) : Option String :=
  match hdr with
  | [_, source] => do
    let source ← decStr source
    let j ← parseJson js
    let ov ← ovs.mapM parseIntOverride
    let net ← nets.mapM parseNetEntry
    let N := mkNet net
    match peersFromFeatures (mkPy ov) j source with
    | .ok ps => pure (if ps.isEmpty then "ok" else "ok " ++ joinWith " ; " (ps.map (showPeer N)))
    | .error e => pure (showExc e)
  | _ => none

def peerLine (hdr js ovs nets : List String) : Option String :=
  match hdr with
  | [_, host, source] => do
    let host ← decStr host
    let source ← decStr source
    let j ← parseJson js
    let ov ← ovs.mapM parseIntOverride
    let net ← nets.mapM parseNetEntry
    match mkPeer (mkPy ov) host j source with
    | .ok p => pure ("ok " ++ showPeer (mkNet net) p)
    | .error e => pure (showExc e)
  | _ => none

def stepLine (_ : Unit) (line : String) : Unit × String :=
  let out : Option String :=
    match sections line with
    | [hdr@("S" :: _), mys, prs, shs] => subscribeLine hdr mys prs shs
    | [hdr@("F" :: _), js, ovs, nets] => featuresLine hdr js ovs nets
    | [hdr@("P" :: _), js, ovs, nets] => peerLine hdr js ovs nets
    | [["I", s]] => (decStr s).map fun s =>
        match pyIntAscii s with
        | some v => s!"some {v}"
        | none => "none"
    | [["Z", i]] => i.toInt?.map fun i =>
        match pyStrOfInt i with
        | some s => s!"some {encStr s}"
        | none => "none"
    | _ => none
  ((), out.getD "bad-op")

end PeersD
end Drv

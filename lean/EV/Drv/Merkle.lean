import EV.Model.Wire
import EV.Model.Merkle

/-! Line-protocol driver for suite `merkle` (no imports outside the model: linked into `evdrv`).

Nodes are strings without spaces or commas; the hash is the free term constructor
`H a b = "(" ++ a ++ b ++ ")"` (the harness gives the real classes `hash_func = lambda x: b'(' + x + b')'`).

  BL <int|N>                                   branch_length
  TD <int|N>                                   tree_depth
  BAR <tsc> <index|N> <length|N|-> <hashes>    branch_and_root           (`-` = None / empty list)
  ROOT <length|N|-> <hashes>                   root
  RFP <index> <hash> <branch>                  root_from_proof
  LEVEL <d> <hashes>                           level
  BRFL <tsc> <index|N> <d> <level|N> <leaf|N>  branch_and_root_from_level
  SPEC <hashes>                                merkleRoot (the definition)
  TSCV <index> <hash> <branch with *>          rootFromProofTsc (client-side TSC verification)
  SRC <hashes> | CNEW | CSET <len> <d> <init> <level> | CINIT <n> | CTRUNC <int|N> | CQ <tsc> <length|N> <index|N>   MerkleCache
-/
open EV EV.Wire

namespace Drv
namespace MerkleD
open EV.Merkle

abbrev Node := String

def H (a b : Node) : Node := "(" ++ a ++ b ++ ")"

structure St where
  src : List Node := []
  cache : Cache Node := {}

def init : St := {}

def showExc : PyExc → String
  | .valueError => "ValueError"
  | .typeError => "TypeError"
  | .indexError => "IndexError"

def showList (l : List String) : String := if l.isEmpty then "-" else joinWith "," l

def showElt : Elt Node → String
  | .node x => x
  | .star => "*"

def showBR : Except PyExc (List (Elt Node) × Node) → String
  | .error e => s!"err {showExc e}"
  | .ok (br, r) => s!"ok {showList (br.map showElt)} | {r}"

def showNode : Except PyExc Node → String
  | .error e => s!"err {showExc e}"
  | .ok r => s!"ok {r}"

def showNat : Except PyExc Nat → String
  | .error e => s!"err {showExc e}"
  | .ok r => s!"ok {r}"

def showNodes : Except PyExc (List Node) → String
  | .error e => s!"err {showExc e}"
  | .ok r => s!"ok {showList r}"

def parseList (w : String) : List Node :=
  if w = "-" then [] else w.splitOn ","

def parseListArg (w : String) : ListArg Node :=
  if w = "N" then .notList else .list (parseList w)

def parseIntArg (w : String) : Option IntArg :=
  if w = "N" then some .notInt else w.toInt?.map .int

def parseLen (w : String) : Option (Option IntArg) :=
  if w = "-" then some none else (parseIntArg w).map some

def parseElt (w : String) : Elt Node := if w = "*" then .star else .node w

def showCache (c : Cache Node) : String :=
  s!"L={c.length} D={c.depthHigher} I={if c.initialized then 1 else 0} V={showList c.level}"

def showOpt : Option PyExc → String
  | none => "ok"
  | some e => s!"err {showExc e}"

def showOutcome : Outcome (List (Elt Node) × Node) → String
  | .blocked => "blocked"
  | .raised e => s!"err {showExc e}"
  | .ret (br, r) => s!"ok {showList (br.map showElt)} | {r}"

def stepLine (s : St) (line : String) : St × String :=
  match words line with
  | ["BL", a] =>
    match parseIntArg a with
    | some a => (s, showNat (branchLength a))
    | none => (s, "bad-op")
  | ["TD", a] =>
    match parseIntArg a with
    | some a => (s, showNat (treeDepth a))
    | none => (s, "bad-op")
  | ["BAR", tsc, idx, len, hs] =>
    match parseIntArg idx, parseLen len with
    | some idx, some len => (s, showBR (branchAndRoot H (parseList hs) idx len (tsc = "1")))
    | _, _ => (s, "bad-op")
  | ["ROOT", len, hs] =>
    match parseLen len with
    | some len => (s, showNode (root H (parseList hs) len))
    | none => (s, "bad-op")
  | ["RFP", idx, h, br] =>
    match idx.toInt? with
    | some idx => (s, showNode (rootFromProof H h (parseList br) idx))
    | none => (s, "bad-op")
  | ["LEVEL", d, hs] =>
    match d.toNat? with
    | some d => (s, showNodes (level H (parseList hs) d))
    | none => (s, "bad-op")
  | ["BRFL", tsc, idx, d, lv, lf] =>
    match parseIntArg idx, d.toNat? with
    | some idx, some d =>
      (s, showBR (branchAndRootFromLevel H (parseListArg lv) (parseListArg lf) idx d (tsc = "1")))
    | _, _ => (s, "bad-op")
  | ["SPEC", hs] =>
    match h : parseList hs with
    | [] => (s, "err empty")
    | a :: rest => (s, s!"ok {merkleRoot H (a :: rest) (by simp)}")
  | ["TSCV", idx, h, br] =>
    match idx.toInt? with
    | some idx => (s, showNode (rootFromProofTsc H h ((parseList br).map parseElt) idx))
    | none => (s, "bad-op")
  | ["SRC", hs] => ({ s with src := parseList hs }, "ok")
  | ["CNEW"] => ({ s with cache := {} }, "ok")
  | ["CSET", l, d, i, v] =>
    match l.toNat?, d.toNat? with
    | some l, some d =>
      ({ s with cache := { length := l, depthHigher := d, initialized := (i = "1"), level := parseList v } }, "ok")
    | _, _ => (s, "bad-op")
  | ["CINIT", n] =>
    match n.toNat? with
    | some n =>
      let (c, e) := s.cache.init H s.src n
      ({ s with cache := c }, s!"{showOpt e} | {showCache c}")
    | none => (s, "bad-op")
  | ["CTRUNC", a] =>
    match parseIntArg a with
    | some a =>
      let (c, e) := s.cache.truncate a
      ({ s with cache := c }, s!"{showOpt e} | {showCache c}")
    | none => (s, "bad-op")
  | ["CQ", tsc, len, idx] =>
    match parseIntArg len, parseIntArg idx with
    | some len, some idx =>
      let (c, o) := s.cache.query H s.src len idx (tsc = "1")
      ({ s with cache := c }, s!"{showOutcome o} | {showCache c}")
    | _, _ => (s, "bad-op")
  | _ => (s, "bad-op")

end MerkleD
end Drv

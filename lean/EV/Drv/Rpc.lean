import EV.Model.Wire
import EV.Model.Rpc

/-! Line-protocol driver for suite `rpc` / `limits` (C16, C17).  No imports outside the model.

The driver owns the *environment parameters* of the model: Python's `int(str)` (implemented here
natively and itself compared with CPython by the `I` op), the stub daemon's broadcast rule, the
`DROP_CLIENT` regex of the harness environment (`^bad`), and the `getaddrinfo` outcome, which the
harness passes along with each `server.add_peer` request (a party outside the code, DESIGN §4).
-/
open EV EV.Wire

namespace Drv
namespace RpcD
open EV.Rpc

/-! ### Python `int(str)` -/

/-- code points of the zeros of the Unicode 15.0 `Nd` decimal-digit runs (CPython 3.12) -/
def ndZeros : List Nat :=
  [48, 1632, 1776, 1984, 2406, 2534, 2662, 2790, 2918, 3046, 3174, 3302, 3430, 3558, 3664, 3792,
   3872, 4160, 4240, 6112, 6160, 6470, 6608, 6784, 6800, 6992, 7088, 7232, 7248, 42528, 43216,
   43264, 43472, 43504, 43600, 44016, 65296, 66720, 68912, 69734, 69872, 69942, 70096, 70384,
   70736, 70864, 71248, 71360, 71472, 71904, 72016, 72784, 73040, 73120, 73552, 92768, 92864,
   93008, 120782, 120792, 120802, 120812, 120822, 123200, 123632, 124144, 125264, 130032]

def digitVal (c : Char) : Option Nat :=
  ndZeros.findSome? (fun z => if z ≤ c.toNat ∧ c.toNat < z + 10 then some (c.toNat - z) else none)

/-- whitespace `int()` strips: C `isspace` for ASCII, `str.isspace` for the rest -/
def isIntSpace (c : Char) : Bool :=
  let n := c.toNat
  (9 ≤ n && n ≤ 13) || n == 32 || n == 133 || n == 160 || n == 5760 || (8192 ≤ n && n ≤ 8202) ||
  n == 8232 || n == 8233 || n == 8239 || n == 8287 || n == 12288

/-- digits with single underscores between them → (value, number of digits) -/
def digitsVal : List Char → Nat → Nat → Bool → Option (Nat × Nat)
  | [], acc, n, prevDigit => if prevDigit then some (acc, n) else none
  | c :: rest, acc, n, prevDigit =>
    if c == '_' then (if prevDigit && !rest.isEmpty then digitsVal rest acc n false else none)
    else match digitVal c with
      | some d => digitsVal rest (acc * 10 + d) (n + 1) true
      | none => none

def pyIntOfStr (s : String) : Option Int :=
  let cs := (s.toList.dropWhile isIntSpace).reverse.dropWhile isIntSpace |>.reverse
  let (neg, body) := match cs with
    | '-' :: r => (true, r)
    | '+' :: r => (false, r)
    | r => (false, r)
  match digitsVal body 0 0 false with
  | some (v, n) => if n > 4300 then none else some (if neg then -(v : Int) else (v : Int))
  | none => none

/-! ### wire encoding of JSON values -/

def parseStrTok (t : String) : Option String :=
  -- `s` followed by decimal code points separated by '.'
  if t == "s" then some ""
  else ((t.drop 1).toString.splitOn ".").mapM String.toNat? |>.map
    (fun cps => String.ofList (cps.map Char.ofNat))

def parseFloatTok (t : String) : Option PyFloat :=
  if t == "Fnan" then some .nan
  else if t == "Finf" then some .inf
  else if t == "Fninf" then some .ninf
  else match (t.drop 1).toString.splitOn "/" with
    | [a, b] => do pure (.fin (← a.toInt?) (← b.toNat?))
    | _ => none

mutual
partial def parseJ : List String → Option (J × List String)
  | [] => none
  | t :: rest =>
    match t.toList.head? with
    | some 'n' => some (.null, rest)
    | some 't' => some (.bool true, rest)
    | some 'f' => some (.bool false, rest)
    | some 'i' => (t.drop 1).toString.toInt?.map (fun i => (.int i, rest))
    | some 'F' => (parseFloatTok t).map (fun f => (.float f, rest))
    | some 's' => (parseStrTok t).map (fun s => (.str s, rest))
    | some 'a' => do
      let k ← (t.drop 1).toString.toNat?
      let (l, rest') ← parseItems k rest
      pure (.arr l, rest')
    | some 'o' => do
      let k ← (t.drop 1).toString.toNat?
      let (kv, rest') ← parsePairs k rest
      pure (.obj kv, rest')
    | _ => none
partial def parseItems : Nat → List String → Option (List J × List String)
  | 0, rest => some ([], rest)
  | k + 1, rest => do
    let (v, r1) ← parseJ rest
    let (vs, r2) ← parseItems k r1
    pure (v :: vs, r2)
partial def parsePairs : Nat → List String → Option (List (String × J) × List String)
  | 0, rest => some ([], rest)
  | k + 1, rest => do
    match rest with
    | [] => none
    | kt :: r0 =>
      let key ← parseStrTok kt
      let (v, r1) ← parseJ r0
      let (vs, r2) ← parsePairs k r1
      pure ((key, v) :: vs, r2)
end

def showStrTok (s : String) : String := "s" ++ joinWith "." (s.toList.map (fun c => toString c.toNat))

/-- only what the suites echo: strings and a class name otherwise -/
def showJ : J → String
  | .null => "n"
  | .bool true => "t"
  | .bool false => "f"
  | .int i => s!"i{i}"
  | .float (.fin n d) => s!"F{n}/{d}"
  | .float .nan => "Fnan"
  | .float .inf => "Finf"
  | .float .ninf => "Fninf"
  | .str s => showStrTok s
  | .arr l => s!"a{l.length}"
  | .obj kv => s!"o{kv.length}"

/-! ### driver state -/

structure DW where
  height : Nat := 0
  hdr : Bytes := []
  blocks : List (Nat × List Bytes) := []
  hist : List (Bytes × List (Bytes × Nat)) := []
  mp : List (Bytes × List (Bytes × Bool)) := []
  maxSend : Nat := 0
  discovery : Bool := true
deriving Inhabited

structure DS where
  w : DW := {}
  mgr : Mgr := {}
  sessions : Array Sess := #[]
deriving Inhabited

def mkWorld (d : DW) (resolve : Except PyExc Bool) : World :=
  { height := d.height
    hdrFile := d.hdr
    blockTxs := fun h => (dGet h d.blocks).getD []
    history := fun hx => (dGet hx d.hist).getD []
    mempool := fun hx => (dGet hx d.mp).getD []
    daemonTxs := d.blocks.flatMap (·.2)
    broadcastOk := fun raw => raw.length % 4 == 0
    maxSend := d.maxSend
    intOfStr := pyIntOfStr
    dropClient := fun j => match j with
      | .str s => s.startsWith "bad"
      | _ => false
    discoveryOn := d.discovery
    skipResolve := fun host => host.endsWith ".onion"
    permitNoResolve := fun _ => true
    resolve := fun _ => resolve }

/-! ### canonical output -/

def chk (bs : Bytes) : Nat :=
  (bs.foldl (fun (acc : Nat × Nat) b => ((acc.1 + b * (acc.2 + 1)) % 1000000007, acc.2 + 1)) (0, 0)).1

def chkHist (l : List (Bytes × Nat)) : Nat :=
  (l.foldl (fun (acc : Nat × Nat) e =>
    ((acc.1 + (chk e.1 + e.2) * (acc.2 + 1)) % 1000000007, acc.2 + 1)) (0, 0)).1

/-- the real reply does not repeat (cp_height, height): only the presence of a proof is compared
    (the harness's direct oracle verifies the proof itself against its own header list) -/
def showProof : Option (Nat × Nat) → String
  | none => "-"
  | some _ => "P"

def showStatus : Status → String
  | none => "null"
  | some d => s!"{d.conf.length}+{d.mp.length}"

def showExc : PyExc → String
  | .rpcError c => s!"rpc {c}"
  | .replyAndDisconnect c => s!"disc {c}"
  | e => s!"internal {e.name}"

def showOutcome (method : String) : Except PyExc Res → String
  | .error e => showExc e
  | .ok .unit => "ok"
  | .ok (.bool b) => if method == "server.add_peer" then "ok" else s!"ok b={if b then 1 else 0}"
  | .ok (.header raw p) => s!"ok header {raw.length} {chk raw} {showProof p}"
  | .ok (.headers raw c m p) => s!"ok headers {raw.length} {chk raw} {c} {m} {showProof p}"
  | .ok (.history conf mp) => s!"ok hist {conf.length} {chkHist conf} {mp.length}"
  | .ok (.status s) => s!"ok status {showStatus s}"
  | .ok (.tsc t) => s!"ok tsc {showJ t}"

def sortStrs (l : List String) : List String := (l.mergeSort (fun a b => decide (a ≤ b)))

def showTuple (t : List Int) : String := joinWith "." (t.map toString)

def showSess (s : Sess) : String :=
  let subs := sortStrs (s.subs.map fun (hx, a) => s!"{toHex hx}={showStrTok a}")
  let mps := sortStrs (s.mpStatus.map fun (hx, st) => s!"{toHex hx}={showStatus st}")
  s!"subs {joinWith "," subs} ; mp {joinWith "," mps} ; hs {if s.subHeaders then 1 else 0} ; " ++
  s!"sv {if s.svSeen then 1 else 0} ; peer {if s.isPeer then 1 else 0} ; pt {showTuple s.ptuple}"

def showHistRes : HistRes → String
  | .ok l => s!"{l.length}"
  | .tooLarge => "E"

def showMgr (m : Mgr) : String :=
  let hc := sortStrs (m.histCache.map fun (hx, r) => s!"{toHex hx}={showHistRes r}")
  s!"hc {joinWith "," hc} ; tc {showNats (canonSet m.txCache)} ; mc {showNats (canonSet m.merkleCache)}"

/-! ### ops -/

def parseHashPairs (ws : List String) : Option (List (Bytes × Nat)) :=
  ws.mapM fun w => match w.splitOn ":" with
    | [a, b] => do pure ((← ofHex a), (← b.toNat?))
    | _ => none

def parseResolve : List String → Except PyExc Bool
  | ["R", "permit"] => .ok true
  | ["R", "refuse"] => .ok false
  | ["R", "gaierror"] => .error .gaiError
  | ["R", "UnicodeError"] => .error .unicodeError
  | ["R", "ValueError"] => .error .valueError
  | ["R", "TypeError"] => .error .typeError
  | ["R", "OSError"] => .error .osError
  | _ => .error .gaiError

def setKV {α β : Type} [DecidableEq α] (k : α) (v : β) (l : List (α × β)) : List (α × β) :=
  (k, v) :: l.filter (fun e => !decide (e.1 = k))

/-- canonical notification dict: the last entry per alias wins, sorted -/
def showNotes (l : List (String × Status)) : String :=
  let dedup := l.foldl (fun acc (e : String × Status) => setKV e.1 e.2 acc) []
  joinWith "," (sortStrs (dedup.map fun (a, s) => s!"{showStrTok a}={showStatus s}"))

def stepLine (s : DS) (line : String) : DS × String :=
  match words line with
  | ["RESET"] => ({}, "ok")
  | ["W", "height", h] => match h.toNat? with
    | some h => ({ s with w := { s.w with height := h } }, "ok")
    | none => (s, "bad-op")
  | ["W", "hdr", hex] => match ofHex hex with
    | some b => ({ s with w := { s.w with hdr := s.w.hdr ++ b } }, "ok")
    | none => (s, "bad-op")
  | ["W", "hdrclear"] => ({ s with w := { s.w with hdr := [] } }, "ok")
  | "W" :: "block" :: h :: txs => match h.toNat?, txs.mapM ofHex with
    | some h, some txs => ({ s with w := { s.w with blocks := setKV h txs s.w.blocks } }, "ok")
    | _, _ => (s, "bad-op")
  | "W" :: "hist" :: hx :: items => match ofHex hx, parseHashPairs items with
    | some hx, some l => ({ s with w := { s.w with hist := setKV hx l s.w.hist } }, "ok")
    | _, _ => (s, "bad-op")
  | "W" :: "mp" :: hx :: items => match ofHex hx, parseHashPairs items with
    | some hx, some l =>
      ({ s with w := { s.w with mp := setKV hx (l.map fun (t, f) => (t, f != 0)) s.w.mp } }, "ok")
    | _, _ => (s, "bad-op")
  | ["W", "maxsend", n] => match n.toNat? with
    | some n => ({ s with w := { s.w with maxSend := n } }, "ok")
    | none => (s, "bad-op")
  | ["W", "discovery", n] => ({ s with w := { s.w with discovery := n == "1" } }, "ok")
  | ["W", "clearcaches"] => ({ s with mgr := {} }, "ok")
  | ["S"] => ({ s with sessions := s.sessions.push {} }, s!"ok {s.sessions.size}")
  | "Q" :: sid :: mtok :: kind :: rest =>
    match sid.toNat?, parseStrTok mtok, parseJ rest with
    | some sid, some method, some (j, tail) =>
      match s.sessions[sid]?, kind, j with
      | some sess, "P", .arr l =>
        let (st', r) := dispatch (mkWorld s.w (parseResolve tail)) { sess := sess, mgr := s.mgr } method (.pos l)
        ({ s with mgr := st'.mgr, sessions := s.sessions.set! sid st'.sess },
         s!"{showOutcome method r} | {showSess st'.sess} | {showMgr st'.mgr}")
      | some sess, "N", .obj kv =>
        let (st', r) := dispatch (mkWorld s.w (parseResolve tail)) { sess := sess, mgr := s.mgr } method (.named kv)
        ({ s with mgr := st'.mgr, sessions := s.sessions.set! sid st'.sess },
         s!"{showOutcome method r} | {showSess st'.sess} | {showMgr st'.mgr}")
      | _, _, _ => (s, "bad-op")
    | _, _, _ => (s, "bad-op")
  | "N" :: hc :: touched =>
    match touched.mapM ofHex with
    | none => (s, "bad-op")
    | some touched =>
      let heightChanged := hc == "1"
      let w := mkWorld s.w (.error .gaiError)
      let mgr0 := invalidate s.mgr touched heightChanged
      let (mgr', sessions', outs) := (List.range s.sessions.size).foldl
        (fun (acc : Mgr × Array Sess × List String) i =>
          let (mgr, sessions, outs) := acc
          match sessions[i]? with
          | none => acc
          | some sess =>
            let (st', hdr, notes) := notifyInner w { sess := sess, mgr := mgr } touched heightChanged
            (st'.mgr, sessions.set! i st'.sess,
             outs ++ [s!"{i}:{if hdr then 1 else 0}:[{showNotes notes}] {showSess st'.sess}"]))
        (mgr0, s.sessions, [])
      ({ s with mgr := mgr', sessions := sessions' }, s!"{joinWith " || " outs} | {showMgr mgr'}")
  | "V" :: kind :: rest =>
    match parseJ rest with
    | none => (s, "bad-op")
    | some (j, _) =>
      let showE {α : Type} (f : α → String) (r : Except PyExc α) : String :=
        match r with
        | .ok a => "ok " ++ f a
        | .error e => showExc e
      (s, match kind with
        | "nni" => showE (fun (n : Nat) => toString n) (nonNegativeInteger pyIntOfStr j)
        | "sh" => showE showHex (scripthashToHashX j)
        | "tx" => showE showHex (assertTxHash j)
        | "raw" => showE showHex (assertRawBytes j)
        | "bool" => showE (fun _ => "-") (assertBoolean j)
        | "pt" => showE showTuple (protocolTuple pyIntOfStr j)
        | "pv" => showE (fun (o : Option (List Int)) => match o with
            | some t => showTuple t
            | none => "none") (protocolVersion pyIntOfStr j Gen.protocolMin Gen.protocolMax)
        | _ => "bad-op")
  | ["I", tok] => match parseStrTok tok with
    | some str => (s, match pyIntOfStr str with
      | some i => s!"{i}"
      | none => "V")
    | none => (s, "bad-op")
  | ["X", tok] => match parseStrTok tok with
    | some str => (s, match fromHex (.str str) with
      | .ok b => showHex b
      | .error _ => "V")
    | none => (s, "bad-op")
  | _ => (s, "bad-op")

end RpcD
end Drv

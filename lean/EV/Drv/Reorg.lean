import EV.Model.Wire
import EV.Model.Reorg

/-! Driver for suite `reorgrange`: `R <height> <count> | <server hashes by height> | <daemon hashes by height>` -/
open EV EV.Wire EV.Reorg

namespace Drv.ReorgD

def stepLine (_ : Unit) (line : String) : Unit × String :=
  match line.splitOn "|" with
  | [hd, a, b] =>
    match words hd, natList (words a), natList (words b) with
    | ["R", h, c], some mine, some daemon =>
      match h.toNat?, c.toInt? with
      | some h, some c =>
        let r := calcReorgRange (fun i => mine.getD i 0) (fun i => daemon.getD i 0) h c
        ((), s!"{r.1} {r.2}")
      | _, _ => ((), "bad-op")
    | _, _, _ => ((), "bad-op")
  | _ => ((), "bad-op")

end Drv.ReorgD

import EV.Model.Wire
import EV.Model.Notif

/-! Line-protocol driver for suite `notif` (no imports outside the model: linked into `evdrv`). -/
open EV EV.Wire

namespace Drv

/-! ### suite `notif` -/
namespace NotifD
open EV.Notif

def showDict (d : Dict) : String :=
  let d' := d.mergeSort (fun a b => decide (a.1 ≤ b.1))
  joinWith " " (d'.map fun (k, v) => s!"{k}:[{showNats (canonSet v)}]")

def showEmit : Option Emit → String
  | none => "-"
  | some (h, t) => s!"E {h} [{showNats (canonSet t)}]"

def showSt (s : St) : String := s!"mp {showDict s.mp} | bp {showDict s.bp} | hi {s.highest}"

def parseOp (ws : List String) : Option Op :=
  match ws with
  | ["S", h] => do pure (.start (← h.toInt?))
  | "M" :: h :: xs => do pure (.mempool (← natList xs) (← h.toInt?))
  | "B" :: h :: xs => do pure (.block (← natList xs) (← h.toInt?))
  | _ => none

def parseEntry (w : String) : Option (Int × List Nat) :=
  match w.splitOn ":" with
  | [k, v] => do
    let k ← k.toInt?
    let v ← natList ((v.splitOn ",").filter (· ≠ ""))
    pure (k, v)
  | _ => none

/-- `X hi;k:a,b k:;k:c` sets the state explicitly (used by the exhaustive DFS) -/
def parseState (rest : String) : Option St :=
  match rest.splitOn ";" with
  | [hi, mp, bp] => do
    let hi ← hi.trimAscii.toString.toInt?
    let mp ← (words mp).mapM parseEntry
    let bp ← (words bp).mapM parseEntry
    pure { mp := mp, bp := bp, highest := hi }
  | _ => none

/-- variant 0 = current code, 1 = pinned-commit code -/
def stepLine (variant : Nat) (s : St) (line : String) : St × String :=
  match words line with
  | ["R"] => (init, "ok")
  | "X" :: _ =>
    match parseState (line.drop 2).toString with
    | some s' => (s', "ok")
    | none => (s, "bad-op")
  | ws =>
    match parseOp ws with
    | none => (s, "bad-op")
    | some op =>
      let (s', e) := if variant = 0 then step s op else Orig.step s op
      (s', s!"{showEmit e} | {showSt s'}")

end NotifD

end Drv

import EV.Model.Wire
import EV.Model.Shutdown

/-! Driver for suite `shutdown`: `R` reset | `A t` | `L t` (release) | `JS t` | `JE t`; prints
`ok <running count>` or `reject`. -/
open EV EV.Wire EV.Shutdown

namespace Drv.ShutdownD

def stepLine (st : Option St) (line : String) : Option St × String :=
  let go (e : Ev) : Option St × String :=
    match st with
    | none => (none, "reject")
    | some s => match step s e with
      | none => (none, "reject")
      | some s' => (some s', s!"ok {s'.running.length}")
  match words line with
  | ["R"] => (some {}, "ok 0")
  | ["A", t] => match t.toNat? with | some t => go (.acquire t) | none => (st, "bad-op")
  | ["L", t] => match t.toNat? with | some t => go (.release t) | none => (st, "bad-op")
  | ["JS", t] => match t.toNat? with | some t => go (.jobStart t) | none => (st, "bad-op")
  | ["JE", t] => match t.toNat? with | some t => go (.jobEnd t) | none => (st, "bad-op")
  | _ => (st, "bad-op")

end Drv.ShutdownD

import EV.Model.Wire
import EV.Model.Index
import EV.Model.Compact
import EV.Drv.Index

/-! Line-protocol driver for suite `compaction`: the index driver plus the compaction ops. -/
open EV EV.Wire EV.Index EV.Compact

namespace Drv.CompactD

structure DSt where
  ix : Drv.IndexD.DSt := {}
  maxRow : Nat := 12500
  saved : List (Nat × Sys) := []
deriving Inhabited

def showCErr : CErr → String
  | .assertion => "AssertionError"
  | .structError => "error"          -- struct.error

def sortKeys (l : List (HashX × Nat)) : List (HashX × Nat) :=
  Drv.IndexD.sortRows (fun (k : HashX × Nat) => [k.1, k.2]) l

/-- one compaction batch: deletes as a sorted set, puts in write order, state -/
def showBatch : Effect → String
  | .histBatch dels puts st =>
    "HB del " ++ joinWith " " ((sortKeys dels).eraseDups.map fun k => s!"{k.1},{k.2}") ++
    " put " ++ joinWith " " (puts.map fun e => s!"{e.1.1},{e.1.2}=[{showNats e.2}]") ++
    s!" st {st.flushCount},{st.compFlushCount},{st.compCursor}"
  | e => Drv.IndexD.showEffect e

/-- the history table and both flush counts -/
def showHist (p : Store) : String :=
  let hi := Drv.IndexD.sortRows (fun (e : (HashX × Nat) × List Nat) => [e.1.1, e.1.2]) p.hist
  "hist " ++ joinWith " " (hi.map fun e => s!"{e.1.1},{e.1.2}=[{showNats e.2}]") ++
  " | hs " ++ (match p.hstate with
    | none => "none"
    | some c => s!"{c.flushCount},{c.compFlushCount},{c.compCursor}") ++
  " | uf " ++ (match p.ustate with
    | none => "none"
    | some c => s!"{c.flushCount},{if c.firstSync then 1 else 0}")

/-- `hx=n1,n2,…` -/
def parseUnf (w : String) : Option (HashX × List Nat) :=
  match w.splitOn "=" with
  | [hx, ns] => do
    let hx ← hx.toNat?
    let ns ← natList ((ns.splitOn ",").filter (· ≠ ""))
    pure (hx, ns)
  | _ => none

def withSys (d : DSt) (s : Sys) : DSt := { d with ix := { d.ix with s := s } }

def stepLine (d : DSt) (line : String) : DSt × String :=
  let s := d.ix.s
  match words line with
  | ["MAXROW", n] =>
    match n.toNat? with
    | some n => ({ d with maxRow := n }, "ok")
    | none => (d, "bad-op")
  | "RAWPUT" :: hx :: fid :: nums =>
    match hx.toNat?, fid.toNat?, natList nums with
    | some hx, some fid, some nums =>
      (withSys d { s with p := { s.p with hist := ainsert (hx, fid) nums s.p.hist } }, "ok")
    | _, _, _ => (d, "bad-op")
  | ["RAWHSTATE", f, cfc, cur] =>
    -- the state record rewritten by hand, and the History object's fields with it
    match f.toNat?, cfc.toInt?, cur.toInt? with
    | some f, some cfc, some cur =>
      (withSys d { m := { s.m with histFlush := f, compFlush := cfc, compCursor := cur },
                   p := { s.p with hstate := some { flushCount := f, compFlushCount := cfc, compCursor := cur } } }, "ok")
    | _, _, _ => (d, "bad-op")
  | ["FLUSHCRASH", n] =>
    -- `flush_dbs(…, flush_utxos=True)`; the process dies after the first `n` persistent effects
    match n.toNat?, flushDbs s true with
    | some n, some (es, _) => (withSys d { p := applyEffects s.p (es.take n), m := {} }, "ok")
    | _, _ => (d, "AssertionError")
  | "HFLUSH" :: unf =>
    -- `History.add_unflushed` (the resulting dict is given) followed by `History.flush()`
    match unf.mapM parseUnf with
    | some u =>
      let s1 : Sys := { s with m := { s.m with unflushed := u } }
      (withSys d { m := { s1.m with unflushed := [], histFlush := s1.m.histFlush + 1 },
                   p := applyEffect s1.p (histFlushEffect s1) }, "ok")
    | none => (d, "bad-op")
  | "HBACKUP" :: txCount :: hxs =>
    -- `History.backup(hashXs, tx_count)`
    match txCount.toNat?, natList hxs with
    | some tc, some hxs =>
      (withSys d { m := { s.m with histFlush := s.m.histFlush + 1 },
                   p := applyEffect s.p (histBackupEffect s hxs tc) }, "ok")
    | _, _ => (d, "bad-op")
  | ["SETUSTATE"] =>
    -- `db.state.flush_count = history.flush_count; db.state.first_sync = False; db.write_utxo_state(db.utxo_db)`
    let st := { s.m.dbst with flushCount := s.m.histFlush, firstSync := false }
    (withSys d { m := { s.m with dbst := st, st := { s.m.st with flushCount := s.m.histFlush, firstSync := false } },
                 p := applyEffect s.p (.putUState st) }, "ok")
  | ["CAUGHTUP"] =>
    (withSys d { s with m := { s.m with st := { s.m.st with firstSync := false } } }, "ok")
  | ["COPEN"] =>
    -- `open_for_compacting`, `assert not first_sync`, cursor/comp_flush_count initialisation
    match openDbs d.ix.cfg s.p true none with
    | none => (d, "AssertionError")
    | some (_, s') =>
      if s'.m.dbst.firstSync then (withSys d s', "AssertionError")
      else (withSys d { s' with m := driverInit s'.m }, "ok")
  | ["BATCH", limit] =>
    match limit.toNat? with
    | some limit =>
      match compactHistory d.maxRow limit s with
      | .error e => (d, showCErr e)
      | .ok (e, s') => (withSys d s', showBatch e)
    | none => (d, "bad-op")
  | ["SETFLUSH"] =>
    (withSys d { m := { s.m with dbst := { s.m.dbst with flushCount := s.m.histFlush } },
                 p := applyEffect s.p (setFlushCountEffect s) }, "ok")
  | ["SCRIPT", limit, k, setFlush] =>
    -- a whole run of the script: at most `k` batches with this limit, then death
    match limit.toNat?, k.toNat? with
    | some limit, some k =>
      (withSys d { p := compactScript d.ix.cfg d.maxRow s.p (List.replicate k limit) (setFlush = "1"), m := {} }, "ok")
    | _, _ => (d, "bad-op")
  | ["SERVERSTART"] => (withSys d { p := serverStart d.ix.cfg s.p, m := {} }, "ok")
  | ["SAVE", i] =>
    match i.toNat? with
    | some i => ({ d with saved := (i, s) :: d.saved.filter (·.1 ≠ i) }, "ok")
    | none => (d, "bad-op")
  | ["RESTORE", i] =>
    match i.toNat?.bind (fun i => alookup i d.saved) with
    | some s' => (withSys d s', "ok")
    | none => (d, "bad-op")
  | ["TXNUMS", hx, lim] =>
    match hx.toNat?, Drv.IndexD.optNat lim with
    | some hx, some lim => (d, s!"[{showNats (getTxnums s.p hx lim)}]")
    | _, _ => (d, "bad-op")
  | ["DUMPH"] => (d, showHist s.p)
  | ["HMEM"] => (d, s!"{s.m.histFlush},{s.m.compFlush},{s.m.compCursor}")
  | _ =>
    let (ix', out) := Drv.IndexD.stepLine d.ix line
    ({ d with ix := ix' }, out)

end Drv.CompactD

import EV.Model.Wire
import EV.Model.HeaderCache
import EV.Drv.Merkle

/-! Driver for suite `headercache`:
  NEW <eflh> <depthHigher> <initLen> <hashes>  fresh state: visible hashes, cache initialised to the
                                               first initLen of them with the given depth_higher;
                                               e,f,l,h ∈ {0,1} = Cfg.extFix, Cfg.retry, Cfg.lowerFirst,
                                               Cfg.hdrCheck (a missing flag is 1)
  HD <height> <cp> | HS <start> <count> <cp> | PF <i> | DL <i> | BB <n> | BE | AP <hashes>
                                               the events of EV.HeaderCache
  ST <cp> <height>                             = HD <height> <cp>, PF i, DL i for the new request i
                                               (`startAtomic`)
Output after every line:
  `<cache length> <cache level> | <truncations> | <len src> <pending or -> | <req> ; <req> ; …`
  req = `H|E|L|V <start>,<count>,<?|!|hashes>` (waiting for the handler's header read | in _extend_to |
        for the leaf hashes | in _level_for)
      | `A <headers> <branch> <root>` | `P <headers>` | `X <error>` | `R`. -/
open EV EV.Wire EV.Merkle EV.HeaderCache

namespace Drv.HeaderCacheD
open Drv.MerkleD

structure DSt where
  cfg : Cfg := {}
  s : HeaderCache.St Node := {}

def showRd (a n : Nat) : Rd Node → String
  | .issued => s!"{a},{n},?"
  | .short => s!"{a},{n},!"
  | .got hs => s!"{a},{n},{showList hs}"

def showReq (c : Cache Node) (r : Req Node) : String :=
  match r.pc with
  | .hdr rd => "H " ++ showRd r.first r.count rd
  | .ext _ _ start rd => "E " ++ showRd start (r.length - start) rd
  | .leaf rd => "L " ++ showRd (c.leafStart r.index) (min c.segLen (r.length - c.leafStart r.index)) rd
  | .lvl _ _ rd => "V " ++ showRd (c.leafStart r.length) (min c.segLen (r.length - c.leafStart r.length)) rd
  | .done (.answer br root) => s!"A {showList r.hdrs} {showList (br.map showElt)} {root}"
  | .done .plain => s!"P {showList r.hdrs}"
  | .done (.error .dbError) => "X DBError"
  | .done (.error (.py e)) => s!"X {showExc e}"
  | .done .refused => "R"

def showSt (s : HeaderCache.St Node) : String :=
  let pend := match s.pending with
    | none => "-"
    | some n => toString n
  s!"{s.c.length} {showList s.c.level} | {s.truncations} | {s.src.length} {pend} | " ++
    joinWith " ; " (s.reqs.map (showReq s.c))

def nodes (w : String) : List Node := if w = "-" then [] else (w.splitOn ",").filter (· ≠ "")

def flag (cs : List Char) (i : Nat) : Bool := cs.getD i '1' == '1'

def ev (d : DSt) (e : Ev Node) : DSt × String :=
  let s := step H d.cfg d.s e
  ({ d with s := s }, showSt s)

def stepLine (d : DSt) (line : String) : DSt × String :=
  match words line with
  | ["NEW", v, dh, n, hs] =>
    match dh.toNat?, n.toNat? with
    | some dh, some n =>
      let src := nodes hs
      let lv := match Merkle.level H (src.take n) dh with | .ok l => l | .error _ => []
      let s : HeaderCache.St Node :=
        { src := src, ref := src, c := { length := n, level := lv, depthHigher := dh, initialized := true } }
      let cs := v.toList
      ({ cfg := { extFix := flag cs 0, retry := flag cs 1, lowerFirst := flag cs 2, hdrCheck := flag cs 3 },
         s := s }, showSt s)
    | _, _ => (d, "bad-op")
  | ["ST", cp, h] =>
    match cp.toNat?, h.toNat? with
    | some cp, some h =>
      let s := run H d.cfg d.s (startAtomic h cp d.s.reqs.length)
      ({ d with s := s }, showSt s)
    | _, _ => (d, "bad-op")
  | ["HD", h, cp] =>
    match h.toNat?, cp.toNat? with
    | some h, some cp => ev d (.header h cp)
    | _, _ => (d, "bad-op")
  | ["HS", a, n, cp] =>
    match a.toNat?, n.toNat?, cp.toNat? with
    | some a, some n, some cp => ev d (.headers a n cp)
    | _, _, _ => (d, "bad-op")
  | ["PF", i] =>
    match i.toNat? with
    | some i => ev d (.perform i)
    | none => (d, "bad-op")
  | ["DL", i] =>
    match i.toNat? with
    | some i => ev d (.deliver i)
    | none => (d, "bad-op")
  | ["BB", n] =>
    match n.toNat? with
    | some n => ev d (.boBegin n)
    | none => (d, "bad-op")
  | ["BE"] => ev d .boEnd
  | ["AP", hs] => ev d (.append (nodes hs))
  | _ => (d, "bad-op")

end Drv.HeaderCacheD

import EV.Model.Wire
import EV.Model.HeaderCache
import EV.Drv.Merkle

/-! Driver for suite `headercache`:
  NEW <variant> <depthHigher> <initLen> <hashes>   fresh state: source list, cache initialised to
                                                   the first initLen hashes with the given depth_higher
  XS <len> | XR | XF | BK <n> | AP <hashes>        the events of EV.HeaderCache
Output after every event: `len level | truncations | ext`.   variant 0 = current code, 1 = pinned. -/
open EV EV.Wire EV.Merkle EV.HeaderCache

namespace Drv.HeaderCacheD
open Drv.MerkleD

structure DSt where
  fixed : Bool := true
  s : HeaderCache.St Node := {}

def showSt (s : HeaderCache.St Node) : String :=
  let ext := match s.ext with
    | none => "-"
    | some e => s!"{e.target},{e.start}," ++ (match e.hashes with | none => "?" | some hs => showList hs)
  s!"{s.c.length} {showList s.c.level} | {ext}"

def nodes (w : String) : List Node := if w = "-" then [] else (w.splitOn ",").filter (· ≠ "")

def stepLine (d : DSt) (line : String) : DSt × String :=
  match words line with
  | ["NEW", v, dh, n, hs] =>
    match dh.toNat?, n.toNat? with
    | some dh, some n =>
      let src := nodes hs
      let lv := match Merkle.level H (src.take n) dh with | .ok l => l | .error _ => []
      let s : HeaderCache.St Node := { src := src, c := { length := n, level := lv, depthHigher := dh, initialized := true } }
      ({ fixed := v = "0", s := s }, showSt s)
    | _, _ => (d, "bad-op")
  | ["XS", l] =>
    match l.toNat? with
    | some l => let s := step H d.fixed d.s (.extStart l); ({ d with s := s }, showSt s)
    | none => (d, "bad-op")
  | ["XR"] => let s := step H d.fixed d.s .extRead; ({ d with s := s }, showSt s)
  | ["XF"] => let s := step H d.fixed d.s .extFinish; ({ d with s := s }, showSt s)
  | ["BK", n] =>
    match n.toNat? with
    | some n => let s := step H d.fixed d.s (.backup n); ({ d with s := s }, showSt s)
    | none => (d, "bad-op")
  | ["AP", hs] => let s := step H d.fixed d.s (.append (nodes hs)); ({ d with s := s }, showSt s)
  | _ => (d, "bad-op")

end Drv.HeaderCacheD

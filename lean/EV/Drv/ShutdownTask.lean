import EV.Model.ShutdownTask
import EV.Drv.Index

/-! Line-protocol driver for the task-level shutdown model (`EV.ShutdownTask`; suite `shutdown`,
second pass).  One line per event of the real `fetch_and_process_blocks` task:

  `CFG act lim` `BLK …`              configuration, the blocks of the generator (as in suite `index`)
  `R`                                  reset the task state
  `PR a` `FR n` `CN`                   force_flush_arg = a | force_chain_reorg(n) | shutdown request
  `BG` `FE id…` `FN` `NB` `EB` `CU` `WK` `RR id…` `NK` `ER` `RS`     steps of the outer task
  `IS` `HS` `DL`                       inner task acquires the lock | handler's does | job result delivered
  `JE adv id dH` | `JE flush a` | `JE backup id`    the worker job returns; kind and argument must be
                                       those of the job the model has in flight
  `END`                                `returned|died|running` + whether an inner task is left
  `REOPEN`                             `_open_dbs` on the persistent part: the state record read back
  `DUMP`                               the reopened store (format of suite `index`)

An event line answers `ok <outer> <bp height> <db height> <fs height> <inner>` or `reject`. -/
open EV EV.Wire EV.Index EV.ShutdownTask

namespace Drv.ShutdownTaskD

structure DSt where
  cfg : Cfg := { act := 0, reorgLimit := 200 }
  blocks : List (Nat × Block) := []
  st : Option St := some {}
  reopened : Sys := {}
deriving Inhabited

def outerTag : Outer → String
  | .start => "start"
  | .idle .top => "top"
  | .idle (.batch r) => s!"batch{r.length}"
  | .idle .postCaughtUp => "postCaughtUp"
  | .idle .sleeping => "sleeping"
  | .idle .reorgHashes => "reorgHashes"
  | .idle (.backups r) => s!"backups{r.length}"
  | .awaitSec _ => "awaitSec"
  | .secReady _ none => "secReady"
  | .secReady _ (some _) => "secFailed"
  | .handler => "handler"
  | .returned => "returned"
  | .died => "died"

def jobTag : JobK → String
  | .adv _ => "adv"
  | .flush _ => "flush"
  | .backup _ => "backup"

def innerTag : Option Inner → String
  | none => "none"
  | some (.wantLock _) => "wantLock"
  | some (.job _ j) => "job-" ++ jobTag j
  | some (.jobDone _ j _) => "jobDone-" ++ jobTag j

def showSt (st : St) : String :=
  s!"ok {outerTag st.outer} {st.sys.m.st.height} {st.sys.m.dbst.height} {st.sys.m.fsHeight} {innerTag st.inner}"

def ev (d : DSt) (e : Ev) : DSt × String :=
  match d.st with
  | none => (d, "reject")
  | some st =>
    match step d.cfg st e with
    | none => ({ d with st := none }, "reject")
    | some st' => ({ d with st := some st' }, showSt st')

def lookupBlocks (d : DSt) (ids : List String) : Option (List Block) :=
  (natList ids).bind (fun ids => ids.mapM (fun i => alookup i d.blocks))

/-- the job the model has in flight must be the one the real worker ran -/
def jobIs (d : DSt) (j : JobK) : Bool :=
  match d.st with
  | some st =>
    match st.inner with
    | some (.job _ j') => j == j'
    | _ => false
  | none => false

def stepLine (d : DSt) (line : String) : DSt × String :=
  match words line with
  | ["CFG", act, lim] =>
    match act.toNat?, lim.toNat? with
    | some a, some l => ({ cfg := { act := a, reorgLimit := l } }, "ok")
    | _, _ => (d, "bad-op")
  | "BLK" :: _ =>
    match Drv.IndexD.parseBlock line with
    | some (i, b) => ({ d with blocks := (i, b) :: d.blocks.filter (·.1 ≠ i) }, "ok")
    | none => (d, "bad-op")
  | ["R"] => ({ d with st := some {}, reopened := {} }, "ok")
  | ["PR", a] => ev d (.pressure (a = "1"))
  | ["FR", n] => match n.toNat? with | some n => ev d (.forceReorg n) | none => (d, "bad-op")
  | ["CN"] => ev d .cancel
  | ["BG"] => ev d .begin
  | "FE" :: ids => match lookupBlocks d ids with | some bs => ev d (.fetched bs) | none => (d, "bad-op")
  | ["FN"] => ev d .fetchedNone
  | ["NB"] => ev d .nextBlock
  | ["EB"] => ev d .endBatch
  | ["CU"] => ev d .caughtUpDone
  | ["WK"] => ev d .wake
  | "RR" :: ids => match lookupBlocks d ids with | some bs => ev d (.reorgRange bs) | none => (d, "bad-op")
  | ["NK"] => ev d .nextBackup
  | ["ER"] => ev d .endReorg
  | ["RS"] => ev d .resume
  | ["IS"] => ev d .innerStart
  | ["HS"] => ev d .hStart
  | ["DL"] => ev d .deliver
  | ["JE", "adv", i, dh] =>
    match i.toNat?.bind (fun i => alookup i d.blocks), dh.toInt? with
    | some b, some dh => if jobIs d (.adv b) then ev d (.jobEnd dh) else ({ d with st := none }, "reject")
    | _, _ => (d, "bad-op")
  | ["JE", "flush", a] =>
    if jobIs d (.flush (a = "1")) then ev d (.jobEnd 0) else ({ d with st := none }, "reject")
  | ["JE", "backup", i] =>
    match i.toNat?.bind (fun i => alookup i d.blocks) with
    | some b => if jobIs d (.backup b) then ev d (.jobEnd 0) else ({ d with st := none }, "reject")
    | none => (d, "bad-op")
  | ["END"] =>
    match d.st with
    | none => (d, "reject")
    | some st =>
      let o := match st.outer with | .returned => "returned" | .died => "died" | _ => "running"
      (d, s!"{o} {if st.inner.isNone && !st.lock then "drained" else "busy"} ok={st.ok}")
  | ["REOPEN"] =>
    match d.st with
    | none => (d, "reject")
    | some st =>
      match openDbs d.cfg st.sys.p false none with
      | none => (d, "AssertionError")
      | some (_, s') =>
        let c := s'.m.dbst
        ({ d with reopened := s' }, s!"ok {c.height},{c.txCount},{c.chainSize},{c.tip},{c.utxoCount}")
  | ["DUMP"] =>
    (d, Drv.IndexD.showStore d.reopened.p (d.reopened.m.fsHeight + 1).toNat d.reopened.m.fsTxCount)
  | _ => (d, "bad-op")

end Drv.ShutdownTaskD

import EV.Model.Wire
import EV.Model.Index
import EV.Model.IndexSplit
import EV.Spec.Chain

/-! Line-protocol driver for suite `index` (concrete index model). -/
open EV EV.Wire EV.Index

namespace Drv.IndexD

structure DSt where
  cfg : Cfg := { act := 0, reorgLimit := 200 }
  blocks : List (Nat × Block) := []
  s : Sys := {}
  /-- effects of the most recent flush / backup / open (for the crash suite) -/
  lastEffects : List Effect := []
  /-- persistent store before those effects -/
  before : Store := {}
  /-- spec state of the chain last given with `S_CHAIN`, and that chain -/
  spec : EV.Spec.St := {}
  specChain : List Block := []
  /-- a `lookup_utxos` call suspended between its two jobs: prevout and what job 1 handed over -/
  pend : Option (Hash × Nat × Option (HashX × Nat)) := none
deriving Inhabited

def lexLe : List Nat → List Nat → Bool
  | [], _ => true
  | _ :: _, [] => false
  | a :: as, b :: bs => if a < b then true else if a > b then false else lexLe as bs

def sortRows {α : Type} (key : α → List Nat) (l : List α) : List α :=
  l.mergeSort (fun a b => lexLe (key a) (key b))

def kindOf : Nat → Option Kind
  | 0 => some .normal
  | 1 => some .opReturn
  | 2 => some .opFalseReturn
  | _ => none

def parseIns : Nat → List Nat → Option (List TxIn × List Nat)
  | 0, r => some ([], r)
  | n + 1, p :: i :: r => do
    let (ins, r') ← parseIns n r
    pure (⟨p, i⟩ :: ins, r')
  | _, _ => none

def parseOuts : Nat → List Nat → Option (List TxOut × List Nat)
  | 0, r => some ([], r)
  | n + 1, v :: hx :: k :: r => do
    let kind ← kindOf k
    let (outs, r') ← parseOuts n r
    pure (⟨v, hx, kind⟩ :: outs, r')
  | _, _ => none

def parseTx (ws : List String) : Option Tx := do
  let ns ← natList ws
  match ns with
  | id :: nin :: r =>
    let (ins, r1) ← parseIns nin r
    match r1 with
    | nout :: r2 =>
      let (outs, r3) ← parseOuts nout r2
      if r3.isEmpty then pure ⟨id, ins, outs⟩ else none
    | _ => none
  | _ => none

def parseBlock (line : String) : Option (Nat × Block) :=
  match line.splitOn ";" with
  | hd :: txs => do
    match words hd with
    | ["BLK", i, hash, prev, header, size] =>
      let txs ← (txs.filter (fun t => (words t) ≠ [])).mapM (fun t => parseTx (words t))
      pure (← i.toNat?, ⟨← hash.toNat?, ← prev.toNat?, ← header.toNat?, ← size.toNat?, txs⟩)
    | _ => none
  | _ => none

def showErr : Err → String
  | .chainError => "ChainError"
  | .assertion => "AssertionError"
  | .reorg => "reorg"

def showCState (c : CState) : String :=
  s!"{c.height},{c.txCount},{c.chainSize},{c.tip},{c.flushCount},{c.utxoCount},{if c.firstSync then 1 else 0}"

def showCV (c : CacheVal) : String := s!"{c.hx},{c.txnum},{c.value}"

def showList (f : α → String) (l : List α) : String := "[" ++ joinWith ";" (l.map f) ++ "]"

def showStore (p : Store) (nHdr nTx : Nat) : String :=
  let h := sortRows (fun (e : HKey × HashX) => [e.1.1, e.1.2.1, e.1.2.2]) p.h
  let u := sortRows (fun (e : UKey × Nat) => [e.1.1, e.1.2.1, e.1.2.2]) p.u
  let un := sortRows (fun (e : Nat × List CacheVal) => [e.1]) p.undo
  let hi := sortRows (fun (e : (HashX × Nat) × List Nat) => [e.1.1, e.1.2]) p.hist
  "h " ++ joinWith " " (h.map fun e => s!"{e.1.1},{e.1.2.1},{e.1.2.2}={e.2}") ++
  " | u " ++ joinWith " " (u.map fun e => s!"{e.1.1},{e.1.2.1},{e.1.2.2}={e.2}") ++
  " | U " ++ joinWith " " (un.map fun e => s!"{e.1}={showList showCV e.2}") ++
  " | us " ++ (match p.ustate with | none => "none" | some c => showCState c) ++
  " | hist " ++ joinWith " " (hi.map fun e => s!"{e.1.1},{e.1.2}=[{showNats e.2}]") ++
  " | hs " ++ (match p.hstate with
    | none => "none"
    | some c => s!"{c.flushCount},{c.compFlushCount},{c.compCursor}") ++
  " | F " ++ s!"[{showNats (p.headers.take nHdr)}] [{showNats (p.txcounts.take nHdr)}] [{showNats (p.hashes.take nTx)}]"

def showMem (m : Mem) : String :=
  let cache := sortRows (fun (e : (Hash × Nat) × CacheVal) => [e.1.1, e.1.2]) m.cache
  let dels := sortRows (fun (d : DelKey) => match d with
    | .h k => [0, k.1, k.2.1, k.2.2]
    | .u k => [1, k.1, k.2.1, k.2.2]) m.deletes
  let unf := sortRows (fun (e : HashX × List Nat) => [e.1]) m.unflushed
  s!"bp {showCState m.st} | db {showCState m.dbst} | fs {m.fsHeight},{m.fsTxCount} | txc [{showNats m.txCounts}]" ++
  " | cache " ++ joinWith " " (cache.map fun e => s!"{e.1.1},{e.1.2}={showCV e.2}") ++
  " | del " ++ joinWith " " (dels.map fun d => match d with
    | .h k => s!"h{k.1},{k.2.1},{k.2.2}"
    | .u k => s!"u{k.1},{k.2.1},{k.2.2}") ++
  " | unf " ++ joinWith " " (unf.map fun e => s!"{e.1}=[{showNats e.2}]") ++
  " | undoU " ++ joinWith " " (m.undoU.map fun e => s!"{e.2}={showList showCV e.1}") ++
  s!" | hdrU [{showNats m.headersU}] | txhU {showList (fun l => showNats l) m.txHashesU}" ++
  s!" | hist {m.histFlush},{m.compFlush},{m.compCursor} | touched [{showNats (canonSet m.touched)}]"

def showEffect : Effect → String
  | .writeHeaders off d => s!"WH {off} [{showNats d}]"
  | .writeTxCounts off d => s!"WC {off} [{showNats d}]"
  | .writeHashes off d => s!"WX {off} [{showNats d}]"
  | .histBatch dels puts st =>
    let dels := sortRows (fun (k : HashX × Nat) => [k.1, k.2]) dels
    let puts := sortRows (fun (e : (HashX × Nat) × List Nat) => [e.1.1, e.1.2]) puts
    "HB del " ++ joinWith " " (dels.map fun k => s!"{k.1},{k.2}") ++
    " put " ++ joinWith " " (puts.map fun e => s!"{e.1.1},{e.1.2}=[{showNats e.2}]") ++
    s!" st {st.flushCount},{st.compFlushCount},{st.compCursor}"
  | .utxoBatch dels hputs uputs undoDels undoPuts st =>
    let dels := sortRows (fun (d : DelKey) => match d with
      | .h k => [0, k.1, k.2.1, k.2.2]
      | .u k => [1, k.1, k.2.1, k.2.2]) dels
    let hputs := sortRows (fun (e : HKey × HashX) => [e.1.1, e.1.2.1, e.1.2.2]) hputs
    let uputs := sortRows (fun (e : UKey × Nat) => [e.1.1, e.1.2.1, e.1.2.2]) uputs
    "UB del " ++ joinWith " " (dels.map fun d => match d with
      | .h k => s!"h{k.1},{k.2.1},{k.2.2}"
      | .u k => s!"u{k.1},{k.2.1},{k.2.2}") ++
    " hput " ++ joinWith " " (hputs.map fun e => s!"{e.1.1},{e.1.2.1},{e.1.2.2}={e.2}") ++
    " uput " ++ joinWith " " (uputs.map fun e => s!"{e.1.1},{e.1.2.1},{e.1.2.2}={e.2}") ++
    s!" Udel [{showNats undoDels}]" ++
    " Uput " ++ joinWith " " (undoPuts.map fun e => s!"{e.1}={showList showCV e.2}") ++
    " st " ++ (match st with | none => "none" | some c => showCState c)
  | .putUState st => s!"PS {showCState st}"

def optNat (w : String) : Option (Option Nat) :=
  if w = "-" then some none else (w.toNat?).map some

def stepLine (d : DSt) (line : String) : DSt × String :=
  match words line with
  | ["CFG", act, lim] =>
    match act.toNat?, lim.toNat? with
    | some a, some l => ({ cfg := { act := a, reorgLimit := l } }, "ok")
    | _, _ => (d, "bad-op")
  | "BLK" :: _ =>
    match parseBlock line with
    | some (i, b) => ({ d with blocks := (i, b) :: d.blocks.filter (·.1 ≠ i) }, "ok")
    | none => (d, "bad-op")
  | ["OPEN", keep] =>
    let keepTx := if keep = "1" then some d.s.m.txCounts else none
    match openDbs d.cfg d.s.p false keepTx with
    | none => (d, "AssertionError")
    | some (es, s') =>
      -- re-open in the same process: the BlockProcessor object (its state copy, touched set) lives on
      let s'' : Sys := if keep = "1" then { s' with m := { s'.m with touched := d.s.m.touched, st := d.s.m.st } } else s'
      ({ d with s := s'', lastEffects := es, before := d.s.p }, "ok")
  | ["ADV", i, dh] =>
    match i.toNat?, dh.toInt? with
    | some i, some dh =>
      match alookup i d.blocks with
      | none => (d, "bad-op")
      | some b =>
        match advance d.cfg dh d.s b with
        | .ok s' => ({ d with s := s' }, "ok")
        | .error e => (d, showErr e)
    | _, _ => (d, "bad-op")
  | ["FLUSH", fu] =>
    match flushDbs d.s (fu = "1") with
    | none => (d, "AssertionError")
    | some (es, m) =>
      ({ d with s := { m := m, p := applyEffects d.s.p es }, lastEffects := es, before := d.s.p }, "ok")
  | ["BACKUP", i] =>
    match i.toNat? with
    | some i =>
      match alookup i d.blocks with
      | none => (d, "bad-op")
      | some b =>
        match backupFull d.cfg d.s b with
        | .ok (es, s') => ({ d with s := s', lastEffects := es, before := d.s.p }, "ok")
        | .error e => (d, showErr e)
    | none => (d, "bad-op")
  | ["EFFECTS"] => (d, joinWith " || " (d.lastEffects.map showEffect))
  | ["Q_UTXOS", hx] =>
    match hx.toNat? with
    | some hx =>
      match allUtxos d.s hx with
      | none => (d, "retry")
      | some rows =>
        let rows := sortRows (fun (r : UtxoRow) => [r.txnum, r.pos]) rows
        (d, "utxos " ++ joinWith " " (rows.map fun r => s!"{r.txnum}:{r.pos}:{r.txid}:{r.height}:{r.value}"))
    | none => (d, "bad-op")
  | ["Q_HIST", hx, lim] =>
    match hx.toNat?, optNat lim with
    | some hx, some lim =>
      match limitedHistory d.s hx lim with
      | none => (d, "retry")
      | some l => (d, "hist " ++ joinWith " " (l.map fun e => s!"{e.1}:{e.2}"))
    | _, _ => (d, "bad-op")
  | ["Q_LOOKUP", txid, idx] =>
    match txid.toNat?, idx.toNat? with
    | some t, some i =>
      match lookupUtxo d.s t i with
      | none => (d, "none")
      | some (hx, v) => (d, s!"{hx}:{v}")
    | _, _ => (d, "bad-op")
  | ["Q_LOOKUP2A", txid, idx] =>
    -- job 1 of `lookup_utxos` (`lookup_hashXs`) in the current state; the call stays suspended
    match txid.toNat?, idx.toNat? with
    | some t, some i =>
      ({ d with pend := some (t, i, lookupHashX d.s t i) },
        match lookupHashX d.s t i with
        | none => "none"
        | some (hx, n) => s!"{hx}:{n}")
    | _, _ => (d, "bad-op")
  | ["Q_LOOKUP2B"] =>
    -- job 2 (`lookup_utxos`, with the re-check of F22) in the current state
    match d.pend with
    | none => (d, "bad-op")
    | some (t, i, ph) =>
      ({ d with pend := none },
        match lookupValue true d.s t i ph with
        | none => "none"
        | some (hx, v) => s!"{hx}:{v}")
  | ["Q_TXHASHES", h] =>
    match h.toNat? with
    | some h =>
      match txHashesAt d.s h with
      | none => (d, "DBError")
      | some l => (d, s!"[{showNats l}]")
    | none => (d, "bad-op")
  | ["Q_HEADERS", a, c] =>
    match a.toNat?, c.toNat? with
    | some a, some c => (d, s!"[{showNats (readHeaders d.s a c)}]")
    | _, _ => (d, "bad-op")
  | "S_CHAIN" :: ids =>
    match (natList ids).bind (fun ids => ids.mapM (fun i => alookup i d.blocks)) with
    | none => (d, "bad-op")
    | some chain => ({ d with spec := EV.Spec.specChain d.cfg.act chain, specChain := chain }, "ok")
  | ["S_UTXOS", hx] =>
    match hx.toNat? with
    | some hx =>
      let rows := sortRows (fun (r : EV.Spec.Utxo) => [r.txnum, r.idx]) (EV.Spec.utxosOf d.spec hx)
      (d, "utxos " ++ joinWith " " (rows.map fun r => s!"{r.txnum}:{r.idx}:{r.txid}:{r.height}:{r.value}"))
    | none => (d, "bad-op")
  | ["S_HIST", hx, lim] =>
    match hx.toNat?, optNat lim with
    | some hx, some lim =>
      (d, "hist " ++ joinWith " " ((EV.Spec.historyPairs d.spec hx lim).map fun e => s!"{e.1}:{e.2}"))
    | _, _ => (d, "bad-op")
  | ["S_LOOKUP", txid, idx] =>
    match txid.toNat?, idx.toNat? with
    | some t, some i =>
      match EV.Spec.lookup d.spec t i with
      | none => (d, "none")
      | some (hx, v) => (d, s!"{hx}:{v}")
    | _, _ => (d, "bad-op")
  | ["S_TXHASHES", h] =>
    match h.toNat? with
    | some h =>
      if h < d.specChain.length then (d, s!"[{showNats (EV.Spec.txHashesAt d.spec h)}]") else (d, "DBError")
    | none => (d, "bad-op")
  | ["S_STATE"] =>
    let c := d.specChain
    let tip := match c.getLast? with | some b => b.hash | none => 0
    (d, s!"{(c.length : Int) - 1},{d.spec.txs.length},{(c.map (·.size)).foldl (· + ·) 0},{tip},{d.spec.utxos.length}")
  | ["S_HEADERS", a, c] =>
    match a.toNat?, c.toNat? with
    | some a, some c => (d, s!"[{showNats (((d.specChain.map (·.header)).drop a).take c)}]")
    | _, _ => (d, "bad-op")
  | ["DUMP"] => (d, showStore d.s.p (d.s.m.fsHeight + 1).toNat d.s.m.fsTxCount)
  | ["DUMPMEM"] => (d, showMem d.s.m)
  | _ => (d, "bad-op")

end Drv.IndexD

import EV.Model.Wire
import EV.Model.System

/-! Driver for suite `notifcache` (model `EV.System`):
  NEW <sessions> <hashXs> [copy] [raise] (pinned variants: stale-copy comparison / raising refresh) | CH x | MP x m | FL x m | ADV d | BK | RS | NT h a,b | SUB s x |
  UNS s x | CLOSE s | HS s | GH s x | EVICT x | RD i | RF i | HD i | HF i
The reply is the observable state, then ` # ` and the ghost fields. -/
open EV EV.Wire EV.System

namespace Drv.SystemD

structure DSt where
  f : Flags := {}
  st : St := {}

def showStatus (v : Status) : String := s!"{v.1}.{v.2}"

def showPairs (l : List (Nat × Status)) : String :=
  joinWith "," (l.map fun (k, v) => s!"{k}:{showStatus v}")

def sortPairs (l : List (Nat × Status)) : List (Nat × Status) :=
  l.mergeSort (fun a b => decide (a.1 ≤ b.1))

def showSt (st : St) : String :=
  let cache := joinWith " " ((st.cache.mergeSort (fun a b => decide (a.1 ≤ b.1))).map fun (k, v) => s!"{k}:{v}")
  let sess := (List.range st.subs.length).map fun s =>
    "s" ++ showNats (subsOf st s) ++ " m" ++ showPairs (msOf st s) ++ " h" ++ showPairs (sortPairs (st.held.getD s []))
      ++ " H" ++ (if hdrSubOf st s then "1" else "0") ++ ":"
      ++ (match heldHdrOf st s with | none => "-" | some (h, d) => s!"{h}.{d}")
      ++ " A" ++ (if aliveOf st s then "1" else "0")
  let reads := joinWith " " (st.tasks.map fun t =>
    s!"{t.hx}:" ++ (match t.value with | none => "?" | some v => toString v))
  let hreads := joinWith " " (st.hreads.map fun r =>
    s!"{r.h}:" ++ (match r.value with | none => "?" | some none => "E" | some (some d) => toString d))
  s!"conf {showNats st.conf} | mem {showNats st.mem} | chain {showNats st.chain} | cache {cache} | " ++
    joinWith " ; " sess ++ s!" | reads {reads} | hreads {hreads} | hsub {st.hsub.1}.{st.hsub.2} nh {st.notifiedHeight}" ++
    s!" # carrier {showNats (st.carrier.mergeSort (fun a b => decide (a ≤ b)))} flipped {showNats (st.flipped.mergeSort (fun a b => decide (a ≤ b)))}" ++
    s!" lost {showNats st.lost} suppressed {showNats st.suppressed} tipDone {if st.tipDone then 1 else 0}"

def stepLine (ds : DSt) (line : String) : DSt × String :=
  let go (e : Ev) : DSt × String := let st' := step ds.f ds.st e; ({ ds with st := st' }, showSt st')
  let bad : DSt × String := (ds, "bad-op")
  let n1 (x : String) (k : Nat → Ev) : DSt × String :=
    match x.toNat? with | some x => go (k x) | none => bad
  let n2 (x y : String) (k : Nat → Nat → Ev) : DSt × String :=
    match x.toNat?, y.toNat? with | some x, some y => go (k x y) | _, _ => bad
  match words line with
  | "NEW" :: ns :: nhx :: opts =>
    match ns.toNat?, nhx.toNat? with
    | some a, some b =>
      if opts.all (fun o => o == "copy" || o == "raise") then
        ({ f := { cmpLive := !opts.contains "copy", raiseOnRace := opts.contains "raise" }, st := init a b },
          showSt (init a b))
      else bad
    | _, _ => bad
  | ["CH", x] => n1 x .change
  | ["MP", x, m] => n2 x m .mpChange
  | ["FL", x, m] => n2 x m .flip
  | ["ADV", d] => n1 d .advance
  | ["BK"] => go .backup
  | ["RS"] => go .reorgSignal
  | ["NT", h] => n1 h (fun h => .notify h [])
  | ["NT", h, xs] =>
    match h.toNat?, natList ((xs.splitOn ",").filter (· ≠ "")) with
    | some h, some xs => go (.notify h xs)
    | _, _ => bad
  | ["SUB", s, x] => n2 s x .subscribe
  | ["UNS", s, x] => n2 s x .unsubscribe
  | ["CLOSE", s] => n1 s .closeSession
  | ["HS", s] => n1 s .subscribeHeaders
  | ["GH", s, x] => n2 s x .getHistory
  | ["EVICT", x] => n1 x .evict
  | ["RD", i] => n1 i .readDo
  | ["RF", i] => n1 i .readFinish
  | ["HD", i] => n1 i .hdrDo
  | ["HF", i] => n1 i .hdrFinish
  | _ => bad

end Drv.SystemD

import EV.Model.Wire
import EV.Model.System

/-! Driver for suite `notifcache` (model `EV.System`):
  NEW <sessions> <hashXs> | CH x | NT a,b | SUB s x | GH s x | RD i | RF i -/
open EV EV.Wire EV.System

namespace Drv.SystemD

def showPairs (l : List (Nat × Nat)) : String :=
  joinWith "," ((l.mergeSort (fun a b => decide (a.1 ≤ b.1))).map fun (k, v) => s!"{k}:{v}")

def showSt (st : St) : String :=
  let cache := joinWith " " ((st.cache.mergeSort (fun a b => decide (a.1 ≤ b.1))).map fun (k, v) => s!"{k}:{v}")
  let sess := (List.range st.subs.length).map fun s =>
    "s" ++ showNats (subsOf st s) ++ " h" ++ showPairs (st.held.getD s [])
  let reads := joinWith " " (st.tasks.map fun t =>
    s!"{t.hx}:" ++ (match t.value with | none => "?" | some v => toString v))
  s!"cur {showNats st.cur} | carrier {showNats (st.carrier.mergeSort (fun a b => decide (a ≤ b)))} | cache {cache} | " ++
    joinWith " ; " sess ++ s!" | reads {reads}"

def stepLine (st : St) (line : String) : St × String :=
  let go (e : Ev) : St × String := let st' := step {} st e; (st', showSt st')
  match words line with
  | ["NEW", ns, nhx] =>
    match ns.toNat?, nhx.toNat? with
    | some a, some b => (init a b, showSt (init a b))
    | _, _ => (st, "bad-op")
  | ["CH", x] => match x.toNat? with | some x => go (.change x) | none => (st, "bad-op")
  | ["NT"] => go (.notify [])
  | ["NT", xs] =>
    match natList ((xs.splitOn ",").filter (· ≠ "")) with
    | some xs => go (.notify xs)
    | none => (st, "bad-op")
  | ["SUB", s, x] => match s.toNat?, x.toNat? with | some s, some x => go (.subscribe s x) | _, _ => (st, "bad-op")
  | ["GH", s, x] => match s.toNat?, x.toNat? with | some s, some x => go (.getHistory s x) | _, _ => (st, "bad-op")
  | ["RD", i] => match i.toNat? with | some i => go (.readDo i) | none => (st, "bad-op")
  | ["RF", i] => match i.toNat? with | some i => go (.readFinish i) | none => (st, "bad-op")
  | _ => (st, "bad-op")

end Drv.SystemD

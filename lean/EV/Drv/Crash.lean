import EV.Drv.Index
import EV.Model.Crash

/-!
Line-protocol driver for suite `crash` (C04, C05): every command of suite `index`, plus

* `SAVE n` / `LOAD n` — keep / restore the whole driver state in slot `n` (one process per run:
  the state before a flush is saved once and every cut of that flush starts from it);
* `CUT k j` — the process dies during the last flush / back-out / open: the persistent store
  becomes `applyEffects before (cutAt lastEffects k j)`; the volatile part is dropped
  (the next command is `OPEN 0` = `recover`);
* `NCUTS` — `(cuts lastEffects).length`, the number of cuts the model quantifies over.
-/
open EV EV.Wire EV.Index

namespace Drv.CrashD

structure CSt where
  d : Drv.IndexD.DSt := {}
  slots : List (Nat × Drv.IndexD.DSt) := []
deriving Inhabited

def stepLine (c : CSt) (line : String) : CSt × String :=
  match words line with
  | ["SAVE", n] =>
    match n.toNat? with
    | some n => ({ c with slots := (n, c.d) :: c.slots.filter (·.1 ≠ n) }, "ok")
    | none => (c, "bad-op")
  | ["LOAD", n] =>
    match n.toNat?.bind (fun n => alookup n c.slots) with
    | some d => ({ c with d := d }, "ok")
    | none => (c, "bad-op")
  | ["CUT", k, j] =>
    match k.toNat?, j.toNat? with
    | some k, some j =>
      let cut := cutAt c.d.lastEffects k j
      ({ c with d := { c.d with s := { m := {}, p := applyEffects c.d.before cut } } },
        "ok")
    | _, _ => (c, "bad-op")
  | ["NCUTS"] => (c, toString (cuts c.d.lastEffects).length)
  | _ =>
    let (d', out) := Drv.IndexD.stepLine c.d line
    ({ c with d := d' }, out)

end Drv.CrashD

import EV.Model.Wire
import EV.Model.TxCodec

/-! Line-protocol driver for suite `txcodec` (no imports outside the model: linked into `evdrv`).

State: the current byte string (`D <hex>` sets it) and the previous `F` / `R` answers, so that a
sweep over hundreds of chunk sizes of one block prints `=` instead of repeating the same long
answer (the Python side applies the same rule to the real code's answers).

  D <hex>            set the current bytes                          -> ok <len>
  V <n>              pack_varint(n)                                 -> hex | !Exc
  RV <c>             read_varint(data, c)                           -> ok <n> <c'> | !Exc
  RB <c>             read_varbytes(data, c)                         -> ok <hex> <c'> | !Exc
  RT <c>             read_tx_and_hash(data, c) + canonTx            -> ok <tx> #<hashed> <e> canon=<b> | !Exc
  T <n> <c>          read_tx_and_hash(data[:n], c)                  -> same format
  ST <v> <lt> (I <ph> <idx> <script> <seq>)* (O <value> <script>)*  Tx.serialize() -> hex | !Exc
  F <chunk>          list(iter_txs()) on file = data                -> items / error  (or "=")
  R <chunk>          list(iter_txs_reversed())                      -> items / error  (or "=")
  O <chunk>          _chunk_offsets()                               -> offsets | !Exc
-/
open EV EV.Wire

namespace Drv
namespace TxCodecD
open EV.TxCodec

structure St where
  data : Bytes := []
  lastF : String := ""
  lastR : String := ""

def init : St := {}

def showExc (e : PyExc) : String := "!" ++ e.name

def showIn (i : TxIn) : String :=
  s!"{showHex i.prevHash}:{i.prevIdx}:{showHex i.script}:{i.sequence}"

def showOut (o : TxOut) : String := s!"{o.value}:{showHex o.pkScript}"

def showTx (t : Tx) : String :=
  s!"T({t.version},{t.locktime})[{joinWith "," (t.inputs.map showIn)}][{joinWith "," (t.outputs.map showOut)}]"

def showItem (it : Item) : String := s!"{showTx it.1}#{showHex it.2}"

def showGen (r : GenRes Item) : String :=
  let e := match r.err with | none => "-" | some e => showExc e
  s!"n={r.items.length} err={e} {joinWith " " (r.items.map showItem)}"

def showB (b : Bool) : String := if b then "1" else "0"

def showRT (buf : Bytes) (c : Nat) : String :=
  match readTxAndHash buf c with
  | .error e => showExc e
  | .ok (it, e) => s!"ok {showItem it} {e} canon={showB (canonTx buf c)}"

def parseIO (ws : List String) (ins : List TxIn) (outs : List TxOut) :
    Option (List TxIn × List TxOut) :=
  match ws with
  | [] => some (ins.reverse, outs.reverse)
  | "I" :: ph :: idx :: sc :: sq :: rest => do
    let i : TxIn := ⟨← ofHex ph, ← idx.toNat?, ← ofHex sc, ← sq.toNat?⟩
    parseIO rest (i :: ins) outs
  | "O" :: v :: sc :: rest => do
    let o : TxOut := ⟨← v.toInt?, ← ofHex sc⟩
    parseIO rest ins (o :: outs)
  | _ => none

def parseTx (ws : List String) : Option Tx :=
  match ws with
  | v :: lt :: rest => do
    let (ins, outs) ← parseIO rest [] []
    pure ⟨← v.toInt?, ins, outs, ← lt.toNat?⟩
  | _ => none

/-- variant 0 = current code, 1 = pinned-commit `_chunk_offsets` -/
def stepLine (variant : Nat) (s : St) (line : String) : St × String :=
  match words line with
  | ["D", h] =>
    match ofHex h with
    | some b => ({ data := b }, s!"ok {b.length}")
    | none => (s, "bad-op")
  | ["V", n] =>
    match n.toNat? with
    | some n => (s, match packVarintE n with | .ok b => showHex b | .error e => showExc e)
    | none => (s, "bad-op")
  | ["RV", c] =>
    match c.toNat? with
    | some c => (s, match readVarint s.data c with
                    | .ok (n, c1) => s!"ok {n} {c1}" | .error e => showExc e)
    | none => (s, "bad-op")
  | ["RB", c] =>
    match c.toNat? with
    | some c => (s, match readVarbytes s.data c with
                    | .ok (b, c1) => s!"ok {showHex b} {c1}" | .error e => showExc e)
    | none => (s, "bad-op")
  | ["RT", c] =>
    match c.toNat? with
    | some c => (s, showRT s.data c)
    | none => (s, "bad-op")
  | ["T", n, c] =>
    match n.toNat?, c.toNat? with
    | some n, some c => (s, showRT (s.data.take n) c)
    | _, _ => (s, "bad-op")
  | "ST" :: ws =>
    match parseTx ws with
    | some t => (s, match serialize t with | .ok b => showHex b | .error e => showExc e)
    | none => (s, "bad-op")
  | ["F", k] =>
    match k.toNat? with
    | some k =>
      let o := showGen (iterTxs k s.data)
      if o = s.lastF then (s, "=") else ({ s with lastF := o }, o)
    | none => (s, "bad-op")
  | ["R", k] =>
    match k.toNat? with
    | some k =>
      let o := showGen (if variant = 0 then iterTxsReversed k s.data else Orig.iterTxsReversed k s.data)
      if o = s.lastR then (s, "=") else ({ s with lastR := o }, o)
    | none => (s, "bad-op")
  | ["O", k] =>
    match k.toNat? with
    | some k =>
      (s, match (if variant = 0 then chunkOffsets k s.data else Orig.chunkOffsets k s.data) with
          | .ok offs => "ok " ++ showNats offs | .error e => showExc e)
    | none => (s, "bad-op")
  | _ => (s, "bad-op")

end TxCodecD
end Drv

import EV.Proofs.AList

/-!
Undo-information bookkeeping (C15): which blocks keep undo information, what start-up prunes,
when a back-out is refused.
-/
namespace EV.Index

/-- `block.height >= self.db.min_undo_height(self.daemon.cached_height())` -/
def undoKept (cfg : Cfg) (daemonH : Int) (height : Nat) : Bool :=
  decide ((height : Int) ≥ daemonH - cfg.reorgLimit + 1)

/-- window arithmetic: a block inside the last `reorgLimit` heights below the caught-up height `H`
    kept its undo information if the daemon height seen when it was indexed did not exceed `H` -/
theorem undoKept_of_window (cfg : Cfg) (H D : Int) (b : Nat)
    (hD : D ≤ H) (hb : H - cfg.reorgLimit < b) : undoKept cfg D b = true := by
  simp only [undoKept, decide_eq_true_eq]; omega

/-- …and a block indexed while the daemon was further ahead than the window did not -/
theorem undoKept_false (cfg : Cfg) (D : Int) (b : Nat)
    (h : (b : Int) < D - cfg.reorgLimit + 1) : undoKept cfg D b = false := by
  simp only [undoKept, decide_eq_false_iff_not]; omega

/-- what `advance_block` does with the block's undo list -/
theorem advance_undo {cfg : Cfg} {daemonH : Int} {s s' : Sys} {b : Block}
    (h : advance cfg daemonH s b = .ok s') :
    ∃ a : Acc Sys,
      advanceTxs sysOps cfg (s.m.st.height + 1).toNat b.txs { s := s, txNum := s.m.st.txCount } = .ok a ∧
      s'.m.undoU = (if undoKept cfg daemonH (s.m.st.height + 1).toNat
                    then a.s.m.undoU ++ [(a.undo, (s.m.st.height + 1).toNat)] else a.s.m.undoU) ∧
      s'.m.st.height = ((s.m.st.height + 1).toNat : Int) ∧ s'.p = a.s.p := by
  unfold advance at h
  split at h
  · simp at h
  · dsimp only at h
    split at h
    · simp at h
    · next a ha =>
      simp only [Except.ok.injEq] at h
      subst h
      exact ⟨a, ha, by simp [undoKept], rfl, rfl⟩

/-! ### pruning on start-up -/

theorem takeWhile_lt_of_sorted (l : List Nat) (hs : l.Pairwise (· ≤ ·)) (m : Int) :
    ∀ k : Nat, k ∈ l.takeWhile (fun (h : Nat) => decide ((h : Int) < m)) ↔ k ∈ l ∧ (k : Int) < m := by
  induction l with
  | nil => simp
  | cons a l ih =>
    intro k
    rw [List.pairwise_cons] at hs
    simp only [List.takeWhile_cons]
    by_cases ha : (a : Int) < m
    · simp only [ha, decide_true, if_true, List.mem_cons, ih hs.2]
      constructor
      · rintro (rfl | ⟨h1, h2⟩)
        · exact ⟨Or.inl rfl, ha⟩
        · exact ⟨Or.inr h1, h2⟩
      · rintro ⟨rfl | h1, h2⟩
        · exact Or.inl rfl
        · exact Or.inr ⟨h1, h2⟩
    · simp only [ha, decide_false, Bool.false_eq_true, if_false, List.not_mem_nil, false_iff, List.mem_cons]
      rintro ⟨rfl | h1, h2⟩
      · exact ha h2
      · have := hs.1 k h1
        omega

/-- `clear_excess_undo_info` collects exactly the undo keys below the window -/
theorem mem_clearUndoKeys (undo : List (Nat × List CacheVal)) (minH : Int) (k : Nat) :
    k ∈ clearUndoKeys undo minH ↔ k ∈ undo.map (·.1) ∧ (k : Int) < minH := by
  unfold clearUndoKeys
  have hsorted : ((undo.map (·.1)).mergeSort (fun a b => decide (a ≤ b))).Pairwise (· ≤ ·) := by
    have := List.pairwise_mergeSort (le := fun (a b : Nat) => decide (a ≤ b))
      (by intro a b c; simp only [decide_eq_true_eq]; omega)
      (by intro a b; simp only [Bool.or_eq_true, decide_eq_true_eq]; omega) (undo.map (·.1))
    exact this.imp (by intro a b h; simpa using h)
  rw [takeWhile_lt_of_sorted _ hsorted]
  constructor
  · rintro ⟨h1, h2⟩; exact ⟨(List.mergeSort_perm _ _).mem_iff.mp h1, h2⟩
  · rintro ⟨h1, h2⟩; exact ⟨(List.mergeSort_perm _ _).mem_iff.mpr h1, h2⟩

theorem keys_foldl_aerase (ks : List Nat) (t : List (Nat × List CacheVal)) (k : Nat) :
    k ∈ (ks.foldl (fun t k => aerase k t) t).map (·.1) ↔ k ∈ t.map (·.1) ∧ k ∉ ks := by
  induction ks generalizing t with
  | nil => simp
  | cons a ks ih =>
    simp only [List.foldl_cons, ih, List.mem_cons, not_or]
    constructor
    · rintro ⟨h1, h2⟩
      have := keys_aerase_sub a t k h1
      exact ⟨this.1, this.2, h2⟩
    · rintro ⟨h1, h2, h3⟩
      refine ⟨?_, h3⟩
      simp only [aerase, List.mem_map, List.mem_filter] at h1 ⊢
      obtain ⟨e, he, rfl⟩ := h1
      exact ⟨e, ⟨he, by simpa using h2⟩, rfl⟩

/-- the undo table `_open_dbs` leaves behind -/
def undoAfterOpen (undo : List (Nat × List CacheVal)) (minH : Int) : List (Nat × List CacheVal) :=
  (clearUndoKeys undo minH).foldl (fun t k => aerase k t) undo

theorem openStore1_undo (p : Store) : (openStore1 p).undo = p.undo := by
  unfold openStore1 clearExcessEffect
  split <;> rfl

theorem openDbs_undo {cfg : Cfg} {p : Store} {compacting : Bool} {keep : Option (List Nat)}
    {es : List Effect} {s : Sys} (h : openDbs cfg p compacting keep = some (es, s)) :
    s.p.undo = undoAfterOpen p.undo ((p.ustate.getD {}).height - cfg.reorgLimit + 1) ∧
    s.m.st.height = (p.ustate.getD {}).height := by
  unfold openDbs at h
  split at h
  · simp at h
  · simp only [Option.some.injEq, Prod.mk.injEq] at h
    obtain ⟨_, rfl⟩ := h
    refine ⟨?_, by simp [openState]⟩
    simp only [openStore, openUndoEffects, openStore1_undo, undoAfterOpen]
    split
    · next hempty =>
      simp only [List.isEmpty_iff] at hempty
      simp [applyEffects, hempty, openStore1_undo]
    · simp [applyEffects, applyEffect, openStore1_undo]

/-- **Start-up pruning.**  After `_open_dbs` no undo row below
`height − reorg_limit + 1` remains, and every row inside the window is still there. -/
theorem openDbs_undo_keys {cfg : Cfg} {p : Store} {compacting : Bool} {keep : Option (List Nat)}
    {es : List Effect} {s : Sys} (h : openDbs cfg p compacting keep = some (es, s)) (k : Nat) :
    k ∈ s.p.undo.map (·.1) ↔
      k ∈ p.undo.map (·.1) ∧ ¬ ((k : Int) < s.m.st.height - cfg.reorgLimit + 1) := by
  obtain ⟨h1, h2⟩ := openDbs_undo h
  rw [h1, h2, undoAfterOpen, keys_foldl_aerase, mem_clearUndoKeys]
  constructor
  · rintro ⟨h1, h2⟩; exact ⟨h1, fun h3 => h2 ⟨h1, h3⟩⟩
  · rintro ⟨h1, h2⟩; exact ⟨h1, fun h3 => h2 h3.2⟩

/-! ### refusal -/

/-- **Refusal.**  Backing out a block for whose height no undo row exists fails with `ChainError`
before anything is touched. -/
theorem backup_refused_without_undo (cfg : Cfg) (s : Sys) (b : Block)
    (hflushed : assertFlushed s = true) (hpos : 0 < s.m.st.height)
    (hnone : alookup s.m.st.height.toNat s.p.undo = none) :
    backupFull cfg s b = .error .chainError := by
  unfold backupFull
  simp only [hflushed, Bool.not_true, Bool.false_eq_true, if_false]
  have : ¬ s.m.st.height ≤ 0 := by omega
  simp only [this, if_false, hnone]

end EV.Index

import EV.Proofs.IndexLogic

/-!
History side of the index (`History.add_unflushed / flush / backup / get_txnums`) and the spec's
`historyOf`.  Core only.

  (h1) `unfOf_addUnflushed`, `nodup_keys_addUnflushed`
  (h2) `getTxnums_histFlush`, `histWF_histFlush`, `hstate_histFlush`, `others_histFlush`
  (h3) `getTxnums_histBackup` (sharpest form `getTxnums_histBackup'`), `histWF_histBackup`,
       `asc_histBackup`, `hstate_histBackup`, `others_histBackup`
  (h4) `historyOf_foldl`, `historyOf_lt`, `historyOf_pairwise`
  limit form: `getTxnums_some`

Both (h1) and (h4) are also given in terms of one function `touchNums` (`unfOf_addUnflushed'`,
`historyOf_eq_touchNums`) so that the two sides meet without `List.range` arithmetic.
Auxiliary lemmas live in `EV.Index.HistAux` (generic names; other proof files of this namespace
have their own copies of some of them).
-/
namespace EV.Index
open EV.Spec

/-! ### generic list facts -/

namespace HistAux

theorem nodup_eraseDups_aux (n : Nat) : ∀ (l : List Nat), l.length ≤ n → l.eraseDups.Nodup := by
  induction n with
  | zero =>
    intro l h
    cases l with
    | nil => simp
    | cons a as => simp at h
  | succ n ih =>
    intro l h
    cases l with
    | nil => simp
    | cons a as =>
      rw [List.eraseDups_cons, List.nodup_cons]
      refine ⟨?_, ih _ ?_⟩
      · simp [List.mem_eraseDups]
      · have := List.length_filter_le (fun b => !b == a) as
        simp only [List.length_cons] at h
        omega

theorem nodup_eraseDups (l : List Nat) : l.eraseDups.Nodup := nodup_eraseDups_aux l.length l (Nat.le_refl _)

end HistAux
open HistAux

/-- tx numbers (from `first`) of the entries of `l` that contain `hx` -/
def touchNums : List (List HashX) → Nat → HashX → List Nat
  | [], _, _ => []
  | hxs :: r, first, hx => (if hxs.contains hx then [first] else []) ++ touchNums r (first + 1) hx

theorem touchNums_eq (l : List (List HashX)) (first : Nat) (hx : HashX) :
    touchNums l first hx =
      ((List.range l.length).filter (fun k => (l.getD k []).contains hx)).map (first + ·) := by
  induction l generalizing first with
  | nil => simp [touchNums]
  | cons hxs r ih =>
    rw [touchNums, ih, List.length_cons, List.range_succ_eq_map, List.filter_cons]
    simp only [List.getD_cons_zero, List.filter_map]
    have hf : ((fun k => ((hxs :: r).getD k []).contains hx) ∘ Nat.succ) =
        (fun k => (r.getD k []).contains hx) := by
      funext k; simp
    have hg : ((fun x => first + x) ∘ Nat.succ) = (fun x => first + 1 + x) := by
      funext k; simp; omega
    try rw [hf]
    split
    · rw [List.map_cons, List.map_map, hg]; rfl
    · rw [List.map_map, hg]; rfl

theorem touchNums_append (a b : List (List HashX)) (first : Nat) (hx : HashX) :
    touchNums (a ++ b) first hx = touchNums a first hx ++ touchNums b (first + a.length) hx := by
  induction a generalizing first with
  | nil => simp [touchNums]
  | cons x a ih =>
    simp only [List.cons_append, touchNums, ih, List.length_cons, List.append_assoc]
    congr 3
    omega

/-! ### (h1) `History.add_unflushed` -/

/-- the unflushed tx numbers of a hashX -/
def unfOf (unf : List (HashX × List Nat)) (hx : HashX) : List Nat := (alookup hx unf).getD []

theorem unfOf_inner (n : Nat) (hxs : List HashX) (hn : hxs.Nodup) (unf : List (HashX × List Nat))
    (hx : HashX) :
    unfOf (hxs.foldl (fun unf hx => ainsert hx ((alookup hx unf).getD [] ++ [n]) unf) unf) hx =
      unfOf unf hx ++ (if hxs.contains hx then [n] else []) := by
  induction hxs generalizing unf with
  | nil => simp
  | cons a r ih =>
    rw [List.nodup_cons] at hn
    rw [List.foldl_cons, ih hn.2]
    by_cases h : a = hx
    · subst h
      simp [unfOf, alookup_ainsert, hn.1]
    · have h' : (a == hx) = false := by simpa using h
      have h'' : (hx == a) = false := by simpa using (Ne.symm h)
      simp [unfOf, alookup_ainsert, h, Ne.symm h]

theorem nodup_keys_inner (n : Nat) (hxs : List HashX) (unf : List (HashX × List Nat))
    (h : (unf.map (·.1)).Nodup) :
    ((hxs.foldl (fun unf hx => ainsert hx ((alookup hx unf).getD [] ++ [n]) unf) unf).map (·.1)).Nodup := by
  induction hxs generalizing unf with
  | nil => exact h
  | cons a r ih => exact ih _ (nodup_keys_ainsert _ _ h)

theorem unfOf_addUnflushed' (unf : List (HashX × List Nat)) (hxsByTx : List (List HashX))
    (first : Nat) (hx : HashX) :
    unfOf (addUnflushed unf hxsByTx first) hx = unfOf unf hx ++ touchNums hxsByTx first hx := by
  induction hxsByTx generalizing unf first with
  | nil => simp [addUnflushed, touchNums]
  | cons hxs r ih =>
    have := ih (hxs.eraseDups.foldl (fun unf hx => ainsert hx ((alookup hx unf).getD [] ++ [first]) unf) unf)
      (first + 1)
    simp only [addUnflushed, List.zipIdx_cons, List.foldl_cons] at this ⊢
    rw [this, unfOf_inner first _ (nodup_eraseDups hxs), touchNums, List.append_assoc]
    simp

/-- (h1) `History.add_unflushed`: each tx number is appended once to every hashX its tx touches -/
theorem unfOf_addUnflushed (unf : List (HashX × List Nat)) (hxsByTx : List (List HashX))
    (first : Nat) (hx : HashX) :
    unfOf (addUnflushed unf hxsByTx first) hx =
      unfOf unf hx ++ ((List.range hxsByTx.length).filter
        (fun k => (hxsByTx.getD k []).contains hx)).map (first + ·) := by
  rw [unfOf_addUnflushed', touchNums_eq]

theorem nodup_keys_addUnflushed (unf : List (HashX × List Nat)) (hxsByTx : List (List HashX))
    (first : Nat) (h : (unf.map (·.1)).Nodup) :
    ((addUnflushed unf hxsByTx first).map (·.1)).Nodup := by
  induction hxsByTx generalizing unf first with
  | nil => simpa [addUnflushed] using h
  | cons hxs r ih =>
    have := ih (hxs.eraseDups.foldl (fun unf hx => ainsert hx ((alookup hx unf).getD [] ++ [first]) unf) unf)
      (first + 1) (nodup_keys_inner first _ unf h)
    simpa only [addUnflushed, List.zipIdx_cons, List.foldl_cons] using this

/-! ### (h4) the spec's history -/

theorem historyOf_eq_touchNums (S : St) (hx : HashX) :
    historyOf S hx = touchNums S.touched 0 hx := by
  rw [touchNums_eq]; simp [historyOf]

theorem blockTouched_length (act height : Nat) (S : St) (txs : List Tx) :
    (blockTouched act height S txs).length = txs.length := by
  induction txs generalizing S with
  | nil => rfl
  | cons t r ih => simp [blockTouched, ih]

/-- (h4) the history of a script hash after a block = history before ++ the new tx numbers whose
    tx touches it -/
theorem historyOf_foldl (act height : Nat) (S : St) (txs : List Tx)
    (hlen : S.touched.length = S.txs.length) (hx : HashX) :
    historyOf (txs.foldl (applyTx act height) S) hx =
      historyOf S hx ++ ((List.range txs.length).filter
          (fun k => ((blockTouched act height S txs).getD k []).contains hx)).map (S.txs.length + ·) := by
  rw [historyOf_eq_touchNums, historyOf_eq_touchNums, foldl_touched, touchNums_append,
    touchNums_eq (blockTouched act height S txs), blockTouched_length, Nat.zero_add, hlen]

theorem historyOf_lt (S : St) (hx : HashX) : ∀ n ∈ historyOf S hx, n < S.touched.length := by
  intro n hn
  simp only [historyOf, List.mem_filter, List.mem_range] at hn
  exact hn.1

theorem historyOf_pairwise (S : St) (hx : HashX) : (historyOf S hx).Pairwise (· < ·) := by
  simp only [historyOf]
  exact List.Pairwise.filter _ List.pairwise_lt_range

/-! ### association-list facts for the history table -/

namespace HistAux

section AL
variable {κ ν : Type} [DecidableEq κ]

theorem aerase_of_not_mem {k : κ} {l : List (κ × ν)} (h : k ∉ l.map (·.1)) : aerase k l = l := by
  simp only [aerase]
  apply List.filter_eq_self.mpr
  intro e he
  simp only [Bool.not_eq_eq_eq_not, Bool.not_true, decide_eq_false_iff_not]
  intro heq
  exact h (List.mem_map.mpr ⟨e, he, heq⟩)

theorem aerase_cons_self (k : κ) (v : ν) {l : List (κ × ν)} (h : k ∉ l.map (·.1)) :
    aerase k ((k, v) :: l) = l := by
  have := aerase_of_not_mem h
  simp only [aerase] at this ⊢
  simp [this]

theorem eq_of_mem_nodup_keys {l : List (κ × ν)} (hn : (l.map (·.1)).Nodup) {a b : κ × ν}
    (ha : a ∈ l) (hb : b ∈ l) (h : a.1 = b.1) : a = b := by
  have h1 := alookup_of_mem_nodup hn (k := a.1) (v := a.2) ha
  have h2 := alookup_of_mem_nodup hn (k := b.1) (v := b.2) hb
  rw [h] at h1
  have h3 : a.2 = b.2 := Option.some.inj (h1.symm.trans h2)
  exact Prod.ext h h3

theorem alookup_perm {l l' : List (κ × ν)} (hp : l.Perm l') (hn : (l.map (·.1)).Nodup) (k : κ) :
    alookup k l = alookup k l' := by
  have hn' : (l'.map (·.1)).Nodup := (hp.map _).nodup_iff.mp hn
  cases h : alookup k l with
  | some v => exact (alookup_of_mem_nodup hn' (hp.subset (alookup_some_mem h))).symm
  | none =>
    have h1 : k ∉ l.map (·.1) := by
      intro hm
      have := alookup_isSome_iff_mem_keys.mpr hm
      rw [h] at this; simp at this
    have h2 : k ∉ l'.map (·.1) := fun hm => h1 ((hp.map _).symm.subset hm)
    exact (alookup_none_of_not_mem_keys h2).symm

theorem mem_keys_foldl_aerase (dels : List κ) (l : List (κ × ν)) :
    ∀ k ∈ (dels.foldl (fun hs k => aerase k hs) l).map (·.1), k ∈ l.map (·.1) := by
  induction dels generalizing l with
  | nil => intro k hk; exact hk
  | cons d r ih =>
    intro k hk
    exact (keys_aerase_sub d l k (ih _ k hk)).1

theorem nodup_keys_foldl_aerase (dels : List κ) (l : List (κ × ν)) (hn : (l.map (·.1)).Nodup) :
    ((dels.foldl (fun hs k => aerase k hs) l).map (·.1)).Nodup := by
  induction dels generalizing l with
  | nil => exact hn
  | cons d r ih => exact ih _ (nodup_keys_aerase d hn)

theorem mem_keys_foldl_ainsert (puts : List (κ × ν)) (l : List (κ × ν)) :
    ∀ k ∈ (puts.foldl (fun hs (k, v) => ainsert k v hs) l).map (·.1),
      k ∈ l.map (·.1) ∨ k ∈ puts.map (·.1) := by
  induction puts generalizing l with
  | nil => intro k hk; exact Or.inl hk
  | cons e r ih =>
    obtain ⟨a, v⟩ := e
    intro k hk
    rcases ih _ k hk with h | h
    · simp only [ainsert, List.map_cons, List.mem_cons] at h
      rcases h with h | h
      · exact Or.inr (by simp [h])
      · exact Or.inl (keys_aerase_sub a l k h).1
    · exact Or.inr (by simp only [List.map_cons, List.mem_cons]; exact Or.inr h)

theorem nodup_keys_foldl_ainsert (puts : List (κ × ν)) (l : List (κ × ν))
    (hn : (l.map (·.1)).Nodup) :
    ((puts.foldl (fun hs (k, v) => ainsert k v hs) l).map (·.1)).Nodup := by
  induction puts generalizing l with
  | nil => exact hn
  | cons e r ih =>
    obtain ⟨a, v⟩ := e
    exact ih _ (nodup_keys_ainsert a v hn)

end AL

/-- with unique keys, the entries under one key are the looked-up one -/
theorem filter_key_nodup {l : List (HashX × List Nat)} (hn : (l.map (·.1)).Nodup) (hx : HashX) :
    l.filter (fun e => e.1 == hx) =
      match alookup hx l with
      | some v => [(hx, v)]
      | none => [] := by
  induction l with
  | nil => rfl
  | cons e l ih =>
    obtain ⟨a, w⟩ := e
    simp only [List.map_cons, List.nodup_cons] at hn
    rw [alookup_cons, List.filter_cons]
    by_cases h : a = hx
    · subst h
      have hnone : alookup a l = none := alookup_none_of_not_mem_keys hn.1
      have := ih hn.2
      rw [hnone] at this
      simp [this]
    · have h' : (a == hx) = false := by simpa using h
      simp only [h', h, if_false, Bool.false_eq_true]
      exact ih hn.2

/-! ### rows of one hashX; sorting -/

abbrev Row := (HashX × Nat) × List Nat

/-- the rows of one hashX (`iterator(prefix=hashX)`, before ordering) -/
def rowsOf (hist : List Row) (hx : HashX) : List Row := hist.filter (fun e => e.1.1 == hx)

theorem mem_rowsOf {hist : List Row} {hx : HashX} {e : Row} :
    e ∈ rowsOf hist hx ↔ e ∈ hist ∧ e.1.1 = hx := by
  simp [rowsOf, List.mem_filter]

theorem getTxnums_none (p : Store) (hx : HashX) :
    getTxnums p hx none =
      ((rowsOf p.hist hx).mergeSort (fun a b => decide (a.1.2 ≤ b.1.2))).flatMap (·.2) := rfl

theorem rowsOf_aerase (k : HashX × Nat) (l : List Row) (hx : HashX) :
    rowsOf (aerase k l) hx = aerase k (rowsOf l hx) := by
  simp only [rowsOf, aerase, List.filter_filter, Bool.and_comm]

theorem rowsOf_aerase_ne {k : HashX × Nat} (l : List Row) {hx : HashX} (h : k.1 ≠ hx) :
    rowsOf (aerase k l) hx = rowsOf l hx := by
  rw [rowsOf_aerase]
  apply aerase_of_not_mem
  intro hm
  obtain ⟨e, he, hek⟩ := List.mem_map.mp hm
  exact h (by rw [← hek]; exact (mem_rowsOf.mp he).2)

theorem rowsOf_ainsert_eq {k : HashX × Nat} (v : List Nat) (l : List Row) {hx : HashX}
    (h : k.1 = hx) : rowsOf (ainsert k v l) hx = ainsert k v (rowsOf l hx) := by
  simp only [ainsert, ← rowsOf_aerase]
  simp [rowsOf, h]

theorem rowsOf_ainsert_ne {k : HashX × Nat} (v : List Nat) (l : List Row) {hx : HashX}
    (h : k.1 ≠ hx) : rowsOf (ainsert k v l) hx = rowsOf l hx := by
  have h' : (k.1 == hx) = false := by simpa using h
  rw [← rowsOf_aerase_ne l h]
  simp [ainsert, rowsOf, h']

theorem rowsOf_foldl_aerase (dels : List (HashX × Nat)) (l : List Row) (hx : HashX) :
    rowsOf (dels.foldl (fun hs k => aerase k hs) l) hx =
      (dels.filter (fun k => k.1 == hx)).foldl (fun hs k => aerase k hs) (rowsOf l hx) := by
  induction dels generalizing l with
  | nil => rfl
  | cons d r ih =>
    rw [List.foldl_cons, ih, List.filter_cons]
    by_cases h : d.1 = hx
    · simp [h, rowsOf_aerase]
    · have h' : (d.1 == hx) = false := by simpa using h
      simp only [h', Bool.false_eq_true, if_false]
      rw [rowsOf_aerase_ne l h]

theorem rowsOf_foldl_ainsert (puts : List Row) (l : List Row) (hx : HashX) :
    rowsOf (puts.foldl (fun hs (k, v) => ainsert k v hs) l) hx =
      (puts.filter (fun e => e.1.1 == hx)).foldl (fun hs (k, v) => ainsert k v hs) (rowsOf l hx) := by
  induction puts generalizing l with
  | nil => rfl
  | cons e r ih =>
    obtain ⟨k, v⟩ := e
    rw [List.foldl_cons, ih, List.filter_cons]
    by_cases h : k.1 = hx
    · simp [h, rowsOf_ainsert_eq v l h]
    · have h' : (k.1 == hx) = false := by simpa using h
      simp only [h', Bool.false_eq_true, if_false]
      rw [rowsOf_ainsert_ne v l h]

/-- a sorted permutation is *the* result of merge sort, when the order is antisymmetric on the list -/
theorem sort_unique {α : Type} (le : α → α → Bool)
    (trans : ∀ a b c, le a b → le b c → le a c) (total : ∀ a b, le a b || le b a)
    {l l' : List α} (hp : l.Perm l')
    (hanti : ∀ a ∈ l', ∀ b ∈ l', le a b → le b a → a = b)
    (hs : l.Pairwise (fun a b => le a b)) : l'.mergeSort le = l := by
  apply List.Perm.eq_of_pairwise (le := fun a b => le a b)
  · intro a b ha hb h1 h2
    exact hanti a (List.mem_mergeSort.mp ha) b (hp.subset hb) h1 h2
  · exact List.pairwise_mergeSort trans total l'
  · exact hs
  · exact (List.mergeSort_perm l' le).trans hp.symm

theorem sort_unique_asc {l l' : List Row} (hp : l.Perm l')
    (hinj : ∀ a ∈ l', ∀ b ∈ l', a.1.2 = b.1.2 → a = b)
    (hs : l.Pairwise (fun a b => a.1.2 ≤ b.1.2)) :
    l'.mergeSort (fun a b => decide (a.1.2 ≤ b.1.2)) = l := by
  apply sort_unique _ _ _ hp
  · intro a ha b hb h1 h2
    simp only [decide_eq_true_eq] at h1 h2
    exact hinj a ha b hb (by omega)
  · exact hs.imp (fun h => by simpa using h)
  · intro a b c h1 h2; simp only [decide_eq_true_eq] at *; omega
  · intro a b; simp only [Bool.or_eq_true, decide_eq_true_eq]; omega

theorem sort_unique_desc {l l' : List Row} (hp : l.Perm l')
    (hinj : ∀ a ∈ l', ∀ b ∈ l', a.1.2 = b.1.2 → a = b)
    (hs : l.Pairwise (fun a b => a.1.2 ≥ b.1.2)) :
    l'.mergeSort (fun a b => decide (a.1.2 ≥ b.1.2)) = l := by
  apply sort_unique _ _ _ hp
  · intro a ha b hb h1 h2
    simp only [decide_eq_true_eq] at h1 h2
    exact hinj a ha b hb (by omega)
  · exact hs.imp (fun h => by simpa using h)
  · intro a b c h1 h2; simp only [decide_eq_true_eq] at *; omega
  · intro a b; simp only [Bool.or_eq_true, decide_eq_true_eq]; omega

theorem rowsOf_idInj {hist : List Row} (hn : (hist.map (·.1)).Nodup) (hx : HashX) :
    ∀ a ∈ rowsOf hist hx, ∀ b ∈ rowsOf hist hx, a.1.2 = b.1.2 → a = b := by
  intro a ha b hb h
  obtain ⟨ha1, ha2⟩ := mem_rowsOf.mp ha
  obtain ⟨hb1, hb2⟩ := mem_rowsOf.mp hb
  exact eq_of_mem_nodup_keys hn ha1 hb1 (Prod.ext (ha2.trans hb2.symm) h)

/-- the rows of one hashX in ascending flush-id order -/
def rowsAsc (hist : List Row) (hx : HashX) : List Row :=
  (rowsOf hist hx).mergeSort (fun a b => decide (a.1.2 ≤ b.1.2))

theorem rowsAsc_pairwise (hist : List Row) (hx : HashX) :
    (rowsAsc hist hx).Pairwise (fun a b => a.1.2 ≤ b.1.2) := by
  have := List.pairwise_mergeSort (le := fun (a b : Row) => decide (a.1.2 ≤ b.1.2))
    (by intro a b c h1 h2; simp only [decide_eq_true_eq] at *; omega)
    (by intro a b; simp only [Bool.or_eq_true, decide_eq_true_eq]; omega) (rowsOf hist hx)
  exact this.imp (fun h => by simpa using h)

theorem rowsAsc_perm (hist : List Row) (hx : HashX) : (rowsAsc hist hx).Perm (rowsOf hist hx) :=
  List.mergeSort_perm _ _

theorem histRowsDesc_eq {hist : List Row} (hn : (hist.map (·.1)).Nodup) (hx : HashX) :
    histRowsDesc hist hx = (rowsAsc hist hx).reverse := by
  apply sort_unique_desc ((List.reverse_perm _).trans (rowsAsc_perm hist hx)) (rowsOf_idInj hn hx)
  rw [List.pairwise_reverse]
  exact rowsAsc_pairwise hist hx

end HistAux
open HistAux

/-- the `limit` form -/
theorem getTxnums_some (p : Store) (hx : HashX) (k : Nat) :
    getTxnums p hx (some k) = (getTxnums p hx none).take k := rfl

/-! ### (h2) `History.flush` -/

/-- well-formedness of the history table -/
structure HistWF (hist : List ((HashX × Nat) × List Nat)) (flushCount : Nat) : Prop where
  keys : (hist.map (·.1)).Nodup
  ids : ∀ e ∈ hist, e.1.2 ≤ flushCount

theorem HistWF.mono {hist : List Row} {a b : Nat} (h : HistWF hist a) (hab : a ≤ b) : HistWF hist b :=
  ⟨h.keys, fun e he => Nat.le_trans (h.ids e he) hab⟩

namespace HistAux

theorem sortByKey_perm {ν : Type} (l : List (Nat × ν)) : (sortByKey l).Perm l :=
  List.mergeSort_perm _ _

end HistAux
open HistAux

theorem hist_histFlush (s : Sys) :
    (applyEffect s.p (histFlushEffect s)).hist =
      ((sortByKey s.m.unflushed).map (fun (hx, nums) => ((hx, s.m.histFlush + 1), nums))).foldl
        (fun hs (k, v) => ainsert k v hs) s.p.hist := by
  simp [applyEffect, histFlushEffect]

/-- `History.flush` writes the state record with the incremented flush count -/
theorem hstate_histFlush (s : Sys) :
    (applyEffect s.p (histFlushEffect s)).hstate =
      some { hstateOf s.m with flushCount := s.m.histFlush + 1 } := by
  simp [applyEffect, histFlushEffect]

/-- `History.flush` touches nothing but the history table and its state record -/
theorem others_histFlush (s : Sys) :
    applyEffect s.p (histFlushEffect s) =
      { s.p with hist := (applyEffect s.p (histFlushEffect s)).hist,
                 hstate := (applyEffect s.p (histFlushEffect s)).hstate } := by
  simp [applyEffect, histFlushEffect]

namespace HistAux

theorem rowsOf_histFlush (s : Sys) (hwf : HistWF s.p.hist s.m.histFlush)
    (hunf : (s.m.unflushed.map (·.1)).Nodup) (hx : HashX) :
    rowsOf (applyEffect s.p (histFlushEffect s)).hist hx =
      match alookup hx s.m.unflushed with
      | some v => ((hx, s.m.histFlush + 1), v) :: rowsOf s.p.hist hx
      | none => rowsOf s.p.hist hx := by
  have hp := sortByKey_perm s.m.unflushed
  have hn' : ((sortByKey s.m.unflushed).map (·.1)).Nodup := (hp.map _).nodup_iff.mpr hunf
  have hcomp : ((fun (e : Row) => e.1.1 == hx) ∘
      (fun (x : HashX × List Nat) => ((x.1, s.m.histFlush + 1), x.2))) = (fun e => e.1 == hx) := by
    funext e; rfl
  rw [hist_histFlush, rowsOf_foldl_ainsert]
  have hmap : (fun (x : HashX × List Nat) => match x with
      | (hx, nums) => ((hx, s.m.histFlush + 1), nums)) =
      (fun (x : HashX × List Nat) => ((x.1, s.m.histFlush + 1), x.2)) := by
    funext ⟨a, b⟩; rfl
  rw [hmap, List.filter_map, hcomp, filter_key_nodup hn', alookup_perm hp hn' hx]
  cases h : alookup hx s.m.unflushed with
  | none => rfl
  | some v =>
    simp only [List.map_cons, List.map_nil, List.foldl_cons, List.foldl_nil, ainsert]
    rw [aerase_of_not_mem]
    intro hm
    obtain ⟨e, he, hek⟩ := List.mem_map.mp hm
    have := hwf.ids e (mem_rowsOf.mp he).1
    rw [hek] at this
    simp only at this
    omega

end HistAux
open HistAux

/-- (h2) `History.flush`: the new rows land last; every history grows by its unflushed part -/
theorem getTxnums_histFlush (s : Sys) (hwf : HistWF s.p.hist s.m.histFlush)
    (hunf : (s.m.unflushed.map (·.1)).Nodup) (hx : HashX) :
    getTxnums (applyEffect s.p (histFlushEffect s)) hx none =
      getTxnums s.p hx none ++ unfOf s.m.unflushed hx := by
  rw [getTxnums_none, getTxnums_none, rowsOf_histFlush s hwf hunf hx, unfOf]
  cases h : alookup hx s.m.unflushed with
  | none => simp
  | some v =>
    simp only [Option.getD_some]
    have : (((hx, s.m.histFlush + 1), v) :: rowsOf s.p.hist hx).mergeSort
        (fun a b => decide (a.1.2 ≤ b.1.2)) = rowsAsc s.p.hist hx ++ [((hx, s.m.histFlush + 1), v)] := by
      apply sort_unique_asc
      · exact List.perm_append_comm.trans (List.Perm.cons _ (rowsAsc_perm _ _))
      · intro a ha b hb hab
        have hold : ∀ e ∈ rowsOf s.p.hist hx, e.1.2 ≤ s.m.histFlush :=
          fun e he => hwf.ids e (mem_rowsOf.mp he).1
        rcases List.mem_cons.mp ha with rfl | ha' <;> rcases List.mem_cons.mp hb with rfl | hb'
        · rfl
        · have := hold b hb'; simp at hab; omega
        · have := hold a ha'; simp at hab; omega
        · exact rowsOf_idInj hwf.keys hx a ha' b hb' hab
      · rw [List.pairwise_append]
        refine ⟨rowsAsc_pairwise _ _, by simp, ?_⟩
        intro a ha b hb
        simp only [List.mem_singleton] at hb
        subst hb
        have := hwf.ids a (mem_rowsOf.mp ((rowsAsc_perm _ _).subset ha)).1
        simp only; omega
    rw [this, List.flatMap_append]
    simp [rowsAsc]

theorem histWF_histFlush (s : Sys) (hwf : HistWF s.p.hist s.m.histFlush)
    (_hunf : (s.m.unflushed.map (·.1)).Nodup) :
    HistWF (applyEffect s.p (histFlushEffect s)).hist (s.m.histFlush + 1) := by
  rw [hist_histFlush]
  constructor
  · exact nodup_keys_foldl_ainsert _ _ hwf.keys
  · intro e he
    rcases mem_keys_foldl_ainsert _ _ e.1 (List.mem_map.mpr ⟨e, he, rfl⟩) with h | h
    · obtain ⟨e', he', hk⟩ := List.mem_map.mp h
      have := hwf.ids e' he'
      rw [← hk]; omega
    · simp only [List.map_map, List.mem_map, Function.comp] at h
      obtain ⟨x, _, hk⟩ := h
      rw [← hk]
      simp

/-! ### (h3) `History.backup` -/

namespace HistAux

theorem histBackupOne_pos (txCount : Nat) (k : HashX × Nat) (nums : List Nat) (rest : List Row)
    (h : bisectLeft nums txCount > 0) :
    histBackupOne txCount ((k, nums) :: rest) = ([], [(k, nums.take (bisectLeft nums txCount))]) := by
  simp [histBackupOne, h]

theorem histBackupOne_neg (txCount : Nat) (k : HashX × Nat) (nums : List Nat) (rest : List Row)
    (h : ¬ bisectLeft nums txCount > 0) :
    histBackupOne txCount ((k, nums) :: rest) =
      (k :: (histBackupOne txCount rest).1, (histBackupOne txCount rest).2) := by
  simp [histBackupOne, h]

/-- what the walk of `History.backup` leaves of the rows of one hashX (descending order) -/
def keepDesc (txCount : Nat) : List Row → List Row
  | [] => []
  | (k, nums) :: rest =>
    if bisectLeft nums txCount > 0 then (k, nums.take (bisectLeft nums txCount)) :: rest
    else keepDesc txCount rest

theorem histBackupOne_keys (txCount : Nat) (rd : List Row) :
    (∀ k ∈ (histBackupOne txCount rd).1, k ∈ rd.map (·.1)) ∧
    (∀ e ∈ (histBackupOne txCount rd).2, e.1 ∈ rd.map (·.1)) := by
  induction rd with
  | nil => simp [histBackupOne]
  | cons e rest ih =>
    obtain ⟨k, nums⟩ := e
    by_cases h : bisectLeft nums txCount > 0
    · rw [histBackupOne_pos _ _ _ _ h]; simp
    · rw [histBackupOne_neg _ _ _ _ h]
      constructor
      · intro x hx
        rcases List.mem_cons.mp hx with rfl | hx'
        · simp
        · exact List.mem_cons_of_mem _ (ih.1 x hx')
      · intro x hx
        exact List.mem_cons_of_mem _ (ih.2 x hx)

/-- applying the deletes and puts of one walk to (any arrangement of) the rows gives `keepDesc` -/
theorem backupOne_perm (txCount : Nat) (rd : List Row) (hn : (rd.map (·.1)).Nodup)
    (R : List Row) (hp : R.Perm rd) :
    ((histBackupOne txCount rd).2.foldl (fun hs (k, v) => ainsert k v hs)
      ((histBackupOne txCount rd).1.foldl (fun hs k => aerase k hs) R)).Perm (keepDesc txCount rd) := by
  induction rd generalizing R with
  | nil => simpa [histBackupOne, keepDesc] using hp
  | cons e rest ih =>
    obtain ⟨k, nums⟩ := e
    simp only [List.map_cons, List.nodup_cons] at hn
    have herase : (aerase k R).Perm rest := by
      have := hp.filter (fun e => !decide (e.1 = k))
      rw [← aerase_cons_self k nums hn.1]
      exact this
    by_cases h : bisectLeft nums txCount > 0
    · rw [histBackupOne_pos _ _ _ _ h]
      simp only [keepDesc, h, if_true, List.foldl_nil, List.foldl_cons, ainsert]
      exact List.Perm.cons _ herase
    · rw [histBackupOne_neg _ _ _ _ h]
      simp only [keepDesc, h, if_false, List.foldl_cons]
      exact ih hn.2 _ herase

theorem keepDesc_pairwise (txCount : Nat) (rd : List Row)
    (h : rd.Pairwise (fun a b => a.1.2 ≥ b.1.2)) :
    (keepDesc txCount rd).Pairwise (fun a b => a.1.2 ≥ b.1.2) := by
  induction rd with
  | nil => simp [keepDesc]
  | cons e rest ih =>
    obtain ⟨k, nums⟩ := e
    rw [List.pairwise_cons] at h
    simp only [keepDesc]
    by_cases hb : bisectLeft nums txCount > 0
    · simp only [hb, if_true]
      exact List.pairwise_cons.mpr ⟨h.1, h.2⟩
    · simp only [hb, if_false]
      exact ih h.2

theorem bisectLeft_take_eq_filter (nums : List Nat) (h : nums.Pairwise (· < ·)) (x : Nat) :
    nums.take (bisectLeft nums x) = nums.filter (· < x) := by
  induction nums with
  | nil => rfl
  | cons c cs ih =>
    rw [List.pairwise_cons] at h
    simp only [bisectLeft]
    by_cases hc : c < x
    · simp only [hc, if_true, List.filter_cons, decide_true]
      rw [Nat.add_comm, List.take_succ_cons, ih h.2]
    · simp only [hc, if_false, List.take_zero, List.filter_cons, decide_false]
      symm
      apply List.filter_eq_nil_iff.mpr
      intro a ha
      have := h.1 a ha
      simp only [decide_eq_true_eq]; omega

theorem bisectLeft_pos {nums : List Nat} {x : Nat} (h : bisectLeft nums x > 0) :
    ∃ c cs, nums = c :: cs ∧ c < x := by
  cases nums with
  | nil => simp [bisectLeft] at h
  | cons c cs =>
    refine ⟨c, cs, rfl, ?_⟩
    simp only [bisectLeft] at h
    by_cases hc : c < x
    · exact hc
    · simp [hc] at h

/-- with an ascending concatenation, the walk keeps exactly the entries below `txCount` -/
theorem keepDesc_flat (txCount : Nat) (rd : List Row)
    (hasc : (rd.reverse.flatMap (·.2)).Pairwise (· < ·)) :
    (keepDesc txCount rd).reverse.flatMap (·.2) =
      (rd.reverse.flatMap (·.2)).filter (· < txCount) := by
  induction rd with
  | nil => simp [keepDesc]
  | cons e rest ih =>
    obtain ⟨k, nums⟩ := e
    simp only [List.reverse_cons, List.flatMap_append, List.flatMap_cons, List.flatMap_nil,
      List.append_nil] at hasc ⊢
    rw [List.pairwise_append] at hasc
    obtain ⟨hX, hnums, hcross⟩ := hasc
    rw [List.filter_append, ← bisectLeft_take_eq_filter nums hnums]
    simp only [keepDesc]
    by_cases hb : bisectLeft nums txCount > 0
    · simp only [hb, if_true, List.reverse_cons, List.flatMap_append, List.flatMap_cons,
        List.flatMap_nil, List.append_nil]
      congr 1
      symm
      apply List.filter_eq_self.mpr
      intro a ha
      obtain ⟨c, cs, hc, hlt⟩ := bisectLeft_pos hb
      have := hcross a ha c (by rw [hc]; simp)
      simp only [decide_eq_true_eq]; omega
    · simp only [hb, if_false]
      have h0 : bisectLeft nums txCount = 0 := by omega
      rw [h0, List.take_zero, List.append_nil]
      exact ih hX

end HistAux
open HistAux

theorem hist_histBackup (s : Sys) (touched : List HashX) (txCount : Nat) :
    (applyEffect s.p (histBackupEffect s touched txCount)).hist =
      (((touched.eraseDups).mergeSort (fun a b => decide (a ≤ b))).flatMap
          (fun hx => (histBackupOne txCount (histRowsDesc s.p.hist hx)).2)).foldl
        (fun hs (k, v) => ainsert k v hs)
        ((((touched.eraseDups).mergeSort (fun a b => decide (a ≤ b))).flatMap
          (fun hx => (histBackupOne txCount (histRowsDesc s.p.hist hx)).1)).foldl
          (fun hs k => aerase k hs) s.p.hist) := by
  simp [applyEffect, histBackupEffect, List.flatMap_map]

/-- `History.backup` writes the state record with the incremented flush count -/
theorem hstate_histBackup (s : Sys) (touched : List HashX) (txCount : Nat) :
    (applyEffect s.p (histBackupEffect s touched txCount)).hstate =
      some { hstateOf s.m with flushCount := s.m.histFlush + 1 } := by
  simp [applyEffect, histBackupEffect]

/-- `History.backup` touches nothing but the history table and its state record -/
theorem others_histBackup (s : Sys) (touched : List HashX) (txCount : Nat) :
    applyEffect s.p (histBackupEffect s touched txCount) =
      { s.p with hist := (applyEffect s.p (histBackupEffect s touched txCount)).hist,
                 hstate := (applyEffect s.p (histBackupEffect s touched txCount)).hstate } := by
  simp [applyEffect, histBackupEffect]

namespace HistAux

/-- of the per-hashX parts of a batch, only the part of `hx` has keys under `hx` -/
theorem filter_flatMap_part {β : Type} (hxs : List HashX) (hnd : hxs.Nodup) (g : HashX → List β)
    (key : β → HashX) (hkey : ∀ hx', ∀ b ∈ g hx', key b = hx') (hx : HashX) :
    (hxs.flatMap g).filter (fun b => key b == hx) = if hx ∈ hxs then g hx else [] := by
  induction hxs with
  | nil => simp
  | cons a r ih =>
    rw [List.nodup_cons] at hnd
    rw [List.flatMap_cons, List.filter_append, ih hnd.2]
    by_cases h : a = hx
    · subst h
      have : (g a).filter (fun b => key b == a) = g a := by
        apply List.filter_eq_self.mpr
        intro b hb; simp [hkey a b hb]
      simp [this, hnd.1]
    · have : (g a).filter (fun b => key b == hx) = [] := by
        apply List.filter_eq_nil_iff.mpr
        intro b hb; simp [hkey a b hb, h]
      simp [this, Ne.symm h]

theorem mem_histRowsDesc {hist : List Row} {hx : HashX} {e : Row} :
    e ∈ histRowsDesc hist hx ↔ e ∈ hist ∧ e.1.1 = hx := by
  simp only [histRowsDesc, List.mem_mergeSort]
  exact mem_rowsOf

theorem sortedTouched_nodup (touched : List HashX) :
    ((touched.eraseDups).mergeSort (fun a b => decide (a ≤ b))).Nodup :=
  (List.mergeSort_perm _ _).nodup_iff.mpr (nodup_eraseDups touched)

theorem mem_sortedTouched (touched : List HashX) (hx : HashX) :
    hx ∈ (touched.eraseDups).mergeSort (fun a b => decide (a ≤ b)) ↔ hx ∈ touched := by
  simp

/-- the rows of one hashX after `History.backup` -/
theorem rowsOf_histBackup (s : Sys) (touched : List HashX) (txCount : Nat) (hx : HashX) :
    rowsOf (applyEffect s.p (histBackupEffect s touched txCount)).hist hx =
      if hx ∈ touched then
        (histBackupOne txCount (histRowsDesc s.p.hist hx)).2.foldl (fun hs (k, v) => ainsert k v hs)
          ((histBackupOne txCount (histRowsDesc s.p.hist hx)).1.foldl (fun hs k => aerase k hs)
            (rowsOf s.p.hist hx))
      else rowsOf s.p.hist hx := by
  rw [hist_histBackup, rowsOf_foldl_ainsert, rowsOf_foldl_aerase,
    filter_flatMap_part _ (sortedTouched_nodup touched) _ (fun (e : Row) => e.1.1) _ hx,
    filter_flatMap_part _ (sortedTouched_nodup touched) _ (fun (k : HashX × Nat) => k.1) _ hx]
  · simp only [mem_sortedTouched]
    by_cases h : hx ∈ touched <;> simp [h]
  · intro hx' k hk
    obtain ⟨e, he, hek⟩ := List.mem_map.mp ((histBackupOne_keys txCount _).1 k hk)
    rw [← hek]; exact (mem_histRowsDesc.mp he).2
  · intro hx' e he
    obtain ⟨e', he', hek⟩ := List.mem_map.mp ((histBackupOne_keys txCount _).2 e he)
    rw [← hek]; exact (mem_histRowsDesc.mp he').2

end HistAux
open HistAux

theorem nodup_keys_histBackup (s : Sys) (touched : List HashX) (txCount : Nat)
    (hkeys : (s.p.hist.map (·.1)).Nodup) :
    ((applyEffect s.p (histBackupEffect s touched txCount)).hist.map (·.1)).Nodup := by
  rw [hist_histBackup]
  exact nodup_keys_foldl_ainsert _ _ (nodup_keys_foldl_aerase _ _ hkeys)

/-- `History.backup` keeps the table well-formed; no id grows, so the bound stays `histFlush`
    (a fortiori `histFlush + 1`, the flush count it writes) -/
theorem histWF_histBackup (s : Sys) (touched : List HashX) (txCount : Nat)
    (hwf : HistWF s.p.hist s.m.histFlush) :
    HistWF (applyEffect s.p (histBackupEffect s touched txCount)).hist s.m.histFlush := by
  refine ⟨nodup_keys_histBackup s touched txCount hwf.keys, ?_⟩
  rw [hist_histBackup]
  intro e he
  have hkey : e.1 ∈ s.p.hist.map (·.1) := by
    rcases mem_keys_foldl_ainsert _ _ e.1 (List.mem_map.mpr ⟨e, he, rfl⟩) with h | h
    · exact mem_keys_foldl_aerase _ _ e.1 h
    · obtain ⟨p, hp, hpk⟩ := List.mem_map.mp h
      obtain ⟨hx', _, hp'⟩ := List.mem_flatMap.mp hp
      obtain ⟨e', he', hek⟩ := List.mem_map.mp ((histBackupOne_keys txCount _).2 p hp')
      rw [← hpk, ← hek]
      exact List.mem_map.mpr ⟨e', (mem_histRowsDesc.mp he').1, rfl⟩
  obtain ⟨e', he', hek⟩ := List.mem_map.mp hkey
  rw [← hek]
  exact hwf.ids e' he'

theorem histWF_histBackup_succ (s : Sys) (touched : List HashX) (txCount : Nat)
    (hwf : HistWF s.p.hist s.m.histFlush) :
    HistWF (applyEffect s.p (histBackupEffect s touched txCount)).hist (s.m.histFlush + 1) :=
  (histWF_histBackup s touched txCount hwf).mono (Nat.le_succ _)

/-- (h3) `History.backup(hashXs, tx_count)`: every touched history is cut to its entries below
    `tx_count`; untouched histories are unchanged.  Sharpest form: only unique keys are needed, and
    only the history of `hx` itself has to be ascending. -/
theorem getTxnums_histBackup' (s : Sys) (touched : List HashX) (txCount : Nat)
    (hkeys : (s.p.hist.map (·.1)).Nodup) (hx : HashX)
    (hasc : (getTxnums s.p hx none).Pairwise (· < ·)) :
    getTxnums (applyEffect s.p (histBackupEffect s touched txCount)) hx none =
      if hx ∈ touched then (getTxnums s.p hx none).filter (· < txCount)
      else getTxnums s.p hx none := by
  have hinj := rowsOf_idInj (nodup_keys_histBackup s touched txCount hkeys) hx
  have hrows := rowsOf_histBackup s touched txCount hx
  rw [getTxnums_none, getTxnums_none]
  by_cases h : hx ∈ touched
  · simp only [h, if_true] at hrows ⊢
    have hdesc := histRowsDesc_eq hkeys hx
    have hrdkeys : ((histRowsDesc s.p.hist hx).map (·.1)).Nodup := by
      have hsub : ((rowsOf s.p.hist hx).map (·.1)).Nodup :=
        List.Nodup.sublist (List.Sublist.map _ List.filter_sublist) hkeys
      have hp : (histRowsDesc s.p.hist hx).Perm (rowsOf s.p.hist hx) := List.mergeSort_perm _ _
      exact (hp.map _).nodup_iff.mpr hsub
    have hperm := backupOne_perm txCount (histRowsDesc s.p.hist hx) hrdkeys (rowsOf s.p.hist hx)
      (List.mergeSort_perm _ _).symm
    rw [← hrows] at hperm
    have hrdpw : (histRowsDesc s.p.hist hx).Pairwise (fun a b => a.1.2 ≥ b.1.2) := by
      rw [hdesc, List.pairwise_reverse]
      exact rowsAsc_pairwise _ _
    have hsort : (rowsOf (applyEffect s.p (histBackupEffect s touched txCount)).hist hx).mergeSort
        (fun a b => decide (a.1.2 ≤ b.1.2)) =
        (keepDesc txCount (histRowsDesc s.p.hist hx)).reverse := by
      apply sort_unique_asc ((List.reverse_perm _).trans hperm.symm) hinj
      rw [List.pairwise_reverse]
      exact keepDesc_pairwise txCount _ hrdpw
    have hrev : (histRowsDesc s.p.hist hx).reverse = rowsAsc s.p.hist hx := by
      rw [hdesc, List.reverse_reverse]
    rw [hsort, keepDesc_flat, hrev]
    · rfl
    · rw [hrev]; exact hasc
  · simp only [h, if_false] at hrows ⊢
    rw [hrows]

/-- (h3), with the hypothesis as in the design: all histories ascending -/
theorem getTxnums_histBackup (s : Sys) (touched : List HashX) (txCount : Nat)
    (hwf : HistWF s.p.hist s.m.histFlush)
    (hasc : ∀ hx, (getTxnums s.p hx none).Pairwise (· < ·)) (hx : HashX) :
    getTxnums (applyEffect s.p (histBackupEffect s touched txCount)) hx none =
      if hx ∈ touched then (getTxnums s.p hx none).filter (· < txCount)
      else getTxnums s.p hx none :=
  getTxnums_histBackup' s touched txCount hwf.keys hx (hasc hx)

/-- ascending histories stay ascending under `History.backup` -/
theorem asc_histBackup (s : Sys) (touched : List HashX) (txCount : Nat)
    (hwf : HistWF s.p.hist s.m.histFlush)
    (hasc : ∀ hx, (getTxnums s.p hx none).Pairwise (· < ·)) (hx : HashX) :
    (getTxnums (applyEffect s.p (histBackupEffect s touched txCount)) hx none).Pairwise (· < ·) := by
  rw [getTxnums_histBackup s touched txCount hwf hasc hx]
  split
  · exact (hasc hx).filter _
  · exact hasc hx

/-! ### examples: the hypotheses are satisfiable, and needed -/

namespace HistAux

/-- a table with an *empty* row in the middle and an untouched neighbour -/
def exSys : Sys :=
  { m := { histFlush := 3, unflushed := [(8, [6]), (7, [6, 9])] },
    p := { hist := [((7, 1), [1, 2]), ((7, 2), []), ((7, 3), [5]), ((8, 3), [5])] } }

example : HistWF exSys.p.hist exSys.m.histFlush := ⟨by decide, by decide⟩
example : (exSys.m.unflushed.map (·.1)).Nodup := by decide
example : ∀ hx, (getTxnums exSys.p hx none).Pairwise (· < ·) := by
  intro hx
  by_cases h7 : hx = 7
  · subst h7; simp [getTxnums, exSys, List.mergeSort]
  · by_cases h8 : hx = 8
    · subst h8; simp [getTxnums, exSys]
    · have h7' : ¬ 7 = hx := fun h => h7 h.symm
      have h8' : ¬ 8 = hx := fun h => h8 h.symm
      simp [getTxnums, exSys, h7', h8']

/-- flush on the example: `[1,2,5] ++ [6,9]` -/
example : getTxnums (applyEffect exSys.p (histFlushEffect exSys)) 7 none = [1, 2, 5, 6, 9] := by
  simp [getTxnums, applyEffect, histFlushEffect, sortByKey, exSys, List.mergeSort, aerase, ainsert]

/-- backup on the example (duplicates in `touched`, empty row kept, row 3 deleted) -/
example : getTxnums (applyEffect exSys.p (histBackupEffect exSys [7, 7] 4)) 7 none = [1, 2] := by
  simp [getTxnums, applyEffect, histBackupEffect, histRowsDesc, histBackupOne, bisectLeft, exSys,
    List.mergeSort, List.eraseDups_cons, aerase, ainsert]

/-- `HistWF.ids` is needed for (h2): a stale row under the *next* flush id (what
    `History.clear_excess` removes when the DB is opened) is overwritten by the flush -/
def exStale : Sys := { m := { histFlush := 0, unflushed := [(7, [2])] }, p := { hist := [((7, 1), [1])] } }

example : getTxnums (applyEffect exStale.p (histFlushEffect exStale)) 7 none = [2] ∧
    getTxnums exStale.p 7 none ++ unfOf exStale.m.unflushed 7 = [1, 2] := by
  simp [getTxnums, applyEffect, histFlushEffect, sortByKey, exStale, aerase, ainsert, unfOf,
    alookup]

/-- the ascending hypothesis is needed for (h3): the walk stops at the first row (from the top)
    that has an entry below `tx_count` and never looks at the rows under it -/
def exDesc : Sys := { m := { histFlush := 2 }, p := { hist := [((7, 1), [5]), ((7, 2), [1])] } }

example : getTxnums (applyEffect exDesc.p (histBackupEffect exDesc [7] 3)) 7 none = [5, 1] ∧
    (getTxnums exDesc.p 7 none).filter (· < 3) = [1] := by
  simp [getTxnums, applyEffect, histBackupEffect, histRowsDesc, histBackupOne, bisectLeft, exDesc,
    List.mergeSort, List.eraseDups_cons, aerase, ainsert]

end HistAux

end EV.Index

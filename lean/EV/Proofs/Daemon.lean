import EV.Model.Daemon

/-!
Proofs about the `_send` loop of `EV/Model/Daemon.lean` (core tactics only).

* `sendLoop_transient_prefix` — a prefix of transient attempts only moves `(url_index, retry)` along
  the pure back-off recurrence `backoff`, emits `sleepsFrom` / `contactedFrom`, and hands the rest of
  the list to the loop unchanged.
* closed forms of `backoff`, `sleepsFrom`, `contactedFrom` for `1 < nUrls` (periodic, one fail-over per
  period) and for `nUrls ≤ 1` (saturating).
-/
namespace EV.Daemon

variable {α ε σ ι : Type}

/-- an attempt that one of the seven `except` clauses catches -/
def IsTransient (cls : ι → Outcome α ε) (x : ι) : Prop := ∃ k, cls x = .transient k

/-! ### the pure recurrence on `(url_index, retry)` -/

def backoff (c : Cfg) : Nat → Nat → Nat → Nat × Nat
  | 0, u, r => (u, r)
  | L + 1, u, r => backoff c L (logError c u r).1 (nextRetry c (logError c u r).2)

def sleepsFrom (c : Cfg) : Nat → Nat → Nat → List Nat
  | 0, _, _ => []
  | L + 1, u, r =>
    (logError c u r).2 :: sleepsFrom c L (logError c u r).1 (nextRetry c (logError c u r).2)

def contactedFrom (c : Cfg) : Nat → Nat → Nat → List Nat
  | 0, _, _ => []
  | L + 1, u, r => u :: contactedFrom c L (logError c u r).1 (nextRetry c (logError c u r).2)

/-- `on_good_message` after a run of attempts -/
def goodFold (cls : ι → Outcome α ε) : Option GoodMsg → List ι → Option GoodMsg
  | g, [] => g
  | g, x :: xs =>
    match cls x with
    | .transient k => goodFold cls (goodAfter k g) xs
    | _ => goodFold cls g xs

def prefixOut (sl ct : List Nat) (o : SendOut α ε σ) : SendOut α ε σ :=
  ⟨o.res, o.urlIndex, sl ++ o.sleeps, ct ++ o.contacted, o.logged, o.side⟩

theorem sleepsFrom_length (c : Cfg) : ∀ L u r, (sleepsFrom c L u r).length = L := by
  intro L; induction L with
  | zero => intros; rfl
  | succ L ih => intro u r; simp [sleepsFrom, ih]

theorem contactedFrom_length (c : Cfg) : ∀ L u r, (contactedFrom c L u r).length = L := by
  intro L; induction L with
  | zero => intros; rfl
  | succ L ih => intro u r; simp [contactedFrom, ih]

theorem sendLoop_transient_prefix (c : Cfg) (cls : ι → Outcome α ε) (eff : σ → ι → σ)
    (faults : List ι) (hf : ∀ x ∈ faults, IsTransient cls x) :
    ∀ (u r : Nat) (g : Option GoodMsg) (s : σ) (rest : List ι),
      sendLoop c cls eff u r g s (faults ++ rest) =
        prefixOut (sleepsFrom c faults.length u r) (contactedFrom c faults.length u r)
          (sendLoop c cls eff (backoff c faults.length u r).1 (backoff c faults.length u r).2
            (goodFold cls g faults) (faults.foldl eff s) rest) := by
  induction faults with
  | nil => intro u r g s rest; rfl
  | cons x xs ih =>
    intro u r g s rest
    obtain ⟨k, hk⟩ := hf x (by simp)
    have ih' := ih (fun y hy => hf y (by simp [hy]))
    simp only [List.cons_append, sendLoop, hk, ih', List.length_cons, sleepsFrom, contactedFrom,
      backoff, goodFold, List.foldl_cons]
    rfl

/-! ### what the first non-transient attempt does -/

theorem sendLoop_ok (c : Cfg) (cls : ι → Outcome α ε) (eff : σ → ι → σ) (u r : Nat)
    (g : Option GoodMsg) (s : σ) (x : ι) (rest : List ι) (v : α) (hx : cls x = .ok v) :
    sendLoop c cls eff u r g s (x :: rest) = ⟨.returned v, u, [], [u], g, eff s x⟩ := by
  simp only [sendLoop, hx]

theorem sendLoop_fatal (c : Cfg) (cls : ι → Outcome α ε) (eff : σ → ι → σ) (u r : Nat)
    (g : Option GoodMsg) (s : σ) (x : ι) (rest : List ι) (e : ε) (hx : cls x = .fatal e) :
    sendLoop c cls eff u r g s (x :: rest) = ⟨.raised e, u, [], [u], none, eff s x⟩ := by
  simp only [sendLoop, hx]

/-! ### tabulations -/

/-- `[f j, f (j+1), …, f (j+L-1)]` -/
def tabFrom (f : Nat → Nat) (j L : Nat) : List Nat := (List.range L).map (fun i => f (j + i))

theorem tabFrom_zero (f : Nat → Nat) (j : Nat) : tabFrom f j 0 = [] := rfl

theorem tabFrom_succ (f : Nat → Nat) (j L : Nat) : tabFrom f j (L + 1) = f j :: tabFrom f (j + 1) L := by
  simp only [tabFrom, List.range_succ_eq_map, List.map_cons, List.map_map, Nat.add_zero]
  congr 1
  apply List.map_congr_left
  intro i _
  simp only [Function.comp, Nat.succ_eq_add_one]
  congr 1; omega

theorem tabFrom_congr (f g : Nat → Nat) (a b L : Nat) (h : ∀ i, f (a + i) = g (b + i)) :
    tabFrom f a L = tabFrom g b L := by
  simp only [tabFrom]
  apply List.map_congr_left
  intro i _; exact h i

theorem tabFrom_length (f : Nat → Nat) (j L : Nat) : (tabFrom f j L).length = L := by
  simp [tabFrom]

theorem tabFrom_getElem? (f : Nat → Nat) (j L i : Nat) (hi : i < L) :
    (tabFrom f j L)[i]? = some (f (j + i)) := by
  simp [tabFrom, hi]

/-! ### the retry values -/

/-- the retry time after `j` doublings from `init_retry` -/
def retryAt (c : Cfg) (j : Nat) : Nat := min c.maxRetry (c.initRetry * 2 ^ j)

/-- `p` doublings take `init_retry` to `max_retry` and no fewer do -/
structure Reaches (c : Cfg) (p : Nat) : Prop where
  reach : c.maxRetry ≤ c.initRetry * 2 ^ p
  below : ∀ j, j < p → c.initRetry * 2 ^ j < c.maxRetry

theorem init_le_mul_pow (a j : Nat) : a ≤ a * 2 ^ j :=
  Nat.le_mul_of_pos_right a (Nat.two_pow_pos j)

theorem nextRetry_retryAt (c : Cfg) (hle : c.initRetry ≤ c.maxRetry) (j : Nat) :
    nextRetry c (retryAt c j) = retryAt c (j + 1) := by
  have h1 : c.initRetry * 2 ^ (j + 1) = c.initRetry * 2 ^ j * 2 := by
    rw [Nat.pow_succ, Nat.mul_assoc]
  have h2 := init_le_mul_pow c.initRetry j
  simp only [nextRetry, retryAt, h1]
  generalize c.initRetry * 2 ^ j = a at *
  omega

theorem nextRetry_zero (c : Cfg) : nextRetry c 0 = c.initRetry := by
  simp [nextRetry]

theorem retryAt_zero (c : Cfg) (hle : c.initRetry ≤ c.maxRetry) : retryAt c 0 = c.initRetry := by
  simp only [retryAt, Nat.pow_zero, Nat.mul_one]; omega

theorem retryAt_below (c : Cfg) (p j : Nat) (hp : Reaches c p) (hj : j < p) :
    retryAt c j = c.initRetry * 2 ^ j ∧ retryAt c j ≠ c.maxRetry := by
  have := hp.below j hj
  simp only [retryAt]; omega

theorem retryAt_reach (c : Cfg) (p : Nat) (hp : Reaches c p) : retryAt c p = c.maxRetry := by
  have := hp.reach
  simp only [retryAt]; omega

theorem retryAt_pos (c : Cfg) (hinit : 0 < c.initRetry) (hle : c.initRetry ≤ c.maxRetry) (j : Nat) :
    0 < retryAt c j := by
  have := init_le_mul_pow c.initRetry j
  simp only [retryAt]; omega

/-! ### `log_error` in the three situations -/

theorem logError_many_at_max (c : Cfg) (hn : 1 < c.nUrls) (u : Nat) :
    logError c u c.maxRetry = ((u + 1) % c.nUrls, 0) := by
  simp [logError, failover, hn]

theorem logError_not_max (c : Cfg) (u r : Nat) (h : r ≠ c.maxRetry) : logError c u r = (u, r) := by
  simp [logError, h]

theorem logError_single (c : Cfg) (hn : ¬ 1 < c.nUrls) (u r : Nat) : logError c u r = (u, r) := by
  simp only [logError, failover, hn, if_false]
  split <;> simp

/-! ### closed forms, several URLs: period `p + 1`, one fail-over per period -/

/-- the argument of the `m`-th sleep (counted from the start of a period) -/
def sleepMany (c : Cfg) (p m : Nat) : Nat :=
  if m % (p + 1) = p then 0 else c.initRetry * 2 ^ (m % (p + 1))

/-- the URL index in force at the `m`-th attempt when the period started at index `u` -/
def urlMany (c : Cfg) (p u m : Nat) : Nat := (u + m / (p + 1)) % c.nUrls

theorem urlMany_shift (c : Cfg) (p u i : Nat) :
    urlMany c p ((u + 1) % c.nUrls) (0 + i) = urlMany c p u (p + 1 + i) := by
  have h : (p + 1 + i) / (p + 1) = i / (p + 1) + 1 := by
    rw [Nat.add_comm (p + 1) i, Nat.add_div_right i (Nat.succ_pos p)]
  simp only [urlMany, Nat.zero_add, h]
  rw [Nat.mod_add_mod]
  congr 1; omega

theorem backoff_many (c : Cfg) (p : Nat) (hp : Reaches c p) (hle : c.initRetry ≤ c.maxRetry)
    (hn : 1 < c.nUrls) :
    ∀ L j u, j ≤ p → u < c.nUrls →
      backoff c L u (retryAt c j) = (urlMany c p u (j + L), retryAt c ((j + L) % (p + 1))) := by
  intro L
  induction L with
  | zero =>
    intro j u hj hu
    have h1 : j / (p + 1) = 0 := Nat.div_eq_of_lt (by omega)
    have h2 : j % (p + 1) = j := Nat.mod_eq_of_lt (by omega)
    simp [backoff, urlMany, h1, h2, Nat.mod_eq_of_lt hu]
  | succ L ih =>
    intro j u hj hu
    rcases Nat.lt_or_eq_of_le hj with hlt | heq
    · obtain ⟨_, hne⟩ := retryAt_below c p j hp hlt
      simp only [backoff, logError_not_max c u _ hne, nextRetry_retryAt c hle]
      rw [ih (j + 1) u (by omega) hu]
      have : j + 1 + L = j + (L + 1) := by omega
      rw [this]
    · subst heq
      simp only [backoff, retryAt_reach c j hp, logError_many_at_max c hn, nextRetry_zero]
      rw [← retryAt_zero c hle, ih 0 _ (Nat.zero_le _) (Nat.mod_lt _ (by omega))]
      have h3 : (j + (L + 1)) % (j + 1) = (0 + L) % (j + 1) := by
        have : j + (L + 1) = L + (j + 1) := by omega
        rw [this, Nat.add_mod_right, Nat.zero_add]
      have h4 : j + (L + 1) = j + 1 + L := by omega
      rw [urlMany_shift, h3, h4]

theorem sleepMany_shift (c : Cfg) (p i : Nat) : sleepMany c p (0 + i) = sleepMany c p (p + 1 + i) := by
  have : (p + 1 + i) % (p + 1) = i % (p + 1) := by
    rw [Nat.add_comm, Nat.add_mod_right]
  simp only [sleepMany, Nat.zero_add, this]

theorem sleepsFrom_many (c : Cfg) (p : Nat) (hp : Reaches c p) (hle : c.initRetry ≤ c.maxRetry)
    (hn : 1 < c.nUrls) :
    ∀ L j u, j ≤ p → sleepsFrom c L u (retryAt c j) = tabFrom (sleepMany c p) j L := by
  intro L
  induction L with
  | zero => intros; rfl
  | succ L ih =>
    intro j u hj
    have hmod : j % (p + 1) = j := Nat.mod_eq_of_lt (by omega)
    rw [tabFrom_succ]
    rcases Nat.lt_or_eq_of_le hj with hlt | heq
    · obtain ⟨hval, hne⟩ := retryAt_below c p j hp hlt
      simp only [sleepsFrom, logError_not_max c u _ hne, nextRetry_retryAt c hle]
      rw [ih (j + 1) u (by omega)]
      have : sleepMany c p j = retryAt c j := by
        simp only [sleepMany, hmod, hval]; rw [if_neg (by omega)]
      rw [this]
    · subst heq
      simp only [sleepsFrom, retryAt_reach c j hp, logError_many_at_max c hn, nextRetry_zero]
      rw [← retryAt_zero c hle, ih 0 _ (Nat.zero_le _)]
      have : sleepMany c j j = 0 := by simp [sleepMany, hmod]
      rw [this, tabFrom_congr _ _ 0 (j + 1) L (sleepMany_shift c j)]

theorem contactedFrom_many (c : Cfg) (p : Nat) (hp : Reaches c p) (hle : c.initRetry ≤ c.maxRetry)
    (hn : 1 < c.nUrls) :
    ∀ L j u, j ≤ p → u < c.nUrls →
      contactedFrom c L u (retryAt c j) = tabFrom (fun m => urlMany c p u (j + m)) 0 L := by
  intro L
  induction L with
  | zero => intros; rfl
  | succ L ih =>
    intro j u hj hu
    have h1 : j / (p + 1) = 0 := Nat.div_eq_of_lt (by omega)
    rw [tabFrom_succ]
    have hhead : urlMany c p u (j + 0) = u := by
      simp [urlMany, h1, Nat.mod_eq_of_lt hu]
    rw [hhead]
    rcases Nat.lt_or_eq_of_le hj with hlt | heq
    · obtain ⟨_, hne⟩ := retryAt_below c p j hp hlt
      simp only [contactedFrom, logError_not_max c u _ hne, nextRetry_retryAt c hle]
      rw [ih (j + 1) u (by omega) hu]
      congr 1
      apply tabFrom_congr
      intro i
      have : j + 1 + (0 + i) = j + (0 + 1 + i) := by omega
      rw [this]
    · subst heq
      simp only [contactedFrom, retryAt_reach c j hp, logError_many_at_max c hn, nextRetry_zero]
      rw [← retryAt_zero c hle, ih 0 _ (Nat.zero_le _) (Nat.mod_lt _ (by omega))]
      congr 1
      apply tabFrom_congr
      intro i
      have h := urlMany_shift c j u i
      have h5 : j + (0 + 1 + i) = j + 1 + i := by omega
      rw [h5, ← h]
      simp

/-! ### closed forms, a single URL: no fail-over, the retry time saturates -/

theorem backoff_single (c : Cfg) (hle : c.initRetry ≤ c.maxRetry) (hn : ¬ 1 < c.nUrls) :
    ∀ L j u, backoff c L u (retryAt c j) = (u, retryAt c (j + L)) := by
  intro L
  induction L with
  | zero => intros; rfl
  | succ L ih =>
    intro j u
    simp only [backoff, logError_single c hn, nextRetry_retryAt c hle]
    rw [ih (j + 1) u]
    have : j + 1 + L = j + (L + 1) := by omega
    rw [this]

theorem sleepsFrom_single (c : Cfg) (hle : c.initRetry ≤ c.maxRetry) (hn : ¬ 1 < c.nUrls) :
    ∀ L j u, sleepsFrom c L u (retryAt c j) = tabFrom (retryAt c) j L := by
  intro L
  induction L with
  | zero => intros; rfl
  | succ L ih =>
    intro j u
    simp only [sleepsFrom, logError_single c hn, nextRetry_retryAt c hle]
    rw [ih (j + 1) u, tabFrom_succ]

theorem contactedFrom_single (c : Cfg) (hle : c.initRetry ≤ c.maxRetry) (hn : ¬ 1 < c.nUrls) :
    ∀ L j u, contactedFrom c L u (retryAt c j) = tabFrom (fun _ => u) 0 L := by
  intro L
  induction L with
  | zero => intros; rfl
  | succ L ih =>
    intro j u
    simp only [contactedFrom, logError_single c hn, nextRetry_retryAt c hle]
    rw [ih (j + 1) u, tabFrom_succ]
    congr 1

/-! ### the number of doublings -/

/-- least `j` with `max ≤ r * 2 ^ j` (for `0 < r`) -/
def doublings (mx r : Nat) : Nat :=
  if _h : 0 < r ∧ r < mx then doublings mx (2 * r) + 1 else 0
termination_by mx - r
decreasing_by omega

theorem doublings_spec (mx : Nat) : ∀ (n r : Nat), mx - r ≤ n → 0 < r →
    mx ≤ r * 2 ^ doublings mx r ∧ ∀ j, j < doublings mx r → r * 2 ^ j < mx := by
  intro n
  induction n with
  | zero =>
    intro r hn hr
    rw [doublings]
    have : ¬ (0 < r ∧ r < mx) := by omega
    simp only [this, dite_false]
    refine ⟨by simp; omega, by intro j hj; omega⟩
  | succ n ih =>
    intro r hn hr
    rw [doublings]
    by_cases h : 0 < r ∧ r < mx
    · simp only [h, and_self, dite_true]
      obtain ⟨h1, h2⟩ := ih (2 * r) (by omega) (by omega)
      refine ⟨?_, ?_⟩
      · have : r * 2 ^ (doublings mx (2 * r) + 1) = 2 * r * 2 ^ doublings mx (2 * r) := by
          rw [Nat.pow_succ, Nat.mul_comm (2 ^ _) 2, ← Nat.mul_assoc, Nat.mul_comm r 2]
        rw [this]; exact h1
      · intro j hj
        cases j with
        | zero => simp; omega
        | succ j =>
          have : r * 2 ^ (j + 1) = 2 * r * 2 ^ j := by
            rw [Nat.pow_succ, Nat.mul_comm (2 ^ _) 2, ← Nat.mul_assoc, Nat.mul_comm r 2]
          rw [this]; exact h2 j (by omega)
    · simp only [h, dite_false]
      refine ⟨by simp; omega, by intro j hj; omega⟩

theorem reaches_doublings (c : Cfg) (hinit : 0 < c.initRetry) :
    Reaches c (doublings c.maxRetry c.initRetry) := by
  obtain ⟨h1, h2⟩ := doublings_spec c.maxRetry (c.maxRetry - c.initRetry) c.initRetry (Nat.le_refl _) hinit
  exact ⟨h1, h2⟩

/-- `Reaches` determines `p` -/
theorem reaches_unique (c : Cfg) (p q : Nat) (hp : Reaches c p) (hq : Reaches c q) : p = q := by
  rcases Nat.lt_trichotomy p q with h | h | h
  · have := hq.below p h; have := hp.reach; omega
  · exact h
  · have := hp.below q h; have := hq.reach; omega

end EV.Daemon

import EV.Proofs.SpecFacts
import EV.Proofs.IndexObs
import EV.Proofs.IndexUndo

/-!
Whole-run refinement of the index: for every sequence of `advance_block`s of valid blocks and
flushes (history-only or full, anywhere), the concrete system (`EV/Model/Index.lean`) stays in the
invariant `FullInv` that ties every component to the specification of the chain so far
(`specChain`): the UTXO representation (`RepSys`), the history (`HistInv`), the tx-number files and
in-memory tables (`FilesInv`), tip and counters.  On a fully flushed state the read path
(`all_utxos`, `limited_history`, counts) answers exactly what the specification says.

  part 1  file / tx-table layer (`cumCounts`, `allTxids`, `FilesInv`, `resolve_of_files`, bisect)
  part 2  `FullInv`, `fullInv_init`, `fullInv_advance`, `fullInv_flush`
  part 3  `runOps`, `C01_run`, `C01_observables`, `C01_run_observables`

Core only.
-/
namespace EV.Index
open EV.Spec

/-! ## part 1: files and the tx table -/

/-! ### generic list facts -/

theorem snoc_induction {α : Type} {P : List α → Prop} (hnil : P [])
    (hsnoc : ∀ l a, P l → P (l ++ [a])) : ∀ l, P l := by
  intro l
  have : ∀ r : List α, P r.reverse := by
    intro r
    induction r with
    | nil => exact hnil
    | cons a r ih => rw [List.reverse_cons]; exact hsnoc _ _ ih
  have h := this l.reverse
  rwa [List.reverse_reverse] at h

/-! ### `bisect_right` -/

theorem bisectRight_le (cs : List Nat) (n : Nat) : bisectRight cs n ≤ cs.length := by
  induction cs with
  | nil => simp [bisectRight]
  | cons c cs ih =>
    simp only [bisectRight, List.length_cons]
    split <;> omega

/-- an entry above `n` stops the scan: what follows does not matter -/
theorem bisectRight_append_of_gt {cs : List Nat} {n : Nat} (h : ∃ c ∈ cs, n < c) (ds : List Nat) :
    bisectRight (cs ++ ds) n = bisectRight cs n ∧ bisectRight cs n < cs.length := by
  induction cs with
  | nil => simp at h
  | cons c cs ih =>
    simp only [List.cons_append, bisectRight, List.length_cons]
    by_cases hc : c ≤ n
    · simp only [hc, if_true]
      obtain ⟨x, hx, hnx⟩ := h
      have : ∃ c ∈ cs, n < c := by
        rcases List.mem_cons.mp hx with rfl | hx
        · omega
        · exact ⟨x, hx, hnx⟩
      obtain ⟨h1, h2⟩ := ih this
      exact ⟨by rw [h1], by omega⟩
    · simp [hc]

theorem bisectRight_append_of_le {cs : List Nat} {n : Nat} (h : ∀ c ∈ cs, c ≤ n) (ds : List Nat) :
    bisectRight (cs ++ ds) n = cs.length + bisectRight ds n := by
  induction cs with
  | nil => simp
  | cons c cs ih =>
    simp only [List.cons_append, bisectRight, List.length_cons]
    rw [if_pos (h c (by simp)), ih (fun x hx => h x (List.mem_cons_of_mem _ hx))]
    omega

/-- where the scan stops inside the list, the entry there is above `n` -/
theorem bisectRight_stop {cs : List Nat} {n : Nat} (h : bisectRight cs n < cs.length) :
    ∃ c, cs[bisectRight cs n]? = some c ∧ n < c := by
  induction cs with
  | nil => simp at h
  | cons c cs ih =>
    simp only [bisectRight, List.length_cons] at h ⊢
    by_cases hc : c ≤ n
    · simp only [hc, if_true] at h ⊢
      obtain ⟨x, h1, h2⟩ := ih (by omega)
      refine ⟨x, ?_, h2⟩
      rw [Nat.add_comm, List.getElem?_cons_succ]; exact h1
    · simp only [hc, if_false]
      exact ⟨c, by simp, by omega⟩

theorem bisectRight_append_of_lt {cs : List Nat} {n : Nat} (h : bisectRight cs n < cs.length)
    (ds : List Nat) : bisectRight (cs ++ ds) n = bisectRight cs n := by
  obtain ⟨c, h1, h2⟩ := bisectRight_stop h
  exact (bisectRight_append_of_gt ⟨c, List.mem_of_getElem? h1, h2⟩ ds).1

/-! ### running totals of the block sizes -/

def cumFrom (acc : Nat) : List Block → List Nat
  | [] => []
  | b :: r => (acc + b.txs.length) :: cumFrom (acc + b.txs.length) r

/-- `DB.tx_counts` of a chain: entry `h` = number of txs in blocks `0..h` -/
def cumCounts (chain : List Block) : List Nat := cumFrom 0 chain

/-- the tx hashes of a chain in tx-number order -/
def allTxids (chain : List Block) : List Hash := chain.flatMap (fun b => b.txs.map (·.id))

@[simp] theorem allTxids_nil : allTxids [] = [] := rfl

theorem allTxids_cons (b : Block) (r : List Block) :
    allTxids (b :: r) = b.txs.map (·.id) ++ allTxids r := by
  simp [allTxids]

theorem allTxids_singleton (b : Block) : allTxids [b] = b.txs.map (·.id) := by
  simp [allTxids]

theorem allTxids_append (a b : List Block) : allTxids (a ++ b) = allTxids a ++ allTxids b := by
  simp [allTxids]

theorem allTxids_flatten (l : List Block) :
    (l.map (fun b => b.txs.map (·.id))).flatten = allTxids l := by
  simp [allTxids, List.flatMap_def]

theorem allTxids_take_le (l : List Block) (k : Nat) :
    (allTxids (l.take k)).length ≤ (allTxids l).length := by
  have := congrArg List.length (allTxids_append (l.take k) (l.drop k))
  rw [List.take_append_drop, List.length_append] at this
  omega

theorem allTxids_take_mono (l : List Block) {j k : Nat} (h : j ≤ k) :
    (allTxids (l.take j)).length ≤ (allTxids (l.take k)).length := by
  have : l.take j = (l.take k).take j := by rw [List.take_take, Nat.min_eq_left h]
  rw [this]; exact allTxids_take_le _ _

theorem cumFrom_length (acc : Nat) (l : List Block) : (cumFrom acc l).length = l.length := by
  induction l generalizing acc with
  | nil => rfl
  | cons b r ih => simp [cumFrom, ih]

theorem cumCounts_length (l : List Block) : (cumCounts l).length = l.length := cumFrom_length 0 l

theorem cumFrom_append (acc : Nat) (a b : List Block) :
    cumFrom acc (a ++ b) = cumFrom acc a ++ cumFrom (acc + (allTxids a).length) b := by
  induction a generalizing acc with
  | nil => simp [cumFrom]
  | cons x a ih =>
    simp only [List.cons_append, cumFrom, ih, allTxids_cons, List.length_append, List.length_map,
      Nat.add_assoc]

theorem cumCounts_snoc (chain : List Block) (b : Block) :
    cumCounts (chain ++ [b]) = cumCounts chain ++ [(allTxids chain).length + b.txs.length] := by
  simp [cumCounts, cumFrom_append, cumFrom]

theorem cumFrom_le (acc : Nat) (l : List Block) : ∀ c ∈ cumFrom acc l, c ≤ acc + (allTxids l).length := by
  induction l generalizing acc with
  | nil => simp [cumFrom]
  | cons b r ih =>
    intro c hc
    simp only [cumFrom, List.mem_cons] at hc
    simp only [allTxids_cons, List.length_append, List.length_map]
    rcases hc with rfl | hc
    · omega
    · have := ih _ c hc; omega

theorem cumFrom_exists_gt (acc : Nat) (l : List Block) {n : Nat} (h0 : acc ≤ n)
    (h : n < acc + (allTxids l).length) : ∃ c ∈ cumFrom acc l, n < c := by
  induction l generalizing acc with
  | nil => simp at h; omega
  | cons b r ih =>
    simp only [allTxids_cons, List.length_append, List.length_map] at h
    by_cases hb : n < acc + b.txs.length
    · exact ⟨_, by simp [cumFrom], hb⟩
    · obtain ⟨c, hc, hn⟩ := ih (acc + b.txs.length) (by omega) (by omega)
      exact ⟨c, by simp [cumFrom, hc], hn⟩

theorem cumFrom_getElem? (acc : Nat) (l : List Block) {k : Nat} (hk : k < l.length) :
    (cumFrom acc l)[k]? = some (acc + (allTxids (l.take (k + 1))).length) := by
  induction l generalizing acc k with
  | nil => simp at hk
  | cons b r ih =>
    cases k with
    | zero => simp [cumFrom, allTxids_cons]
    | succ k =>
      simp only [List.length_cons] at hk
      simp only [cumFrom, List.getElem?_cons_succ, List.take_succ_cons, allTxids_cons,
        List.length_append, List.length_map]
      rw [ih _ (by omega)]
      simp [Nat.add_assoc]

theorem cumCounts_getD (l : List Block) {k : Nat} (hk : k < l.length) :
    (cumCounts l).getD k 0 = (allTxids (l.take (k + 1))).length := by
  rw [List.getD_eq_getElem?_getD, cumCounts, cumFrom_getElem? 0 l hk]
  simp

theorem cumCounts_getLast (l : List Block) :
    (cumCounts l).getLast?.getD 0 = (allTxids l).length := by
  rw [List.getLast?_eq_getElem?, cumCounts_length]
  cases hl : l with
  | nil => simp [cumCounts, cumFrom]
  | cons b r =>
    rw [← hl]
    have hk : l.length - 1 < l.length := by rw [hl]; simp
    rw [cumCounts, cumFrom_getElem? 0 l hk]
    have : l.length - 1 + 1 = l.length := by omega
    simp [this]

theorem cumCounts_take (chain : List Block) (k : Nat) :
    cumCounts chain = cumCounts (chain.take k) ++
      cumFrom ((allTxids (chain.take k)).length) (chain.drop k) := by
  have := cumFrom_append 0 (chain.take k) (chain.drop k)
  rw [List.take_append_drop, Nat.zero_add] at this
  exact this

/-- the height of a tx number below the total of the first `K` blocks is below `K` -/
theorem bisect_lt_of_lt (chain : List Block) {K n : Nat} (hK : K ≤ chain.length)
    (hn : n < (allTxids (chain.take K)).length) :
    bisectRight (cumCounts chain) n < K := by
  rw [cumCounts_take chain K]
  obtain ⟨c, hc, hlt⟩ := cumFrom_exists_gt 0 (chain.take K) (Nat.zero_le n) (by omega)
  obtain ⟨h1, h2⟩ := bisectRight_append_of_gt (cs := cumCounts (chain.take K)) ⟨c, hc, hlt⟩
    (cumFrom ((allTxids (chain.take K)).length) (chain.drop K))
  rw [h1]
  rw [cumCounts_length, List.length_take, Nat.min_eq_left hK] at h2
  exact h2

/-- …and conversely -/
theorem lt_of_bisect_lt (chain : List Block) {K n : Nat} (hK : K ≤ chain.length)
    (hb : bisectRight (cumCounts chain) n < K) : n < (allTxids (chain.take K)).length := by
  have hlt : bisectRight (cumCounts chain) n < (cumCounts chain).length := by
    rw [cumCounts_length]; omega
  obtain ⟨c, h1, h2⟩ := bisectRight_stop hlt
  unfold cumCounts at hb h1
  rw [cumFrom_getElem? 0 chain (by omega)] at h1
  simp only [Nat.zero_add, Option.some.injEq] at h1
  have := allTxids_take_mono chain (j := bisectRight (cumFrom 0 chain) n + 1) (k := K) hb
  omega

/-- **bisect lemma**: for a tx number of the chain, `bisect_right(tx_counts, n)` is the height of
    the block containing it -/
theorem bisect_spec (chain : List Block) {n : Nat} (hn : n < (allTxids chain).length) (h : Nat) :
    bisectRight (cumCounts chain) n = h ↔
      (allTxids (chain.take h)).length ≤ n ∧ n < (allTxids (chain.take (h + 1))).length := by
  have hj : bisectRight (cumCounts chain) n < chain.length :=
    bisect_lt_of_lt chain (Nat.le_refl _) (by rw [List.take_length]; exact hn)
  have hup : n < (allTxids (chain.take (bisectRight (cumCounts chain) n + 1))).length :=
    lt_of_bisect_lt chain (by omega) (Nat.lt_succ_self _)
  have hlo : (allTxids (chain.take (bisectRight (cumCounts chain) n))).length ≤ n := by
    rcases Nat.lt_or_ge n (allTxids (chain.take (bisectRight (cumCounts chain) n))).length with hlt | hge
    · have := bisect_lt_of_lt chain (Nat.le_of_lt hj) hlt
      omega
    · exact hge
  constructor
  · rintro rfl; exact ⟨hlo, hup⟩
  · rintro ⟨h1, h2⟩
    rcases Nat.lt_trichotomy (bisectRight (cumCounts chain) n) h with hlt | heq | hgt
    · have := allTxids_take_mono chain (j := bisectRight (cumCounts chain) n + 1) (k := h) hlt
      omega
    · exact heq
    · have := allTxids_take_mono chain (j := h + 1) (k := bisectRight (cumCounts chain) n) hgt
      omega

/-! ### the specification's tx table -/

theorem specFrom_snoc (act : Nat) (S : St) (h : Nat) (l : List Block) (b : Block) :
    specFrom act S h (l ++ [b]) = applyBlock act (specFrom act S h l) (h + l.length) b := by
  induction l generalizing S h with
  | nil => simp [specFrom]
  | cons x l ih =>
    simp only [List.cons_append, specFrom, ih, List.length_cons]
    congr 1; omega

theorem specChain_snoc (act : Nat) (chain : List Block) (b : Block) :
    specChain act (chain ++ [b]) = applyBlock act (specChain act chain) chain.length b := by
  simp [specChain, specFrom_snoc]

theorem specFrom_txs (act : Nat) (S : St) (h : Nat) (chain : List Block) :
    (specFrom act S h chain).txs =
      S.txs ++ (chain.zipIdx h).flatMap (fun (b, h) => b.txs.map (fun t => (t.id, h))) := by
  induction chain generalizing S h with
  | nil => simp [specFrom]
  | cons b r ih =>
    simp only [specFrom, ih, applyBlock, foldl_txs, List.zipIdx_cons, List.flatMap_cons,
      List.append_assoc]

/-- the spec's tx table: the txs of block `h` in order, each tagged with `h` -/
theorem specChain_txs (act : Nat) (chain : List Block) :
    (specChain act chain).txs =
      chain.zipIdx.flatMap (fun (b, h) => b.txs.map (fun t => (t.id, h))) := by
  rw [specChain, specFrom_txs]; rfl

theorem specChain_txs_snoc (act : Nat) (chain : List Block) (b : Block) :
    (specChain act (chain ++ [b])).txs =
      (specChain act chain).txs ++ b.txs.map (fun t => (t.id, chain.length)) := by
  rw [specChain_snoc, applyBlock, foldl_txs]

theorem specChain_txids (act : Nat) (chain : List Block) :
    (specChain act chain).txs.map (·.1) = allTxids chain := by
  induction chain using snoc_induction with
  | hnil => rfl
  | hsnoc l b ih =>
    rw [specChain_txs_snoc, List.map_append, ih, allTxids_append]
    simp [allTxids]

theorem specChain_txs_length (act : Nat) (chain : List Block) :
    (specChain act chain).txs.length = (allTxids chain).length := by
  rw [← specChain_txids act chain, List.length_map]

/-- entry `n` of the spec's tx table: the `n`-th tx hash of the chain and the height
    `bisect_right(tx_counts, n)` -/
theorem spec_txs_get (act : Nat) (chain : List Block) :
    ∀ n, n < (allTxids chain).length →
      (specChain act chain).txs[n]? =
        some ((allTxids chain).getD n 0, bisectRight (cumCounts chain) n) := by
  induction chain using snoc_induction with
  | hnil => intro n hn; simp at hn
  | hsnoc l b ih =>
    intro n hn
    rw [specChain_txs_snoc, cumCounts_snoc, allTxids_append]
    by_cases hlt : n < (allTxids l).length
    · rw [List.getElem?_append_left (by rw [specChain_txs_length]; exact hlt), ih n hlt]
      have hb := bisect_lt_of_lt l (K := l.length) (Nat.le_refl _) (by rw [List.take_length]; exact hlt)
      rw [bisectRight_append_of_lt (by rw [cumCounts_length]; exact hb)]
      rw [List.getD_eq_getElem?_getD, List.getD_eq_getElem?_getD, List.getElem?_append_left hlt]
    · have hge : (allTxids l).length ≤ n := by omega
      rw [allTxids_append, List.length_append] at hn
      have hb : (allTxids [b]).length = b.txs.length := by simp [allTxids]
      rw [List.getElem?_append_right (by rw [specChain_txs_length]; exact hge), specChain_txs_length]
      rw [bisectRight_append_of_le (by
        intro c hc
        have := cumFrom_le 0 l c hc
        omega)]
      rw [List.getD_eq_getElem?_getD, List.getElem?_append_right hge]
      have hidx : n - (allTxids l).length < b.txs.length := by omega
      have hnot : ¬ (allTxids l).length + b.txs.length ≤ n := by omega
      rw [allTxids_singleton]
      simp only [List.getElem?_map, cumCounts_length, bisectRight, hnot, if_false,
        List.getElem?_eq_getElem hidx]
      simp

/-! ### `fs_tx_hash` -/

theorem resolve_eq (s : Sys) (n : Nat) :
    resolve s n =
      if (bisectRight s.m.txCounts n : Int) > s.m.dbst.height then none else s.p.hashes[n]? := by
  simp only [resolve, fsTxHash]
  split <;> rfl

theorem fsTxHash_eq (s : Sys) (n : Nat) :
    fsTxHash s n = (resolve s n, bisectRight s.m.txCounts n) := by
  simp only [resolve, fsTxHash]
  split <;> rfl

/-! ### file writes -/

theorem fileWrite_getElem?_lt {α : Type} (file : List α) (off : Nat) (data : List α) {n : Nat}
    (h1 : n < off) (h2 : n < file.length) : (fileWrite file off data)[n]? = file[n]? := by
  unfold fileWrite
  rw [List.append_assoc, List.getElem?_append_left (by rw [List.length_take]; omega),
    List.getElem?_take_of_lt h1]

/-- writing at the end of a committed prefix extends the committed prefix by the data -/
theorem fileWrite_take {α : Type} (file : List α) (off : Nat) (data pre : List α)
    (h : file.take off = pre) (hl : pre.length = off) :
    (fileWrite file off data).take (off + data.length) = pre ++ data := by
  unfold fileWrite
  rw [h, List.take_append_of_le_length (by simp [hl])]
  rw [List.take_of_length_le (by simp [hl])]

/-! ### the file invariant -/

/-- The tx-number tables and the three meta files agree with the chain: `tx_counts` are the running
totals, the files hold the headers / counts / tx hashes of the blocks up to `fs_height` in their
committed prefix (anything may lie beyond), the unflushed lists hold the rest. -/
structure FilesInv (chain : List Block) (s : Sys) : Prop where
  txCounts : s.m.txCounts = cumCounts chain
  height : s.m.st.height = (chain.length : Int) - 1
  order : -1 ≤ s.m.dbst.height ∧ s.m.dbst.height ≤ s.m.fsHeight ∧ s.m.fsHeight ≤ s.m.st.height
  fsTx : s.m.fsTxCount = (allTxids (chain.take (s.m.fsHeight + 1).toNat)).length
  stTx : s.m.st.txCount = (allTxids chain).length
  dbTx : s.m.dbst.txCount = (allTxids (chain.take (s.m.dbst.height + 1).toNat)).length
  hashes : s.p.hashes.take s.m.fsTxCount = (allTxids chain).take s.m.fsTxCount
  hashesU : s.m.txHashesU = (chain.drop (s.m.fsHeight + 1).toNat).map (fun b => b.txs.map (·.id))
  headersU : s.m.headersU = (chain.drop (s.m.fsHeight + 1).toNat).map (·.header)
  headers : s.p.headers.take (s.m.fsHeight + 1).toNat =
              (chain.take (s.m.fsHeight + 1).toNat).map (·.header)
  txcountsFile : s.p.txcounts.take (s.m.fsHeight + 1).toNat =
              (cumCounts chain).take (s.m.fsHeight + 1).toNat

theorem filesInv_init : FilesInv [] {} where
  txCounts := rfl
  height := rfl
  order := by decide
  fsTx := rfl
  stTx := rfl
  dbTx := rfl
  hashes := rfl
  hashesU := rfl
  headersU := rfl
  headers := rfl
  txcountsFile := rfl

theorem FilesInv.fsK {chain : List Block} {s : Sys} (f : FilesInv chain s) :
    (s.m.fsHeight + 1).toNat ≤ chain.length := by
  have := f.order; have := f.height; omega

theorem FilesInv.dbK {chain : List Block} {s : Sys} (f : FilesInv chain s) :
    (s.m.dbst.height + 1).toNat ≤ chain.length := by
  have := f.order; have := f.height; omega

theorem FilesInv.fsTx_le {chain : List Block} {s : Sys} (f : FilesInv chain s) :
    s.m.fsTxCount ≤ (allTxids chain).length := by
  rw [f.fsTx]; exact allTxids_take_le _ _

/-- the committed tx numbers resolve to the chain's tx hashes -/
theorem resolve_of_files {chain : List Block} {s : Sys} (f : FilesInv chain s) {n : Nat}
    (hn : n < (allTxids (chain.take (s.m.dbst.height + 1).toNat)).length) :
    resolve s n = some ((allTxids chain).getD n 0) := by
  have hb := bisect_lt_of_lt chain f.dbK hn
  have hfs : n < s.m.fsTxCount := by
    rw [f.fsTx]
    have := allTxids_take_mono chain (j := (s.m.dbst.height + 1).toNat)
      (k := (s.m.fsHeight + 1).toNat) (by have := f.order; omega)
    omega
  have hlen := f.fsTx_le
  rw [resolve_eq, f.txCounts, if_neg (by have := f.order; omega)]
  have h1 : s.p.hashes[n]? = (s.p.hashes.take s.m.fsTxCount)[n]? := by
    rw [List.getElem?_take_of_lt hfs]
  rw [h1, f.hashes, List.getElem?_take_of_lt hfs, List.getD_eq_getElem?_getD,
    List.getElem?_eq_getElem (by omega)]
  simp

/-- only committed tx numbers resolve (`dbResolves`: derivable, so not a clause of the invariant) -/
theorem resolve_some_lt {chain : List Block} {s : Sys} (f : FilesInv chain s) {n : Nat} {x : Hash}
    (h : resolve s n = some x) :
    n < (allTxids (chain.take (s.m.dbst.height + 1).toNat)).length := by
  rw [resolve_eq] at h
  split at h
  · simp at h
  · next hnot =>
    apply lt_of_bisect_lt chain f.dbK
    rw [← f.txCounts]
    have := f.order
    omega

/-- the hash a resolvable tx number resolves to is the chain's -/
theorem resolve_some_eq {chain : List Block} {s : Sys} (f : FilesInv chain s) {n : Nat} {x : Hash}
    (h : resolve s n = some x) : x = (allTxids chain).getD n 0 := by
  have := resolve_of_files f (resolve_some_lt f h)
  rw [h] at this
  exact Option.some.inj this

/-- height of a spec tx = `bisect_right(tx_counts, n)` -/
theorem spec_height_eq_bisect (act : Nat) (chain : List Block) {n : Nat} {id : Hash} {h : Nat}
    (hs : (specChain act chain).txs[n]? = some (id, h)) :
    id = (allTxids chain).getD n 0 ∧ h = bisectRight (cumCounts chain) n := by
  have hlt : n < (allTxids chain).length := by
    rw [← specChain_txs_length act]
    exact (List.getElem?_eq_some_iff.mp hs).1
  rw [spec_txs_get act chain n hlt] at hs
  simp only [Option.some.injEq, Prod.mk.injEq] at hs
  exact ⟨hs.1.symm, hs.2.symm⟩

/-! ## part 2: the full invariant -/

/-! ### what `RepSysW` and `HistInv` depend on -/

/-- `RepSysW` mentions only the `h`/`u` rows, the cache, the delete queue and `resolve` on the
    resident tx numbers -/
theorem repSysW_congr {s s' : Sys} {U D Del : List Utxo} (w : RepSysW s U D Del)
    (hh : s'.p.h = s.p.h) (hu : s'.p.u = s.p.u) (hc : s'.m.cache = s.m.cache)
    (hd : s'.m.deletes = s.m.deletes)
    (hr : ∀ u ∈ D, resolve s' u.txnum = some u.txid) : RepSysW s' U D Del where
  uNodup := w.uNodup
  dNodup := w.dNodup
  hRows := by rw [hh]; exact w.hRows
  uRows := by rw [hu]; exact w.uRows
  hKeys := by rw [hh]; exact w.hKeys
  uKeys := by rw [hu]; exact w.uKeys
  cacheKeys := by rw [hc]; exact w.cacheKeys
  res := hr
  delSub := w.delSub
  dels := by rw [hd]; exact w.dels
  inU := by rw [hc]; exact w.inU
  cacheU := by rw [hc]; exact w.cacheU
  dbU := by rw [hc]; exact w.dbU

/-- `HistInv` mentions only the history table of the store -/
theorem histInv_congr {S : St} {p p' : Store} {unf : List (HashX × List Nat)} {fc : Nat}
    (h : HistInv S p unf fc) (hh : p'.hist = p.hist) : HistInv S p' unf fc := by
  refine ⟨by rw [hh]; exact h.wf, h.unfKeys, ?_⟩
  intro hx
  have := h.eq hx
  simp only [getTxnums] at this ⊢
  rw [hh]; exact this

/-- extending `tx_counts` does not change what already resolves -/
theorem resolve_txCounts_append {s s' : Sys} {x : List Nat}
    (hc : s'.m.txCounts = s.m.txCounts ++ x) (hd : s'.m.dbst.height = s.m.dbst.height)
    (hh : s'.p.hashes = s.p.hashes) (hlen : s.m.dbst.height < s.m.txCounts.length)
    {n : Nat} {id : Hash} (h : resolve s n = some id) : resolve s' n = some id := by
  rw [resolve_eq] at h ⊢
  split at h
  · simp at h
  · next hnot =>
    rw [hc, hd, hh, bisectRight_append_of_lt (by omega), if_neg hnot]
    exact h

/-! ### the block loop touches only the cache and the delete queue -/

/-- `s'` differs from `s` at most in the UTXO cache and the delete queue -/
def SameBut (s s' : Sys) : Prop :=
  ∃ c d, s' = { s with m := { s.m with cache := c, deletes := d } }

theorem SameBut.refl (s : Sys) : SameBut s s := ⟨s.m.cache, s.m.deletes, rfl⟩

theorem SameBut.trans {s s1 s2 : Sys} (h1 : SameBut s s1) (h2 : SameBut s1 s2) : SameBut s s2 := by
  obtain ⟨c1, d1, rfl⟩ := h1
  obtain ⟨c2, d2, rfl⟩ := h2
  exact ⟨c2, d2, rfl⟩

theorem spendUtxo_same {s s' : Sys} {t : Hash} {i : Nat} {cv : CacheVal}
    (h : spendUtxo s t i = .ok (cv, s')) : SameBut s s' := by
  unfold spendUtxo at h
  split at h
  · simp only [Except.ok.injEq, Prod.mk.injEq] at h
    obtain ⟨_, rfl⟩ := h
    exact ⟨_, _, rfl⟩
  · split at h
    · simp at h
    · simp only [Except.ok.injEq, Prod.mk.injEq] at h
      obtain ⟨_, rfl⟩ := h
      exact ⟨_, _, rfl⟩
    · simp at h

theorem spendInputs_same (ins : List TxIn) (a : Acc Sys) (hxs : List HashX) {a' : Acc Sys}
    {hxs' : List HashX} (h : spendInputs sysOps ins a hxs = .ok (a', hxs')) : SameBut a.s a'.s := by
  induction ins generalizing a hxs with
  | nil =>
    simp only [spendInputs, Except.ok.injEq, Prod.mk.injEq] at h
    obtain ⟨rfl, _⟩ := h
    exact SameBut.refl _
  | cons i r ih =>
    simp only [spendInputs] at h
    split at h
    · exact ih _ _ h
    · split at h
      · simp at h
      · next cv s1 hs =>
        exact (spendUtxo_same (s := a.s) hs).trans (ih _ _ h)

theorem addOutputs_same (cfg : Cfg) (height : Nat) (txid : Hash) (txNum : Nat) (outs : List TxOut)
    (idx : Nat) (a : Acc Sys) (hxs : List HashX) :
    SameBut a.s (addOutputs sysOps cfg height txid txNum outs idx a hxs).1.s := by
  induction outs generalizing idx a hxs with
  | nil => exact SameBut.refl _
  | cons o r ih =>
    simp only [addOutputs]
    split
    · exact ih _ _ _
    · exact SameBut.trans ⟨_, _, rfl⟩ (ih _ _ _)

theorem advanceTxs_same (cfg : Cfg) (height : Nat) (txs : List Tx) (a : Acc Sys) {a' : Acc Sys}
    (h : advanceTxs sysOps cfg height txs a = .ok a') : SameBut a.s a'.s := by
  induction txs generalizing a with
  | nil =>
    simp only [advanceTxs, Except.ok.injEq] at h
    subst h
    exact SameBut.refl _
  | cons tx r ih =>
    simp only [advanceTxs] at h
    split at h
    · simp at h
    · next a1 hxs1 hs =>
      have h1 := spendInputs_same _ _ _ hs
      have h2 := addOutputs_same cfg height tx.id a1.txNum tx.outs 0 a1 hxs1
      have h3 := ih _ h
      exact h1.trans (h2.trans h3)

/-- what `advance_block` leaves behind, in terms of the result `a` of the tx loop -/
structure AdvanceOut (s : Sys) (b : Block) (a : Acc Sys) (s' : Sys) : Prop where
  p : s'.p = s.p
  cache : s'.m.cache = a.s.m.cache
  deletes : s'.m.deletes = a.s.m.deletes
  dbst : s'.m.dbst = s.m.dbst
  fsHeight : s'.m.fsHeight = s.m.fsHeight
  fsTxCount : s'.m.fsTxCount = s.m.fsTxCount
  histFlush : s'.m.histFlush = s.m.histFlush
  txCounts : s'.m.txCounts = s.m.txCounts ++ [a.txNum]
  txHashesU : s'.m.txHashesU = s.m.txHashesU ++ [a.txHashes]
  headersU : s'.m.headersU = s.m.headersU ++ [b.header]
  unflushed : s'.m.unflushed = addUnflushed s.m.unflushed a.hashXsByTx s.m.st.txCount
  height : s'.m.st.height = ((s.m.st.height + 1).toNat : Int)
  tip : s'.m.st.tip = b.hash
  txCount : s'.m.st.txCount = a.txNum
  utxoCount : s'.m.st.utxoCount = s.m.st.utxoCount + a.delta

theorem advance_ok {cfg : Cfg} {daemonH : Int} {s : Sys} {b : Block} {a : Acc Sys}
    (hprev : b.prev = s.m.st.tip)
    (ha : advanceTxs sysOps cfg (s.m.st.height + 1).toNat b.txs
            { s := s, txNum := s.m.st.txCount } = .ok a) :
    ∃ s', advance cfg daemonH s b = .ok s' ∧ AdvanceOut s b a s' := by
  obtain ⟨c, d, hs⟩ := advanceTxs_same _ _ _ _ ha
  simp only at hs
  unfold advance
  simp only [hprev, ne_eq, not_true_eq_false, if_false, ha]
  refine ⟨_, rfl, ?_⟩
  constructor <;> simp [hs]

/-! ### the file invariant under `advance_block` -/

theorem filesInv_advance {chain : List Block} {s s' : Sys} {b : Block} (f : FilesInv chain s)
    (hp : s'.p = s.p) (hdb : s'.m.dbst = s.m.dbst) (hfh : s'.m.fsHeight = s.m.fsHeight)
    (hft : s'.m.fsTxCount = s.m.fsTxCount)
    (htc : s'.m.txCounts = s.m.txCounts ++ [s.m.st.txCount + b.txs.length])
    (hh : s'.m.st.height = ((s.m.st.height + 1).toNat : Int))
    (htx : s'.m.st.txCount = s.m.st.txCount + b.txs.length)
    (hhu : s'.m.txHashesU = s.m.txHashesU ++ [b.txs.map (·.id)])
    (hhd : s'.m.headersU = s.m.headersU ++ [b.header]) : FilesInv (chain ++ [b]) s' := by
  have hK := f.fsK
  have hD := f.dbK
  have hord := f.order
  have hht := f.height
  have htakeK : (chain ++ [b]).take (s.m.fsHeight + 1).toNat = chain.take (s.m.fsHeight + 1).toNat :=
    List.take_append_of_le_length hK
  have hdropK : (chain ++ [b]).drop (s.m.fsHeight + 1).toNat =
      chain.drop (s.m.fsHeight + 1).toNat ++ [b] := List.drop_append_of_le_length hK
  exact {
    txCounts := by rw [htc, f.txCounts, f.stTx, cumCounts_snoc]
    height := by rw [hh, List.length_append]; simp; omega
    order := by rw [hdb, hfh, hh]; omega
    fsTx := by rw [hft, hfh, htakeK]; exact f.fsTx
    stTx := by rw [htx, f.stTx, allTxids_append, allTxids_singleton]; simp
    dbTx := by rw [hdb, List.take_append_of_le_length hD]; exact f.dbTx
    hashes := by
      rw [hp, hft, allTxids_append, List.take_append_of_le_length f.fsTx_le]; exact f.hashes
    hashesU := by rw [hhu, hfh, hdropK, f.hashesU]; simp
    headersU := by rw [hhd, hfh, hdropK, f.headersU]; simp
    headers := by rw [hp, hfh, htakeK]; exact f.headers
    txcountsFile := by
      rw [hp, hfh, cumCounts_snoc,
        List.take_append_of_le_length (by rw [cumCounts_length]; exact hK)]
      exact f.txcountsFile }

/-! ### the invariant -/

/-- the UTXO count follows the size of the specification's UTXO set -/
theorem utxos_length_foldl (act height : Nat) (S : St) (txs : List Tx) :
    ((txs.foldl (applyTx act height) S).utxos.length : Int) =
      (S.utxos.length : Int) + blockDelta act height S txs := by
  induction txs generalizing S with
  | nil => simp [blockDelta]
  | cons tx r ih =>
    rw [List.foldl_cons, ih, blockDelta, applyTx_eq]
    have hp := (spendAll_perm S.utxos tx.ins).length_eq
    simp only [List.length_append] at hp ⊢
    omega

/-- **The whole-system invariant**: every component of the concrete index is tied to the
specification of the chain indexed so far. -/
structure FullInv (cfg : Cfg) (chain : List Block) (s : Sys) : Prop where
  /-- cache + rows + queued deletes represent the spec's UTXO set -/
  rep : RepSys s (specChain cfg.act chain).utxos
  /-- history rows + unflushed tail are the spec's histories -/
  hist : HistInv (specChain cfg.act chain) s.p s.m.unflushed s.m.histFlush
  /-- tx-number tables and meta files -/
  files : FilesInv chain s
  tip : s.m.st.tip = (chain.getLast?.map (·.hash)).getD 0
  /-- `DB.state.tip` is the tip at the last UTXO flush -/
  dbTip : s.m.dbst.tip =
    ((chain.take (s.m.dbst.height + 1).toNat).getLast?.map (·.hash)).getD 0
  utxoCount : s.m.st.utxoCount = ((specChain cfg.act chain).utxos.length : Int)
  /-- nothing is pending for the UTXO DB when it is at the tip (`assert_flushed`) -/
  flushedU : s.m.dbst.height = s.m.st.height →
    s.m.cache = [] ∧ s.m.deletes = [] ∧ s.m.undoU = []
  /-- no unflushed history when the files are at the tip -/
  flushedH : s.m.fsHeight = s.m.st.height → s.m.unflushed = []
  /-- the persisted UTXO state record is `DB.state` (absent before the first UTXO flush) -/
  ustate : (s.p.ustate = none ∧ s.m.dbst = {}) ∨ s.p.ustate = some s.m.dbst

theorem repSys_init : RepSys {} [] :=
  ⟨[], [], { uNodup := by simp, dNodup := by simp, hRows := by simp, uRows := by simp,
             hKeys := by simp, uKeys := by simp, cacheKeys := by simp, res := by simp,
             delSub := by simp, dels := by simp, inU := by simp,
             cacheU := by intro op cv h; simp at h, dbU := by simp }⟩

/-- the empty index satisfies the invariant for the empty chain -/
theorem fullInv_init (cfg : Cfg) : FullInv cfg [] {} where
  rep := repSys_init
  hist := histInv_init
  files := filesInv_init
  tip := rfl
  dbTip := rfl
  utxoCount := rfl
  flushedU := fun _ => ⟨rfl, rfl, rfl⟩
  flushedH := fun _ => rfl
  ustate := Or.inl ⟨rfl, rfl⟩

/-- a valid next block: links to the tip and its transactions are valid on the spec state -/
def ValidNext (cfg : Cfg) (chain : List Block) (b : Block) : Prop :=
  b.prev = (chain.getLast?.map (·.hash)).getD 0 ∧
  ValidTxs cfg.act chain.length (specChain cfg.act chain) b.txs

/-- **`advance_block` preserves the invariant** (and cannot fail on a valid next block). -/
theorem fullInv_advance {cfg : Cfg} {daemonH : Int} {chain : List Block} {s : Sys} {b : Block}
    (inv : FullInv cfg chain s) (hv : ValidNext cfg chain b) :
    ∃ s', advance cfg daemonH s b = .ok s' ∧ FullInv cfg (chain ++ [b]) s' := by
  have f := inv.files
  have hheight : (s.m.st.height + 1).toNat = chain.length := by have := f.height; omega
  have hn : s.m.st.txCount = (specChain cfg.act chain).txs.length := by
    rw [f.stTx, specChain_txs_length]
  obtain ⟨a, ha, hrep', htxnum, hhx, hth, -, hdelta, -⟩ :=
    advanceTxs_spec sysIface cfg chain.length b.txs (specChain cfg.act chain)
      { s := s, txNum := s.m.st.txCount } inv.rep hn hv.2
  rw [← hheight] at ha
  have hsame := advanceTxs_same _ _ _ _ ha
  obtain ⟨c, d, hs⟩ := hsame
  simp only at hs
  obtain ⟨s', hadv, o⟩ := advance_ok (daemonH := daemonH) (hv.1.trans inv.tip.symm) ha
  refine ⟨s', hadv, ?_⟩
  have hspec : specChain cfg.act (chain ++ [b]) =
      b.txs.foldl (applyTx cfg.act chain.length) (specChain cfg.act chain) := by
    rw [specChain_snoc]; rfl
  have htx : a.txNum = s.m.st.txCount + b.txs.length := by rw [htxnum, hn]
  have hord := f.order
  have hht := f.height
  exact {
    rep := by
      rw [hspec]
      obtain ⟨D, Del, w⟩ := hrep'
      refine ⟨D, Del, repSysW_congr w (by rw [o.p, hs]) (by rw [o.p, hs]) o.cache o.deletes ?_⟩
      intro u hu
      have hres := w.res u hu
      refine resolve_txCounts_append (s := a.s) (x := [a.txNum]) ?_ ?_ ?_ ?_ hres
      · rw [o.txCounts, hs]
      · rw [o.dbst, hs]
      · rw [o.p, hs]
      · rw [hs]
        show s.m.dbst.height < (s.m.txCounts.length : Int)
        rw [f.txCounts, cumCounts_length]; omega
    hist := by
      rw [hspec, o.p, o.unflushed, o.histFlush, hhx, hn]
      exact histInv_advance inv.hist (specOK_chain cfg.act chain).len cfg.act chain.length b.txs
    files := filesInv_advance f o.p o.dbst o.fsHeight o.fsTxCount (by rw [o.txCounts, htx])
      o.height (by rw [o.txCount, htx]) (by rw [o.txHashesU, hth]; simp) o.headersU
    tip := by rw [o.tip]; simp
    dbTip := by rw [o.dbst, List.take_append_of_le_length f.dbK]; exact inv.dbTip
    utxoCount := by
      rw [o.utxoCount, hspec, utxos_length_foldl, hdelta, inv.utxoCount]; simp
    flushedU := by rw [o.dbst, o.height]; intro h; omega
    flushedH := by rw [o.fsHeight, o.height]; intro h; omega
    ustate := by rw [o.p, o.dbst]; exact inv.ustate }

/-! ### a flush in two steps -/

/-- `flush_fs` + `History.flush`: what every real flush does -/
def flushHistStep (s : Sys) : Sys :=
  { m := { s.m with
      headersU := [], txHashesU := [], fsHeight := s.m.st.height, fsTxCount := s.m.st.txCount,
      unflushed := [], histFlush := s.m.histFlush + 1,
      st := { s.m.st with flushCount := s.m.histFlush + 1 } },
    p := applyEffects s.p (flushFsEffects s ++ [histFlushEffect s]) }

/-- `flush_utxo_db` + the state record: what a full flush does on top -/
def flushUtxoStep (s : Sys) : Sys :=
  { m := { s.m with cache := [], deletes := [], undoU := [], dbst := s.m.st },
    p := applyEffects s.p [utxoBatchEffect s s.m.st, .putUState s.m.st] }

theorem flush_noop {s : Sys} (h1 : s.m.st.height = s.m.dbst.height) (h2 : assertFlushed s = true)
    (fu : Bool) : flush s fu = .ok s := by
  simp [flush, flushDbs, h1, h2, applyEffects]

theorem flush_hist {s : Sys} (h1 : s.m.st.height ≠ s.m.dbst.height)
    (h2 : flushFsAsserts s = true) : flush s false = .ok (flushHistStep s) := by
  simp [flush, flushDbs, h1, h2, flushHistStep]

theorem flush_full {s : Sys} (h1 : s.m.st.height ≠ s.m.dbst.height)
    (h2 : flushFsAsserts s = true) : flush s true = .ok (flushUtxoStep (flushHistStep s)) := by
  simp [flush, flushDbs, h1, h2, flushHistStep, flushUtxoStep, applyEffects, utxoBatchEffect]

/-- `prior_tx_count` of `flush_fs` -/
def priorTx (s : Sys) : Nat :=
  if s.m.fsHeight ≥ 0 then s.m.txCounts.getD s.m.fsHeight.toNat 0 else 0

theorem priorTx_eq {chain : List Block} {s : Sys} (f : FilesInv chain s) :
    priorTx s = s.m.fsTxCount := by
  unfold priorTx
  have hK := f.fsK
  split
  · next h =>
    rw [f.txCounts, cumCounts_getD chain (by omega), f.fsTx]
    have : (s.m.fsHeight + 1).toNat = s.m.fsHeight.toNat + 1 := by omega
    rw [this]
  · next h =>
    rw [f.fsTx]
    have : (s.m.fsHeight + 1).toNat = 0 := by omega
    rw [this]; rfl

/-- the store after `flush_fs` + `History.flush` -/
theorem flushHistStep_p (s : Sys) :
    (flushHistStep s).p =
      { s.p with
        headers := fileWrite s.p.headers (s.m.fsHeight + 1).toNat s.m.headersU
        txcounts := fileWrite s.p.txcounts (s.m.fsHeight + 1).toNat
                      (s.m.txCounts.drop (s.m.fsHeight + 1).toNat)
        hashes := fileWrite s.p.hashes (priorTx s) s.m.txHashesU.flatten
        hist := (applyEffect s.p (histFlushEffect s)).hist
        hstate := (applyEffect s.p (histFlushEffect s)).hstate } := by
  simp [flushHistStep, applyEffects, flushFsEffects, applyEffect, histFlushEffect, priorTx]

/-- the store after `flush_utxo_db` + the state record -/
theorem flushUtxoStep_p (s : Sys) :
    (flushUtxoStep s).p =
      { applyEffect s.p (utxoBatchEffect s s.m.st) with ustate := some s.m.st } := by
  simp [flushUtxoStep, applyEffects, applyEffect]

/-- the chain splits at the committed height -/
theorem allTxids_split (chain : List Block) (k : Nat) :
    allTxids chain = allTxids (chain.take k) ++ allTxids (chain.drop k) := by
  rw [← allTxids_append, List.take_append_drop]

/-- the assertions at the top of `flush_fs` hold in every invariant state -/
theorem flushFsAsserts_of_files {chain : List Block} {s : Sys} (f : FilesInv chain s) :
    flushFsAsserts s = true := by
  have hK := f.fsK
  have hord := f.order
  have hht := f.height
  have hprior := priorTx_eq f
  unfold priorTx at hprior
  have hsplit := congrArg List.length (allTxids_split chain (s.m.fsHeight + 1).toNat)
  rw [List.length_append] at hsplit
  have h1 : s.m.txHashesU.length = s.m.headersU.length := by
    rw [f.hashesU, f.headersU]; simp
  have h2 : s.m.st.height = s.m.fsHeight + (s.m.headersU.length : Int) := by
    rw [f.headersU]; simp only [List.length_map, List.length_drop]; omega
  have h3 : s.m.st.txCount = s.m.txCounts.getLast?.getD 0 := by
    rw [f.txCounts, cumCounts_getLast, f.stTx]
  have h4 : (s.m.txCounts.length : Int) = s.m.st.height + 1 := by
    rw [f.txCounts, cumCounts_length]; omega
  have h5 : (s.m.txHashesU.flatten.length : Int) =
      (s.m.st.txCount : Int) -
        ((if s.m.fsHeight ≥ 0 then s.m.txCounts.getD s.m.fsHeight.toNat 0 else 0 : Nat) : Int) := by
    rw [hprior, f.hashesU, allTxids_flatten, f.stTx, f.fsTx]; omega
  simp only [flushFsAsserts, Bool.and_eq_true, beq_iff_eq]
  exact ⟨⟨⟨⟨h1, h2⟩, h3⟩, h4⟩, h5⟩

/-! ### the file invariant under the two steps -/

theorem filesInv_histStep {chain : List Block} {s : Sys} (f : FilesInv chain s) :
    FilesInv chain (flushHistStep s) := by
  have hK := f.fsK
  have hord := f.order
  have hht := f.height
  have hall : (s.m.st.height + 1).toNat = chain.length := by omega
  have hsplit := allTxids_split chain (s.m.fsHeight + 1).toNat
  have hpre : (allTxids chain).take s.m.fsTxCount = allTxids (chain.take (s.m.fsHeight + 1).toNat) := by
    rw [hsplit, f.fsTx, List.take_left']
    rfl
  refine {
    txCounts := f.txCounts
    height := f.height
    order := ⟨hord.1, by show s.m.dbst.height ≤ s.m.st.height; omega, Int.le_refl _⟩
    fsTx := ?_
    stTx := f.stTx
    dbTx := f.dbTx
    hashes := ?_
    hashesU := ?_
    headersU := ?_
    headers := ?_
    txcountsFile := ?_ }
  · show s.m.st.txCount = (allTxids (chain.take (s.m.st.height + 1).toNat)).length
    rw [hall, List.take_length, f.stTx]
  · show (flushHistStep s).p.hashes.take s.m.st.txCount = (allTxids chain).take s.m.st.txCount
    rw [flushHistStep_p, f.stTx, List.take_length]
    show (fileWrite s.p.hashes (priorTx s) s.m.txHashesU.flatten).take (allTxids chain).length = _
    have hlen : (allTxids chain).length = priorTx s + s.m.txHashesU.flatten.length := by
      rw [priorTx_eq f, f.hashesU, allTxids_flatten, f.fsTx]
      have := congrArg List.length hsplit
      rw [List.length_append] at this
      exact this
    rw [hlen, fileWrite_take _ _ _ (allTxids (chain.take (s.m.fsHeight + 1).toNat))
      (by rw [priorTx_eq f, f.hashes, hpre]) (by rw [priorTx_eq f, f.fsTx]),
      f.hashesU, allTxids_flatten, ← hsplit]
  · show ([] : List (List Hash)) = (chain.drop (s.m.st.height + 1).toNat).map _
    rw [hall]; simp
  · show ([] : List Nat) = (chain.drop (s.m.st.height + 1).toNat).map _
    rw [hall]; simp
  · show (flushHistStep s).p.headers.take (s.m.st.height + 1).toNat =
      (chain.take (s.m.st.height + 1).toNat).map _
    rw [flushHistStep_p, hall, List.take_length]
    show (fileWrite s.p.headers (s.m.fsHeight + 1).toNat s.m.headersU).take chain.length = _
    have hlen : chain.length = (s.m.fsHeight + 1).toNat + s.m.headersU.length := by
      rw [f.headersU]; simp only [List.length_map, List.length_drop]; omega
    rw [hlen, fileWrite_take _ _ _ _ f.headers (by simp; omega), f.headersU, ← List.map_append,
      List.take_append_drop]
  · show (flushHistStep s).p.txcounts.take (s.m.st.height + 1).toNat =
      (cumCounts chain).take (s.m.st.height + 1).toNat
    rw [flushHistStep_p, hall]
    show (fileWrite s.p.txcounts (s.m.fsHeight + 1).toNat
        (s.m.txCounts.drop (s.m.fsHeight + 1).toNat)).take chain.length = _
    have hlen : chain.length = (s.m.fsHeight + 1).toNat +
        (s.m.txCounts.drop (s.m.fsHeight + 1).toNat).length := by
      rw [f.txCounts]; simp only [List.length_drop, cumCounts_length]; omega
    rw [List.take_of_length_le (l := cumCounts chain) (by rw [cumCounts_length]; omega)]
    rw [hlen, fileWrite_take _ _ _ _ f.txcountsFile (by simp [cumCounts_length]; omega),
      f.txCounts, List.take_append_drop]

theorem filesInv_utxoStep {chain : List Block} {s : Sys} (f : FilesInv chain s)
    (hfs : s.m.fsHeight = s.m.st.height) : FilesInv chain (flushUtxoStep s) := by
  have hord := f.order
  have hrest := flushUtxo_rest s s.m.st
  refine {
    txCounts := f.txCounts
    height := f.height
    order := ⟨by show -1 ≤ s.m.st.height; omega, by show s.m.st.height ≤ s.m.fsHeight; omega, hord.2.2⟩
    fsTx := f.fsTx
    stTx := f.stTx
    dbTx := ?_
    hashes := ?_
    hashesU := f.hashesU
    headersU := f.headersU
    headers := ?_
    txcountsFile := ?_ }
  · show s.m.st.txCount = (allTxids (chain.take (s.m.st.height + 1).toNat)).length
    rw [← hfs, ← f.fsTx, f.fsTx, hfs]
    have : (s.m.st.height + 1).toNat = chain.length := by have := f.height; omega
    rw [this, List.take_length, f.stTx]
  · rw [flushUtxoStep_p]
    show (applyEffect s.p (utxoBatchEffect s s.m.st)).hashes.take s.m.fsTxCount = _
    rw [hrest.2.2.2.2.2]; exact f.hashes
  · rw [flushUtxoStep_p]
    show (applyEffect s.p (utxoBatchEffect s s.m.st)).headers.take (s.m.fsHeight + 1).toNat = _
    rw [hrest.2.2.2.1]; exact f.headers
  · rw [flushUtxoStep_p]
    show (applyEffect s.p (utxoBatchEffect s s.m.st)).txcounts.take (s.m.fsHeight + 1).toNat = _
    rw [hrest.2.2.2.2.1]; exact f.txcountsFile

/-! ### the invariant under the two steps -/

/-- writing the new tx hashes beyond the committed length does not change what already resolves -/
theorem resolve_histStep {chain : List Block} {s : Sys} (f : FilesInv chain s) {n : Nat} {id : Hash}
    (h : resolve s n = some id) : resolve (flushHistStep s) n = some id := by
  have hlt := resolve_some_lt f h
  have hfs : n < s.m.fsTxCount := by
    rw [f.fsTx]
    have := allTxids_take_mono chain (j := (s.m.dbst.height + 1).toNat)
      (k := (s.m.fsHeight + 1).toNat) (by have := f.order; omega)
    omega
  rw [resolve_eq] at h ⊢
  rw [flushHistStep_p]
  show (if (bisectRight s.m.txCounts n : Int) > s.m.dbst.height then none
        else (fileWrite s.p.hashes (priorTx s) s.m.txHashesU.flatten)[n]?) = some id
  split at h
  · simp at h
  · next hnot =>
    rw [if_neg hnot, fileWrite_getElem?_lt _ _ _ (by rw [priorTx_eq f]; exact hfs)
      (List.getElem?_eq_some_iff.mp h).1]
    exact h

theorem fullInv_histStep {cfg : Cfg} {chain : List Block} {s : Sys} (inv : FullInv cfg chain s)
    (hne : s.m.st.height ≠ s.m.dbst.height) : FullInv cfg chain (flushHistStep s) where
  rep := by
    obtain ⟨D, Del, w⟩ := inv.rep
    exact ⟨D, Del, repSysW_congr w (by rw [flushHistStep_p]) (by rw [flushHistStep_p]) rfl rfl
      (fun u hu => resolve_histStep inv.files (w.res u hu))⟩
  hist := histInv_congr (histInv_flush s inv.hist) (by rw [flushHistStep_p])
  files := filesInv_histStep inv.files
  tip := inv.tip
  dbTip := inv.dbTip
  utxoCount := inv.utxoCount
  flushedU := fun h => absurd (show s.m.dbst.height = s.m.st.height from h).symm hne
  flushedH := fun _ => rfl
  ustate := by rw [flushHistStep_p]; exact inv.ustate

theorem fullInv_utxoStep {cfg : Cfg} {chain : List Block} {s : Sys} (inv : FullInv cfg chain s)
    (hfs : s.m.fsHeight = s.m.st.height) : FullInv cfg chain (flushUtxoStep s) := by
  have f := inv.files
  have f' := filesInv_utxoStep f hfs
  have hall : (s.m.st.height + 1).toNat = chain.length := by have := f.height; omega
  have hrest := flushUtxo_rest s s.m.st
  exact {
    rep := by
      obtain ⟨D, Del, w⟩ := inv.rep
      refine ⟨_, [], flushUtxo_rep w (txnumFun_of_specOK (specOK_chain cfg.act chain)) s.m.st
        ⟨by rw [flushUtxoStep_p], by rw [flushUtxoStep_p]⟩ rfl rfl ?_⟩
      intro u hu
      have hu' := (specOK_chain cfg.act chain).utxoTx u hu
      obtain ⟨hid, -⟩ := spec_height_eq_bisect cfg.act chain hu'
      have hlt : u.txnum < (allTxids chain).length := by
        rw [← specChain_txs_length cfg.act]
        exact (List.getElem?_eq_some_iff.mp hu').1
      rw [hid]
      apply resolve_of_files f'
      show u.txnum < (allTxids (chain.take (s.m.st.height + 1).toNat)).length
      rw [hall, List.take_length]; exact hlt
    hist := histInv_congr inv.hist (by rw [flushUtxoStep_p]; exact hrest.2.1)
    files := f'
    tip := inv.tip
    dbTip := by
      show s.m.st.tip = ((chain.take (s.m.st.height + 1).toNat).getLast?.map (·.hash)).getD 0
      rw [hall, List.take_length]; exact inv.tip
    utxoCount := inv.utxoCount
    flushedU := fun _ => ⟨rfl, rfl, rfl⟩
    flushedH := inv.flushedH
    ustate := Or.inr (by rw [flushUtxoStep_p]; rfl) }

/-- `assert_flushed` cannot fail when the UTXO DB is at the tip -/
theorem assertFlushed_of_inv {cfg : Cfg} {chain : List Block} {s : Sys} (inv : FullInv cfg chain s)
    (heq : s.m.st.height = s.m.dbst.height) : assertFlushed s = true := by
  have f := inv.files
  have hord := f.order
  have hfs : s.m.fsHeight = s.m.st.height := by omega
  have hall : (s.m.fsHeight + 1).toNat = chain.length := by have := f.height; omega
  obtain ⟨c1, c2, c3⟩ := inv.flushedU heq.symm
  have c4 := inv.flushedH hfs
  have e1 : s.m.st.txCount = s.m.fsTxCount := by
    rw [f.stTx, f.fsTx, hall, List.take_length]
  have e2 : s.m.fsTxCount = s.m.dbst.txCount := by
    rw [f.fsTx, f.dbTx, ← heq, ← hfs]
  have e3 : s.m.st.tip = s.m.dbst.tip := by
    rw [inv.tip, inv.dbTip, ← heq, ← hfs, hall, List.take_length]
  have e4 : s.m.headersU = [] := by rw [f.headersU, hall]; simp
  have e5 : s.m.txHashesU = [] := by rw [f.hashesU, hall]; simp
  simp only [assertFlushed, Bool.and_eq_true, beq_iff_eq, List.isEmpty_iff]
  exact ⟨⟨⟨⟨⟨⟨⟨⟨⟨⟨e1, e2⟩, hfs.symm⟩, by omega⟩, e3⟩, e4⟩, e5⟩, c1⟩, c2⟩, c3⟩, c4⟩

/-- **Every flush preserves the invariant** (and cannot fail): the `heights equal` early return
passes `assert_flushed`, a history-only flush and a full flush re-establish every clause. -/
theorem fullInv_flush {cfg : Cfg} {chain : List Block} {s : Sys} (inv : FullInv cfg chain s)
    (fu : Bool) : ∃ s', flush s fu = .ok s' ∧ FullInv cfg chain s' := by
  by_cases heq : s.m.st.height = s.m.dbst.height
  · exact ⟨s, flush_noop heq (assertFlushed_of_inv inv heq) fu, inv⟩
  · have ha := flushFsAsserts_of_files inv.files
    cases fu with
    | false => exact ⟨_, flush_hist heq ha, fullInv_histStep inv heq⟩
    | true => exact ⟨_, flush_full heq ha, fullInv_utxoStep (fullInv_histStep inv heq) rfl⟩

/-- fully flushed: nothing pending anywhere -/
def Flushed (s : Sys) : Prop :=
  s.m.cache = [] ∧ s.m.deletes = [] ∧ s.m.unflushed = [] ∧
  s.m.dbst.height = s.m.st.height ∧ s.m.fsHeight = s.m.st.height

/-- a full flush leaves a fully flushed state -/
theorem flush_full_flushed {cfg : Cfg} {chain : List Block} {s s' : Sys}
    (inv : FullInv cfg chain s) (h : flush s true = .ok s') : Flushed s' := by
  by_cases heq : s.m.st.height = s.m.dbst.height
  · rw [flush_noop heq (assertFlushed_of_inv inv heq)] at h
    simp only [Except.ok.injEq] at h
    subst h
    have hord := inv.files.order
    have hfs : s.m.fsHeight = s.m.st.height := by omega
    obtain ⟨c1, c2, -⟩ := inv.flushedU heq.symm
    exact ⟨c1, c2, inv.flushedH hfs, heq.symm, hfs⟩
  · rw [flush_full heq (flushFsAsserts_of_files inv.files)] at h
    simp only [Except.ok.injEq] at h
    subst h
    exact ⟨rfl, rfl, rfl, rfl, rfl⟩

/-! ## part 3: runs and observables -/

/-- the operations of a sync run -/
inductive IOp where
  | adv (b : Block) (daemonH : Int)
  | flush (utxos : Bool)

def runOps (cfg : Cfg) : Sys → List IOp → Except Err Sys
  | s, [] => .ok s
  | s, .adv b d :: r =>
    match advance cfg d s b with
    | .error e => .error e
    | .ok s' => runOps cfg s' r
  | s, .flush fu :: r =>
    match flush s fu with
    | .error e => .error e
    | .ok s' => runOps cfg s' r

/-- the blocks advanced by a run, in order -/
def chainOf : List IOp → List Block
  | [] => []
  | .adv b _ :: r => b :: chainOf r
  | .flush _ :: r => chainOf r

/-- every advanced block is a valid next block of the chain built so far -/
def ValidOps (cfg : Cfg) : List Block → List IOp → Prop
  | _, [] => True
  | chain, .adv b _ :: r => ValidNext cfg chain b ∧ ValidOps cfg (chain ++ [b]) r
  | chain, .flush _ :: r => ValidOps cfg chain r

theorem runOps_append (cfg : Cfg) (s : Sys) (a b : List IOp) :
    runOps cfg s (a ++ b) =
      match runOps cfg s a with
      | .error e => .error e
      | .ok s' => runOps cfg s' b := by
  induction a generalizing s with
  | nil => rfl
  | cons op r ih =>
    cases op with
    | adv blk d =>
      simp only [List.cons_append, runOps]
      cases advance cfg d s blk with
      | error e => rfl
      | ok s' => exact ih s'
    | flush fu =>
      simp only [List.cons_append, runOps]
      cases flush s fu with
      | error e => rfl
      | ok s' => exact ih s'

/-- runs from any invariant state -/
theorem fullInv_run {cfg : Cfg} (ops : List IOp) {chain : List Block} {s : Sys}
    (inv : FullInv cfg chain s) (hv : ValidOps cfg chain ops) :
    ∃ s', runOps cfg s ops = .ok s' ∧ FullInv cfg (chain ++ chainOf ops) s' := by
  induction ops generalizing chain s with
  | nil => exact ⟨s, rfl, by simpa [chainOf] using inv⟩
  | cons op r ih =>
    cases op with
    | adv b d =>
      obtain ⟨hb, hr⟩ := hv
      obtain ⟨s1, h1, inv1⟩ := fullInv_advance (daemonH := d) inv hb
      obtain ⟨s', h2, inv2⟩ := ih inv1 hr
      refine ⟨s', by simp only [runOps, h1]; exact h2, ?_⟩
      simpa [chainOf, List.append_assoc] using inv2
    | flush fu =>
      obtain ⟨s1, h1, inv1⟩ := fullInv_flush inv fu
      obtain ⟨s', h2, inv2⟩ := ih inv1 hv
      exact ⟨s', by simp only [runOps, h1]; exact h2, by simpa [chainOf] using inv2⟩

/-- **Whole-run refinement.**  From the empty index, every sequence of `advance_block`s of valid
next blocks and flushes (history-only or full, placed anywhere) runs without error and ends in a
state satisfying the invariant for the chain advanced. -/
theorem C01_run (cfg : Cfg) (ops : List IOp) (hv : ValidOps cfg [] ops) :
    ∃ s, runOps cfg {} ops = .ok s ∧ FullInv cfg (chainOf ops) s := by
  obtain ⟨s, h1, h2⟩ := fullInv_run ops (fullInv_init cfg) hv
  exact ⟨s, h1, by simpa using h2⟩

/-! ### what a flushed index answers -/

/-- in an invariant state, `DB.state` at the tip already means nothing is pending anywhere -/
theorem flushed_of_db {cfg : Cfg} {chain : List Block} {s : Sys} (inv : FullInv cfg chain s)
    (h : s.m.dbst.height = s.m.st.height) : Flushed s := by
  have hord := inv.files.order
  have hfs : s.m.fsHeight = s.m.st.height := by omega
  obtain ⟨c1, c2, -⟩ := inv.flushedU h
  exact ⟨c1, c2, inv.flushedH hfs, h, hfs⟩

/-- `fs_tx_hash` of a spec tx number on a flushed index: the spec's table entry -/
theorem fsTxHash_flushed {cfg : Cfg} {chain : List Block} {s : Sys} (inv : FullInv cfg chain s)
    (hdb : s.m.dbst.height = s.m.st.height) {n : Nat}
    (hn : n < (specChain cfg.act chain).txs.length) :
    fsTxHash s n = (some ((specChain cfg.act chain).txs.getD n (0, 0)).1,
                    ((specChain cfg.act chain).txs.getD n (0, 0)).2) := by
  have f := inv.files
  rw [specChain_txs_length] at hn
  have hall : (s.m.dbst.height + 1).toNat = chain.length := by have := f.height; omega
  have hres := resolve_of_files f (n := n) (by rw [hall, List.take_length]; exact hn)
  have hget := spec_txs_get cfg.act chain n hn
  have hgd : (specChain cfg.act chain).txs.getD n (0, 0) =
      ((allTxids chain).getD n 0, bisectRight (cumCounts chain) n) := by
    rw [List.getD_eq_getElem?_getD, hget]; rfl
  rw [fsTxHash_eq, hres, f.txCounts, hgd]

/-- **C01 + C02 on a flushed index, for any flush schedule.**  In an invariant state with nothing
pending, `all_utxos` returns (up to order) exactly the spec's UTXOs of the script hash with their
spec heights, `limited_history` (any limit) returns exactly the spec's history pairs — no retry
outcome arises — and the counters are the spec's. -/
theorem C01_observables {cfg : Cfg} {chain : List Block} {s : Sys} (inv : FullInv cfg chain s)
    (hf : s.m.cache = [] ∧ s.m.deletes = [] ∧ s.m.unflushed = [] ∧
          s.m.dbst.height = s.m.st.height ∧ s.m.fsHeight = s.m.st.height) :
    (∀ hx, ∃ rows, allUtxos s hx = some rows ∧
        rows.Perm (((specChain cfg.act chain).utxos.filter (·.hx == hx)).map
          (fun u => ⟨u.txnum, u.idx, u.txid, u.height, u.value⟩))) ∧
    (∀ hx limit, limitedHistory s hx limit =
        some (historyPairs (specChain cfg.act chain) hx limit)) ∧
    s.m.st.utxoCount = ((specChain cfg.act chain).utxos.length : Int) ∧
    s.m.st.txCount = (specChain cfg.act chain).txs.length := by
  obtain ⟨hc, hd, hu, hdb, hfs⟩ := hf
  have f := inv.files
  have hok := specOK_chain cfg.act chain
  refine ⟨?_, ?_, inv.utxoCount, by rw [f.stTx, specChain_txs_length]⟩
  · obtain ⟨D, Del, w⟩ := inv.rep
    have hDel : Del = [] := by
      apply List.eq_nil_iff_forall_not_mem.mpr
      intro u hu'
      have := (w.dels (.h (hkey u))).mpr ⟨u, hu', Or.inl rfl⟩
      rw [hd] at this
      simp at this
    subst hDel
    intro hx
    obtain ⟨rows, h1, h2⟩ := allUtxos_flushed w hc hx
    refine ⟨rows, h1, ?_⟩
    have hmap : ((specChain cfg.act chain).utxos.filter (fun u => u.hx == hx)).map
          (fun u => (⟨u.txnum, u.idx, u.txid, (fsTxHash s u.txnum).2, u.value⟩ : UtxoRow)) =
        ((specChain cfg.act chain).utxos.filter (fun u => u.hx == hx)).map
          (fun u => (⟨u.txnum, u.idx, u.txid, u.height, u.value⟩ : UtxoRow)) := by
      apply List.map_congr_left
      intro u hu'
      have hu'' := hok.utxoTx u (List.mem_filter.mp hu').1
      obtain ⟨-, hh⟩ := spec_height_eq_bisect cfg.act chain hu''
      rw [fsTxHash_eq, f.txCounts, ← hh]
    rw [hmap] at h2
    exact h2
  · intro hx limit
    have hinv : HistInv (specChain cfg.act chain) s.p [] s.m.histFlush := by
      have := inv.hist; rwa [hu] at this
    have hnums := getTxnums_flushed hinv hx limit
    have key : ∀ n ∈ historyOf (specChain cfg.act chain) hx,
        (match fsTxHash s n with
         | (some h, ht) => some (h, ht)
         | (none, _) => none) = some ((specChain cfg.act chain).txs.getD n (0, 0)) := by
      intro n hn
      have hlt : n < (specChain cfg.act chain).txs.length := by
        rw [← hok.len]; exact historyOf_lt _ hx n hn
      rw [fsTxHash_flushed inv hdb hlt]
    unfold limitedHistory
    rw [hnums]
    cases limit with
    | none =>
      simp only [historyPairs]
      exact mapM_option_eq_some _ (fun n => (specChain cfg.act chain).txs.getD n (0, 0)) _ key
    | some k =>
      simp only [historyPairs]
      exact mapM_option_eq_some _ (fun n => (specChain cfg.act chain).txs.getD n (0, 0)) _
        (fun n hn => key n (List.mem_of_mem_take hn))

/-- **C01 + C02, end to end.**  Run any sequence of `advance_block`s of valid next blocks and
flushes (history-only or full, anywhere) from the empty index and finish with a full flush: the run
cannot fail, and `all_utxos`, `limited_history` (any limit) and the counters of the final state are
the specification's of the chain advanced. -/
theorem C01_run_observables (cfg : Cfg) (ops : List IOp) (hv : ValidOps cfg [] ops) :
    ∃ s, runOps cfg {} (ops ++ [.flush true]) = .ok s ∧
      (∀ hx, ∃ rows, allUtxos s hx = some rows ∧
        rows.Perm (((specChain cfg.act (chainOf ops)).utxos.filter (·.hx == hx)).map
          (fun u => ⟨u.txnum, u.idx, u.txid, u.height, u.value⟩))) ∧
      (∀ hx limit, limitedHistory s hx limit =
        some (historyPairs (specChain cfg.act (chainOf ops)) hx limit)) ∧
      s.m.st.utxoCount = ((specChain cfg.act (chainOf ops)).utxos.length : Int) ∧
      s.m.st.txCount = (specChain cfg.act (chainOf ops)).txs.length := by
  obtain ⟨s1, h1, inv1⟩ := C01_run cfg ops hv
  obtain ⟨s, h2, inv⟩ := fullInv_flush inv1 true
  refine ⟨s, ?_, C01_observables inv (flush_full_flushed inv1 h2)⟩
  rw [runOps_append, h1]
  simp only [runOps, h2]

/-! ### the other file readers (any invariant state, flushed or not) -/

theorem drop_take_of_take_eq {α : Type} {l l' : List α} {k : Nat} (h : l.take k = l'.take k)
    {a d : Nat} (had : a + d ≤ k) : (l.drop a).take d = (l'.drop a).take d := by
  have h1 : ∀ m : List α, (m.drop a).take d = ((m.take k).drop a).take d := by
    intro m
    rw [List.drop_take, List.take_take, Nat.min_eq_left (by omega)]
  rw [h1 l, h1 l', h]

/-- `read_headers(start, count)` returns the chain's headers from `start`, cut at the last UTXO
    flush height -/
theorem readHeaders_of_files {chain : List Block} {s : Sys} (f : FilesInv chain s)
    (start count : Nat) :
    readHeaders s start count =
      ((chain.map (·.header)).drop start).take
        (min (count : Int) (s.m.dbst.height + 1 - start)).toNat := by
  have hord := f.order
  unfold readHeaders
  simp only
  by_cases hd : (min (count : Int) (s.m.dbst.height + 1 - start)).toNat = 0
  · rw [hd]; simp
  · apply drop_take_of_take_eq (k := (s.m.fsHeight + 1).toNat)
    · rw [f.headers, List.map_take]
    · omega

/-- `fs_tx_hashes_at_blockheight(h)` for a height up to the last UTXO flush: the tx hashes of
    block `h` -/
theorem txHashesAt_of_files {chain : List Block} {s : Sys} (f : FilesInv chain s) {h : Nat}
    {b : Block} (hb : chain[h]? = some b) (hh : (h : Int) ≤ s.m.dbst.height) :
    txHashesAt s h = some (b.txs.map (·.id)) := by
  have hord := f.order
  obtain ⟨hlt, hget⟩ := List.getElem?_eq_some_iff.mp hb
  have htake : chain.take (h + 1) = chain.take h ++ [b] := by
    rw [List.take_add_one, hb]; rfl
  have hfirst : (if h > 0 then s.m.txCounts.getD (h - 1) 0 else 0) =
      (allTxids (chain.take h)).length := by
    split
    · next hpos =>
      rw [f.txCounts, cumCounts_getD chain (by omega)]
      have : h - 1 + 1 = h := by omega
      rw [this]
    · next hz =>
      have : h = 0 := by omega
      subst this; rfl
  have hcnt : s.m.txCounts.getD h 0 = (allTxids (chain.take h)).length + b.txs.length := by
    rw [f.txCounts, cumCounts_getD chain hlt, htake, allTxids_append, allTxids_singleton]
    simp
  have hle : (allTxids (chain.take h)).length + b.txs.length ≤ s.m.fsTxCount := by
    rw [f.fsTx]
    have h1 := allTxids_take_mono chain (j := h + 1) (k := (s.m.fsHeight + 1).toNat) (by omega)
    rw [htake, allTxids_append, allTxids_singleton, List.length_append, List.length_map] at h1
    exact h1
  have hids : allTxids chain =
      allTxids (chain.take h) ++ (b.txs.map (·.id) ++ allTxids (chain.drop (h + 1))) := by
    have h1 := allTxids_split chain (h + 1)
    rw [htake, allTxids_append, allTxids_singleton, List.append_assoc] at h1
    exact h1
  unfold txHashesAt
  rw [if_neg (by omega)]
  simp only [hfirst, hcnt, Nat.add_sub_cancel_left]
  rw [drop_take_of_take_eq f.hashes hle, hids, List.drop_left', List.take_left']
  · simp
  · rfl

end EV.Index

import EV.Proofs.CompactStore

/-!
`util.chunks` and `_compact_hashX`: what one call adds to `write_items` / `keys_to_delete`, and what
the rows of that hashX are once the batch is applied.  Core only.
-/
namespace EV.Compact
open EV.Index

/-! ### chunks -/

theorem chunksAux_flatten (n : Nat) (hn : 0 < n) (fuel : Nat) (l : List Nat) (hf : l.length ≤ fuel) :
    (chunksAux n fuel l).flatten = l := by
  induction fuel generalizing l with
  | zero =>
    have : l = [] := List.length_eq_zero_iff.mp (by omega)
    subst this; rfl
  | succ f ih =>
    unfold chunksAux
    split
    · next h => simp at h; subst h; rfl
    · rw [List.flatten_cons, ih (l.drop n) (by simp only [List.length_drop]; omega)]
      exact List.take_append_drop n l

theorem chunks_flatten (n : Nat) (hn : 0 < n) (l : List Nat) : (chunks n l).flatten = l :=
  chunksAux_flatten n hn _ l (Nat.le_refl _)

theorem chunksAux_length_le (n : Nat) (fuel : Nat) (l : List Nat) (k : Nat) (hk : l.length ≤ n * k) :
    (chunksAux n fuel l).length ≤ k := by
  induction fuel generalizing l k with
  | zero => simp [chunksAux]
  | succ f ih =>
    unfold chunksAux
    split
    · simp
    · next h =>
      have hl : 0 < l.length := by
        cases l with
        | nil => simp at h
        | cons a r => simp
      cases k with
      | zero => rw [Nat.mul_zero] at hk; omega
      | succ k' =>
        simp only [List.length_cons]
        have := ih (l.drop n) k' (by
          simp only [List.length_drop]
          rw [Nat.mul_succ] at hk; omega)
        omega

/-- a history of at most `n * k` entries is compacted into at most `k` rows -/
theorem chunks_length_le (n : Nat) (l : List Nat) (k : Nat) (hk : l.length ≤ n * k) :
    (chunks n l).length ≤ k := chunksAux_length_le n _ l k hk

theorem chunksAux_ne_nil (n : Nat) (hn : 0 < n) (fuel : Nat) (l : List Nat) :
    ∀ c ∈ chunksAux n fuel l, c ≠ [] := by
  induction fuel generalizing l with
  | zero => simp [chunksAux]
  | succ f ih =>
    unfold chunksAux
    split
    · simp
    · next h =>
      intro c hc
      rcases List.mem_cons.mp hc with rfl | hc'
      · cases l with
        | nil => simp at h
        | cons a r =>
          cases n with
          | zero => omega
          | succ m => simp
      · exact ih _ c hc'

theorem chunks_ne_nil (n : Nat) (hn : 0 < n) (l : List Nat) : ∀ c ∈ chunks n l, c ≠ [] :=
  chunksAux_ne_nil n hn _ l

/-! ### what the chunk loop produces -/

/-- the rows appended to `write_items` -/
def writesOf (hx : HashX) (M : List Row) : List (List Nat) → Nat → List Row
  | [], _ => []
  | c :: cs, n =>
    if alookup (hx, n) M = some c then writesOf hx M cs (n + 1)
    else ((hx, n), c) :: writesOf hx M cs (n + 1)

/-- the keys taken out of `keys_to_delete` again (row identical on disk) -/
def keptOf (hx : HashX) (M : List Row) : List (List Nat) → Nat → List (HashX × Nat)
  | [], _ => []
  | c :: cs, n =>
    if alookup (hx, n) M = some c then (hx, n) :: keptOf hx M cs (n + 1)
    else keptOf hx M cs (n + 1)

/-- the rows of the hashX after compaction -/
def newRows (hx : HashX) : List (List Nat) → Nat → List Row
  | [], _ => []
  | c :: cs, n => ((hx, n), c) :: newRows hx cs (n + 1)

theorem chunkLoop_ok (hx : HashX) (M : List Row) (cs : List (List Nat)) (n : Nat) (acc : CAcc) (ws : Nat)
    (acc' : CAcc) (ws' : Nat) (h : chunkLoop hx M cs n acc ws = .ok (acc', ws')) :
    acc'.writes = acc.writes ++ writesOf hx M cs n ∧
    acc'.dels = acc.dels.filter (fun k => decide (k ∉ keptOf hx M cs n)) ∧
    acc'.cfc = acc.cfc ∧ (cs ≠ [] → n + cs.length ≤ 65536) := by
  induction cs generalizing n acc ws with
  | nil =>
    simp only [chunkLoop, Except.ok.injEq, Prod.mk.injEq] at h
    obtain ⟨rfl, _⟩ := h
    refine ⟨by simp [writesOf], ?_, rfl, by intro h; exact absurd rfl h⟩
    simp only [keptOf]
    exact (List.filter_eq_self.mpr (by intro a _; simp)).symm
  | cons c cs ih =>
    simp only [chunkLoop] at h
    split at h
    · cases h
    · next hn =>
      split at h
      · next hk =>
        obtain ⟨h1, h2, h3, h4⟩ := ih _ _ _ h
        refine ⟨?_, ?_, ?_, ?_⟩
        · simp only [writesOf, hk, if_true]; exact h1
        · rw [h2]
          simp only [keptOf, hk, if_true, List.filter_filter]
          apply List.filter_congr
          intro k _
          simp only [List.mem_cons, not_or]
          by_cases hkk : k = (hx, n) <;> simp [hkk]
        · exact h3
        · intro _
          by_cases hcs : cs = []
          · subst hcs; simp only [List.length_cons, List.length_nil]; omega
          · have := h4 hcs; simp only [List.length_cons]; omega
      · next hk =>
        obtain ⟨h1, h2, h3, h4⟩ := ih _ _ _ h
        refine ⟨?_, ?_, ?_, ?_⟩
        · simp only [writesOf, hk, if_false]; rw [h1]; simp
        · rw [h2]; simp only [keptOf, hk, if_false]
        · exact h3
        · intro _
          by_cases hcs : cs = []
          · subst hcs; simp only [List.length_cons, List.length_nil]; omega
          · have := h4 hcs; simp only [List.length_cons]; omega

theorem mem_writesOf {hx : HashX} {M : List Row} {cs : List (List Nat)} {n : Nat} {e : Row} :
    e ∈ writesOf hx M cs n ↔
      ∃ c i, (c, i) ∈ cs.zipIdx n ∧ e = ((hx, i), c) ∧ alookup (hx, i) M ≠ some c := by
  induction cs generalizing n with
  | nil => simp [writesOf]
  | cons c cs ih =>
    simp only [writesOf, List.zipIdx_cons, List.mem_cons]
    split
    · next hk =>
      rw [ih]
      constructor
      · rintro ⟨c', i, h1, h2, h3⟩; exact ⟨c', i, Or.inr h1, h2, h3⟩
      · rintro ⟨c', i, h1 | h1, h2, h3⟩
        · cases h1; exact absurd hk h3
        · exact ⟨c', i, h1, h2, h3⟩
    · next hk =>
      rw [List.mem_cons, ih]
      constructor
      · rintro (h | ⟨c', i, h1, h2, h3⟩)
        · exact ⟨c, n, Or.inl rfl, h, hk⟩
        · exact ⟨c', i, Or.inr h1, h2, h3⟩
      · rintro ⟨c', i, h1 | h1, h2, h3⟩
        · cases h1; exact Or.inl h2
        · exact Or.inr ⟨c', i, h1, h2, h3⟩

theorem mem_keptOf {hx : HashX} {M : List Row} {cs : List (List Nat)} {n : Nat} {k : HashX × Nat} :
    k ∈ keptOf hx M cs n ↔
      ∃ c i, (c, i) ∈ cs.zipIdx n ∧ k = (hx, i) ∧ alookup (hx, i) M = some c := by
  induction cs generalizing n with
  | nil => simp [keptOf]
  | cons c cs ih =>
    simp only [keptOf, List.zipIdx_cons, List.mem_cons]
    split
    · next hk =>
      rw [List.mem_cons, ih]
      constructor
      · rintro (h | ⟨c', i, h1, h2, h3⟩)
        · exact ⟨c, n, Or.inl rfl, h, hk⟩
        · exact ⟨c', i, Or.inr h1, h2, h3⟩
      · rintro ⟨c', i, h1 | h1, h2, h3⟩
        · cases h1; exact Or.inl h2
        · exact Or.inr ⟨c', i, h1, h2, h3⟩
    · next hk =>
      rw [ih]
      constructor
      · rintro ⟨c', i, h1, h2, h3⟩; exact ⟨c', i, Or.inr h1, h2, h3⟩
      · rintro ⟨c', i, h1 | h1, h2, h3⟩
        · cases h1; exact absurd h3 hk
        · exact ⟨c', i, h1, h2, h3⟩

theorem mem_newRows {hx : HashX} {cs : List (List Nat)} {n : Nat} {e : Row} :
    e ∈ newRows hx cs n ↔ ∃ c i, (c, i) ∈ cs.zipIdx n ∧ e = ((hx, i), c) := by
  induction cs generalizing n with
  | nil => simp [newRows]
  | cons c cs ih =>
    simp only [newRows, List.zipIdx_cons, List.mem_cons, ih]
    constructor
    · rintro (h | ⟨c', i, h1, h2⟩)
      · exact ⟨c, n, Or.inl rfl, h⟩
      · exact ⟨c', i, Or.inr h1, h2⟩
    · rintro ⟨c', i, h1 | h1, h2⟩
      · cases h1; exact Or.inl h2
      · exact Or.inr ⟨c', i, h1, h2⟩

theorem newRows_flatMap (hx : HashX) (cs : List (List Nat)) (n : Nat) :
    (newRows hx cs n).flatMap (·.2) = cs.flatten := by
  induction cs generalizing n with
  | nil => rfl
  | cons c cs ih => simp [newRows, ih]

theorem newRows_bounds {hx : HashX} {cs : List (List Nat)} {n : Nat} {e : Row}
    (h : e ∈ newRows hx cs n) : e.1.1 = hx ∧ n ≤ e.1.2 ∧ e.1.2 < n + cs.length := by
  induction cs generalizing n with
  | nil => simp [newRows] at h
  | cons c cs ih =>
    simp only [newRows, List.mem_cons] at h
    rcases h with rfl | h
    · simp
    · obtain ⟨h1, h2, h3⟩ := ih h
      simp only [List.length_cons]
      exact ⟨h1, by omega, by omega⟩

theorem newRows_pairwise (hx : HashX) (cs : List (List Nat)) (n : Nat) :
    (newRows hx cs n).Pairwise (fun a b => a.1.2 < b.1.2) := by
  induction cs generalizing n with
  | nil => simp [newRows]
  | cons c cs ih =>
    simp only [newRows, List.pairwise_cons]
    refine ⟨?_, ih _⟩
    intro e he
    have := (newRows_bounds he).2.1
    omega

theorem writesOf_sub_newRows {hx : HashX} {M : List Row} {cs : List (List Nat)} {n : Nat} :
    (writesOf hx M cs n).Sublist (newRows hx cs n) := by
  induction cs generalizing n with
  | nil => simp [writesOf, newRows]
  | cons c cs ih =>
    simp only [writesOf, newRows]
    split
    · exact List.Sublist.cons _ ih
    · exact List.Sublist.cons_cons _ ih

theorem writesOf_hx {hx : HashX} {M : List Row} {cs : List (List Nat)} {n : Nat} {e : Row}
    (h : e ∈ writesOf hx M cs n) : e.1.1 = hx :=
  (newRows_bounds (writesOf_sub_newRows.subset h)).1

theorem keptOf_hx {hx : HashX} {M : List Row} {cs : List (List Nat)} {n : Nat} {k : HashX × Nat}
    (h : k ∈ keptOf hx M cs n) : k.1 = hx := by
  obtain ⟨c, i, _, rfl, _⟩ := mem_keptOf.mp h
  rfl

theorem nodupKeys_newRows (hx : HashX) (cs : List (List Nat)) (n : Nat) : NodupKeys (newRows hx cs n) := by
  unfold NodupKeys
  rw [List.nodup_iff_pairwise_ne, List.pairwise_map]
  exact (newRows_pairwise hx cs n).imp (by intro a b h heq; rw [heq] at h; omega)

theorem nodupKeys_writesOf (hx : HashX) (M : List Row) (cs : List (List Nat)) (n : Nat) :
    NodupKeys (writesOf hx M cs n) := by
  unfold NodupKeys
  exact List.Nodup.sublist (List.Sublist.map _ writesOf_sub_newRows) (nodupKeys_newRows hx cs n)

/-- in `cs.zipIdx`, the index determines the chunk -/
theorem zipIdx_functional {cs : List (List Nat)} {c c' : List Nat} {i : Nat}
    (h : (c, i) ∈ cs.zipIdx) (h' : (c', i) ∈ cs.zipIdx) : c = c' := by
  have h1 := List.mem_zipIdx_iff_getElem?.mp h
  have h2 := List.mem_zipIdx_iff_getElem?.mp h'
  simp only at h1 h2
  rw [h1] at h2
  exact Option.some.inj h2

/-! ### `_compact_hashX` -/

/-- the chunks `_compact_hashX` cuts the history of these rows into -/
def chunksOf (maxRow : Nat) (rows : List Row) : List (List Nat) := chunks maxRow (fullHist rows)

/-- what one `_compact_hashX` call adds to `keys_to_delete` -/
def delsOf (maxRow : Nat) (hx : HashX) (rows : List Row) : List (HashX × Nat) :=
  (rows.map (·.1)).filter (fun k => decide (k ∉ keptOf hx rows (chunksOf maxRow rows) 0))

theorem compactHashX_ok (maxRow : Nat) (hx : HashX) (rows : List Row) (acc acc' : CAcc) (w : Nat)
    (hfr : ∀ k ∈ acc.dels, k.1 ≠ hx)
    (h : compactHashX maxRow hx rows acc = .ok (acc', w)) :
    acc'.writes = acc.writes ++ writesOf hx rows (chunksOf maxRow rows) 0 ∧
    acc'.dels = acc.dels ++ delsOf maxRow hx rows ∧
    acc'.cfc = max acc.cfc (((chunksOf maxRow rows).length - 1 : Nat) : Int) ∧
    (chunksOf maxRow rows).length ≤ 65536 := by
  unfold compactHashX at h
  split at h
  · cases h
  · next acc1 ws hcl =>
    split at h
    · cases h
    · simp only [Except.ok.injEq, Prod.mk.injEq] at h
      obtain ⟨rfl, _⟩ := h
      obtain ⟨h1, h2, h3, h4⟩ := chunkLoop_ok _ _ _ _ _ _ _ _ hcl
      refine ⟨h1, ?_, ?_, ?_⟩
      · simp only
        rw [h2, List.filter_append]
        congr 1
        apply List.filter_eq_self.mpr
        intro k hk
        simp only [decide_eq_true_eq]
        intro hkept
        exact hfr k hk (keptOf_hx hkept)
      · simp only [h3]; rfl
      · by_cases hcs : chunks maxRow (fullHist rows) = []
        · unfold chunksOf; rw [hcs]; simp
        · have := h4 hcs; unfold chunksOf; omega

theorem delsOf_hx {maxRow : Nat} {hx : HashX} {rows : List Row} (hr : ∀ e ∈ rows, e.1.1 = hx)
    {k : HashX × Nat} (h : k ∈ delsOf maxRow hx rows) : k.1 = hx := by
  unfold delsOf at h
  obtain ⟨e, he, rfl⟩ := List.mem_map.mp (List.mem_filter.mp h).1
  exact hr e he

end EV.Compact

import EV.Proofs.IndexRunInv

/-!
`backup_block` + `flush_backup` as a step of the whole-run invariant: from a fully flushed invariant
state for the chain `pre ++ [b]` whose tip height is among the retained heights, `backupFull`
succeeds and leaves an invariant state for `pre` — files, tx counts, history (`histInv_backup`),
UTXO representation (`backupTxs_inverts` over `sysIface`, then the UTXO batch `flushUtxo_rep`),
state record, tip, UTXO count, and the retained undo information of the heights below.
Without the undo row the back-out is refused (`ChainError`).
Core only.
-/
namespace EV.Index
open EV.Spec

/-! ### the result of `backupFull`, explicitly -/

/-- the two batches of `flush_backup` and the system it leaves, when the loops of `backup_block`
    ended on `s` with cache `c` and queued deletes `d` -/
theorem bkResult_explicit (a : Acc Sys) (s : Sys) (b : Block) (c : List ((Hash × Nat) × CacheVal))
    (d : List DelKey) (ha : a.s = setCD s c d) :
    bkResult a s b =
      ([histBackupEffect s (s.m.touched ++ a.touched) (bkSt s.m.st a b).txCount,
        utxoBatchEffect (setCD s c d) (bkSt s.m.st a b)],
       { m := { s.m with cache := [], deletes := [], undoU := [],
                         touched := s.m.touched ++ a.touched,
                         st := bkSt s.m.st a b, dbst := bkSt s.m.st a b,
                         txCounts := s.m.txCounts.dropLast,
                         fsHeight := (bkSt s.m.st a b).height, fsTxCount := (bkSt s.m.st a b).txCount,
                         histFlush := s.m.histFlush + 1 },
         p := applyEffects s.p
                [histBackupEffect s (s.m.touched ++ a.touched) (bkSt s.m.st a b).txCount,
                 utxoBatchEffect (setCD s c d) (bkSt s.m.st a b)] }) := by
  simp [bkResult, ha, setCD, bkSt, histBackupEffect, utxoBatchEffect, hstateOf]

/-- a UTXO batch leaves the history table, its state record and the meta files alone -/
theorem utxoBatch_others (p : Store) (d : List DelKey) (hp : List (HKey × HashX))
    (up : List (UKey × Nat)) (ud : List Nat) (upp : List (Nat × List CacheVal)) (st : Option CState) :
    (applyEffect p (.utxoBatch d hp up ud upp st)).hist = p.hist ∧
    (applyEffect p (.utxoBatch d hp up ud upp st)).hstate = p.hstate ∧
    (applyEffect p (.utxoBatch d hp up ud upp st)).headers = p.headers ∧
    (applyEffect p (.utxoBatch d hp up ud upp st)).txcounts = p.txcounts ∧
    (applyEffect p (.utxoBatch d hp up ud upp st)).hashes = p.hashes := by
  obtain ⟨-, -, h3, h4, h5, h6, h7⟩ := foldl_applyDelKey_rest d p
  exact ⟨h3, h4, h5, h6, h7⟩

/-- …and, without undo operations, the undo table; with a state, the state record is that state -/
theorem utxoBatch_undo_ustate (p : Store) (d : List DelKey) (hp : List (HKey × HashX))
    (up : List (UKey × Nat)) (st : CState) :
    (applyEffect p (.utxoBatch d hp up [] [] (some st))).undo = p.undo ∧
    (applyEffect p (.utxoBatch d hp up [] [] (some st))).ustate = some st := by
  obtain ⟨h1, -⟩ := foldl_applyDelKey_rest d p
  exact ⟨h1, rfl⟩

/-! ### the file invariant -/

theorem take_of_take_eq {α : Type} {l l' : List α} {n m : Nat} (h : l.take n = l'.take n)
    (hm : m ≤ n) : l.take m = l'.take m := by
  have h1 : ∀ x : List α, x.take m = (x.take n).take m := by
    intro x; rw [List.take_take, Nat.min_eq_left hm]
  rw [h1 l, h1 l', h]

/-- the files, the tx-number table and the pointers after a back-out -/
theorem filesInv_backup {pre : List Block} {b : Block} {s s' : Sys} (f : FilesInv (pre ++ [b]) s)
    (hfs : s.m.fsHeight = s.m.st.height)
    (hhashes : s'.p.hashes = s.p.hashes) (hheaders : s'.p.headers = s.p.headers)
    (htxcounts : s'.p.txcounts = s.p.txcounts)
    (htc : s'.m.txCounts = s.m.txCounts.dropLast)
    (hht : s'.m.st.height = s.m.st.height - 1)
    (htx : s'.m.st.txCount = s.m.st.txCount - b.txs.length)
    (hdb : s'.m.dbst = s'.m.st) (hfh : s'.m.fsHeight = s'.m.st.height)
    (hft : s'.m.fsTxCount = s'.m.st.txCount)
    (hhu : s'.m.txHashesU = s.m.txHashesU) (hhd : s'.m.headersU = s.m.headersU) :
    FilesInv pre s' := by
  have hH : s.m.st.height = (pre.length : Int) := by
    have := f.height; rw [List.length_append, List.length_singleton] at this; omega
  have hK : (s'.m.st.height + 1).toNat = pre.length := by omega
  have hKold : (s.m.fsHeight + 1).toNat = pre.length + 1 := by omega
  have hall : allTxids (pre ++ [b]) = allTxids pre ++ b.txs.map (·.id) := by
    rw [allTxids_append, allTxids_singleton]
  have hN : s'.m.st.txCount = (allTxids pre).length := by
    rw [htx, f.stTx, hall]; simp
  have hfsOld : s.m.fsTxCount = (allTxids (pre ++ [b])).length := by
    rw [f.fsTx, hKold]
    have : (pre ++ [b]).take (pre.length + 1) = pre ++ [b] :=
      List.take_of_length_le (by simp)
    rw [this]
  have hUold : (pre ++ [b]).drop (s.m.fsHeight + 1).toNat = [] := by
    rw [hKold]; exact List.drop_of_length_le (by simp)
  exact {
    txCounts := by rw [htc, f.txCounts, cumCounts_snoc, List.dropLast_concat]
    height := by rw [hht, hH]
    order := by rw [hdb, hfh]; omega
    fsTx := by rw [hft, hfh, hK, List.take_length, hN]
    stTx := hN
    dbTx := by rw [hdb, hK, List.take_length, hN]
    hashes := by
      rw [hft, hhashes, hN]
      have hle : (allTxids pre).length ≤ s.m.fsTxCount := by rw [hfsOld, hall]; simp
      have h1 := take_of_take_eq f.hashes hle
      rw [h1, hall, List.take_left', List.take_length]
      rfl
    hashesU := by rw [hhu, f.hashesU, hUold, hfh, hK]; simp
    headersU := by rw [hhd, f.headersU, hUold, hfh, hK]; simp
    headers := by
      rw [hheaders, hfh, hK, List.take_length]
      have hle : pre.length ≤ (s.m.fsHeight + 1).toNat := by omega
      have fh := f.headers
      rw [List.map_take] at fh
      have h1 := take_of_take_eq fh hle
      rw [h1, List.map_append, List.take_left' (by simp)]
    txcountsFile := by
      rw [htxcounts, hfh, hK]
      have hle : pre.length ≤ (s.m.fsHeight + 1).toNat := by omega
      have h1 := take_of_take_eq f.txcountsFile hle
      rw [h1, cumCounts_snoc, List.take_left' (cumCounts_length pre)]
      rw [List.take_of_length_le (by rw [cumCounts_length]; exact Nat.le_refl _)] }

/-! ### the step -/

/-- the retained heights after backing out the block at height `n` -/
def keptAfterBackup (n : Nat) (K : List Nat) : List Nat := K.filter (fun h => decide (h < n))

/-- **`backup_block` + `flush_backup` preserve the extended invariant.**  In a fully flushed
invariant state for `pre ++ [b]` (`pre` non-empty: the real code refuses to back out height 0) whose
tip height `pre.length` is a retained height, the back-out of `b` succeeds with the two batches of
`flush_backup` and leaves a fully flushed invariant state for `pre`; the retained heights are the
previous ones below `pre.length`. -/
theorem fullInv'_backup {cfg : Cfg} {pre : List Block} {b : Block} {K : List Nat} {s : Sys}
    (inv : FullInv' cfg (pre ++ [b]) K s) (hfl : s.m.dbst.height = s.m.st.height)
    (hpre : pre ≠ []) (hk : pre.length ∈ K) :
    ∃ e1 e2 s', backupFull cfg s b = .ok ([e1, e2], s') ∧
      FullInv' cfg pre (keptAfterBackup pre.length K) s' ∧
      s'.m.dbst.height = s'.m.st.height := by
  have base := inv.base
  have f := base.files
  obtain ⟨hc0, hd0, hunf0, -, hfs⟩ := flushed_of_db base hfl
  obtain ⟨-, -, hundoU0⟩ := base.flushedU hfl
  have hassert := assertFlushed_of_inv base hfl.symm
  have hH : s.m.st.height = (pre.length : Int) := by
    have := f.height; rw [List.length_append, List.length_singleton] at this; omega
  have hprelen : 0 < pre.length := List.length_pos_iff.mpr hpre
  have hposH : ¬ s.m.st.height ≤ 0 := by omega
  have htoNat : s.m.st.height.toNat = pre.length := by omega
  have hvn := validChain_last inv.valid
  have hvalidPre := validChain_prefix inv.valid
  have hS := specChain_nodup pre hvalidPre
  have hspec : specChain cfg.act (pre ++ [b]) =
      b.txs.foldl (applyTx cfg.act pre.length) (specChain cfg.act pre) := by
    rw [specChain_snoc]; rfl
  have hundoRow : alookup pre.length s.p.undo =
      some (blockUndo cfg.act pre.length (specChain cfg.act pre) b.txs) := by
    rw [← undoLookup_of_nil hundoU0]
    exact inv.undo pre.length hk pre b [] rfl rfl
  have hrep : RepSys s (b.txs.foldl (applyTx cfg.act pre.length) (specChain cfg.act pre)).utxos := by
    rw [← hspec]; exact base.rep
  obtain ⟨a, hbt, hrepa, htxn, hdelta, htouched⟩ :=
    backupTxs_inverts sysIface cfg pre.length b.txs (specChain cfg.act pre) hS hvn.2 []
      { s := s, txNum := 0 } hrep
  simp only [List.nil_append, Nat.zero_add, Int.zero_sub] at hbt htxn hdelta
  obtain ⟨c, d, ha, -⟩ := backupTxs_sim cfg pre.length b.txs.reverse _ { s := s, txNum := 0 } a [] s
    ⟨rfl, rfl, rfl, rfl, rfl, rfl, rfl⟩ hbt
  simp only at ha
  have hfull : backupFull cfg s b = .ok (bkResult a s b) := by
    rw [backupFull_eq]
    simp [hassert, hposH, htoNat, hundoRow, hbt]
  rw [bkResult_explicit a s b c d ha] at hfull
  refine ⟨_, _, _, hfull, ?_, rfl⟩
  -- abbreviations
  have hst'h : (bkSt s.m.st a b).height = s.m.st.height - 1 := rfl
  have hst't : (bkSt s.m.st a b).txCount = s.m.st.txCount - b.txs.length := by
    show s.m.st.txCount - a.txNum = _
    rw [htxn]
  have hN : (bkSt s.m.st a b).txCount = (specChain cfg.act pre).txs.length := by
    rw [hst't, f.stTx, specChain_txs_length, allTxids_append, allTxids_singleton]; simp
  -- the two batches on the store
  have hE2 : utxoBatchEffect (setCD s c d) (bkSt s.m.st a b) =
      .utxoBatch d (c.map (fun ((txid, idx), cv) => ((pfx txid, idx, cv.txnum), cv.hx)))
        (c.map (fun ((_, idx), cv) => ((cv.hx, idx, cv.txnum), cv.value))) [] []
        (some (bkSt s.m.st a b)) := by
    simp [utxoBatchEffect, setCD, hundoU0]
  have hP : applyEffects s.p
      [histBackupEffect s (s.m.touched ++ a.touched) (bkSt s.m.st a b).txCount,
       utxoBatchEffect (setCD s c d) (bkSt s.m.st a b)] =
      applyEffect (applyEffect s.p
        (histBackupEffect s (s.m.touched ++ a.touched) (bkSt s.m.st a b).txCount))
        (utxoBatchEffect (setCD s c d) (bkSt s.m.st a b)) := rfl
  have hoth := others_histBackup s (s.m.touched ++ a.touched) (bkSt s.m.st a b).txCount
  have hrest := utxoBatch_others (applyEffect s.p
      (histBackupEffect s (s.m.touched ++ a.touched) (bkSt s.m.st a b).txCount)) d
      (c.map (fun ((txid, idx), cv) => ((pfx txid, idx, cv.txnum), cv.hx)))
      (c.map (fun ((_, idx), cv) => ((cv.hx, idx, cv.txnum), cv.value))) [] []
      (some (bkSt s.m.st a b))
  have hrest2 := utxoBatch_undo_ustate (applyEffect s.p
      (histBackupEffect s (s.m.touched ++ a.touched) (bkSt s.m.st a b).txCount)) d
      (c.map (fun ((txid, idx), cv) => ((pfx txid, idx, cv.txnum), cv.hx)))
      (c.map (fun ((_, idx), cv) => ((cv.hx, idx, cv.txnum), cv.value))) (bkSt s.m.st a b)
  rw [← hE2] at hrest hrest2
  rw [hP]
  have hhashes' : (applyEffect s.p
      (histBackupEffect s (s.m.touched ++ a.touched) (bkSt s.m.st a b).txCount)).hashes = s.p.hashes := by
    rw [hoth]
  have hheaders' : (applyEffect s.p
      (histBackupEffect s (s.m.touched ++ a.touched) (bkSt s.m.st a b).txCount)).headers = s.p.headers := by
    rw [hoth]
  have htxcounts' : (applyEffect s.p
      (histBackupEffect s (s.m.touched ++ a.touched) (bkSt s.m.st a b).txCount)).txcounts = s.p.txcounts := by
    rw [hoth]
  have hundo' : (applyEffect s.p
      (histBackupEffect s (s.m.touched ++ a.touched) (bkSt s.m.st a b).txCount)).undo = s.p.undo := by
    rw [hoth]
  -- files
  have f' : FilesInv pre
      { m := { s.m with cache := [], deletes := [], undoU := [],
                        touched := s.m.touched ++ a.touched,
                        st := bkSt s.m.st a b, dbst := bkSt s.m.st a b,
                        txCounts := s.m.txCounts.dropLast,
                        fsHeight := (bkSt s.m.st a b).height, fsTxCount := (bkSt s.m.st a b).txCount,
                        histFlush := s.m.histFlush + 1 },
        p := applyEffect (applyEffect s.p
          (histBackupEffect s (s.m.touched ++ a.touched) (bkSt s.m.st a b).txCount))
          (utxoBatchEffect (setCD s c d) (bkSt s.m.st a b)) } :=
    filesInv_backup f hfs (hrest.2.2.2.2.trans hhashes') (hrest.2.2.1.trans hheaders')
      (hrest.2.2.2.1.trans htxcounts') rfl hst'h hst't rfl rfl rfl rfl rfl
  have hK' : ((bkSt s.m.st a b).height + 1).toNat = pre.length := by rw [hst'h]; omega
  -- the history
  have hhist : HistInv (specChain cfg.act pre)
      (applyEffect s.p (histBackupEffect s (s.m.touched ++ a.touched) (bkSt s.m.st a b).txCount))
      [] (s.m.histFlush + 1) := by
    rw [hN]
    refine histInv_backup s cfg.act pre.length b.txs (s.m.touched ++ a.touched)
      (specOK_chain cfg.act pre).len ?_ ?_
    · have := base.hist
      rw [hunf0, hspec] at this
      exact this
    · intro hx hmem
      exact List.mem_append_right _ (htouched hx (Or.inr hmem))
  -- the ids of the history rows do not grow
  have hids : ∀ e ∈ (applyEffect s.p
      (histBackupEffect s (s.m.touched ++ a.touched) (bkSt s.m.st a b).txCount)).hist,
      e.1.2 ≤ s.m.dbst.flushCount := by
    have hwf : HistWF (Sys.mk { s.m with histFlush := s.m.dbst.flushCount } s.p).p.hist
        (Sys.mk { s.m with histFlush := s.m.dbst.flushCount } s.p).m.histFlush :=
      ⟨base.hist.wf.keys, inv.histIds hfl⟩
    have := (histWF_histBackup _ (s.m.touched ++ a.touched) (bkSt s.m.st a b).txCount hwf).ids
    intro e he
    apply this e
    rw [hist_histBackup_indep s.m { s.m with histFlush := s.m.dbst.flushCount }] at he
    exact he
  have hdbst : s.m.dbst = s.m.st := inv.dbEq hfl
  -- the UTXO rows
  have hw' : RepSysW
      { m := { s.m with cache := [], deletes := [], undoU := [],
                        touched := s.m.touched ++ a.touched,
                        st := bkSt s.m.st a b, dbst := bkSt s.m.st a b,
                        txCounts := s.m.txCounts.dropLast,
                        fsHeight := (bkSt s.m.st a b).height, fsTxCount := (bkSt s.m.st a b).txCount,
                        histFlush := s.m.histFlush + 1 },
        p := applyEffect (applyEffect s.p
          (histBackupEffect s (s.m.touched ++ a.touched) (bkSt s.m.st a b).txCount))
          (utxoBatchEffect (setCD s c d) (bkSt s.m.st a b)) }
      (specChain cfg.act pre).utxos (specChain cfg.act pre).utxos [] := by
    obtain ⟨D, Del, w⟩ := hrepa
    rw [ha] at w
    refine flushUtxo_rep w (txnumFun_of_specOK (specOK_chain cfg.act pre))
      (bkSt s.m.st a b) ⟨?_, ?_⟩ rfl rfl ?_
    · exact (utxoBatch_hu_congr _ s.p (by rw [hoth]) (by rw [hoth]) _ _ _ _ _ _).1
    · exact (utxoBatch_hu_congr _ s.p (by rw [hoth]) (by rw [hoth]) _ _ _ _ _ _).2
    · intro u hu
      have hu' := (specOK_chain cfg.act pre).utxoTx u hu
      obtain ⟨hid, -⟩ := spec_height_eq_bisect cfg.act pre hu'
      have hlt : u.txnum < (allTxids pre).length := by
        rw [← specChain_txs_length cfg.act]
        exact (List.getElem?_eq_some_iff.mp hu').1
      rw [hid]
      apply resolve_of_files f'
      show u.txnum < (allTxids (pre.take ((bkSt s.m.st a b).height + 1).toNat)).length
      rw [hK', List.take_length]; exact hlt
  have hutxoCount : s.m.st.utxoCount + a.delta = ((specChain cfg.act pre).utxos.length : Int) := by
    have h1 := base.utxoCount
    rw [hspec, utxos_length_foldl] at h1
    rw [hdelta, h1]; omega
  have hchainSize : s.m.st.chainSize - b.size = (pre.map (·.size)).sum := by
    rw [inv.chainSize, List.map_append, List.sum_append_nat]
    simp
  exact {
    base := {
      rep := ⟨_, [], hw'⟩
      hist := by
        show HistInv _ _ s.m.unflushed (s.m.histFlush + 1)
        rw [hunf0]
        exact histInv_congr hhist hrest.1
      files := f'
      tip := hvn.1
      dbTip := by
        show b.prev = ((pre.take ((bkSt s.m.st a b).height + 1).toNat).getLast?.map (·.hash)).getD 0
        rw [hK', List.take_length]; exact hvn.1
      utxoCount := hutxoCount
      flushedU := fun _ => ⟨rfl, rfl, rfl⟩
      flushedH := fun _ => hunf0
      ustate := Or.inr hrest2.2 }
    valid := hvalidPre
    kBound := by
      intro h hh
      simp only [keptAfterBackup, List.mem_filter, decide_eq_true_eq] at hh
      exact hh.2
    undo := by
      intro h hh p x q hc hl
      simp only [keptAfterBackup, List.mem_filter, decide_eq_true_eq] at hh
      have h1 := inv.undo h hh.1 p x (q ++ [b]) (by rw [hc]; simp) hl
      rw [← h1]
      rw [undoLookup_of_nil (by rfl), undoLookup_of_nil hundoU0]
      show alookup h (applyEffect _ _).undo = _
      rw [hrest2.1, hundo']
    dbEq := fun _ => rfl
    hstate := by
      show ((applyEffect _ _).hstate.getD {}).flushCount = s.m.histFlush + 1
      rw [hrest.2.1, hstate_histBackup]
      rfl
    fcLe := by
      show s.m.st.flushCount ≤ s.m.histFlush + 1
      have := inv.fcLe
      rw [hdbst] at this
      omega
    histIds := by
      intro _ e he
      have he' : e ∈ (applyEffect _ _).hist := he
      rw [hrest.1] at he'
      show e.1.2 ≤ s.m.st.flushCount
      rw [← hdbst]
      exact hids e he'
    chainSize := hchainSize
    db := by
      show DbInv cfg (pre.take ((bkSt s.m.st a b).height + 1).toNat) _
      rw [hK', List.take_length]
      refine dbInv_flushed hw'.hRows hw'.uRows (histInv_congr hhist hrest.1) ?_ hutxoCount
        hchainSize
      intro e he
      have he' : e ∈ (applyEffect _ _).hist := he
      rw [hrest.1] at he'
      show e.1.2 ≤ s.m.st.flushCount
      rw [← hdbst]
      exact hids e he'
    undoUAbove := by intro e he; exact absurd he List.not_mem_nil }

/-- **Refusal.**  In a flushed invariant state above height 0, a back-out whose `U` row is absent is
refused with the model's `ChainError`, before anything is touched. -/
theorem fullInv'_backup_refused {cfg : Cfg} {chain : List Block} {K : List Nat} {s : Sys}
    (inv : FullInv' cfg chain K s) (hfl : s.m.dbst.height = s.m.st.height)
    (hlen : 2 ≤ chain.length) (hnone : alookup (chain.length - 1) s.p.undo = none) (b : Block) :
    backupFull cfg s b = .error .chainError := by
  have hH := inv.base.files.height
  refine backup_refused_without_undo cfg s b (assertFlushed_of_inv inv.base hfl.symm) (by omega) ?_
  have : s.m.st.height.toNat = chain.length - 1 := by omega
  rw [this]; exact hnone

end EV.Index

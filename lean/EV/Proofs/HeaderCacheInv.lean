import EV.Proofs.HeaderCache

/-!
C11, header proofs: the global invariant of `EV.HeaderCache` under the current code (`Cfg.fixed`),
preserved by every event — any number of requests, any interleaving.
-/
namespace EV.HeaderCache
open EV.Merkle

variable {Node : Type} (H : Node → Node → Node)

structure Inv (s : St Node) : Prop where
  /-- the cache is consistent with the reference chain -/
  cache : CacheInv H s.c s.ref
  pre : s.src <+: s.ref
  /-- no back-out half done: the reference chain is the visible chain -/
  quiet : s.pending = none → s.ref = s.src
  /-- between the two halves of a back-out to `n` hashes: the visible chain is the first `n`
      hashes of the reference chain (the chain before the back-out) -/
  half : ∀ n, s.pending = some n → s.src = s.ref.take n ∧ 0 < n ∧ n < s.ref.length
  reqs : ∀ r ∈ s.reqs, ReqOK H s.c s.truncations s.src s.ref r
  /-- the header part of every request / reply (F24) -/
  hdrs : ∀ r ∈ s.reqs, HdrOK H r

theorem inv_new (s : St Node) (kind : Handler) (first count cp : Nat) (hinv : Inv H s)
    (hnew : HdrOK H (newReq s.truncations s.src s.pending.isSome kind first count cp)) :
    Inv H { s with reqs := s.reqs ++ [newReq s.truncations s.src s.pending.isSome kind first count cp] } := by
  refine ⟨hinv.cache, hinv.pre, hinv.quiet, hinv.half, ?_, ?_⟩
  · intro r hr
    rcases List.mem_append.mp hr with hr | hr
    · exact hinv.reqs r hr
    · simp only [List.mem_singleton] at hr
      subst hr
      exact reqOK_new H _ _ _ _ _ _ _ _ _
  · intro r hr
    rcases List.mem_append.mp hr with hr | hr
    · exact hinv.hdrs r hr
    · simp only [List.mem_singleton] at hr
      subst hr
      exact hnew

theorem inv_header [DecidableEq Node] (s : St Node) (height cp : Nat) (hinv : Inv H s) :
    Inv H (step H Cfg.fixed s (.header height cp)) :=
  inv_new H s .header height 1 cp hinv (hdrOK_header H _ _ _ _ _)

theorem inv_headers [DecidableEq Node] (s : St Node) (first count cp : Nat) (hinv : Inv H s) :
    Inv H (step H Cfg.fixed s (.headers first count cp)) :=
  inv_new H s .headers first count cp hinv (hdrOK_headers H _ _ _ _ _ _)

theorem inv_perform [DecidableEq Node] (s : St Node) (i : Nat) (hinv : Inv H s) :
    Inv H (step H Cfg.fixed s (.perform i)) := by
  simp only [step]
  split
  · exact hinv
  · next r hr =>
    refine ⟨hinv.cache, hinv.pre, hinv.quiet, hinv.half, ?_, ?_⟩
    · intro r' hr'
      rcases List.mem_or_eq_of_mem_set hr' with h | h
      · exact hinv.reqs r' h
      · subst h
        exact reqOK_perform H hinv.pre (hinv.reqs r (List.mem_of_getElem? hr))
    · intro r' hr'
      rcases List.mem_or_eq_of_mem_set hr' with h | h
      · exact hinv.hdrs r' h
      · subst h
        exact hdrOK_perform H (hinv.reqs r (List.mem_of_getElem? hr)).head (hinv.hdrs r (List.mem_of_getElem? hr))

theorem inv_deliver [DecidableEq Node] (s : St Node) (i : Nat) (hinv : Inv H s) :
    Inv H (step H Cfg.fixed s (.deliver i)) := by
  simp only [step]
  split
  · exact hinv
  · next r hr =>
    obtain ⟨d1, d2, d3, d4⟩ := deliverAll_ok H hinv.cache hinv.pre (hinv.reqs r (List.mem_of_getElem? hr))
    refine ⟨d1, hinv.pre, hinv.quiet, hinv.half, ?_, ?_⟩
    · intro r' hr'
      rcases List.mem_or_eq_of_mem_set hr' with h | h
      · exact (hinv.reqs r' h).mono H d2 d3
      · subst h
        exact d4
    · intro r' hr'
      rcases List.mem_or_eq_of_mem_set hr' with h | h
      · exact hinv.hdrs r' h
      · subst h
        exact hdrOK_deliverAll H (hinv.hdrs r (List.mem_of_getElem? hr))

theorem inv_boBegin [DecidableEq Node] (s : St Node) (n : Nat) (hinv : Inv H s) :
    Inv H (step H Cfg.fixed s (.boBegin n)) := by
  simp only [step]
  split
  · next hg =>
    obtain ⟨g1, g2, g3⟩ := hg
    have href := hinv.quiet g1
    simp only [fixed_lowerFirst, if_true]
    refine ⟨hinv.cache, ?_, fun h => (by cases h), ?_, ?_, ?_⟩
    · show s.src.take n <+: s.ref
      rw [href]; exact List.take_prefix _ _
    · intro n' hn'
      simp only [Option.some.injEq] at hn'
      subst hn'
      show s.src.take n = s.ref.take n ∧ 0 < n ∧ n < s.ref.length
      rw [href]
      exact ⟨rfl, g2, g3⟩
    · intro r hr
      obtain ⟨r0, hr0, rfl⟩ := List.mem_map.mp hr
      have := hinv.reqs r0 hr0
      rw [href] at this
      show ReqOK H s.c s.truncations (s.src.take n) s.ref _
      rw [href]
      exact reqOK_lower H n this
    · intro r hr
      obtain ⟨r0, hr0, rfl⟩ := List.mem_map.mp hr
      exact hdrOK_markBo H (hdrOK_see H _ (hinv.hdrs r0 hr0))
  · exact hinv

theorem inv_boEnd [DecidableEq Node] (s : St Node) (hinv : Inv H s) :
    Inv H (step H Cfg.fixed s .boEnd) := by
  simp only [step]
  split
  · exact hinv
  · next n hn =>
    obtain ⟨h1, h2, h3⟩ := hinv.half n hn
    simp only [fixed_lowerFirst, if_true]
    obtain ⟨t1, t2, t3, _⟩ := truncate_length s.c (n : Int) (by omega)
    have hsl : s.src.length = n := by rw [h1, List.length_take]; omega
    refine ⟨?_, List.prefix_refl _, fun _ => rfl, fun n' hn' => (by cases hn'), ?_, ?_⟩
    · show CacheInv H (s.c.truncate (.int n)).1 s.src
      apply (truncate_inv H s.c s.ref (.int n) hinv.cache).congr H
      · rw [hsl]; simpa using t2
      · have : (s.c.truncate (.int n)).1.length ≤ n := by simpa using t2
        rw [h1, List.take_take, Nat.min_eq_left this]
    · intro r hr
      obtain ⟨r0, hr0, rfl⟩ := List.mem_map.mp hr
      exact reqOK_trunc H t3 (hinv.reqs r0 hr0)
    · intro r hr
      obtain ⟨r0, hr0, rfl⟩ := List.mem_map.mp hr
      exact hdrOK_markBo H (hinv.hdrs r0 hr0)

theorem inv_append [DecidableEq Node] (s : St Node) (ns : List Node) (hinv : Inv H s) :
    Inv H (step H Cfg.fixed s (.append ns)) := by
  simp only [step]
  split
  · next hg =>
    have href := hinv.quiet hg
    have hcl : s.c.length ≤ s.src.length := by have := hinv.cache.len; rw [href] at this; exact this
    refine ⟨?_, List.prefix_refl _, fun _ => rfl, fun n' hn' => ?_, ?_, ?_⟩
    · show CacheInv H s.c (s.src ++ ns)
      apply hinv.cache.congr H
      · rw [List.length_append]; omega
      · rw [href, List.take_append_of_le_length hcl]
    · have : s.pending = some n' := hn'
      rw [hg] at this; cases this
    · intro r hr
      obtain ⟨r0, hr0, rfl⟩ := List.mem_map.mp hr
      have := hinv.reqs r0 hr0
      rw [href] at this
      exact reqOK_append H ns hcl this
    · intro r hr
      obtain ⟨r0, hr0, rfl⟩ := List.mem_map.mp hr
      exact hdrOK_see H _ (hinv.hdrs r0 hr0)
  · exact hinv

/-- **the invariant is inductive** (current code): every event preserves it -/
theorem inv_step [DecidableEq Node] (s : St Node) (ev : Ev Node) (hinv : Inv H s) :
    Inv H (step H Cfg.fixed s ev) := by
  cases ev with
  | header height cp => exact inv_header H s height cp hinv
  | headers first count cp => exact inv_headers H s first count cp hinv
  | perform i => exact inv_perform H s i hinv
  | deliver i => exact inv_deliver H s i hinv
  | boBegin n => exact inv_boBegin H s n hinv
  | boEnd => exact inv_boEnd H s hinv
  | append ns => exact inv_append H s ns hinv

theorem inv_run [DecidableEq Node] (s : St Node) (evs : List (Ev Node)) (hinv : Inv H s) :
    Inv H (run H Cfg.fixed s evs) := by
  induction evs generalizing s with
  | nil => exact hinv
  | cons ev evs ih => exact ih _ (inv_step H s ev hinv)

/-- an initial state: the cache consistent with the visible chain (C12 `cache_init`), no request,
    no back-out half done -/
structure Init (s : St Node) : Prop where
  cache : CacheInv H s.c s.src
  ref : s.ref = s.src
  pending : s.pending = none
  reqs : s.reqs = []

theorem Init.inv {s : St Node} (h : Init H s) : Inv H s :=
  ⟨by rw [h.ref]; exact h.cache, by rw [h.ref]; exact List.prefix_refl _, fun _ => h.ref,
    fun n hn => (by rw [h.pending] at hn; cases hn), fun r hr => (by rw [h.reqs] at hr; cases hr),
    fun r hr => (by rw [h.reqs] at hr; cases hr)⟩

end EV.HeaderCache

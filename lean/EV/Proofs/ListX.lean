/-! Small list facts shared by the proof files (core only). -/
namespace EV

theorem List.snoc_induction {α : Type _} {P : List α → Prop} (nil : P [])
    (snoc : ∀ l a, P l → P (l ++ [a])) : ∀ l, P l := by
  intro l
  rw [← List.reverse_reverse l]
  induction l.reverse with
  | nil => simpa using nil
  | cons a r ih => rw [List.reverse_cons]; exact snoc _ _ ih

end EV

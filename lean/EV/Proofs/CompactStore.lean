import EV.Model.Compact

/-!
Store-level facts for the history table: association-list folds of a `histBatch`, the rows of one
hashX in flush-id order (`rowsOf`), and the one sorting lemma everything else goes through
(`rowsOf_char`: the rows of a hashX are *the* strictly id-sorted list with the right members).
Core only.
-/
namespace EV.Compact
open EV.Index

/-- `omega` after unfolding the abbreviation `HashX` (omega only looks at literal `Nat`/`Int`) -/
macro "homega" : tactic => `(tactic| ((try unfold HashX at *); omega))

/-- a LevelDB table is a map: no key twice -/
def NodupKeys (h : List Row) : Prop := (h.map (·.1)).Nodup

/-- the rows of `hx` in flush-id order = what `get_txnums` iterates over -/
def rowsOf (hist : List Row) (hx : HashX) : List Row :=
  (hist.filter (fun e => e.1.1 == hx)).mergeSort (fun a b => decide (a.1.2 ≤ b.1.2))

theorem getTxnums_eq (p : Store) (hx : HashX) :
    getTxnums p hx none = (rowsOf p.hist hx).flatMap (·.2) := rfl

/-! ### aerase / ainsert -/

theorem mem_aerase {k : HashX × Nat} {l : List Row} {e : Row} :
    e ∈ aerase k l ↔ e ∈ l ∧ e.1 ≠ k := by
  simp [aerase, List.mem_filter]

theorem mem_ainsert {k : HashX × Nat} {v : List Nat} {l : List Row} {e : Row} :
    e ∈ ainsert k v l ↔ e = (k, v) ∨ (e ∈ l ∧ e.1 ≠ k) := by
  simp [ainsert, mem_aerase]

theorem nodupKeys_aerase {k : HashX × Nat} {l : List Row} (h : NodupKeys l) :
    NodupKeys (aerase k l) := by
  unfold NodupKeys aerase
  exact List.Nodup.sublist (List.Sublist.map _ List.filter_sublist) h

theorem nodupKeys_ainsert {k : HashX × Nat} {v : List Nat} {l : List Row} (h : NodupKeys l) :
    NodupKeys (ainsert k v l) := by
  have h1 := nodupKeys_aerase (k := k) h
  unfold NodupKeys at *
  simp only [ainsert, List.map_cons, List.nodup_cons]
  refine ⟨?_, h1⟩
  intro hm
  obtain ⟨e, he, hk⟩ := List.mem_map.mp hm
  exact (mem_aerase.mp he).2 hk

theorem mem_foldl_aerase (dels : List (HashX × Nat)) (l : List Row) (e : Row) :
    e ∈ dels.foldl (fun hs k => aerase k hs) l ↔ e ∈ l ∧ e.1 ∉ dels := by
  induction dels generalizing l with
  | nil => simp
  | cons k ks ih =>
    simp only [List.foldl_cons, ih, mem_aerase, List.mem_cons, not_or]
    constructor
    · rintro ⟨⟨h1, h2⟩, h3⟩; exact ⟨h1, h2, h3⟩
    · rintro ⟨h1, h2, h3⟩; exact ⟨⟨h1, h2⟩, h3⟩

theorem nodupKeys_foldl_aerase (dels : List (HashX × Nat)) (l : List Row) (h : NodupKeys l) :
    NodupKeys (dels.foldl (fun hs k => aerase k hs) l) := by
  induction dels generalizing l with
  | nil => simpa using h
  | cons k ks ih => exact ih _ (nodupKeys_aerase h)

theorem mem_foldl_ainsert (puts : List Row) (l : List Row) (e : Row) (hp : NodupKeys puts) :
    e ∈ puts.foldl (fun hs (kv : Row) => ainsert kv.1 kv.2 hs) l ↔
      e ∈ puts ∨ (e ∈ l ∧ e.1 ∉ puts.map (·.1)) := by
  induction puts generalizing l with
  | nil => simp
  | cons kv ps ih =>
    have hp' : NodupKeys ps := by
      unfold NodupKeys at *; exact (List.nodup_cons.mp hp).2
    have hk : kv.1 ∉ ps.map (·.1) := by
      unfold NodupKeys at hp; exact (List.nodup_cons.mp hp).1
    simp only [List.foldl_cons, ih _ hp', mem_ainsert, List.mem_cons, List.map_cons, not_or]
    constructor
    · rintro (h | ⟨h | ⟨h1, h2⟩, h3⟩)
      · exact Or.inl (Or.inr h)
      · exact Or.inl (Or.inl h)
      · exact Or.inr ⟨h1, h2, h3⟩
    · rintro ((h | h) | ⟨h1, h2, h3⟩)
      · subst h; exact Or.inr ⟨Or.inl rfl, hk⟩
      · exact Or.inl h
      · exact Or.inr ⟨Or.inr ⟨h1, h2⟩, h3⟩

theorem nodupKeys_foldl_ainsert (puts : List Row) (l : List Row) (h : NodupKeys l) :
    NodupKeys (puts.foldl (fun hs (kv : Row) => ainsert kv.1 kv.2 hs) l) := by
  induction puts generalizing l with
  | nil => simpa using h
  | cons kv ps ih => exact ih _ (nodupKeys_ainsert h)

/-- the `hist` table after a `histBatch` -/
theorem hist_applyEffect_histBatch (p : Store) (dels : List (HashX × Nat)) (puts : List Row) (st : HState) :
    (applyEffect p (.histBatch dels puts st)).hist =
      puts.foldl (fun hs (kv : Row) => ainsert kv.1 kv.2 hs) (dels.foldl (fun hs k => aerase k hs) p.hist) := rfl

theorem hstate_applyEffect_histBatch (p : Store) (dels : List (HashX × Nat)) (puts : List Row) (st : HState) :
    (applyEffect p (.histBatch dels puts st)).hstate = some st := rfl

theorem ustate_applyEffect_histBatch (p : Store) (dels : List (HashX × Nat)) (puts : List Row) (st : HState) :
    (applyEffect p (.histBatch dels puts st)).ustate = p.ustate := rfl

/-- membership in the table after a batch whose puts have pairwise distinct keys -/
theorem mem_histBatch (p : Store) (dels : List (HashX × Nat)) (puts : List Row) (st : HState)
    (hp : NodupKeys puts) (e : Row) :
    e ∈ (applyEffect p (.histBatch dels puts st)).hist ↔
      e ∈ puts ∨ (e ∈ p.hist ∧ e.1 ∉ dels ∧ e.1 ∉ puts.map (·.1)) := by
  rw [hist_applyEffect_histBatch, mem_foldl_ainsert _ _ _ hp, mem_foldl_aerase]
  constructor
  · rintro (h | ⟨⟨h1, h2⟩, h3⟩)
    · exact Or.inl h
    · exact Or.inr ⟨h1, h2, h3⟩
  · rintro (h | ⟨h1, h2, h3⟩)
    · exact Or.inl h
    · exact Or.inr ⟨⟨h1, h2⟩, h3⟩

theorem nodupKeys_histBatch (p : Store) (dels : List (HashX × Nat)) (puts : List Row) (st : HState)
    (h : NodupKeys p.hist) : NodupKeys (applyEffect p (.histBatch dels puts st)).hist := by
  rw [hist_applyEffect_histBatch]
  exact nodupKeys_foldl_ainsert _ _ (nodupKeys_foldl_aerase _ _ h)

/-! ### keys are unique -/

theorem eq_of_key_eq {l : List Row} (h : NodupKeys l) {a b : Row} (ha : a ∈ l) (hb : b ∈ l)
    (hk : a.1 = b.1) : a = b := by
  induction l with
  | nil => cases ha
  | cons x xs ih =>
    unfold NodupKeys at h
    simp only [List.map_cons, List.nodup_cons] at h
    rcases List.mem_cons.mp ha with rfl | ha'
    · rcases List.mem_cons.mp hb with rfl | hb'
      · rfl
      · exact absurd (List.mem_map.mpr ⟨b, hb', hk.symm⟩) h.1
    · rcases List.mem_cons.mp hb with rfl | hb'
      · exact absurd (List.mem_map.mpr ⟨a, ha', hk⟩) h.1
      · exact ih h.2 ha' hb'

theorem nodup_of_nodupKeys {l : List Row} (h : NodupKeys l) : l.Nodup := by
  induction l with
  | nil => simp
  | cons x xs ih =>
    unfold NodupKeys at h
    simp only [List.map_cons, List.nodup_cons] at h
    refine List.nodup_cons.mpr ⟨fun hm => h.1 (List.mem_map.mpr ⟨x, hm, rfl⟩), ih h.2⟩

theorem alookup_some_mem {k : HashX × Nat} {v : List Nat} {l : List Row}
    (h : alookup k l = some v) : (k, v) ∈ l := by
  induction l with
  | nil => simp [alookup] at h
  | cons x xs ih =>
    obtain ⟨k', v'⟩ := x
    simp only [alookup] at h
    split at h
    · next hk => cases h; subst hk; exact List.mem_cons_self
    · exact List.mem_cons_of_mem _ (ih h)

theorem alookup_of_mem {k : HashX × Nat} {v : List Nat} {l : List Row} (hn : NodupKeys l)
    (h : (k, v) ∈ l) : alookup k l = some v := by
  induction l with
  | nil => cases h
  | cons x xs ih =>
    obtain ⟨k', v'⟩ := x
    unfold NodupKeys at hn
    simp only [List.map_cons, List.nodup_cons] at hn
    simp only [alookup]
    rcases List.mem_cons.mp h with heq | h'
    · cases heq; simp
    · split
      · next hk =>
        subst hk
        exact absurd (List.mem_map.mpr ⟨(k', v), h', rfl⟩) hn.1
      · exact ih hn.2 h'

/-! ### the rows of one hashX -/

theorem mem_rowsOf {hist : List Row} {hx : HashX} {e : Row} :
    e ∈ rowsOf hist hx ↔ e ∈ hist ∧ e.1.1 = hx := by
  simp [rowsOf, List.mem_filter]

theorem rowsOf_pairwise_le (hist : List Row) (hx : HashX) :
    (rowsOf hist hx).Pairwise (fun a b => a.1.2 ≤ b.1.2) := by
  have h := List.pairwise_mergeSort (le := fun (a b : Row) => decide (a.1.2 ≤ b.1.2))
    (by intro a b c; simp only [decide_eq_true_eq]; omega)
    (by intro a b; simp only [Bool.or_eq_true, decide_eq_true_eq]; omega)
    (hist.filter (fun e => e.1.1 == hx))
  exact h.imp (by intro a b hab; simpa using hab)

theorem nodupKeys_rowsOf {hist : List Row} (h : NodupKeys hist) (hx : HashX) :
    NodupKeys (rowsOf hist hx) := by
  unfold NodupKeys rowsOf
  have h1 : ((hist.filter (fun e => e.1.1 == hx)).map (·.1)).Nodup :=
    List.Nodup.sublist (List.Sublist.map _ List.filter_sublist) h
  exact ((List.mergeSort_perm _ _).map _).nodup_iff.mpr h1

theorem rowsOf_pairwise_lt {hist : List Row} (h : NodupKeys hist) (hx : HashX) :
    (rowsOf hist hx).Pairwise (fun a b => a.1.2 < b.1.2) := by
  have h1 := rowsOf_pairwise_le hist hx
  have h2 : (rowsOf hist hx).Pairwise (· ≠ ·) := nodup_of_nodupKeys (nodupKeys_rowsOf h hx)
  refine (h1.and h2).imp_of_mem ?_
  intro a b ha hb ⟨hle, hne⟩
  rcases Nat.lt_or_ge a.1.2 b.1.2 with hlt | hge
  · exact hlt
  · exfalso
    apply hne
    have ha' := mem_rowsOf.mp ha
    have hb' := mem_rowsOf.mp hb
    apply eq_of_key_eq h ha'.1 hb'.1
    apply Prod.ext
    · rw [ha'.2, hb'.2]
    · omega

/-- **the sorting lemma**: the rows of `hx` are the unique strictly id-sorted list with exactly the
    rows of `hx` as members -/
theorem rowsOf_char {hist : List Row} (hn : NodupKeys hist) (hx : HashX) (L : List Row)
    (hs : L.Pairwise (fun a b => a.1.2 < b.1.2))
    (hm : ∀ e, e ∈ L ↔ e ∈ hist ∧ e.1.1 = hx) : rowsOf hist hx = L := by
  apply List.Perm.eq_of_pairwise (le := fun a b => a.1.2 ≤ b.1.2)
  · intro a b ha hb hab hba
    have ha' := mem_rowsOf.mp ha
    have hb' := (hm b).mp hb
    apply eq_of_key_eq hn ha'.1 hb'.1
    apply Prod.ext
    · rw [ha'.2, hb'.2]
    · omega
  · exact rowsOf_pairwise_le hist hx
  · exact hs.imp (by intro a b h; omega)
  · apply (List.perm_ext_iff_of_nodup (nodup_of_nodupKeys (nodupKeys_rowsOf hn hx)) ?_).mpr
    · intro e; rw [mem_rowsOf, hm]
    · exact hs.imp (by intro a b h heq; subst heq; omega)

/-- two tables with the same rows for `hx` give the same history for `hx` -/
theorem rowsOf_congr {h1 h2 : List Row} (hn1 : NodupKeys h1) (hn2 : NodupKeys h2) (hx : HashX)
    (hm : ∀ e : Row, e.1.1 = hx → (e ∈ h2 ↔ e ∈ h1)) : rowsOf h2 hx = rowsOf h1 hx := by
  apply rowsOf_char hn2 hx _ (rowsOf_pairwise_lt hn1 hx)
  intro e
  rw [mem_rowsOf]
  constructor
  · rintro ⟨h, rfl⟩; exact ⟨(hm e rfl).mpr h, rfl⟩
  · rintro ⟨h, rfl⟩; exact ⟨(hm e rfl).mp h, rfl⟩

end EV.Compact

import EV.Model.Merkle
import Mathlib.Data.Nat.Bitwise
import Mathlib.Data.Nat.Log

/-! Arithmetic facts for C12: `^^^ 1`, `>>> k`, `<<< k`, `bit_length` and `Nat.clog`. -/
namespace EV.Merkle

theorem xor_one_even {i : Nat} (h : i % 2 = 0) : i ^^^ 1 = i + 1 :=
  Nat.xor_one_of_even (Nat.even_iff.mpr h)

theorem xor_one_odd {i : Nat} (h : i % 2 = 1) : i ^^^ 1 = i - 1 :=
  Nat.xor_one_of_odd (Nat.odd_iff.mpr h)

theorem shiftRight_one' (i : Nat) : i >>> 1 = i / 2 := by
  rw [Nat.shiftRight_eq_div_pow]

/-- `bit_length` is characterised by `m < 2^k ↔ bit_length m ≤ k` -/
theorem bitLength_le_iff (m k : Nat) : bitLength m ≤ k ↔ m < 2 ^ k := by
  unfold bitLength
  split
  · subst_vars; simp [Nat.pow_pos]
  · rename_i h
    rw [Nat.succ_le_iff, Nat.log2_lt h]

/-- **the fixed `branch_length` is exactly the ceiling of the binary logarithm, for every n ≥ 1** -/
theorem branchLengthNat_eq_clog {n : Nat} (hn : 1 ≤ n) : branchLengthNat n = Nat.clog 2 n := by
  apply Nat.le_antisymm
  · rw [branchLengthNat, bitLength_le_iff]
    have := Nat.le_pow_clog (b := 2) (by omega) n
    omega
  · rw [Nat.clog_le_iff_le_pow (by omega)]
    have := (bitLength_le_iff (n - 1) (branchLengthNat n)).mp (Nat.le_refl _)
    omega

theorem clog_step {n : Nat} (hn : 2 ≤ n) : Nat.clog 2 n = Nat.clog 2 ((n + 1) / 2) + 1 := by
  rw [Nat.clog_of_two_le (by omega) hn]; rfl

theorem clog_one : Nat.clog 2 1 = 0 := Nat.clog_one_right 2

end EV.Merkle

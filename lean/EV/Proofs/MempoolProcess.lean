import EV.Proofs.MempoolAccept

/-!
`_process_mempool` under a sound environment (every race the daemon can produce):
the removal phase, the chunk tasks in any completion order, the deferred fix-point loop.
Result: the call returns, `MpInv` holds afterwards, stored transactions that stay are untouched
objects, and `touched` covers everything that was removed or added (`ProcFacts`).
-/
namespace EV.Mempool

/-! ### removal phase -/

theorem removeOne {W : Hash → Option RawTx} {st : St} {e : Hash × MemPoolTx} (hinv : MpInv W st)
    (he : e ∈ st.txs) :
    ∃ hx', unindex e.1 st.hashXs (txHashXs e.2) = .ok hx' ∧
      MpInv W { txs := st.txs.filter (fun e' => e'.1 != e.1), hashXs := hx' } := by
  have hi : ∀ x ∈ txHashXs e.2, idx st.hashXs x e.1 :=
    fun x hx => (hinv.inverse x e.1).mpr ⟨e.2, he, hx⟩
  obtain ⟨hx', h1, h2, h3⟩ := unindex_ok hinv.wf (nodup_dedup _) hi
  refine ⟨hx', h1, ?_⟩
  constructor
  · exact (List.filter_sublist.map _).nodup hinv.txKeys
  · exact h2
  · intro x h'
    simp only
    rw [h3, hinv.inverse]
    constructor
    · rintro ⟨⟨tx, g1, g2⟩, g3⟩
      refine ⟨tx, List.mem_filter.mpr ⟨g1, ?_⟩, g2⟩
      simp only [bne_iff_ne, ne_eq]
      intro g4
      subst g4
      have : dget st.txs e.1 = some tx := mem_dget hinv.txKeys g1
      have h5 : dget st.txs e.1 = some e.2 := mem_dget hinv.txKeys he
      rw [this] at h5; injection h5 with h5; subst h5
      exact g3 ⟨rfl, g2⟩
    · rintro ⟨tx, g1, g2⟩
      obtain ⟨g3, g4⟩ := List.mem_filter.mp g1
      refine ⟨⟨tx, g3, g2⟩, ?_⟩
      rintro ⟨g5, _⟩
      simp [g5] at g4
  · intro e' he'
    exact hinv.true e' (List.mem_filter.mp he').1

theorem removalLoop_facts {W : Hash → Option RawTx} (L : TxMap) :
    ∀ (st : St) (touched : List HashX), MpInv W st → (∀ e ∈ L, e ∈ st.txs) →
      (L.map (·.1)).Nodup →
      ∃ st' t', removalLoop st touched L = .ok (st', t') ∧ MpInv W st' ∧
        (∀ e', e' ∈ st'.txs ↔ e' ∈ st.txs ∧ e'.1 ∉ L.map (·.1)) ∧
        (∀ x, x ∈ t' ↔ x ∈ touched ∨ ∃ e ∈ L, x ∈ txHashXs e.2) := by
  induction L with
  | nil =>
    intro st touched hinv _ _
    exact ⟨st, touched, rfl, hinv, by simp, by simp⟩
  | cons e rest ih =>
    intro st touched hinv hL hn
    obtain ⟨hx', h1, h2⟩ := removeOne hinv (hL e (by simp))
    simp only [List.map_cons, List.nodup_cons] at hn
    have hrest : ∀ e2 ∈ rest, e2 ∈ ({ txs := st.txs.filter (fun e' => e'.1 != e.1), hashXs := hx' } : St).txs := by
      intro e2 he2
      refine List.mem_filter.mpr ⟨hL e2 (List.mem_cons_of_mem _ he2), ?_⟩
      simp only [bne_iff_ne, ne_eq]
      intro h3
      exact hn.1 (h3 ▸ List.mem_map.mpr ⟨e2, he2, rfl⟩)
    obtain ⟨st', t', h3, h4, h5, h6⟩ := ih _ (touched ++ txHashXs e.2) h2 hrest hn.2
    refine ⟨st', t', ?_, h4, ?_, ?_⟩
    · simp only [removalLoop, h1]; exact h3
    · intro e'
      rw [h5]
      simp only [List.mem_filter, bne_iff_ne, ne_eq, List.map_cons, List.mem_cons, not_or]
      constructor
      · rintro ⟨⟨g1, g2⟩, g3⟩; exact ⟨g1, g2, g3⟩
      · rintro ⟨g1, g2, g3⟩; exact ⟨⟨g1, g2⟩, g3⟩
    · intro x
      rw [h6]
      simp only [List.mem_append, List.mem_cons, exists_eq_or_imp]
      constructor
      · rintro ((g1 | g1) | g1)
        · exact Or.inl g1
        · exact Or.inr (Or.inl g1)
        · exact Or.inr (Or.inr g1)
      · rintro (g1 | g1 | g1)
        · exact Or.inl (Or.inl g1)
        · exact Or.inl (Or.inr g1)
        · exact Or.inr g1

/-- the removal phase of `_process_mempool`: exactly the vanished transactions go, their hashXs
    are touched, nothing raises -/
theorem removal_facts {W : Hash → Option RawTx} {st : St} (hinv : MpInv W st)
    (allHashes : List Hash) (touched : List HashX) :
    ∃ st' t', removalLoop st touched (st.txs.filter (fun e => !allHashes.contains e.1)) = .ok (st', t') ∧
      MpInv W st' ∧
      (∀ e', e' ∈ st'.txs ↔ e' ∈ st.txs ∧ e'.1 ∈ allHashes) ∧
      (∀ x, x ∈ t' ↔ x ∈ touched ∨ ∃ e ∈ st.txs, e.1 ∉ allHashes ∧ x ∈ txHashXs e.2) := by
  obtain ⟨st', t', h1, h2, h3, h4⟩ := removalLoop_facts (W := W)
    (st.txs.filter (fun e => !allHashes.contains e.1)) st touched hinv
    (fun e he => (List.mem_filter.mp he).1)
    ((List.filter_sublist.map _).nodup hinv.txKeys)
  refine ⟨st', t', h1, h2, ?_, ?_⟩
  · intro e'
    rw [h3]
    constructor
    · rintro ⟨g1, g2⟩
      refine ⟨g1, ?_⟩
      apply Classical.byContradiction
      intro g3
      exact g2 (List.mem_map.mpr ⟨e', List.mem_filter.mpr ⟨g1, by simpa using g3⟩, rfl⟩)
    · rintro ⟨g1, g2⟩
      refine ⟨g1, ?_⟩
      intro g3
      obtain ⟨e2, g4, g5⟩ := List.mem_map.mp g3
      have := (List.mem_filter.mp g4).2
      rw [g5] at this
      simp [g2] at this
  · intro x
    rw [h4]
    constructor
    · rintro (g1 | ⟨e, g1, g2⟩)
      · exact Or.inl g1
      · obtain ⟨g3, g4⟩ := List.mem_filter.mp g1
        exact Or.inr ⟨e, g3, by simpa using g4, g2⟩
    · rintro (g1 | ⟨e, g1, g2, g3⟩)
      · exact Or.inl g1
      · exact Or.inr ⟨e, List.mem_filter.mpr ⟨g1, by simpa using g2⟩, g3⟩

/-! ### chunks -/

theorem chunksAux_subset {α : Type} (n : Nat) :
    ∀ (f : Nat) (l : List α) (k : Nat) (a : α), a ∈ (chunksAux n f l).getD k [] → a ∈ l := by
  intro f
  induction f with
  | zero => intro l k a h; simp [chunksAux] at h
  | succ f ih =>
    intro l k a h
    simp only [chunksAux] at h
    split at h
    · simp at h
    · cases k with
      | zero => simp at h; exact List.mem_of_mem_take h
      | succ k =>
        simp only [List.getD_cons_succ] at h
        exact List.mem_of_mem_drop (ih _ _ _ h)

theorem chunksOf_subset {α : Type} {n : Nat} {l : List α} {k : Nat} {a : α}
    (h : a ∈ (chunksOf n l).getD k []) : a ∈ l := chunksAux_subset n _ _ _ _ h

theorem take_drop_disjoint {α : Type} {l : List α} (hn : l.Nodup) (n : Nat) {a : α}
    (h1 : a ∈ l.take n) (h2 : a ∈ l.drop n) : False := by
  have := List.take_append_drop n l
  rw [← this] at hn
  exact (List.nodup_append.mp hn).2.2 a h1 a h2 rfl

theorem chunksAux_disjoint {α : Type} (n : Nat) :
    ∀ (f : Nat) (l : List α), l.Nodup → ∀ (i j : Nat) (a : α),
      a ∈ (chunksAux n f l).getD i [] → a ∈ (chunksAux n f l).getD j [] → i = j := by
  intro f
  induction f with
  | zero => intro l _ i j a h; simp [chunksAux] at h
  | succ f ih =>
    intro l hn i j a hi hj
    by_cases he : l.isEmpty = true
    · simp [chunksAux, he] at hi
    · rw [chunksAux, if_neg he] at hi hj
      have hnd : (l.drop n).Nodup := (List.drop_sublist n l).nodup hn
      cases i with
      | zero =>
        cases j with
        | zero => rfl
        | succ j =>
          exfalso
          simp only [List.getD_cons_zero] at hi
          simp only [List.getD_cons_succ] at hj
          exact take_drop_disjoint hn n hi (chunksAux_subset n _ _ _ _ hj)
      | succ i =>
        cases j with
        | zero =>
          exfalso
          simp only [List.getD_cons_zero] at hj
          simp only [List.getD_cons_succ] at hi
          exact take_drop_disjoint hn n hj (chunksAux_subset n _ _ _ _ hi)
        | succ j =>
          simp only [List.getD_cons_succ] at hi hj
          rw [ih _ hnd i j a hi hj]

theorem chunksAux_nodup {α : Type} (n : Nat) :
    ∀ (f : Nat) (l : List α), l.Nodup → ∀ (k : Nat), ((chunksAux n f l).getD k []).Nodup := by
  intro f
  induction f with
  | zero => intro l _ k; simp [chunksAux]
  | succ f ih =>
    intro l hn k
    simp only [chunksAux]
    split
    · simp
    · cases k with
      | zero => simp only [List.getD_cons_zero]; exact (List.take_sublist n l).nodup hn
      | succ k =>
        simp only [List.getD_cons_succ]
        exact ih _ ((List.drop_sublist n l).nodup hn) k

theorem chunksAux_cover {α : Type} {n : Nat} (hpos : 0 < n) :
    ∀ (f : Nat) (l : List α), l.length ≤ f → ∀ a ∈ l,
      ∃ k, k < (chunksAux n f l).length ∧ a ∈ (chunksAux n f l).getD k [] := by
  intro f
  induction f with
  | zero =>
    intro l hl a ha
    have : l = [] := List.length_eq_zero_iff.mp (by omega)
    subst this; simp at ha
  | succ f ih =>
    intro l hl a ha
    simp only [chunksAux]
    split
    · rename_i he
      have : l = [] := by simpa using he
      subst this; simp at ha
    · rename_i he
      have hne : l ≠ [] := by simpa using he
      have hlen : 0 < l.length := List.length_pos_iff.mpr hne
      rw [← List.take_append_drop n l] at ha
      rcases List.mem_append.mp ha with h1 | h1
      · exact ⟨0, by simp, by simpa using h1⟩
      · have hdl : (l.drop n).length ≤ f := by simp only [List.length_drop]; omega
        obtain ⟨k, h2, h3⟩ := ih _ hdl a h1
        exact ⟨k + 1, by simpa using h2, by simpa using h3⟩

theorem chunksOf_cover {α : Type} {n : Nat} (hpos : 0 < n) {l : List α} {a : α} (ha : a ∈ l) :
    ∃ k, k < (chunksOf n l).length ∧ a ∈ (chunksOf n l).getD k [] :=
  chunksAux_cover hpos _ _ (Nat.le_refl _) a ha

/-! ### `deserialize_txs` and the utxo map of one chunk -/

theorem mem_txMapOf {fetch : Hash → Option RawTx} {hs : List Hash} {e : Hash × MemPoolTx} :
    e ∈ txMapOf fetch hs ↔ e.1 ∈ hs ∧ ∃ t, fetch e.1 = some t ∧ e.2 = mkTx t := by
  induction hs with
  | nil => simp [txMapOf]
  | cons h hs ih =>
    simp only [txMapOf]
    cases hf : fetch h with
    | none =>
      simp only [ih, List.mem_cons]
      constructor
      · rintro ⟨g1, g2⟩; exact ⟨Or.inr g1, g2⟩
      · rintro ⟨g1 | g1, t, g2, g3⟩
        · rw [g1, hf] at g2; cases g2
        · exact ⟨g1, t, g2, g3⟩
    | some t =>
      simp only [List.mem_cons, ih]
      constructor
      · rintro (g1 | ⟨g1, g2⟩)
        · subst g1; exact ⟨Or.inl rfl, t, hf, rfl⟩
        · exact ⟨Or.inr g1, g2⟩
      · rintro ⟨g1 | g1, t', g2, g3⟩
        · left
          rw [g1, hf] at g2; injection g2 with g2; subst g2
          exact Prod.ext g1 g3
        · exact Or.inr ⟨g1, t', g2, g3⟩

theorem keys_txMapOf_sublist (fetch : Hash → Option RawTx) (hs : List Hash) :
    ((txMapOf fetch hs).map (·.1)).Sublist hs := by
  induction hs with
  | nil => simp [txMapOf]
  | cons h hs ih =>
    simp only [txMapOf]
    cases fetch h with
    | none => exact List.Sublist.cons _ ih
    | some t => exact List.Sublist.cons_cons _ ih

theorem UmSound_utxoMapOf {W : Hash → Option RawTx} {lookup : Nat → List Prevout → List (Option Pair)}
    (hl : ∀ k ps p pr, (p, some pr) ∈ List.zip ps (lookup k ps) → truePair W p = some pr)
    (k : Nat) (ps : List Prevout) : UmSound W (utxoMapOf ps (lookup k ps)) := by
  intro p pr h
  exact hl k ps p pr (List.mem_reverse.mp h)

/-! ### generic induction principles for the two loops of `_process_mempool` -/

theorem chunkPhase_ind {allHashes : List Hash} {fetch : Hash → Option RawTx}
    {lookup : Nat → List Prevout → List (Option Pair)} {chunks : List (List Hash)}
    (P : List Nat → Merge → Prop)
    (hstep : ∀ done k m, k ∉ done → P done m →
      ∃ r, fetchAndAccept m.st allHashes fetch lookup k (chunks.getD k []) m.touched = .ok r ∧
        P (done ++ [k]) { st := r.st, txMap := m.txMap ++ r.deferred, um := r.unspent ++ m.um,
                          touched := r.touched }) :
    ∀ (order done : List Nat) (m : Merge), (done ++ order).Nodup → P done m →
      ∃ m', chunkPhase allHashes fetch lookup chunks m order = .ok m' ∧ P (done ++ order) m' := by
  intro order
  induction order with
  | nil => intro done m _ hP; exact ⟨m, rfl, by simpa using hP⟩
  | cons k ks ih =>
    intro done m hn hP
    have hk : k ∉ done := by
      intro h
      exact (List.nodup_append.mp hn).2.2 k h k (by simp) rfl
    obtain ⟨r, h1, h2⟩ := hstep done k m hk hP
    have hn' : ((done ++ [k]) ++ ks).Nodup := by simpa using hn
    obtain ⟨m', h3, h4⟩ := ih (done ++ [k]) _ hn' h2
    refine ⟨m', ?_, by simpa using h4⟩
    simp only [chunkPhase, h1]; exact h3

/-- the same without any condition on `order` (used for the invariant, which needs none) -/
theorem chunkPhase_ind' {allHashes : List Hash} {fetch : Hash → Option RawTx}
    {lookup : Nat → List Prevout → List (Option Pair)} {chunks : List (List Hash)}
    (P : Merge → Prop)
    (hstep : ∀ k m, P m →
      ∃ r, fetchAndAccept m.st allHashes fetch lookup k (chunks.getD k []) m.touched = .ok r ∧
        P { st := r.st, txMap := m.txMap ++ r.deferred, um := r.unspent ++ m.um,
            touched := r.touched }) :
    ∀ (order : List Nat) (m : Merge), P m →
      ∃ m', chunkPhase allHashes fetch lookup chunks m order = .ok m' ∧ P m' := by
  intro order
  induction order with
  | nil => intro m hP; exact ⟨m, rfl, hP⟩
  | cons k ks ih =>
    intro m hP
    obtain ⟨r, h1, h2⟩ := hstep k m hP
    obtain ⟨m', h3, h4⟩ := ih _ h2
    refine ⟨m', ?_, h4⟩
    simp only [chunkPhase, h1]; exact h3

/-- The `while tx_map and len(tx_map) != prior_count` loop: with enough fuel it returns; `P` is
    kept; if every round makes progress (`strict`) it ends with an empty map. -/
theorem deferredLoop_ind (P : St → TxMap → UtxoMap → List HashX → Prop) (strict : Prop)
    (hstep : ∀ st D um t, P st D um t → D ≠ [] →
      ∃ r, acceptTransactions st D um t = .ok r ∧ r.deferred.length ≤ D.length ∧
        (strict → r.deferred.length < D.length) ∧ P r.st r.deferred r.unspent r.touched) :
    ∀ (fuel : Nat) (st : St) (D : TxMap) (um : UtxoMap) (prior : Nat) (t : List HashX),
      (D.length < fuel ∨ (D.length = prior ∧ 0 < fuel)) →
      (strict → prior = 0 ∨ D.length < prior) → P st D um t →
      ∃ st' D' t', deferredLoop fuel st D um prior t = .ok (st', D', t') ∧
        (∃ um', P st' D' um' t') ∧ (strict → D' = []) := by
  intro fuel
  induction fuel with
  | zero => intro st D um prior t hf; omega
  | succ f ih =>
    intro st D um prior t hf hs hP
    simp only [deferredLoop]
    split
    · rename_i hexit
      refine ⟨st, D, t, rfl, ⟨um, hP⟩, ?_⟩
      intro hstrict
      rcases Bool.or_eq_true _ _ |>.mp hexit with h1 | h1
      · simpa using h1
      · have h2 : D.length = prior := by simpa using h1
        rcases hs hstrict with h3 | h3
        · exact List.length_eq_zero_iff.mp (by omega)
        · omega
    · rename_i hcont
      have hc := Bool.or_eq_false_iff.mp (Bool.not_eq_true _ |>.mp hcont)
      have hne : D ≠ [] := by
        intro h; simp [h] at hc
      have hlen : D.length ≠ prior := by
        intro h; simp [h] at hc
      have hpos : 0 < D.length := List.length_pos_iff.mpr hne
      obtain ⟨r, h1, h2, h3, h4⟩ := hstep st D um t hP hne
      simp only [h1]
      have hf' : r.deferred.length < f ∨ (r.deferred.length = D.length ∧ 0 < f) := by
        rcases hf with h5 | h5
        · by_cases h6 : r.deferred.length = D.length
          · exact Or.inr ⟨h6, by omega⟩
          · exact Or.inl (by omega)
        · exact absurd h5.1 hlen
      exact ih r.st r.deferred r.unspent D.length r.touched hf'
        (fun hstrict => Or.inr (h3 hstrict)) h4

/-! ### the sound-environment theorem for the part after the removal phase -/

/-- what the daemon and the index may do while *this* refresh runs -/
structure SoundOn (W : Hash → Option RawTx) (allHashes : List Hash) (fetch : Hash → Option RawTx)
    (lookup : Nat → List Prevout → List (Option Pair)) : Prop where
  fetch : ∀ h ∈ allHashes, ∀ t, fetch h = some t → W h = some t
  valid : Valid W
  lookup : ∀ k ps p pr, (p, some pr) ∈ List.zip ps (lookup k ps) → truePair W p = some pr

theorem EnvSound.soundOn {W : Hash → Option RawTx} {fetch : Hash → Option RawTx}
    {lookup : Nat → List Prevout → List (Option Pair)} (h : EnvSound W fetch lookup)
    (allHashes : List Hash) : SoundOn W allHashes fetch lookup :=
  ⟨fun h' _ t ht => h.fetch h' t ht, h.valid, h.lookup⟩

/-- relation between the state/touched before (`st0`, `t0`) and after (`st`, `t`) some accept calls -/
structure Grow (W : Hash → Option RawTx) (allHashes : List Hash) (st0 : St) (t0 : List HashX)
    (st : St) (t : List HashX) : Prop where
  inv : MpInv W st
  mono : ∀ e ∈ st0.txs, e ∈ st.txs
  fresh : ∀ e' ∈ st.txs, e' ∈ st0.txs ∨ (e'.1 ∈ allHashes ∧ ∀ x ∈ txHashXs e'.2, x ∈ t)
  touchedMono : ∀ x ∈ t0, x ∈ t

theorem Grow.refl {W : Hash → Option RawTx} {allHashes : List Hash} {st : St} {t : List HashX}
    (hinv : MpInv W st) : Grow W allHashes st t st t :=
  ⟨hinv, fun _ h => h, fun _ h => Or.inl h, fun _ h => h⟩

theorem Grow.step {W : Hash → Option RawTx} {allHashes : List Hash} {st0 st : St}
    {t0 t : List HashX} {L : TxMap} {um : UtxoMap} {r : AcceptResult}
    (g : Grow W allHashes st0 t0 st t) (c : CallFacts W st L um t r)
    (hk : ∀ e ∈ L, e.1 ∈ allHashes) : Grow W allHashes st0 t0 r.st r.touched := by
  constructor
  · exact c.inv
  · exact fun e h => c.mono e (g.mono e h)
  · intro e' he'
    rcases c.touchedNew e' he' with h1 | h1
    · rcases g.fresh e' h1 with h2 | ⟨h2, h3⟩
      · exact Or.inl h2
      · exact Or.inr ⟨h2, fun x hx => c.touchedMono x (h3 x hx)⟩
    · rcases c.newKeys e' he' with h2 | h2
      · rcases g.fresh e' h2 with h3 | ⟨h3, _⟩
        · exact Or.inl h3
        · exact Or.inr ⟨h3, h1⟩
      · obtain ⟨e2, h3, h4⟩ := List.mem_map.mp h2
        exact Or.inr ⟨h4 ▸ hk e2 h3, h1⟩
  · exact fun x h => c.touchedMono x (g.touchedMono x h)

theorem fetched_of_txMapOf {W : Hash → Option RawTx} {allHashes : List Hash}
    {fetch : Hash → Option RawTx} (hf : ∀ h ∈ allHashes, ∀ t, fetch h = some t → W h = some t)
    {hs : List Hash} (hsub : ∀ h ∈ hs, h ∈ allHashes) :
    ∀ e ∈ txMapOf fetch hs, Fetched W e ∧ e.1 ∈ allHashes := by
  intro e he
  obtain ⟨h1, t, h2, h3⟩ := mem_txMapOf.mp he
  exact ⟨⟨t, hf _ (hsub _ h1) t h2, h3⟩, hsub _ h1⟩

theorem mem_newHashes {txs : TxMap} {allHashes : List Hash} {h : Hash} :
    h ∈ newHashes txs allHashes ↔ h ∈ allHashes ∧ h ∉ txs.map (·.1) := by
  simp only [newHashes, List.mem_filter, Bool.not_eq_eq_eq_not, Bool.not_true]
  constructor
  · rintro ⟨h1, h2⟩
    refine ⟨h1, fun h3 => ?_⟩
    rw [hasKey_iff.mpr h3] at h2; cases h2
  · rintro ⟨h1, h2⟩
    refine ⟨h1, ?_⟩
    cases h3 : hasKey txs h with
    | false => rfl
    | true => exact absurd (hasKey_iff.mp h3) h2

/-- **`processNew` never raises under a sound environment**, keeps `MpInv`, and `touched` covers
    every transaction it stores. -/
theorem processNew_sound {W : Hash → Option RawTx} {allHashes : List Hash}
    {fetch : Hash → Option RawTx} {lookup : Nat → List Prevout → List (Option Pair)}
    (henv : SoundOn W allHashes fetch lookup) (cs : Nat) {st : St} (hinv : MpInv W st)
    (touched : List HashX) (order : List Nat) :
    ∃ r, processNew cs st allHashes touched fetch lookup order = .ok r ∧
      Grow W allHashes st touched r.st r.touched := by
  unfold processNew
  split
  · exact ⟨_, rfl, Grow.refl hinv⟩
  · -- chunk phase
    let P : Merge → Prop := fun m =>
      Grow W allHashes st touched m.st m.touched ∧ UmSound W m.um ∧
        ∀ e ∈ m.txMap, Fetched W e ∧ e.1 ∈ allHashes
    have hchunk : ∀ k, ∀ h ∈ (chunksOf cs (newHashes st.txs allHashes)).getD k [], h ∈ allHashes :=
      fun k h hh => (mem_newHashes.mp (chunksOf_subset hh)).1
    have hstep : ∀ k m, P m →
        ∃ r, fetchAndAccept m.st allHashes fetch lookup k
            ((chunksOf cs (newHashes st.txs allHashes)).getD k []) m.touched = .ok r ∧
          P { st := r.st, txMap := m.txMap ++ r.deferred, um := r.unspent ++ m.um,
              touched := r.touched } := by
      intro k m ⟨hg, hum, hD⟩
      have hL := fetched_of_txMapOf henv.fetch (hchunk k)
      obtain ⟨r, h1, c⟩ := acceptTransactions_facts
        (UmSound_utxoMapOf henv.lookup k
          (lookupPrevouts allHashes (txMapOf fetch ((chunksOf cs (newHashes st.txs allHashes)).getD k []))))
        henv.valid hg.inv (fun e he => (hL e he).1) m.touched
      refine ⟨r, h1, hg.step c (fun e he => (hL e he).2), ?_, ?_⟩
      · intro p pr hp
        rcases List.mem_append.mp hp with h2 | h2
        · exact UmSound_utxoMapOf henv.lookup k _ p pr (c.unspentSub _ h2)
        · exact hum p pr h2
      · intro e he
        rcases List.mem_append.mp he with h2 | h2
        · exact hD e h2
        · exact hL e (c.sub.subset h2)
    obtain ⟨m, h1, hg, hum, hD⟩ := chunkPhase_ind' P hstep order
      { st := st, txMap := [], um := [], touched := touched }
      ⟨Grow.refl hinv, by intro p pr h; simp at h, by simp⟩
    simp only [h1]
    -- deferred loop
    let Q : St → TxMap → UtxoMap → List HashX → Prop := fun s D um t =>
      Grow W allHashes st touched s t ∧ UmSound W um ∧ ∀ e ∈ D, Fetched W e ∧ e.1 ∈ allHashes
    have hround : ∀ s D um t, Q s D um t → D ≠ [] →
        ∃ r, acceptTransactions s D um t = .ok r ∧ r.deferred.length ≤ D.length ∧
          (False → r.deferred.length < D.length) ∧ Q r.st r.deferred r.unspent r.touched := by
      intro s D um t ⟨hg, hum, hD⟩ _
      obtain ⟨r, h1, c⟩ := acceptTransactions_facts hum henv.valid hg.inv
        (fun e he => (hD e he).1) t
      refine ⟨r, h1, c.sub.length_le, False.elim, hg.step c (fun e he => (hD e he).2), ?_, ?_⟩
      · exact fun p pr hp => hum p pr (c.unspentSub _ hp)
      · exact fun e he => hD e (c.sub.subset he)
    obtain ⟨st', D', t', h2, ⟨_, hg', _, _⟩, _⟩ := deferredLoop_ind Q False hround
      (m.txMap.length + 1) m.st m.txMap m.um 0 m.touched (Or.inl (by omega))
      (fun h => h.elim) ⟨hg, hum, hD⟩
    simp only [h2]
    exact ⟨_, rfl, hg'⟩

/-- everything the property theorems need to know about one `_process_mempool` call -/
structure ProcFacts (W : Hash → Option RawTx) (allHashes : List Hash) (st : St)
    (touched : List HashX) (r : ProcResult) : Prop where
  inv : MpInv W r.st
  /-- a stored transaction whose hash is still listed stays, as the same record -/
  stays : ∀ e ∈ st.txs, e.1 ∈ allHashes → e ∈ r.st.txs
  /-- nothing is kept that the daemon no longer lists -/
  listed : ∀ e ∈ r.st.txs, e.1 ∈ allHashes
  touchedMono : ∀ x ∈ touched, x ∈ r.touched
  /-- every transaction that went is reported -/
  lost : ∀ e ∈ st.txs, e.1 ∉ r.st.txs.map (·.1) → ∀ x ∈ txHashXs e.2, x ∈ r.touched
  /-- every transaction that came is reported -/
  gained : ∀ e ∈ r.st.txs, e.1 ∉ st.txs.map (·.1) → ∀ x ∈ txHashXs e.2, x ∈ r.touched

theorem processMempoolN_sound {W : Hash → Option RawTx} {allHashes : List Hash}
    {fetch : Hash → Option RawTx} {lookup : Nat → List Prevout → List (Option Pair)}
    (henv : SoundOn W allHashes fetch lookup) (cs : Nat) {st : St} (hinv : MpInv W st)
    (touched : List HashX) (h : Int) (order : List Nat) :
    ∃ r, processMempoolN cs st allHashes touched h h fetch lookup order = .ok r ∧
      ProcFacts W allHashes st touched r := by
  obtain ⟨st1, t1, h1, h2, h3, h4⟩ := removal_facts hinv allHashes touched
  obtain ⟨r, h5, g⟩ := processNew_sound henv cs h2 t1 order
  refine ⟨r, ?_, ?_⟩
  · simp only [processMempoolN, ne_eq, not_true_eq_false, if_false, h1]; exact h5
  · have hkeys : ∀ e' ∈ r.st.txs, e'.1 ∈ allHashes := by
      intro e' he'
      rcases g.fresh e' he' with g1 | ⟨g1, _⟩
      · exact ((h3 e').mp g1).2
      · exact g1
    constructor
    · exact g.inv
    · exact fun e he hl => g.mono e ((h3 e).mpr ⟨he, hl⟩)
    · exact hkeys
    · exact fun x hx => g.touchedMono x ((h4 x).mpr (Or.inl hx))
    · intro e he hne x hx
      apply g.touchedMono x
      apply (h4 x).mpr
      right
      refine ⟨e, he, ?_, hx⟩
      intro hl
      exact hne (List.mem_map.mpr ⟨e, g.mono e ((h3 e).mpr ⟨he, hl⟩), rfl⟩)
    · intro e he hne x hx
      rcases g.fresh e he with g1 | ⟨_, g2⟩
      · exact absurd (List.mem_map.mpr ⟨e, ((h3 e).mp g1).1, rfl⟩) hne
      · exact g2 x hx

end EV.Mempool

import EV.Model.Notif

/-! Helper lemmas for C20 (`Notifications`). -/
namespace EV.Notif

theorem maxKey_none {l : List Int} : maxKey l = none ↔ l = [] := by
  cases l with
  | nil => simp [maxKey]
  | cons k ks =>
    simp only [maxKey]
    cases maxKey ks <;> simp

theorem maxKey_mem {l : List Int} {m : Int} (h : maxKey l = some m) : m ∈ l := by
  induction l generalizing m with
  | nil => simp [maxKey] at h
  | cons k ks ih =>
    simp only [maxKey] at h
    cases hm : maxKey ks with
    | none => simp [hm] at h; simp [h]
    | some m' =>
      simp only [hm, Option.some.injEq] at h
      by_cases hle : m' ≤ k
      · simp [hle] at h; simp [h]
      · simp [hle] at h; subst h; exact List.mem_cons_of_mem _ (ih hm)

theorem maxKey_ge {l : List Int} {m : Int} (h : maxKey l = some m) : ∀ k ∈ l, k ≤ m := by
  induction l generalizing m with
  | nil => simp
  | cons k ks ih =>
    simp only [maxKey] at h
    intro x hx
    cases hm : maxKey ks with
    | none =>
      simp [hm] at h
      have : ks = [] := maxKey_none.mp hm
      subst this; subst h; simp at hx; omega
    | some m' =>
      simp only [hm, Option.some.injEq] at h
      have ih' := ih hm
      rcases List.mem_cons.mp hx with rfl | hx
      · by_cases hle : m' ≤ x <;> simp [hle] at h <;> omega
      · have := ih' x hx
        by_cases hle : m' ≤ k <;> simp [hle] at h <;> omega

theorem mem_collect {p : Int → Bool} {d : Dict} {x : HX} :
    x ∈ collect p d ↔ ∃ e ∈ d, p e.1 = true ∧ x ∈ e.2 := by
  simp only [collect, List.mem_flatMap, List.mem_filter]
  constructor
  · rintro ⟨e, ⟨he, hp⟩, hx⟩; exact ⟨e, he, hp, hx⟩
  · rintro ⟨e, he, hp, hx⟩; exact ⟨e, ⟨he, hp⟩, hx⟩

theorem mem_dropKeys {p : Int → Bool} {d : Dict} {e : Int × List HX} :
    e ∈ dropKeys p d ↔ e ∈ d ∧ p e.1 = false := by
  simp [dropKeys, List.mem_filter]

theorem mem_keys {d : Dict} {k : Int} : k ∈ keys d ↔ ∃ e ∈ d, e.1 = k := by
  simp [keys]

theorem mem_keys_dropKeys {p : Int → Bool} {d : Dict} {k : Int} :
    k ∈ keys (dropKeys p d) ↔ k ∈ keys d ∧ p k = false := by
  simp only [mem_keys, mem_dropKeys]
  constructor
  · rintro ⟨e, ⟨he, hp⟩, rfl⟩; exact ⟨⟨e, he, rfl⟩, hp⟩
  · rintro ⟨⟨e, he, rfl⟩, hp⟩; exact ⟨e, ⟨he, hp⟩, rfl⟩

/-- Either an entry is collected or it survives the drop. -/
theorem mem_flatMap_split (p : Int → Bool) (d : Dict) (x : HX) :
    x ∈ d.flatMap (·.2) ↔ x ∈ collect p d ∨ x ∈ (dropKeys p d).flatMap (·.2) := by
  simp only [List.mem_flatMap, mem_collect, mem_dropKeys]
  constructor
  · rintro ⟨e, he, hx⟩
    cases hp : p e.1
    · exact Or.inr ⟨e, ⟨he, hp⟩, hx⟩
    · exact Or.inl ⟨e, he, hp, hx⟩
  · rintro (⟨e, he, _, hx⟩ | ⟨e, ⟨he, _⟩, hx⟩) <;> exact ⟨e, he, hx⟩

/-! ### what `pickHeight` returns -/

def common (s : St) : List Int := (keys s.mp).filter (fun k => (keys s.bp).contains k)

theorem mem_common {s : St} {k : Int} : k ∈ common s ↔ k ∈ keys s.mp ∧ k ∈ keys s.bp := by
  simp [common, List.mem_filter]

theorem pickHeight_some {s : St} {h : Int} (hp : pickHeight s = some h) :
    (h ∈ keys s.mp ∧ h ∈ keys s.bp ∧ ∀ k ∈ common s, k ≤ h) ∨
    (common s = [] ∧ h = s.highest ∧ h ∈ keys s.mp ∧ ∀ k ∈ keys s.mp, k ≤ h) := by
  unfold pickHeight at hp
  simp only at hp
  change (match maxKey (common s) with
    | some h => some h
    | none => match maxKey (keys s.mp) with
      | some m => if m = s.highest then some s.highest else none
      | none => none) = some h at hp
  cases hc : maxKey (common s) with
  | some c =>
    simp only [hc, Option.some.injEq] at hp
    subst hp
    have := mem_common.mp (maxKey_mem hc)
    exact Or.inl ⟨this.1, this.2, maxKey_ge hc⟩
  | none =>
    simp only [hc] at hp
    cases hm : maxKey (keys s.mp) with
    | none => simp [hm] at hp
    | some m =>
      simp only [hm] at hp
      by_cases heq : m = s.highest
      · simp only [heq, if_true, Option.some.injEq] at hp
        subst hp
        refine Or.inr ⟨maxKey_none.mp hc, rfl, ?_, ?_⟩
        · rw [← heq]; exact maxKey_mem hm
        · rw [← heq]; exact maxKey_ge hm
      · simp [heq] at hp

theorem pickHeight_none {s : St} (hp : pickHeight s = none) :
    common s = [] ∧ ∀ m, maxKey (keys s.mp) = some m → m ≠ s.highest := by
  unfold pickHeight at hp
  simp only at hp
  change (match maxKey (common s) with
    | some h => some h
    | none => match maxKey (keys s.mp) with
      | some m => if m = s.highest then some s.highest else none
      | none => none) = none at hp
  cases hc : maxKey (common s) with
  | some c => simp [hc] at hp
  | none =>
    refine ⟨maxKey_none.mp hc, ?_⟩
    intro m hm heq
    simp [hc, hm, heq] at hp

/-! ### `maybeNotify` -/

theorem maybeNotify_highest (s : St) : (maybeNotify s).1.highest = s.highest := by
  unfold maybeNotify; split <;> rfl

theorem maybeNotify_keys_mp (s : St) : ∀ k ∈ keys (maybeNotify s).1.mp, k ∈ keys s.mp := by
  unfold maybeNotify; split
  · intro k hk; exact hk
  · intro k hk; dsimp only at hk; exact (mem_keys_dropKeys.mp hk).1

theorem maybeNotify_keys_bp (s : St) : ∀ k ∈ keys (maybeNotify s).1.bp, k ∈ keys s.bp := by
  unfold maybeNotify; split
  · intro k hk; exact hk
  · intro k hk; dsimp only at hk; exact (mem_keys_dropKeys.mp hk).1

/-- after `_maybe_notify` no height is pending in both dicts -/
theorem maybeNotify_disjoint (s : St) : common (maybeNotify s).1 = [] := by
  unfold maybeNotify
  split
  · next hp => exact (pickHeight_none hp).1
  · next h hp =>
    apply List.eq_nil_iff_forall_not_mem.mpr
    intro k hk
    have hk' := mem_common.mp hk
    simp only at hk'
    obtain ⟨h1, h1'⟩ := mem_keys_dropKeys.mp hk'.1
    obtain ⟨h2, _⟩ := mem_keys_dropKeys.mp hk'.2
    have hkc : k ∈ common s := mem_common.mpr ⟨h1, h2⟩
    rcases pickHeight_some hp with ⟨_, _, hle⟩ | ⟨hnil, _⟩
    · have := hle k hkc
      simp at h1'; omega
    · rw [hnil] at hkc; simp at hkc

/-- nothing pending is lost by `_maybe_notify`: it stays pending or is emitted -/
theorem maybeNotify_keeps (s : St) (x : HX) (hx : x ∈ pending s) :
    x ∈ pending (maybeNotify s).1 ∨ ∃ e, (maybeNotify s).2 = some e ∧ x ∈ e.2 := by
  unfold maybeNotify
  split
  · exact Or.inl hx
  · next h hp =>
    simp only [pending, List.mem_append] at hx ⊢
    rcases hx with hx | hx
    · rcases (mem_flatMap_split (fun k => decide (k ≤ h)) s.mp x).mp hx with hc | hd
      · exact Or.inr ⟨_, rfl, by simp [hc]⟩
      · exact Or.inl (Or.inl hd)
    · rcases (mem_flatMap_split (fun k => decide (k ≤ h)) s.bp x).mp hx with hc | hd
      · exact Or.inr ⟨_, rfl, by simp [hc]⟩
      · exact Or.inl (Or.inr hd)

/-- the height emitted by `_maybe_notify` -/
theorem maybeNotify_emit {s : St} {e : Emit} (he : (maybeNotify s).2 = some e) :
    pickHeight s = some e.1 := by
  unfold maybeNotify at he
  split at he
  · simp at he
  · next h hp => simp at he; rw [← he]; exact hp

/-- everything emitted was pending -/
theorem maybeNotify_emit_sub {s : St} {e : Emit} (he : (maybeNotify s).2 = some e) :
    ∀ x ∈ e.2, x ∈ pending s := by
  unfold maybeNotify at he
  split at he
  · simp at he
  · next h hp =>
    simp at he; subst he
    intro x hx
    simp only [List.mem_append] at hx
    simp only [pending, List.mem_append]
    rcases hx with hx | hx
    · exact Or.inl ((mem_flatMap_split _ _ _).mpr (Or.inl hx))
    · exact Or.inr ((mem_flatMap_split _ _ _).mpr (Or.inl hx))

/-! ### pre-states built by `on_mempool` / `on_block` -/

def preMempool (s : St) (t : List HX) (h : Int) : St :=
  { s with mp := (h, t ++ collect (fun k => h ≤ k) s.mp) :: dropKeys (fun k => h ≤ k) s.mp }

def preBlock (s : St) (t : List HX) (h : Int) : St :=
  { mp := dropKeys (fun k => h < k) s.mp,
    bp := (h, t ++ collect (fun k => h < k) s.mp ++ collect (fun k => h ≤ k) s.bp)
            :: dropKeys (fun k => h ≤ k) s.bp,
    highest := h }

theorem onMempool_eq (s : St) (t : List HX) (h : Int) :
    onMempool s t h = maybeNotify (preMempool s t h) := rfl

theorem onBlock_eq (s : St) (t : List HX) (h : Int) :
    onBlock s t h = maybeNotify (preBlock s t h) := rfl

theorem preMempool_pending (s : St) (t : List HX) (h : Int) (x : HX) :
    x ∈ pending (preMempool s t h) ↔ x ∈ t ∨ x ∈ pending s := by
  simp only [pending, preMempool, List.flatMap_cons, List.mem_append]
  rw [mem_flatMap_split (fun k => decide (h ≤ k)) s.mp x]
  constructor
  · rintro (((h1 | h1) | h1) | h1)
    · exact Or.inl h1
    · exact Or.inr (Or.inl (Or.inl h1))
    · exact Or.inr (Or.inl (Or.inr h1))
    · exact Or.inr (Or.inr h1)
  · rintro (h1 | (h1 | h1) | h1)
    · exact Or.inl (Or.inl (Or.inl h1))
    · exact Or.inl (Or.inl (Or.inr h1))
    · exact Or.inl (Or.inr h1)
    · exact Or.inr h1

theorem preBlock_pending (s : St) (t : List HX) (h : Int) (x : HX) :
    x ∈ pending (preBlock s t h) ↔ x ∈ t ∨ x ∈ pending s := by
  simp only [pending, preBlock, List.flatMap_cons, List.mem_append]
  rw [mem_flatMap_split (fun k => decide (h < k)) s.mp x,
      mem_flatMap_split (fun k => decide (h ≤ k)) s.bp x]
  constructor
  · rintro (h1 | ((h1 | h1) | h1) | h1)
    · exact Or.inr (Or.inl (Or.inr h1))
    · exact Or.inl h1
    · exact Or.inr (Or.inl (Or.inl h1))
    · exact Or.inr (Or.inr (Or.inl h1))
    · exact Or.inr (Or.inr (Or.inr h1))
  · rintro (h1 | (h1 | h1) | (h1 | h1))
    · exact Or.inr (Or.inl (Or.inl (Or.inl h1)))
    · exact Or.inr (Or.inl (Or.inl (Or.inr h1)))
    · exact Or.inl h1
    · exact Or.inr (Or.inl (Or.inr h1))
    · exact Or.inr (Or.inr h1)

theorem keys_preMempool (s : St) (t : List HX) (h : Int) (k : Int) :
    k ∈ keys (preMempool s t h).mp ↔ k = h ∨ (k ∈ keys s.mp ∧ k < h) := by
  simp only [preMempool, keys, List.map_cons, List.mem_cons]
  have := @mem_keys_dropKeys (fun k => decide (h ≤ k)) s.mp k
  simp only [keys] at this
  rw [this]; simp

theorem keys_preBlock_bp (s : St) (t : List HX) (h : Int) (k : Int) :
    k ∈ keys (preBlock s t h).bp ↔ k = h ∨ (k ∈ keys s.bp ∧ k < h) := by
  simp only [preBlock, keys, List.map_cons, List.mem_cons]
  have := @mem_keys_dropKeys (fun k => decide (h ≤ k)) s.bp k
  simp only [keys] at this
  rw [this]; simp

theorem keys_preBlock_mp (s : St) (t : List HX) (h : Int) (k : Int) :
    k ∈ keys (preBlock s t h).mp ↔ (k ∈ keys s.mp ∧ k ≤ h) := by
  simp only [preBlock]
  rw [mem_keys_dropKeys]; simp

/-! ### runs -/

theorem run_append (s : St) (a b : List Op) :
    run s (a ++ b) = ((run (run s a).1 b).1, (run s a).2 ++ (run (run s a).1 b).2) := by
  induction a generalizing s with
  | nil => simp [run]
  | cons op a ih =>
    simp only [List.cons_append, run]
    rw [ih]
    simp [List.append_assoc]

theorem run_snoc (s : St) (a : List Op) (op : Op) :
    run s (a ++ [op]) =
      ((step (run s a).1 op).1, (run s a).2 ++ (step (run s a).1 op).2.toList) := by
  rw [run_append]; simp [run]

theorem handed_append (a b : List Op) : handed (a ++ b) = handed a ++ handed b := by
  induction a with
  | nil => rfl
  | cons op a ih => cases op <;> simp [handed, ih]

/-! ### invariants of reachable states -/

/-- J1: no height pending in both dicts; J2: block entries never above `highest` -/
structure Inv (s : St) : Prop where
  disj : common s = []
  bpLe : ∀ k ∈ keys s.bp, k ≤ s.highest

theorem inv_init : Inv init := ⟨rfl, by simp [init, keys]⟩

theorem inv_onMempool {s : St} (hs : Inv s) (t : List HX) (h : Int) : Inv (onMempool s t h).1 := by
  rw [onMempool_eq]
  refine ⟨maybeNotify_disjoint _, ?_⟩
  intro k hk
  rw [maybeNotify_highest]
  exact hs.bpLe k (maybeNotify_keys_bp (preMempool s t h) k hk)

theorem inv_onBlock (s : St) (t : List HX) (h : Int) : Inv (onBlock s t h).1 := by
  rw [onBlock_eq]
  refine ⟨maybeNotify_disjoint _, ?_⟩
  intro k hk
  rw [maybeNotify_highest]
  have := (keys_preBlock_bp s t h k).mp (maybeNotify_keys_bp _ k hk)
  simp only [preBlock]
  omega

/-- if the picked height bounds every pending key, nothing stays pending -/
theorem drain_of (p : St) (H : Int) (hmp : ∀ k ∈ keys p.mp, k ≤ H) (hbp : ∀ k ∈ keys p.bp, k ≤ H)
    (hpick : pickHeight p = some H) : pending (maybeNotify p).1 = [] := by
  unfold maybeNotify
  rw [hpick]
  simp only [pending]
  have e1 : dropKeys (fun k => decide (k ≤ H)) p.mp = [] := by
    apply List.eq_nil_iff_forall_not_mem.mpr
    intro e he
    have := mem_dropKeys.mp he
    have hk : e.1 ∈ keys p.mp := mem_keys.mpr ⟨e, this.1, rfl⟩
    have := hmp _ hk
    simp_all
  have e2 : dropKeys (fun k => decide (k ≤ H)) p.bp = [] := by
    apply List.eq_nil_iff_forall_not_mem.mpr
    intro e he
    have := mem_dropKeys.mp he
    have hk : e.1 ∈ keys p.bp := mem_keys.mpr ⟨e, this.1, rfl⟩
    have := hbp _ hk
    simp_all
  simp [e1, e2]

/-- The draining step (C2): a mempool report at the height of the last block report (or start)
    leaves nothing pending. -/
theorem onMempool_drains {s : St} (hs : Inv s) (t : List HX) :
    pending (onMempool s t s.highest).1 = [] := by
  rw [onMempool_eq]
  have hkeys : ∀ k ∈ keys (preMempool s t s.highest).mp, k ≤ s.highest := by
    intro k hk
    rcases (keys_preMempool s t s.highest k).mp hk with h1 | h1 <;> omega
  have hH : s.highest ∈ keys (preMempool s t s.highest).mp :=
    (keys_preMempool s t s.highest _).mpr (Or.inl rfl)
  have hbp : ∀ k ∈ keys (preMempool s t s.highest).bp, k ≤ s.highest := hs.bpLe
  apply drain_of _ s.highest hkeys hbp
  cases hq : pickHeight (preMempool s t s.highest) with
  | none =>
    have ⟨_, hne⟩ := pickHeight_none hq
    cases hm : maxKey (keys (preMempool s t s.highest).mp) with
    | none => have := maxKey_none.mp hm; rw [this] at hH; simp at hH
    | some m =>
      have h1 := maxKey_ge hm _ hH
      have h2 := hkeys _ (maxKey_mem hm)
      exact absurd (by show m = s.highest; omega) (hne m hm)
  | some h' =>
    rcases pickHeight_some hq with ⟨h1, hb, _⟩ | ⟨_, h2, _, _⟩
    · rcases (keys_preMempool s t s.highest h').mp h1 with h3 | ⟨h3, _⟩
      · rw [h3]
      · exfalso
        have : h' ∈ common s := mem_common.mpr ⟨h3, hb⟩
        rw [hs.disj] at this; simp at this
    · rw [h2]; rfl

/-- The block-side draining step: a block report at a height for which a mempool entry is
    pending leaves nothing pending. -/
theorem onBlock_drains (s : St) (t : List HX) (h : Int) (hmp : h ∈ keys s.mp) :
    pending (onBlock s t h).1 = [] := by
  rw [onBlock_eq]
  have hmpk : ∀ k ∈ keys (preBlock s t h).mp, k ≤ h :=
    fun k hk => ((keys_preBlock_mp s t h k).mp hk).2
  have hbpk : ∀ k ∈ keys (preBlock s t h).bp, k ≤ h := by
    intro k hk
    rcases (keys_preBlock_bp s t h k).mp hk with h1 | h1 <;> omega
  have h1 : h ∈ keys (preBlock s t h).mp := (keys_preBlock_mp s t h h).mpr ⟨hmp, Int.le_refl _⟩
  have h2 : h ∈ keys (preBlock s t h).bp := (keys_preBlock_bp s t h h).mpr (Or.inl rfl)
  apply drain_of _ h hmpk hbpk
  cases hq : pickHeight (preBlock s t h) with
  | none =>
    have ⟨hc, _⟩ := pickHeight_none hq
    have : h ∈ common (preBlock s t h) := mem_common.mpr ⟨h1, h2⟩
    rw [hc] at this; simp at this
  | some h' =>
    rcases pickHeight_some hq with ⟨h3, _, h5⟩ | ⟨hc, _, _, _⟩
    · have := h5 h (mem_common.mpr ⟨h1, h2⟩)
      have := hmpk _ h3
      congr 1; omega
    · have : h ∈ common (preBlock s t h) := mem_common.mpr ⟨h1, h2⟩
      rw [hc] at this; simp at this

/-- no loss in one step: what was pending or is handed over now stays pending or is emitted -/
theorem step_keeps (s : St) (op : Op) (x : HX)
    (hx : x ∈ pending s ∨ x ∈ handed [op]) :
    x ∈ pending (step s op).1 ∨ ∃ e, (step s op).2 = some e ∧ x ∈ e.2 := by
  cases op with
  | start h =>
    simp only [handed, List.not_mem_nil, or_false] at hx
    exact Or.inl (by simpa [step, start, pending] using hx)
  | mempool t h =>
    simp only [step, onMempool_eq]
    apply maybeNotify_keeps
    rw [preMempool_pending]
    simp only [handed, List.append_nil] at hx
    exact hx.symm
  | block t h =>
    simp only [step, onBlock_eq]
    apply maybeNotify_keeps
    rw [preBlock_pending]
    simp only [handed, List.append_nil] at hx
    exact hx.symm

/-- no loss over a whole run from any state -/
theorem run_keeps (s : St) (ops : List Op) (x : HX)
    (hx : x ∈ pending s ∨ x ∈ handed ops) :
    x ∈ pending (run s ops).1 ∨ x ∈ emitted (run s ops).2 := by
  induction ops generalizing s with
  | nil =>
    simp only [handed, List.not_mem_nil, or_false] at hx
    exact Or.inl (by simpa [run] using hx)
  | cons op ops ih =>
    simp only [run]
    have hsplit : x ∈ pending s ∨ x ∈ handed [op] ∨ x ∈ handed ops := by
      rcases hx with hx | hx
      · exact Or.inl hx
      · have : handed (op :: ops) = handed [op] ++ handed ops := by
          rw [← handed_append]; rfl
        rw [this, List.mem_append] at hx
        exact Or.inr hx
    rcases hsplit with h1 | h1 | h1
    · rcases step_keeps s op x (Or.inl h1) with h2 | ⟨e, he, hxe⟩
      · rcases ih (step s op).1 (Or.inl h2) with h3 | h3
        · exact Or.inl h3
        · exact Or.inr (by simp only [emitted, List.flatMap_append, List.mem_append]; exact Or.inr h3)
      · exact Or.inr (by
          simp only [emitted, List.flatMap_append, List.mem_append, he, Option.toList]
          exact Or.inl (by simpa using hxe))
    · rcases step_keeps s op x (Or.inr h1) with h2 | ⟨e, he, hxe⟩
      · rcases ih (step s op).1 (Or.inl h2) with h3 | h3
        · exact Or.inl h3
        · exact Or.inr (by simp only [emitted, List.flatMap_append, List.mem_append]; exact Or.inr h3)
      · exact Or.inr (by
          simp only [emitted, List.flatMap_append, List.mem_append, he, Option.toList]
          exact Or.inl (by simpa using hxe))
    · rcases ih (step s op).1 (Or.inr h1) with h3 | h3
      · exact Or.inl h3
      · exact Or.inr (by simp only [emitted, List.flatMap_append, List.mem_append]; exact Or.inr h3)

end EV.Notif

import EV.Proofs.TxCodecBasic

/-! Inversion lemmas for the readers, cursor bounds, and behaviour on a truncated buffer. -/
namespace EV.TxCodec

/-! ### inversion -/

theorem readLeU_inv {w : Nat} {buf : Bytes} {c v e : Nat} (h : readLeU w buf c = .ok (v, e)) :
    e = c + w ∧ c + w ≤ buf.length ∧ v = leNat (slice buf c (c + w)) := by
  unfold readLeU at h
  split at h
  · simp only [Except.ok.injEq, Prod.mk.injEq] at h
    exact ⟨h.2.symm, by assumption, h.1.symm⟩
  · cases h

theorem readLeI32_inv {buf : Bytes} {c : Nat} {v : Int} {e : Nat} (h : readLeI32 buf c = .ok (v, e)) :
    e = c + 4 ∧ c + 4 ≤ buf.length ∧ v = natToI32 (leNat (slice buf c (c + 4))) := by
  unfold readLeI32 at h
  split at h
  · simp only [Except.ok.injEq, Prod.mk.injEq] at h
    exact ⟨h.2.symm, by assumption, h.1.symm⟩
  · cases h

theorem readLeI64_inv {buf : Bytes} {c : Nat} {v : Int} {e : Nat} (h : readLeI64 buf c = .ok (v, e)) :
    e = c + 8 ∧ c + 8 ≤ buf.length ∧ v = natToI64 (leNat (slice buf c (c + 8))) := by
  unfold readLeI64 at h
  split at h
  · simp only [Except.ok.injEq, Prod.mk.injEq] at h
    exact ⟨h.2.symm, by assumption, h.1.symm⟩
  · cases h

/-- the four shapes of a successful `read_varint` -/
theorem readVarint_inv {buf : Bytes} {c n e : Nat} (h : readVarint buf c = .ok (n, e)) :
    ∃ m, buf[c]? = some m ∧
      ((m < 253 ∧ n = m ∧ e = c + 1) ∨
       (m = 253 ∧ readLeU 2 buf (c + 1) = .ok (n, e)) ∨
       (m = 254 ∧ readLeU 4 buf (c + 1) = .ok (n, e)) ∨
       (255 ≤ m ∧ readLeU 8 buf (c + 1) = .ok (n, e))) := by
  unfold readVarint at h
  split at h
  · cases h
  · rename_i m hm
    refine ⟨m, hm, ?_⟩
    split at h
    · simp only [Except.ok.injEq, Prod.mk.injEq] at h
      exact Or.inl ⟨by assumption, h.1.symm, h.2.symm⟩
    · split at h
      · exact Or.inr (Or.inl ⟨by assumption, h⟩)
      · split at h
        · exact Or.inr (Or.inr (Or.inl ⟨by assumption, h⟩))
        · exact Or.inr (Or.inr (Or.inr ⟨by omega, h⟩))

theorem readVarint_bounds {buf : Bytes} {c n e : Nat} (h : readVarint buf c = .ok (n, e)) :
    c + 1 ≤ e ∧ e ≤ c + 9 ∧ e ≤ buf.length := by
  obtain ⟨m, hm, h1⟩ := readVarint_inv h
  have hc : c < buf.length := by
    rcases Nat.lt_or_ge c buf.length with h2 | h2
    · exact h2
    · rw [List.getElem?_eq_none h2] at hm; cases hm
  rcases h1 with ⟨_, _, rfl⟩ | ⟨_, h2⟩ | ⟨_, h2⟩ | ⟨_, h2⟩
  · omega
  all_goals (obtain ⟨h3, h4, _⟩ := readLeU_inv h2; omega)

theorem readVarbytes_inv {buf : Bytes} {c : Nat} {s : Bytes} {e : Nat}
    (h : readVarbytes buf c = .ok (s, e)) :
    ∃ n c1, readVarint buf c = .ok (n, c1) ∧ e = c1 + n ∧ s = slice buf c1 (c1 + n) := by
  unfold readVarbytes at h
  split at h
  · cases h
  · rename_i n c1 h1
    simp only [Except.ok.injEq, Prod.mk.injEq] at h
    exact ⟨n, c1, h1, h.2.symm, h.1.symm⟩

theorem readInput_inv {buf : Bytes} {c : Nat} {i : TxIn} {e : Nat} (h : readInput buf c = .ok (i, e)) :
    ∃ c2, readLeU 4 buf (c + 32) = .ok (i.prevIdx, c + 36) ∧
      readVarbytes buf (c + 36) = .ok (i.script, c2) ∧
      readLeU 4 buf c2 = .ok (i.sequence, e) ∧ i.prevHash = slice buf c (c + 32) := by
  unfold readInput at h
  split at h
  · cases h
  · rename_i idx c1 h1
    split at h
    · cases h
    · rename_i sc c2 h2
      split at h
      · cases h
      · rename_i sq c3 h3
        simp only [Except.ok.injEq, Prod.mk.injEq] at h
        obtain ⟨rfl, rfl⟩ := h
        have := (readLeU_inv h1).1
        subst this
        exact ⟨c2, h1, h2, h3, rfl⟩

theorem readOutput_inv {buf : Bytes} {c : Nat} {o : TxOut} {e : Nat} (h : readOutput buf c = .ok (o, e)) :
    readLeI64 buf c = .ok (o.value, c + 8) ∧ readVarbytes buf (c + 8) = .ok (o.pkScript, e) := by
  unfold readOutput at h
  split at h
  · cases h
  · rename_i v c1 h1
    split at h
    · cases h
    · rename_i sc c2 h2
      simp only [Except.ok.injEq, Prod.mk.injEq] at h
      obtain ⟨rfl, rfl⟩ := h
      have := (readLeI64_inv h1).1
      subst this
      exact ⟨h1, h2⟩

theorem readItems_succ_inv {α : Type} {reader : Bytes → Nat → Except PyExc (α × Nat)} {buf : Bytes}
    {k c : Nat} {ys : List α} {e : Nat} (h : readItems reader buf (k + 1) c = .ok (ys, e)) :
    ∃ x xs c1, ys = x :: xs ∧ reader buf c = .ok (x, c1) ∧ readItems reader buf k c1 = .ok (xs, e) := by
  simp only [readItems] at h
  split at h
  · cases h
  · rename_i x c1 h1
    split at h
    · cases h
    · rename_i xs c2 h2
      simp only [Except.ok.injEq, Prod.mk.injEq] at h
      obtain ⟨rfl, rfl⟩ := h
      exact ⟨x, xs, c1, rfl, h1, h2⟩

theorem readMany_inv {α : Type} {reader : Bytes → Nat → Except PyExc (α × Nat)} {buf : Bytes}
    {c : Nat} {xs : List α} {e : Nat} (h : readMany reader buf c = .ok (xs, e)) :
    ∃ n c1, readVarint buf c = .ok (n, c1) ∧ readItems reader buf n c1 = .ok (xs, e) := by
  unfold readMany at h
  split at h
  · cases h
  · rename_i n c1 h1
    exact ⟨n, c1, h1, h⟩

theorem readTx_inv {buf : Bytes} {c : Nat} {t : Tx} {e : Nat} (h : readTx buf c = .ok (t, e)) :
    ∃ c2 c3, readLeI32 buf c = .ok (t.version, c + 4) ∧
      readMany readInput buf (c + 4) = .ok (t.inputs, c2) ∧
      readMany readOutput buf c2 = .ok (t.outputs, c3) ∧
      readLeU 4 buf c3 = .ok (t.locktime, e) := by
  unfold readTx at h
  split at h
  · cases h
  · rename_i v c1 h1
    split at h
    · cases h
    · rename_i ins c2 h2
      split at h
      · cases h
      · rename_i outs c3 h3
        split at h
        · cases h
        · rename_i lt c4 h4
          simp only [Except.ok.injEq, Prod.mk.injEq] at h
          obtain ⟨rfl, rfl⟩ := h
          have := (readLeI32_inv h1).1
          subst this
          exact ⟨c2, c3, h1, h2, h3, h4⟩

/-! ### cursors only move forward -/

def Mono {α : Type} (r : Bytes → Nat → Except PyExc (α × Nat)) : Prop :=
  ∀ buf c x e, r buf c = .ok (x, e) → c ≤ e

theorem readVarbytes_mono : Mono readVarbytes := by
  intro buf c s e h
  obtain ⟨n, c1, h1, rfl, _⟩ := readVarbytes_inv h
  have := readVarint_bounds h1; omega

theorem readInput_mono : Mono readInput := by
  intro buf c i e h
  obtain ⟨c2, _, h2, h3, _⟩ := readInput_inv h
  have := readVarbytes_mono _ _ _ _ h2
  have := (readLeU_inv h3).1; omega

theorem readOutput_mono : Mono readOutput := by
  intro buf c o e h
  obtain ⟨_, h2⟩ := readOutput_inv h
  have := readVarbytes_mono _ _ _ _ h2; omega

theorem readItems_mono {α : Type} {reader : Bytes → Nat → Except PyExc (α × Nat)} (hr : Mono reader)
    (buf : Bytes) (k : Nat) : ∀ c xs e, readItems reader buf k c = .ok (xs, e) → c ≤ e := by
  induction k with
  | zero => intro c xs e h; simp only [readItems, Except.ok.injEq, Prod.mk.injEq] at h; omega
  | succ k ih =>
    intro c ys e h
    obtain ⟨x, xs, c1, _, h1, h2⟩ := readItems_succ_inv h
    have := hr _ _ _ _ h1
    have := ih _ _ _ h2; omega

theorem readMany_mono {α : Type} {reader : Bytes → Nat → Except PyExc (α × Nat)} (hr : Mono reader) :
    Mono (readMany reader) := by
  intro buf c xs e h
  obtain ⟨n, c1, h1, h2⟩ := readMany_inv h
  have := readVarint_bounds h1
  have := readItems_mono hr _ _ _ _ _ h2; omega

/-- every successful `read_tx` consumes at least ten bytes and ends inside the buffer -/
theorem readTx_bounds {buf : Bytes} {c : Nat} {t : Tx} {e : Nat} (h : readTx buf c = .ok (t, e)) :
    c + 10 ≤ e ∧ e ≤ buf.length := by
  obtain ⟨c2, c3, _, h2, h3, h4⟩ := readTx_inv h
  obtain ⟨n, c1, h5, h6⟩ := readMany_inv h2
  obtain ⟨n', c1', h5', h6'⟩ := readMany_inv h3
  have := readVarint_bounds h5
  have := readVarint_bounds h5'
  have := readItems_mono readInput_mono _ _ _ _ _ h6
  have := readItems_mono readOutput_mono _ _ _ _ _ h6'
  obtain ⟨_, _, _⟩ := readLeU_inv h4
  omega


/-! ### truncated buffers -/

theorem slice_take {buf : Bytes} {a b n : Nat} (h : b ≤ n) : slice (buf.take n) a b = slice buf a b := by
  simp only [slice, List.drop_take, List.take_take]
  congr 1; omega

/-- the exceptions the refill loops catch -/
def Soft (e : PyExc) : Prop := e = .indexError ∨ e = .structError

/-- `2^63`: offsets from here on make `unpack_from` raise `OverflowError` -/
def B63 : Nat := 9223372036854775808

theorem unpackErr_soft {c : Nat} (h : c < B63) : Soft (unpackErr c) := by
  unfold unpackErr B63 at *; right; rw [if_neg (by omega)]

/-- on a truncated buffer: the same answer if the read ended inside it, otherwise an error, or –
    for readers that end in a silently truncating slice – some answer with the *same* cursor -/
def TruncW {α : Type} (r : Bytes → Nat → Except PyExc (α × Nat)) : Prop :=
  ∀ buf c x e n, r buf c = .ok (x, e) →
    (e ≤ n → r (buf.take n) c = .ok (x, e)) ∧
    (n < e → (∃ err, r (buf.take n) c = .error err ∧ (e ≤ B63 → Soft err)) ∨
             (∃ x', r (buf.take n) c = .ok (x', e)))

/-- readers that end in a fixed-width read: a truncated buffer gives an error -/
def TruncS {α : Type} (r : Bytes → Nat → Except PyExc (α × Nat)) : Prop :=
  ∀ buf c x e n, r buf c = .ok (x, e) →
    (e ≤ n → r (buf.take n) c = .ok (x, e)) ∧
    (n < e → ∃ err, r (buf.take n) c = .error err ∧ (e ≤ B63 → Soft err))

theorem TruncS.weak {α : Type} {r : Bytes → Nat → Except PyExc (α × Nat)} (h : TruncS r) : TruncW r :=
  fun buf c x e n hr => ⟨(h buf c x e n hr).1, fun hn => Or.inl ((h buf c x e n hr).2 hn)⟩

theorem readLeU_take {w : Nat} {buf : Bytes} {c v e : Nat} (n : Nat) (h : readLeU w buf c = .ok (v, e)) :
    (e ≤ n → readLeU w (buf.take n) c = .ok (v, e)) ∧
    (n < e → readLeU w (buf.take n) c = .error (unpackErr c)) := by
  obtain ⟨rfl, h2, rfl⟩ := readLeU_inv h
  have hl : (buf.take n).length = min n buf.length := List.length_take
  constructor
  · intro hn
    unfold readLeU
    rw [if_pos (by omega), slice_take hn]
  · intro hn
    unfold readLeU
    rw [if_neg (by omega)]

theorem readLeI32_take {buf : Bytes} {c : Nat} {v : Int} {e : Nat} (n : Nat)
    (h : readLeI32 buf c = .ok (v, e)) :
    (e ≤ n → readLeI32 (buf.take n) c = .ok (v, e)) ∧
    (n < e → readLeI32 (buf.take n) c = .error (unpackErr c)) := by
  obtain ⟨rfl, h2, rfl⟩ := readLeI32_inv h
  have hl : (buf.take n).length = min n buf.length := List.length_take
  constructor
  · intro hn
    unfold readLeI32
    rw [if_pos (by omega), slice_take hn]
  · intro hn
    unfold readLeI32
    rw [if_neg (by omega)]

theorem readLeI64_take {buf : Bytes} {c : Nat} {v : Int} {e : Nat} (n : Nat)
    (h : readLeI64 buf c = .ok (v, e)) :
    (e ≤ n → readLeI64 (buf.take n) c = .ok (v, e)) ∧
    (n < e → readLeI64 (buf.take n) c = .error (unpackErr c)) := by
  obtain ⟨rfl, h2, rfl⟩ := readLeI64_inv h
  have hl : (buf.take n).length = min n buf.length := List.length_take
  constructor
  · intro hn
    unfold readLeI64
    rw [if_pos (by omega), slice_take hn]
  · intro hn
    unfold readLeI64
    rw [if_neg (by omega)]

theorem readVarint_truncS : TruncS readVarint := by
  intro buf c v e n h
  obtain ⟨m, hm, hcases⟩ := readVarint_inv h
  have hb := readVarint_bounds h
  have hget : (buf.take n)[c]? = if c < n then buf[c]? else none := List.getElem?_take
  constructor
  · intro hn
    unfold readVarint
    rw [hget, if_pos (by omega), hm]
    rcases hcases with ⟨h1, rfl, rfl⟩ | ⟨rfl, h2⟩ | ⟨rfl, h2⟩ | ⟨h1, h2⟩
    · simp [h1]
    · simp [(readLeU_take n h2).1 hn]
    · simp [(readLeU_take n h2).1 hn]
    · have e1 : ¬ m < 253 := by omega
      have e2 : ¬ m = 253 := by omega
      have e3 : ¬ m = 254 := by omega
      simp [e1, e2, e3, (readLeU_take n h2).1 hn]
  · intro hn
    unfold readVarint
    rw [hget]
    by_cases hc : c < n
    · rw [if_pos hc, hm]
      have hs : e ≤ B63 → Soft (unpackErr (c + 1)) := fun he => unpackErr_soft (by omega)
      rcases hcases with ⟨h1, rfl, rfl⟩ | ⟨rfl, h2⟩ | ⟨rfl, h2⟩ | ⟨h1, h2⟩
      · omega
      · exact ⟨_, by simp [(readLeU_take n h2).2 hn], hs⟩
      · exact ⟨_, by simp [(readLeU_take n h2).2 hn], hs⟩
      · have e1 : ¬ m < 253 := by omega
        have e2 : ¬ m = 253 := by omega
        have e3 : ¬ m = 254 := by omega
        exact ⟨_, by simp [e1, e2, e3, (readLeU_take n h2).2 hn], hs⟩
    · rw [if_neg hc]
      exact ⟨.indexError, rfl, fun _ => Or.inl rfl⟩

theorem readVarbytes_truncW : TruncW readVarbytes := by
  intro buf c s e n h
  obtain ⟨k, c1, h1, rfl, rfl⟩ := readVarbytes_inv h
  have hb := readVarint_bounds h1
  have ht := readVarint_truncS buf c k c1 n h1
  constructor
  · intro hn
    unfold readVarbytes
    rw [ht.1 (by omega)]
    simp only [slice_take hn]
  · intro hn
    rcases Nat.lt_or_ge n c1 with h2 | h2
    · obtain ⟨err, e1, e2⟩ := ht.2 h2
      left
      refine ⟨err, ?_, fun he => e2 (by omega)⟩
      unfold readVarbytes; rw [e1]
    · right
      refine ⟨slice (buf.take n) c1 (c1 + k), ?_⟩
      unfold readVarbytes; rw [ht.1 h2]

theorem readInput_truncS : TruncS readInput := by
  intro buf c i e n h
  obtain ⟨c2, h1, h2, h3, h4⟩ := readInput_inv h
  have m2 := readVarbytes_mono _ _ _ _ h2
  obtain ⟨rfl, _, _⟩ := readLeU_inv h3
  have t1 := readLeU_take n h1
  have t2 := readVarbytes_truncW _ _ _ _ n h2
  have t3 := readLeU_take n h3
  constructor
  · intro hn
    unfold readInput
    rw [t1.1 (by omega)]; simp only []
    rw [t2.1 (by omega)]; simp only []
    rw [t3.1 hn]; simp only []
    rw [slice_take (by omega), ← h4]
  · intro hn
    rcases Nat.lt_or_ge n (c + 36) with h5 | h5
    · refine ⟨_, ?_, fun he => unpackErr_soft (c := c + 32) (by omega)⟩
      unfold readInput; rw [t1.2 h5]
    · rcases Nat.lt_or_ge n c2 with h6 | h6
      · rcases t2.2 h6 with ⟨err, e1, e2⟩ | ⟨x', e1⟩
        · refine ⟨err, ?_, fun he => e2 (by omega)⟩
          unfold readInput; rw [t1.1 h5]; simp only []; rw [e1]
        · refine ⟨_, ?_, fun he => unpackErr_soft (c := c2) (by omega)⟩
          unfold readInput; rw [t1.1 h5]; simp only []; rw [e1]; simp only []; rw [t3.2 hn]
      · refine ⟨_, ?_, fun he => unpackErr_soft (c := c2) (by omega)⟩
        unfold readInput; rw [t1.1 h5]; simp only []; rw [t2.1 h6]; simp only []; rw [t3.2 hn]

theorem readOutput_truncW : TruncW readOutput := by
  intro buf c o e n h
  obtain ⟨h1, h2⟩ := readOutput_inv h
  have m2 := readVarbytes_mono _ _ _ _ h2
  have t1 := readLeI64_take n h1
  have t2 := readVarbytes_truncW _ _ _ _ n h2
  constructor
  · intro hn
    unfold readOutput
    rw [t1.1 (by omega)]; simp only []
    rw [t2.1 hn]
  · intro hn
    rcases Nat.lt_or_ge n (c + 8) with h5 | h5
    · left
      refine ⟨_, ?_, fun he => unpackErr_soft (c := c) (by omega)⟩
      unfold readOutput; rw [t1.2 h5]
    · rcases t2.2 hn with ⟨err, e1, e2⟩ | ⟨x', e1⟩
      · left
        refine ⟨err, ?_, e2⟩
        unfold readOutput; rw [t1.1 h5]; simp only []; rw [e1]
      · right
        refine ⟨⟨o.value, x'⟩, ?_⟩
        unfold readOutput; rw [t1.1 h5]; simp only []; rw [e1]

theorem readItems_truncW {α : Type} {reader : Bytes → Nat → Except PyExc (α × Nat)}
    (hm : Mono reader) (ht : TruncW reader) (k : Nat) : TruncW (fun buf c => readItems reader buf k c) := by
  induction k with
  | zero =>
    intro buf c xs e n h
    simp only [readItems, Except.ok.injEq, Prod.mk.injEq] at h
    obtain ⟨rfl, rfl⟩ := h
    exact ⟨fun _ => rfl, fun _ => Or.inr ⟨[], rfl⟩⟩
  | succ k ih =>
    intro buf c ys e n h
    obtain ⟨x, xs, c1, rfl, h1, h2⟩ := readItems_succ_inv h
    have m1 := hm _ _ _ _ h1
    have m2 := readItems_mono hm _ _ _ _ _ h2
    have t1 := ht _ _ _ _ n h1
    have t2 := ih _ _ _ _ n h2
    simp only at t2
    constructor
    · intro hn
      simp only [readItems, t1.1 (by omega), t2.1 hn]
    · intro hn
      -- what the rest of the list does on the truncated buffer, once the head gave cursor c1
      have rest : ∀ x', reader (buf.take n) c = .ok (x', c1) →
          (∃ err, readItems reader (buf.take n) (k + 1) c = .error err ∧ (e ≤ B63 → Soft err)) ∨
          (∃ ys', readItems reader (buf.take n) (k + 1) c = .ok (ys', e)) := by
        intro x' hx'
        rcases t2.2 hn with ⟨err, e1, e2⟩ | ⟨xs', e1⟩
        · exact Or.inl ⟨err, by simp only [readItems, hx', e1], e2⟩
        · exact Or.inr ⟨x' :: xs', by simp only [readItems, hx', e1]⟩
      rcases Nat.lt_or_ge n c1 with h5 | h5
      · rcases t1.2 h5 with ⟨err, e1, e2⟩ | ⟨x', e1⟩
        · exact Or.inl ⟨err, by simp only [readItems, e1], fun he => e2 (by omega)⟩
        · exact rest x' e1
      · exact rest x (t1.1 h5)

theorem readMany_truncW {α : Type} {reader : Bytes → Nat → Except PyExc (α × Nat)}
    (hm : Mono reader) (ht : TruncW reader) : TruncW (readMany reader) := by
  intro buf c xs e n h
  obtain ⟨k, c1, h1, h2⟩ := readMany_inv h
  have hb := readVarint_bounds h1
  have m2 := readItems_mono hm _ _ _ _ _ h2
  have t1 := readVarint_truncS _ _ _ _ n h1
  have t2 := readItems_truncW hm ht k _ _ _ _ n h2
  simp only at t2
  constructor
  · intro hn
    unfold readMany; rw [t1.1 (by omega)]; exact t2.1 hn
  · intro hn
    rcases Nat.lt_or_ge n c1 with h5 | h5
    · obtain ⟨err, e1, e2⟩ := t1.2 h5
      left
      refine ⟨err, ?_, fun he => e2 (by omega)⟩
      unfold readMany; rw [e1]
    · unfold readMany; rw [t1.1 h5]; exact t2.2 hn

theorem readTx_truncS : TruncS readTx := by
  intro buf c t e n h
  obtain ⟨c2, c3, h1, h2, h3, h4⟩ := readTx_inv h
  have m2 := readMany_mono readInput_mono _ _ _ _ h2
  have m3 := readMany_mono readOutput_mono _ _ _ _ h3
  obtain ⟨rfl, _, _⟩ := readLeU_inv h4
  have t1 := readLeI32_take n h1
  have t2 := readMany_truncW readInput_mono readInput_truncS.weak _ _ _ _ n h2
  have t3 := readMany_truncW readOutput_mono readOutput_truncW _ _ _ _ n h3
  have t4 := readLeU_take n h4
  constructor
  · intro hn
    unfold readTx
    rw [t1.1 (by omega)]; simp only []
    rw [t2.1 (by omega)]; simp only []
    rw [t3.1 (by omega)]; simp only []
    rw [t4.1 hn]
  · intro hn
    have soft3 : c3 + 4 ≤ B63 → Soft (unpackErr c3) := fun he => unpackErr_soft (by omega)
    -- once the outputs were read with cursor c3, the locktime read fails
    have tail : ∀ ins' outs', readMany readInput (buf.take n) (c + 4) = .ok (ins', c2) →
        readMany readOutput (buf.take n) c2 = .ok (outs', c3) → readLeI32 (buf.take n) c = .ok (t.version, c + 4) →
        ∃ err, readTx (buf.take n) c = .error err ∧ (c3 + 4 ≤ B63 → Soft err) := by
      intro ins' outs' e2 e3 e1
      refine ⟨_, ?_, soft3⟩
      unfold readTx; rw [e1]; simp only []; rw [e2]; simp only []; rw [e3]; simp only []; rw [t4.2 hn]
    -- once the inputs were read with cursor c2
    have mid : ∀ ins', readMany readInput (buf.take n) (c + 4) = .ok (ins', c2) →
        readLeI32 (buf.take n) c = .ok (t.version, c + 4) →
        ∃ err, readTx (buf.take n) c = .error err ∧ (c3 + 4 ≤ B63 → Soft err) := by
      intro ins' e2 e1
      rcases Nat.lt_or_ge n c3 with h6 | h6
      · rcases t3.2 h6 with ⟨err, e3, s3⟩ | ⟨outs', e3⟩
        · refine ⟨err, ?_, fun he => s3 (by omega)⟩
          unfold readTx; rw [e1]; simp only []; rw [e2]; simp only []; rw [e3]
        · exact tail ins' outs' e2 e3 e1
      · exact tail ins' _ e2 (t3.1 h6) e1
    rcases Nat.lt_or_ge n (c + 4) with h5 | h5
    · refine ⟨_, ?_, fun he => unpackErr_soft (c := c) (by omega)⟩
      unfold readTx; rw [t1.2 h5]
    · rcases Nat.lt_or_ge n c2 with h6 | h6
      · rcases t2.2 h6 with ⟨err, e2, s2⟩ | ⟨ins', e2⟩
        · refine ⟨err, ?_, fun he => s2 (by omega)⟩
          unfold readTx; rw [t1.1 h5]; simp only []; rw [e2]
        · exact mid ins' e2 (t1.1 h5)
      · exact mid _ (t2.1 h6) (t1.1 h5)

/-- **truncated_fails** (with the error class): if `read_tx(buf, c)` succeeds ending at `e`, then on
    every `buf[:n]`, `n < e`, it raises, and – cursors below `2^63` – raises `IndexError` or
    `struct.error`, the classes the refill loops catch. -/
theorem readTx_truncated {buf : Bytes} {c : Nat} {t : Tx} {e : Nat} (h : readTx buf c = .ok (t, e))
    {n : Nat} (hn : n < e) :
    ∃ err, readTx (buf.take n) c = .error err ∧ (e ≤ B63 → Soft err) :=
  (readTx_truncS buf c t e n h).2 hn

end EV.TxCodec

import EV.Proofs.Rpc

/-! Helper lemmas for C16: the handler bodies (`exec`) fail only with protocol errors, and what an
error leaves behind. -/
namespace EV.Rpc

/-! ### backend helpers -/

theorem rawHeader_err {w : World} {h : Nat} {e : PyExc} (he : rawHeader w h = .error e) :
    e = .rpcError Gen.badRequest := by
  unfold rawHeader at he
  split at he
  · cases he; rfl
  · cases he

theorem merkleProof_err {w : World} {cp h : Nat} {e : PyExc} (he : merkleProof w cp h = .error e) :
    e = .rpcError Gen.badRequest := by
  unfold merkleProof at he
  split at he
  · cases he
  · cases he; rfl

theorem blockHeaderCore_err {w : World} {h cp : Nat} {e : PyExc}
    (he : blockHeaderCore w h cp = .error e) : e = .rpcError Gen.badRequest := by
  unfold blockHeaderCore at he
  split at he
  · rename_i e' he'; cases he; exact rawHeader_err he'
  · split at he
    · cases he
    · split at he
      · cases he
      · rename_i e' he'; cases he; exact merkleProof_err he'

theorem blockHeadersCore_err {cap : Nat} {w : World} {s c cp : Nat} {e : PyExc}
    (he : blockHeadersCore false cap w s c cp = .error e) : e = .rpcError Gen.badRequest := by
  unfold blockHeadersCore at he
  simp only [Bool.false_and, Bool.false_eq_true, if_false] at he
  split at he
  · split at he
    · cases he
    · rename_i e' he'; cases he; exact merkleProof_err he'
  · cases he

theorem toExcept_err {r : HistRes} {e : PyExc} (he : r.toExcept = .error e) :
    e = .rpcError Gen.badRequest := by
  cases r <;> simp [HistRes.toExcept] at he
  exact he.symm

theorem limitedHistory_err {w : World} {m : Mgr} {hx : Bytes} {e : PyExc}
    (he : (limitedHistory w m hx).2 = .error e) : e = .rpcError Gen.badRequest := by
  unfold limitedHistory at he
  split at he <;> exact toExcept_err he

theorem addressStatus_err {w : World} {st : St} {hx : Bytes} {e : PyExc}
    (he : (addressStatus w st hx).2 = .error e) : e = .rpcError Gen.badRequest := by
  unfold addressStatus at he
  split at he
  · rename_i m e' heq
    simp only at he
    cases he
    have : (limitedHistory w st.mgr hx).2 = .error e := by rw [heq]
    exact limitedHistory_err this
  · simp at he

theorem txHashesAt_err {w : World} {m : Mgr} {h : Nat} {e : PyExc}
    (he : (txHashesAt w m h).2 = .error e) : e = .rpcError Gen.badRequest := by
  unfold txHashesAt at he
  split at he
  · simp at he
  · split at he
    · simp at he; exact he.symm
    · simp at he

/-! ### every handler body fails only with a protocol error -/

theorem execGetHistory_good (w : World) (st : St) (hx : Bytes) : Good (execGetHistory w st hx).2 := by
  intro e he
  unfold execGetHistory at he
  split at he
  · simp at he
  · rename_i m e' heq
    simp only at he
    cases he
    have : (limitedHistory w st.mgr hx).2 = .error e := by rw [heq]
    rw [limitedHistory_err this]; rfl

theorem execSubscribe_good (w : World) (st : St) (hx : Bytes) (a : String) :
    Good (execSubscribe w st hx a).2 := by
  intro e he
  unfold execSubscribe at he
  split at he
  · simp at he
  · rename_i st' e' heq
    simp only at he
    cases he
    have : (addressStatus w st hx).2 = .error e := by rw [heq]
    rw [addressStatus_err this]; rfl

theorem execGetMerkle_good (w : World) (st : St) (t : Bytes) (h : Nat) :
    Good (execGetMerkle w st t h).2 := by
  intro e he
  unfold execGetMerkle at he
  split at he
  · rename_i m e' heq
    simp only at he
    cases he
    have : (txHashesAt w st.mgr h).2 = .error e := by rw [heq]
    rw [txHashesAt_err this]; rfl
  · split at he
    · simp only at he; cases he; rfl
    · simp at he

theorem execGetTscMerkle_good (w : World) (st : St) (t : Bytes) (h : Nat) (b : Bool) (j : J) :
    Good (execGetTscMerkle w st t h b j).2 := by
  intro e he
  unfold execGetTscMerkle at he
  split at he
  · rename_i m e' heq
    simp only at he
    cases he
    have : (txHashesAt w st.mgr h).2 = .error e := by rw [heq]
    rw [txHashesAt_err this]; rfl
  · split at he
    · simp only at he; cases he; rfl
    · split at he
      · rename_i e' he'
        simp only at he
        cases he
        rw [rawHeader_err he']; rfl
      · split at he
        · simp only at he; cases he; rfl
        · simp at he

theorem execIdFromPos_good (w : World) (st : St) (h pos : Nat) (b : Bool) :
    Good (execIdFromPos w st h pos b).2 := by
  intro e he
  unfold execIdFromPos at he
  split at he
  · rename_i m e' heq
    simp only at he
    cases he
    have : (txHashesAt w st.mgr h).2 = .error e := by rw [heq]
    rw [txHashesAt_err this]; rfl
  · split at he
    · simp only at he; cases he; rfl
    · split at he <;> simp at he

/-- the exceptions `getaddrinfo` is assumed to raise (by class name) -/
def ResolverRaises (raises : List String) (w : World) : Prop :=
  ∀ host e, w.resolve host = .error e → raises.contains e.name = true

theorem execAddPeerWith_good {caught raises : List String} {w : World}
    (hsub : ∀ n, raises.contains n = true → caught.contains n = true)
    (hres : ResolverRaises raises w) (st : St) (f : J) :
    Good (execAddPeerWith caught w st f).2 := by
  intro e he
  unfold execAddPeerWith at he
  split at he
  · simp at he
  · split at he
    · simp at he
    · split at he
      · simp at he
      · split at he
        · simp at he
        · rename_i host _ e' he'
          split at he
          · simp at he
          · rename_i hn
            exact absurd (hsub _ (hres _ _ he')) hn

theorem execVersion_good (hc : CaughtOK) (w : World) (st : St) (n p : J) :
    Good (execVersion w st n p).2 := by
  intro e he
  unfold execVersion at he
  split at he
  · simp only at he; cases he; rfl
  · split at he
    · simp only at he; cases he; rfl
    · obtain ⟨r, hr⟩ := protocolVersion_ok hc w.intOfStr p Gen.protocolMin Gen.protocolMax
      rw [hr] at he
      cases r with
      | none => simp only at he; cases he; rfl
      | some pt => simp at he

/-- closed facts about the generated constants that the totality of the bodies needs -/
def BodyOK (raises : List String) : Prop :=
  Gen.headersCostUnclamped = false ∧
  ∀ n ∈ raises, Gen.addPeerCaught.contains n = true

instance (raises : List String) : Decidable (BodyOK raises) := by unfold BodyOK; infer_instance

theorem exec_good {raises : List String} (hc : CaughtOK) (hb : BodyOK raises) {w : World}
    (hres : ResolverRaises raises w) (st : St) (r : Req) : Good (exec w st r).2 := by
  cases r <;> simp only [exec]
  case blockHeader h cp => intro e he; rw [blockHeaderCore_err he]; rfl
  case blockHeaders s c cp =>
    intro e he
    rw [hb.1] at he
    rw [blockHeadersCore_err he]; rfl
  case getHistory hx => exact execGetHistory_good w st hx
  case subscribe hx a => exact execSubscribe_good w st hx a
  case broadcast raw => split <;> first | exact good_ok _ | exact good_rpc _
  case txGet t => split <;> first | exact good_ok _ | exact good_rpc _
  case getMerkle t h => exact execGetMerkle_good w st t h
  case getTscMerkle t h b j => exact execGetTscMerkle_good w st t h b j
  case idFromPos h p b => exact execIdFromPos_good w st h p b
  case addPeer f =>
    refine execAddPeerWith_good ?_ hres st f
    intro n hn
    exact hb.2 n (by simpa using hn)
  case version n p => exact execVersion_good hc w st n p
  all_goals exact good_ok _

/-- **totality of the modelled request path** -/
theorem dispatch_good {raises : List String} (hc : CaughtOK) (ht : TableOK) (hb : BodyOK raises)
    {w : World} (hres : ResolverRaises raises w) (st : St) (m : String) (args : Args) :
    Good (dispatch w st m args).2 := by
  unfold dispatch
  split
  · rename_i e he
    intro e' he'
    simp only at he'
    cases he'
    exact parseRequest_good hc ht w st m args e he
  · exact exec_good hc hb hres st _

end EV.Rpc

import EV.Model.Peers

/-! Lemmas about the model of `Peer` construction from decoded JSON (core tactics only). -/
namespace EV.Peers

/-- The CPython fact the "never raises" claim needs: `str(i)` succeeds for `0` and for every
integer that `int(s)` can return (both directions are subject to the same digit limit). -/
def PyStrOK (P : Py) : Prop :=
  (P.strOfInt 0).isSome = true ∧ ∀ s v, P.intOfString s = some v → (P.strOfInt v).isSome = true

/-! ### ports and pruning -/

theorem port_range {P : Py} {host : String} {feats : List (String × J)} {key : String} {p : Int}
    (h : port P host feats key = some p) : 0 < p ∧ p < 65536 := by
  unfold port at h
  split at h
  · split at h
    · split at h
      · rename_i hc
        simp only [Option.some.injEq] at h
        subst h
        simp only [Bool.and_eq_true, decide_eq_true_eq] at hc
        exact hc.2
      · cases h
    · cases h
  · cases h

theorem pruning_pos {P : Py} {feats : List (String × J)} {p : Int}
    (h : pruning P feats = some p) : 0 < p := by
  unfold pruning at h
  split at h
  · split at h
    · rename_i hc
      simp only [Option.some.injEq] at h
      subst h
      simp only [Bool.and_eq_true, decide_eq_true_eq] at hc
      exact hc.2
    · cases h
  · cases h

/-! ### `mapO` -/

theorem mapO_some_of {α β : Type} {f : α → Option β} {l : List α}
    (h : ∀ a ∈ l, (f a).isSome = true) : ∃ bs, mapO f l = some bs := by
  induction l with
  | nil => exact ⟨[], rfl⟩
  | cons a l ih =>
    obtain ⟨bs, hbs⟩ := ih (fun a ha => h a (by simp [ha]))
    have ha := h a (by simp)
    cases hfa : f a with
    | none => rw [hfa] at ha; cases ha
    | some b => exact ⟨b :: bs, by simp [mapO, hfa, hbs]⟩

theorem mem_of_mapO {α β : Type} {f : α → Option β} {l : List α} {bs : List β}
    (h : mapO f l = some bs) : ∀ b ∈ bs, ∃ a ∈ l, f a = some b := by
  induction l generalizing bs with
  | nil => simp only [mapO, Option.some.injEq] at h; subst h; simp
  | cons a l ih =>
    simp only [mapO] at h
    split at h
    · cases h
    · rename_i b hb
      split at h
      · cases h
      · rename_i bs' hbs'
        simp only [Option.some.injEq] at h
        subst h
        intro x hx
        rcases List.mem_cons.mp hx with rfl | hx
        · exact ⟨a, by simp, hb⟩
        · obtain ⟨a', ha', hfa'⟩ := ih hbs' x hx
          exact ⟨a', by simp [ha'], hfa'⟩

/-! ### protocol version strings -/

theorem protocolTuple_strOK {P : Py} (hP : PyStrOK P) (j : J) :
    ∀ v ∈ protocolTuple P j, (P.strOfInt v).isSome = true := by
  have h0 : ∀ v ∈ [(0 : Int)], (P.strOfInt v).isSome = true := by
    intro v hv; simp only [List.mem_singleton] at hv; subst hv; exact hP.1
  cases j with
  | str s =>
    simp only [protocolTuple]
    split
    · rename_i t ht
      intro v hv
      obtain ⟨a, _, ha⟩ := mem_of_mapO ht v hv
      exact hP.2 a v ha
    · exact h0
  | null => exact h0
  | bool b => exact h0
  | int i => exact h0
  | flt t => exact h0
  | arr l => exact h0
  | obj kv => exact h0

theorem versionString_ok {P : Py} (hP : PyStrOK P) {t : List Int}
    (ht : ∀ v ∈ t, (P.strOfInt v).isSome = true) : ∃ s, versionString P t = .ok s := by
  have : ∀ v ∈ t ++ List.replicate (2 - t.length) 0, (P.strOfInt v).isSome = true := by
    intro v hv
    rcases List.mem_append.mp hv with hv | hv
    · exact ht v hv
    · rw [(List.mem_replicate.mp hv).2]; exact hP.1
  obtain ⟨ss, hss⟩ := mapO_some_of this
  refine ⟨".".intercalate ss, ?_⟩
  simp only [versionString, hss]

theorem protoStr_ok {P : Py} (hP : PyStrOK P) (feats : List (String × J)) (key : String) :
    ∃ s, protoStr P feats key = .ok s :=
  versionString_ok hP (protocolTuple_strOK hP _)

theorem versionString_err {P : Py} {t : List Int} {e : PyExc} (h : versionString P t = .error e) :
    e = .valueError := by
  unfold versionString at h
  split at h
  · cases h
  · cases h; rfl

/-! ### the constructor -/

/-- what every successfully constructed peer satisfies -/
def PeerOK (host : String) (p : Peer) : Prop :=
  p.host = host ∧ (∀ v, p.tcpPort = some v → 0 < v ∧ v < 65536) ∧
  (∀ v, p.sslPort = some v → 0 < v ∧ v < 65536) ∧ (∀ v, p.pruning = some v → 0 < v)

theorem cleanup_peerOK {P : Py} {host source : String} {kv : List (String × J)} {p : Peer}
    (h : cleanup P host kv source = .ok p) : PeerOK host p := by
  unfold cleanup at h
  split at h
  · cases h
  · split at h
    · cases h
    · simp only [Except.ok.injEq] at h
      subst h
      exact ⟨rfl, fun v hv => port_range hv, fun v hv => port_range hv, fun v hv => pruning_pos hv⟩

theorem cleanup_err {P : Py} {host source : String} {kv : List (String × J)} {e : PyExc}
    (h : cleanup P host kv source = .error e) : e = .valueError := by
  unfold cleanup at h
  split at h
  · rename_i e' he'
    cases h
    exact versionString_err he'
  · split at h
    · rename_i e' he'
      cases h
      exact versionString_err he'
    · cases h

theorem cleanup_ok {P : Py} (hP : PyStrOK P) (host source : String) (kv : List (String × J)) :
    ∃ p, cleanup P host kv source = .ok p := by
  obtain ⟨pmin, h1⟩ := protoStr_ok hP (feats2 P kv) "protocol_min"
  obtain ⟨pmax, h2⟩ := protoStr_ok hP (feats3 P kv pmin) "protocol_max"
  simp only [cleanup, h1, h2]
  exact ⟨_, rfl⟩

theorem any_key_of_mem {hosts : List (String × J)} {host : String}
    (h : host ∈ hosts.map (·.1)) : (hosts.any fun e => e.1 == host) = true := by
  simp only [List.mem_map] at h
  obtain ⟨e, he, rfl⟩ := h
  simp only [List.any_eq_true]
  exact ⟨e, he, by simp⟩

/-- inside `peers_from_features` the asserts of `__init__` always pass -/
theorem mkPeer_of_host_key {P : Py} {kv hosts : List (String × J)} {host source : String}
    (hh : dictGet kv "hosts" = .obj hosts) (hk : host ∈ hosts.map (·.1)) :
    mkPeer P host (.obj kv) source = cleanup P host kv source := by
  have hl : kv.lookup "hosts" = some (.obj hosts) := by
    unfold dictGet at hh
    cases hlk : kv.lookup "hosts" with
    | none => rw [hlk] at hh; cases hh
    | some j => rw [hlk] at hh; simp only [Option.getD_some] at hh; rw [hh]
  simp only [mkPeer, hl, Option.getD_some, pyIn, any_key_of_mem hk]

/-! ### `mapE` -/

theorem mapE_ok {α β : Type} {f : α → Except PyExc β} {l : List α}
    (h : ∀ a ∈ l, ∃ b, f a = .ok b) : ∃ bs, mapE f l = .ok bs := by
  induction l with
  | nil => exact ⟨[], rfl⟩
  | cons a l ih =>
    obtain ⟨bs, hbs⟩ := ih (fun a ha => h a (by simp [ha]))
    obtain ⟨b, hb⟩ := h a (by simp)
    exact ⟨b :: bs, by simp only [mapE, hb, hbs]⟩

theorem mem_of_mapE {α β : Type} {f : α → Except PyExc β} {l : List α} {bs : List β}
    (h : mapE f l = .ok bs) : ∀ b ∈ bs, ∃ a ∈ l, f a = .ok b := by
  induction l generalizing bs with
  | nil => simp only [mapE, Except.ok.injEq] at h; subst h; simp
  | cons a l ih =>
    simp only [mapE] at h
    split at h
    · cases h
    · rename_i b hb
      split at h
      · cases h
      · rename_i bs' hbs'
        simp only [Except.ok.injEq] at h
        subst h
        intro x hx
        rcases List.mem_cons.mp hx with rfl | hx
        · exact ⟨a, by simp, hb⟩
        · obtain ⟨a', ha', hfa'⟩ := ih hbs' x hx
          exact ⟨a', by simp [ha'], hfa'⟩

theorem mapE_err {α β : Type} {f : α → Except PyExc β} {l : List α} {e : PyExc}
    (h : mapE f l = .error e) : ∃ a ∈ l, f a = .error e := by
  induction l with
  | nil => cases h
  | cons a l ih =>
    simp only [mapE] at h
    split at h
    · rename_i e' he'
      cases h
      exact ⟨a, by simp, he'⟩
    · split at h
      · rename_i e' he'
        cases h
        obtain ⟨a', ha', hfa'⟩ := ih he'
        exact ⟨a', by simp [ha'], hfa'⟩
      · cases h

/-! ### `peers_from_features` -/

/-- every peer `peers_from_features` returns is the clean-up of one of the keys of `hosts` -/
theorem peersFromFeatures_mem {P : Py} {features : J} {source : String} {ps : List Peer}
    (h : peersFromFeatures P features source = .ok ps) :
    ∀ p ∈ ps, ∃ host, PeerOK host p := by
  intro p hp
  unfold peersFromFeatures at h
  split at h
  · rename_i kv
    split at h
    · rename_i hosts hh
      obtain ⟨host, hk, hmk⟩ := mem_of_mapE h p hp
      rw [mkPeer_of_host_key hh hk] at hmk
      exact ⟨host, cleanup_peerOK hmk⟩
    · simp only [Except.ok.injEq] at h; subst h; simp at hp
  · simp only [Except.ok.injEq] at h; subst h; simp at hp

theorem peersFromFeatures_err {P : Py} {features : J} {source : String} {e : PyExc}
    (h : peersFromFeatures P features source = .error e) : e = .valueError := by
  unfold peersFromFeatures at h
  split at h
  · rename_i kv
    split at h
    · rename_i hosts hh
      obtain ⟨host, hk, hmk⟩ := mapE_err h
      rw [mkPeer_of_host_key hh hk] at hmk
      exact cleanup_err hmk
    · cases h
  · cases h

theorem peersFromFeatures_ok {P : Py} (hP : PyStrOK P) (features : J) (source : String) :
    ∃ ps, peersFromFeatures P features source = .ok ps := by
  unfold peersFromFeatures
  split
  · rename_i kv
    split
    · rename_i hosts hh
      apply mapE_ok
      intro host hk
      rw [mkPeer_of_host_key hh hk]
      exact cleanup_ok hP host source kv
    · exact ⟨_, rfl⟩
  · exact ⟨_, rfl⟩

/-- the number of peers built = the number of keys of `hosts` (one per announced host) -/
theorem length_mapE {α β : Type} {f : α → Except PyExc β} {l : List α} {bs : List β}
    (h : mapE f l = .ok bs) : bs.length = l.length := by
  induction l generalizing bs with
  | nil => simp only [mapE, Except.ok.injEq] at h; subst h; rfl
  | cons a l ih =>
    simp only [mapE] at h
    split at h
    · cases h
    · split at h
      · cases h
      · rename_i bs' hbs'
        simp only [Except.ok.injEq] at h
        subst h
        simp [ih hbs']

/-! ### the executable `Py` instance satisfies `PyStrOK` -/

theorem natOfDigits_bound {ds : List Nat} {v : Int} (hd : ∀ d ∈ ds, d < 10)
    (h : natOfDigits ds = some v) : v.natAbs < 10 ^ maxStrDigits := by
  unfold natOfDigits at h
  split at h
  · cases h
  · rename_i hlen
    simp only [Option.some.injEq] at h
    subst h
    change List.foldl (fun a d => a * 10 + d) 0 ds < 10 ^ maxStrDigits
    have key : ∀ (l : List Nat) (a : Nat), (∀ d ∈ l, d < 10) →
        l.foldl (fun a d => a * 10 + d) a < (a + 1) * 10 ^ l.length := by
      intro l
      induction l with
      | nil => intro a _; simp
      | cons d l ih =>
        intro a hl
        simp only [List.foldl_cons, List.length_cons]
        have hd' : d < 10 := hl d (by simp)
        have h1 := ih (a * 10 + d) (fun x hx => hl x (by simp [hx]))
        have h2 : (a * 10 + d + 1) * 10 ^ l.length ≤ (a + 1) * 10 ^ (l.length + 1) := by
          rw [Nat.pow_succ, ← Nat.mul_assoc, Nat.mul_comm ((a + 1) * 10 ^ l.length) 10,
            ← Nat.mul_assoc]
          apply Nat.mul_le_mul_right
          omega
        omega
    have h1 := key ds 0 hd
    simp only [Nat.zero_add, Nat.one_mul] at h1
    exact Nat.lt_of_lt_of_le h1 (Nat.pow_le_pow_right (by omega) (by omega))

theorem digitsU_lt {cs : List Char} {last : Bool} {acc ds : List Nat}
    (hacc : ∀ d ∈ acc, d < 10) (h : digitsU cs last acc = some ds) : ∀ d ∈ ds, d < 10 := by
  induction cs generalizing last acc with
  | nil =>
    simp only [digitsU] at h
    split at h
    · simp only [Option.some.injEq] at h; subst h
      intro d hd; exact hacc d (List.mem_reverse.mp hd)
    · cases h
  | cons c cs ih =>
    simp only [digitsU] at h
    split at h
    · rename_i hc
      refine ih (fun d hd => ?_) h
      rcases List.mem_cons.mp hd with rfl | hd
      · simp only [Char.isDigit, Bool.and_eq_true, decide_eq_true_eq] at hc
        have h1 := hc.1
        have h2 := hc.2
        rw [ge_iff_le, UInt32.le_iff_toNat_le] at h1
        rw [UInt32.le_iff_toNat_le] at h2
        have : c.val.toNat = c.toNat := rfl
        simp at h1 h2
        omega
      · exact hacc d hd
    · split at h
      · exact ih hacc h
      · cases h

theorem pyIntAscii_bound {s : String} {v : Int} (h : pyIntAscii s = some v) :
    v.natAbs < 10 ^ maxStrDigits := by
  unfold pyIntAscii at h
  split at h
  · split at h
    · rename_i ds hds
      simp only [Option.map_eq_some_iff] at h
      obtain ⟨w, hw, rfl⟩ := h
      rw [Int.natAbs_neg]
      exact natOfDigits_bound (digitsU_lt (by simp) hds) hw
    · cases h
  · split at h
    · rename_i ds hds
      exact natOfDigits_bound (digitsU_lt (by simp) hds) h
    · cases h
  · split at h
    · rename_i ds hds
      exact natOfDigits_bound (digitsU_lt (by simp) hds) h
    · cases h

theorem pyAscii_strOK : PyStrOK pyAscii := by
  refine ⟨?_, fun s v h => ?_⟩
  · simp only [pyAscii, pyStrOfInt, Int.natAbs_zero]
    rw [if_pos (Nat.pow_pos (by omega))]; rfl
  · simp only [pyAscii] at h ⊢
    simp only [pyStrOfInt, if_pos (pyIntAscii_bound h)]; rfl

end EV.Peers

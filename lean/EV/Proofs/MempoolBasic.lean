import EV.Model.Mempool

/-!
Basic facts about the dict / set primitives of the mempool model, the environment truth
(`truePair`, `TrueTx`) and the tracker invariant `MpInv`.  Core tactics only.
-/
namespace EV.Mempool

/-! ### environment truth -/

/-- `(hashX, value)` of output `i` of *the* transaction with id `h` (txid injectivity: the world
    is a function from ids to transactions) -/
def truePair (W : Hash → Option RawTx) (p : Prevout) : Option Pair :=
  match W p.1 with
  | none => none
  | some t => t.outs[p.2]?

/-- the stored record `tx` is the true record of the transaction with id `h` -/
def TrueTx (W : Hash → Option RawTx) (h : Hash) (tx : MemPoolTx) : Prop :=
  ∃ t, W h = some t ∧ tx.prevouts = (mkTx t).prevouts ∧ tx.outPairs = t.outs ∧ tx.size = t.size ∧
    tx.inPairs.map some = tx.prevouts.map (truePair W) ∧ tx.fee = feeOf tx.inPairs tx.outPairs

/-- a not-yet-accepted entry of a `tx_map`: the deserialised form of the true transaction -/
def Fetched (W : Hash → Option RawTx) (e : Hash × MemPoolTx) : Prop :=
  ∃ t, W e.1 = some t ∧ e.2 = mkTx t

/-- `h` is recorded under `x` in the by-script-hash index -/
def idx (hx : HashXs) (x : HashX) (h : Hash) : Prop := ∃ s, (x, s) ∈ hx ∧ h ∈ s

/-- the index is a dict of non-empty sets -/
structure HxWF (hx : HashXs) : Prop where
  keys : (hx.map (·.1)).Nodup
  sets : ∀ e ∈ hx, e.2 ≠ [] ∧ e.2.Nodup

/-- **the tracker invariant**: `txs` is a dict; `hashXs` is a dict of non-empty sets and is the
    exact inverse of `txs`; every stored transaction is recorded truthfully (prevouts, output pairs,
    size, *input pairs* and *fee*). -/
structure MpInv (W : Hash → Option RawTx) (st : St) : Prop where
  txKeys : (st.txs.map (·.1)).Nodup
  wf : HxWF st.hashXs
  inverse : ∀ x h, idx st.hashXs x h ↔ ∃ tx, (h, tx) ∈ st.txs ∧ x ∈ txHashXs tx
  true : ∀ e ∈ st.txs, TrueTx W e.1 e.2

/-- entries of a `utxo_map` are `None` or the truth -/
def UmSound (W : Hash → Option RawTx) (um : UtxoMap) : Prop :=
  ∀ p pr, (p, some pr) ∈ um → truePair W p = some pr

/-! ### dedup -/

theorem mem_dedup {l : List Nat} {a : Nat} : a ∈ dedup l ↔ a ∈ l := by
  induction l with
  | nil => simp [dedup]
  | cons x xs ih =>
    simp only [dedup]
    split
    · rename_i h
      have hx : x ∈ xs := by simpa using h
      rw [ih]; simp only [List.mem_cons]
      constructor
      · exact Or.inr
      · rintro (rfl | h1)
        · exact hx
        · exact h1
    · simp only [List.mem_cons, ih]

theorem nodup_dedup (l : List Nat) : (dedup l).Nodup := by
  induction l with
  | nil => simp [dedup]
  | cons x xs ih =>
    simp only [dedup]
    split
    · exact ih
    · rename_i h
      have hx : x ∉ xs := by simpa using h
      exact List.nodup_cons.mpr ⟨fun h1 => hx (mem_dedup.mp h1), ih⟩

theorem mem_txHashXs {tx : MemPoolTx} {x : HashX} :
    x ∈ txHashXs tx ↔ x ∈ (tx.inPairs ++ tx.outPairs).map (·.1) := mem_dedup

/-! ### dget / dset -/

theorem dget_some_mem {V : Type} {d : List (Hash × V)} {k : Hash} {v : V} (h : dget d k = some v) :
    (k, v) ∈ d := by
  induction d with
  | nil => simp [dget] at h
  | cons e r ih =>
    obtain ⟨k', v'⟩ := e
    simp only [dget] at h
    split at h
    · rename_i hk; subst hk; simp at h; subst h; simp
    · exact List.mem_cons_of_mem _ (ih h)

theorem dget_none_iff {V : Type} {d : List (Hash × V)} {k : Hash} :
    dget d k = none ↔ k ∉ d.map (·.1) := by
  induction d with
  | nil => simp [dget]
  | cons e r ih =>
    obtain ⟨k', v'⟩ := e
    simp only [dget, List.map_cons, List.mem_cons]
    split
    · rename_i hk; subst hk; simp
    · rename_i hk
      rw [ih]
      constructor
      · intro h1 h2; rcases h2 with h2 | h2
        · exact hk h2.symm
        · exact h1 h2
      · intro h1 h2; exact h1 (Or.inr h2)

theorem mem_dget {V : Type} {d : List (Hash × V)} {k : Hash} {v : V}
    (hn : (d.map (·.1)).Nodup) (hm : (k, v) ∈ d) : dget d k = some v := by
  induction d with
  | nil => simp at hm
  | cons e r ih =>
    obtain ⟨k', v'⟩ := e
    simp only [List.map_cons, List.nodup_cons] at hn
    simp only [dget]
    rcases List.mem_cons.mp hm with h1 | h1
    · injection h1 with h2 h3; subst h2; subst h3; simp
    · split
      · rename_i hk; subst hk
        exact absurd (List.mem_map.mpr ⟨(k', v), h1, rfl⟩) hn.1
      · exact ih hn.2 h1

theorem hasKey_iff {V : Type} {d : List (Hash × V)} {k : Hash} :
    hasKey d k = true ↔ k ∈ d.map (·.1) := by
  unfold hasKey
  cases h : dget d k with
  | none => simp only [Option.isSome_none]; constructor
            · intro h1; cases h1
            · intro h1; exact absurd h1 (dget_none_iff.mp h)
  | some v => simp only [Option.isSome_some, true_iff]
              exact List.mem_map.mpr ⟨(k, v), dget_some_mem h, rfl⟩

theorem keys_dset {V : Type} (d : List (Hash × V)) (k : Hash) (v : V) :
    (dset d k v).map (·.1) = if k ∈ d.map (·.1) then d.map (·.1) else d.map (·.1) ++ [k] := by
  induction d with
  | nil => simp [dset]
  | cons e r ih =>
    obtain ⟨k', v'⟩ := e
    simp only [dset]
    split
    · rename_i hk; subst hk; simp
    · rename_i hk
      simp only [List.map_cons, ih, List.mem_cons]
      have : ¬ k = k' := fun h => hk h.symm
      by_cases hm : k ∈ r.map (·.1)
      · simp [hm]
      · simp [hm, this]

theorem nodup_keys_dset {V : Type} {d : List (Hash × V)} (k : Hash) (v : V)
    (hn : (d.map (·.1)).Nodup) : ((dset d k v).map (·.1)).Nodup := by
  rw [keys_dset]
  split
  · exact hn
  · rename_i hk
    refine List.nodup_append.mpr ⟨hn, by simp, ?_⟩
    intro a ha b hb
    simp at hb; subst hb
    intro hab; subst hab; exact hk ha

theorem mem_keys_dset {V : Type} {d : List (Hash × V)} {k k' : Hash} {v : V} :
    k' ∈ (dset d k v).map (·.1) ↔ k' = k ∨ k' ∈ d.map (·.1) := by
  rw [keys_dset]
  split
  · rename_i hk
    constructor
    · exact Or.inr
    · rintro (rfl | h)
      · exact hk
      · exact h
  · simp only [List.mem_append, List.mem_singleton]
    constructor
    · rintro (h | h)
      · exact Or.inr h
      · exact Or.inl h
    · rintro (h | h)
      · exact Or.inr h
      · exact Or.inl h

theorem mem_dset {V : Type} {d : List (Hash × V)} {k k' : Hash} {v v' : V}
    (hn : (d.map (·.1)).Nodup) :
    (k', v') ∈ dset d k v ↔ (k' = k ∧ v' = v) ∨ (k' ≠ k ∧ (k', v') ∈ d) := by
  induction d with
  | nil => simp [dset]
  | cons e r ih =>
    obtain ⟨k0, v0⟩ := e
    simp only [List.map_cons, List.nodup_cons] at hn
    simp only [dset]
    split
    · rename_i hk; subst hk
      simp only [List.mem_cons, Prod.mk.injEq]
      constructor
      · rintro (⟨h1, h2⟩ | h1)
        · exact Or.inl ⟨h1, h2⟩
        · refine Or.inr ⟨?_, Or.inr h1⟩
          intro h2; subst h2
          exact hn.1 (List.mem_map.mpr ⟨(k', v'), h1, rfl⟩)
      · rintro (⟨h1, h2⟩ | ⟨h1, h2⟩)
        · exact Or.inl ⟨h1, h2⟩
        · rcases h2 with ⟨h2, _⟩ | h2
          · exact absurd h2 h1
          · exact Or.inr h2
    · rename_i hk
      simp only [List.mem_cons, Prod.mk.injEq, ih hn.2]
      constructor
      · rintro (⟨h1, h2⟩ | h1 | ⟨h1, h2⟩)
        · subst h1; subst h2; exact Or.inr ⟨hk, Or.inl ⟨rfl, rfl⟩⟩
        · exact Or.inl h1
        · exact Or.inr ⟨h1, Or.inr h2⟩
      · rintro (h1 | ⟨h1, h2 | h2⟩)
        · exact Or.inr (Or.inl h1)
        · exact Or.inl h2
        · exact Or.inr (Or.inr ⟨h1, h2⟩)

/-! ### umGet -/

theorem umGet_some_mem {um : UtxoMap} {p : Prevout} {pr : Pair} (h : umGet um p = some pr) :
    (p, some pr) ∈ um := by
  induction um with
  | nil => simp [umGet] at h
  | cons e r ih =>
    obtain ⟨k, v⟩ := e
    simp only [umGet] at h
    split at h
    · rename_i hk; subst hk; subst h; simp
    · exact List.mem_cons_of_mem _ (ih h)

/-- a key that is present and bound only to non-`None` values is found -/
theorem umGet_of_all_some {um : UtxoMap} {p : Prevout} (hk : p ∈ um.map (·.1))
    (hall : ∀ r, (p, r) ∈ um → r ≠ none) : ∃ pr, umGet um p = some pr := by
  induction um with
  | nil => simp at hk
  | cons e r ih =>
    obtain ⟨k, v⟩ := e
    simp only [umGet]
    split
    · rename_i hk'; subst hk'
      cases v with
      | none => exact absurd rfl (hall none (by simp))
      | some pr => exact ⟨pr, rfl⟩
    · rename_i hne
      simp only [List.map_cons, List.mem_cons] at hk
      rcases hk with hk | hk
      · exact absurd hk.symm hne
      · exact ih hk (fun r' hr => hall r' (List.mem_cons_of_mem _ hr))

/-! ### the index: hxAdd / hxAddAll / hxRemove / unindex -/

theorem idx_nil (x : HashX) (h : Hash) : ¬ idx [] x h := by
  rintro ⟨s, hs, _⟩; simp at hs

theorem idx_cons {k : HashX} {s : List Hash} {r : HashXs} {x : HashX} {h : Hash} :
    idx ((k, s) :: r) x h ↔ (x = k ∧ h ∈ s) ∨ idx r x h := by
  unfold idx
  constructor
  · rintro ⟨s', hs', hh⟩
    rcases List.mem_cons.mp hs' with h1 | h1
    · injection h1 with h2 h3; subst h2; subst h3; exact Or.inl ⟨rfl, hh⟩
    · exact Or.inr ⟨s', h1, hh⟩
  · rintro (⟨h1, h2⟩ | ⟨s', hs', hh⟩)
    · subst h1; exact ⟨s, by simp, h2⟩
    · exact ⟨s', List.mem_cons_of_mem _ hs', hh⟩

theorem idx_hxAdd {hx : HashXs} {x x' : HashX} {h h' : Hash} :
    idx (hxAdd hx x h) x' h' ↔ idx hx x' h' ∨ (x' = x ∧ h' = h) := by
  induction hx with
  | nil =>
    simp only [hxAdd, idx_cons, List.mem_singleton]
    constructor
    · rintro (h1 | h1)
      · exact Or.inr h1
      · exact absurd h1 (idx_nil _ _)
    · rintro (h1 | h1)
      · exact absurd h1 (idx_nil _ _)
      · exact Or.inl h1
  | cons e r ih =>
    obtain ⟨k, s⟩ := e
    simp only [hxAdd]
    split
    · rename_i hk; subst hk
      rw [idx_cons, idx_cons]
      have hmem : h' ∈ (if s.contains h = true then s else s ++ [h]) ↔ h' ∈ s ∨ h' = h := by
        split
        · rename_i hc
          have : h ∈ s := by simpa using hc
          constructor
          · exact Or.inl
          · rintro (h1 | h1)
            · exact h1
            · subst h1; exact this
        · simp
      rw [hmem]
      constructor
      · rintro (⟨h1, h2 | h2⟩ | h1)
        · exact Or.inl (Or.inl ⟨h1, h2⟩)
        · exact Or.inr ⟨h1, h2⟩
        · exact Or.inl (Or.inr h1)
      · rintro ((⟨h1, h2⟩ | h1) | ⟨h1, h2⟩)
        · exact Or.inl ⟨h1, Or.inl h2⟩
        · exact Or.inr h1
        · exact Or.inl ⟨h1, Or.inr h2⟩
    · rw [idx_cons, idx_cons, ih]
      constructor
      · rintro (h1 | h1 | h1)
        · exact Or.inl (Or.inl h1)
        · exact Or.inl (Or.inr h1)
        · exact Or.inr h1
      · rintro ((h1 | h1) | h1)
        · exact Or.inl h1
        · exact Or.inr (Or.inl h1)
        · exact Or.inr (Or.inr h1)

theorem keys_hxAdd (hx : HashXs) (x : HashX) (h : Hash) :
    (hxAdd hx x h).map (·.1) = if x ∈ hx.map (·.1) then hx.map (·.1) else hx.map (·.1) ++ [x] := by
  induction hx with
  | nil => simp [hxAdd]
  | cons e r ih =>
    obtain ⟨k, s⟩ := e
    simp only [hxAdd]
    split
    · rename_i hk; subst hk; simp
    · rename_i hk
      simp only [List.map_cons, ih, List.mem_cons]
      have : ¬ x = k := fun h => hk h.symm
      by_cases hm : x ∈ r.map (·.1)
      · simp [hm]
      · simp [hm, this]

theorem mem_hxAdd {hx : HashXs} {x : HashX} {h : Hash} {e : HashX × List Hash}
    (he : e ∈ hxAdd hx x h) :
    e ∈ hx ∨ e = (x, [h]) ∨ ∃ s, (x, s) ∈ hx ∧ h ∉ s ∧ e = (x, s ++ [h]) := by
  induction hx with
  | nil => simp only [hxAdd, List.mem_singleton] at he; exact Or.inr (Or.inl he)
  | cons e0 r ih =>
    obtain ⟨k, s⟩ := e0
    simp only [hxAdd] at he
    split at he
    · rename_i hk; subst hk
      rcases List.mem_cons.mp he with h1 | h1
      · split at h1
        · exact Or.inl (by rw [h1]; simp)
        · rename_i hc
          have : h ∉ s := by simpa using hc
          exact Or.inr (Or.inr ⟨s, by simp, this, h1⟩)
      · exact Or.inl (List.mem_cons_of_mem _ h1)
    · rcases List.mem_cons.mp he with h1 | h1
      · exact Or.inl (by rw [h1]; simp)
      · rcases ih h1 with h2 | h2 | ⟨s', h2, h3, h4⟩
        · exact Or.inl (List.mem_cons_of_mem _ h2)
        · exact Or.inr (Or.inl h2)
        · exact Or.inr (Or.inr ⟨s', List.mem_cons_of_mem _ h2, h3, h4⟩)

theorem HxWF_hxAdd {hx : HashXs} (x : HashX) (h : Hash) (hw : HxWF hx) : HxWF (hxAdd hx x h) := by
  constructor
  · rw [keys_hxAdd]
    split
    · exact hw.keys
    · rename_i hk
      refine List.nodup_append.mpr ⟨hw.keys, by simp, ?_⟩
      intro a ha b hb
      simp at hb; subst hb
      intro hab; subst hab; exact hk ha
  · intro e he
    rcases mem_hxAdd he with h1 | h1 | ⟨s, h1, h2, h3⟩
    · exact hw.sets e h1
    · subst h1; simp
    · subst h3
      have := hw.sets _ h1
      refine ⟨by simp, ?_⟩
      refine List.nodup_append.mpr ⟨this.2, by simp, ?_⟩
      intro a ha b hb
      simp at hb; subst hb
      intro hab; subst hab; exact h2 ha

theorem idx_hxAddAll {xs : List HashX} {hx : HashXs} {h : Hash} {x' : HashX} {h' : Hash} :
    idx (hxAddAll hx h xs) x' h' ↔ idx hx x' h' ∨ (h' = h ∧ x' ∈ xs) := by
  induction xs generalizing hx with
  | nil => simp [hxAddAll]
  | cons x xs ih =>
    simp only [hxAddAll, ih, idx_hxAdd, List.mem_cons]
    constructor
    · rintro ((h1 | ⟨h1, h2⟩) | ⟨h1, h2⟩)
      · exact Or.inl h1
      · exact Or.inr ⟨h2, Or.inl h1⟩
      · exact Or.inr ⟨h1, Or.inr h2⟩
    · rintro (h1 | ⟨h1, h2 | h2⟩)
      · exact Or.inl (Or.inl h1)
      · exact Or.inl (Or.inr ⟨h2, h1⟩)
      · exact Or.inr ⟨h1, h2⟩

theorem HxWF_hxAddAll {xs : List HashX} {hx : HashXs} (h : Hash) (hw : HxWF hx) :
    HxWF (hxAddAll hx h xs) := by
  induction xs generalizing hx with
  | nil => exact hw
  | cons x xs ih => exact ih (HxWF_hxAdd x h hw)

theorem HxWF_tail {e : HashX × List Hash} {r : HashXs} (hw : HxWF (e :: r)) : HxWF r :=
  ⟨(List.nodup_cons.mp hw.keys).2, fun e' he' => hw.sets e' (List.mem_cons_of_mem _ he')⟩

theorem idx_key {hx : HashXs} {x : HashX} {h : Hash} (hi : idx hx x h) : x ∈ hx.map (·.1) := by
  obtain ⟨s, hs, _⟩ := hi
  exact List.mem_map.mpr ⟨(x, s), hs, rfl⟩

/-- removing an indexed pair succeeds, removes exactly that pair, keeps the dict well-formed -/
theorem hxRemove_ok {hx : HashXs} {x : HashX} {h : Hash} (hw : HxWF hx) (hi : idx hx x h) :
    ∃ hx', hxRemove hx x h = .ok hx' ∧ HxWF hx' ∧
      (∀ k, k ∈ hx'.map (·.1) → k ∈ hx.map (·.1)) ∧
      ∀ x' h', idx hx' x' h' ↔ idx hx x' h' ∧ ¬ (x' = x ∧ h' = h) := by
  induction hx with
  | nil => exact absurd hi (idx_nil _ _)
  | cons e r ih =>
    obtain ⟨k, s⟩ := e
    have hkn : k ∉ r.map (·.1) := (List.nodup_cons.mp hw.keys).1
    have hs := hw.sets (k, s) (by simp)
    simp only [hxRemove]
    split
    · rename_i hk; subst hk
      have hnr : ∀ h', ¬ idx r k h' := fun h' h1 => hkn (idx_key h1)
      have hhs : h ∈ s := by
        rcases idx_cons.mp hi with h1 | h1
        · exact h1.2
        · exact absurd h1 (hnr _)
      have hc : s.contains h = true := by simpa using hhs
      simp only [hc, if_true]
      have hmem : ∀ h', h' ∈ s.erase h ↔ h' ≠ h ∧ h' ∈ s := fun h' => hs.2.mem_erase_iff
      refine ⟨_, rfl, ?_, ?_, ?_⟩
      · split
        · exact HxWF_tail hw
        · rename_i hne
          constructor
          · exact hw.keys
          · intro e he
            rcases List.mem_cons.mp he with h1 | h1
            · subst h1
              refine ⟨?_, hs.2.erase h⟩
              intro h2
              have h2' : s.erase h = [] := h2
              exact hne (by rw [h2']; rfl)
            · exact hw.sets e (List.mem_cons_of_mem _ h1)
      · intro k'
        split
        · intro h1; exact List.mem_cons_of_mem _ h1
        · intro h1; exact h1
      · intro x' h'
        split
        · rename_i he
          have hempty : s.erase h = [] := by simpa using he
          rw [idx_cons]
          constructor
          · intro h1
            refine ⟨Or.inr h1, ?_⟩
            rintro ⟨h2, _⟩; subst h2; exact hnr _ h1
          · rintro ⟨h1 | h1, h2⟩
            · exfalso
              obtain ⟨h3, h4⟩ := h1
              have : h' ∈ s.erase h := (hmem h').mpr ⟨fun h5 => h2 ⟨h3, h5⟩, h4⟩
              rw [hempty] at this; simp at this
            · exact h1
        · rw [idx_cons, idx_cons, hmem]
          constructor
          · rintro (⟨h1, h2, h3⟩ | h1)
            · exact ⟨Or.inl ⟨h1, h3⟩, fun h4 => h2 h4.2⟩
            · refine ⟨Or.inr h1, ?_⟩
              rintro ⟨h2, _⟩; subst h2; exact hnr _ h1
          · rintro ⟨⟨h1, h3⟩ | h1, h2⟩
            · exact Or.inl ⟨h1, fun h4 => h2 ⟨h1, h4⟩, h3⟩
            · exact Or.inr h1
    · rename_i hk
      have hir : idx r x h := by
        rcases idx_cons.mp hi with h1 | h1
        · exact absurd h1.1.symm hk
        · exact h1
      obtain ⟨r', h1, h2, h3, h4⟩ := ih (HxWF_tail hw) hir
      rw [h1]
      refine ⟨_, rfl, ?_, ?_, ?_⟩
      · constructor
        · simp only [List.map_cons]
          exact List.nodup_cons.mpr ⟨fun h5 => hkn (h3 _ h5), h2.keys⟩
        · intro e he
          rcases List.mem_cons.mp he with h5 | h5
          · subst h5; exact hs
          · exact h2.sets e h5
      · intro k' hk'
        simp only [List.map_cons, List.mem_cons] at hk' ⊢
        rcases hk' with h5 | h5
        · exact Or.inl h5
        · exact Or.inr (h3 _ h5)
      · intro x' h'
        rw [idx_cons, idx_cons, h4]
        constructor
        · rintro (h5 | ⟨h5, h6⟩)
          · refine ⟨Or.inl h5, ?_⟩
            rintro ⟨h6, _⟩; exact hk (h5.1.symm.trans h6)
          · exact ⟨Or.inr h5, h6⟩
        · rintro ⟨h5 | h5, h6⟩
          · exact Or.inl h5
          · exact Or.inr ⟨h5, h6⟩

theorem unindex_ok {xs : List HashX} {hx : HashXs} {h : Hash} (hw : HxWF hx) (hn : xs.Nodup)
    (hi : ∀ x ∈ xs, idx hx x h) :
    ∃ hx', unindex h hx xs = .ok hx' ∧ HxWF hx' ∧
      ∀ x' h', idx hx' x' h' ↔ idx hx x' h' ∧ ¬ (h' = h ∧ x' ∈ xs) := by
  induction xs generalizing hx with
  | nil => exact ⟨hx, rfl, hw, by simp⟩
  | cons x xs ih =>
    obtain ⟨hx1, h1, h2, _, h4⟩ := hxRemove_ok hw (hi x (by simp))
    have hn' := List.nodup_cons.mp hn
    have hi' : ∀ x2 ∈ xs, idx hx1 x2 h := by
      intro x2 hx2
      refine (h4 x2 h).mpr ⟨hi x2 (List.mem_cons_of_mem _ hx2), ?_⟩
      rintro ⟨h5, _⟩; subst h5; exact hn'.1 hx2
    obtain ⟨hx2, h5, h6, h7⟩ := ih h2 hn'.2 hi'
    simp only [unindex, h1]
    refine ⟨hx2, h5, h6, ?_⟩
    intro x' h'
    rw [h7, h4]
    simp only [List.mem_cons]
    constructor
    · rintro ⟨⟨h8, h9⟩, h10⟩
      refine ⟨h8, ?_⟩
      rintro ⟨h11, h12 | h12⟩
      · exact h9 ⟨h12, h11⟩
      · exact h10 ⟨h11, h12⟩
    · rintro ⟨h8, h9⟩
      exact ⟨⟨h8, fun h10 => h9 ⟨h10.2, Or.inl h10.1⟩⟩, fun h10 => h9 ⟨h10.1, Or.inr h10.2⟩⟩

/-! ### truth is unique -/

theorem TrueTx_unique {W : Hash → Option RawTx} {h : Hash} {a b : MemPoolTx}
    (ha : TrueTx W h a) (hb : TrueTx W h b) : a = b := by
  obtain ⟨t, h1, h2, h3, h4, h5, h6⟩ := ha
  obtain ⟨t', g1, g2, g3, g4, g5, g6⟩ := hb
  rw [h1] at g1; injection g1 with g1; subst g1
  have hp : a.prevouts = b.prevouts := h2.trans g2.symm
  have ho : a.outPairs = b.outPairs := h3.trans g3.symm
  have hi : a.inPairs = b.inPairs := by
    have : a.inPairs.map some = b.inPairs.map some := by rw [h5, g5, hp]
    exact (List.map_inj_right (fun _ _ h => Option.some.inj h)).mp this
  cases a; cases b
  simp only [MemPoolTx.mk.injEq] at *
  subst hp; subst ho; subst hi
  exact ⟨rfl, rfl, rfl, h6.trans g6.symm, h4.trans g4.symm⟩

end EV.Mempool

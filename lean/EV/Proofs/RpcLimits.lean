import EV.Proofs.RpcEffect

/-! Helper lemmas for C17: the arithmetic of the header cap, the history limit, and the
notification loops. -/
namespace EV.Rpc

/-! ### headers -/

theorem diskCount_eq (H s c : Nat) : diskCount H s c = min c (H + 1 - s) := by
  unfold diskCount; omega

theorem readHeaders_snd (w : World) (s c : Nat) :
    (readHeaders w s c).2 = min c (w.height + 1 - s) := by
  unfold readHeaders
  split
  · exact diskCount_eq _ _ _
  · rename_i h
    have := diskCount_eq w.height s c
    simp only [ne_eq, Decidable.not_not] at h
    omega

theorem readHeaders_fst (w : World) (s c : Nat) :
    (readHeaders w s c).1 = (w.hdrFile.drop (s * 80)).take (min c (w.height + 1 - s) * 80) := by
  unfold readHeaders
  split
  · rw [diskCount_eq]
  · rename_i h
    have := diskCount_eq w.height s c
    simp only [ne_eq, Decidable.not_not] at h
    have h0 : min c (w.height + 1 - s) = 0 := by omega
    rw [h0]; simp

/-- the headers file holds one 80-byte header per height `0 … height` (C01's invariant) -/
def FileOK (w : World) : Prop := w.hdrFile.length = 80 * (w.height + 1)

theorem readHeaders_length {w : World} (hf : FileOK w) (s c : Nat) :
    (readHeaders w s c).1.length = 80 * min c (w.height + 1 - s) := by
  rw [readHeaders_fst, List.length_take, List.length_drop, hf]
  omega

/-! ### histories -/

theorem histCompute_large {w : World} {hx : Bytes}
    (h : histLimit w.maxSend ≤ (w.history hx).length) : histCompute w hx = .tooLarge := by
  unfold histCompute dbLimitedHistory
  rw [List.length_take]
  have : histLimit w.maxSend ≤ min (histLimit w.maxSend) (w.history hx).length := by omega
  simp [this]

theorem histCompute_small {w : World} {hx : Bytes}
    (h : (w.history hx).length < histLimit w.maxSend) : histCompute w hx = .ok (w.history hx) := by
  unfold histCompute dbLimitedHistory
  rw [List.length_take]
  have : ¬ histLimit w.maxSend ≤ min (histLimit w.maxSend) (w.history hx).length := by omega
  simp only [this, if_false]
  rw [List.take_of_length_le (by omega)]

/-- the possible values of a computed (hence, with coherent caches, of any) history result -/
theorem histCompute_cases (w : World) (hx : Bytes) :
    (histLimit w.maxSend ≤ (w.history hx).length ∧ histCompute w hx = .tooLarge) ∨
    ((w.history hx).length < histLimit w.maxSend ∧ histCompute w hx = .ok (w.history hx)) := by
  by_cases h : histLimit w.maxSend ≤ (w.history hx).length
  · exact Or.inl ⟨h, histCompute_large h⟩
  · exact Or.inr ⟨by omega, histCompute_small (by omega)⟩

/-! ### `subscription_address_status` -/

theorem dGet_dErase_some {α β : Type} [DecidableEq α] {k k' : α} {d : List (α × β)} {v : β}
    (h : dGet k' (dErase k d) = some v) : dGet k' d = some v := by
  by_cases hk : k' = k
  · rw [hk, dGet_dErase_self] at h; cases h
  · rw [dGet_dErase_ne hk] at h; exact h

/-- the status computed for a notification: `None` and the subscription dropped when the history
    has reached the limit, otherwise the status of the **whole** history -/
def StatusRight (w : World) (hx : Bytes) (s : Status) : Prop :=
  (histLimit w.maxSend ≤ (w.history hx).length ∧ s = none) ∨
  ((w.history hx).length < histLimit w.maxSend ∧ s = statusOf (w.history hx) (w.mempool hx))

theorem sas_spec {w : World} {st : St} (hok : CacheOK w st.mgr) (hx : Bytes) :
    CacheGrowth w st.mgr (subscriptionAddressStatus w st hx).1.mgr ∧
    ((histLimit w.maxSend ≤ (w.history hx).length ∧
        (subscriptionAddressStatus w st hx).2 = none ∧
        (subscriptionAddressStatus w st hx).1.sess.subs = dErase hx st.sess.subs) ∨
     ((w.history hx).length < histLimit w.maxSend ∧
        (subscriptionAddressStatus w st hx).2 = statusOf (w.history hx) (w.mempool hx) ∧
        (subscriptionAddressStatus w st hx).1.sess.subs = st.sess.subs)) := by
  have hg := limitedHistory_growth w st.mgr hx
  have hsnd := limitedHistory_snd hok hx
  rcases hlh : limitedHistory w st.mgr hx with ⟨m, (e | hist)⟩
  · -- error: the history is too large
    rw [hlh] at hg hsnd
    simp only at hg hsnd
    have hsas : subscriptionAddressStatus w st hx =
        ({ sess := unsubscribeHashX st.sess hx, mgr := m }, none) := by
      simp [subscriptionAddressStatus, addressStatus, hlh]
    rw [hsas]
    refine ⟨hg, ?_⟩
    rcases histCompute_cases w hx with ⟨hl, hc⟩ | ⟨hl, hc⟩
    · exact Or.inl ⟨hl, rfl, rfl⟩
    · rw [hc] at hsnd; simp [HistRes.toExcept] at hsnd
  · rw [hlh] at hg hsnd
    simp only at hg hsnd
    rcases histCompute_cases w hx with ⟨hl, hc⟩ | ⟨hl, hc⟩
    · rw [hc] at hsnd; simp [HistRes.toExcept] at hsnd
    · rw [hc] at hsnd
      simp only [HistRes.toExcept, Except.ok.injEq] at hsnd
      subst hsnd
      have hsas : (subscriptionAddressStatus w st hx).2 = statusOf (w.history hx) (w.mempool hx) ∧
          (subscriptionAddressStatus w st hx).1.sess.subs = st.sess.subs ∧
          (subscriptionAddressStatus w st hx).1.mgr = m := by
        simp [subscriptionAddressStatus, addressStatus, hlh]
      refine ⟨by rw [hsas.2.2]; exact hg, Or.inr ⟨hl, hsas.1, hsas.2.1⟩⟩

theorem sas_status {w : World} {st : St} (hok : CacheOK w st.mgr) (hx : Bytes) :
    StatusRight w hx (subscriptionAddressStatus w st hx).2 := by
  rcases (sas_spec hok hx).2 with ⟨h1, h2, _⟩ | ⟨h1, h2, _⟩
  · exact Or.inl ⟨h1, h2⟩
  · exact Or.inr ⟨h1, h2⟩

/-- subscriptions are only ever dropped, and only those whose history reached the limit -/
def SubsShrink (w : World) (s s' : List (Bytes × String)) : Prop :=
  ∀ hx, dGet hx s' = dGet hx s ∨ (histLimit w.maxSend ≤ (w.history hx).length ∧ dGet hx s' = none)

theorem SubsShrink.refl (w : World) (s : List (Bytes × String)) : SubsShrink w s s :=
  fun _ => Or.inl rfl

theorem SubsShrink.trans {w : World} {a b c : List (Bytes × String)} (h1 : SubsShrink w a b)
    (h2 : SubsShrink w b c) : SubsShrink w a c := by
  intro hx
  rcases h2 hx with h | ⟨hl, h⟩
  · rcases h1 hx with h' | ⟨hl, h'⟩
    · exact Or.inl (h.trans h')
    · exact Or.inr ⟨hl, h.trans h'⟩
  · exact Or.inr ⟨hl, h⟩

theorem SubsShrink.some {w : World} {a b : List (Bytes × String)} (h : SubsShrink w a b)
    {hx : Bytes} {alias : String} (hb : dGet hx b = some alias) : dGet hx a = some alias := by
  rcases h hx with h' | ⟨_, h'⟩
  · rw [← h']; exact hb
  · rw [h'] at hb; cases hb

theorem sas_shrink {w : World} {st : St} (hok : CacheOK w st.mgr) (hx : Bytes) :
    SubsShrink w st.sess.subs (subscriptionAddressStatus w st hx).1.sess.subs := by
  intro hx'
  rcases (sas_spec hok hx).2 with ⟨h1, _, h3⟩ | ⟨_, _, h3⟩
  · rw [h3]
    by_cases heq : hx' = hx
    · rw [heq]; exact Or.inr ⟨h1, dGet_dErase_self _ _⟩
    · exact Or.inl (dGet_dErase_ne heq _)
  · rw [h3]; exact Or.inl rfl

theorem sas_ok {w : World} {st : St} (hok : CacheOK w st.mgr) (hx : Bytes) :
    CacheOK w (subscriptionAddressStatus w st hx).1.mgr :=
  CacheOK.of_growth (sas_spec hok hx).1 hok

/-! ### the two loops of `_notify_inner` -/

/-- what holds of a run of either loop from state `st` -/
structure LoopSpec (w : World) (st : St) (keys : List Bytes) (out : St × List (String × Status)) :
    Prop where
  ok : CacheOK w out.1.mgr
  shrink : SubsShrink w st.sess.subs out.1.sess.subs
  notes : ∀ a s, (a, s) ∈ out.2 →
    ∃ hx, hx ∈ keys ∧ dGet hx st.sess.subs = some a ∧ StatusRight w hx s
  dropped : ∀ hx a, hx ∈ keys → dGet hx st.sess.subs = some a → a ≠ "" →
    histLimit w.maxSend ≤ (w.history hx).length → dGet hx out.1.sess.subs = none

theorem shrink_none {w : World} {a b : List (Bytes × String)} (h : SubsShrink w a b) {hx : Bytes}
    (ha : dGet hx a = none) : dGet hx b = none := by
  rcases h hx with h' | ⟨_, h'⟩
  · rw [h', ha]
  · exact h'

theorem notifyTouched_spec (w : World) (l : List Bytes) :
    ∀ st, CacheOK w st.mgr → LoopSpec w st l (notifyTouched w st l) := by
  induction l with
  | nil =>
    intro st hok
    exact ⟨hok, SubsShrink.refl _ _, fun _ _ h => by simp [notifyTouched] at h,
           fun _ _ h => by simp at h⟩
  | cons hx rest ih =>
    intro st hok
    -- facts about the rest of the loop started from the same state (skipped element)
    have skip : LoopSpec w st rest (notifyTouched w st rest) →
        (dGet hx st.sess.subs = none ∨ dGet hx st.sess.subs = some "") →
        LoopSpec w st (hx :: rest) (notifyTouched w st rest) := by
      intro hs hsk
      refine ⟨hs.ok, hs.shrink, ?_, ?_⟩
      · intro a s h
        obtain ⟨hx', h1, h2, h3⟩ := hs.notes a s h
        exact ⟨hx', List.mem_cons_of_mem _ h1, h2, h3⟩
      · intro hx' a hmem hsub hne hl
        rcases List.mem_cons.mp hmem with rfl | hmem
        · rcases hsk with h | h
          · rw [h] at hsub; cases hsub
          · rw [h] at hsub; cases hsub; exact absurd rfl hne
        · exact hs.dropped hx' a hmem hsub hne hl
    unfold notifyTouched
    split
    · rename_i hnone
      exact skip (ih st hok) (Or.inl hnone)
    · rename_i alias hsome
      split
      · rename_i hempty
        exact skip (ih st hok) (Or.inr (by rw [hsome, hempty]))
      · rename_i hne
        have hok1 := sas_ok hok hx
        have hsh1 := sas_shrink hok hx
        have hs := ih _ hok1
        refine ⟨hs.ok, hsh1.trans hs.shrink, ?_, ?_⟩
        · intro a s h
          simp only [List.mem_cons, Prod.mk.injEq] at h
          rcases h with ⟨rfl, rfl⟩ | h
          · exact ⟨hx, by simp, hsome, sas_status hok hx⟩
          · obtain ⟨hx', h1, h2, h3⟩ := hs.notes a s h
            exact ⟨hx', List.mem_cons_of_mem _ h1, hsh1.some h2, h3⟩
        · intro hx' a hmem hsub hne' hl
          simp only
          by_cases heq : hx' = hx
          · -- dropped right now, and it stays dropped
            subst heq
            apply shrink_none hs.shrink
            rcases (sas_spec hok hx').2 with ⟨_, _, h3⟩ | ⟨h1, _, _⟩
            · rw [h3]; exact dGet_dErase_self _ _
            · omega
          · rcases List.mem_cons.mp hmem with h | hmem
            · exact absurd h heq
            · -- still subscribed after the head element, or already gone
              rcases hsh1 hx' with h' | ⟨_, h'⟩
              · exact hs.dropped hx' a hmem (by rw [h']; exact hsub) hne' hl
              · exact shrink_none hs.shrink h'

theorem notifyMempool_spec (w : World) (l : List (Bytes × Status)) :
    ∀ st, CacheOK w st.mgr → LoopSpec w st (l.map (·.1)) (notifyMempool w st l) := by
  induction l with
  | nil =>
    intro st hok
    exact ⟨hok, SubsShrink.refl _ _, fun _ _ h => by simp [notifyMempool] at h,
           fun _ _ h => by simp at h⟩
  | cons e rest ih =>
    obtain ⟨hx, old⟩ := e
    intro st hok
    have skip : LoopSpec w st (rest.map (·.1)) (notifyMempool w st rest) →
        (dGet hx st.sess.subs = none ∨ dGet hx st.sess.subs = some "") →
        LoopSpec w st (hx :: rest.map (·.1)) (notifyMempool w st rest) := by
      intro hs hsk
      refine ⟨hs.ok, hs.shrink, ?_, ?_⟩
      · intro a s h
        obtain ⟨hx', h1, h2, h3⟩ := hs.notes a s h
        exact ⟨hx', List.mem_cons_of_mem _ h1, h2, h3⟩
      · intro hx' a hmem hsub hne hl
        rcases List.mem_cons.mp hmem with rfl | hmem
        · rcases hsk with h | h
          · rw [h] at hsub; cases hsub
          · rw [h] at hsub; cases hsub; exact absurd rfl hne
        · exact hs.dropped hx' a hmem hsub hne hl
    simp only [List.map_cons]
    unfold notifyMempool
    split
    · rename_i hnone
      exact skip (ih st hok) (Or.inl hnone)
    · rename_i alias hsome
      split
      · rename_i hempty
        exact skip (ih st hok) (Or.inr (by rw [hsome, hempty]))
      · rename_i hne
        have hok1 := sas_ok hok hx
        have hsh1 := sas_shrink hok hx
        have hs := ih _ hok1
        have hdrop : ∀ hx' a, hx' ∈ hx :: rest.map (·.1) → dGet hx' st.sess.subs = some a → a ≠ "" →
            histLimit w.maxSend ≤ (w.history hx').length →
            dGet hx' (notifyMempool w (subscriptionAddressStatus w st hx).1 rest).1.sess.subs = none := by
          intro hx' a hmem hsub hne' hl
          by_cases heq : hx' = hx
          · subst heq
            apply shrink_none hs.shrink
            rcases (sas_spec hok hx').2 with ⟨_, _, h3⟩ | ⟨h1, _, _⟩
            · rw [h3]; exact dGet_dErase_self _ _
            · omega
          · rcases List.mem_cons.mp hmem with h | hmem
            · exact absurd h heq
            · rcases hsh1 hx' with h' | ⟨_, h'⟩
              · exact hs.dropped hx' a hmem (by rw [h']; exact hsub) hne' hl
              · exact shrink_none hs.shrink h'
        split
        · refine ⟨hs.ok, hsh1.trans hs.shrink, ?_, hdrop⟩
          intro a s h
          simp only [List.mem_cons, Prod.mk.injEq] at h
          rcases h with ⟨rfl, rfl⟩ | h
          · exact ⟨hx, by simp, hsome, sas_status hok hx⟩
          · obtain ⟨hx', h1, h2, h3⟩ := hs.notes a s h
            exact ⟨hx', List.mem_cons_of_mem _ h1, hsh1.some h2, h3⟩
        · refine ⟨hs.ok, hsh1.trans hs.shrink, ?_, hdrop⟩
          intro a s h
          obtain ⟨hx', h1, h2, h3⟩ := hs.notes a s h
          exact ⟨hx', List.mem_cons_of_mem _ h1, hsh1.some h2, h3⟩

/-! ### `_notify_sessions`: cache invalidation -/

/-- after a block, dropping the touched script hashes keeps the history cache coherent with the new
    index, provided only touched script hashes changed their history -/
theorem invalidate_hist {w0 w : World} {m : Mgr} {touched : List Bytes}
    (h0 : ∀ hx r, dGet hx m.histCache = some r → r = histCompute w0 hx)
    (hsame : ∀ hx, ¬ hx ∈ touched → histCompute w hx = histCompute w0 hx) :
    ∀ (always : Bool) hx r, dGet hx (invalidateWith always m touched true).histCache = some r →
      r = histCompute w hx := by
  intro always hx r h
  simp only [invalidateWith, Bool.true_or, if_true] at h
  have key : ∀ (d : List (Bytes × HistRes)),
      dGet hx (d.filter (fun e => !touched.contains e.1)) = some r →
      dGet hx d = some r ∧ ¬ hx ∈ touched := by
    intro d
    induction d with
    | nil => intro h; simp [dGet] at h
    | cons e rest ih =>
      obtain ⟨k, v⟩ := e
      rw [List.filter_cons]
      by_cases hk : touched.contains k = true
      · simp only [hk, Bool.not_true, Bool.false_eq_true, if_false]
        intro h
        obtain ⟨h1, h2⟩ := ih h
        refine ⟨?_, h2⟩
        simp only [dGet]
        have : ¬ k = hx := by
          intro hkx; rw [hkx] at hk; exact h2 (by simpa using hk)
        rw [if_neg this]; exact h1
      · simp only [hk, Bool.not_false, if_true]
        intro h
        simp only [dGet] at h ⊢
        by_cases hkx : k = hx
        · rw [if_pos hkx] at h ⊢
          refine ⟨h, ?_⟩
          rw [← hkx]; intro hm; exact hk (by simpa using hm)
        · rw [if_neg hkx] at h ⊢
          exact ih h
  obtain ⟨h1, h2⟩ := key _ h
  rw [hsame hx h2]
  exact h0 hx r h1

end EV.Rpc

import EV.Model.SyncLoopT
import EV.Proofs.CarrierFS
import EV.Proofs.SyncLoop

/-!
Carrier completeness, loop level (helper lemmas; the property statements are in
`EV/Props/C07carrier.lean`).

The events of `EV.SyncLoopT` are translated into the run operations of the whole-run theorem with
back-outs (`IOp2`, `ValidOps2`, `Track`, `TrackInv`: `EV/Proofs/IndexRunReorg.lean`); the real
system is the ghost system of that theorem up to `first_sync` flags (`Ghost`, `CarrierFS.lean`) and
up to the resets of `touched` (which no invariant mentions).  The loop invariant `LInv` adds: once
caught up, `touched` covers every script hash whose client-visible confirmed state differs between
the reference chain (the chain at the moment `caught_up` was set, later the chain at the last told
point) and the current chain.
Core only.
-/
namespace EV.SyncLoopT
open EV.Index EV.Spec EV.SyncLoop

/-! ### events as run operations -/

def opsOf : Ev → List IOp2
  | .block b d none => [.adv b d]
  | .block b d (some a) => [.adv b d, .flush a]
  | .stale none => []
  | .stale (some a) => [.flush a]
  | .batchEnd => []
  | .caughtUp => [.flush true]
  | .reorg bs => .flush true :: bs.map .backup

/-- validity of an event list w.r.t. the evolving bookkeeping: every advanced block is a valid next
    block of the surviving chain, every block backed out by a `reorg` is the tip at that moment, is
    above height 0 and its height is retained (`BackupOk`) -/
def ValidEvs (cfg : Cfg) : Track → List Ev → Prop
  | _, [] => True
  | t, e :: r => ValidOps2 cfg t (opsOf e) ∧ ValidEvs cfg (t.run cfg (opsOf e)) r

instance decValidEvs (cfg : Cfg) : ∀ (t : Track) (evs : List Ev), Decidable (ValidEvs cfg t evs)
  | _, [] => isTrue trivial
  | t, e :: r =>
    have := decValidEvs cfg (t.run cfg (opsOf e)) r
    by unfold ValidEvs; exact inferInstance

/-- the bookkeeping after a list of events -/
def trackOf (cfg : Cfg) (t : Track) (evs : List Ev) : Track :=
  evs.foldl (fun t e => t.run cfg (opsOf e)) t

/-- no `reorg` event -/
def Forward : List Ev → Prop
  | [] => True
  | .reorg _ :: _ => False
  | _ :: r => Forward r

instance decForward : ∀ evs : List Ev, Decidable (Forward evs)
  | [] => isTrue trivial
  | .reorg _ :: _ => isFalse (fun h => h)
  | .block _ _ _ :: r => decForward r
  | .stale _ :: r => decForward r
  | .batchEnd :: r => decForward r
  | .caughtUp :: r => decForward r

/-! ### the real system and the ghost system -/

/-- the real system is a system satisfying the whole-run invariant, up to `first_sync` flags -/
def Ghost (cfg : Cfg) (t : Track) (s : Sys) : Prop :=
  ∃ s0 f1 f2 f3, TrackInv cfg t s0 ∧ s = setFS s0 f1 f2 f3

theorem ghost_init (cfg : Cfg) : Ghost cfg {} {} :=
  ⟨{}, true, true, true, trackInv_init cfg, rfl⟩

theorem ghost_clearFirstSync {cfg : Cfg} {t : Track} {s : Sys} (g : Ghost cfg t s) :
    Ghost cfg t (clearFirstSync s) := by
  obtain ⟨s0, f1, f2, f3, ti, rfl⟩ := g
  exact ⟨s0, false, f2, f3, ti, rfl⟩

theorem ghost_resetTouched {cfg : Cfg} {t : Track} {s : Sys} (g : Ghost cfg t s) :
    Ghost cfg t (resetTouched s) := by
  obtain ⟨s0, f1, f2, f3, ti, rfl⟩ := g
  exact ⟨setTouched s0 [], f1, f2, f3, trackInv_setTouched ti [], rfl⟩

theorem ghost_advance {cfg : Cfg} {t : Track} {s : Sys} (g : Ghost cfg t s) (b : Block) (d : Int)
    (hv : ValidNext cfg t.chain b) :
    ∃ s', advance cfg d s b = .ok s' ∧ Ghost cfg (t.step cfg (.adv b d)) s' ∧
      s'.m.touched = s.m.touched ++ touchedBy cfg.act t.chain b := by
  obtain ⟨s0, f1, f2, f3, ti, rfl⟩ := g
  obtain ⟨s0', h1, ti'⟩ := trackInv_step ti (.adv b d) hv
  have h1' : advance cfg d s0 b = .ok s0' := h1
  refine ⟨setFS s0' f1 f2 f3, advance_setFS h1' f1 f2 f3, ⟨s0', f1, f2, f3, ti', rfl⟩, ?_⟩
  show s0'.m.touched = s0.m.touched ++ touchedBy cfg.act t.chain b
  exact advance_touched ti.inv.base hv h1'

theorem ghost_flush {cfg : Cfg} {t : Track} {s : Sys} (g : Ghost cfg t s) (fu : Bool) :
    ∃ s', flush s fu = .ok s' ∧ Ghost cfg (t.step cfg (.flush fu)) s' ∧
      s'.m.touched = s.m.touched := by
  obtain ⟨s0, f1, f2, f3, ti, rfl⟩ := g
  obtain ⟨s0', h1, ti'⟩ := trackInv_step ti (.flush fu) trivial
  have h1' : flush s0 fu = .ok s0' := h1
  obtain ⟨g2, g3, h2⟩ := flush_setFS h1' f1 f2 f3
  refine ⟨setFS s0' f1 g2 g3, h2, ⟨s0', f1, g2, g3, ti', rfl⟩, ?_⟩
  show s0'.m.touched = s0.m.touched
  exact flush_touched h1'

theorem backupFull_of_backup {cfg : Cfg} {s s' : Sys} {b : Block} (h : backup cfg s b = .ok s') :
    ∃ es, backupFull cfg s b = .ok (es, s') := by
  unfold backup at h
  split at h
  · simp at h
  · next es s1 hb =>
    simp only [Except.ok.injEq] at h
    subst h
    exact ⟨es, hb⟩

theorem ghost_backup {cfg : Cfg} {t : Track} {s : Sys} (g : Ghost cfg t s) (b : Block)
    (hok : BackupOk t b = true) :
    ∃ s', backup cfg s b = .ok s' ∧ Ghost cfg (t.step cfg (.backup b)) s' ∧
      (∀ hx ∈ s.m.touched, hx ∈ s'.m.touched) ∧
      (∀ hx, confState cfg.act t.chain hx ≠ confState cfg.act t.chain.dropLast hx →
        hx ∈ s'.m.touched) := by
  obtain ⟨s0, f1, f2, f3, ti, rfl⟩ := g
  obtain ⟨s0', h1, ti'⟩ := trackInv_step ti (.backup b) hok
  have h1' : backup cfg s0 b = .ok s0' := h1
  obtain ⟨es, hbf⟩ := backupFull_of_backup h1'
  obtain ⟨es', h2⟩ := backupFull_setFS hbf f1 f2 f3
  obtain ⟨hcl, hlast, hlen, hk⟩ := backupOk_iff.mp hok
  obtain ⟨pre0, hc0⟩ := List.getLast?_eq_some_iff.mp hlast
  have hdl : t.chain.dropLast = pre0 := by rw [hc0, List.dropLast_concat]
  have hplen : pre0.length = t.chain.length - 1 := by rw [← hdl]; exact List.length_dropLast
  have inv := ti.inv
  rw [hc0] at inv
  have hpre : pre0 ≠ [] := by
    intro h0
    rw [h0] at hplen
    simp at hplen
    omega
  obtain ⟨c1, c2, c3⟩ := backup_carries inv (ti.flushed hcl) hpre (by rw [hplen]; exact hk) hbf
  refine ⟨setFS s0' f1 f1 f1, backup_of_ok h2, ⟨s0', f1, f1, f1, ti', rfl⟩, c1, ?_⟩
  rw [hdl, hc0]
  exact c3

/-! ### the loop invariant -/

structure LInv (cfg : Cfg) (t : Track) (ref : List Block) (l : Loop) : Prop where
  ghost : Ghost cfg t l.s
  /-- once caught up, `touched` covers the changes since the reference chain -/
  cov : l.caughtUp = true → Cov cfg.act ref t.chain l.s.m.touched

theorem lInv_init (cfg : Cfg) : LInv cfg {} [] {} :=
  ⟨ghost_init cfg, fun h => by simp at h⟩

/-- what holds of an emitted item while the surviving chain is `c`: the index is (up to `first_sync`
    flags, which no reader looks at) a fully flushed invariant state of exactly `c`, and a told
    height is the height of `c` -/
def OutOK (cfg : Cfg) (o : Out) (c : List Block) : Prop :=
  (∃ s0 f1 f2 f3, o.sys = setFS s0 f1 f2 f3 ∧ FullInv cfg c s0 ∧ Flushed s0) ∧
  (match o with
   | .first _ => True
   | .told h _ _ => h = (c.length : Int) - 1)

/-- the chain of consecutive emitted items, each paired with the surviving chain at that moment:
    the first `on_caught_up` (only when not yet caught up) fixes the reference chain; every told
    point's touched set covers the changes since the previous reference chain, and its chain becomes
    the next reference -/
def Carried (cfg : Cfg) : Bool → List Block → List (Out × List Block) → Prop
  | _, _, [] => True
  | cu, _, (.first s, c) :: r => cu = false ∧ OutOK cfg (.first s) c ∧ Carried cfg true c r
  | cu, ref, (.told h T s, c) :: r =>
    cu = true ∧ OutOK cfg (.told h T s) c ∧ Cov cfg.act ref c T ∧ Carried cfg true c r

/-! ### the events -/

theorem step_block {cfg : Cfg} {t : Track} {ref : List Block} {l : Loop} (li : LInv cfg t ref l)
    (b : Block) (d : Int) (arg : Option Bool) (hv : ValidOps2 cfg t (opsOf (.block b d arg))) :
    ∃ l', step cfg l (.block b d arg) = .ok (l', none) ∧ l'.caughtUp = l.caughtUp ∧
      LInv cfg (t.run cfg (opsOf (.block b d arg))) ref l' := by
  have hvb : ValidNext cfg t.chain b := by cases arg <;> exact hv.1
  obtain ⟨s1, h1, g1, ht1⟩ := ghost_advance li.ghost b d hvb
  have hcov1 : l.caughtUp = true → Cov cfg.act ref (t.chain ++ [b]) s1.m.touched := by
    intro hc
    rw [ht1]
    exact (li.cov hc).step (fun hx hm => List.mem_append_left _ hm)
      (fun hx hne => List.mem_append_right _ (confState_change_advance cfg.act t.chain b hx hne))
  cases arg with
  | none =>
    exact ⟨{ l with s := s1 }, by simp only [step, SyncLoop.step, h1], rfl, g1, hcov1⟩
  | some a =>
    obtain ⟨s2, h2, g2, ht2⟩ := ghost_flush g1 a
    refine ⟨{ l with s := s2 }, by simp only [step, SyncLoop.step, h1, h2], rfl, g2, ?_⟩
    intro hc
    show Cov cfg.act ref (t.chain ++ [b]) s2.m.touched
    rw [ht2]
    exact hcov1 hc

theorem step_stale {cfg : Cfg} {t : Track} {ref : List Block} {l : Loop} (li : LInv cfg t ref l)
    (arg : Option Bool) :
    ∃ l', step cfg l (.stale arg) = .ok (l', none) ∧ l'.caughtUp = l.caughtUp ∧
      LInv cfg (t.run cfg (opsOf (.stale arg))) ref l' := by
  cases arg with
  | none => exact ⟨l, rfl, rfl, li⟩
  | some a =>
    obtain ⟨s1, h1, g1, ht1⟩ := ghost_flush li.ghost a
    refine ⟨{ l with s := s1 }, by simp only [step, h1], rfl, g1, ?_⟩
    intro hc
    show Cov cfg.act ref t.chain s1.m.touched
    rw [ht1]
    exact li.cov hc

theorem step_batchEnd {cfg : Cfg} {t : Track} {ref : List Block} {l : Loop} (li : LInv cfg t ref l) :
    ∃ l', step cfg l .batchEnd = .ok (l', none) ∧ l'.caughtUp = l.caughtUp ∧
      LInv cfg (t.run cfg (opsOf .batchEnd)) ref l' := by
  by_cases hc : l.caughtUp = true
  · exact ⟨l, by simp only [step, hc, if_true], rfl, li⟩
  · refine ⟨{ l with s := resetTouched l.s }, by simp only [step, hc, Bool.false_eq_true, if_false],
      rfl, ghost_resetTouched li.ghost, fun h => absurd h hc⟩

/-- a ghost state after a full flush is fully flushed -/
theorem ghost_flushed {cfg : Cfg} {t : Track} {s : Sys} (g : Ghost cfg t s)
    (h : t.dbLen = t.chain.length) :
    ∃ s0 f1 f2 f3, s = setFS s0 f1 f2 f3 ∧ FullInv cfg t.chain s0 ∧ Flushed s0 := by
  obtain ⟨s0, f1, f2, f3, ti, rfl⟩ := g
  exact ⟨s0, f1, f2, f3, rfl, ti.inv.base, flushed_of_db ti.inv.base (ti.flushed h)⟩

theorem ghost_height {cfg : Cfg} {t : Track} {s : Sys} (g : Ghost cfg t s) :
    s.m.st.height = (t.chain.length : Int) - 1 := by
  obtain ⟨s0, f1, f2, f3, ti, rfl⟩ := g
  exact ti.inv.base.files.height

theorem step_caughtUp {cfg : Cfg} {t : Track} {ref : List Block} {l : Loop} (li : LInv cfg t ref l) :
    ∃ l' o, step cfg l .caughtUp = .ok (l', some o) ∧ l'.caughtUp = true ∧ OutOK cfg o t.chain ∧
      LInv cfg (t.run cfg (opsOf .caughtUp)) t.chain l' ∧
      (match o with
       | .first _ => l.caughtUp = false
       | .told _ T _ => l.caughtUp = true ∧ Cov cfg.act ref t.chain T) := by
  obtain ⟨s1, h1, g1, ht1⟩ := ghost_flush (ghost_clearFirstSync li.ghost) true
  have hfl := ghost_flushed g1 rfl
  have hh := ghost_height g1
  by_cases hc : l.caughtUp = true
  · refine ⟨{ l with s := resetTouched s1 }, .told s1.m.st.height s1.m.touched s1, ?_, hc,
      ⟨hfl, hh⟩, ⟨ghost_resetTouched g1, fun _ => cov_refl _ _ _⟩, hc, ?_⟩
    · simp only [step, SyncLoop.step, h1, hc, if_true]
    · rw [ht1]
      exact li.cov hc
  · have hc' : l.caughtUp = false := by simpa using hc
    refine ⟨{ s := s1, caughtUp := true }, .first s1, ?_, rfl, ⟨hfl, trivial⟩,
      ⟨g1, fun _ => cov_refl _ _ _⟩, hc'⟩
    simp only [step, SyncLoop.step, h1, hc', Bool.false_eq_true, if_false]

theorem backups_cons_ok {cfg : Cfg} {s s1 : Sys} {b : Block} (r : List Block)
    (h : backup cfg s b = .ok s1) : backups cfg s (b :: r) = backups cfg s1 r := by
  show (match backup cfg s b with
        | Except.error e => Except.error e
        | Except.ok s' => backups cfg s' r) = backups cfg s1 r
  rw [h]

theorem backups_inv {cfg : Cfg} (bs : List Block) {t : Track} {s : Sys} (g : Ghost cfg t s)
    (hv : ValidOps2 cfg t (bs.map .backup)) :
    ∃ s', backups cfg s bs = .ok s' ∧ Ghost cfg (t.run cfg (bs.map .backup)) s' ∧
      ∀ ref, Cov cfg.act ref t.chain s.m.touched →
        Cov cfg.act ref (t.run cfg (bs.map .backup)).chain s'.m.touched := by
  induction bs generalizing t s with
  | nil => exact ⟨s, rfl, g, fun _ h => h⟩
  | cons b r ih =>
    obtain ⟨hb, hr⟩ := hv
    obtain ⟨s1, h1, g1, hsub, hchg⟩ := ghost_backup g b hb
    obtain ⟨s', h2, g2, hcov⟩ := ih g1 hr
    simp only [List.map_cons, Track.run_cons]
    refine ⟨s', by rw [backups_cons_ok r h1]; exact h2, g2, ?_⟩
    intro ref hc
    exact hcov ref (hc.step hsub hchg)

theorem step_reorg {cfg : Cfg} {t : Track} {ref : List Block} {l : Loop} (li : LInv cfg t ref l)
    (bs : List Block) (hv : ValidOps2 cfg t (opsOf (.reorg bs))) :
    ∃ l', step cfg l (.reorg bs) = .ok (l', none) ∧ l'.caughtUp = l.caughtUp ∧
      LInv cfg (t.run cfg (opsOf (.reorg bs))) ref l' := by
  have hv' : ValidOps2 cfg t (.flush true :: bs.map .backup) := hv
  obtain ⟨-, hv2⟩ := hv'
  obtain ⟨s1, h1, g1, ht1⟩ := ghost_flush li.ghost true
  obtain ⟨s2, h2, g2, hcov⟩ := backups_inv bs g1 hv2
  show ∃ l', step cfg l (.reorg bs) = .ok (l', none) ∧ l'.caughtUp = l.caughtUp ∧
      LInv cfg (t.run cfg (.flush true :: bs.map .backup)) ref l'
  rw [Track.run_cons]
  refine ⟨{ l with s := s2 }, by simp only [step, h1, h2], rfl, g2, ?_⟩
  intro hc
  apply hcov ref
  rw [ht1]
  exact li.cov hc

/-! ### forward runs: the chains at consecutive emitted items are prefixes of one another -/

theorem track_chain_forward (cfg : Cfg) (t : Track) (e : Ev) (hf : Forward [e]) :
    t.chain <+: (t.run cfg (opsOf e)).chain := by
  cases e with
  | block b d arg =>
    cases arg with
    | none => exact List.prefix_append _ _
    | some a => exact List.prefix_append _ _
  | stale arg => cases arg <;> exact List.prefix_refl _
  | batchEnd => exact List.prefix_refl _
  | caughtUp => exact List.prefix_refl _
  | reorg bs => exact absurd hf (by simp [Forward])

/-- the chains at which the items of a run are emitted -/
def chainsOf (cfg : Cfg) : Track → List Ev → List (List Block)
  | _, [] => []
  | t, .caughtUp :: r => t.chain :: chainsOf cfg (t.run cfg (opsOf .caughtUp)) r
  | t, e :: r => chainsOf cfg (t.run cfg (opsOf e)) r

theorem chainsOf_forward (cfg : Cfg) (evs : List Ev) (t : Track) (hf : Forward evs) :
    ∀ c ∈ chainsOf cfg t evs, t.chain <+: c := by
  induction evs generalizing t with
  | nil => intro c hc; simp [chainsOf] at hc
  | cons e r ih =>
    have hstep : t.chain <+: (t.run cfg (opsOf e)).chain :=
      track_chain_forward cfg t e (by cases e <;> simp_all [Forward])
    have hr : Forward r := by cases e <;> simp_all [Forward]
    intro c hc
    cases e with
    | caughtUp =>
      simp only [chainsOf, List.mem_cons] at hc
      rcases hc with rfl | hc
      · exact List.prefix_refl _
      · exact hstep.trans (ih _ hr c hc)
    | block b d arg => exact hstep.trans (ih _ hr c (by simpa [chainsOf] using hc))
    | stale arg => exact hstep.trans (ih _ hr c (by simpa [chainsOf] using hc))
    | batchEnd => exact hstep.trans (ih _ hr c (by simpa [chainsOf] using hc))
    | reorg bs => exact hstep.trans (ih _ hr c (by simpa [chainsOf] using hc))

theorem chainsOf_forward_chain (cfg : Cfg) (evs : List Ev) (t : Track) (hf : Forward evs) :
    (chainsOf cfg t evs).Pairwise (· <+: ·) := by
  induction evs generalizing t with
  | nil => exact List.Pairwise.nil
  | cons e r ih =>
    have hr : Forward r := by cases e <;> simp_all [Forward]
    cases e with
    | caughtUp =>
      simp only [chainsOf]
      refine List.Pairwise.cons ?_ (ih _ hr)
      intro c hc
      have := chainsOf_forward cfg r (t.run cfg (opsOf .caughtUp)) hr c hc
      exact this
    | block b d arg => simpa [chainsOf] using ih _ hr
    | stale arg => simpa [chainsOf] using ih _ hr
    | batchEnd => simpa [chainsOf] using ih _ hr
    | reorg bs => simpa [chainsOf] using ih _ hr

/-! ### runs -/

/-- **The run lemma.**  From any loop state satisfying the invariant, every valid event list runs
without error; the emitted items, paired with the surviving chains at their moments (`chainsOf`),
satisfy `Carried`. -/
theorem run_inv {cfg : Cfg} (evs : List Ev) {t : Track} {ref : List Block} {l : Loop}
    (li : LInv cfg t ref l) (hv : ValidEvs cfg t evs) :
    ∃ l' ocs, run cfg l evs = .ok (l', ocs.map (·.1)) ∧
      ocs.map (·.2) = chainsOf cfg t evs ∧ Carried cfg l.caughtUp ref ocs ∧
      ∃ ref', LInv cfg (trackOf cfg t evs) ref' l' := by
  induction evs generalizing t ref l with
  | nil => exact ⟨l, [], rfl, rfl, trivial, ref, li⟩
  | cons e r ih =>
    obtain ⟨he, hr⟩ := hv
    cases e with
    | block b d arg =>
      obtain ⟨l1, h1, hcu, li1⟩ := step_block li b d arg he
      obtain ⟨l', ocs, h2, hcs, hcar, hfin⟩ := ih li1 hr
      refine ⟨l', ocs, by simp only [run, h1, h2, Option.toList, List.nil_append], hcs, ?_, hfin⟩
      rw [← hcu]; exact hcar
    | stale arg =>
      obtain ⟨l1, h1, hcu, li1⟩ := step_stale li arg
      obtain ⟨l', ocs, h2, hcs, hcar, hfin⟩ := ih li1 hr
      refine ⟨l', ocs, by simp only [run, h1, h2, Option.toList, List.nil_append], hcs, ?_, hfin⟩
      rw [← hcu]; exact hcar
    | batchEnd =>
      obtain ⟨l1, h1, hcu, li1⟩ := step_batchEnd li
      obtain ⟨l', ocs, h2, hcs, hcar, hfin⟩ := ih li1 hr
      refine ⟨l', ocs, by simp only [run, h1, h2, Option.toList, List.nil_append], hcs, ?_, hfin⟩
      rw [← hcu]; exact hcar
    | reorg bs =>
      obtain ⟨l1, h1, hcu, li1⟩ := step_reorg li bs he
      obtain ⟨l', ocs, h2, hcs, hcar, hfin⟩ := ih li1 hr
      refine ⟨l', ocs, by simp only [run, h1, h2, Option.toList, List.nil_append], hcs, ?_, hfin⟩
      rw [← hcu]; exact hcar
    | caughtUp =>
      obtain ⟨l1, o, h1, hcu, hout, li1, ho⟩ := step_caughtUp li
      obtain ⟨l', ocs, h2, hcs, hcar, hfin⟩ := ih li1 hr
      refine ⟨l', (o, t.chain) :: ocs,
        by simp only [run, h1, h2, Option.toList, List.singleton_append, List.map_cons],
        by simp only [List.map_cons, chainsOf, hcs], ?_, hfin⟩
      rw [hcu] at hcar
      cases o with
      | first s => exact ⟨ho, hout, hcar⟩
      | told h T s => exact ⟨ho.1, hout, ho.2, hcar⟩

/-! ### reading `Carried` by position -/

/-- after the first item everything is told -/
theorem carried_true_told {cfg : Cfg} {ref : List Block} {l : List (Out × List Block)}
    (h : Carried cfg true ref l) : ∀ x ∈ l, ∃ ht T s, x.1 = .told ht T s := by
  induction l generalizing ref with
  | nil => intro x hx; simp at hx
  | cons y r ih =>
    intro x hx
    obtain ⟨o, c⟩ := y
    cases o with
    | first s => exact absurd h.1 (by simp)
    | told ht T s =>
      rcases List.mem_cons.mp hx with rfl | hx
      · exact ⟨ht, T, s, rfl⟩
      · exact ih h.2.2.2 x hx

/-- **Consecutive items.**  In a list satisfying `Carried`, any item that is directly followed
by a told point: the touched set handed over at that told point covers every script hash whose
client-visible confirmed state differs between the two chains. -/
theorem carried_consecutive {cfg : Cfg} {cu : Bool} {ref : List Block}
    {l : List (Out × List Block)} (h : Carried cfg cu ref l) (i : Nat)
    (o1 : Out) (c1 : List Block) (ht : Int) (T : List HashX) (s : Sys) (c2 : List Block)
    (h1 : l[i]? = some (o1, c1)) (h2 : l[i + 1]? = some (.told ht T s, c2)) :
    Cov cfg.act c1 c2 T := by
  induction l generalizing cu ref i with
  | nil => simp at h1
  | cons y r ih =>
    obtain ⟨o, c⟩ := y
    have hrest : Carried cfg true c r := by
      cases o with
      | first s => exact h.2.2
      | told _ _ _ => exact h.2.2.2
    cases i with
    | zero =>
      simp only [List.getElem?_cons_zero, Option.some.injEq, Prod.mk.injEq] at h1
      obtain ⟨-, rfl⟩ := h1
      simp only [Nat.zero_add, List.getElem?_cons_succ] at h2
      cases r with
      | nil => simp at h2
      | cons z r' =>
        simp only [List.getElem?_cons_zero, Option.some.injEq] at h2
        subst h2
        exact hrest.2.2.1
    | succ j =>
      simp only [List.getElem?_cons_succ] at h1 h2
      exact ih hrest j h1 h2

end EV.SyncLoopT

import EV.Proofs.HeaderCacheInv

/-!
C11, header proofs: PROGRESS of the current code.  A `block_header(height, cp)` request inside the
chain, started in a state in which no back-out is half done and scheduled alone (only its own reads
are performed and delivered, nothing else happens) is answered after at most four read round
trips: header, [extension], leaf hashes, [level].  No read fails, no exception is raised, the
consistency check of the reply passes.  So the safety theorems are not satisfied vacuously by a
model in which every delivery fails.
-/
namespace EV.HeaderCache
open EV.Merkle

variable {Node : Type} (H : Node → Node → Node)

/-- one read round trip of one request with nothing in between: a worker thread performs its
    pending read, the result is delivered -/
def soloStep [DecidableEq Node] (src : List Node) (T : Nat) (x : Cache Node × Req Node) :
    Cache Node × Req Node :=
  deliverAll H Cfg.fixed x.1 T src.length (performReq x.1 src x.2)

def soloRun [DecidableEq Node] (src : List Node) (T : Nat) : Nat → Cache Node × Req Node → Cache Node × Req Node
  | 0, x => x
  | k + 1, x => soloRun src T k (soloStep H src T x)

def Req.answered (r : Req Node) : Prop := ∃ br root, r.pc = .done (.answer br root)

theorem readSrc_got (src : List Node) (a n : Nat) (h : n ≤ src.length - a) :
    readSrc src a n = .got (srcSlice src a n) := by
  unfold readSrc; rw [if_pos h]

theorem srcSlice_one (src : List Node) (i : Nat) (h : i < src.length) : srcSlice src i 1 = [src[i]] := by
  unfold srcSlice
  rw [List.drop_eq_getElem_cons h]
  rfl

/-- the end of an iteration that computed the from-scratch result with no truncation in between,
    for a request whose header is the block at `index` of the visible chain: an answer, and the
    consistency check passes -/
theorem finish_answered [DecidableEq Node] {c : Cache Node} {T : Nat} {src : List Node} {r : Req Node}
    (ht : r.t0 = T) (hlen : r.length ≤ src.length) (hidx : r.index < r.length)
    (hhdr : ∃ x, r.hdrs = [x] ∧ src[r.index]? = some x) :
    (afterProof H Cfg.fixed (finish Cfg.fixed c T r
      (branchAndRoot H (src.take r.length) (.int r.index) none false))).answered := by
  have htl : (src.take r.length).length = r.length := by rw [List.length_take]; omega
  have hi : r.index < (src.take r.length).length := by omega
  obtain ⟨nodes, root, hb, hf⟩ := bar_fold H (src.take r.length) r.index hi
  obtain ⟨x, hx1, hx2⟩ := hhdr
  have hxe : (src.take r.length)[r.index] = x := by
    rw [List.getElem_take]
    have := List.getElem?_eq_getElem (l := src) (i := r.index) (by omega)
    rw [this] at hx2
    injection hx2
  rw [hxe] at hf
  rw [hb]
  have hb' : (T != r.t0) = false := by simp [ht]
  simp only [finish, fixed_retry, Bool.true_and, hb', Bool.false_eq_true, if_false]
  refine ⟨nodes.map .node, root, ?_⟩
  unfold afterProof
  simp only [show Cfg.fixed.hdrCheck = true from rfl, if_true, hx1, List.getLast?_singleton]
  have hbn : ∀ l : List Node, branchNodes (l.map Elt.node) = l := by
    intro l
    induction l with
    | nil => rfl
    | cons a rest ih => simp only [List.map_cons, branchNodes, ih]
  rw [hbn, hf]
  simp only [if_true]

/-- what is known at a wait point of a request that runs alone from a quiescent state: the read is
    issued, no truncation happened since the request entered the proof -/
structure Ready (c : Cache Node) (T : Nat) (src : List Node) (r : Req Node) : Prop where
  inv : CacheInv H c src
  t0 : r.t0 = T
  len : r.length ≤ src.length
  idx : r.index < r.length
  hdr : ∃ x, r.hdrs = [x] ∧ src[r.index]? = some x
  pc : match r.pc with
    | .ext t cl start .issued =>
      t = T ∧ cl = c.length ∧ start = c.leafStart c.length ∧ c.length < r.length
    | .leaf .issued => r.length ≤ c.length
    | .lvl pre leaf .issued =>
      r.length ≤ c.length ∧ ¬ r.length < c.segLen ∧
        Slice src (c.leafStart r.index) (min c.segLen (r.length - c.leafStart r.index)) leaf ∧
        pre = lvl H c.depthHigher (src.take (c.leafStart r.length))
    | _ => False

def rank : PC Node → Nat
  | .hdr _ => 4
  | .ext _ _ _ _ => 3
  | .leaf _ => 2
  | .lvl _ _ _ => 1
  | .done _ => 0

/-- the first round trip: the header is read and delivered, the range check passes, the request is
    at its first read of the proof -/
theorem solo_start [DecidableEq Node] (c : Cache Node) (T : Nat) (src : List Node) (b : Bool) (height cp : Nat)
    (hinv : CacheInv H c src) (h1 : height ≤ cp) (h2 : 0 < cp) (h3 : cp < src.length) :
    Ready H (soloStep H src T (c, newReq T src b .header height 1 cp)).1 T src
        (soloStep H src T (c, newReq T src b .header height 1 cp)).2 ∧
      rank (soloStep H src T (c, newReq T src b .header height 1 cp)).2.pc ≤ 3 := by
  have hh : height < src.length := by omega
  have hne : ¬ cp + 1 = 1 := by omega
  have hr : height < cp + 1 ∧ cp + 1 ≤ src.length := by omega
  have hx : src[height]? = some src[height] := List.getElem?_eq_getElem hh
  simp only [soloStep, newReq, performReq, deliverAll, afterHdr, srcSlice_one src height hh, List.length_singleton,
    ne_eq, not_true_eq_false, if_false, hne, enterProof, hr, and_self, if_true, beginIter, enterExtend]
  split
  · next hle => exact ⟨⟨hinv, rfl, by show cp + 1 ≤ _; omega, hr.1, ⟨_, rfl, hx⟩, hle⟩, by show 2 ≤ 3; omega⟩
  · next hle =>
    exact ⟨⟨hinv, rfl, by show cp + 1 ≤ _; omega, hr.1, ⟨_, rfl, hx⟩,
      ⟨rfl, rfl, rfl, by show c.length < cp + 1; omega⟩⟩, by show 3 ≤ 3; omega⟩

/-- every later round trip: the request is answered, or it is at its next read -/
theorem solo_progress [DecidableEq Node] (c : Cache Node) (T : Nat) (src : List Node) (r : Req Node)
    (h : Ready H c T src r) :
    (soloStep H src T (c, r)).2.answered ∨
      (Ready H (soloStep H src T (c, r)).1 T src (soloStep H src T (c, r)).2 ∧
        rank (soloStep H src T (c, r)).2.pc < rank r.pc) := by
  obtain ⟨len, idx, t0, pc, seen, bo, kind, first, count, hdrs⟩ := r
  obtain ⟨hinv, ht, hlen, hidx, hhdr, hpc⟩ := h
  simp only at ht hlen hidx hhdr hpc
  subst ht
  cases pc with
  | hdr rd => exact hpc.elim
  | done res => exact hpc.elim
  | ext t cl start rd =>
    cases rd with
    | got hs => exact hpc.elim
    | short => exact hpc.elim
    | issued =>
      obtain ⟨p1, p2, p3, p4⟩ := hpc
      subst p1 p2
      have hsl := leafStart_le c c.length
      have hcl := hinv.len
      right
      have hw := write_eq H c src (srcSlice src start (len - start)) _ start len p4 p3 rfl (level_eq' H _ _)
      obtain ⟨_, e2, e3, e4⟩ := extendTo_inv H c src len hinv hlen
      have hlen' : len ≤ (c.extendTo H src len).1.length := by rw [e3]; omega
      simp only [soloStep, performReq, readArgs, setRd, readSrc_got src start (len - start) (by omega),
        deliverAll, deliverReq, fixed_extFix, if_true, and_self, level_eq', hw, enterExtend, hlen', afterProof]
      exact ⟨⟨e2, rfl, hlen, hidx, hhdr, hlen'⟩, by show 2 < 3; omega⟩
  | leaf rd =>
    cases rd with
    | got hs => exact hpc.elim
    | short => exact hpc.elim
    | issued =>
      have hpc' : len ≤ c.length := hpc
      have hcl := hinv.len
      have hsl := leafStart_le c idx
      have hcount : min c.segLen (len - c.leafStart idx) ≤ src.length - c.leafStart idx := by omega
      have hslice : Slice src (c.leafStart idx) (min c.segLen (len - c.leafStart idx))
          (srcSlice src (c.leafStart idx) (min c.segLen (len - c.leafStart idx))) := ⟨hcount, rfl⟩
      simp only [soloStep, performReq, readArgs, setRd, readSrc_got src _ _ hcount, deliverAll, deliverReq]
      by_cases hsmall : len < c.segLen
      · left
        simp only [hsmall, if_true]
        rw [direct_eq c src _ len idx hsmall hidx hslice]
        exact finish_answered H (r := ⟨len, idx, t0, _, seen, bo, kind, first, count, hdrs⟩) rfl hlen hidx hhdr
      · simp only [hsmall, if_false]
        by_cases heq : len = c.length
        · left
          simp only [heq, if_true]
          have := fromLevel_eq H c src _ len idx hsmall hidx hlen hslice
          rw [hinv.level, ← heq, this]
          exact finish_answered H (r := ⟨len, idx, t0, _, seen, bo, kind, first, count, hdrs⟩) rfl hlen hidx hhdr
        · right
          simp only [heq, if_false, afterProof]
          exact ⟨⟨hinv, rfl, hlen, hidx, hhdr, hpc', hsmall, hslice, pre_eq H c src len hinv hpc'⟩,
            by show 1 < 2; omega⟩
  | lvl pre leaf rd =>
    cases rd with
    | got hs => exact hpc.elim
    | short => exact hpc.elim
    | issued =>
      obtain ⟨p1, p2, p3, p4⟩ := hpc
      have hcl := hinv.len
      have hsl := leafStart_le c len
      have hcount : min c.segLen (len - c.leafStart len) ≤ src.length - c.leafStart len := by omega
      left
      simp only [soloStep, performReq, readArgs, setRd, readSrc_got src _ _ hcount, deliverAll, deliverReq,
        level_eq']
      rw [p4, level_rebuild H c src len hlen, fromLevel_eq H c src leaf len idx p2 hidx hlen p3]
      exact finish_answered H (r := ⟨len, idx, t0, _, seen, bo, kind, first, count, hdrs⟩) rfl hlen hidx hhdr

theorem solo_run [DecidableEq Node] (src : List Node) (T : Nat) :
    ∀ (n : Nat) (x : Cache Node × Req Node), Ready H x.1 T src x.2 → rank x.2.pc ≤ n →
      ∃ k, k ≤ n ∧ (soloRun H src T k x).2.answered := by
  intro n
  induction n with
  | zero =>
    intro x hx hr
    have := hx.pc
    obtain ⟨c, len, idx, t0, pc, seen, bo, kind, first, count, hdrs⟩ := x
    cases pc with
    | done res => exact this.elim
    | hdr rd => simp [rank] at hr
    | ext t cl start rd => simp [rank] at hr
    | leaf rd => simp [rank] at hr
    | lvl pre leaf rd => simp [rank] at hr
  | succ n ih =>
    intro x hx hr
    obtain ⟨c, r⟩ := x
    rcases solo_progress H c T src r hx with ha | ⟨hready, hrank⟩
    · exact ⟨1, by omega, ha⟩
    · obtain ⟨k, hk, hans⟩ := ih (soloStep H src T (c, r)) hready (by simp only at hr; omega)
      exact ⟨k + 1, by omega, hans⟩

/-- **progress of one request run alone**: at most four read round trips -/
theorem solo_answered [DecidableEq Node] (c : Cache Node) (T : Nat) (src : List Node) (b : Bool) (height cp : Nat)
    (hinv : CacheInv H c src) (h1 : height ≤ cp) (h2 : 0 < cp) (h3 : cp < src.length) :
    ∃ k, k ≤ 4 ∧ (soloRun H src T k (c, newReq T src b .header height 1 cp)).2.answered := by
  obtain ⟨hready, hrank⟩ := solo_start H c T src b height cp hinv h1 h2 h3
  obtain ⟨k, hk, hans⟩ := solo_run H src T 3 _ hready hrank
  exact ⟨k + 1, by omega, hans⟩

end EV.HeaderCache

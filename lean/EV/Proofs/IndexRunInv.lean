import EV.Proofs.IndexRun
import EV.Proofs.CrashRedo

/-!
The whole-run invariant extended by what back-outs and re-opens need (`FullInv'`):

  * `valid`    the chain indexed so far is valid (each block links to its predecessor and its
               transactions are valid on the specification state before it) — `backup_block` undoes
               a block only correctly if the block had been a valid one;
  * `undo`     for every height `h` of the ghost set `K` ("heights whose undo information is
               retained"), the undo information a back-out at `h` would find once everything pending
               is flushed (`undoLookup`: the last unflushed entry for `h`, else the `U` row) is
               exactly `blockUndo` of block `h` w.r.t. the specification state before it;
               every `h ∈ K` is below the chain length, so `U` rows at or above the tip — the rows
               orphaned blocks leave behind (N2) — are unconstrained;
  * `dbEq`, `hstate`, `fcLe`, `histIds`   the flush-count bookkeeping a restart depends on;
  * `db`, `undoUAbove`   what is COMMITTED: the `h`/`u` rows, the history rows with ids up to the
               UTXO flush count, and the persisted state record describe exactly the chain as of the
               last UTXO flush (`chain.take (DB.state.height + 1)`) — what a restart that loses all
               unflushed work falls back to;
  * `chainSize`.

This file: definitions, chain-validity facts, and preservation by `advance_block` and by every flush.
`K` evolves with the operations: an advance at height `n` adds `n` iff `undoKept cfg daemonH n`
(the model's retention rule `n ≥ daemonH − reorgLimit + 1`), so holes left by falling daemon heights
(F10) are simply heights not in `K`.
Core only.
-/
namespace EV.Index
open EV.Spec

/-! ### chain validity -/

/-- every block of the chain is a valid next block of the blocks before it -/
def ValidChain (cfg : Cfg) (chain : List Block) : Prop :=
  ∀ pre b suf, chain = pre ++ b :: suf → ValidNext cfg pre b

theorem validChain_nil (cfg : Cfg) : ValidChain cfg [] := by
  intro pre b suf h
  simp at h

theorem append_cons_eq_snoc {α : Type} {chain pre suf : List α} {x b : α}
    (h : chain ++ [x] = pre ++ b :: suf) :
    (suf = [] ∧ pre = chain ∧ b = x) ∨ (∃ suf', suf = suf' ++ [x] ∧ chain = pre ++ b :: suf') := by
  rcases List.eq_nil_or_concat suf with rfl | ⟨suf', y, rfl⟩
  · left
    have h' : chain ++ [x] = pre ++ [b] := h
    have := List.append_inj' h' rfl
    exact ⟨rfl, this.1.symm, by simpa using this.2.symm⟩
  · right
    have h' : chain ++ [x] = (pre ++ b :: suf') ++ [y] := by
      rw [h]; simp
    have := List.append_inj' h' rfl
    refine ⟨suf', ?_, this.1⟩
    have hy : x = y := by simpa using this.2
    rw [hy]
    simp

theorem validChain_snoc {cfg : Cfg} {chain : List Block} {b : Block} (h : ValidChain cfg chain)
    (hb : ValidNext cfg chain b) : ValidChain cfg (chain ++ [b]) := by
  intro pre x suf heq
  rcases append_cons_eq_snoc heq with ⟨-, rfl, rfl⟩ | ⟨suf', -, hc⟩
  · exact hb
  · exact h pre x suf' hc

theorem validChain_prefix {cfg : Cfg} {pre suf : List Block} (h : ValidChain cfg (pre ++ suf)) :
    ValidChain cfg pre := by
  intro p x q heq
  exact h p x (q ++ suf) (by rw [heq]; simp)

theorem validChain_last {cfg : Cfg} {pre : List Block} {b : Block} (h : ValidChain cfg (pre ++ [b])) :
    ValidNext cfg pre b :=
  h pre b [] rfl

/-- the specification's UTXO set of a valid chain has distinct outpoints -/
theorem specChain_nodup {cfg : Cfg} (chain : List Block) (h : ValidChain cfg chain) :
    ((specChain cfg.act chain).utxos.map opOf).Nodup := by
  induction chain using snoc_induction with
  | hnil => simp [specChain, specFrom]
  | hsnoc l b ih =>
    rw [specChain_snoc]
    exact foldl_applyTx_nodup b.txs (ih (validChain_prefix h)) (validChain_last h).2

/-- a valid chain as a run of advances only (what `C01run_end_to_end` speaks about) -/
def advOnly (chain : List Block) : List IOp := chain.map (fun b => IOp.adv b 0)

theorem chainOf_advOnly (chain : List Block) : chainOf (advOnly chain) = chain := by
  induction chain with
  | nil => rfl
  | cons b r ih => simp only [advOnly, List.map_cons, chainOf] at ih ⊢; rw [ih]

theorem validOps_advOnly {cfg : Cfg} (pre suf : List Block) (h : ValidChain cfg (pre ++ suf)) :
    ValidOps cfg pre (advOnly suf) := by
  induction suf generalizing pre with
  | nil => trivial
  | cons b r ih =>
    refine ⟨h pre b r rfl, ih (pre ++ [b]) (by simpa using h)⟩

/-! ### the undo information a back-out would find -/

/-- the undo list `backup_block` at height `h` would read once everything pending is flushed:
    the last unflushed entry for `h` if there is one (the UTXO batch puts them in order, so a later
    one wins and overwrites the `U` row), else the `U` row on disk -/
def undoLookup (s : Sys) (h : Nat) : Option (List CacheVal) :=
  match alookup h ((s.m.undoU.map (fun (ui, h) => (h, ui))).reverse) with
  | some ui => some ui
  | none => alookup h s.p.undo

theorem undoLookup_of_nil {s : Sys} (h0 : s.m.undoU = []) (h : Nat) :
    undoLookup s h = alookup h s.p.undo := by
  simp [undoLookup, h0]

theorem undoLookup_congr {s s' : Sys} (h1 : s'.m.undoU = s.m.undoU) (h2 : s'.p.undo = s.p.undo)
    (h : Nat) : undoLookup s' h = undoLookup s h := by
  simp only [undoLookup, h1, h2]

/-- the undo clause: for every retained height the available undo information is the block's -/
def UndoInv (cfg : Cfg) (chain : List Block) (K : List Nat) (s : Sys) : Prop :=
  ∀ h ∈ K, ∀ pre b suf, chain = pre ++ b :: suf → pre.length = h →
    undoLookup s h = some (blockUndo cfg.act h (specChain cfg.act pre) b.txs)

theorem undoInv_congr {cfg : Cfg} {chain : List Block} {K : List Nat} {s s' : Sys}
    (u : UndoInv cfg chain K s) (h : ∀ k ∈ K, undoLookup s' k = undoLookup s k) :
    UndoInv cfg chain K s' := by
  intro k hk pre b suf hc hl
  rw [h k hk]
  exact u k hk pre b suf hc hl

/-! ### what is committed -/

/-- The committed part of the index describes the chain `dbc` (the blocks up to the last UTXO
flush): the `h`/`u` rows are the rows of its UTXO set, the history rows with ids up to the UTXO
flush count (those `clear_excess` keeps) are its histories, `DB.state` carries its counters. -/
structure DbInv (cfg : Cfg) (dbc : List Block) (s : Sys) : Prop where
  rowsH : ∀ e, e ∈ s.p.h ↔ ∃ u ∈ (specChain cfg.act dbc).utxos, e = (hkey u, u.hx)
  rowsU : ∀ e, e ∈ s.p.u ↔ ∃ u ∈ (specChain cfg.act dbc).utxos, e = (ukey u, u.value)
  hist : ∀ hx, getTxnums { s.p with hist := histUpTo s.p.hist s.m.dbst.flushCount } hx none =
           historyOf (specChain cfg.act dbc) hx
  utxoCount : s.m.dbst.utxoCount = ((specChain cfg.act dbc).utxos.length : Int)
  chainSize : s.m.dbst.chainSize = (dbc.map (·.size)).sum

theorem dbInv_congr {cfg : Cfg} {dbc : List Block} {s s' : Sys} (d : DbInv cfg dbc s)
    (hh : s'.p.h = s.p.h) (hu : s'.p.u = s.p.u)
    (hhist : histUpTo s'.p.hist s'.m.dbst.flushCount = histUpTo s.p.hist s.m.dbst.flushCount)
    (hdb : s'.m.dbst = s.m.dbst) : DbInv cfg dbc s' where
  rowsH := by rw [hh]; exact d.rowsH
  rowsU := by rw [hu]; exact d.rowsU
  hist := fun hx => by
    rw [← d.hist hx]
    exact getTxnums_congr hhist hx none
  utxoCount := by rw [hdb]; exact d.utxoCount
  chainSize := by rw [hdb]; exact d.chainSize

/-- in a state whose rows, history and `DB.state` are those of `chain` (every fully flushed state),
    the committed part describes `chain` -/
theorem dbInv_flushed {cfg : Cfg} {chain : List Block} {s : Sys} {fc : Nat}
    (hH : ∀ e, e ∈ s.p.h ↔ ∃ u ∈ (specChain cfg.act chain).utxos, e = (hkey u, u.hx))
    (hU : ∀ e, e ∈ s.p.u ↔ ∃ u ∈ (specChain cfg.act chain).utxos, e = (ukey u, u.value))
    (hist : HistInv (specChain cfg.act chain) s.p [] fc)
    (hids : ∀ e ∈ s.p.hist, e.1.2 ≤ s.m.dbst.flushCount)
    (huc : s.m.dbst.utxoCount = ((specChain cfg.act chain).utxos.length : Int))
    (hcs : s.m.dbst.chainSize = (chain.map (·.size)).sum) : DbInv cfg chain s where
  rowsH := hH
  rowsU := hU
  hist := fun hx => by
    have h := hist.eq hx
    simp only [unfOf, alookup_nil, Option.getD_none, List.append_nil] at h
    rw [← h]
    exact getTxnums_congr (histUpTo_self hids) hx none
  utxoCount := huc
  chainSize := hcs

/-! ### the extended invariant -/

/-- **The whole-system invariant with undo information.**  `K` is the (ghost) set of heights whose
undo information is retained. -/
structure FullInv' (cfg : Cfg) (chain : List Block) (K : List Nat) (s : Sys) : Prop where
  base : FullInv cfg chain s
  /-- the indexed chain is valid -/
  valid : ValidChain cfg chain
  /-- retained heights lie below the tip: rows at or above it are unconstrained (N2) -/
  kBound : ∀ h ∈ K, h < chain.length
  /-- retained undo information is exactly the block's -/
  undo : UndoInv cfg chain K s
  /-- when the UTXO DB is at the tip, `DB.state` is the processor's state -/
  dbEq : s.m.dbst.height = s.m.st.height → s.m.dbst = s.m.st
  /-- the persisted history flush count is `History.flush_count` -/
  hstate : (s.p.hstate.getD {}).flushCount = s.m.histFlush
  /-- the UTXO flush count is never ahead of the history one -/
  fcLe : s.m.dbst.flushCount ≤ s.m.histFlush
  /-- on a flushed store no history row carries an id above the UTXO flush count
      (`clear_excess` finds nothing to delete) -/
  histIds : s.m.dbst.height = s.m.st.height → ∀ e ∈ s.p.hist, e.1.2 ≤ s.m.dbst.flushCount
  /-- `state.chain_size` is the total size of the indexed blocks -/
  chainSize : s.m.st.chainSize = (chain.map (·.size)).sum
  /-- the committed part describes the chain as of the last UTXO flush -/
  db : DbInv cfg (chain.take (s.m.dbst.height + 1).toNat) s
  /-- unflushed undo lists belong to blocks above the last UTXO flush -/
  undoUAbove : ∀ e ∈ s.m.undoU, s.m.dbst.height < (e.2 : Int)

theorem fullInv'_init (cfg : Cfg) : FullInv' cfg [] [] {} where
  base := fullInv_init cfg
  valid := validChain_nil cfg
  kBound := by simp
  undo := by intro h hk; simp at hk
  dbEq := fun _ => rfl
  hstate := rfl
  fcLe := Nat.le_refl _
  histIds := by intro _ e he; simp at he
  chainSize := rfl
  db := {
    rowsH := by intro e; simp [specChain, specFrom]
    rowsU := by intro e; simp [specChain, specFrom]
    hist := by intro hx; simp [getTxnums, histUpTo, historyOf, specChain, specFrom]
    utxoCount := rfl
    chainSize := rfl }
  undoUAbove := by intro e he; simp at he

/-- the set of retained heights may always be made smaller -/
theorem fullInv'_subset {cfg : Cfg} {chain : List Block} {K K' : List Nat} {s : Sys}
    (inv : FullInv' cfg chain K s) (h : ∀ k ∈ K', k ∈ K) : FullInv' cfg chain K' s :=
  { inv with
    kBound := fun k hk => inv.kBound k (h k hk)
    undo := fun k hk => inv.undo k (h k hk) }

/-! ### `advance_block` -/

/-- what `advance_block` adds to the retained heights -/
def keptAfterAdv (cfg : Cfg) (daemonH : Int) (n : Nat) (K : List Nat) : List Nat :=
  if undoKept cfg daemonH n then n :: K else K

theorem undoLookup_snoc (s s' : Sys) (u : List CacheVal) (n : Nat)
    (h1 : s'.m.undoU = s.m.undoU ++ [(u, n)]) (h2 : s'.p.undo = s.p.undo) (h : Nat) :
    undoLookup s' h = if n = h then some u else undoLookup s h := by
  simp only [undoLookup, h1, h2, List.map_append, List.map_cons, List.map_nil, List.reverse_append,
    List.reverse_cons, List.reverse_nil, List.nil_append, List.singleton_append, alookup_cons]
  by_cases hn : n = h <;> simp [hn]

/-- `advance_block` adds the block's size to `state.chain_size` -/
theorem advance_chainSize {cfg : Cfg} {daemonH : Int} {s s' : Sys} {b : Block}
    (h : advance cfg daemonH s b = .ok s') :
    s'.m.st.chainSize = s.m.st.chainSize + b.size := by
  unfold advance at h
  split at h
  · simp at h
  · dsimp only at h
    split at h
    · simp at h
    · next a ha =>
      obtain ⟨c, d, hs⟩ := advanceTxs_same _ _ _ _ ha
      simp only at hs
      simp only [Except.ok.injEq] at h
      subst h
      simp [hs]

/-- **`advance_block` preserves the extended invariant**; the block's height joins the retained
heights exactly when the model's retention rule keeps its undo list. -/
theorem fullInv'_advance {cfg : Cfg} {daemonH : Int} {chain : List Block} {K : List Nat} {s : Sys}
    {b : Block} (inv : FullInv' cfg chain K s) (hv : ValidNext cfg chain b) :
    ∃ s', advance cfg daemonH s b = .ok s' ∧
      FullInv' cfg (chain ++ [b]) (keptAfterAdv cfg daemonH chain.length K) s' ∧
      s'.m.dbst = s.m.dbst := by
  have f := inv.base.files
  have hheight : (s.m.st.height + 1).toNat = chain.length := by have := f.height; omega
  have hn : s.m.st.txCount = (specChain cfg.act chain).txs.length := by
    rw [f.stTx, specChain_txs_length]
  obtain ⟨a, ha, -, -, -, -, hundo, -, -⟩ :=
    advanceTxs_spec sysIface cfg chain.length b.txs (specChain cfg.act chain)
      { s := s, txNum := s.m.st.txCount } inv.base.rep hn hv.2
  simp only [List.nil_append] at hundo
  rw [← hheight] at ha
  obtain ⟨c, d, hs⟩ := advanceTxs_same _ _ _ _ ha
  simp only at hs
  obtain ⟨s', hadv, base'⟩ := fullInv_advance (daemonH := daemonH) inv.base hv
  obtain ⟨s'', hadv'', o⟩ := advance_ok (daemonH := daemonH) (hv.1.trans inv.base.tip.symm) ha
  have hss : s'' = s' := by
    rw [hadv] at hadv''
    exact (Except.ok.inj hadv'').symm
  subst hss
  obtain ⟨a2, ha2, hU, -, -⟩ := advance_undo hadv
  have haa : a2 = a := by
    rw [ha] at ha2
    exact (Except.ok.inj ha2).symm
  subst haa
  have hUa : a2.s.m.undoU = s.m.undoU := by rw [hs]
  rw [hUa, hheight, hundo] at hU
  have hord := f.order
  have hht := f.height
  have hlt : s''.m.dbst.height < s''.m.st.height := by rw [o.dbst, o.height]; omega
  refine ⟨s'', hadv, ?_, o.dbst⟩
  exact {
    base := base'
    valid := validChain_snoc inv.valid hv
    kBound := by
      intro h hk
      simp only [keptAfterAdv] at hk
      rw [List.length_append, List.length_singleton]
      split at hk
      · rcases List.mem_cons.mp hk with rfl | hk
        · omega
        · have := inv.kBound h hk; omega
      · have := inv.kBound h hk; omega
    undo := by
      intro h hk pre x suf hc hl
      simp only [keptAfterAdv] at hk
      by_cases hkept : undoKept cfg daemonH chain.length = true
      · simp only [hkept, if_true] at hk hU
        rw [undoLookup_snoc s s'' _ _ hU (congrArg Store.undo o.p) h]
        rcases append_cons_eq_snoc hc with ⟨-, rfl, rfl⟩ | ⟨suf', -, hc'⟩
        · rw [if_pos hl, ← hl]
        · have hlt' : h < chain.length := by
            rw [hc', ← hl]; simp
          rw [if_neg (by omega)]
          rcases List.mem_cons.mp hk with rfl | hk'
          · omega
          · exact inv.undo h hk' pre x suf' hc' hl
      · simp only [hkept, Bool.false_eq_true, if_false] at hk hU
        have hlt' := inv.kBound h hk
        rcases append_cons_eq_snoc hc with ⟨-, rfl, rfl⟩ | ⟨suf', -, hc'⟩
        · omega
        · rw [undoLookup_congr hU (congrArg Store.undo o.p)]
          exact inv.undo h hk pre x suf' hc' hl
    dbEq := fun h => by omega
    hstate := by rw [o.p, o.histFlush]; exact inv.hstate
    fcLe := by rw [o.dbst, o.histFlush]; exact inv.fcLe
    histIds := fun h => by omega
    chainSize := by
      rw [advance_chainSize hadv, inv.chainSize, List.map_append, List.sum_append_nat]
      simp
    db := by
      rw [o.dbst, List.take_append_of_le_length f.dbK]
      exact dbInv_congr inv.db (by rw [o.p]) (by rw [o.p]) (by rw [o.p, o.dbst]) o.dbst
    undoUAbove := by
      intro e he
      rw [o.dbst]
      by_cases hkept : undoKept cfg daemonH chain.length = true
      · simp only [hkept, if_true] at hU
        rw [hU] at he
        rcases List.mem_append.mp he with he | he
        · exact inv.undoUAbove e he
        · simp only [List.mem_singleton] at he
          subst he
          show s.m.dbst.height < (chain.length : Int)
          omega
      · simp only [hkept, Bool.false_eq_true, if_false] at hU
        rw [hU] at he
        exact inv.undoUAbove e he }

/-! ### flushes -/

theorem fullInv'_histStep {cfg : Cfg} {chain : List Block} {K : List Nat} {s : Sys}
    (inv : FullInv' cfg chain K s) (hne : s.m.st.height ≠ s.m.dbst.height) :
    FullInv' cfg chain K (flushHistStep s) where
  base := fullInv_histStep inv.base hne
  valid := inv.valid
  kBound := inv.kBound
  undo := undoInv_congr inv.undo (fun k _ => undoLookup_congr rfl (by rw [flushHistStep_p]) k)
  dbEq := fun h => absurd (show s.m.dbst.height = s.m.st.height from h).symm hne
  hstate := by
    rw [flushHistStep_p]
    show ((applyEffect s.p (histFlushEffect s)).hstate.getD {}).flushCount = s.m.histFlush + 1
    rw [hstate_histFlush]
    rfl
  fcLe := Nat.le_succ_of_le inv.fcLe
  histIds := fun h => absurd (show s.m.dbst.height = s.m.st.height from h).symm hne
  chainSize := inv.chainSize
  db := by
    refine dbInv_congr (s := s) inv.db (by rw [flushHistStep_p]) (by rw [flushHistStep_p]) ?_ rfl
    rw [flushHistStep_p]
    show histUpTo (applyEffect s.p (histFlushEffect s)).hist s.m.dbst.flushCount = _
    rw [hist_histFlush]
    apply histUpTo_foldl_ainsert_above
    intro e he
    obtain ⟨x, -, rfl⟩ := List.mem_map.mp he
    have := inv.fcLe
    show s.m.dbst.flushCount < s.m.histFlush + 1
    omega
  undoUAbove := inv.undoUAbove

theorem fullInv'_utxoStep {cfg : Cfg} {chain : List Block} {K : List Nat} {s : Sys}
    (inv : FullInv' cfg chain K s) (hfs : s.m.fsHeight = s.m.st.height)
    (hfc : s.m.st.flushCount = s.m.histFlush) :
    FullInv' cfg chain K (flushUtxoStep s) where
  base := fullInv_utxoStep inv.base hfs
  valid := inv.valid
  kBound := inv.kBound
  undo := by
    refine undoInv_congr inv.undo (fun k _ => ?_)
    rw [undoLookup_of_nil (s := flushUtxoStep s) rfl, flushUtxoStep_p]
    show alookup k (applyEffect s.p (utxoBatchEffect s s.m.st)).undo = undoLookup s k
    rw [flushUtxo_undo]
    rfl
  dbEq := fun _ => rfl
  hstate := by
    rw [flushUtxoStep_p]
    show ((applyEffect s.p (utxoBatchEffect s s.m.st)).hstate.getD {}).flushCount = s.m.histFlush
    rw [(flushUtxo_rest s s.m.st).2.2.1]
    exact inv.hstate
  fcLe := by
    show s.m.st.flushCount ≤ s.m.histFlush
    omega
  histIds := by
    intro _ e he
    rw [flushUtxoStep_p] at he
    have he' : e ∈ (applyEffect s.p (utxoBatchEffect s s.m.st)).hist := he
    rw [(flushUtxo_rest s s.m.st).2.1] at he'
    show e.1.2 ≤ s.m.st.flushCount
    rw [hfc]
    exact inv.base.hist.wf.ids e he'
  chainSize := inv.chainSize
  db := by
    have f := inv.base.files
    have hall : (s.m.st.height + 1).toNat = chain.length := by have := f.height; omega
    show DbInv cfg (chain.take (s.m.st.height + 1).toNat) (flushUtxoStep s)
    rw [hall, List.take_length]
    obtain ⟨D, Del, w⟩ := inv.base.rep
    have hfun := txnumFun_of_specOK (specOK_chain cfg.act chain)
    have hrest := flushUtxo_rest s s.m.st
    have hhist : HistInv (specChain cfg.act chain) (flushUtxoStep s).p [] s.m.histFlush := by
      have h := inv.base.hist
      rw [inv.base.flushedH hfs] at h
      exact histInv_congr h (by rw [flushUtxoStep_p]; exact hrest.2.1)
    refine dbInv_flushed ?_ ?_ hhist ?_ inv.base.utxoCount inv.chainSize
    · rw [flushUtxoStep_p]; exact (flushUtxo_h w hfun s.m.st).1
    · rw [flushUtxoStep_p]; exact (flushUtxo_u w hfun s.m.st).1
    · intro e he
      show e.1.2 ≤ s.m.st.flushCount
      rw [hfc]
      exact hhist.wf.ids e he
  undoUAbove := by intro e he; exact absurd he List.not_mem_nil

/-- **Every flush preserves the extended invariant** (same retained heights); a full flush commits
up to the tip, a history-only flush leaves the committed height where it was. -/
theorem fullInv'_flush {cfg : Cfg} {chain : List Block} {K : List Nat} {s : Sys}
    (inv : FullInv' cfg chain K s) (fu : Bool) :
    ∃ s', flush s fu = .ok s' ∧ FullInv' cfg chain K s' ∧
      s'.m.dbst.height = (if fu then s.m.st.height else s.m.dbst.height) := by
  by_cases heq : s.m.st.height = s.m.dbst.height
  · refine ⟨s, flush_noop heq (assertFlushed_of_inv inv.base heq) fu, inv, ?_⟩
    cases fu
    · rfl
    · exact heq.symm
  · have ha := flushFsAsserts_of_files inv.base.files
    cases fu with
    | false => exact ⟨_, flush_hist heq ha, fullInv'_histStep inv heq, rfl⟩
    | true =>
      exact ⟨_, flush_full heq ha, fullInv'_utxoStep (fullInv'_histStep inv heq) rfl rfl, rfl⟩

end EV.Index

import EV.Proofs.ShutdownTask

/-!
Task-level shutdown model: the control-flow invariants behind `ValidOps2` —
a back-out job always finds the index fully flushed and is handed the tip.
-/
namespace EV.ShutdownTask
open EV.Index

/-- a back-out section that has not run its job yet was created for the block at the tip
    (`reorg_chain` compares the hash with `state.tip`; nothing moves the tip in between, as every
    writer is an inner task and there is only one besides the handler's) -/
def BackupTip (st : St) : Prop :=
  ∀ b, (st.inner = some (.wantLock (.backup b)) ∨ st.inner = some (.job (.backup b) (.backup b))) →
    b.hash = st.sys.m.st.tip

theorem backupTip_step {cfg : Cfg} {st st' : St} {e : Ev} (w : Shape st) (hd : BackupTip st)
    (h : step cfg st e = some st') : BackupTip st' := by
  by_cases hj : ∃ d, e = .jobEnd d
  · obtain ⟨d, rfl⟩ := hj
    simp only [step] at h
    split at h <;> simp at h
    subst h
    rename_i sec j hin
    obtain ⟨⟨e, h1⟩, -⟩ := runJob_ctl cfg st sec j d
    intro b hb
    rw [h1] at hb
    simp at hb
  · obtain ⟨h1, -⟩ := step_frame h (by intro d hd; exact hj ⟨d, hd⟩)
    intro b hb
    rw [h1]
    have w3 := w.outer
    cases e <;> simp only [step] at h
    case jobEnd d => exact absurd ⟨d, rfl⟩ hj
    case deliver =>
      split at h <;> simp at h
      subst h
      unfold continueSec finish at hb
      (repeat' split at hb) <;> simp_all
    all_goals
      (repeat' split at h) <;> simp_all <;> (try subst h) <;> (try unfold afterBody at hb) <;>
        (try (repeat' split at hb)) <;> simp_all [BackupTip]

/-! ### inside `reorg_chain` the index is fully flushed -/

/-- every indexed block is committed (`DB.state` at the tip), in terms of the run's bookkeeping -/
def Fl (t : Track) : Prop := t.dbLen = t.chain.length

/-- control points of `reorg_chain` after its initial flush -/
def outerFl : Outer → Bool
  | .idle .reorgHashes | .idle (.backups _) | .awaitSec (.backups _) | .secReady .reorgHashes none
  | .secReady (.backups _) none => true
  | _ => false

/-- a back-out section in flight, or a `flush(True)` section whose job has succeeded -/
def innerFl : Option Inner → Bool
  | some (.wantLock (.backup _)) | some (.job (.backup _) _) | some (.jobDone (.backup _) _ none)
  | some (.jobDone .flush _ none) => true
  | _ => false

def FlushedRegion (cfg : Cfg) (st : St) : Prop :=
  (outerFl st.outer || innerFl st.inner) = true → Fl (Track.run cfg {} (okOps st.log))

theorem fl_flushTrue (cfg : Cfg) (ops : List IOp2) : Fl (Track.run cfg {} (ops ++ [.flush true])) := by
  rw [Track.run_append]; rfl

theorem fl_backup (cfg : Cfg) (ops : List IOp2) (b : Block) :
    Fl (Track.run cfg {} (ops ++ [.backup b])) := by
  rw [Track.run_append]
  show (Track.run cfg {} ops).chain.length - 1 = (Track.run cfg {} ops).chain.dropLast.length
  simp

theorem jobFor_adv {sec : Sec} {b : Block} (h : JobFor sec (.adv b)) : sec = .adv b := by
  cases sec <;> simp_all [JobFor]

theorem jobFor_flush_false {sec : Sec} (h : JobFor sec (.flush false)) : ∃ b, sec = .adv b := by
  cases sec <;> simp_all [JobFor]

theorem jobFor_backup {sec : Sec} {b : Block} (h : JobFor sec (.backup b)) : sec = .backup b := by
  cases sec <;> simp_all [JobFor]

/-- with an `advance_and_maybe_flush` section in flight the outer task is not inside `reorg_chain` -/
theorem outerFl_of_advSec {st : St} (w : Shape st) {i : Inner} {b : Block} (hin : st.inner = some i)
    (hs : i.sec = .adv b) : outerFl st.outer = false := by
  have w3 := w.outer
  cases ho : st.outer with
  | awaitSec p =>
    rw [ho] at w3
    simp only at w3
    obtain ⟨i', hi', hsf⟩ := w3
    rw [hin] at hi'
    cases hi'
    rw [hs] at hsf
    cases p <;> simp_all [SecFor, outerFl]
  | handler => rfl
  | returned => rfl
  | died => rfl
  | start => rfl
  | idle p => rw [ho] at w3; simp [hin] at w3
  | secReady p e => rw [ho] at w3; simp [hin] at w3

theorem flushedRegion_runJob {cfg : Cfg} {st : St} (w : Shape st) (hc : FlushedRegion cfg st)
    {sec : Sec} {j : JobK} (hin : st.inner = some (.job sec j)) (dH : Int) :
    FlushedRegion cfg (runJob cfg st sec j dH) := by
  have hj : JobFor sec j := w.wf _ hin
  unfold runJob
  cases j with
  | adv b =>
    have hsec := jobFor_adv hj
    subst hsec
    have ho := outerFl_of_advSec w hin rfl
    simp only
    split
    · intro hp; simp [ho, innerFl] at hp
    · split
      · intro hp; simp [ho, innerFl] at hp
      · intro hp; simp [ho, innerFl] at hp
  | flush a =>
    simp only
    split
    · -- the flush succeeded
      cases a with
      | true =>
        intro _
        simp only [okOps_append, okOps_single_true]
        exact fl_flushTrue cfg _
      | false =>
        obtain ⟨b, hsec⟩ := jobFor_flush_false hj
        subst hsec
        have ho := outerFl_of_advSec w hin rfl
        intro hp; simp [ho, innerFl] at hp
    · -- it raised: nothing was carried out, the section has failed
      intro hp
      simp only [okOps_append, okOps_single_false, List.append_nil]
      apply hc
      simp only [innerFl, Bool.or_false] at hp
      simp [hp]
  | backup b =>
    simp only
    split
    · intro _
      simp only [okOps_append, okOps_single_true]
      exact fl_backup cfg _ b
    · intro hp
      simp only [okOps_append, okOps_single_false, List.append_nil]
      apply hc
      simp only [innerFl, Bool.or_false] at hp
      simp [hp]

theorem finish_inner (st : St) (sec : Sec) (err : Option Err) : (finish st sec err).inner = none := by
  unfold finish; cases sec <;> rfl

theorem finish_outer_handler {st : St} (ho : st.outer = .handler) (sec : Sec) (err : Option Err) :
    (finish st sec err).outer = .handler ∨ (finish st sec err).outer = .returned ∨
      (finish st sec err).outer = .died := by
  unfold finish
  cases sec <;> simp [ho]
  cases err <;> simp

theorem finish_outer_await {st : St} {p : Pt} (ho : st.outer = .awaitSec p) {sec : Sec}
    (hs : sec ≠ .safe) (err : Option Err) : (finish st sec err).outer = .secReady p err := by
  unfold finish
  cases sec <;> simp_all

theorem secFor_reorgHashes {sec : Sec} (h : SecFor .reorgHashes sec) : sec = .flush := by
  cases sec <;> simp_all [SecFor]

/-- no event other than a job end leads into the flushed region from outside it -/
theorem flRegion_back {cfg : Cfg} {st st' : St} {e : Ev} (w : Shape st)
    (h : step cfg st e = some st') (hne : ∀ d, e ≠ .jobEnd d)
    (hp : (outerFl st'.outer || innerFl st'.inner) = true) :
    (outerFl st.outer || innerFl st.inner) = true := by
  have w3 := w.outer
  have w2 := w.wf
  cases e <;> simp only [step] at h
  case jobEnd d => exact absurd rfl (hne d)
  case deliver =>
    split at h <;> simp at h
    subst h
    rename_i sec j err hin
    have hj : JobFor sec j := w2 _ hin
    cases ho : st.outer with
    | awaitSec p =>
      rw [ho] at w3
      simp only at w3
      obtain ⟨i', hi', hsf⟩ := w3
      rw [hin] at hi'
      cases hi'
      simp only [Inner.sec] at hsf
      have hns : sec ≠ .safe := by intro hh; subst hh; cases p <;> simp [SecFor] at hsf
      -- either the section ends (the outer task gets `err`) or it goes on with its flush
      have key : ∀ err', (err' = none → err = none) →
          (outerFl (finish st sec err').outer || innerFl (finish st sec err').inner) = true →
          (outerFl (.awaitSec p) || innerFl (some (.jobDone sec j err))) = true := by
        intro err' herr hp'
        rw [finish_inner, finish_outer_await ho hns] at hp'
        cases p <;> cases err' <;> simp [outerFl, innerFl] at hp' ⊢
        · have := secFor_reorgHashes hsf
          subst this
          rw [herr rfl]
      rw [hin]
      unfold continueSec at hp
      split at hp
      · rename_i e0
        exact key (some e0) (by simp) hp
      · split at hp
        · split at hp
          · simp only [innerFl, Bool.or_false] at hp
            rw [ho] at hp
            cases p <;> simp [SecFor, outerFl] at hsf hp
          · exact key none (fun _ => rfl) hp
        · exact key none (fun _ => rfl) hp
    | handler =>
      exfalso
      unfold continueSec at hp
      have hfin : ∀ err', ¬ (outerFl (finish st sec err').outer || innerFl (finish st sec err').inner) = true := by
        intro err' hh
        rw [finish_inner] at hh
        rcases finish_outer_handler ho sec err' with h1 | h1 | h1 <;> rw [h1] at hh <;> simp [outerFl, innerFl] at hh
      split at hp
      · exact hfin _ hp
      · split at hp
        · split at hp
          · simp [ho, outerFl, innerFl] at hp
          · exact hfin _ hp
        · exact hfin _ hp
    | start => rw [ho] at w3; simp [hin] at w3
    | idle p => rw [ho] at w3; simp [hin] at w3
    | secReady p e => rw [ho] at w3; simp [hin] at w3
    | returned => rw [ho] at w3; simp [hin] at w3
    | died => rw [ho] at w3; simp [hin] at w3
  case resume =>
    split at h <;> simp at h <;> subst h
    · rename_i p ho
      rw [ho]
      cases p <;> simp_all [outerFl]
    · simp [outerFl] at hp
      rename_i p e ho
      rw [ho] at w3
      simp only at w3
      simp [w3, innerFl] at hp
  all_goals
    (repeat' split at h) <;> simp_all <;> (try subst h) <;> (try unfold afterBody at hp) <;>
      (try (repeat' split at hp)) <;> simp_all [innerFl, outerFl]

theorem flushedRegion_step {cfg : Cfg} {st st' : St} {e : Ev} (w : Shape st)
    (hc : FlushedRegion cfg st) (h : step cfg st e = some st') : FlushedRegion cfg st' := by
  by_cases hj : ∃ d, e = .jobEnd d
  · obtain ⟨d, rfl⟩ := hj
    simp only [step] at h
    split at h <;> simp at h
    subst h
    rename_i sec j hin
    exact flushedRegion_runJob w hc hin d
  · have hne : ∀ d, e ≠ .jobEnd d := by intro d hd; exact hj ⟨d, hd⟩
    obtain ⟨-, h2, -⟩ := step_frame h hne
    intro hp
    rw [h2]
    exact hc (flRegion_back w h hne hp)

/-- the invariants that do not depend on the environment -/
structure Inv1 (cfg : Cfg) (st : St) : Prop where
  shape : Shape st
  seq : Seq cfg st
  tip : BackupTip st
  fl : FlushedRegion cfg st

theorem inv1_init (cfg : Cfg) : Inv1 cfg {} :=
  ⟨shape_init, rfl, by intro b hb; simp at hb, by intro hp; simp [outerFl, innerFl] at hp⟩

theorem inv1_step {cfg : Cfg} {st st' : St} {e : Ev} (i : Inv1 cfg st) (h : step cfg st e = some st') :
    Inv1 cfg st' :=
  ⟨shape_step i.shape h, seq_step i.seq h, backupTip_step i.shape i.tip h,
   flushedRegion_step i.shape i.fl h⟩

theorem inv1_run {cfg : Cfg} {evs : List Ev} {st : St} (h : run cfg {} evs = some st) : Inv1 cfg st :=
  run_induct (inv1_init cfg) (fun _ _ _ i hs => inv1_step i hs) evs st h

import EV.Model.HeaderCache
import EV.Props.C12

/-! The header merkle cache stays consistent with the DB's block hashes under every interleaving
of extensions in flight, back-outs and new blocks (fixed code); the pinned code does not. -/
namespace EV.HeaderCache
open EV.Merkle

variable {Node : Type} (H : Node → Node → Node)

/-- what is known about an extension in flight -/
def ExtOK (s : St Node) : Prop :=
  match s.ext with
  | none => True
  | some e =>
    e.truncAtStart = s.truncations →
      (s.c.length < e.target ∧ e.start = s.c.leafStart s.c.length ∧
       (∀ hs, e.hashes = some hs →
          e.target ≤ s.src.length ∧ hs = srcSlice s.src e.start (e.target - e.start)))

structure Inv (s : St Node) : Prop where
  cache : CacheInv H s.c s.src
  ext : ExtOK s
  truncLe : ∀ e, s.ext = some e → e.truncAtStart ≤ s.truncations

theorem srcSlice_append (src ns : List Node) (start count : Nat) (h : start + count ≤ src.length) :
    srcSlice (src ++ ns) start count = srcSlice src start count := by
  simp only [srcSlice]
  rw [List.drop_append_of_le_length (by omega), List.take_append_of_le_length (by simp; omega)]

theorem writeExt_eq_extendTo (c : Cache Node) (src : List Node) (e : Ext Node)
    (hlt : c.length < e.target) (hstart : e.start = c.leafStart c.length) :
    writeExt H c e (srcSlice src e.start (e.target - e.start)) = (c.extendTo H src e.target).1 := by
  unfold writeExt Cache.extendTo
  have : ¬ e.target ≤ c.length := by omega
  simp only [this, if_false, hstart]
  split <;> simp_all

theorem inv_step (s : St Node) (ev : Ev Node) (hinv : Inv H s) : Inv H (step H true s ev) := by
  cases ev with
  | extStart l =>
    simp only [step]
    split
    · exact hinv
    · next hl =>
      split
      · exact hinv
      · next hnone =>
        refine ⟨hinv.cache, ?_, ?_⟩
        · simp only [ExtOK]
          intro _
          exact ⟨by omega, by first | rfl | trivial, by intro hs h; simp at h⟩
        · intro e he; simp at he; subst he; exact Nat.le_refl _
  | extRead =>
    simp only [step]
    split
    · next e he =>
      split
      · exact hinv
      · next hnone =>
        split
        · next htl =>
          refine ⟨hinv.cache, ?_, ?_⟩
          · have hold := hinv.ext
            simp only [ExtOK, he] at hold ⊢
            intro ht
            obtain ⟨h1, h2, _⟩ := hold ht
            exact ⟨h1, h2, by intro hs h; simp at h; exact ⟨htl, h.symm⟩⟩
          · intro e' he'; simp at he'; subst he'; exact hinv.truncLe e he
        · exact ⟨hinv.cache, by simp [ExtOK], by intro e' he'; simp at he'⟩
    · exact hinv
  | extFinish =>
    simp only [step]
    split
    · next e he =>
      split
      · exact hinv
      · next hs hhs =>
        by_cases ht : e.truncAtStart = s.truncations
        · -- no truncation since the start: the write is exactly the atomic `_extend_to`
          have hb : (true && e.truncAtStart != s.truncations) = false := by simp [ht]
          simp only [hb, Bool.false_eq_true, if_false]
          have hold := hinv.ext
          simp only [ExtOK, he] at hold
          obtain ⟨h1, h2, h3⟩ := hold ht
          obtain ⟨h4, h5⟩ := h3 hs hhs
          rw [h5, writeExt_eq_extendTo H s.c s.src e h1 h2]
          have := cache_extend H s.c s.src e.target hinv.cache h4
          exact ⟨this.2.1, by simp [ExtOK], by intro e' he'; simp at he'⟩
        · have hb : (true && e.truncAtStart != s.truncations) = true := by simp [ht]
          simp only [hb, if_true]
          split
          · exact ⟨hinv.cache, by simp [ExtOK], by intro e' he'; simp at he'⟩
          · next hl =>
            refine ⟨hinv.cache, ?_, ?_⟩
            · simp only [ExtOK]
              intro _
              exact ⟨by omega, by first | rfl | trivial, by intro hs' h; simp at h⟩
            · intro e' he'; simp at he'; subst he'; exact Nat.le_refl _
    · exact hinv
  | backup n =>
    simp only [step]
    split
    · next hn =>
      obtain ⟨hn0, hnl⟩ := hn
      have htr := cache_truncate H s.c s.src (.int n) hinv.cache
      have hlen := htr.2 n rfl (by omega)
      refine ⟨?_, ?_, ?_⟩
      · apply cache_source_change H _ s.src (s.src.take n) htr.1
        · simp only [List.length_take]; simp at hlen; omega
        · simp at hlen
          rw [List.take_take, Nat.min_eq_left (by omega)]
      · -- any extension in flight started before this truncation
        simp only [ExtOK]
        split
        · trivial
        · next e he =>
          intro ht
          have := hinv.truncLe e he
          omega
      · intro e he; have := hinv.truncLe e he; simp only; omega
    · exact hinv
  | append ns =>
    simp only [step]
    refine ⟨?_, ?_, hinv.truncLe⟩
    · apply cache_source_change H _ s.src _ hinv.cache
      · simp only [List.length_append]; have := hinv.cache.len; omega
      · rw [List.take_append_of_le_length hinv.cache.len]
    · have hold := hinv.ext
      simp only [ExtOK] at hold ⊢
      split
      · trivial
      · next e he =>
        simp only [he] at hold
        intro ht
        obtain ⟨h1, h2, h3⟩ := hold ht
        refine ⟨h1, h2, ?_⟩
        intro hs hhs
        obtain ⟨h4, h5⟩ := h3 hs hhs
        refine ⟨by simp only [List.length_append]; omega, ?_⟩
        rw [h5, srcSlice_append]
        have : e.start ≤ s.c.length := by
          rw [h2, leafStart_eq]; exact Nat.div_mul_le_self _ _
        omega

theorem inv_run (s : St Node) (evs : List (Ev Node)) (hinv : Inv H s) : Inv H (run H true s evs) := by
  induction evs generalizing s with
  | nil => exact hinv
  | cons ev evs ih => exact ih _ (inv_step H s ev hinv)

end EV.HeaderCache

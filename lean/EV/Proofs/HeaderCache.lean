import EV.Model.HeaderCache
import EV.Props.C12

/-!
C11, header proofs: lemmas about one request of `EV.HeaderCache` (the current code, `Cfg.fixed`).

`PcOK` says what is known at each wait point of a request *provided no truncation happened since
the counter was sampled* (`t = T` for the extension in flight, `t0 = T` for the iteration of
`branch_and_root`): everything read so far is a slice of the reference chain `ref`, the cache
already reaches `length`, the level prefix saved by `_level_for` is the level of `ref`.  A
truncation makes the guard false for ever (`t ≤ T`), which is exactly what the two `truncations`
tests of the code detect.
-/
namespace EV.HeaderCache
open EV.Merkle

variable {Node : Type} (H : Node → Node → Node)

/-! ### slices of a growing chain -/

theorem take_of_prefix {src ref : List Node} (h : src <+: ref) {k : Nat} (hk : k ≤ src.length) :
    ref.take k = src.take k := by
  obtain ⟨t, rfl⟩ := h
  rw [List.take_append_of_le_length hk]

theorem srcSlice_of_prefix {src ref : List Node} (h : src <+: ref) (a n : Nat)
    (hn : n ≤ src.length - a) : srcSlice src a n = srcSlice ref a n := by
  obtain ⟨t, rfl⟩ := h
  simp only [srcSlice]
  by_cases h0 : n = 0
  · subst h0; simp
  · rw [List.drop_append_of_le_length (by omega), List.take_append_of_le_length (by simp; omega)]

/-- `hs` is what a read `(a, n)` of `ref` returns, and `ref` is long enough for it -/
def Slice (ref : List Node) (a n : Nat) (hs : List Node) : Prop :=
  n ≤ ref.length - a ∧ hs = srcSlice ref a n

theorem Slice.mono {ref ref' : List Node} {a n : Nat} {hs : List Node} (h : Slice ref a n hs)
    (hp : ref <+: ref') : Slice ref' a n hs :=
  ⟨by have := hp.length_le; have := h.1; omega, by rw [h.2]; exact srcSlice_of_prefix hp a n h.1⟩

theorem readSrc_slice {src ref : List Node} (hp : src <+: ref) (a n : Nat) (hs : List Node)
    (h : readSrc src a n = .got hs) : Slice ref a n hs := by
  unfold readSrc at h
  split at h
  · next hle =>
    injection h with h
    exact ⟨by have := hp.length_le; omega, by rw [← h]; exact srcSlice_of_prefix hp a n hle⟩
  · cases h

theorem leafStart_dh {c c' : Cache Node} (h : c'.depthHigher = c.depthHigher) (x : Nat) :
    c'.leafStart x = c.leafStart x := by simp only [Cache.leafStart, h]

theorem segLen_dh {c c' : Cache Node} (h : c'.depthHigher = c.depthHigher) : c'.segLen = c.segLen := by
  simp only [Cache.segLen, h]

/-! ### the pieces of an answer -/

/-- the direct path (`length < segment length`): the leaf read is the whole prefix -/
theorem direct_eq (c : Cache Node) (ref hs : List Node) (len idx : Nat) (hsmall : len < c.segLen)
    (hidx : idx < len)
    (hsl : Slice ref (c.leafStart idx) (min c.segLen (len - c.leafStart idx)) hs) :
    hs = ref.take len := by
  rw [segLen_eq] at hsmall
  have h0 : c.leafStart idx = 0 := by
    rw [leafStart_eq, Nat.div_eq_of_lt (by omega), Nat.zero_mul]
  rw [hsl.2, h0, segLen_eq, Nat.sub_zero, Nat.min_eq_right (by omega)]
  simp [srcSlice]

/-- the cached path: the level of the first `len` hashes and the leaf segment give the from-scratch
    branch and root -/
theorem fromLevel_eq [DecidableEq Node] (c : Cache Node) (ref hs : List Node) (len idx : Nat)
    (hbig : ¬ len < c.segLen) (hidx : idx < len) (hlen : len ≤ ref.length)
    (hsl : Slice ref (c.leafStart idx) (min c.segLen (len - c.leafStart idx)) hs) :
    branchAndRootFromLevel H (.list (lvl H c.depthHigher (ref.take len))) (.list hs) (.int idx)
        c.depthHigher false =
      branchAndRoot H (ref.take len) (.int idx) none false := by
  rw [segLen_eq] at hbig
  have htl : (ref.take len).length = len := by rw [List.length_take]; omega
  have hslice : hs = ((ref.take len).drop (idx / 2 ^ c.depthHigher * 2 ^ c.depthHigher)).take
      (2 ^ c.depthHigher) := by
    rw [hsl.2, leafStart_eq, segLen_eq, srcSlice, List.drop_take, List.take_take]
  rw [hslice]
  exact from_level_eq H false (ref.take len) c.depthHigher idx (by omega)
    (by rw [htl]; exact pow_le_clog (by omega))

/-- what `_level_for` assembles: saved level prefix ++ level of the final partial segment -/
theorem level_rebuild (c : Cache Node) (ref : List Node) (len : Nat) (hlen : len ≤ ref.length) :
    lvl H c.depthHigher (ref.take (c.leafStart len)) ++
        lvl H c.depthHigher (srcSlice ref (c.leafStart len) (min c.segLen (len - c.leafStart len))) =
      lvl H c.depthHigher (ref.take len) := by
  have hp : 0 < 2 ^ c.depthHigher := Nat.pow_pos (by omega)
  have hle := leafStart_le c len
  have hmod : len - c.leafStart len < 2 ^ c.depthHigher := by
    rw [leafStart_eq]
    have := div_mul_add_mod len (2 ^ c.depthHigher)
    have := Nat.mod_lt len hp
    omega
  rw [segLen_eq, Nat.min_eq_right (by omega)]
  have h2 : ref.take len = ref.take (c.leafStart len) ++ srcSlice ref (c.leafStart len) (len - c.leafStart len) := by
    have : len = c.leafStart len + (len - c.leafStart len) := by omega
    conv => lhs; rw [this, List.take_add]
    rfl
  have hl : (ref.take (c.leafStart len)).length = len / 2 ^ c.depthHigher * 2 ^ c.depthHigher := by
    rw [List.length_take, ← leafStart_eq]; omega
  rw [h2, lvl_append H c.depthHigher _ _ _ hl]

/-- the level prefix `_level_for` saves before its read -/
theorem pre_eq (c : Cache Node) (ref : List Node) (len : Nat) (hinv : CacheInv H c ref)
    (hlen : len ≤ c.length) :
    c.level.take (len >>> c.depthHigher) = lvl H c.depthHigher (ref.take (c.leafStart len)) := by
  have hle := leafStart_le c len
  have hcl := hinv.len
  rw [hinv.level, Nat.shiftRight_eq_div_pow,
    lvl_take_aligned H c.depthHigher _ _ (by rw [List.length_take, ← leafStart_eq]; omega),
    List.take_take, ← leafStart_eq, Nat.min_eq_left (by omega)]

/-- the two assignments at the end of `_extend_to`, when its test passes, are the atomic
    `_extend_to` of the C12 model on the reference chain -/
theorem write_eq (c : Cache Node) (ref hs lv : List Node) (start len : Nat)
    (hlt : c.length < len) (hstart : start = c.leafStart c.length)
    (hhs : hs = srcSlice ref start (len - start))
    (hlv : Merkle.level H hs c.depthHigher = .ok lv) :
    writeExt c start len lv = (c.extendTo H ref len).1 := by
  unfold writeExt Cache.extendTo
  have : ¬ len ≤ c.length := by omega
  subst hstart hhs
  simp only [this, if_false, hlv]

/-! ### what is known at each wait point -/

def PcOK (c : Cache Node) (T : Nat) (ref : List Node) (len idx t0 : Nat) : PC Node → Prop
  | .hdr _ => True
  | .ext t cl start rd =>
    t ≤ T ∧ start = c.leafStart cl ∧ cl < len ∧
      (t = T → ∀ hs, rd = .got hs → Slice ref start (len - start) hs)
  | .leaf rd =>
    t0 = T → len ≤ c.length ∧
      ∀ hs, rd = .got hs → Slice ref (c.leafStart idx) (min c.segLen (len - c.leafStart idx)) hs
  | .lvl pre leaf rd =>
    t0 = T → len ≤ c.length ∧ ¬ len < c.segLen ∧
      Slice ref (c.leafStart idx) (min c.segLen (len - c.leafStart idx)) leaf ∧
      pre = lvl H c.depthHigher (ref.take (c.leafStart len)) ∧
      ∀ hs, rd = .got hs → Slice ref (c.leafStart len) (min c.segLen (len - c.leafStart len)) hs
  | .done _ => True

/-- everything the proof knows about one request -/
structure ReqOK (c : Cache Node) (T : Nat) (src ref : List Node) (r : Req Node) : Prop where
  t0 : r.t0 ≤ T
  idx : r.proving = true → r.index < r.length
  pc : PcOK H c T ref r.length r.index r.t0 r.pc
  safe : r.Safe H
  head : r.active = true → r.seen.head? = some src
  chain : r.proving = true → (r.length ≤ src.length ∨ ref ∈ r.seen)
  nobo : r.bo = false → ∀ S ∈ r.seen, ∀ h, r.seen.head? = some h → S <+: h

/-- the cache only grew (same `depth_higher`): nothing known is lost -/
theorem PcOK.mono {c c' : Cache Node} {T : Nat} {ref : List Node} {len idx t0 : Nat} {pc : PC Node}
    (hd : c'.depthHigher = c.depthHigher) (hl : c.length ≤ c'.length)
    (h : PcOK H c T ref len idx t0 pc) : PcOK H c' T ref len idx t0 pc := by
  cases pc with
  | ext t cl start rd =>
    simp only [PcOK, leafStart_dh hd] at h ⊢
    exact h
  | leaf rd =>
    simp only [PcOK, leafStart_dh hd, segLen_dh hd] at h ⊢
    intro ht
    exact ⟨by have := (h ht).1; omega, (h ht).2⟩
  | lvl pre leaf rd =>
    simp only [PcOK, leafStart_dh hd, segLen_dh hd, hd] at h ⊢
    intro ht
    obtain ⟨h1, h2⟩ := h ht
    exact ⟨by omega, h2⟩
  | done r => trivial
  | hdr rd => trivial

theorem ReqOK.mono {c c' : Cache Node} {T : Nat} {src ref : List Node} {r : Req Node}
    (hd : c'.depthHigher = c.depthHigher) (hl : c.length ≤ c'.length)
    (h : ReqOK H c T src ref r) : ReqOK H c' T src ref r :=
  { h with pc := h.pc.mono H hd hl }

/-- the reference chain grew: nothing known is lost -/
theorem PcOK.grow {c : Cache Node} {T : Nat} {ref ref' : List Node} {len idx t0 : Nat} {pc : PC Node}
    (hp : ref <+: ref') (hc : c.length ≤ ref.length)
    (h : PcOK H c T ref len idx t0 pc) : PcOK H c T ref' len idx t0 pc := by
  cases pc with
  | ext t cl start rd =>
    simp only [PcOK] at h ⊢
    exact ⟨h.1, h.2.1, h.2.2.1, fun ht hs hrd => (h.2.2.2 ht hs hrd).mono hp⟩
  | leaf rd =>
    simp only [PcOK] at h ⊢
    intro ht
    exact ⟨(h ht).1, fun hs hrd => ((h ht).2 hs hrd).mono hp⟩
  | lvl pre leaf rd =>
    simp only [PcOK] at h ⊢
    intro ht
    obtain ⟨h1, h2, h3, h4, h5⟩ := h ht
    refine ⟨h1, h2, h3.mono hp, ?_, fun hs hrd => (h5 hs hrd).mono hp⟩
    have := leafStart_le c len
    rw [h4, take_of_prefix hp (by omega)]
  | done r => trivial
  | hdr rd => trivial

/-- a truncation happened: every guard is false from now on -/
theorem PcOK.bump {c c' : Cache Node} {T : Nat} {ref ref' : List Node} {len idx t0 : Nat} {pc : PC Node}
    (hd : c'.depthHigher = c.depthHigher) (ht0 : t0 ≤ T)
    (h : PcOK H c T ref len idx t0 pc) : PcOK H c' (T + 1) ref' len idx t0 pc := by
  cases pc with
  | ext t cl start rd =>
    simp only [PcOK, leafStart_dh hd] at h ⊢
    exact ⟨by omega, h.2.1, h.2.2.1, fun ht => by omega⟩
  | leaf rd =>
    simp only [PcOK]
    intro ht; omega
  | lvl pre leaf rd =>
    simp only [PcOK]
    intro ht; omega
  | done r => trivial
  | hdr rd => trivial

/-! ### a worker thread performs the read of a request -/

theorem reqOK_perform {c : Cache Node} {T : Nat} {src ref : List Node} {r : Req Node}
    (hp : src <+: ref) (h : ReqOK H c T src ref r) : ReqOK H c T src ref (performReq c src r) := by
  obtain ⟨len, idx, t0, pc, seen, bo, kind, first, count, hdrs⟩ := r
  obtain ⟨h1, h2, h3, h4, h5, h6, h7⟩ := h
  cases pc with
  | hdr rd =>
    cases rd with
    | issued => exact ⟨h1, (fun ha => by cases ha), trivial, trivial, fun _ => h5 rfl, (fun ha => by cases ha), h7⟩
    | got hs => exact ⟨h1, h2, h3, h4, h5, h6, h7⟩
    | short => exact ⟨h1, h2, h3, h4, h5, h6, h7⟩
  | ext t cl start rd =>
    cases rd with
    | issued =>
      simp only [performReq, readArgs, setRd]
      refine ⟨h1, h2, ?_, trivial, h5, h6, h7⟩
      simp only [PcOK] at h3 ⊢
      exact ⟨h3.1, h3.2.1, h3.2.2.1, fun _ hs hrd => readSrc_slice hp _ _ hs hrd⟩
    | got hs => exact ⟨h1, h2, h3, h4, h5, h6, h7⟩
    | short => exact ⟨h1, h2, h3, h4, h5, h6, h7⟩
  | leaf rd =>
    cases rd with
    | issued =>
      simp only [performReq, readArgs, setRd]
      refine ⟨h1, h2, ?_, trivial, h5, h6, h7⟩
      simp only [PcOK] at h3 ⊢
      exact fun ht => ⟨(h3 ht).1, fun hs hrd => readSrc_slice hp _ _ hs hrd⟩
    | got hs => exact ⟨h1, h2, h3, h4, h5, h6, h7⟩
    | short => exact ⟨h1, h2, h3, h4, h5, h6, h7⟩
  | lvl pre leaf rd =>
    cases rd with
    | issued =>
      simp only [performReq, readArgs, setRd]
      refine ⟨h1, h2, ?_, trivial, h5, h6, h7⟩
      simp only [PcOK] at h3 ⊢
      intro ht
      obtain ⟨a1, a2, a3, a4, _⟩ := h3 ht
      exact ⟨a1, a2, a3, a4, fun hs hrd => readSrc_slice hp _ _ hs hrd⟩
    | got hs => exact ⟨h1, h2, h3, h4, h5, h6, h7⟩
    | short => exact ⟨h1, h2, h3, h4, h5, h6, h7⟩
  | done res => exact ⟨h1, h2, h3, h4, h5, h6, h7⟩

/-! ### the coroutine of a request resumes -/

@[simp] theorem fixed_extFix : Cfg.fixed.extFix = true := rfl
@[simp] theorem fixed_retry : Cfg.fixed.retry = true := rfl
@[simp] theorem fixed_lowerFirst : Cfg.fixed.lowerFirst = true := rfl

/-- `_extend_to` at its test of `self.length`: whatever the request knew before is not needed -/
theorem reqOK_enterExtend {c : Cache Node} {T : Nat} {src ref : List Node} {r : Req Node}
    (h1 : r.t0 ≤ T) (h2 : r.index < r.length) (h5 : r.seen.head? = some src)
    (h6 : r.length ≤ src.length ∨ ref ∈ r.seen)
    (h7 : r.bo = false → ∀ S ∈ r.seen, ∀ h, r.seen.head? = some h → S <+: h) :
    ReqOK H c T src ref (enterExtend c T r) := by
  obtain ⟨len, idx, t0, pc, seen, bo, kind, first, count, hdrs⟩ := r
  unfold enterExtend
  split
  · next hle =>
    refine ⟨h1, fun _ => h2, ?_, trivial, fun _ => h5, fun _ => h6, h7⟩
    simp only [PcOK]
    exact fun _ => ⟨hle, fun hs hrd => by cases hrd⟩
  · next hle =>
    refine ⟨h1, fun _ => h2, ?_, trivial, fun _ => h5, fun _ => h6, h7⟩
    simp only [PcOK]
    exact ⟨Nat.le_refl _, trivial, by simp only at hle; omega, fun _ hs hrd => by cases hrd⟩

theorem proving_active {r : Req Node} (h : r.proving = true) : r.active = true := by
  obtain ⟨len, idx, t0, pc, seen, bo, kind, first, count, hdrs⟩ := r
  cases pc <;> first | rfl | cases h

theorem reqOK_beginIter {c : Cache Node} {T : Nat} {src ref : List Node} {r : Req Node}
    (hact : r.proving = true) (h : ReqOK H c T src ref r) :
    ReqOK H c T src ref (beginIter c T r) :=
  reqOK_enterExtend H (r := { r with t0 := T }) (Nat.le_refl _) (h.idx hact) (h.head (proving_active hact))
    (h.chain hact) h.nobo

/-- a request ends with an exception -/
theorem reqOK_error {c : Cache Node} {T : Nat} {src ref : List Node} {r : Req Node} (e : Err)
    (h : ReqOK H c T src ref r) : ReqOK H c T src ref { r with pc := .done (.error e) } :=
  ⟨h.t0, fun ha => by simp [Req.proving] at ha, trivial, trivial, fun ha => by simp [Req.active] at ha,
    fun ha => by simp [Req.proving] at ha, h.nobo⟩

/-- the end of an iteration whose result — if no truncation happened during the iteration — is
    the from-scratch result on the reference chain -/
theorem reqOK_finish {c : Cache Node} {T : Nat} {src ref : List Node} {r : Req Node}
    (hp : src <+: ref) (hact : r.proving = true) (h : ReqOK H c T src ref r)
    (res : Except PyExc (List (Elt Node) × Node))
    (hres : r.t0 = T → r.length ≤ ref.length ∧
      res = branchAndRoot H (ref.take r.length) (.int r.index) none false) :
    ReqOK H c T src ref (finish Cfg.fixed c T r res) := by
  unfold finish
  cases res with
  | error e => exact reqOK_error H (.py e) h
  | ok x =>
    simp only [fixed_retry, Bool.true_and]
    by_cases ht : T = r.t0
    · have hb : (T != r.t0) = false := by simp [ht]
      simp only [hb, Bool.false_eq_true, if_false]
      obtain ⟨hlen, hx⟩ := hres ht.symm
      refine ⟨h.t0, fun ha => by simp [Req.proving] at ha, trivial, ?_,
        fun ha => by simp [Req.active] at ha, fun ha => by simp [Req.proving] at ha, h.nobo⟩
      show ∃ S ∈ r.seen, r.length ≤ S.length ∧
        branchAndRoot H (S.take r.length) (.int r.index) none false = .ok (x.1, x.2)
      rcases h.chain hact with hc | hc
      · refine ⟨src, List.mem_of_mem_head? (h.head (proving_active hact)), hc, ?_⟩
        rw [← take_of_prefix hp hc, ← hx]
      · exact ⟨ref, hc, hlen, hx.symm⟩
    · have hb : (T != r.t0) = true := by simp [ht]
      simp only [hb, if_true]
      exact reqOK_beginIter H hact h

/-- **delivery of a read result** (current code): the cache stays consistent with the reference
    chain, only grows, and the request's knowledge is re-established at its next wait point — or
    it ends with an error, with a safe answer, or starts over -/
theorem deliver_ok [DecidableEq Node] {c : Cache Node} {T : Nat} {src ref : List Node} {r : Req Node}
    (hinv : CacheInv H c ref) (hp : src <+: ref) (h : ReqOK H c T src ref r) :
    CacheInv H (deliverReq H Cfg.fixed c T r).1 ref ∧
    (deliverReq H Cfg.fixed c T r).1.depthHigher = c.depthHigher ∧
    c.length ≤ (deliverReq H Cfg.fixed c T r).1.length ∧
    ReqOK H (deliverReq H Cfg.fixed c T r).1 T src ref (deliverReq H Cfg.fixed c T r).2 := by
  obtain ⟨len, idx, t0, pc, seen, bo, kind, first, count, hdrs⟩ := r
  cases pc with
  | hdr rd => exact ⟨hinv, rfl, Nat.le_refl _, h⟩
  | ext t cl start rd =>
    cases rd with
    | issued => exact ⟨hinv, rfl, Nat.le_refl _, h⟩
    | short => exact ⟨hinv, rfl, Nat.le_refl _, reqOK_error H .dbError h⟩
    | got hs =>
      have hpc := h.pc
      simp only [PcOK] at hpc
      obtain ⟨a1, a2, a3, a4⟩ := hpc
      have hact : (Req.mk len idx t0 (.ext t cl start (.got hs)) seen bo kind first count hdrs).proving = true := rfl
      have hact' := proving_active hact
      simp only [deliverReq, fixed_extFix, if_true]
      by_cases hg : t = T ∧ cl = c.length
      · rw [if_pos hg]
        obtain ⟨hg1, hg2⟩ := hg
        obtain ⟨b1, b2⟩ := a4 hg1 hs rfl
        rw [level_eq']
        simp only
        subst hg2
        have hlen : len ≤ ref.length := by have := leafStart_le c c.length; omega
        rw [write_eq H c ref hs _ start len a3 a2 b2 (level_eq' H hs _)]
        obtain ⟨_, e2, e3, e4⟩ := extendTo_inv H c ref len hinv hlen
        refine ⟨e2, e4, by rw [e3]; omega, ?_⟩
        exact reqOK_enterExtend H h.t0 (h.idx hact) (h.head hact') (h.chain hact) h.nobo
      · rw [if_neg hg]
        exact ⟨hinv, rfl, Nat.le_refl _,
          reqOK_enterExtend H h.t0 (h.idx hact) (h.head hact') (h.chain hact) h.nobo⟩
  | leaf rd =>
    cases rd with
    | issued => exact ⟨hinv, rfl, Nat.le_refl _, h⟩
    | short => exact ⟨hinv, rfl, Nat.le_refl _, reqOK_error H .dbError h⟩
    | got hs =>
      have hpc := h.pc
      simp only [PcOK] at hpc
      have hact : (Req.mk len idx t0 (.leaf (.got hs)) seen bo kind first count hdrs).proving = true := rfl
      have hact' := proving_active hact
      simp only [deliverReq]
      by_cases hsmall : len < c.segLen
      · rw [if_pos hsmall]
        refine ⟨hinv, rfl, Nat.le_refl _, reqOK_finish H hp hact h _ ?_⟩
        intro ht
        obtain ⟨a1, a2⟩ := hpc ht
        have hlen : len ≤ ref.length := by have := hinv.len; omega
        refine ⟨hlen, ?_⟩
        rw [direct_eq c ref hs len idx hsmall (h.idx hact) (a2 hs rfl)]
      · rw [if_neg hsmall]
        by_cases heq : len = c.length
        · rw [if_pos heq]
          refine ⟨hinv, rfl, Nat.le_refl _, reqOK_finish H hp hact h _ ?_⟩
          intro ht
          obtain ⟨a1, a2⟩ := hpc ht
          have hlen : len ≤ ref.length := by have := hinv.len; omega
          refine ⟨hlen, ?_⟩
          rw [hinv.level, ← heq]
          exact fromLevel_eq H c ref hs len idx hsmall (h.idx hact) hlen (a2 hs rfl)
        · rw [if_neg heq]
          refine ⟨hinv, rfl, Nat.le_refl _, h.t0, fun _ => h.idx hact, ?_, trivial,
            fun _ => h.head hact', fun _ => h.chain hact, h.nobo⟩
          simp only [PcOK]
          intro ht
          obtain ⟨a1, a2⟩ := hpc ht
          exact ⟨a1, hsmall, a2 hs rfl, pre_eq H c ref len hinv a1, fun hs' hrd => by cases hrd⟩
  | lvl pre leaf rd =>
    cases rd with
    | issued => exact ⟨hinv, rfl, Nat.le_refl _, h⟩
    | short => exact ⟨hinv, rfl, Nat.le_refl _, reqOK_error H .dbError h⟩
    | got hs =>
      have hpc := h.pc
      simp only [PcOK] at hpc
      have hact : (Req.mk len idx t0 (.lvl pre leaf (.got hs)) seen bo kind first count hdrs).proving = true := rfl
      simp only [deliverReq]
      rw [level_eq']
      simp only
      refine ⟨hinv, trivial, Nat.le_refl _, reqOK_finish H hp hact h _ ?_⟩
      intro ht
      obtain ⟨a1, a2, a3, a4, a5⟩ := hpc ht
      have hlen : len ≤ ref.length := by have := hinv.len; omega
      refine ⟨hlen, ?_⟩
      rw [a4, (a5 hs rfl).2, level_rebuild H c ref len hlen]
      exact fromLevel_eq H c ref leaf len idx a2 (h.idx hact) hlen a3
  | done res => exact ⟨hinv, rfl, Nat.le_refl _, h⟩

/-! ### DB events seen from one request -/

theorem see_active (S : List Node) (r : Req Node) (h : r.active = true) :
    r.see S = { r with seen := S :: r.seen } := by simp [Req.see, h]

theorem see_inactive (S : List Node) (r : Req Node) (h : r.active = false) : r.see S = r := by
  simp [Req.see, h]

theorem markBo_active (r : Req Node) (h : r.active = true) : r.markBo = { r with bo := true } := by
  simp [Req.markBo, h]

theorem markBo_inactive (r : Req Node) (h : r.active = false) : r.markBo = r := by
  simp [Req.markBo, h]

/-- a finished request is not affected by anything -/
theorem reqOK_inactive {c c' : Cache Node} {T T' : Nat} {src src' ref ref' : List Node} {r : Req Node}
    (hin : r.active = false) (hT : T ≤ T') (h : ReqOK H c T src ref r) :
    ReqOK H c' T' src' ref' r := by
  have hno : ∀ {P : Prop}, r.active = true → P := fun ha => by rw [hin] at ha; cases ha
  have hno' : ∀ {P : Prop}, r.proving = true → P := fun ha => hno (proving_active ha)
  refine ⟨by have := h.t0; omega, hno', ?_, h.safe, hno, hno', h.nobo⟩
  obtain ⟨len, idx, t0, pc, seen, bo, kind, first, count, hdrs⟩ := r
  cases pc with
  | done res => trivial
  | hdr rd => cases hin
  | ext t cl start rd => cases hin
  | leaf rd => cases hin
  | lvl pre leaf rd => cases hin

theorem safe_of_active {r : Req Node} (h : r.active = true) : r.Safe H := by
  obtain ⟨len, idx, t0, pc, seen, bo, kind, first, count, hdrs⟩ := r
  cases pc with
  | done res => cases h
  | hdr rd => trivial
  | ext t cl start rd => trivial
  | leaf rd => trivial
  | lvl pre leaf rd => trivial

/-- new blocks (no back-out half done, so the reference chain is the visible chain) -/
theorem reqOK_append {c : Cache Node} {T : Nat} {src : List Node} {r : Req Node} (ns : List Node)
    (hc : c.length ≤ src.length) (h : ReqOK H c T src src r) :
    ReqOK H c T (src ++ ns) (src ++ ns) (r.see (src ++ ns)) := by
  by_cases hact : r.active = true
  · rw [see_active _ _ hact]
    refine ⟨h.t0, h.idx, h.pc.grow H (List.prefix_append _ _) hc, safe_of_active H hact,
      fun _ => rfl, fun _ => Or.inr (List.mem_cons_self ..), ?_⟩
    intro hbo S hS hd hhd
    simp only [List.head?_cons, Option.some.injEq] at hhd
    subst hhd
    rcases List.mem_cons.mp hS with rfl | hS
    · exact List.prefix_refl _
    · exact (h.nobo hbo S hS src (h.head hact)).trans (List.prefix_append _ _)
  · have hin : r.active = false := by simpa using hact
    rw [see_inactive _ _ hin]
    exact reqOK_inactive H hin (Nat.le_refl _) h

/-- first half of a back-out of the current code: the visible chain is cut, the reference chain
    (what the cache is judged against) stays -/
theorem reqOK_lower {c : Cache Node} {T : Nat} {src : List Node} {r : Req Node} (n : Nat)
    (h : ReqOK H c T src src r) :
    ReqOK H c T (src.take n) src ((r.see (src.take n)).markBo) := by
  by_cases hact : r.active = true
  · rw [see_active _ _ hact, markBo_active _ (by exact hact)]
    refine ⟨h.t0, h.idx, h.pc, safe_of_active H hact, fun _ => rfl,
      fun _ => Or.inr (List.mem_cons_of_mem _ (List.mem_of_mem_head? (h.head hact))), ?_⟩
    intro hbo
    cases hbo
  · have hin : r.active = false := by simpa using hact
    rw [see_inactive _ _ hin, markBo_inactive _ hin]
    exact reqOK_inactive H hin (Nat.le_refl _) h

/-- second half of a back-out of the current code: `truncate` and the counter; the reference chain
    becomes the visible chain -/
theorem reqOK_trunc {c c' : Cache Node} {T : Nat} {src ref : List Node} {r : Req Node}
    (hd : c'.depthHigher = c.depthHigher) (h : ReqOK H c T src ref r) :
    ReqOK H c' (T + 1) src src r.markBo := by
  by_cases hact : r.active = true
  · rw [markBo_active _ hact]
    refine ⟨by have := h.t0; show r.t0 ≤ T + 1; omega, h.idx, h.pc.bump H hd h.t0,
      safe_of_active H hact, h.head,
      fun _ => Or.inr (List.mem_of_mem_head? (h.head hact)), ?_⟩
    intro hbo
    cases hbo
  · have hin : r.active = false := by simpa using hact
    rw [markBo_inactive _ hin]
    exact reqOK_inactive H hin (Nat.le_succ _) h

/-- a new request: waiting for the handler's read of the header(s) -/
theorem reqOK_new (c : Cache Node) (T : Nat) (src ref : List Node) (b : Bool) (kind : Handler)
    (first count cp : Nat) : ReqOK H c T src ref (newReq T src b kind first count cp) := by
  refine ⟨Nat.le_refl _, (fun ha => by cases ha), trivial, trivial, fun _ => rfl, (fun ha => by cases ha), ?_⟩
  intro _ S hS hd hhd
  simp only [newReq, List.mem_singleton] at hS
  simp only [newReq, List.head?_cons, Option.some.injEq] at hhd
  subst hS hhd
  exact List.prefix_refl _

/-! ### the handler around the proof: header read, range check, consistency check -/

/-- a request ends without a proof (refused, plain reply) -/
theorem reqOK_end {c : Cache Node} {T : Nat} {src ref : List Node} {r : Req Node} (res : Res Node)
    (hres : ∀ br root, res ≠ .answer br root)
    (h : ReqOK H c T src ref r) : ReqOK H c T src ref { r with pc := .done res } := by
  refine ⟨h.t0, fun ha => by simp [Req.proving] at ha, trivial, ?_, fun ha => by simp [Req.active] at ha,
    fun ha => by simp [Req.proving] at ha, h.nobo⟩
  cases res with
  | answer br root => exact absurd rfl (hres br root)
  | error e => trivial
  | refused => trivial
  | plain => trivial

/-- `_merkle_proof` from its range check on: refused, or at the first wait point of the proof -/
theorem reqOK_enterProof {c : Cache Node} {T : Nat} {src ref : List Node} {r : Req Node}
    (hact : r.active = true) (h : ReqOK H c T src ref r) :
    ReqOK H c T src ref (enterProof c T src.length r) := by
  unfold enterProof
  split
  · next hr =>
    exact reqOK_enterExtend H (r := { r with t0 := T }) (Nat.le_refl _) hr.1 (h.head hact)
      (Or.inl hr.2) h.nobo
  · exact reqOK_end H .refused (fun _ _ hc => by cases hc) h

/-- the handler resumes with its header(s) -/
theorem reqOK_afterHdr {c : Cache Node} {T : Nat} {src ref : List Node} {r : Req Node} (hs : List Node)
    (hact : r.active = true) (h : ReqOK H c T src ref r) :
    ReqOK H c T src ref (afterHdr c T src.length r hs) := by
  have hset : ∀ i, ReqOK H c T src ref { r with hdrs := hs, index := i, pc := .hdr .issued } :=
    fun i => ⟨h.t0, (fun ha => by cases ha), trivial, trivial, fun _ => h.head hact,
      (fun ha => by cases ha), h.nobo⟩
  unfold afterHdr
  split
  · split
    · exact reqOK_end H .refused (fun _ _ hc => by cases hc) h
    · split
      · exact reqOK_end H .plain (fun _ _ hc => by cases hc) (hset r.first)
      · exact reqOK_enterProof H (r := { r with hdrs := hs, index := r.first, pc := .hdr .issued }) rfl (hset _)
  · split
    · exact reqOK_end H .plain (fun _ _ hc => by cases hc) (hset (r.first + hs.length - 1))
    · exact reqOK_enterProof H (r := { r with hdrs := hs, index := r.first + hs.length - 1, pc := .hdr .issued })
        rfl (hset _)

/-! ### what the proof part leaves alone -/

/-- the ghost fields and the parameters of a request: everything but `t0` and `pc` -/
def Req.Same (r' r : Req Node) : Prop :=
  r'.seen = r.seen ∧ r'.bo = r.bo ∧ r'.length = r.length ∧ r'.index = r.index ∧
    r'.kind = r.kind ∧ r'.first = r.first ∧ r'.count = r.count ∧ r'.hdrs = r.hdrs

theorem Req.Same.rfl' (r : Req Node) : Req.Same r r := ⟨rfl, rfl, rfl, rfl, rfl, rfl, rfl, rfl⟩

/-- a program counter inside `_merkle_proof` past the range check, or its end with an answer or an
    exception -/
def PC.proofish : PC Node → Prop
  | .hdr _ => False
  | .done .plain => False
  | .done .refused => False
  | _ => True

theorem enterExtend_ghost (c : Cache Node) (T : Nat) (r : Req Node) :
    (enterExtend c T r).Same r ∧ (enterExtend c T r).pc.proofish ∧
      (∀ res, (enterExtend c T r).pc ≠ .done res) := by
  unfold enterExtend
  split
  · exact ⟨Req.Same.rfl' _, trivial, (fun res hc => by cases hc)⟩
  · exact ⟨Req.Same.rfl' _, trivial, (fun res hc => by cases hc)⟩

theorem finish_ghost (cfg : Cfg) (c : Cache Node) (T : Nat) (r : Req Node)
    (res : Except PyExc (List (Elt Node) × Node)) :
    (finish cfg c T r res).Same r ∧ (finish cfg c T r res).pc.proofish := by
  unfold finish
  split
  · exact ⟨Req.Same.rfl' _, trivial⟩
  · split
    · exact ⟨(enterExtend_ghost c T _).1, (enterExtend_ghost c T _).2.1⟩
    · exact ⟨Req.Same.rfl' _, trivial⟩

theorem deliverReq_ghost [DecidableEq Node] (cfg : Cfg) (c : Cache Node) (T : Nat) (r : Req Node) :
    (deliverReq H cfg c T r).2.Same r ∧
      (r.pc.proofish → (deliverReq H cfg c T r).2.pc.proofish) := by
  unfold deliverReq
  repeat' split
  all_goals first
    | exact ⟨Req.Same.rfl' _, fun _ => trivial⟩
    | exact ⟨Req.Same.rfl' _, fun hp => hp⟩
    | exact ⟨(enterExtend_ghost c T r).1, fun _ => (enterExtend_ghost c T r).2.1⟩
    | exact ⟨(enterExtend_ghost _ T r).1, fun _ => (enterExtend_ghost _ T r).2.1⟩
    | exact ⟨(finish_ghost cfg c T r _).1, fun _ => (finish_ghost cfg c T r _).2⟩

theorem performReq_ghost (c : Cache Node) (src : List Node) (r : Req Node) :
    (performReq c src r).Same r := by
  unfold performReq
  repeat' split
  all_goals exact Req.Same.rfl' _

theorem enterProof_ghost (c : Cache Node) (T vis : Nat) (r : Req Node) :
    (enterProof c T vis r).Same r ∧ (∀ rd, (enterProof c T vis r).pc ≠ .hdr rd) ∧
      (∀ br root, (enterProof c T vis r).pc ≠ .done (.answer br root)) ∧
      (enterProof c T vis r).pc ≠ .done .plain := by
  unfold enterProof beginIter enterExtend
  repeat' split
  all_goals exact ⟨Req.Same.rfl' _, (fun rd hc => by cases hc), (fun br root hc => by cases hc), (fun hc => by cases hc)⟩

theorem afterHdr_seen (c : Cache Node) (T vis : Nat) (r : Req Node) (hs : List Node) :
    (afterHdr c T vis r hs).seen = r.seen ∧ (afterHdr c T vis r hs).bo = r.bo := by
  unfold afterHdr
  repeat' split
  all_goals first
    | exact ⟨rfl, rfl⟩
    | exact ⟨(enterProof_ghost c T vis _).1.1, (enterProof_ghost c T vis _).1.2.1⟩

theorem afterProof_seen [DecidableEq Node] (cfg : Cfg) (r : Req Node) :
    (afterProof H cfg r).seen = r.seen ∧ (afterProof H cfg r).bo = r.bo := by
  unfold afterProof
  repeat' split
  all_goals exact ⟨rfl, rfl⟩

/-- every variant of the code: a delivery does not touch the ghost fields -/
theorem deliverAll_seen [DecidableEq Node] (cfg : Cfg) (c : Cache Node) (T vis : Nat) (r : Req Node) :
    (deliverAll H cfg c T vis r).2.seen = r.seen ∧ (deliverAll H cfg c T vis r).2.bo = r.bo := by
  unfold deliverAll
  split
  · exact ⟨rfl, rfl⟩
  · exact afterHdr_seen c T vis r _
  · exact ⟨rfl, rfl⟩
  · exact ⟨(afterProof_seen H cfg _).1.trans (deliverReq_ghost H cfg c T r).1.1,
      (afterProof_seen H cfg _).2.trans (deliverReq_ghost H cfg c T r).1.2.1⟩

/-! ### the consistency check of the reply -/

/-- what `afterProof` of the current code can do -/
theorem afterProof_cases [DecidableEq Node] (r : Req Node) :
    (afterProof H Cfg.fixed r = r ∧ r.Folds H) ∨
    afterProof H Cfg.fixed r = { r with pc := .hdr .issued } ∨
    ∃ e, afterProof H Cfg.fixed r = { r with pc := .done (.error e) } := by
  unfold afterProof
  split
  · next br root hpc =>
    simp only [show Cfg.fixed.hdrCheck = true from rfl, if_true]
    split
    · exact Or.inr (Or.inl rfl)
    · next h hh =>
      split
      · next e he => exact Or.inr (Or.inr ⟨_, rfl⟩)
      · next x hx =>
        split
        · next hxr =>
          refine Or.inl ⟨rfl, ?_⟩
          unfold Req.Folds
          rw [hpc]
          simp only [hh]
          rw [hx, hxr]
        · exact Or.inr (Or.inl rfl)
  · next hpc =>
    refine Or.inl ⟨rfl, ?_⟩
    unfold Req.Folds
    split
    · next br root hpc' => exact absurd hpc' (hpc br root)
    · trivial

theorem reqOK_afterProof [DecidableEq Node] {c : Cache Node} {T : Nat} {src ref : List Node} {r : Req Node}
    (hhead : r.seen.head? = some src) (h : ReqOK H c T src ref r) :
    ReqOK H c T src ref (afterProof H Cfg.fixed r) := by
  rcases afterProof_cases H r with ⟨he, _⟩ | he | ⟨e, he⟩
  · rw [he]; exact h
  · rw [he]
    exact ⟨h.t0, (fun ha => by cases ha), trivial, trivial, fun _ => hhead, (fun ha => by cases ha), h.nobo⟩
  · rw [he]; exact reqOK_error H e h

theorem proofish_of {r : Req Node} (h1 : ∀ res, r.pc ≠ .done res) (h2 : ∀ rd, r.pc ≠ .hdr rd) :
    r.proving = true ∧ r.pc.proofish := by
  obtain ⟨len, idx, t0, pc, seen, bo, kind, first, count, hdrs⟩ := r
  cases pc with
  | done res => exact absurd rfl (h1 res)
  | hdr rd => exact absurd rfl (h2 rd)
  | ext t cl start rd => exact ⟨rfl, trivial⟩
  | leaf rd => exact ⟨rfl, trivial⟩
  | lvl pre leaf rd => exact ⟨rfl, trivial⟩

/-- **delivery of a read result to the whole handler** (current code) -/
theorem deliverAll_ok [DecidableEq Node] {c : Cache Node} {T : Nat} {src ref : List Node} {r : Req Node}
    (hinv : CacheInv H c ref) (hp : src <+: ref) (h : ReqOK H c T src ref r) :
    CacheInv H (deliverAll H Cfg.fixed c T src.length r).1 ref ∧
    (deliverAll H Cfg.fixed c T src.length r).1.depthHigher = c.depthHigher ∧
    c.length ≤ (deliverAll H Cfg.fixed c T src.length r).1.length ∧
    ReqOK H (deliverAll H Cfg.fixed c T src.length r).1 T src ref (deliverAll H Cfg.fixed c T src.length r).2 := by
  have hproof : r.proving = true →
      CacheInv H (deliverReq H Cfg.fixed c T r).1 ref ∧
      (deliverReq H Cfg.fixed c T r).1.depthHigher = c.depthHigher ∧
      c.length ≤ (deliverReq H Cfg.fixed c T r).1.length ∧
      ReqOK H (deliverReq H Cfg.fixed c T r).1 T src ref
        (afterProof H Cfg.fixed (deliverReq H Cfg.fixed c T r).2) := by
    intro hact
    obtain ⟨d1, d2, d3, d4⟩ := deliver_ok H hinv hp h
    refine ⟨d1, d2, d3, reqOK_afterProof H ?_ d4⟩
    rw [(deliverReq_ghost H Cfg.fixed c T r).1.1]
    exact h.head (proving_active hact)
  unfold deliverAll
  split
  · exact ⟨hinv, rfl, Nat.le_refl _, h⟩
  · next hs hpc =>
    exact ⟨hinv, rfl, Nat.le_refl _, reqOK_afterHdr H hs (by simp [Req.active, hpc]) h⟩
  · exact ⟨hinv, rfl, Nat.le_refl _, h⟩
  · next h1 h2 h3 =>
    apply hproof
    refine (proofish_of h1 (fun rd => ?_)).1
    cases rd with
    | got hs => exact h2 hs
    | issued => exact h3 _
    | short => exact h3 _

/-! ### the header part of the reply -/

/-- what is known about the headers of a request, whatever the cache and the DB do: a finished
    reply with a proof passed the consistency check; the headers in hand came from ONE read of a
    chain that was visible during the request; `index` is the height of the last of them -/
structure HdrOK (r : Req Node) : Prop where
  folds : r.Folds H
  hsrc : r.pc.proofish → ∃ A ∈ r.seen, r.hdrs = srcSlice A r.first r.count
  hplain : r.pc = .done .plain → ∃ A ∈ r.seen, r.hdrs = srcSlice A r.first r.count
  hrd : ∀ hs, r.pc = .hdr (.got hs) → ∃ A ∈ r.seen, hs = srcSlice A r.first r.count
  hidx : r.hdrs = [] ∨ r.index = r.first + r.hdrs.length - 1
  one : r.kind = .header → r.count = 1

theorem folds_of_not_answer {r : Req Node} (h : ∀ br root, r.pc ≠ .done (.answer br root)) : r.Folds H := by
  unfold Req.Folds
  split
  · next br root hpc => exact absurd hpc (h br root)
  · trivial

theorem hdrOK_header (T : Nat) (src : List Node) (b : Bool) (first cp : Nat) :
    HdrOK H (newReq T src b .header first 1 cp) :=
  ⟨trivial, (fun hc => by cases hc), (fun hc => by cases hc), (fun hs hc => by cases hc), Or.inl rfl, fun _ => rfl⟩

theorem hdrOK_headers (T : Nat) (src : List Node) (b : Bool) (first count cp : Nat) :
    HdrOK H (newReq T src b .headers first count cp) :=
  ⟨trivial, (fun hc => by cases hc), (fun hc => by cases hc), (fun hs hc => by cases hc), Or.inl rfl,
    (fun hc => by cases hc)⟩

theorem hdrOK_perform {c : Cache Node} {src : List Node} {r : Req Node}
    (hhead : r.active = true → r.seen.head? = some src) (h : HdrOK H r) :
    HdrOK H (performReq c src r) := by
  obtain ⟨len, idx, t0, pc, seen, bo, kind, first, count, hdrs⟩ := r
  cases pc with
  | hdr rd =>
    cases rd with
    | issued =>
      refine ⟨trivial, (fun hc => by cases hc), (fun hc => by cases hc), fun hs hc => ?_, h.hidx, h.one⟩
      have hc' : PC.hdr (.got (srcSlice src first count)) = PC.hdr (.got hs) := hc
      injection hc' with hc'
      injection hc' with hc'
      exact ⟨src, List.mem_of_mem_head? (hhead rfl), hc'.symm⟩
    | got hs => exact h
    | short => exact h
  | done res => exact h
  | ext t cl start rd =>
    cases rd with
    | issued => exact ⟨trivial, fun _ => h.hsrc trivial, (fun hc => by cases hc), (fun hs hc => by cases hc), h.hidx, h.one⟩
    | got hs => exact h
    | short => exact h
  | leaf rd =>
    cases rd with
    | issued => exact ⟨trivial, fun _ => h.hsrc trivial, (fun hc => by cases hc), (fun hs hc => by cases hc), h.hidx, h.one⟩
    | got hs => exact h
    | short => exact h
  | lvl pre leaf rd =>
    cases rd with
    | issued => exact ⟨trivial, fun _ => h.hsrc trivial, (fun hc => by cases hc), (fun hs hc => by cases hc), h.hidx, h.one⟩
    | got hs => exact h
    | short => exact h

theorem hdrOK_see (S : List Node) {r : Req Node} (h : HdrOK H r) : HdrOK H (r.see S) := by
  unfold Req.see
  split
  · have up : (∃ A ∈ r.seen, r.hdrs = srcSlice A r.first r.count) →
        ∃ A ∈ S :: r.seen, r.hdrs = srcSlice A r.first r.count :=
      fun ⟨A, hA, h1⟩ => ⟨A, List.mem_cons_of_mem _ hA, h1⟩
    refine ⟨h.folds, fun hp => up (h.hsrc hp), fun hp => up (h.hplain hp), fun hs hc => ?_, h.hidx, h.one⟩
    obtain ⟨A, hA, h1⟩ := h.hrd hs hc
    exact ⟨A, List.mem_cons_of_mem _ hA, h1⟩
  · exact h

theorem hdrOK_markBo {r : Req Node} (h : HdrOK H r) : HdrOK H r.markBo := by
  unfold Req.markBo
  split
  · exact ⟨h.folds, h.hsrc, h.hplain, h.hrd, h.hidx, h.one⟩
  · exact h

/-- after the range check -/
theorem hdrOK_enterProof {c : Cache Node} {T vis : Nat} {r : Req Node}
    (hsrc : ∃ A ∈ r.seen, r.hdrs = srcSlice A r.first r.count)
    (hidx : r.hdrs = [] ∨ r.index = r.first + r.hdrs.length - 1) (hone : r.kind = .header → r.count = 1) :
    HdrOK H (enterProof c T vis r) := by
  obtain ⟨⟨e1, _, _, e4, e5, e6, e7, e8⟩, hh, ha, hp⟩ := enterProof_ghost c T vis r
  exact ⟨folds_of_not_answer H ha, fun _ => by rw [e1, e6, e7, e8]; exact hsrc, fun hc => absurd hc hp,
    fun x hc => absurd hc (hh _), by rw [e4, e6, e8]; exact hidx, by rw [e5, e7]; exact hone⟩

theorem hdrOK_afterHdr {c : Cache Node} {T vis : Nat} {r : Req Node} (hs : List Node)
    (hpc : r.pc = .hdr (.got hs)) (h : HdrOK H r) : HdrOK H (afterHdr c T vis r hs) := by
  have hnew := h.hrd hs hpc
  unfold afterHdr
  split
  · split
    · exact ⟨trivial, (fun hc => by cases hc), (fun hc => by cases hc), (fun x hc => by cases hc), h.hidx, h.one⟩
    · next hlen =>
      have hidx : hs = [] ∨ r.first = r.first + hs.length - 1 := Or.inr (by omega)
      split
      · exact ⟨trivial, (fun hc => by cases hc), fun _ => hnew, (fun x hc => by cases hc), hidx, h.one⟩
      · exact hdrOK_enterProof H (r := { r with hdrs := hs, index := r.first }) hnew hidx h.one
  · split
    · exact ⟨trivial, (fun hc => by cases hc), fun _ => hnew, (fun x hc => by cases hc), Or.inr rfl, h.one⟩
    · exact hdrOK_enterProof H (r := { r with hdrs := hs, index := r.first + hs.length - 1 }) hnew (Or.inr rfl) h.one

theorem hdrOK_afterProof [DecidableEq Node] {r : Req Node}
    (hsrc : ∃ A ∈ r.seen, r.hdrs = srcSlice A r.first r.count) (hp : r.pc.proofish)
    (hidx : r.hdrs = [] ∨ r.index = r.first + r.hdrs.length - 1) (hone : r.kind = .header → r.count = 1) :
    HdrOK H (afterProof H Cfg.fixed r) := by
  rcases afterProof_cases H r with ⟨he, hf⟩ | he | ⟨e, he⟩
  · rw [he]
    exact ⟨hf, fun _ => hsrc, fun hc => by rw [hc] at hp; exact hp.elim,
      fun x hc => by rw [hc] at hp; exact hp.elim, hidx, hone⟩
  · rw [he]; exact ⟨trivial, (fun hc => by cases hc), (fun hc => by cases hc), (fun x hc => by cases hc), hidx, hone⟩
  · rw [he]; exact ⟨trivial, fun _ => hsrc, (fun hc => by cases hc), (fun x hc => by cases hc), hidx, hone⟩

/-- **delivery of a read result to the whole handler** (current code), the header part -/
theorem hdrOK_deliverAll [DecidableEq Node] {c : Cache Node} {T vis : Nat} {r : Req Node} (h : HdrOK H r) :
    HdrOK H (deliverAll H Cfg.fixed c T vis r).2 := by
  unfold deliverAll
  split
  · exact h
  · next hs hpc => exact hdrOK_afterHdr H hs hpc h
  · exact h
  · next h1 h2 h3 =>
    have hp : r.pc.proofish := by
      refine (proofish_of h1 (fun rd => ?_)).2
      cases rd with
      | got hs => exact h2 hs
      | issued => exact h3 _
      | short => exact h3 _
    obtain ⟨⟨e1, _, _, e4, e5, e6, e7, e8⟩, hh⟩ := deliverReq_ghost H Cfg.fixed c T r
    apply hdrOK_afterProof H
    · rw [e1, e6, e7, e8]; exact h.hsrc hp
    · exact hh hp
    · rw [e4, e6, e8]; exact h.hidx
    · rw [e5, e7]; exact h.one

end EV.HeaderCache

import EV.Model.Rpc

/-! Helper lemmas for C16: the validators, `handler_invocation`, the validation prefixes. -/
namespace EV.Rpc

/-- the two ways a handler is supposed to fail -/
def PyExc.isProtocol : PyExc → Bool
  | .rpcError _ => true
  | .replyAndDisconnect _ => true
  | _ => false

/-- "the method returns a result or fails with a protocol error" -/
def Good {α : Type} (r : Except PyExc α) : Prop := ∀ e, r = .error e → e.isProtocol = true

theorem good_ok {α : Type} (a : α) : Good (.ok a : Except PyExc α) := by
  intro e h; cases h

theorem good_rpc {α : Type} (c : Int) : Good (.error (.rpcError c) : Except PyExc α) := by
  intro e h; cases h; rfl

theorem good_disc {α : Type} (c : Int) : Good (.error (.replyAndDisconnect c) : Except PyExc α) := by
  intro e h; cases h; rfl

/-! ### builtins -/

theorem pyInt_err {ios : String → Option Int} {v : J} {e : PyExc} (h : pyInt ios v = .error e) :
    e = .valueError ∨ e = .typeError ∨ e = .overflowError := by
  cases v with
  | null => simp [pyInt] at h; simp [← h]
  | bool b => simp [pyInt] at h
  | int i => simp [pyInt] at h
  | float f =>
    cases f <;> simp [pyInt] at h <;> simp [← h]
  | str s =>
    simp only [pyInt] at h
    split at h
    · cases h
    · cases h; simp
  | arr l => simp [pyInt] at h; simp [← h]
  | obj kv => simp [pyInt] at h; simp [← h]

theorem fromHex_err {v : J} {e : PyExc} (h : fromHex v = .error e) :
    e = .valueError ∨ e = .typeError := by
  cases v <;> simp only [fromHex] at h
  case str s =>
    split at h
    · cases h
    · cases h; simp
  all_goals (cases h; simp)

/-! ### validators: an error is always the `BAD_REQUEST` protocol error, provided the caught tuple
contains what the builtin can raise -/

theorem guard_of_mem {caught : List String} {e : PyExc} (h : caught.contains e.name = true) :
    guard caught e = .rpcError Gen.badRequest := by
  unfold guard; rw [if_pos h]

theorem nonNegativeIntegerWith_err {caught : List String} {ios : String → Option Int} {v : J}
    {e : PyExc}
    (hv : caught.contains "ValueError" = true) (ht : caught.contains "TypeError" = true)
    (ho : caught.contains "OverflowError" = true)
    (h : nonNegativeIntegerWith caught ios v = .error e) : e = .rpcError Gen.badRequest := by
  simp only [nonNegativeIntegerWith] at h
  split at h
  · split at h
    · cases h
    · cases h; rfl
  · rename_i e' he'
    cases h
    rcases pyInt_err he' with rfl | rfl | rfl
    · exact guard_of_mem hv
    · exact guard_of_mem ht
    · exact guard_of_mem ho

theorem hash32With_err {caught : List String} {v : J} {e : PyExc}
    (hv : caught.contains "ValueError" = true) (ht : caught.contains "TypeError" = true)
    (h : hash32With caught v = .error e) : e = .rpcError Gen.badRequest := by
  simp only [hash32With] at h
  split at h
  · split at h
    · cases h
    · cases h; rfl
  · rename_i e' he'
    cases h
    rcases fromHex_err he' with rfl | rfl
    · exact guard_of_mem hv
    · exact guard_of_mem ht

theorem scripthashToHashXWith_err {caught : List String} {v : J} {e : PyExc}
    (hv : caught.contains "ValueError" = true) (ht : caught.contains "TypeError" = true)
    (h : scripthashToHashXWith caught v = .error e) : e = .rpcError Gen.badRequest := by
  simp only [scripthashToHashXWith] at h
  split at h
  · cases h
  · rename_i e' he'
    cases h
    exact hash32With_err hv ht he'

theorem assertRawBytesWith_err {caught : List String} {v : J} {e : PyExc}
    (hv : caught.contains "ValueError" = true) (ht : caught.contains "TypeError" = true)
    (h : assertRawBytesWith caught v = .error e) : e = .rpcError Gen.badRequest := by
  simp only [assertRawBytesWith] at h
  split at h
  · cases h
  · rename_i e' he'
    cases h
    rcases fromHex_err he' with rfl | rfl
    · exact guard_of_mem hv
    · exact guard_of_mem ht

/-- What the totality of the validation prefixes needs from the *generated* caught tuples.  It is
    a closed Boolean statement about `EV.Gen`: `decide` proves it for the repaired code and fails
    for the tuples of the pinned commit (no `OverflowError`). -/
def CaughtOK : Prop :=
  (Gen.nonNegIntCaught.contains "ValueError" = true ∧ Gen.nonNegIntCaught.contains "TypeError" = true ∧
    Gen.nonNegIntCaught.contains "OverflowError" = true) ∧
  (Gen.scripthashCaught.contains "ValueError" = true ∧ Gen.scripthashCaught.contains "TypeError" = true) ∧
  (Gen.txHashCaught.contains "ValueError" = true ∧ Gen.txHashCaught.contains "TypeError" = true) ∧
  (Gen.rawBytesCaught.contains "ValueError" = true ∧ Gen.rawBytesCaught.contains "TypeError" = true) ∧
  (Gen.protocolTupleCaught.contains "ValueError" = true ∧
    Gen.protocolTupleCaught.contains "AttributeError" = true)

instance : Decidable CaughtOK := by unfold CaughtOK; infer_instance

theorem nonNegativeInteger_err (hc : CaughtOK) {ios : String → Option Int} {v : J} {e : PyExc}
    (h : nonNegativeInteger ios v = .error e) : e = .rpcError Gen.badRequest :=
  nonNegativeIntegerWith_err hc.1.1 hc.1.2.1 hc.1.2.2 h

theorem scripthashToHashX_err (hc : CaughtOK) {v : J} {e : PyExc}
    (h : scripthashToHashX v = .error e) : e = .rpcError Gen.badRequest :=
  scripthashToHashXWith_err hc.2.1.1 hc.2.1.2 h

theorem assertTxHash_err (hc : CaughtOK) {v : J} {e : PyExc}
    (h : assertTxHash v = .error e) : e = .rpcError Gen.badRequest :=
  hash32With_err hc.2.2.1.1 hc.2.2.1.2 h

theorem assertRawBytes_err (hc : CaughtOK) {v : J} {e : PyExc}
    (h : assertRawBytes v = .error e) : e = .rpcError Gen.badRequest :=
  assertRawBytesWith_err hc.2.2.2.1.1 hc.2.2.2.1.2 h

theorem protocolTuple_ok (hc : CaughtOK) (ios : String → Option Int) (v : J) :
    ∃ l, protocolTuple ios v = .ok l := by
  have hv := hc.2.2.2.2.1
  have ha := hc.2.2.2.2.2
  unfold protocolTuple protocolTupleWith
  cases v
  case str s =>
    simp only
    split
    · exact ⟨_, rfl⟩
    · simp only [PyExc.name, hv, if_true]; exact ⟨_, rfl⟩
  all_goals (simp only [PyExc.name, ha, if_true]; exact ⟨_, rfl⟩)

theorem protocolVersion_ok (hc : CaughtOK) (ios : String → Option Int) (req : J) (mn mx : List Int) :
    ∃ r, protocolVersion ios req mn mx = .ok r := by
  unfold protocolVersion
  obtain ⟨a, ha⟩ := protocolTuple_ok hc ios (clientRange req).1
  obtain ⟨b, hb⟩ := protocolTuple_ok hc ios (clientRange req).2
  cases req
  case null => exact ⟨_, rfl⟩
  all_goals (simp only [ha, hb]; exact ⟨_, rfl⟩)

/-! ### `handler_invocation` -/

theorem invoke_err {sig : Sig} {args : Args} {e : PyExc} (h : invoke sig args = .error e) :
    e = .rpcError Gen.invalidArgs := by
  cases args with
  | pos l =>
    simp only [invoke] at h
    split at h
    · cases h; rfl
    · split at h
      · cases h; rfl
      · cases h
  | named kv =>
    simp only [invoke] at h
    split at h
    · cases h; rfl
    · split at h
      · cases h; rfl
      · cases h

/-- The shape `handler_invocation` guarantees: one slot per parameter, the required ones bound. -/
def ShapeOK (minArgs maxArgs : Nat) (argv : List (Option J)) : Prop :=
  argv.length = maxArgs ∧ ∀ i, i < minArgs → ∃ a, argv[i]? = some (some a)

/-- a row of the table is consistent with itself (checked by `decide` on the generated table) -/
def Sig.wf (s : Sig) : Bool :=
  s.required.length == s.minArgs && s.required.length + s.other.length == s.maxArgs

theorem lookupJ_of_hasKey {k : String} {kv : List (String × J)} (h : hasKey k kv = true) :
    ∃ a, lookupJ k kv = some a := by
  induction kv with
  | nil => simp [hasKey] at h
  | cons e r ih =>
    obtain ⟨k', v⟩ := e
    simp only [lookupJ]
    by_cases hk : k' = k
    · simp [hk]
    · simp only [hk, if_false]
      apply ih
      simp only [hasKey, List.any_cons, Bool.or_eq_true, beq_iff_eq] at h
      rcases h with h | h
      · exact absurd h hk
      · exact h

theorem invoke_shape {sig : Sig} {args : Args} {argv : List (Option J)} (hwf : sig.wf = true)
    (h : invoke sig args = .ok argv) : ShapeOK sig.minArgs sig.maxArgs argv := by
  simp only [Sig.wf, Bool.and_eq_true, beq_iff_eq] at hwf
  obtain ⟨hmin, hmax⟩ := hwf
  cases args with
  | pos l =>
    simp only [invoke] at h
    split at h
    · cases h
    · split at h
      · cases h
      · rename_i h1 h2
        cases h
        refine ⟨by simp; omega, ?_⟩
        intro i hi
        have hil : i < l.length := by omega
        refine ⟨l[i], ?_⟩
        rw [List.getElem?_append_left (by simpa using hil)]
        simp [hil]
  | named kv =>
    simp only [invoke] at h
    split at h
    · cases h
    · split at h
      · cases h
      · rename_i h1 h2
        cases h
        refine ⟨by simp; omega, ?_⟩
        intro i hi
        have hir : i < sig.required.length := by omega
        have hmem : sig.required[i] ∈ sig.required := List.getElem_mem hir
        have hk : hasKey sig.required[i] kv = true := by
          cases hcon : hasKey sig.required[i] kv with
          | true => rfl
          | false =>
            exfalso
            apply h1
            have : sig.required[i] ∈ sig.required.filter (fun n => !hasKey n kv) := by
              simp [List.mem_filter, hmem, hcon]
            intro hnil
            rw [hnil] at this
            simp at this
        obtain ⟨a, ha⟩ := lookupJ_of_hasKey hk
        refine ⟨a, ?_⟩
        rw [List.getElem?_map, List.getElem?_append_left hir]
        simp [hir, ha]

theorem lookupSig_mem {m : String} {t : List Sig} {s : Sig} (h : lookupSig m t = some s) :
    s ∈ t ∧ s.name = m := by
  induction t with
  | nil => simp [lookupSig] at h
  | cons x r ih =>
    simp only [lookupSig] at h
    split at h
    · cases h; rename_i hx; exact ⟨by simp, hx⟩
    · obtain ⟨h1, h2⟩ := ih h
      exact ⟨List.mem_cons_of_mem _ h1, h2⟩

/-! ### destructuring a bound-argument list of a known shape -/

theorem shape_0_0 {argv : List (Option J)} (h : ShapeOK 0 0 argv) : argv = [] := by
  obtain ⟨hl, _⟩ := h
  exact List.eq_nil_of_length_eq_zero hl

theorem shape_1_1 {argv : List (Option J)} (h : ShapeOK 1 1 argv) : ∃ a, argv = [some a] := by
  obtain ⟨hl, hr⟩ := h
  match argv, hl, hr with
  | [x], _, hr =>
    obtain ⟨a, ha⟩ := hr 0 (by omega)
    simp at ha
    exact ⟨a, by rw [ha]⟩

theorem shape_1_2 {argv : List (Option J)} (h : ShapeOK 1 2 argv) : ∃ a b, argv = [some a, b] := by
  obtain ⟨hl, hr⟩ := h
  match argv, hl, hr with
  | [x, y], _, hr =>
    obtain ⟨a, ha⟩ := hr 0 (by omega)
    simp at ha
    exact ⟨a, y, by rw [ha]⟩

theorem shape_2_2 {argv : List (Option J)} (h : ShapeOK 2 2 argv) :
    ∃ a b, argv = [some a, some b] := by
  obtain ⟨hl, hr⟩ := h
  match argv, hl, hr with
  | [x, y], _, hr =>
    obtain ⟨a, ha⟩ := hr 0 (by omega)
    obtain ⟨b, hb⟩ := hr 1 (by omega)
    simp at ha hb
    exact ⟨a, b, by rw [ha, hb]⟩

theorem shape_2_3 {argv : List (Option J)} (h : ShapeOK 2 3 argv) :
    ∃ a b c, argv = [some a, some b, c] := by
  obtain ⟨hl, hr⟩ := h
  match argv, hl, hr with
  | [x, y, z], _, hr =>
    obtain ⟨a, ha⟩ := hr 0 (by omega)
    obtain ⟨b, hb⟩ := hr 1 (by omega)
    simp at ha hb
    exact ⟨a, b, z, by rw [ha, hb]⟩

theorem shape_2_4 {argv : List (Option J)} (h : ShapeOK 2 4 argv) :
    ∃ a b c d, argv = [some a, some b, c, d] := by
  obtain ⟨hl, hr⟩ := h
  match argv, hl, hr with
  | [x, y, z, u], _, hr =>
    obtain ⟨a, ha⟩ := hr 0 (by omega)
    obtain ⟨b, hb⟩ := hr 1 (by omega)
    simp at ha hb
    exact ⟨a, b, z, u, by rw [ha, hb]⟩

theorem shape_0_2 {argv : List (Option J)} (h : ShapeOK 0 2 argv) : ∃ a b, argv = [a, b] := by
  obtain ⟨hl, _⟩ := h
  match argv, hl with
  | [x, y], _ => exact ⟨x, y, rfl⟩

/-! ### the validation prefixes fail only with `BAD_REQUEST` -/

/-- an error of a validation prefix on a well-shaped argument list -/
def ParserGood (minArgs maxArgs : Nat) (p : Parser) : Prop :=
  ∀ ios argv e, ShapeOK minArgs maxArgs argv → p ios argv = .error e → e = .rpcError Gen.badRequest

theorem parseBlockHeader_good (hc : CaughtOK) : ParserGood 1 2 parseBlockHeader := by
  intro ios argv e hs h
  obtain ⟨a, b, rfl⟩ := shape_1_2 hs
  simp only [parseBlockHeader] at h
  split at h
  · rename_i e' he'; cases h; exact nonNegativeInteger_err hc he'
  · split at h
    · rename_i e' he'; cases h; exact nonNegativeInteger_err hc he'
    · cases h

theorem parseBlockHeaders_good (hc : CaughtOK) : ParserGood 2 3 parseBlockHeaders := by
  intro ios argv e hs h
  obtain ⟨a, b, c, rfl⟩ := shape_2_3 hs
  simp only [parseBlockHeaders] at h
  split at h
  · rename_i e' he'; cases h; exact nonNegativeInteger_err hc he'
  · split at h
    · rename_i e' he'; cases h; exact nonNegativeInteger_err hc he'
    · split at h
      · rename_i e' he'; cases h; exact nonNegativeInteger_err hc he'
      · cases h

theorem parseNullary_good (r : Req) : ParserGood 0 0 (parseNullary r) := by
  intro ios argv e hs h
  rw [shape_0_0 hs] at h
  simp [parseNullary] at h

theorem parseEstimateFee_good : ParserGood 1 1 parseEstimateFee := by
  intro ios argv e hs h
  obtain ⟨a, rfl⟩ := shape_1_1 hs
  simp [parseEstimateFee] at h

theorem parseScripthash_good (hc : CaughtOK) (k : Bytes → J → Req) :
    ParserGood 1 1 (parseScripthash k) := by
  intro ios argv e hs h
  obtain ⟨a, rfl⟩ := shape_1_1 hs
  simp only [parseScripthash] at h
  split at h
  · rename_i e' he'; cases h; exact scripthashToHashX_err hc he'
  · cases h

theorem parseBroadcast_good (hc : CaughtOK) : ParserGood 1 1 parseBroadcast := by
  intro ios argv e hs h
  obtain ⟨a, rfl⟩ := shape_1_1 hs
  simp only [parseBroadcast] at h
  split at h
  · rename_i e' he'; cases h; exact assertRawBytes_err hc he'
  · cases h

theorem parseTxGet_good (hc : CaughtOK) : ParserGood 1 2 parseTxGet := by
  intro ios argv e hs h
  obtain ⟨a, b, rfl⟩ := shape_1_2 hs
  simp only [parseTxGet] at h
  split at h
  · rename_i e' he'; cases h; exact assertTxHash_err hc he'
  · split at h
    · cases h
    · cases h; rfl

theorem parseGetMerkle_good (hc : CaughtOK) : ParserGood 2 2 parseGetMerkle := by
  intro ios argv e hs h
  obtain ⟨a, b, rfl⟩ := shape_2_2 hs
  simp only [parseGetMerkle] at h
  split at h
  · rename_i e' he'; cases h; exact assertTxHash_err hc he'
  · split at h
    · rename_i e' he'; cases h; exact nonNegativeInteger_err hc he'
    · cases h

theorem parseGetTscMerkleWith_good (hc : CaughtOK) (b : Bool) :
    ParserGood 2 4 (parseGetTscMerkleWith b) := by
  intro ios argv e hs h
  obtain ⟨a, b, c, d, rfl⟩ := shape_2_4 hs
  simp only [parseGetTscMerkleWith] at h
  split at h
  · rename_i e' he'; cases h; exact assertTxHash_err hc he'
  · split at h
    · rename_i e' he'; cases h; exact nonNegativeInteger_err hc he'
    · split at h
      · cases h; rfl
      · cases h

theorem parseIdFromPos_good (hc : CaughtOK) : ParserGood 2 3 parseIdFromPos := by
  intro ios argv e hs h
  obtain ⟨a, b, c, rfl⟩ := shape_2_3 hs
  simp only [parseIdFromPos] at h
  split at h
  · rename_i e' he'; cases h; exact nonNegativeInteger_err hc he'
  · split at h
    · rename_i e' he'; cases h; exact nonNegativeInteger_err hc he'
    · split at h
      · cases h
      · cases h; rfl

theorem parseAddPeer_good : ParserGood 1 1 parseAddPeer := by
  intro ios argv e hs h
  obtain ⟨a, rfl⟩ := shape_1_1 hs
  simp [parseAddPeer] at h

theorem parseVersion_good : ParserGood 0 2 parseVersion := by
  intro ios argv e hs h
  obtain ⟨a, b, rfl⟩ := shape_0_2 hs
  simp [parseVersion] at h

end EV.Rpc

namespace EV.Rpc

/-! ### the handler table -/

/-- The arities for which each validation prefix of the model is written.  The generated table
    (`Gen.handlersMin/Max`, i.e. the real `set_request_handlers` + `signature_info`) is compared
    with this list by `decide` (`TableOK`), so a new or re-shaped handler in the source makes the
    comparison — and with it `C16_total` — stop checking. -/
def modelSigs : List (String × Nat × Nat) :=
  [("blockchain.block.header", 1, 2),
   ("blockchain.block.headers", 2, 3),
   ("blockchain.estimatefee", 1, 1),
   ("blockchain.headers.subscribe", 0, 0),
   ("blockchain.relayfee", 0, 0),
   ("blockchain.scripthash.get_balance", 1, 1),
   ("blockchain.scripthash.get_history", 1, 1),
   ("blockchain.scripthash.get_mempool", 1, 1),
   ("blockchain.scripthash.listunspent", 1, 1),
   ("blockchain.scripthash.subscribe", 1, 1),
   ("blockchain.scripthash.unsubscribe", 1, 1),
   ("blockchain.transaction.broadcast", 1, 1),
   ("blockchain.transaction.get", 1, 2),
   ("blockchain.transaction.get_merkle", 2, 2),
   ("blockchain.transaction.get_tsc_merkle", 2, 4),
   ("blockchain.transaction.id_from_pos", 2, 3),
   ("mempool.get_fee_histogram", 0, 0),
   ("server.add_peer", 1, 1),
   ("server.banner", 0, 0),
   ("server.donation_address", 0, 0),
   ("server.features", 0, 0),
   ("server.peers.subscribe", 0, 0),
   ("server.ping", 0, 0),
   ("server.version", 0, 2)]

theorem modelSigs_good (hc : CaughtOK) :
    ∀ e ∈ modelSigs, ∃ p, parserFor e.1 = some p ∧ ParserGood e.2.1 e.2.2 p := by
  intro e he
  simp only [modelSigs, List.mem_cons, List.not_mem_nil, or_false] at he
  rcases he with rfl | rfl | rfl | rfl | rfl | rfl | rfl | rfl | rfl | rfl | rfl | rfl |
    rfl | rfl | rfl | rfl | rfl | rfl | rfl | rfl | rfl | rfl | rfl | rfl
  all_goals first
    | exact ⟨_, rfl, parseBlockHeader_good hc⟩
    | exact ⟨_, rfl, parseBlockHeaders_good hc⟩
    | exact ⟨_, rfl, parseEstimateFee_good⟩
    | exact ⟨_, rfl, parseNullary_good _⟩
    | exact ⟨_, rfl, parseScripthash_good hc _⟩
    | exact ⟨_, rfl, parseBroadcast_good hc⟩
    | exact ⟨_, rfl, parseTxGet_good hc⟩
    | exact ⟨_, rfl, parseGetMerkle_good hc⟩
    | exact ⟨_, rfl, parseGetTscMerkleWith_good hc _⟩
    | exact ⟨_, rfl, parseIdFromPos_good hc⟩
    | exact ⟨_, rfl, parseAddPeer_good⟩
    | exact ⟨_, rfl, parseVersion_good⟩

/-- the generated tables agree with the model's arities and are self-consistent -/
def TableOK : Prop :=
  ∀ t ∈ [Gen.handlersMin.map Sig.ofRow, Gen.handlersMax.map Sig.ofRow],
    ∀ s ∈ t, s.wf = true ∧ (s.name, s.minArgs, s.maxArgs) ∈ modelSigs

instance : Decidable TableOK := by unfold TableOK; infer_instance

theorem tableFor_mem (pt : List Int) :
    tableFor pt ∈ [Gen.handlersMin.map Sig.ofRow, Gen.handlersMax.map Sig.ofRow] := by
  unfold tableFor
  split <;> simp

/-- `parseRequest` fails only with protocol errors -/
theorem parseRequest_good (hc : CaughtOK) (ht : TableOK) (w : World) (st : St) (m : String)
    (args : Args) : Good (parseRequest w st m args) := by
  intro e h
  unfold parseRequest at h
  split at h
  · cases h; rfl
  · rename_i sig hsig
    obtain ⟨hmem, hname⟩ := lookupSig_mem hsig
    obtain ⟨hwf, hms⟩ := ht _ (tableFor_mem _) sig hmem
    split at h
    · rename_i e' he'; cases h; rw [invoke_err he']; rfl
    · rename_i argv hargv
      obtain ⟨p, hp, hgood⟩ := modelSigs_good hc _ hms
      simp only at hp hgood
      rw [hname] at hp
      unfold parse at h
      rw [hp] at h
      simp only at h
      rw [hgood _ _ _ (invoke_shape hwf hargv) h]
      rfl

end EV.Rpc

import EV.Model.Peers

/-! Lemmas about the model of `on_peers_subscribe` (core tactics only). -/
namespace EV.Peers

/-- the assumed behaviour of `random.shuffle`: every call returns a permutation of its input -/
def IsShuffle (shuf : Nat → List PeerV → List PeerV) : Prop := ∀ i l, (shuf i l).Perm l

theorem IsShuffle.sub {shuf : Nat → List PeerV → List PeerV} (h : IsShuffle shuf) :
    ∀ i l x, x ∈ shuf i l → x ∈ l := fun i l _ hx => (h i l).subset hx

/-! ### Python sets of identities -/

theorem setAdd_eq (s : List PeerV) (p : PeerV) : setAdd s p = s ∨ setAdd s p = s ++ [p] := by
  unfold setAdd; split <;> simp

theorem mem_setAdd {s : List PeerV} {p x : PeerV} (h : x ∈ setAdd s p) : x ∈ s ∨ x = p := by
  rcases setAdd_eq s p with e | e <;> rw [e] at h
  · exact Or.inl h
  · simpa using h

theorem mem_setUpdate {l s : List PeerV} {x : PeerV} (h : x ∈ setUpdate s l) : x ∈ s ∨ x ∈ l := by
  induction l generalizing s with
  | nil => exact Or.inl h
  | cons a l ih =>
    simp only [setUpdate, List.foldl_cons] at h
    rcases ih h with h1 | h1
    · rcases mem_setAdd h1 with h2 | h2
      · exact Or.inl h2
      · exact Or.inr (by simp [h2])
    · exact Or.inr (by simp [h1])

theorem countP_setAdd_le (q : PeerV → Bool) (s : List PeerV) (p : PeerV) :
    (setAdd s p).countP q ≤ s.countP q + [p].countP q := by
  rcases setAdd_eq s p with e | e <;> rw [e]
  · omega
  · rw [List.countP_append]; omega

theorem countP_setUpdate_le (q : PeerV → Bool) (l s : List PeerV) :
    (setUpdate s l).countP q ≤ s.countP q + l.countP q := by
  induction l generalizing s with
  | nil => simp [setUpdate]
  | cons a l ih =>
    simp only [setUpdate, List.foldl_cons]
    have h1 := ih (setAdd s a)
    simp only [setUpdate] at h1
    have h2 := countP_setAdd_le q s a
    have h3 : (a :: l).countP q = [a].countP q + l.countP q := by
      rw [← List.countP_append]; rfl
    omega

/-- a `set.update` only appends: the old set is a prefix of the new one -/
theorem setUpdate_prefix (l s : List PeerV) :
    ∃ extra, setUpdate s l = s ++ extra ∧ ∀ e ∈ extra, e ∈ l := by
  induction l generalizing s with
  | nil => exact ⟨[], by simp [setUpdate]⟩
  | cons a l ih =>
    simp only [setUpdate, List.foldl_cons]
    obtain ⟨ex, h1, h2⟩ := ih (setAdd s a)
    simp only [setUpdate] at h1
    rcases setAdd_eq s a with e | e
    · exact ⟨ex, by rw [h1, e], fun x hx => by simp [h2 x hx]⟩
    · refine ⟨a :: ex, by rw [h1, e]; simp, fun x hx => ?_⟩
      rcases List.mem_cons.mp hx with rfl | hx
      · simp
      · simp [h2 x hx]

/-! the lists really are sets of identities -/

theorem setAdd_nodup {s : List PeerV} (p : PeerV) (h : (s.map (·.id)).Nodup) :
    ((setAdd s p).map (·.id)).Nodup := by
  unfold setAdd
  split
  · exact h
  · rename_i hany
    simp only [List.any_eq_true, beq_iff_eq, not_exists, not_and] at hany
    rw [List.map_append, List.nodup_append]
    refine ⟨h, by simp, ?_⟩
    intro a ha b hb
    simp only [List.map_cons, List.map_nil, List.mem_singleton] at hb
    subst hb
    obtain ⟨q, hq, rfl⟩ := List.mem_map.mp ha
    exact hany q hq

theorem setUpdate_nodup (l : List PeerV) {s : List PeerV} (h : (s.map (·.id)).Nodup) :
    ((setUpdate s l).map (·.id)).Nodup := by
  induction l generalizing s with
  | nil => exact h
  | cons a l ih => exact ih (setAdd_nodup a h)

theorem countP_eq_zero_of {q : PeerV → Bool} {l : List PeerV} (h : ∀ x ∈ l, q x = false) :
    l.countP q = 0 := by
  rw [List.countP_eq_zero]; intro x hx; simp [h x hx]

/-! ### `_get_recent_good_peers` and the initial set -/

theorem mem_recentGood {now : Int} {peers : List PeerV} {x : PeerV} (h : x ∈ recentGood now peers) :
    x ∈ peers ∧ x.lastGood > now - EV.Gen.staleSecs ∧ x.bad = false ∧ x.isPublic = true := by
  simp only [recentGood, fresh, List.mem_filter, Bool.and_eq_true, decide_eq_true_eq,
    Bool.not_eq_true'] at h
  exact ⟨h.1, h.2.1.1, h.2.1.2, h.2.2⟩

theorem mem_initSet {now : Int} {myselves : List PeerV} {x : PeerV} (h : x ∈ initSet now myselves) :
    x ∈ myselves ∧ x.lastGood > now - EV.Gen.staleSecs := by
  rcases mem_setUpdate h with h | h
  · simp at h
  · simp only [fresh, List.mem_filter, decide_eq_true_eq] at h
    exact h

theorem isMyself_of_mem {myselves : List PeerV} {x : PeerV} (h : x ∈ myselves) :
    isMyself myselves x = true := by
  simp only [isMyself, List.any_eq_true]
  exact ⟨x, h, by simp⟩

/-! ### bucketing -/

theorem bucketAdd_elem (Q : PeerV → Prop) (bs : List (String × List PeerV)) (p : PeerV) (hQ : Q p)
    (h : ∀ kl ∈ bs, ∀ x ∈ kl.2, Q x ∧ x.bucket = kl.1) :
    ∀ kl ∈ bucketAdd bs p, ∀ x ∈ kl.2, Q x ∧ x.bucket = kl.1 := by
  induction bs with
  | nil =>
    intro kl hkl x hx
    simp only [bucketAdd, List.mem_singleton] at hkl
    subst hkl
    simp only [List.mem_singleton] at hx
    subst hx
    exact ⟨hQ, rfl⟩
  | cons e rest ih =>
    obtain ⟨k, l⟩ := e
    intro kl hkl x hx
    simp only [bucketAdd] at hkl
    split at hkl
    · rename_i hk
      rcases List.mem_cons.mp hkl with rfl | hkl
      · simp only [List.mem_append, List.mem_singleton] at hx
        rcases hx with hx | rfl
        · exact h (k, l) (by simp) x hx
        · exact ⟨hQ, hk.symm⟩
      · exact h kl (by simp [hkl]) x hx
    · rcases List.mem_cons.mp hkl with rfl | hkl
      · exact h (k, l) (by simp) x hx
      · exact ih (fun kl hkl => h kl (by simp [hkl])) kl hkl x hx

theorem keys_bucketAdd_sub (bs : List (String × List PeerV)) (p : PeerV) (k : String)
    (h : k ∈ (bucketAdd bs p).map (·.1)) : k ∈ bs.map (·.1) ∨ k = p.bucket := by
  induction bs with
  | nil => simp only [bucketAdd, List.map_cons, List.map_nil, List.mem_singleton] at h; exact Or.inr h
  | cons e rest ih =>
    obtain ⟨k', l⟩ := e
    simp only [bucketAdd] at h
    split at h
    · exact Or.inl (by simpa using h)
    · simp only [List.map_cons, List.mem_cons] at h
      rcases h with h | h
      · exact Or.inl (by simp [h])
      · rcases ih h with h | h
        · exact Or.inl (by simp only [List.map_cons, List.mem_cons]; exact Or.inr h)
        · exact Or.inr h

theorem keys_bucketAdd_nodup (bs : List (String × List PeerV)) (p : PeerV)
    (h : (bs.map (·.1)).Nodup) : ((bucketAdd bs p).map (·.1)).Nodup := by
  induction bs with
  | nil => simp [bucketAdd]
  | cons e rest ih =>
    obtain ⟨k', l⟩ := e
    simp only [List.map_cons, List.nodup_cons] at h
    simp only [bucketAdd]
    split
    · simpa using h
    · rename_i hk
      simp only [List.map_cons, List.nodup_cons]
      refine ⟨fun hmem => ?_, ih h.2⟩
      rcases keys_bucketAdd_sub rest p k' hmem with h1 | h1
      · exact h.1 h1
      · exact hk h1

/-- what the bucketing loop guarantees about `(onion_peers, buckets)` -/
structure SplitOK (Q : PeerV → Prop) (acc : List PeerV × List (String × List PeerV)) : Prop where
  onion : ∀ x ∈ acc.1, Q x ∧ x.isTor = true
  elems : ∀ kl ∈ acc.2, ∀ x ∈ kl.2, (Q x ∧ x.isTor = false) ∧ x.bucket = kl.1
  nodup : (acc.2.map (·.1)).Nodup

theorem splitStep_ok (Q : PeerV → Prop) (acc : List PeerV × List (String × List PeerV)) (p : PeerV)
    (hQ : Q p) (h : SplitOK Q acc) : SplitOK Q (splitStep acc p) := by
  unfold splitStep
  split
  · rename_i ht
    refine ⟨fun x hx => ?_, h.elems, h.nodup⟩
    simp only [List.mem_append, List.mem_singleton] at hx
    rcases hx with hx | rfl
    · exact h.onion x hx
    · exact ⟨hQ, ht⟩
  · rename_i ht
    refine ⟨h.onion, ?_, keys_bucketAdd_nodup _ _ h.nodup⟩
    exact bucketAdd_elem (fun x => Q x ∧ x.isTor = false) acc.2 p ⟨hQ, by simpa using ht⟩ h.elems

theorem foldl_splitStep_ok (Q : PeerV → Prop) (l : List PeerV)
    (acc : List PeerV × List (String × List PeerV)) (hl : ∀ p ∈ l, Q p) (h : SplitOK Q acc) :
    SplitOK Q (l.foldl splitStep acc) := by
  induction l generalizing acc with
  | nil => exact h
  | cons a l ih =>
    simp only [List.foldl_cons]
    exact ih _ (fun p hp => hl p (by simp [hp])) (splitStep_ok Q acc a (hl a (by simp)) h)

theorem split_ok (recent : List PeerV) : SplitOK (· ∈ recent) (split recent) :=
  foldl_splitStep_ok _ recent _ (fun _ hp => hp)
    ⟨fun _ hx => by simp at hx, fun _ hkl => by simp at hkl, by simp⟩

/-! ### the bucket picks -/

theorem mem_pickBuckets {shuf : Nat → List PeerV → List PeerV}
    (hsub : ∀ i l x, x ∈ shuf i l → x ∈ l)
    (bs : List (String × List PeerV)) (i : Nat) (s : List PeerV) (x : PeerV)
    (h : x ∈ pickBuckets shuf i bs s) : x ∈ s ∨ ∃ kl ∈ bs, x ∈ kl.2 := by
  induction bs generalizing i s with
  | nil => exact Or.inl h
  | cons e rest ih =>
    obtain ⟨k, l⟩ := e
    simp only [pickBuckets] at h
    rcases ih _ _ h with h1 | ⟨kl, hkl, hx⟩
    · rcases mem_setUpdate h1 with h2 | h2
      · exact Or.inl h2
      · exact Or.inr ⟨(k, l), by simp, hsub i l x (List.mem_of_mem_take h2)⟩
    · exact Or.inr ⟨kl, by simp [hkl], hx⟩

/-- **Parametric bucket lemma**: if only the bucket with key `b` can contain peers satisfying `q`,
the bucket loop adds at most `cap` of them (`cap` = the slice length `Gen.bucketCap`). -/
theorem countP_pickBuckets_le {shuf : Nat → List PeerV → List PeerV}
    (hsub : ∀ i l x, x ∈ shuf i l → x ∈ l) (q : PeerV → Bool) (b : String)
    (bs : List (String × List PeerV)) (i : Nat) (s : List PeerV)
    (hnd : (bs.map (·.1)).Nodup)
    (hq : ∀ kl ∈ bs, ∀ x ∈ kl.2, q x = true → kl.1 = b) :
    (pickBuckets shuf i bs s).countP q ≤
      s.countP q + (if b ∈ bs.map (·.1) then EV.Gen.bucketCap else 0) := by
  induction bs generalizing i s with
  | nil => simp [pickBuckets]
  | cons e rest ih =>
    obtain ⟨k, l⟩ := e
    simp only [List.map_cons, List.nodup_cons] at hnd
    simp only [pickBuckets]
    have h1 := ih (i + 1) (setUpdate s ((shuf i l).take EV.Gen.bucketCap)) hnd.2
      (fun kl hkl => hq kl (by simp [hkl]))
    have h2 := countP_setUpdate_le q ((shuf i l).take EV.Gen.bucketCap) s
    by_cases hk : k = b
    · subst hk
      have h3 : ((shuf i l).take EV.Gen.bucketCap).countP q ≤ EV.Gen.bucketCap :=
        Nat.le_trans (List.countP_le_length) (by simp [List.length_take]; omega)
      have h4 : (if k ∈ rest.map (·.1) then EV.Gen.bucketCap else 0) = 0 := by
        rw [if_neg hnd.1]
      simp only [List.map_cons, List.mem_cons, true_or, if_true]
      omega
    · have h3 : ((shuf i l).take EV.Gen.bucketCap).countP q = 0 := by
        apply countP_eq_zero_of
        intro x hx
        have hx' := hsub i l x (List.mem_of_mem_take hx)
        cases hqx : q x with
        | false => rfl
        | true => exact absurd (hq (k, l) (by simp) x hx' hqx) hk
      have h4 : (b ∈ (k :: rest.map (·.1))) ↔ b ∈ rest.map (·.1) := by
        simp only [List.mem_cons]
        constructor
        · rintro (h | h)
          · exact absurd h.symm hk
          · exact h
        · exact Or.inr
      simp only [List.map_cons, h4]
      omega

theorem pickBuckets_nodup (shuf : Nat → List PeerV → List PeerV)
    (bs : List (String × List PeerV)) (i : Nat) {s : List PeerV} (h : (s.map (·.id)).Nodup) :
    ((pickBuckets shuf i bs s).map (·.id)).Nodup := by
  induction bs generalizing i s with
  | nil => exact h
  | cons e rest ih =>
    obtain ⟨k, l⟩ := e
    exact ih (i + 1) (setUpdate_nodup _ h)

/-- the answer is a set of identities: no object is returned twice (any `shuf`) -/
theorem answer_nodup (now : Int) (peers myselves : List PeerV) (isTor : Bool)
    (shuf : Nat → List PeerV → List PeerV) :
    ((onPeersSubscribe now peers myselves isTor shuf).map (·.id)).Nodup :=
  setUpdate_nodup _ (pickBuckets_nodup shuf _ 0 (setUpdate_nodup _ (by simp)))

/-! ### the clearnet part and the onion picks -/

theorem mem_clearPart {now : Int} {peers myselves : List PeerV}
    {shuf : Nat → List PeerV → List PeerV} (hsub : ∀ i l x, x ∈ shuf i l → x ∈ l) {x : PeerV}
    (h : x ∈ clearPart now peers myselves shuf) :
    x ∈ initSet now myselves ∨ (x ∈ recentGood now peers ∧ x.isTor = false) := by
  rcases mem_pickBuckets hsub _ _ _ _ h with h | ⟨kl, hkl, hx⟩
  · exact Or.inl h
  · exact Or.inr ((split_ok (recentGood now peers)).elems kl hkl x hx).1

theorem mem_onionPicks {now : Int} {peers myselves : List PeerV} {isTor : Bool}
    {shuf : Nat → List PeerV → List PeerV} (hsub : ∀ i l x, x ∈ shuf i l → x ∈ l) {x : PeerV}
    (h : x ∈ onionPicks now peers myselves isTor shuf) :
    x ∈ recentGood now peers ∧ x.isTor = true :=
  (split_ok (recentGood now peers)).onion x (hsub _ _ x (List.mem_of_mem_take h))

theorem length_onionPicks_le (now : Int) (peers myselves : List PeerV) (isTor : Bool)
    (shuf : Nat → List PeerV → List PeerV) :
    (onionPicks now peers myselves isTor shuf).length ≤
      maxOnion isTor (clearPart now peers myselves shuf).length := by
  simp only [onionPicks, List.length_take]; omega

/-- **Parametric bucket bound** (any value of the slice length `Gen.bucketCap`). -/
theorem bucket_le_cap (now : Int) (peers myselves : List PeerV) (isTor : Bool)
    (shuf : Nat → List PeerV → List PeerV) (hsub : ∀ i l x, x ∈ shuf i l → x ∈ l) (b : String) :
    (onPeersSubscribe now peers myselves isTor shuf).countP
      (fun r => !r.isTor && decide (r.bucket = b) && !isMyself myselves r) ≤ EV.Gen.bucketCap := by
  have h1 := countP_setUpdate_le (fun r => !r.isTor && decide (r.bucket = b) && !isMyself myselves r)
    (onionPicks now peers myselves isTor shuf) (clearPart now peers myselves shuf)
  have h2 : (onionPicks now peers myselves isTor shuf).countP
      (fun r => !r.isTor && decide (r.bucket = b) && !isMyself myselves r) = 0 := by
    apply countP_eq_zero_of
    intro x hx
    simp [(mem_onionPicks hsub hx).2]
  have ok := split_ok (recentGood now peers)
  have h3 := countP_pickBuckets_le hsub
    (fun r => !r.isTor && decide (r.bucket = b) && !isMyself myselves r) b
    (split (recentGood now peers)).2 0 (initSet now myselves) ok.nodup
    (fun kl hkl x hx hq => by
      have := (ok.elems kl hkl x hx).2
      simp only [Bool.and_eq_true, decide_eq_true_eq] at hq
      rw [← this]; exact hq.1.2)
  have h4 : (initSet now myselves).countP
      (fun r => !r.isTor && decide (r.bucket = b) && !isMyself myselves r) = 0 := by
    apply countP_eq_zero_of
    intro x hx
    simp [isMyself_of_mem (mem_initSet hx).1]
  have h5 : (if b ∈ (split (recentGood now peers)).2.map (·.1) then EV.Gen.bucketCap else 0)
      ≤ EV.Gen.bucketCap := by split <;> omega
  simp only [onPeersSubscribe]
  simp only [clearPart] at h1 ⊢
  omega

/-- **Parametric onion bound.** -/
theorem onion_le_max (now : Int) (peers myselves : List PeerV) (isTor : Bool)
    (shuf : Nat → List PeerV → List PeerV) (hsub : ∀ i l x, x ∈ shuf i l → x ∈ l) :
    (onPeersSubscribe now peers myselves isTor shuf).countP
      (fun r => r.isTor && !isMyself myselves r) ≤
      maxOnion isTor (clearPart now peers myselves shuf).length := by
  have h1 := countP_setUpdate_le (fun r => r.isTor && !isMyself myselves r)
    (onionPicks now peers myselves isTor shuf) (clearPart now peers myselves shuf)
  have h2 : (clearPart now peers myselves shuf).countP
      (fun r => r.isTor && !isMyself myselves r) = 0 := by
    apply countP_eq_zero_of
    intro x hx
    rcases mem_clearPart hsub hx with h | h
    · simp [isMyself_of_mem (mem_initSet h).1]
    · simp [h.2]
  have h3 : (onionPicks now peers myselves isTor shuf).countP
      (fun r => r.isTor && !isMyself myselves r) ≤ _ :=
    Nat.le_trans List.countP_le_length (length_onionPicks_le now peers myselves isTor shuf)
  simp only [onPeersSubscribe]
  omega

end EV.Peers

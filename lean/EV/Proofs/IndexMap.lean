import EV.Proofs.IndexLogic

/-! The plain map instance of the representation interface (`mapOps`, `Rep`). -/
namespace EV.Index
open EV.Spec

abbrev AMap := List ((Hash × Nat) × CacheVal)

/-- the UTXO-store interface implemented by a plain map: spend = lookup + erase, add = insert -/
def mapOps : UOps AMap where
  spend := fun m txid idx =>
    match alookup (txid, idx) m with
    | some cv => .ok (cv, aerase (txid, idx) m)
    | none => .error .chainError
  add := fun m txid idx cv => ainsert (txid, idx) cv m

theorem mapOps_spend_some {m : AMap} {t : Hash} {i : Nat} {cv : CacheVal}
    (h : alookup (t, i) m = some cv) : mapOps.spend m t i = .ok (cv, aerase (t, i) m) := by
  simp [mapOps, h]

theorem mapOps_spend_none {m : AMap} {t : Hash} {i : Nat}
    (h : alookup (t, i) m = none) : mapOps.spend m t i = .error .chainError := by
  simp [mapOps, h]

theorem mapOps_add (m : AMap) (t : Hash) (i : Nat) (cv : CacheVal) :
    mapOps.add m t i cv = ainsert (t, i) cv m := rfl

/-- the map `M` represents the UTXO list `U` -/
structure Rep (M : AMap) (U : List Utxo) : Prop where
  nodup : (U.map opOf).Nodup
  look : ∀ op, alookup op M = (U.find? (fun u => decide (opOf u = op))).map cvOf

theorem rep_erase {M : AMap} {U : List Utxo} (h : Rep M U) (op : Hash × Nat) :
    Rep (aerase op M) (U.filter (fun u => !decide (opOf u = op))) := by
  refine ⟨?_, ?_⟩
  · exact List.Nodup.sublist (List.Sublist.map _ List.filter_sublist) h.nodup
  · intro op'
    rw [alookup_aerase, find?_filter_ne, h.look]
    by_cases hh : op = op' <;> simp [hh]

theorem rep_insert {M : AMap} {U : List Utxo} (h : Rep M U) (u : Utxo)
    (hfresh : ∀ x ∈ U, opOf x ≠ opOf u) :
    Rep (ainsert (opOf u) (cvOf u) M) (U ++ [u]) := by
  refine ⟨?_, ?_⟩
  · rw [List.map_append, List.nodup_append]
    refine ⟨h.nodup, by simp, ?_⟩
    intro a ha b hb
    simp only [List.map_cons, List.map_nil, List.mem_singleton] at hb
    obtain ⟨x, hx, rfl⟩ := List.mem_map.mp ha
    rw [hb]; exact hfresh x hx
  · intro op
    rw [alookup_ainsert, List.find?_append, h.look]
    by_cases hop : opOf u = op
    · have : U.find? (fun x => decide (opOf x = op)) = none := by
        apply List.find?_eq_none.mpr
        intro x hx
        simp only [decide_eq_true_eq]
        intro heq; exact hfresh x hx (heq.trans hop.symm)
      simp [hop, this]
    · simp [hop]


theorem find?_map_eq_of_perm {U U' : List Utxo} (hn : (U.map opOf).Nodup) (hp : U.Perm U')
    (op : Hash × Nat) :
    (U.find? (fun u => decide (opOf u = op))).map cvOf =
      (U'.find? (fun u => decide (opOf u = op))).map cvOf := by
  have hn' : (U'.map opOf).Nodup := (hp.map opOf).nodup_iff.mp hn
  by_cases hex : ∃ u ∈ U, opOf u = op
  · obtain ⟨u, hu, rfl⟩ := hex
    rw [find?_of_mem_nodup hn hu, find?_of_mem_nodup hn' (hp.mem_iff.mp hu)]
  · have h1 : U.find? (fun u => decide (opOf u = op)) = none := by
      apply List.find?_eq_none.mpr
      intro x hx; simp only [decide_eq_true_eq]; intro h; exact hex ⟨x, hx, h⟩
    have h2 : U'.find? (fun u => decide (opOf u = op)) = none := by
      apply List.find?_eq_none.mpr
      intro x hx; simp only [decide_eq_true_eq]; intro h; exact hex ⟨x, hp.mem_iff.mpr hx, h⟩
    rw [h1, h2]

theorem rep_perm {M : AMap} {U U' : List Utxo} (h : Rep M U) (hp : U.Perm U') : Rep M U' :=
  ⟨(hp.map opOf).nodup_iff.mp h.nodup,
   fun op => (h.look op).trans (find?_map_eq_of_perm h.nodup hp op)⟩

theorem rep_mapEq {M M' : AMap} {U : List Utxo} (h : Rep M U) (h' : Rep M' U) : MapEq M M' :=
  fun op => (h.look op).trans (h'.look op).symm

theorem mapIface : RepIface mapOps Rep where
  nodup := fun h => h.nodup
  perm := fun h hp => rep_perm h hp
  spend := by
    intro s U u h hu
    refine ⟨aerase (u.txid, u.idx) s, ?_, rep_erase h (opOf u)⟩
    apply mapOps_spend_some
    have := h.look (opOf u)
    rw [find?_of_mem_nodup h.nodup hu] at this
    exact this
  add := by
    intro s U u h hf
    exact rep_insert h u hf

end EV.Index

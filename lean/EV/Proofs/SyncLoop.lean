import EV.Model.SyncLoop
import EV.Proofs.IndexRun

/-! Told-then-visible: helper lemmas (property statements are in `EV/Props/C01sync.lean`). -/
namespace EV.SyncLoop
open EV.Index

/-- every advanced block is a valid next block of the chain built so far -/
def ValidEvs (cfg : Cfg) : List Block → List Ev → Prop
  | _, [] => True
  | chain, .block b _ _ :: r => ValidNext cfg chain b ∧ ValidEvs cfg (chain ++ [b]) r
  | chain, .caughtUp :: r => ValidEvs cfg chain r

theorem fullInv_clearFirstSync {cfg : Cfg} {chain : List Block} {s : Sys} (inv : FullInv cfg chain s) :
    FullInv cfg chain (clearFirstSync s) := by
  obtain ⟨⟨D, Del, w⟩, hist, files, tip, dbTip, utxoCount, flushedU, flushedH, ustate⟩ := inv
  obtain ⟨f1, f2, f3, f4, f5, f6, f7, f8, f9, f10, f11⟩ := files
  refine ⟨⟨D, Del, repSysW_congr w rfl rfl rfl rfl (fun u hu => w.res u hu)⟩, hist,
    ⟨f1, f2, f3, f4, f5, f6, f7, f8, f9, f10, f11⟩, tip, dbTip, utxoCount, flushedU, flushedH, ustate⟩

/-- what holds of a told point -/
def ToldOK (cfg : Cfg) (all : List Block) (t : Int × Sys) : Prop :=
  ∃ chain, chain <+: all ∧ FullInv cfg chain t.2 ∧ Flushed t.2 ∧ t.1 = (chain.length : Int) - 1

theorem run_inv {cfg : Cfg} (evs : List Ev) {chain : List Block} {l : Loop}
    (inv : FullInv cfg chain l.s) (hv : ValidEvs cfg chain evs) :
    ∃ l' ts, run cfg l evs = .ok (l', ts) ∧ FullInv cfg (chain ++ blocksOf evs) l'.s ∧
      ∀ t ∈ ts, ∃ c, chain <+: c ∧ c <+: chain ++ blocksOf evs ∧ FullInv cfg c t.2 ∧ Flushed t.2 ∧
        t.1 = (c.length : Int) - 1 := by
  induction evs generalizing chain l with
  | nil => exact ⟨l, [], rfl, by simpa [blocksOf] using inv, by simp⟩
  | cons e r ih =>
    cases e with
    | block b d arg =>
      obtain ⟨hb, hr⟩ := hv
      obtain ⟨s1, h1, inv1⟩ := fullInv_advance (daemonH := d) inv hb
      cases arg with
      | none =>
        obtain ⟨l', ts, h2, inv2, ht⟩ := ih (l := { l with s := s1 }) inv1 hr
        refine ⟨l', ts, by simp only [run, step, h1, h2, List.nil_append], ?_, ?_⟩
        · simpa [blocksOf, List.append_assoc] using inv2
        · intro t htm
          obtain ⟨c, hc1, hc2, rest⟩ := ht t htm
          refine ⟨c, (List.prefix_append chain [b]).trans hc1, ?_, rest⟩
          simpa [blocksOf, List.append_assoc] using hc2
      | some a =>
        obtain ⟨s2, h2, inv2⟩ := fullInv_flush inv1 a
        obtain ⟨l', ts, h3, inv3, ht⟩ := ih (l := { l with s := s2 }) inv2 hr
        refine ⟨l', ts, by simp only [run, step, h1, h2, h3, List.nil_append], ?_, ?_⟩
        · simpa [blocksOf, List.append_assoc] using inv3
        · intro t htm
          obtain ⟨c, hc1, hc2, rest⟩ := ht t htm
          refine ⟨c, (List.prefix_append chain [b]).trans hc1, ?_, rest⟩
          simpa [blocksOf, List.append_assoc] using hc2
    | caughtUp =>
      have inv0 := fullInv_clearFirstSync inv
      obtain ⟨s1, h1, inv1⟩ := fullInv_flush inv0 true
      have hfl : Flushed s1 := flush_full_flushed inv0 h1
      by_cases hc : l.caughtUp = true
      · obtain ⟨l', ts, h2, inv2, ht⟩ := ih (l := { s := s1, caughtUp := true }) inv1 hv
        refine ⟨l', (s1.m.st.height, s1) :: ts, ?_, by simpa [blocksOf] using inv2, ?_⟩
        · simp only [run, step, h1, hc, if_true, h2, List.singleton_append]
        · intro t htm
          rcases List.mem_cons.mp htm with rfl | htm
          · refine ⟨chain, List.prefix_refl _, List.prefix_append _ _, inv1, hfl, ?_⟩
            exact inv1.files.height
          · obtain ⟨c, hc1, hc2, rest⟩ := ht t htm
            exact ⟨c, hc1, by simpa [blocksOf] using hc2, rest⟩
      · obtain ⟨l', ts, h2, inv2, ht⟩ := ih (l := { s := s1, caughtUp := true }) inv1 hv
        refine ⟨l', ts, ?_, by simpa [blocksOf] using inv2, ?_⟩
        · have hc' : l.caughtUp = false := by simpa using hc
          simp [run, step, h1, hc', h2]
        · intro t htm
          obtain ⟨c, hc1, hc2, rest⟩ := ht t htm
          exact ⟨c, hc1, by simpa [blocksOf] using hc2, rest⟩

end EV.SyncLoop

import EV.Proofs.CrashObs
import EV.Proofs.IndexRunReorg

/-!
# Crash layer, part 7: resuming after a crash before the UTXO commit (C04, second half)

A crash before the UTXO batch of a flush leaves a store that restarts to the same committed index
as the store the flush started from (`RecoversSame`), but the two restarted stores are not equal:
the three meta files may hold torn data beyond the committed lengths.  `ResEq a b` says that `b`
is `a` up to exactly that: same memory, same tables, same state records (the history state record
up to its flush count), and files that agree on the first `fs_height + 1` headers / counts and the
first `fs_tx_count` hashes.

* `resEq_of_recoversSame` — the two restarts are `ResEq`;
* `resEq_step` — every run operation (`advance`, `flush` of either kind, `backup`, restart) keeps
  `ResEq`, with the same error if it fails: nothing reads a file beyond the committed lengths, and
  `flush_fs` writes at the offsets `fs_height + 1` / `prior_tx_count`, so the torn tail is overwritten
  or stays out of reach;
* `resEq_run` — hence whole runs;
* `obsEq_of_resEq`, `ResEq.undoRows`, `ResEq.flushDbs` — same read-path answers, same undo rows, same
  flush effect lists;
* `CompIdle` — no compaction in progress is a unary invariant of runs and restarts, so the persisted
  history state records are equal as a whole (`hstate_eq_of_compIdle`);
* `TailEq`, `tailEq_of_cut`, `tailEq_step`, `storeEqv_of_tail` — the files also agree from the tip of
  the interrupted flush on; once the file pointers pass it the stores are equal outright;
* `stEq_cut`, `resEq_recover_of_stEq`, `ResEq.trans` — the same cut of the same flush on two `ResEq`
  stores restarts to `ResEq` states (for any number of crashes, `EV/Props/C04resume.lean`).

Core only (no Mathlib).
-/
namespace EV.Index
open EV.Spec

/-! ### file writes at the same offset -/

/-- a write at offset `off` determines the first `off + data.length` records from the first `off` -/
theorem take_fileWrite_add {α : Type} (f : List α) (off : Nat) (d : List α) :
    (fileWrite f off d).take (off + d.length) = f.take off ++ d := by
  unfold fileWrite
  by_cases h : off ≤ f.length
  · exact List.take_left' (by simp [List.length_take, Nat.min_eq_left h])
  · have h1 : f.take off = f := List.take_of_length_le (by omega)
    have h2 : f.drop (off + d.length) = [] := List.drop_of_length_le (by omega)
    rw [h1, h2, List.append_nil]
    exact List.take_of_length_le (by simp; omega)

/-- two files that agree below the write offset agree, after the same write, up to its end -/
theorem fileWrite_take_congr {α : Type} {a b : List α} {off N : Nat} (d : List α)
    (h : b.take off = a.take off) (hN : N ≤ off + d.length) :
    (fileWrite b off d).take N = (fileWrite a off d).take N := by
  apply take_of_take_eq _ hN
  rw [take_fileWrite_add, take_fileWrite_add, h]

/-! ### the relation -/

/-- `q` is `p` up to file contents beyond the first `Nh` headers / `Nc` counts / `Nx` hashes (and
    the compaction fields of the history state record, which nothing in a sync reads) -/
structure StEq (Nh Nc Nx : Nat) (p q : Store) : Prop where
  h : q.h = p.h
  u : q.u = p.u
  undo : q.undo = p.undo
  ustate : q.ustate = p.ustate
  hist : q.hist = p.hist
  hfc : (q.hstate.getD {}).flushCount = (p.hstate.getD {}).flushCount
  headers : q.headers.take Nh = p.headers.take Nh
  txcounts : q.txcounts.take Nc = p.txcounts.take Nc
  hashes : q.hashes.take Nx = p.hashes.take Nx

theorem StEq.refl (Nh Nc Nx : Nat) (p : Store) : StEq Nh Nc Nx p p :=
  ⟨rfl, rfl, rfl, rfl, rfl, rfl, rfl, rfl, rfl⟩

theorem StEq.mono {Nh Nc Nx Nh' Nc' Nx' : Nat} {p q : Store} (e : StEq Nh Nc Nx p q)
    (h1 : Nh' ≤ Nh) (h2 : Nc' ≤ Nc) (h3 : Nx' ≤ Nx) : StEq Nh' Nc' Nx' p q :=
  ⟨e.h, e.u, e.undo, e.ustate, e.hist, e.hfc, take_of_take_eq e.headers h1,
    take_of_take_eq e.txcounts h2, take_of_take_eq e.hashes h3⟩

/-- `b` is `a` up to file contents beyond the committed lengths: same memory, and the stores agree
    on all tables, the state records and the first `fs_height + 1` headers / counts and
    `fs_tx_count` hashes — wherever a read or a later write-at-offset can depend on them -/
structure ResEq (a b : Sys) : Prop where
  m : b.m = a.m
  st : StEq (a.m.fsHeight + 1).toNat (a.m.fsHeight + 1).toNat a.m.fsTxCount a.p b.p

theorem ResEq.refl (a : Sys) : ResEq a a := ⟨rfl, StEq.refl _ _ _ _⟩

theorem ResEq.h {a b : Sys} (R : ResEq a b) : b.p.h = a.p.h := R.st.h
theorem ResEq.u {a b : Sys} (R : ResEq a b) : b.p.u = a.p.u := R.st.u
theorem ResEq.undo {a b : Sys} (R : ResEq a b) : b.p.undo = a.p.undo := R.st.undo
theorem ResEq.ustate {a b : Sys} (R : ResEq a b) : b.p.ustate = a.p.ustate := R.st.ustate
theorem ResEq.hist {a b : Sys} (R : ResEq a b) : b.p.hist = a.p.hist := R.st.hist
theorem ResEq.hfc {a b : Sys} (R : ResEq a b) :
    (b.p.hstate.getD {}).flushCount = (a.p.hstate.getD {}).flushCount := R.st.hfc
theorem ResEq.headers {a b : Sys} (R : ResEq a b) :
    b.p.headers.take (a.m.fsHeight + 1).toNat = a.p.headers.take (a.m.fsHeight + 1).toNat :=
  R.st.headers
theorem ResEq.txcounts {a b : Sys} (R : ResEq a b) :
    b.p.txcounts.take (a.m.fsHeight + 1).toNat = a.p.txcounts.take (a.m.fsHeight + 1).toNat :=
  R.st.txcounts
theorem ResEq.hashes {a b : Sys} (R : ResEq a b) :
    b.p.hashes.take a.m.fsTxCount = a.p.hashes.take a.m.fsTxCount := R.st.hashes

/-- results of a step: both fail with the same error, or both succeed with related states -/
def ResEqE : Except Err Sys → Except Err Sys → Prop
  | .ok a, .ok b => ResEq a b
  | .error e, .error e' => e' = e
  | _, _ => False

/-- `read_undo_info` agrees for every height -/
theorem ResEq.undoRows {a b : Sys} (R : ResEq a b) (h : Nat) :
    alookup h b.p.undo = alookup h a.p.undo ∧ undoLookup b h = undoLookup a h := by
  refine ⟨by rw [R.undo], ?_⟩
  simp only [undoLookup, R.m, R.undo]

/-! ### the two restarts -/

/-- **The restart after a cut before the UTXO batch is the restart on the uncut store, up to the
file tails.**  (strengthens `obsEq_of_recoversSame`) -/
theorem resEq_of_recoversSame {cfg : Cfg} {p q : Store} (R : RecoversSame cfg p q)
    {e0 : List Effect} {r0 : Sys} (h0 : recover cfg p = some (e0, r0)) :
    ∃ e r, recover cfg q = some (e, r) ∧ ResEq r0 r := by
  unfold recover openDbs at h0
  split at h0
  · simp at h0
  · next l hl =>
    simp only [Option.some.injEq, Prod.mk.injEq] at h0
    obtain ⟨_, rfl⟩ := h0
    have hq : openTxCounts (openStore cfg q) (openState q false).1 none = some l := by rw [R.txc, hl]
    refine ⟨_, _, by simp only [recover, openDbs, hq]; rfl, ?_⟩
    have hheight : (openState p false).1.height = (p.ustate.getD {}).height := openState_height p false
    have htx : (openState p false).1.txCount = (p.ustate.getD {}).txCount := by simp [openState]
    refine ⟨?_, R.h, R.u, R.undo, R.ustate, R.hist, R.hfc, ?_, ?_, ?_⟩
    · simp only [R.state]
    · simp only [hheight]; exact R.headers
    · simp only [hheight]; exact R.txcounts
    · simp only [htx]; exact R.hashes

/-! ### the read path -/

/-- a committed tx number lies below `fs_tx_count` -/
theorem lt_fsTxCount_of_bisect {chain : List Block} {a : Sys} (f : FilesInv chain a) {n : Nat}
    (h : ¬ (bisectRight a.m.txCounts n : Int) > a.m.dbst.height) : n < a.m.fsTxCount := by
  have hK := f.dbK
  have hord := f.order
  have hb : bisectRight (cumCounts chain) n < (a.m.dbst.height + 1).toNat := by
    rw [← f.txCounts]; omega
  have hlt := lt_of_bisect_lt chain hK hb
  have := allTxids_take_mono chain (j := (a.m.dbst.height + 1).toNat)
    (k := (a.m.fsHeight + 1).toNat) (by omega)
  rw [f.fsTx]
  omega

theorem fsTxHash_of_resEq {chain : List Block} {a b : Sys} (f : FilesInv chain a) (R : ResEq a b)
    (n : Nat) : fsTxHash b n = fsTxHash a n := by
  simp only [fsTxHash, R.m]
  split
  · rfl
  · next hgt => rw [getElem?_eq_of_take_eq R.hashes (lt_fsTxCount_of_bisect f hgt)]

/-- **Same answers.**  In every state of the reference run (files invariant `FilesInv`), a `ResEq`
state answers every read-path query alike. -/
theorem obsEq_of_resEq {chain : List Block} {a b : Sys} (f : FilesInv chain a) (R : ResEq a b) :
    ObsEq a b := by
  have hfun : fsTxHash b = fsTxHash a := funext (fsTxHash_of_resEq f R)
  have hord := f.order
  refine ⟨by rw [R.m], fsTxHash_of_resEq f R, ?_, ?_, ?_, ?_, ?_⟩
  · intro hx
    simp only [allUtxos, R.u, hfun]
  · intro hx limit
    simp only [limitedHistory, getTxnums, R.hist, hfun]
  · intro txid idx
    simp only [lookupUtxo, R.h, R.u, hfun]
  · intro height
    simp only [txHashesAt, R.m]
    split
    · rfl
    · next hgt =>
      congr 1
      by_cases hle : (if height > 0 then a.m.txCounts.getD (height - 1) 0 else 0) ≤ a.m.txCounts.getD height 0
      · apply take_drop_eq_of_take_eq R.hashes
        have hK := f.fsK
        have h1 : a.m.txCounts.getD height 0 = (allTxids (chain.take (height + 1))).length := by
          rw [f.txCounts]; exact cumCounts_getD chain (by omega)
        have := allTxids_take_mono chain (j := height + 1) (k := (a.m.fsHeight + 1).toNat) (by omega)
        rw [f.fsTx]
        omega
      · have : a.m.txCounts.getD height 0 - (if height > 0 then a.m.txCounts.getD (height - 1) 0 else 0) = 0 := by
          omega
        rw [this, List.take_zero, List.take_zero]
  · intro start count
    simp only [readHeaders, R.m]
    by_cases hpos : 0 < min (count : Int) (a.m.dbst.height + 1 - start)
    · apply take_drop_eq_of_take_eq R.headers
      omega
    · have : (min (count : Int) (a.m.dbst.height + 1 - start)).toNat = 0 := by omega
      rw [this, List.take_zero, List.take_zero]

/-! ### `advance_block`: the loops run in lock step on another store with the same UTXO view -/

/-- the same memory over another persistent store -/
def swp (q : Store) (s : Sys) : Sys := { m := s.m, p := q }

def swpA (q : Store) (a : Acc Sys) : Acc Sys := { a with s := swp q a.s }

/-- `q` shows `spend_utxo` what `s.p` shows it: the `h`/`u` rows and every `fs_tx_hash` -/
structure Agree (q : Store) (s : Sys) : Prop where
  h : q.h = s.p.h
  u : q.u = s.p.u
  fs : ∀ n, fsTxHash (swp q s) n = fsTxHash s n

theorem Agree.same {q : Store} {s s' : Sys} (h : Agree q s) (hs : SameBut s s') : Agree q s' := by
  obtain ⟨c, d, rfl⟩ := hs
  exact ⟨h.h, h.u, h.fs⟩

theorem spendFromDb_swp {q : Store} {s : Sys} (h : Agree q s) (txid : Hash) (idx nc : Nat)
    (rows : List (HKey × HashX)) :
    spendFromDb (swp q s) txid idx nc rows = spendFromDb s txid idx nc rows := by
  induction rows with
  | nil => rfl
  | cons r rest ih =>
    obtain ⟨hk, hx⟩ := r
    simp only [spendFromDb, h.fs, ih]
    simp only [swp, h.u]

theorem spendUtxo_swp {q : Store} {s : Sys} (h : Agree q s) (txid : Hash) (idx : Nat) :
    spendUtxo (swp q s) txid idx =
      match spendUtxo s txid idx with
      | .ok (cv, s') => .ok (cv, swp q s')
      | .error e => .error e := by
  unfold spendUtxo
  rw [spendFromDb_swp h]
  simp only [swp, h.h]
  split
  · rfl
  · split <;> rfl

theorem spendInputs_swp (q : Store) (ins : List TxIn) :
    ∀ (a : Acc Sys) (hxs : List HashX), Agree q a.s →
      spendInputs sysOps ins (swpA q a) hxs =
        match spendInputs sysOps ins a hxs with
        | .ok (a', hxs') => .ok (swpA q a', hxs')
        | .error e => .error e := by
  induction ins with
  | nil => intro a hxs _; rfl
  | cons i rest ih =>
    intro a hxs h
    by_cases hg : i.isGen = true
    · simp only [spendInputs, hg, if_true]
      exact ih a hxs h
    · simp only [spendInputs, hg, if_false, Bool.false_eq_true]
      have hsp : sysOps.spend (swpA q a).s i.prev i.idx =
          match sysOps.spend a.s i.prev i.idx with
          | .ok (cv, s') => .ok (cv, swp q s')
          | .error e => .error e := spendUtxo_swp h i.prev i.idx
      rw [hsp]
      cases hs : sysOps.spend a.s i.prev i.idx with
      | error e => rfl
      | ok r =>
        obtain ⟨cv, s'⟩ := r
        exact ih { a with s := s', undo := a.undo ++ [cv], delta := a.delta - 1 } (hxs ++ [cv.hx])
          (h.same (spendUtxo_same (s := a.s) hs))

theorem addOutputs_swp (q : Store) (cfg : Cfg) (height : Nat) (txid : Hash) (txNum : Nat)
    (outs : List TxOut) :
    ∀ (idx : Nat) (a : Acc Sys) (hxs : List HashX),
      addOutputs sysOps cfg height txid txNum outs idx (swpA q a) hxs =
        (swpA q (addOutputs sysOps cfg height txid txNum outs idx a hxs).1,
         (addOutputs sysOps cfg height txid txNum outs idx a hxs).2) := by
  induction outs with
  | nil => intro idx a hxs; rfl
  | cons o rest ih =>
    intro idx a hxs
    by_cases hu : unspendable cfg.act height o.kind = true
    · simp only [addOutputs, hu, if_true]
      exact ih (idx + 1) a hxs
    · simp only [addOutputs, hu, if_false, Bool.false_eq_true]
      exact ih (idx + 1)
        { a with s := sysOps.add a.s txid idx ⟨o.hx, txNum, o.value⟩, delta := a.delta + 1 }
        (hxs ++ [o.hx])

theorem advanceTxs_swp (q : Store) (cfg : Cfg) (height : Nat) (txs : List Tx) :
    ∀ (a : Acc Sys), Agree q a.s →
      advanceTxs sysOps cfg height txs (swpA q a) =
        match advanceTxs sysOps cfg height txs a with
        | .ok a' => .ok (swpA q a')
        | .error e => .error e := by
  induction txs with
  | nil => intro a _; rfl
  | cons tx rest ih =>
    intro a h
    simp only [advanceTxs]
    rw [spendInputs_swp q tx.ins a [] h]
    cases hs : spendInputs sysOps tx.ins a [] with
    | error e => rfl
    | ok r =>
      obtain ⟨a1, hxs1⟩ := r
      simp only
      rw [addOutputs_swp]
      have h1 := spendInputs_same _ _ _ hs
      have h2 := addOutputs_same cfg height tx.id a1.txNum tx.outs 0 a1 hxs1
      exact ih (finishTx (addOutputs sysOps cfg height tx.id a1.txNum tx.outs 0 a1 hxs1) tx.id)
        (h.same (h1.trans h2))

/-- **`advance_block` on the other store**: same error, or the same new memory -/
theorem advance_swp {q : Store} {s : Sys} (cfg : Cfg) (d : Int) (b : Block) (h : Agree q s) :
    advance cfg d (swp q s) b =
      match advance cfg d s b with
      | .ok s' => .ok (swp q s')
      | .error e => .error e := by
  have e := advanceTxs_swp q cfg (s.m.st.height + 1).toNat b.txs { s := s, txNum := s.m.st.txCount } h
  have e' : advanceTxs sysOps cfg ((swp q s).m.st.height + 1).toNat b.txs
      { s := swp q s, txNum := (swp q s).m.st.txCount } = _ := e
  unfold advance
  by_cases hp : b.prev ≠ s.m.st.tip
  · have hp' : b.prev ≠ (swp q s).m.st.tip := hp
    rw [if_pos hp, if_pos hp']
  · have hp' : ¬ b.prev ≠ (swp q s).m.st.tip := hp
    rw [if_neg hp, if_neg hp']
    simp only [e']
    cases advanceTxs sysOps cfg (s.m.st.height + 1).toNat b.txs { s := s, txNum := s.m.st.txCount } with
    | error e => rfl
    | ok a => rfl

theorem advance_keeps {cfg : Cfg} {d : Int} {s s' : Sys} {b : Block}
    (h : advance cfg d s b = .ok s') :
    s'.p = s.p ∧ s'.m.fsHeight = s.m.fsHeight ∧ s'.m.fsTxCount = s.m.fsTxCount := by
  unfold advance at h
  split at h
  · simp at h
  · dsimp only at h
    split at h
    · simp at h
    · next a ha =>
      obtain ⟨c, dd, hs⟩ := advanceTxs_same _ _ _ _ ha
      simp only [Except.ok.injEq] at h
      subst h
      simp only at hs
      simp [hs]

theorem ResEq.eq_swp {a b : Sys} (R : ResEq a b) : b = swp b.p a := by
  rw [swp, ← R.m]

theorem ResEq.agree {chain : List Block} {a b : Sys} (f : FilesInv chain a) (R : ResEq a b) :
    Agree b.p a :=
  ⟨R.h, R.u, fun n => by rw [← R.eq_swp]; exact fsTxHash_of_resEq f R n⟩

/-- **`advance_block` keeps `ResEq`** (any block, valid or not; same error if it fails) -/
theorem resEq_advance {chain : List Block} {a b : Sys} (f : FilesInv chain a) (R : ResEq a b)
    (cfg : Cfg) (d : Int) (blk : Block) :
    ResEqE (advance cfg d a blk) (advance cfg d b blk) := by
  rw [R.eq_swp, advance_swp cfg d blk (R.agree f)]
  cases hadv : advance cfg d a blk with
  | error e => exact rfl
  | ok a' =>
    obtain ⟨hp, hfh, hft⟩ := advance_keeps hadv
    show ResEq a' (swp b.p a')
    refine ⟨rfl, ?_⟩
    rw [hp, hfh, hft]
    exact R.st

/-! ### effects on two related stores -/

/-- a history batch (the state records written may differ in their compaction fields) -/
theorem StEq.histBatch {Nh Nc Nx : Nat} {p q : Store} (e : StEq Nh Nc Nx p q)
    (dels : List (HashX × Nat)) (puts : List ((HashX × Nat) × List Nat)) {st st' : HState}
    (hst : st'.flushCount = st.flushCount) :
    StEq Nh Nc Nx (applyEffect p (.histBatch dels puts st)) (applyEffect q (.histBatch dels puts st')) := by
  refine ⟨e.h, e.u, e.undo, e.ustate, ?_, hst, e.headers, e.txcounts, e.hashes⟩
  simp only [applyEffect, e.hist]

theorem StEq.utxoBatch {Nh Nc Nx : Nat} {p q : Store} (e : StEq Nh Nc Nx p q)
    (d : List DelKey) (hp : List (HKey × HashX)) (up : List (UKey × Nat)) (ud : List Nat)
    (upp : List (Nat × List CacheVal)) (st : Option CState) :
    StEq Nh Nc Nx (applyEffect p (.utxoBatch d hp up ud upp st))
      (applyEffect q (.utxoBatch d hp up ud upp st)) := by
  obtain ⟨hh, hu⟩ := utxoBatch_hu_congr q p e.h e.u d hp up ud upp st
  obtain ⟨p1, p2, p3, p4, p5, p6, p7⟩ := foldl_applyDelKey_rest d p
  obtain ⟨q1, q2, q3, q4, q5, q6, q7⟩ := foldl_applyDelKey_rest d q
  refine ⟨?_, ?_, ?_, ?_, ?_, ?_, ?_, ?_, ?_⟩
  · exact hh
  · exact hu
  · simp only [applyEffect, p1, q1, e.undo]
  · cases st with
    | some x => rfl
    | none => simp only [applyEffect, p2, q2, e.ustate]
  · simp only [applyEffect, p3, q3, e.hist]
  · simp only [applyEffect, p4, q4, e.hfc]
  · simp only [applyEffect, p5, q5, e.headers]
  · simp only [applyEffect, p6, q6, e.txcounts]
  · simp only [applyEffect, p7, q7, e.hashes]

theorem StEq.putUState {Nh Nc Nx : Nat} {p q : Store} (e : StEq Nh Nc Nx p q) (st : CState) :
    StEq Nh Nc Nx (applyEffect p (.putUState st)) (applyEffect q (.putUState st)) :=
  ⟨e.h, e.u, e.undo, rfl, e.hist, e.hfc, e.headers, e.txcounts, e.hashes⟩

/-- the three writes of `flush_fs`, at offsets not beyond the agreed lengths: the agreed lengths
    move to the ends of the writes -/
theorem StEq.flushFs {Nh Nc Nx : Nat} {p q : Store} (e : StEq Nh Nc Nx p q) (s : Sys)
    (h1 : (s.m.fsHeight + 1).toNat ≤ Nh) (h2 : (s.m.fsHeight + 1).toNat ≤ Nc) (h3 : priorTx s ≤ Nx)
    {Nh' Nc' Nx' : Nat} (k1 : Nh' ≤ (s.m.fsHeight + 1).toNat + s.m.headersU.length)
    (k2 : Nc' ≤ (s.m.fsHeight + 1).toNat + (s.m.txCounts.drop (s.m.fsHeight + 1).toNat).length)
    (k3 : Nx' ≤ priorTx s + s.m.txHashesU.flatten.length) :
    StEq Nh' Nc' Nx' (applyEffects p (flushFsEffects s)) (applyEffects q (flushFsEffects s)) := by
  refine ⟨e.h, e.u, e.undo, e.ustate, e.hist, e.hfc, ?_, ?_, ?_⟩
  · exact fileWrite_take_congr _ (take_of_take_eq e.headers h1) k1
  · exact fileWrite_take_congr _ (take_of_take_eq e.txcounts h2) k2
  · exact fileWrite_take_congr _ (take_of_take_eq e.hashes h3) k3

/-! ### `flush_dbs` -/

/-- the effect list of a flush is a function of the memory alone -/
theorem flushDbs_congr {a b : Sys} (hm : b.m = a.m) (fu : Bool) : flushDbs b fu = flushDbs a fu := by
  have : b = swp b.p a := by rw [swp, ← hm]
  rw [this]
  rfl

theorem flushFsAsserts_spec {s : Sys} (h : flushFsAsserts s = true) :
    s.m.st.height = s.m.fsHeight + s.m.headersU.length ∧
    (s.m.txCounts.length : Int) = s.m.st.height + 1 ∧
    (s.m.txHashesU.flatten.length : Int) = (s.m.st.txCount : Int) - (priorTx s : Int) := by
  simp only [flushFsAsserts, Bool.and_eq_true, beq_iff_eq] at h
  exact ⟨h.1.1.1.2, h.1.2, h.2⟩

/-- what `flush_dbs` returns: nothing to do, or the files-and-history part followed (full flush) by
    the UTXO batch and the state record; the file pointers move to the tip -/
theorem flushDbs_cases {s : Sys} {fu : Bool} {es : List Effect} {m' : Mem}
    (h : flushDbs s fu = some (es, m')) :
    (es = [] ∧ m' = s.m) ∨
    (flushFsAsserts s = true ∧ m'.fsHeight = s.m.st.height ∧ m'.fsTxCount = s.m.st.txCount ∧
      (es = flushHead s ∨
       es = flushHead s ++ [utxoBatchEffect s { s.m.st with flushCount := s.m.histFlush + 1 },
                            .putUState { s.m.st with flushCount := s.m.histFlush + 1 }])) := by
  unfold flushDbs at h
  split at h
  · split at h
    · simp only [Option.some.injEq, Prod.mk.injEq] at h
      exact Or.inl ⟨h.1.symm, h.2.symm⟩
    · simp at h
  · split at h
    · simp at h
    · next hfa =>
      simp only at h
      have hfa' : flushFsAsserts s = true := by simpa using hfa
      split at h
      · simp only [Option.some.injEq, Prod.mk.injEq] at h
        obtain ⟨h1, h2⟩ := h
        subst h2
        exact Or.inr ⟨hfa', rfl, rfl, Or.inr h1.symm⟩
      · simp only [Option.some.injEq, Prod.mk.injEq] at h
        obtain ⟨h1, h2⟩ := h
        subst h2
        exact Or.inr ⟨hfa', rfl, rfl, Or.inl h1.symm⟩

/-- the files-and-history part of a flush on two related stores -/
theorem StEq.flushHead {p q : Store} {s : Sys}
    (e : StEq (s.m.fsHeight + 1).toNat (s.m.fsHeight + 1).toNat s.m.fsTxCount p q)
    (hprior : priorTx s ≤ s.m.fsTxCount) (hfa : flushFsAsserts s = true) :
    StEq (s.m.st.height + 1).toNat (s.m.st.height + 1).toNat s.m.st.txCount
      (applyEffects p (flushHead s)) (applyEffects q (flushHead s)) := by
  obtain ⟨a1, a2, a3⟩ := flushFsAsserts_spec hfa
  unfold EV.Index.flushHead
  rw [applyEffects_append, applyEffects_append]
  have e1 := e.flushFs s (Nat.le_refl _) (Nat.le_refl _) hprior
    (Nh' := (s.m.st.height + 1).toNat) (Nc' := (s.m.st.height + 1).toNat) (Nx' := s.m.st.txCount)
    (by omega) (by rw [List.length_drop]; omega) (by omega)
  exact e1.histBatch _ _ rfl

/-- **`flush_dbs` keeps `ResEq`** (either kind; same assertion failure if it fails): the effect list
    is the same, the writes start at `fs_height + 1` / `prior_tx_count` — inside the agreed part —
    and the file pointers move to the end of what was written -/
theorem resEq_flush {a b : Sys} (R : ResEq a b) (hprior : priorTx a ≤ a.m.fsTxCount) (fu : Bool) :
    ResEqE (flush a fu) (flush b fu) := by
  unfold flush
  rw [flushDbs_congr R.m fu]
  cases hf : flushDbs a fu with
  | none => exact rfl
  | some r =>
    obtain ⟨es, m'⟩ := r
    show ResEq ⟨m', applyEffects a.p es⟩ ⟨m', applyEffects b.p es⟩
    refine ⟨rfl, ?_⟩
    show StEq (m'.fsHeight + 1).toNat (m'.fsHeight + 1).toNat m'.fsTxCount _ _
    rcases flushDbs_cases hf with ⟨rfl, rfl⟩ | ⟨hfa, h1, h2, hes⟩
    · exact R.st
    · rw [h1, h2]
      have e1 := R.st.flushHead hprior hfa
      rcases hes with rfl | rfl
      · exact e1
      · rw [applyEffects_append, applyEffects_append]
        exact (e1.utxoBatch _ _ _ _ _ _).putUState _

/-- the flush effect lists are equal outright -/
theorem ResEq.flushDbs {a b : Sys} (R : ResEq a b) (fu : Bool) :
    EV.Index.flushDbs b fu = EV.Index.flushDbs a fu := flushDbs_congr R.m fu

/-! ### restart -/

theorem StEq.openStore1 {Nh Nc Nx : Nat} {p q : Store} (e : StEq Nh Nc Nx p q) :
    StEq Nh Nc Nx (openStore1 p) (openStore1 q) := by
  by_cases hle : (p.hstate.getD {}).flushCount ≤ (p.ustate.getD {}).flushCount
  · have hle' : (q.hstate.getD {}).flushCount ≤ (q.ustate.getD {}).flushCount := by
      rw [e.hfc, e.ustate]; exact hle
    rw [openStore1_of_le hle, openStore1_of_le hle']
    exact e
  · have hgt : (p.ustate.getD {}).flushCount < (p.hstate.getD {}).flushCount := by omega
    have hgt' : (q.ustate.getD {}).flushCount < (q.hstate.getD {}).flushCount := by
      rw [e.hfc, e.ustate]; exact hgt
    rw [openStore1_of_gt hgt, openStore1_of_gt hgt']
    refine ⟨e.h, e.u, e.undo, e.ustate, ?_, ?_, e.headers, e.txcounts, e.hashes⟩
    · simp only [e.hist, e.ustate]
    · simp only [e.ustate, Option.getD_some]

theorem StEq.openStore {Nh Nc Nx : Nat} {p q : Store} (cfg : Cfg) (e : StEq Nh Nc Nx p q) :
    StEq Nh Nc Nx (openStore cfg p) (openStore cfg q) := by
  have e1 := e.openStore1
  rw [openStore_eq, openStore_eq]
  refine ⟨e1.h, e1.u, ?_, e1.ustate, e1.hist, e1.hfc, e1.headers, e1.txcounts, e1.hashes⟩
  show undoAfterOpen q.undo _ = undoAfterOpen p.undo _
  rw [e.undo, e.ustate]

theorem openState_false (p : Store) :
    openState p false =
      ({ (p.ustate.getD {}) with flushCount :=
            if (p.hstate.getD {}).flushCount ≤ (p.ustate.getD {}).flushCount
            then (p.hstate.getD {}).flushCount else (p.ustate.getD {}).flushCount },
       { flushCount := if (p.hstate.getD {}).flushCount ≤ (p.ustate.getD {}).flushCount
                       then (p.hstate.getD {}).flushCount else (p.ustate.getD {}).flushCount,
         compFlushCount := -1, compCursor := -1 }) := by
  simp only [openState, openHistState_eq, Bool.false_eq_true, if_false]
  split <;> rfl

theorem StEq.openState {Nh Nc Nx : Nat} {p q : Store} (e : StEq Nh Nc Nx p q) :
    openState q false = openState p false := by
  rw [openState_false, openState_false, e.hfc, e.ustate]

/-- **A restart keeps `ResEq`** (`_read_tx_counts` fails on both or on neither).  `hH`, `hT`: the
    files are never behind the UTXO state record. -/
theorem resEq_reopen {a b : Sys} (cfg : Cfg) (R : ResEq a b)
    (hH : (a.p.ustate.getD {}).height ≤ a.m.fsHeight)
    (hT : (a.p.ustate.getD {}).txCount ≤ a.m.fsTxCount) :
    ResEqE (reopen cfg a) (reopen cfg b) := by
  have hst := R.st.openState
  have hheight : (openState a.p false).1.height = (a.p.ustate.getD {}).height := openState_height a.p false
  have htx : (openState a.p false).1.txCount = (a.p.ustate.getD {}).txCount := by simp [openState]
  have e2 := (R.st.openStore cfg).mono (Nh' := ((openState a.p false).1.height + 1).toNat)
    (Nc' := ((openState a.p false).1.height + 1).toNat) (Nx' := (openState a.p false).1.txCount)
    (by omega) (by omega) (by omega)
  have htc : openTxCounts (openStore cfg b.p) (openState b.p false).1 none =
      openTxCounts (openStore cfg a.p) (openState a.p false).1 none := by
    rw [hst]
    exact openTxCounts_congr _ e2.txcounts
  unfold reopen openDbs
  rw [htc]
  cases openTxCounts (openStore cfg a.p) (openState a.p false).1 none with
  | none => exact rfl
  | some l =>
    refine ⟨?_, e2⟩
    simp only [hst]

/-! ### `backup_block` -/

theorem sameBut_of_setCD {s s' : Sys} {c : List ((Hash × Nat) × CacheVal)} {d : List DelKey}
    (h : s' = setCD s c d) : SameBut s s' := ⟨c, d, h⟩

theorem UAgree.refl (s : Sys) : UAgree s s := ⟨rfl, rfl, rfl, rfl, rfl, rfl, rfl⟩

theorem spendOutputs_swp (q : Store) (cfg : Cfg) (height : Nat) (txid : Hash) (outs : List TxOut) :
    ∀ (idx : Nat) (a : Acc Sys), Agree q a.s →
      spendOutputs sysOps cfg height txid outs idx (swpA q a) =
        match spendOutputs sysOps cfg height txid outs idx a with
        | .ok a' => .ok (swpA q a')
        | .error e => .error e := by
  induction outs with
  | nil => intro idx a _; rfl
  | cons o rest ih =>
    intro idx a h
    by_cases hu : unspendable cfg.act height o.kind = true
    · simp only [spendOutputs, hu, if_true]
      exact ih (idx + 1) a h
    · simp only [spendOutputs, hu, if_false, Bool.false_eq_true]
      have hsp : sysOps.spend (swpA q a).s txid idx =
          match sysOps.spend a.s txid idx with
          | .ok (cv, s') => .ok (cv, swp q s')
          | .error e => .error e := spendUtxo_swp h txid idx
      rw [hsp]
      cases hs : sysOps.spend a.s txid idx with
      | error e => rfl
      | ok r =>
        obtain ⟨cv, s'⟩ := r
        exact ih (idx + 1) { a with s := s', touched := a.touched ++ [cv.hx], delta := a.delta - 1 }
          (h.same (spendUtxo_same (s := a.s) hs))

theorem restoreInputs_swp (q : Store) (ins : List TxIn) :
    ∀ (undo : List CacheVal) (a : Acc Sys),
      restoreInputs sysOps ins undo (swpA q a) =
        match restoreInputs sysOps ins undo a with
        | some (a', undo') => some (swpA q a', undo')
        | none => none := by
  induction ins with
  | nil => intro undo a; rfl
  | cons i rest ih =>
    intro undo a
    by_cases hg : i.isGen = true
    · simp only [restoreInputs, hg, if_true]
      exact ih undo a
    · simp only [restoreInputs, hg, if_false, Bool.false_eq_true]
      cases undo.getLast? with
      | none => rfl
      | some cv =>
        exact ih undo.dropLast
          { a with s := sysOps.add a.s i.prev i.idx cv, touched := a.touched ++ [cv.hx],
                   delta := a.delta + 1 }

theorem backupTxs_swp (q : Store) (cfg : Cfg) (height : Nat) (txs : List Tx) :
    ∀ (undo : List CacheVal) (a : Acc Sys), Agree q a.s →
      backupTxs sysOps cfg height txs undo (swpA q a) =
        match backupTxs sysOps cfg height txs undo a with
        | .ok (a', undo') => .ok (swpA q a', undo')
        | .error e => .error e := by
  induction txs with
  | nil => intro undo a _; rfl
  | cons tx rest ih =>
    intro undo a h
    simp only [backupTxs]
    rw [spendOutputs_swp q cfg height tx.id tx.outs 0 a h]
    cases hs : spendOutputs sysOps cfg height tx.id tx.outs 0 a with
    | error e => rfl
    | ok a1 =>
      simp only
      rw [restoreInputs_swp]
      cases hr : restoreInputs sysOps tx.ins.reverse undo a1 with
      | none => rfl
      | some r =>
        obtain ⟨a2, undo2⟩ := r
        obtain ⟨c1, d1, e1, -⟩ := spendOutputs_sim cfg height tx.id tx.outs 0 a a1 a.s (UAgree.refl _) hs
        obtain ⟨c2, d2, e2, -⟩ := restoreInputs_sim tx.ins.reverse undo a1 a2 undo2 a1.s (UAgree.refl _) hr
        exact ih undo2 { a2 with txNum := a2.txNum + 1 }
          (h.same ((sameBut_of_setCD e1).trans (sameBut_of_setCD e2)))

theorem histBackupEffect_congr {s t : Sys} (hm : t.m = s.m) (hh : t.p.hist = s.p.hist)
    (T : List HashX) (n : Nat) : histBackupEffect t T n = histBackupEffect s T n := by
  simp only [histBackupEffect, hm, hh]

/-- `flush_backup` on the other store: the same two batches (the history batch reads the history
    table, which is the same), applied to the other store -/
theorem bkResult_swp {q : Store} {s : Sys} (a : Acc Sys) (b : Block) (hp : a.s.p = s.p)
    (hhist : q.hist = s.p.hist) :
    bkResult (swpA q a) (swp q s) b =
      ((bkResult a s b).1, { m := (bkResult a s b).2.m, p := applyEffects q (bkResult a s b).1 }) := by
  have hh : q.hist = a.s.p.hist := by rw [hp]; exact hhist
  simp only [bkResult, swpA, swp, histBackupEffect, hh]
  rfl

/-- **`backup_block` + `flush_backup` on the other store**: same refusal, or the same two batches and
    the same new memory -/
theorem backupFull_swp {q : Store} {s : Sys} (cfg : Cfg) (b : Block) (h : Agree q s)
    (hundo : q.undo = s.p.undo) (hhist : q.hist = s.p.hist) :
    backupFull cfg (swp q s) b =
      match backupFull cfg s b with
      | .ok (es, s') => .ok (es, { m := s'.m, p := applyEffects q es })
      | .error e => .error e := by
  rw [backupFull_eq, backupFull_eq]
  have h1 : assertFlushed (swp q s) = assertFlushed s := rfl
  have h2 : (swp q s).m = s.m := rfl
  have h3 : (swp q s).p.undo = s.p.undo := hundo
  rw [h1, h2, h3]
  by_cases ha : (!assertFlushed s) = true
  · rw [if_pos ha, if_pos ha]
  · rw [if_neg ha, if_neg ha]
    by_cases hh : s.m.st.height ≤ 0
    · rw [if_pos hh, if_pos hh]
    · rw [if_neg hh, if_neg hh]
      cases hl : alookup s.m.st.height.toNat s.p.undo with
      | none => rfl
      | some undo =>
        simp only
        have e' : backupTxs sysOps cfg s.m.st.height.toNat b.txs.reverse undo
            { s := swp q s, txNum := 0 } = _ :=
          backupTxs_swp q cfg s.m.st.height.toNat b.txs.reverse undo { s := s, txNum := 0 } h
        rw [e']
        cases hb : backupTxs sysOps cfg s.m.st.height.toNat b.txs.reverse undo { s := s, txNum := 0 } with
        | error e => rfl
        | ok r =>
          obtain ⟨a, undoLeft⟩ := r
          simp only
          by_cases hu : (!undoLeft.isEmpty) = true
          · rw [if_pos hu, if_pos hu]
          · rw [if_neg hu, if_neg hu]
            obtain ⟨c, d, e1, -⟩ := backupTxs_sim cfg s.m.st.height.toNat b.txs.reverse undo
              { s := s, txNum := 0 } a undoLeft s (UAgree.refl _) hb
            have hp : a.s.p = s.p := by rw [e1]; rfl
            rw [bkResult_swp a b hp hhist]

theorem backupFull_ok {cfg : Cfg} {s s' : Sys} {b : Block} {es : List Effect}
    (h : backupFull cfg s b = .ok (es, s')) :
    assertFlushed s = true ∧
      ∃ a0 c d, a0.s = setCD s c d ∧ bkResult a0 s b = (es, s') := by
  rw [backupFull_eq] at h
  split at h
  · simp at h
  · next haf =>
    split at h
    · simp at h
    · split at h
      · simp at h
      · next undo hl =>
        split at h
        · simp at h
        · next a0 undoLeft hb =>
          split at h
          · simp at h
          · simp only [Except.ok.injEq] at h
            obtain ⟨c, d, e1, -⟩ := backupTxs_sim cfg _ _ undo { s := s, txNum := 0 } a0 undoLeft s
              (UAgree.refl _) hb
            exact ⟨by simpa using haf, a0, c, d, e1, h⟩

/-- **`backup_block` + `flush_backup` keeps `ResEq`** (any block; same refusal if it fails): the two
    batches are the same, no file is written, and the file pointers move down -/
theorem resEq_backup {chain : List Block} {a b : Sys} (f : FilesInv chain a) (R : ResEq a b)
    (cfg : Cfg) (blk : Block) :
    ResEqE (backup cfg a blk) (backup cfg b blk) := by
  have hsw := backupFull_swp cfg blk (R.agree f) R.undo R.hist
  rw [← R.eq_swp] at hsw
  unfold backup
  rw [hsw]
  cases hb : backupFull cfg a blk with
  | error e => exact rfl
  | ok r =>
    obtain ⟨es, a'⟩ := r
    show ResEq a' { m := a'.m, p := applyEffects b.p es }
    obtain ⟨haf, a0, c, d, e1, hres⟩ := backupFull_ok hb
    rw [bkResult_explicit a0 a blk c d e1] at hres
    simp only [Prod.mk.injEq] at hres
    obtain ⟨rfl, rfl⟩ := hres
    refine ⟨rfl, ?_⟩
    simp only [assertFlushed, Bool.and_eq_true, beq_iff_eq] at haf
    have h1 : a.m.st.height = a.m.fsHeight := haf.1.1.1.1.1.1.1.1.2
    have h2 : a.m.st.txCount = a.m.fsTxCount := haf.1.1.1.1.1.1.1.1.1.1
    have e2 : StEq (a.m.fsHeight + 1).toNat (a.m.fsHeight + 1).toNat a.m.fsTxCount
        (applyEffects a.p [histBackupEffect a (a.m.touched ++ a0.touched) (bkSt a.m.st a0 blk).txCount,
          utxoBatchEffect (setCD a c d) (bkSt a.m.st a0 blk)])
        (applyEffects b.p [histBackupEffect a (a.m.touched ++ a0.touched) (bkSt a.m.st a0 blk).txCount,
          utxoBatchEffect (setCD a c d) (bkSt a.m.st a0 blk)]) := by
      simp only [applyEffects, List.foldl_cons, List.foldl_nil, histBackupEffect, utxoBatchEffect]
      exact (R.st.histBatch _ _ rfl).utxoBatch _ _ _ _ _ _
    apply e2.mono
    · show ((bkSt a.m.st a0 blk).height + 1).toNat ≤ _
      simp only [bkSt]; omega
    · show ((bkSt a.m.st a0 blk).height + 1).toNat ≤ _
      simp only [bkSt]; omega
    · show (bkSt a.m.st a0 blk).txCount ≤ _
      simp only [bkSt]; omega

/-! ### every run operation, whole runs -/

/-- the persisted UTXO state record is `DB.state` (or absent, with `DB.state` the default) -/
theorem ustate_getD_of_fullInv {cfg : Cfg} {chain : List Block} {a : Sys} (inv : FullInv cfg chain a) :
    a.p.ustate.getD {} = a.m.dbst := by
  rcases inv.ustate with ⟨h1, h2⟩ | h
  · rw [h1, h2]; rfl
  · rw [h]; rfl

/-- **One operation.**  In every state `a` of the reference run (whole-system invariant `FullInv`)
and every `ResEq` state `b`, each run operation — `advance_block` of ANY block, a flush of either
kind, a back-out of ANY block, a restart — fails on both with the same error or succeeds on both
with `ResEq` results. -/
theorem resEq_step {cfg : Cfg} {chain : List Block} {a b : Sys} (inv : FullInv cfg chain a)
    (R : ResEq a b) (op : IOp2) : ResEqE (stepOp2 cfg a op) (stepOp2 cfg b op) := by
  have f := inv.files
  cases op with
  | adv blk d => exact resEq_advance f R cfg d blk
  | flush fu => exact resEq_flush R (by rw [priorTx_eq f]; exact Nat.le_refl _) fu
  | backup blk => exact resEq_backup f R cfg blk
  | reopen =>
    have hu := ustate_getD_of_fullInv inv
    have hord := f.order
    refine resEq_reopen cfg R (by rw [hu]; exact hord.2.1) ?_
    rw [hu, f.dbTx, f.fsTx]
    exact allTxids_take_mono _ (by omega)

/-- **Whole runs.**  From a state `a` of the run invariant and a `ResEq` state `b`, every valid
operation list runs without error on both and ends in `ResEq` states (the reference one satisfying
the run invariant for the updated bookkeeping). -/
theorem resEq_run {cfg : Cfg} (ops : List IOp2) {t : Track} {a b : Sys} (ti : TrackInv cfg t a)
    (R : ResEq a b) (hv : ValidOps2 cfg t ops) :
    ∃ a' b', runOps2 cfg a ops = .ok a' ∧ runOps2 cfg b ops = .ok b' ∧
      TrackInv cfg (t.run cfg ops) a' ∧ ResEq a' b' := by
  induction ops generalizing t a b with
  | nil => exact ⟨a, b, rfl, rfl, ti, R⟩
  | cons op r ih =>
    obtain ⟨hop, hr⟩ := hv
    obtain ⟨a1, h1, ti1⟩ := trackInv_step ti op hop
    have hs := resEq_step (cfg := cfg) ti.inv.base R op
    rw [h1] at hs
    cases hb : stepOp2 cfg b op with
    | error e => rw [hb] at hs; exact hs.elim
    | ok b1 =>
      rw [hb] at hs
      obtain ⟨a', b', h2, h3, ti2, R2⟩ := ih ti1 hs hr
      exact ⟨a', b', by simp only [runOps2, h1]; exact h2, by simp only [runOps2, hb]; exact h3, ti2, R2⟩

/-! ### the compaction fields of the history state record

`ResEq` leaves the compaction fields (`comp_flush_count`, `comp_cursor`) of the persisted history
state record open, because `RecoversSame` does.  In a sync without compaction they are at their idle
value `-1` everywhere — a unary invariant of every run from the empty index and of every restart —
so the two records are equal as a whole. -/

/-- no compaction in progress: memory and persisted record carry the idle values -/
structure CompIdle (s : Sys) : Prop where
  mf : s.m.compFlush = -1
  mc : s.m.compCursor = -1
  pf : (s.p.hstate.getD {}).compFlushCount = -1
  pc : (s.p.hstate.getD {}).compCursor = -1

/-- the persisted record alone -/
def CompIdleP (p : Store) : Prop :=
  (p.hstate.getD {}).compFlushCount = -1 ∧ (p.hstate.getD {}).compCursor = -1

theorem compIdle_init : CompIdle {} := ⟨rfl, rfl, rfl, rfl⟩

/-- effects that write the history state record write idle compaction fields -/
def Effect.compIdle : Effect → Prop
  | .histBatch _ _ st => st.compFlushCount = -1 ∧ st.compCursor = -1
  | _ => True

theorem compIdleP_applyEffect {p : Store} (hp : CompIdleP p) {e : Effect} (he : e.compIdle) :
    CompIdleP (applyEffect p e) := by
  cases e with
  | writeHeaders off d => exact hp
  | writeTxCounts off d => exact hp
  | writeHashes off d => exact hp
  | histBatch dels puts st => exact he
  | utxoBatch d hp' up ud upp st =>
    unfold CompIdleP
    rw [(utxoBatch_others p d hp' up ud upp st).2.1]
    exact hp
  | putUState st => exact hp

theorem compIdleP_applyEffects {es : List Effect} (hes : ∀ e ∈ es, e.compIdle) :
    ∀ {p : Store}, CompIdleP p → CompIdleP (applyEffects p es) := by
  induction es with
  | nil => intro p hp; exact hp
  | cons e r ih =>
    intro p hp
    exact ih (fun e' he' => hes e' (List.mem_cons_of_mem _ he'))
      (compIdleP_applyEffect hp (hes e (List.mem_cons_self ..)))

theorem compIdle_torn {e t : Effect} (ht : t ∈ tornPrefixes e) : t.compIdle := by
  cases e <;> simp only [tornPrefixes, List.mem_map, List.mem_range, List.not_mem_nil] at ht
  all_goals first
    | (obtain ⟨j, _, rfl⟩ := ht; trivial)
    | exact ht.elim

theorem compIdle_cut {es c : List Effect} (hes : ∀ e ∈ es, e.compIdle) (hc : c ∈ cuts es) :
    ∀ e ∈ c, e.compIdle := by
  induction es generalizing c with
  | nil =>
    simp only [cuts, List.mem_singleton] at hc
    subst hc
    simp
  | cons e es ih =>
    simp only [cuts, List.mem_cons, List.mem_append, List.mem_map] at hc
    rcases hc with rfl | ⟨t, ht, rfl⟩ | ⟨c0, hc0, rfl⟩
    · simp
    · intro e' he'
      simp only [List.mem_singleton] at he'
      subst he'
      exact compIdle_torn ht
    · intro e' he'
      rcases List.mem_cons.mp he' with rfl | h
      · exact hes _ (List.mem_cons_self ..)
      · exact ih (fun e he => hes e (List.mem_cons_of_mem _ he)) hc0 e' h

/-- the effects of a flush from an idle memory -/
theorem compIdle_flushDbs {s : Sys} {fu : Bool} {es : List Effect} {m' : Mem}
    (h1 : s.m.compFlush = -1) (h2 : s.m.compCursor = -1) (hf : flushDbs s fu = some (es, m')) :
    (∀ e ∈ es, e.compIdle) ∧ m'.compFlush = -1 ∧ m'.compCursor = -1 := by
  have hh : ∀ e ∈ flushHead s, e.compIdle := by
    intro e he
    simp only [flushHead, flushFsEffects, histFlushEffect, List.cons_append, List.nil_append,
      List.mem_cons, List.not_mem_nil, or_false] at he
    rcases he with rfl | rfl | rfl | rfl
    · trivial
    · trivial
    · trivial
    · exact ⟨h1, h2⟩
  unfold flushDbs at hf
  split at hf
  · split at hf
    · simp only [Option.some.injEq, Prod.mk.injEq] at hf
      obtain ⟨rfl, rfl⟩ := hf
      exact ⟨by simp, h1, h2⟩
    · simp at hf
  · split at hf
    · simp at hf
    · simp only at hf
      split at hf
      · simp only [Option.some.injEq, Prod.mk.injEq] at hf
        obtain ⟨rfl, rfl⟩ := hf
        refine ⟨?_, h1, h2⟩
        intro e he
        rcases List.mem_append.mp he with h | h
        · exact hh e h
        · simp only [utxoBatchEffect, List.mem_cons, List.not_mem_nil, or_false] at h
          rcases h with rfl | rfl <;> trivial
      · simp only [Option.some.injEq, Prod.mk.injEq] at hf
        obtain ⟨rfl, rfl⟩ := hf
        exact ⟨hh, h1, h2⟩

theorem compIdleP_openStore (cfg : Cfg) {p : Store} (hp : CompIdleP p) : CompIdleP (openStore cfg p) := by
  unfold CompIdleP
  rw [openStore_eq]
  show ((openStore1 p).hstate.getD {}).compFlushCount = -1 ∧ ((openStore1 p).hstate.getD {}).compCursor = -1
  by_cases hle : (p.hstate.getD {}).flushCount ≤ (p.ustate.getD {}).flushCount
  · rw [openStore1_of_le hle]; exact hp
  · rw [openStore1_of_gt (by omega)]; exact hp

/-- a restart on an idle store gives an idle system -/
theorem compIdle_recover {cfg : Cfg} {p : Store} (hp : CompIdleP p) {es : List Effect} {r : Sys}
    (h : recover cfg p = some (es, r)) : CompIdle r := by
  unfold recover openDbs at h
  split at h
  · simp at h
  · simp only [Option.some.injEq, Prod.mk.injEq] at h
    obtain ⟨-, rfl⟩ := h
    have hq := compIdleP_openStore cfg hp
    exact ⟨by simp [openState], by simp [openState], hq.1, hq.2⟩

/-- **Every run operation keeps `CompIdle`.** -/
theorem compIdle_step {cfg : Cfg} {s s' : Sys} (hc : CompIdle s) (op : IOp2)
    (h : stepOp2 cfg s op = .ok s') : CompIdle s' := by
  cases op with
  | adv blk d =>
    have h' : advance cfg d s blk = .ok s' := h
    unfold advance at h'
    split at h'
    · simp at h'
    · dsimp only at h'
      split at h'
      · simp at h'
      · next a ha =>
        obtain ⟨c, dd, hs⟩ := advanceTxs_same _ _ _ _ ha
        simp only [Except.ok.injEq] at h'
        subst h'
        simp only at hs
        refine ⟨?_, ?_, ?_, ?_⟩ <;> simp only [hs]
        · exact hc.mf
        · exact hc.mc
        · exact hc.pf
        · exact hc.pc
  | flush fu =>
    have h' : flush s fu = .ok s' := h
    unfold flush at h'
    cases hf : flushDbs s fu with
    | none => rw [hf] at h'; cases h'
    | some r =>
      obtain ⟨es, m'⟩ := r
      rw [hf] at h'
      simp only [Except.ok.injEq] at h'
      subst h'
      obtain ⟨h1, h2, h3⟩ := compIdle_flushDbs hc.mf hc.mc hf
      have := compIdleP_applyEffects h1 (p := s.p) ⟨hc.pf, hc.pc⟩
      exact ⟨h2, h3, this.1, this.2⟩
  | backup blk =>
    have h' : backup cfg s blk = .ok s' := h
    unfold backup at h'
    cases hb : backupFull cfg s blk with
    | error e => rw [hb] at h'; cases h'
    | ok r =>
      obtain ⟨es, s1⟩ := r
      rw [hb] at h'
      simp only [Except.ok.injEq] at h'
      subst h'
      obtain ⟨-, a0, c, d, e1, hres⟩ := backupFull_ok hb
      rw [bkResult_explicit a0 s blk c d e1] at hres
      simp only [Prod.mk.injEq] at hres
      obtain ⟨rfl, rfl⟩ := hres
      have hes : ∀ e ∈ [histBackupEffect s (s.m.touched ++ a0.touched) (bkSt s.m.st a0 blk).txCount,
          utxoBatchEffect (setCD s c d) (bkSt s.m.st a0 blk)], e.compIdle := by
        intro e he
        simp only [List.mem_cons, List.not_mem_nil, or_false] at he
        rcases he with rfl | rfl
        · exact ⟨hc.mf, hc.mc⟩
        · trivial
      have := compIdleP_applyEffects hes (p := s.p) ⟨hc.pf, hc.pc⟩
      exact ⟨hc.mf, hc.mc, this.1, this.2⟩
  | reopen =>
    have h' : reopen cfg s = .ok s' := h
    unfold reopen at h'
    cases ho : openDbs cfg s.p false none with
    | none => rw [ho] at h'; cases h'
    | some r =>
      obtain ⟨es, s1⟩ := r
      rw [ho] at h'
      simp only [Except.ok.injEq] at h'
      subst h'
      exact compIdle_recover ⟨hc.pf, hc.pc⟩ ho

theorem compIdle_run {cfg : Cfg} (ops : List IOp2) {s s' : Sys} (hc : CompIdle s)
    (h : runOps2 cfg s ops = .ok s') : CompIdle s' := by
  induction ops generalizing s with
  | nil =>
    simp only [runOps2, Except.ok.injEq] at h
    subst h; exact hc
  | cons op r ih =>
    simp only [runOps2] at h
    cases hs : stepOp2 cfg s op with
    | error e => rw [hs] at h; cases h
    | ok s1 =>
      rw [hs] at h
      exact ih (compIdle_step hc op hs) h

/-- two idle `ResEq` states carry the same history state record (up to "absent = default") -/
theorem hstate_eq_of_compIdle {a b : Sys} (R : ResEq a b) (ha : CompIdle a) (hb : CompIdle b) :
    b.p.hstate.getD {} = a.p.hstate.getD {} := by
  have h1 := R.hfc
  have h2 := ha.pf; have h3 := ha.pc; have h4 := hb.pf; have h5 := hb.pc
  generalize b.p.hstate.getD {} = x at *
  generalize a.p.hstate.getD {} = y at *
  cases x; cases y
  simp only at h1 h2 h3 h4 h5
  subst h1 h2 h3
  rw [h4, h5]

/-! ### the torn tail is overwritten

`ResEq` says where the two stores agree *below* the file pointers.  `TailEq Nh Nc Nx` says that they
also agree *from* record `Nh` / `Nc` / `Nx` on: a cut flush writes only below the tip it was
flushing, so this holds right after the crash with the old tip as bound, every later operation keeps
it (the same data is written at the same offset of both files), and once the file pointers have
passed the bound the files are equal outright. -/

theorem fileWrite_getElem? {α : Type} (f : List α) (off : Nat) (d : List α) (h : off ≤ f.length)
    (i : Nat) :
    (fileWrite f off d)[i]? =
      if i < off then f[i]? else if i < off + d.length then d[i - off]? else f[i]? := by
  unfold fileWrite
  rw [List.append_assoc]
  by_cases h1 : i < off
  · rw [if_pos h1, List.getElem?_append_left (by rw [List.length_take]; omega),
      List.getElem?_take_of_lt h1]
  · rw [if_neg h1, List.getElem?_append_right (by rw [List.length_take]; omega), List.length_take,
      Nat.min_eq_left h]
    by_cases h2 : i < off + d.length
    · rw [if_pos h2, List.getElem?_append_left (by omega)]
    · rw [if_neg h2, List.getElem?_append_right (by omega), List.getElem?_drop]
      congr 1
      omega

theorem drop_fileWrite_congr {α : Type} {a b : List α} {off N : Nat} (d : List α)
    (ha : off ≤ a.length) (hb : off ≤ b.length) (h : b.drop N = a.drop N) :
    (fileWrite b off d).drop N = (fileWrite a off d).drop N := by
  apply List.ext_getElem?
  intro i
  have hi : b[N + i]? = a[N + i]? := by
    have := congrArg (fun l => l[i]?) h
    simpa [List.getElem?_drop] using this
  rw [List.getElem?_drop, List.getElem?_drop, fileWrite_getElem? _ _ _ hb, fileWrite_getElem? _ _ _ ha, hi]

theorem drop_fileWrite_of_le {α : Type} {f : List α} {off N : Nat} (d : List α)
    (hf : off ≤ f.length) (h : off + d.length ≤ N) :
    (fileWrite f off d).drop N = f.drop N := by
  apply List.ext_getElem?
  intro i
  rw [List.getElem?_drop, List.getElem?_drop, fileWrite_getElem? _ _ _ hf,
    if_neg (by omega), if_neg (by omega)]

theorem length_fileWrite_ge {α : Type} (f : List α) (off : Nat) (d : List α) (hf : off ≤ f.length) :
    f.length ≤ (fileWrite f off d).length := by
  unfold fileWrite
  simp only [List.length_append, List.length_take, List.length_drop]
  omega

theorem eq_of_take_drop {α : Type} {a b : List α} {K N : Nat} (h1 : b.take K = a.take K)
    (h2 : b.drop N = a.drop N) (hNK : N ≤ K) : b = a := by
  have key : ∀ l : List α, l.drop K = (l.drop N).drop (K - N) := by
    intro l; rw [List.drop_drop]; congr 1; omega
  rw [← List.take_append_drop K b, ← List.take_append_drop K a, h1, key b, key a, h2]


/-- the files agree from record `Nh` / `Nc` / `Nx` on -/
structure TailEq (Nh Nc Nx : Nat) (p q : Store) : Prop where
  headers : q.headers.drop Nh = p.headers.drop Nh
  txcounts : q.txcounts.drop Nc = p.txcounts.drop Nc
  hashes : q.hashes.drop Nx = p.hashes.drop Nx

theorem TailEq.of_files {Nh Nc Nx : Nat} {p q p' q' : Store} (T : TailEq Nh Nc Nx p q)
    (hp : p'.headers = p.headers ∧ p'.txcounts = p.txcounts ∧ p'.hashes = p.hashes)
    (hq : q'.headers = q.headers ∧ q'.txcounts = q.txcounts ∧ q'.hashes = q.hashes) :
    TailEq Nh Nc Nx p' q' := by
  refine ⟨?_, ?_, ?_⟩
  · rw [hp.1, hq.1]; exact T.headers
  · rw [hp.2.1, hq.2.1]; exact T.txcounts
  · rw [hp.2.2, hq.2.2]; exact T.hashes

def Effect.isWrite : Effect → Bool
  | .writeHeaders _ _ => true
  | .writeTxCounts _ _ => true
  | .writeHashes _ _ => true
  | _ => false

theorem files_applyEffect {p : Store} {e : Effect} (h : e.isWrite = false) :
    (applyEffect p e).headers = p.headers ∧ (applyEffect p e).txcounts = p.txcounts ∧
      (applyEffect p e).hashes = p.hashes := by
  cases e with
  | writeHeaders off d => cases h
  | writeTxCounts off d => cases h
  | writeHashes off d => cases h
  | histBatch dels puts st => exact ⟨rfl, rfl, rfl⟩
  | utxoBatch d hp up ud upp st =>
    obtain ⟨-, -, h1, h2, h3⟩ := utxoBatch_others p d hp up ud upp st
    exact ⟨h1, h2, h3⟩
  | putUState st => exact ⟨rfl, rfl, rfl⟩

theorem files_applyEffects {es : List Effect} (h : ∀ e ∈ es, e.isWrite = false) :
    ∀ p : Store, (applyEffects p es).headers = p.headers ∧ (applyEffects p es).txcounts = p.txcounts ∧
      (applyEffects p es).hashes = p.hashes := by
  induction es with
  | nil => intro p; exact ⟨rfl, rfl, rfl⟩
  | cons e r ih =>
    intro p
    obtain ⟨a1, a2, a3⟩ := ih (fun e' he' => h e' (List.mem_cons_of_mem _ he')) (applyEffect p e)
    obtain ⟨b1, b2, b3⟩ := files_applyEffect (p := p) (h e (List.mem_cons_self ..))
    exact ⟨a1.trans b1, a2.trans b2, a3.trans b3⟩

theorem files_openStore (cfg : Cfg) (p : Store) :
    (openStore cfg p).headers = p.headers ∧ (openStore cfg p).txcounts = p.txcounts ∧
      (openStore cfg p).hashes = p.hashes := by
  obtain ⟨-, -, -, -, h1, h2, h3⟩ := openStore1_rest p
  rw [openStore_eq]
  exact ⟨h1, h2, h3⟩

/-- only a flush writes the files -/
theorem files_step {cfg : Cfg} {s s' : Sys} {op : IOp2} (hop : ∀ fu, op ≠ .flush fu)
    (h : stepOp2 cfg s op = .ok s') :
    s'.p.headers = s.p.headers ∧ s'.p.txcounts = s.p.txcounts ∧ s'.p.hashes = s.p.hashes := by
  cases op with
  | adv blk d =>
    obtain ⟨hp, -, -⟩ := advance_keeps (show advance cfg d s blk = .ok s' from h)
    rw [hp]; exact ⟨rfl, rfl, rfl⟩
  | flush fu => exact (hop fu rfl).elim
  | backup blk =>
    have h' : backup cfg s blk = .ok s' := h
    unfold backup at h'
    cases hb : backupFull cfg s blk with
    | error e => rw [hb] at h'; cases h'
    | ok r =>
      obtain ⟨es, s1⟩ := r
      rw [hb] at h'
      simp only [Except.ok.injEq] at h'
      subst h'
      obtain ⟨-, a0, c, d, e1, hres⟩ := backupFull_ok hb
      rw [bkResult_explicit a0 s blk c d e1] at hres
      simp only [Prod.mk.injEq] at hres
      obtain ⟨rfl, rfl⟩ := hres
      apply files_applyEffects
      intro e he
      simp only [List.mem_cons, List.not_mem_nil, or_false] at he
      rcases he with rfl | rfl <;> rfl
  | reopen =>
    have h' : reopen cfg s = .ok s' := h
    unfold reopen at h'
    cases ho : openDbs cfg s.p false none with
    | none => rw [ho] at h'; cases h'
    | some r =>
      obtain ⟨es, s1⟩ := r
      rw [ho] at h'
      simp only [Except.ok.injEq] at h'
      subst h'
      rw [(recover_effects (show recover cfg s.p = some (es, s1) from ho)).2]
      exact files_openStore cfg s.p

/-- the files cover the file pointers -/
theorem filesInv_lens {chain : List Block} {s : Sys} (f : FilesInv chain s) :
    (s.m.fsHeight + 1).toNat ≤ s.p.headers.length ∧ (s.m.fsHeight + 1).toNat ≤ s.p.txcounts.length ∧
      s.m.fsTxCount ≤ s.p.hashes.length := by
  have hfsK := f.fsK
  refine ⟨?_, ?_, ?_⟩
  · have := congrArg List.length f.headers
    simp only [List.length_take, List.length_map] at this
    omega
  · have := congrArg List.length f.txcountsFile
    simp only [List.length_take, cumCounts_length] at this
    omega
  · have := congrArg List.length f.hashes
    have h2 := f.fsTx_le
    simp only [List.length_take] at this
    omega

theorem flushHead_files (p : Store) (s : Sys) :
    (applyEffects p (flushHead s)).headers = fileWrite p.headers (s.m.fsHeight + 1).toNat s.m.headersU ∧
    (applyEffects p (flushHead s)).txcounts =
      fileWrite p.txcounts (s.m.fsHeight + 1).toNat (s.m.txCounts.drop (s.m.fsHeight + 1).toNat) ∧
    (applyEffects p (flushHead s)).hashes = fileWrite p.hashes (priorTx s) s.m.txHashesU.flatten := by
  simp [flushHead, applyEffects, flushFsEffects, applyEffect, histFlushEffect, priorTx]

/-- **A flush keeps `TailEq`**: the same data goes to the same offsets of both files. -/
theorem tailEq_flush {chain : List Block} {a b a' b' : Sys} (f : FilesInv chain a) (R : ResEq a b)
    {Nh Nc Nx : Nat} (T : TailEq Nh Nc Nx a.p b.p) {fu : Bool}
    (ha : flush a fu = .ok a') (hb : flush b fu = .ok b') : TailEq Nh Nc Nx a'.p b'.p := by
  unfold flush at ha hb
  rw [flushDbs_congr R.m fu] at hb
  cases hf : flushDbs a fu with
  | none => rw [hf] at ha; cases ha
  | some r =>
    obtain ⟨es, m'⟩ := r
    rw [hf] at ha hb
    simp only [Except.ok.injEq] at ha hb
    subst ha hb
    show TailEq Nh Nc Nx (applyEffects a.p es) (applyEffects b.p es)
    obtain ⟨l1, l2, l3⟩ := filesInv_lens f
    have hpr := priorTx_eq f
    have T1 : TailEq Nh Nc Nx (applyEffects a.p (flushHead a)) (applyEffects b.p (flushHead a)) := by
      obtain ⟨a1, a2, a3⟩ := flushHead_files a.p a
      obtain ⟨b1, b2, b3⟩ := flushHead_files b.p a
      refine ⟨?_, ?_, ?_⟩
      · rw [a1, b1]
        exact drop_fileWrite_congr _ l1 (length_of_take_eq R.headers l1) T.headers
      · rw [a2, b2]
        exact drop_fileWrite_congr _ l2 (length_of_take_eq R.txcounts l2) T.txcounts
      · rw [a3, b3, hpr]
        exact drop_fileWrite_congr _ l3 (length_of_take_eq R.hashes l3) T.hashes
    rcases flushDbs_cases hf with ⟨rfl, -⟩ | ⟨-, -, -, rfl | rfl⟩
    · exact T
    · exact T1
    · rw [applyEffects_append, applyEffects_append]
      have hnw : ∀ e ∈ [utxoBatchEffect a { a.m.st with flushCount := a.m.histFlush + 1 },
          Effect.putUState { a.m.st with flushCount := a.m.histFlush + 1 }], e.isWrite = false := by
        intro e he
        simp only [List.mem_cons, List.not_mem_nil, or_false] at he
        rcases he with rfl | rfl <;> rfl
      exact T1.of_files (files_applyEffects hnw _) (files_applyEffects hnw _)

/-- **Every run operation keeps `TailEq`.** -/
theorem tailEq_step {cfg : Cfg} {chain : List Block} {a b a' b' : Sys} (inv : FullInv cfg chain a)
    (R : ResEq a b) {Nh Nc Nx : Nat} (T : TailEq Nh Nc Nx a.p b.p) (op : IOp2)
    (ha : stepOp2 cfg a op = .ok a') (hb : stepOp2 cfg b op = .ok b') : TailEq Nh Nc Nx a'.p b'.p := by
  by_cases hop : ∃ fu, op = .flush fu
  · obtain ⟨fu, rfl⟩ := hop
    exact tailEq_flush inv.files R T ha hb
  · have hop' : ∀ fu, op ≠ .flush fu := fun fu h => hop ⟨fu, h⟩
    exact T.of_files (files_step hop' ha) (files_step hop' hb)

/-- whole runs, with the tail bound carried along -/
theorem resEq_run_tail {cfg : Cfg} (ops : List IOp2) {t : Track} {a b : Sys} (ti : TrackInv cfg t a)
    (R : ResEq a b) {Nh Nc Nx : Nat} (T : TailEq Nh Nc Nx a.p b.p) (hv : ValidOps2 cfg t ops) :
    ∃ a' b', runOps2 cfg a ops = .ok a' ∧ runOps2 cfg b ops = .ok b' ∧
      TrackInv cfg (t.run cfg ops) a' ∧ ResEq a' b' ∧ TailEq Nh Nc Nx a'.p b'.p := by
  induction ops generalizing t a b with
  | nil => exact ⟨a, b, rfl, rfl, ti, R, T⟩
  | cons op r ih =>
    obtain ⟨hop, hr⟩ := hv
    obtain ⟨a1, h1, ti1⟩ := trackInv_step ti op hop
    have hs := resEq_step (cfg := cfg) ti.inv.base R op
    rw [h1] at hs
    cases hb : stepOp2 cfg b op with
    | error e => rw [hb] at hs; exact hs.elim
    | ok b1 =>
      rw [hb] at hs
      obtain ⟨a', b', h2, h3, ti2, R2, T2⟩ := ih ti1 hs (tailEq_step ti.inv.base R T op h1 hb) hr
      exact ⟨a', b', by simp only [runOps2, h1]; exact h2, by simp only [runOps2, hb]; exact h3,
        ti2, R2, T2⟩

/-- the two stores hold the same data: every table, the UTXO state record, the three files record
    for record; the history state record up to "absent = all defaults" -/
structure StoreEqv (p q : Store) : Prop where
  h : q.h = p.h
  u : q.u = p.u
  undo : q.undo = p.undo
  ustate : q.ustate = p.ustate
  hist : q.hist = p.hist
  hstate : q.hstate.getD {} = p.hstate.getD {}
  headers : q.headers = p.headers
  txcounts : q.txcounts = p.txcounts
  hashes : q.hashes = p.hashes

theorem StoreEqv.eq {p q : Store} (e : StoreEqv p q) : q = { p with hstate := q.hstate } := by
  cases q
  cases p
  simp only [Store.mk.injEq, true_and]
  exact ⟨e.h, e.u, e.undo, e.ustate, e.hist, e.headers, e.txcounts, e.hashes⟩

/-- **Equal outright.**  Once the file pointers have passed the tail bound, idle `ResEq` states have
the same store. -/
theorem storeEqv_of_tail {a b : Sys} (R : ResEq a b) {Nh Nc Nx : Nat} (T : TailEq Nh Nc Nx a.p b.p)
    (ha : CompIdle a) (hb : CompIdle b) (h1 : Nh ≤ (a.m.fsHeight + 1).toNat)
    (h2 : Nc ≤ (a.m.fsHeight + 1).toNat) (h3 : Nx ≤ a.m.fsTxCount) : StoreEqv a.p b.p :=
  ⟨R.h, R.u, R.undo, R.ustate, R.hist, hstate_eq_of_compIdle R ha hb,
    eq_of_take_drop R.headers T.headers h1, eq_of_take_drop R.txcounts T.txcounts h2,
    eq_of_take_drop R.hashes T.hashes h3⟩

/-! ### the tail bound right after the crash -/

/-- agreement from the bound on, and `q`'s files are at least as long as `p`'s -/
structure TailLen (Nh Nc Nx : Nat) (p q : Store) : Prop where
  t : TailEq Nh Nc Nx p q
  lh : p.headers.length ≤ q.headers.length
  lc : p.txcounts.length ≤ q.txcounts.length
  lx : p.hashes.length ≤ q.hashes.length

theorem TailLen.refl (Nh Nc Nx : Nat) (p : Store) : TailLen Nh Nc Nx p p :=
  ⟨⟨rfl, rfl, rfl⟩, Nat.le_refl _, Nat.le_refl _, Nat.le_refl _⟩

/-- a file write inside `p`'s file and ending at or before the bound -/
def InWin (Nh Nc Nx : Nat) (p : Store) : Effect → Prop
  | .writeHeaders off d => off ≤ p.headers.length ∧ off + d.length ≤ Nh
  | .writeTxCounts off d => off ≤ p.txcounts.length ∧ off + d.length ≤ Nc
  | .writeHashes off d => off ≤ p.hashes.length ∧ off + d.length ≤ Nx
  | _ => True

theorem TailLen.applyEffect {Nh Nc Nx : Nat} {p q : Store} (T : TailLen Nh Nc Nx p q) {e : Effect}
    (he : InWin Nh Nc Nx p e) : TailLen Nh Nc Nx p (applyEffect q e) := by
  cases e with
  | writeHeaders off d =>
    have hq : off ≤ q.headers.length := Nat.le_trans he.1 T.lh
    refine ⟨⟨?_, T.t.txcounts, T.t.hashes⟩, ?_, T.lc, T.lx⟩
    · show (fileWrite q.headers off d).drop Nh = _
      rw [drop_fileWrite_of_le d hq he.2]; exact T.t.headers
    · exact Nat.le_trans T.lh (length_fileWrite_ge _ _ _ hq)
  | writeTxCounts off d =>
    have hq : off ≤ q.txcounts.length := Nat.le_trans he.1 T.lc
    refine ⟨⟨T.t.headers, ?_, T.t.hashes⟩, T.lh, ?_, T.lx⟩
    · show (fileWrite q.txcounts off d).drop Nc = _
      rw [drop_fileWrite_of_le d hq he.2]; exact T.t.txcounts
    · exact Nat.le_trans T.lc (length_fileWrite_ge _ _ _ hq)
  | writeHashes off d =>
    have hq : off ≤ q.hashes.length := Nat.le_trans he.1 T.lx
    refine ⟨⟨T.t.headers, T.t.txcounts, ?_⟩, T.lh, T.lc, ?_⟩
    · show (fileWrite q.hashes off d).drop Nx = _
      rw [drop_fileWrite_of_le d hq he.2]; exact T.t.hashes
    · exact Nat.le_trans T.lx (length_fileWrite_ge _ _ _ hq)
  | histBatch dels puts st => exact ⟨⟨T.t.headers, T.t.txcounts, T.t.hashes⟩, T.lh, T.lc, T.lx⟩
  | utxoBatch d hp up ud upp st =>
    obtain ⟨-, -, h1, h2, h3⟩ := utxoBatch_others q d hp up ud upp st
    refine ⟨⟨?_, ?_, ?_⟩, ?_, ?_, ?_⟩
    · rw [h1]; exact T.t.headers
    · rw [h2]; exact T.t.txcounts
    · rw [h3]; exact T.t.hashes
    · rw [h1]; exact T.lh
    · rw [h2]; exact T.lc
    · rw [h3]; exact T.lx
  | putUState st => exact ⟨⟨T.t.headers, T.t.txcounts, T.t.hashes⟩, T.lh, T.lc, T.lx⟩

theorem InWin.torn {Nh Nc Nx : Nat} {p : Store} {e t : Effect} (he : InWin Nh Nc Nx p e)
    (ht : t ∈ tornPrefixes e) : InWin Nh Nc Nx p t := by
  cases e <;> simp only [tornPrefixes, List.mem_map, List.mem_range, List.not_mem_nil] at ht
  all_goals first
    | (obtain ⟨j, hj, rfl⟩ := ht
       refine ⟨he.1, ?_⟩
       have := he.2
       simp only [List.length_take]
       omega)
    | exact ht.elim

theorem TailLen.ofCuts {Nh Nc Nx : Nat} {p : Store} {es : List Effect}
    (hes : ∀ e ∈ es, InWin Nh Nc Nx p e) {c : List Effect} (hc : c ∈ cuts es) {q : Store}
    (hq : TailLen Nh Nc Nx p q) : TailLen Nh Nc Nx p (applyEffects q c) := by
  induction es generalizing c q with
  | nil =>
    simp only [cuts, List.mem_singleton] at hc
    subst hc
    exact hq
  | cons e es ih =>
    simp only [cuts, List.mem_cons, List.mem_append, List.mem_map] at hc
    rcases hc with rfl | ⟨t, ht, rfl⟩ | ⟨c0, hc0, rfl⟩
    · exact hq
    · exact hq.applyEffect ((hes e (List.mem_cons_self ..)).torn ht)
    · show TailLen Nh Nc Nx p (applyEffects (EV.Index.applyEffect q e) c0)
      exact ih (fun e' he' => hes e' (List.mem_cons_of_mem _ he')) hc0
        (hq.applyEffect (hes e (List.mem_cons_self ..)))

/-- the file writes of a flush stay below the tip being flushed -/
theorem flush_inWin {chain : List Block} {s : Sys} (f : FilesInv chain s) {fu : Bool}
    {es : List Effect} {m' : Mem} (hf : flushDbs s fu = some (es, m')) :
    ∀ e ∈ es, InWin (s.m.st.height + 1).toNat (s.m.st.height + 1).toNat s.m.st.txCount s.p e := by
  obtain ⟨l1, l2, l3⟩ := filesInv_lens f
  have hpr := priorTx_eq f
  have hord := f.order
  have hh : flushFsAsserts s = true →
      ∀ e ∈ flushHead s, InWin (s.m.st.height + 1).toNat (s.m.st.height + 1).toNat s.m.st.txCount s.p e := by
    intro hfa e he
    obtain ⟨a1, a2, a3⟩ := flushFsAsserts_spec hfa
    simp only [flushHead, flushFsEffects, histFlushEffect, List.cons_append, List.nil_append,
      List.mem_cons, List.not_mem_nil, or_false] at he
    rcases he with rfl | rfl | rfl | rfl
    · exact ⟨l1, by omega⟩
    · exact ⟨l2, by rw [List.length_drop]; omega⟩
    · refine ⟨?_, ?_⟩
      · show priorTx s ≤ _
        omega
      · show priorTx s + _ ≤ _
        omega
    · trivial
  rcases flushDbs_cases hf with ⟨rfl, -⟩ | ⟨hfa, -, -, rfl | rfl⟩
  · simp
  · exact hh hfa
  · intro e he
    rcases List.mem_append.mp he with h | h
    · exact hh hfa e h
    · simp only [utxoBatchEffect, List.mem_cons, List.not_mem_nil, or_false] at h
      rcases h with rfl | rfl <;> trivial

/-- **After any cut of a flush the files agree with the uncut store from the old tip on.** -/
theorem tailEq_of_cut {chain : List Block} {s : Sys} (f : FilesInv chain s) {fu : Bool}
    {es : List Effect} {m' : Mem} (hf : flushDbs s fu = some (es, m')) {c : List Effect}
    (hc : c ∈ cuts es) :
    TailEq (s.m.st.height + 1).toNat (s.m.st.height + 1).toNat s.m.st.txCount s.p (applyEffects s.p c) :=
  (TailLen.ofCuts (flush_inWin f hf) hc (TailLen.refl _ _ _ _)).t

/-! ### a crash in a `ResEq` state (any number of crashes)

The same flush, cut at the same point, on two `ResEq` stores: the cut stores still agree up to the
file pointers (the writes start exactly there), so their restarts are `ResEq`. -/

theorem StEq.trans {Nh Nc Nx : Nat} {p q r : Store} (e1 : StEq Nh Nc Nx p q) (e2 : StEq Nh Nc Nx q r) :
    StEq Nh Nc Nx p r :=
  ⟨e2.h.trans e1.h, e2.u.trans e1.u, e2.undo.trans e1.undo, e2.ustate.trans e1.ustate,
    e2.hist.trans e1.hist, e2.hfc.trans e1.hfc, e2.headers.trans e1.headers,
    e2.txcounts.trans e1.txcounts, e2.hashes.trans e1.hashes⟩

theorem ResEq.trans {a b c : Sys} (R1 : ResEq a b) (R2 : ResEq b c) : ResEq a c := by
  refine ⟨R2.m.trans R1.m, R1.st.trans ?_⟩
  have := R2.st
  rw [R1.m] at this
  exact this

/-- relations between two stores that every effect with property `P` keeps are kept by every cut
    of a list of such effects -/
theorem cuts_induct {P : Effect → Prop} {Rel : Store → Store → Prop}
    (hstep : ∀ p q e, P e → Rel p q → Rel (applyEffect p e) (applyEffect q e))
    (htorn : ∀ e t, P e → t ∈ tornPrefixes e → P t)
    {es : List Effect} (hes : ∀ e ∈ es, P e) {c : List Effect} (hc : c ∈ cuts es) {p q : Store}
    (h : Rel p q) : Rel (applyEffects p c) (applyEffects q c) := by
  induction es generalizing c p q with
  | nil =>
    simp only [cuts, List.mem_singleton] at hc
    subst hc
    exact h
  | cons e es ih =>
    simp only [cuts, List.mem_cons, List.mem_append, List.mem_map] at hc
    rcases hc with rfl | ⟨t, ht, rfl⟩ | ⟨c0, hc0, rfl⟩
    · exact h
    · exact hstep p q t (htorn e t (hes e (List.mem_cons_self ..)) ht) h
    · show Rel (applyEffects (applyEffect p e) c0) (applyEffects (applyEffect q e) c0)
      exact ih (fun e' he' => hes e' (List.mem_cons_of_mem _ he')) hc0
        (hstep p q e (hes e (List.mem_cons_self ..)) h)

/-- a file write that starts exactly at the agreed length of its file (batches: no condition) -/
def AtBound (Nh Nc Nx : Nat) : Effect → Prop
  | .writeHeaders off _ => off = Nh
  | .writeTxCounts off _ => off = Nc
  | .writeHashes off _ => off = Nx
  | _ => True

theorem StEq.sameEffect {Nh Nc Nx : Nat} {p q : Store} (e : StEq Nh Nc Nx p q) {x : Effect}
    (hx : AtBound Nh Nc Nx x) : StEq Nh Nc Nx (applyEffect p x) (applyEffect q x) := by
  cases x with
  | writeHeaders off d =>
    have hx' : off = Nh := hx
    subst hx'
    exact ⟨e.h, e.u, e.undo, e.ustate, e.hist, e.hfc,
      fileWrite_take_congr d e.headers (Nat.le_add_right _ _), e.txcounts, e.hashes⟩
  | writeTxCounts off d =>
    have hx' : off = Nc := hx
    subst hx'
    exact ⟨e.h, e.u, e.undo, e.ustate, e.hist, e.hfc, e.headers,
      fileWrite_take_congr d e.txcounts (Nat.le_add_right _ _), e.hashes⟩
  | writeHashes off d =>
    have hx' : off = Nx := hx
    subst hx'
    exact ⟨e.h, e.u, e.undo, e.ustate, e.hist, e.hfc, e.headers, e.txcounts,
      fileWrite_take_congr d e.hashes (Nat.le_add_right _ _)⟩
  | histBatch dels puts st => exact e.histBatch dels puts rfl
  | utxoBatch d hp up ud upp st => exact e.utxoBatch d hp up ud upp st
  | putUState st => exact e.putUState st

theorem AtBound.torn {Nh Nc Nx : Nat} {e t : Effect} (he : AtBound Nh Nc Nx e)
    (ht : t ∈ tornPrefixes e) : AtBound Nh Nc Nx t := by
  cases e <;> simp only [tornPrefixes, List.mem_map, List.mem_range, List.not_mem_nil] at ht
  all_goals first
    | (obtain ⟨j, _, rfl⟩ := ht; exact he)
    | exact ht.elim

/-- the writes of a flush start exactly at the file pointers -/
theorem flush_atBound {chain : List Block} {s : Sys} (f : FilesInv chain s) {fu : Bool}
    {es : List Effect} {m' : Mem} (hf : flushDbs s fu = some (es, m')) :
    ∀ e ∈ es, AtBound (s.m.fsHeight + 1).toNat (s.m.fsHeight + 1).toNat s.m.fsTxCount e := by
  have hpr := priorTx_eq f
  have hh : ∀ e ∈ flushHead s,
      AtBound (s.m.fsHeight + 1).toNat (s.m.fsHeight + 1).toNat s.m.fsTxCount e := by
    intro e he
    simp only [flushHead, flushFsEffects, histFlushEffect, List.cons_append, List.nil_append,
      List.mem_cons, List.not_mem_nil, or_false] at he
    rcases he with rfl | rfl | rfl | rfl
    · exact rfl
    · exact rfl
    · exact hpr
    · trivial
  rcases flushDbs_cases hf with ⟨rfl, -⟩ | ⟨-, -, -, rfl | rfl⟩
  · simp
  · exact hh
  · intro e he
    rcases List.mem_append.mp he with h | h
    · exact hh e h
    · simp only [utxoBatchEffect, List.mem_cons, List.not_mem_nil, or_false] at h
      rcases h with rfl | rfl <;> trivial

/-- **The same cut of the same flush on two `ResEq` stores** leaves stores that still agree up to
the file pointers. -/
theorem stEq_cut {chain : List Block} {a b : Sys} (f : FilesInv chain a) (R : ResEq a b) {fu : Bool}
    {es : List Effect} {m' : Mem} (hf : flushDbs a fu = some (es, m')) {c : List Effect}
    (hc : c ∈ cuts es) :
    StEq (a.m.fsHeight + 1).toNat (a.m.fsHeight + 1).toNat a.m.fsTxCount
      (applyEffects a.p c) (applyEffects b.p c) :=
  cuts_induct (P := AtBound (a.m.fsHeight + 1).toNat (a.m.fsHeight + 1).toNat a.m.fsTxCount)
    (Rel := StEq (a.m.fsHeight + 1).toNat (a.m.fsHeight + 1).toNat a.m.fsTxCount)
    (fun _ _ _ hx e => e.sameEffect hx) (fun _ _ he ht => he.torn ht) (flush_atBound f hf) hc R.st

/-- restarting on two stores that agree on everything `_open_dbs` looks at -/
theorem resEq_recover_of_stEq {cfg : Cfg} {p q : Store} {Nh Nc Nx : Nat} (e : StEq Nh Nc Nx p q)
    (h1 : ((p.ustate.getD {}).height + 1).toNat ≤ Nh) (h2 : ((p.ustate.getD {}).height + 1).toNat ≤ Nc)
    (h3 : (p.ustate.getD {}).txCount ≤ Nx) {e0 : List Effect} {r0 : Sys}
    (h0 : recover cfg p = some (e0, r0)) :
    ∃ e1 r1, recover cfg q = some (e1, r1) ∧ ResEq r0 r1 := by
  have hst := e.openState
  have hheight : (openState p false).1.height = (p.ustate.getD {}).height := openState_height p false
  have htx : (openState p false).1.txCount = (p.ustate.getD {}).txCount := by simp [openState]
  have e2 := (e.openStore cfg).mono (Nh' := ((openState p false).1.height + 1).toNat)
    (Nc' := ((openState p false).1.height + 1).toNat) (Nx' := (openState p false).1.txCount)
    (by omega) (by omega) (by omega)
  have htc : openTxCounts (openStore cfg q) (openState q false).1 none =
      openTxCounts (openStore cfg p) (openState p false).1 none := by
    rw [hst]
    exact openTxCounts_congr _ e2.txcounts
  unfold recover openDbs at h0 ⊢
  rw [htc]
  cases hl : openTxCounts (openStore cfg p) (openState p false).1 none with
  | none => rw [hl] at h0; simp at h0
  | some l =>
    rw [hl] at h0
    simp only [Option.some.injEq, Prod.mk.injEq] at h0
    obtain ⟨-, rfl⟩ := h0
    refine ⟨_, _, rfl, ?_, e2⟩
    simp only [hst]

end EV.Index

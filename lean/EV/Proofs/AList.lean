import EV.Model.Index

/-! Association-list facts (`alookup`, `aerase`, `ainsert`) used by the index proofs. Core only. -/
namespace EV.Index

variable {κ ν : Type} [DecidableEq κ]

@[simp] theorem alookup_nil (k : κ) : alookup k ([] : List (κ × ν)) = none := rfl

theorem alookup_cons (k k' : κ) (v : ν) (l : List (κ × ν)) :
    alookup k ((k', v) :: l) = if k' = k then some v else alookup k l := rfl

theorem alookup_aerase (k k' : κ) (l : List (κ × ν)) :
    alookup k (aerase k' l) = if k' = k then none else alookup k l := by
  induction l with
  | nil => simp [aerase]
  | cons e l ih =>
    obtain ⟨a, v⟩ := e
    simp only [aerase, List.filter_cons] at ih ⊢
    by_cases h1 : a = k'
    · subst h1
      simp only [decide_true, Bool.not_true]
      rw [if_neg (by simp)]
      rw [ih]
      by_cases h2 : a = k
      · simp [h2]
      · simp [h2, alookup_cons]
    · simp only [h1, decide_false, Bool.not_false, if_true, alookup_cons]
      by_cases h2 : a = k
      · subst h2; simp [Ne.symm h1]
      · simp [h2, ih]

theorem alookup_ainsert (k k' : κ) (v : ν) (l : List (κ × ν)) :
    alookup k (ainsert k' v l) = if k' = k then some v else alookup k l := by
  simp only [ainsert, alookup_cons, alookup_aerase]
  by_cases h : k' = k <;> simp [h]

theorem alookup_some_mem {k : κ} {v : ν} {l : List (κ × ν)} (h : alookup k l = some v) :
    (k, v) ∈ l := by
  induction l with
  | nil => simp at h
  | cons e l ih =>
    obtain ⟨a, w⟩ := e
    rw [alookup_cons] at h
    by_cases h1 : a = k
    · simp [h1] at h; subst h1; subst h; simp
    · simp [h1] at h; exact List.mem_cons_of_mem _ (ih h)

theorem alookup_none_of_not_mem_keys {k : κ} {l : List (κ × ν)} (h : k ∉ l.map (·.1)) :
    alookup k l = none := by
  induction l with
  | nil => rfl
  | cons e l ih =>
    obtain ⟨a, w⟩ := e
    simp only [List.map_cons, List.mem_cons, not_or] at h
    rw [alookup_cons, if_neg (Ne.symm h.1)]
    exact ih h.2

theorem alookup_isSome_iff_mem_keys {k : κ} {l : List (κ × ν)} :
    (alookup k l).isSome ↔ k ∈ l.map (·.1) := by
  induction l with
  | nil => simp
  | cons e l ih =>
    obtain ⟨a, w⟩ := e
    rw [alookup_cons]
    by_cases h1 : a = k
    · simp [h1]
    · simp only [h1, if_false, List.map_cons, List.mem_cons, ih]
      constructor
      · intro h; exact Or.inr h
      · rintro (h | h)
        · exact absurd h.symm h1
        · exact h

/-- with unique keys, membership determines lookup -/
theorem alookup_of_mem_nodup {k : κ} {v : ν} {l : List (κ × ν)} (hn : (l.map (·.1)).Nodup)
    (h : (k, v) ∈ l) : alookup k l = some v := by
  induction l with
  | nil => simp at h
  | cons e l ih =>
    obtain ⟨a, w⟩ := e
    simp only [List.map_cons, List.nodup_cons] at hn
    rw [alookup_cons]
    rcases List.mem_cons.mp h with h1 | h1
    · simp at h1; simp [h1.1, h1.2]
    · have : a ≠ k := by
        intro heq; subst heq
        exact hn.1 (List.mem_map.mpr ⟨(a, v), h1, rfl⟩)
      rw [if_neg this]; exact ih hn.2 h1

theorem keys_aerase_sub (k : κ) (l : List (κ × ν)) :
    ∀ x ∈ (aerase k l).map (·.1), x ∈ l.map (·.1) ∧ x ≠ k := by
  intro x hx
  simp only [aerase, List.mem_map, List.mem_filter] at hx ⊢
  obtain ⟨e, ⟨he, hne⟩, rfl⟩ := hx
  exact ⟨⟨e, he, rfl⟩, by simpa using hne⟩

theorem nodup_keys_aerase (k : κ) {l : List (κ × ν)} (hn : (l.map (·.1)).Nodup) :
    ((aerase k l).map (·.1)).Nodup := by
  simp only [aerase]
  exact List.Nodup.sublist (List.Sublist.map _ List.filter_sublist) hn

theorem nodup_keys_ainsert (k : κ) (v : ν) {l : List (κ × ν)} (hn : (l.map (·.1)).Nodup) :
    ((ainsert k v l).map (·.1)).Nodup := by
  simp only [ainsert, List.map_cons, List.nodup_cons]
  refine ⟨?_, nodup_keys_aerase k hn⟩
  intro h
  exact (keys_aerase_sub k l k h).2 rfl

/-- extensional equality of association lists as maps -/
def MapEq (a b : List (κ × ν)) : Prop := ∀ k, alookup k a = alookup k b

theorem MapEq.refl (a : List (κ × ν)) : MapEq a a := fun _ => rfl

theorem MapEq.symm {a b : List (κ × ν)} (h : MapEq a b) : MapEq b a := fun k => (h k).symm

theorem MapEq.trans {a b c : List (κ × ν)} (h1 : MapEq a b) (h2 : MapEq b c) : MapEq a c :=
  fun k => (h1 k).trans (h2 k)

theorem MapEq.aerase {a b : List (κ × ν)} (h : MapEq a b) (k : κ) :
    MapEq (Index.aerase k a) (Index.aerase k b) := by
  intro x; rw [alookup_aerase, alookup_aerase, h x]

theorem MapEq.ainsert {a b : List (κ × ν)} (h : MapEq a b) (k : κ) (v : ν) :
    MapEq (Index.ainsert k v a) (Index.ainsert k v b) := by
  intro x; rw [alookup_ainsert, alookup_ainsert, h x]

/-- erasing a key that was just inserted on a map that did not have it gives the map back -/
theorem MapEq.aerase_ainsert {a : List (κ × ν)} {k : κ} (v : ν) (h : alookup k a = none) :
    MapEq (Index.aerase k (Index.ainsert k v a)) a := by
  intro x
  rw [alookup_aerase, alookup_ainsert]
  by_cases hx : k = x
  · subst hx; simp [h]
  · simp [hx]

/-- re-inserting what was erased gives the map back -/
theorem MapEq.ainsert_aerase {a : List (κ × ν)} {k : κ} {v : ν} (h : alookup k a = some v) :
    MapEq (Index.ainsert k v (Index.aerase k a)) a := by
  intro x
  rw [alookup_ainsert, alookup_aerase]
  by_cases hx : k = x
  · subst hx; simp [h]
  · simp [hx]

end EV.Index

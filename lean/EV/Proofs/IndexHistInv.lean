import EV.Proofs.IndexHist

/-!
The history invariant: for every script hash, the rows in flush-id order followed by the unflushed
tail are exactly the specification's history — preserved by `advance_block` (`add_unflushed`),
by every `History.flush` (history-only or full), and by `History.backup`.
-/
namespace EV.Index
open EV.Spec

structure HistInv (S : St) (p : Store) (unf : List (HashX × List Nat)) (histFlush : Nat) : Prop where
  wf : HistWF p.hist histFlush
  unfKeys : (unf.map (·.1)).Nodup
  eq : ∀ hx, getTxnums p hx none ++ unfOf unf hx = historyOf S hx

theorem histInv_init : HistInv {} {} [] 0 :=
  ⟨⟨by simp, by simp⟩, by simp, by intro hx; simp [getTxnums, unfOf, historyOf]⟩

/-- the spec keeps one touched entry per tx -/
theorem touched_length_foldl (act height : Nat) (S : St) (txs : List Tx)
    (hlen : S.touched.length = S.txs.length) :
    (txs.foldl (applyTx act height) S).touched.length = (txs.foldl (applyTx act height) S).txs.length := by
  rw [foldl_touched, foldl_txs]
  simp [blockTouched_length, hlen]

theorem histInv_advance {S : St} {p : Store} {unf : List (HashX × List Nat)} {fc : Nat}
    (hinv : HistInv S p unf fc) (hlen : S.touched.length = S.txs.length)
    (act height : Nat) (txs : List Tx) :
    HistInv (txs.foldl (applyTx act height) S) p
      (addUnflushed unf (blockTouched act height S txs) S.txs.length) fc := by
  refine ⟨hinv.wf, nodup_keys_addUnflushed _ _ _ hinv.unfKeys, ?_⟩
  intro hx
  rw [unfOf_addUnflushed, historyOf_foldl act height S txs hlen hx, ← List.append_assoc, hinv.eq hx,
    blockTouched_length]

theorem histInv_flush {S : St} (s : Sys) (hinv : HistInv S s.p s.m.unflushed s.m.histFlush) :
    HistInv S (applyEffect s.p (histFlushEffect s)) [] (s.m.histFlush + 1) := by
  refine ⟨histWF_histFlush s hinv.wf hinv.unfKeys, by simp, ?_⟩
  intro hx
  rw [getTxnums_histFlush s hinv.wf hinv.unfKeys hx]
  simpa [unfOf] using hinv.eq hx

theorem filter_lt_append {A B : List Nat} {n : Nat} (hA : ∀ a ∈ A, a < n) (hB : ∀ b ∈ B, n ≤ b) :
    (A ++ B).filter (· < n) = A := by
  rw [List.filter_append]
  have h1 : A.filter (· < n) = A := List.filter_eq_self.mpr (by intro a ha; simpa using hA a ha)
  have h2 : B.filter (· < n) = [] := List.filter_eq_nil_iff.mpr (by
    intro b hb; simp only [decide_eq_true_eq]; have := hB b hb; omega)
  rw [h1, h2, List.append_nil]

theorem histInv_backup {S : St} (s : Sys) (act height : Nat) (txs : List Tx) (touched : List HashX)
    (hlen : S.touched.length = S.txs.length)
    (hinv : HistInv (txs.foldl (applyTx act height) S) s.p [] s.m.histFlush)
    (htouched : ∀ hx ∈ (blockTouched act height S txs).flatten, hx ∈ touched) :
    HistInv S (applyEffect s.p (histBackupEffect s touched S.txs.length)) [] (s.m.histFlush + 1) := by
  have hasc : ∀ hx, (getTxnums s.p hx none).Pairwise (· < ·) := by
    intro hx
    have := hinv.eq hx
    simp only [unfOf, alookup_nil, Option.getD_none, List.append_nil] at this
    rw [this]; exact historyOf_pairwise _ _
  refine ⟨histWF_histBackup_succ s touched S.txs.length hinv.wf, by simp, ?_⟩
  intro hx
  rw [getTxnums_histBackup s touched S.txs.length hinv.wf hasc hx]
  have heq := hinv.eq hx
  simp only [unfOf, alookup_nil, Option.getD_none, List.append_nil] at heq ⊢
  rw [heq, historyOf_foldl act height S txs hlen hx]
  split
  · apply filter_lt_append
    · intro a ha; have := historyOf_lt S hx a ha; omega
    · intro b hb
      simp only [List.mem_map] at hb
      obtain ⟨k, _, rfl⟩ := hb
      omega
  · next hnot =>
    -- hx is not touched by the block: the new part is empty
    have : (List.range txs.length).filter
        (fun k => ((blockTouched act height S txs).getD k []).contains hx) = [] := by
      apply List.filter_eq_nil_iff.mpr
      intro k hk
      simp only [List.mem_range] at hk
      simp only [Bool.not_eq_true, List.contains_eq_mem, decide_eq_false_iff_not]
      intro hmem
      apply hnot
      apply htouched
      simp only [List.mem_flatten]
      refine ⟨(blockTouched act height S txs).getD k [], ?_, hmem⟩
      rw [List.getD_eq_getElem?_getD, List.getElem?_eq_getElem (by rw [blockTouched_length]; exact hk)]
      simp
    rw [this]; simp

/-- what `limited_history` reads on a flushed history -/
theorem getTxnums_flushed {S : St} {p : Store} {fc : Nat} (hinv : HistInv S p [] fc) (hx : HashX)
    (limit : Option Nat) :
    getTxnums p hx limit =
      match limit with
      | none => historyOf S hx
      | some k => (historyOf S hx).take k := by
  have heq := hinv.eq hx
  simp only [unfOf, alookup_nil, Option.getD_none, List.append_nil] at heq
  cases limit with
  | none => exact heq
  | some k => rw [getTxnums_some, heq]

end EV.Index

import EV.Proofs.CarrierModel

/-!
`ChainState.first_sync` is never read by `advance_block`, `flush_dbs`, `backup_block` or
`flush_backup`: it is only copied (into `DB.state` and the state record by a UTXO flush).
`on_caught_up` clears the flag in `BlockProcessor.state` *before* its flush, and when that flush is
the early return of `flush_dbs` (nothing to flush) `DB.state` keeps the old flag — the one situation
in which the whole-run invariant `FullInv'` (clause `dbEq`: `DB.state` is the processor's state when
the heights agree) does not hold literally.  So the loop proofs keep the invariant on a *ghost*
system that never clears the flag and relate the real system to it by `setFS` (same system, other
flags); this file shows that the three operations commute with `setFS`.
Core only.
-/
namespace EV.Index
open EV.Spec

/-- the same system with other `first_sync` flags in `BlockProcessor.state`, `DB.state` and the
    persisted state record -/
def setFS (s : Sys) (f1 f2 f3 : Bool) : Sys :=
  { m := { s.m with st := { s.m.st with firstSync := f1 }, dbst := { s.m.dbst with firstSync := f2 } },
    p := { s.p with ustate := s.p.ustate.map (fun x => { x with firstSync := f3 }) } }

theorem uAgree_setFS (s : Sys) (f1 f2 f3 : Bool) : UAgree s (setFS s f1 f2 f3) :=
  ⟨rfl, rfl, rfl, rfl, rfl, rfl, rfl⟩

@[simp] theorem setFS_touched (s : Sys) (f1 f2 f3 : Bool) :
    (setFS s f1 f2 f3).m.touched = s.m.touched := rfl

theorem setFS_setFS (s : Sys) (f1 f2 f3 g1 g2 g3 : Bool) :
    setFS (setFS s f1 f2 f3) g1 g2 g3 = setFS s g1 g2 g3 := by
  simp only [setFS, Option.map_map]
  rfl

theorem setTouched_setFS (s : Sys) (f1 f2 f3 : Bool) (T : List HashX) :
    setTouched (setFS s f1 f2 f3) T = setFS (setTouched s T) f1 f2 f3 := rfl

/-! ### the loops of `advance_block` run in lock step on systems that agree on the UTXO view -/

theorem spendInputs_sim (ins : List TxIn) :
    ∀ (a a' : Acc Sys) (hxs hxs' : List HashX) (t : Sys), UAgree a.s t →
      spendInputs sysOps ins a hxs = .ok (a', hxs') →
      ∃ c d, a'.s = setCD a.s c d ∧
        spendInputs sysOps ins { a with s := t } hxs = .ok ({ a' with s := setCD t c d }, hxs') := by
  induction ins with
  | nil =>
    intro a a' hxs hxs' t h hs
    simp only [spendInputs, Except.ok.injEq, Prod.mk.injEq] at hs
    obtain ⟨rfl, rfl⟩ := hs
    exact ⟨a.s.m.cache, a.s.m.deletes, rfl, by simp only [spendInputs, h.setCD_self]⟩
  | cons i rest ih =>
    intro a a' hxs hxs' t h hs
    simp only [spendInputs] at hs ⊢
    split at hs
    · next hg =>
      simp only [hg, if_true]
      exact ih a a' hxs hxs' t h hs
    · next hg =>
      simp only [hg, if_false, Bool.false_eq_true]
      split at hs
      · simp at hs
      · next cv s1 hsp =>
        obtain ⟨c, d, rfl, ht⟩ := spendUtxo_sim h (show spendUtxo a.s i.prev i.idx = _ from hsp)
        obtain ⟨c', d', hs', ht'⟩ := ih
          { a with s := setCD a.s c d, undo := a.undo ++ [cv], delta := a.delta - 1 } a'
          (hxs ++ [cv.hx]) hxs' (setCD t c d) (h.setCD c d) hs
        refine ⟨c', d', hs', ?_⟩
        have ht2 : sysOps.spend t i.prev i.idx = Except.ok (cv, setCD t c d) := ht
        simp only [ht2]
        exact ht'

theorem addOutputs_sim (cfg : Cfg) (height : Nat) (txid : Hash) (txNum : Nat) (outs : List TxOut) :
    ∀ (idx : Nat) (a : Acc Sys) (hxs : List HashX) (t : Sys), UAgree a.s t →
      ∃ c d, (addOutputs sysOps cfg height txid txNum outs idx a hxs).1.s = setCD a.s c d ∧
        addOutputs sysOps cfg height txid txNum outs idx { a with s := t } hxs =
          ({ (addOutputs sysOps cfg height txid txNum outs idx a hxs).1 with s := setCD t c d },
           (addOutputs sysOps cfg height txid txNum outs idx a hxs).2) := by
  induction outs with
  | nil =>
    intro idx a hxs t h
    exact ⟨a.s.m.cache, a.s.m.deletes, rfl, by simp only [addOutputs, h.setCD_self]⟩
  | cons o rest ih =>
    intro idx a hxs t h
    simp only [addOutputs]
    split
    · exact ih (idx + 1) a hxs t h
    · have hag : UAgree (sysOps.add a.s txid idx ⟨o.hx, txNum, o.value⟩)
          (sysOps.add t txid idx ⟨o.hx, txNum, o.value⟩) := by
        refine ⟨?_, h.deletes, h.h, h.u, h.txCounts, h.height, h.hashes⟩
        show ainsert _ _ t.m.cache = ainsert _ _ a.s.m.cache
        rw [h.cache]
      obtain ⟨c, d, h1, h2⟩ := ih (idx + 1)
        { a with s := sysOps.add a.s txid idx ⟨o.hx, txNum, o.value⟩, delta := a.delta + 1 }
        (hxs ++ [o.hx]) (sysOps.add t txid idx ⟨o.hx, txNum, o.value⟩) hag
      refine ⟨c, d, ?_, h2⟩
      rw [h1]; rfl

theorem advanceTxs_sim (cfg : Cfg) (height : Nat) (txs : List Tx) :
    ∀ (a a' : Acc Sys) (t : Sys), UAgree a.s t →
      advanceTxs sysOps cfg height txs a = .ok a' →
      ∃ c d, a'.s = setCD a.s c d ∧
        advanceTxs sysOps cfg height txs { a with s := t } = .ok { a' with s := setCD t c d } := by
  induction txs with
  | nil =>
    intro a a' t h hs
    simp only [advanceTxs, Except.ok.injEq] at hs
    subst hs
    exact ⟨a.s.m.cache, a.s.m.deletes, rfl, by simp only [advanceTxs, h.setCD_self]⟩
  | cons tx rest ih =>
    intro a a' t h hs
    simp only [advanceTxs] at hs ⊢
    split at hs
    · simp at hs
    · next a1 hxs1 h1 =>
      obtain ⟨c1, d1, e1, t1⟩ := spendInputs_sim tx.ins a a1 [] hxs1 t h h1
      rw [t1]
      simp only
      have hag1 : UAgree a1.s (setCD t c1 d1) := by rw [e1]; exact h.setCD c1 d1
      obtain ⟨c2, d2, e2, t2⟩ := addOutputs_sim cfg height tx.id a1.txNum tx.outs 0 a1 hxs1
        (setCD t c1 d1) hag1
      rw [t2]
      have hag2 : UAgree (finishTx (addOutputs sysOps cfg height tx.id a1.txNum tx.outs 0 a1 hxs1) tx.id).s
          (setCD t c2 d2) := by
        show UAgree (addOutputs sysOps cfg height tx.id a1.txNum tx.outs 0 a1 hxs1).1.s _
        rw [e2, e1]; exact h.setCD c2 d2
      obtain ⟨c3, d3, e3, t3⟩ := ih _ a' (setCD t c2 d2) hag2 hs
      refine ⟨c3, d3, ?_, t3⟩
      rw [e3]
      show setCD (addOutputs sysOps cfg height tx.id a1.txNum tx.outs 0 a1 hxs1).1.s c3 d3 = _
      rw [e2, e1]
      rfl

/-! ### `advance_block` -/

theorem advance_setFS {cfg : Cfg} {dH : Int} {s s' : Sys} {b : Block}
    (h : advance cfg dH s b = .ok s') (f1 f2 f3 : Bool) :
    advance cfg dH (setFS s f1 f2 f3) b = .ok (setFS s' f1 f2 f3) := by
  unfold advance at h
  split at h
  · simp at h
  · next hprev =>
    dsimp only at h
    split at h
    · simp at h
    · next a ha =>
      obtain ⟨c, d, has, hsim⟩ := advanceTxs_sim cfg _ b.txs _ a (setFS s f1 f2 f3)
        (uAgree_setFS s f1 f2 f3) ha
      simp only [Except.ok.injEq] at h
      subst h
      have hsim' : advanceTxs sysOps cfg ((setFS s f1 f2 f3).m.st.height + 1).toNat b.txs
          { s := setFS s f1 f2 f3, txNum := (setFS s f1 f2 f3).m.st.txCount } =
          .ok { a with s := setCD (setFS s f1 f2 f3) c d } := hsim
      have hprev' : ¬ b.prev ≠ (setFS s f1 f2 f3).m.st.tip := hprev
      unfold advance
      rw [if_neg hprev']
      simp only [hsim']
      rw [has]
      rfl

/-! ### effects on stores that differ in the state record -/

def setUS (p : Store) (x : Option CState) : Store := { p with ustate := x }

theorem foldl_applyDelKey_setUS (dels : List DelKey) (p : Store) (x : Option CState) :
    dels.foldl applyDelKey (setUS p x) = setUS (dels.foldl applyDelKey p) x := by
  induction dels generalizing p with
  | nil => rfl
  | cons k r ih =>
    cases k with
    | h k => exact ih (applyDelKey p (.h k))
    | u k => exact ih (applyDelKey p (.u k))

/-- a UTXO batch that writes a state record: the previous record does not matter, and the record
    written matters for nothing else -/
theorem utxoBatch_setUS (p : Store) (x : Option CState) (d : List DelKey) (hp : List (HKey × HashX))
    (up : List (UKey × Nat)) (ud : List Nat) (upp : List (Nat × List CacheVal)) (st st' : CState) :
    applyEffect (setUS p x) (.utxoBatch d hp up ud upp (some st)) =
      setUS (applyEffect p (.utxoBatch d hp up ud upp (some st'))) (some st) := by
  simp only [applyEffect, foldl_applyDelKey_setUS]
  rfl

/-! ### flushes -/

theorem flushHistStep_setFS (s : Sys) (f1 f2 f3 : Bool) :
    flushHistStep (setFS s f1 f2 f3) = setFS (flushHistStep s) f1 f2 f3 := rfl

theorem flushUtxoStep_setFS (s : Sys) (f1 f2 f3 : Bool) :
    flushUtxoStep (setFS s f1 f2 f3) = setFS (flushUtxoStep s) f1 f1 f1 := by
  have h := utxoBatch_setUS s.p (s.p.ustate.map (fun x => { x with firstSync := f3 }))
    s.m.deletes
    (s.m.cache.map (fun ((txid, idx), cv) => ((pfx txid, idx, cv.txnum), cv.hx)))
    (s.m.cache.map (fun ((_, idx), cv) => ((cv.hx, idx, cv.txnum), cv.value)))
    [] (s.m.undoU.map (fun (ui, h) => (h, ui))) { s.m.st with firstSync := f1 } s.m.st
  simp only [flushUtxoStep, setFS, applyEffects, List.foldl_cons, List.foldl_nil, utxoBatchEffect]
  simp only [setUS] at h
  rw [h]
  rfl

theorem assertFlushed_setFS (s : Sys) (f1 f2 f3 : Bool) :
    assertFlushed (setFS s f1 f2 f3) = assertFlushed s := rfl

theorem flushFsAsserts_setFS (s : Sys) (f1 f2 f3 : Bool) :
    flushFsAsserts (setFS s f1 f2 f3) = flushFsAsserts s := rfl

/-- flushes commute with `setFS` (a full flush copies the processor's flag everywhere) -/
theorem flush_setFS {s s' : Sys} {fu : Bool} (h : flush s fu = .ok s') (f1 f2 f3 : Bool) :
    ∃ g2 g3, flush (setFS s f1 f2 f3) fu = .ok (setFS s' f1 g2 g3) := by
  by_cases heq : s.m.st.height = s.m.dbst.height
  · have ha : assertFlushed s = true := by
      cases hb : assertFlushed s with
      | true => rfl
      | false => simp [flush, flushDbs, heq, hb] at h
    rw [flush_noop heq ha] at h
    simp only [Except.ok.injEq] at h
    subst h
    exact ⟨f2, f3, flush_noop (s := setFS s f1 f2 f3) heq ha fu⟩
  · have ha : flushFsAsserts s = true := by
      cases hb : flushFsAsserts s with
      | true => rfl
      | false => simp [flush, flushDbs, heq, hb] at h
    cases fu with
    | false =>
      rw [flush_hist heq ha] at h
      simp only [Except.ok.injEq] at h
      subst h
      exact ⟨f2, f3, by rw [flush_hist (s := setFS s f1 f2 f3) heq ha, flushHistStep_setFS]⟩
    | true =>
      rw [flush_full heq ha] at h
      simp only [Except.ok.injEq] at h
      subst h
      exact ⟨f1, f1, by
        rw [flush_full (s := setFS s f1 f2 f3) heq ha, flushHistStep_setFS, flushUtxoStep_setFS]⟩

/-! ### `backup_block` + `flush_backup` -/

theorem bkResult_setFS (a : Acc Sys) (s : Sys) (b : Block) (c : List ((Hash × Nat) × CacheVal))
    (d : List DelKey) (ha : a.s = setCD s c d) (f1 f2 f3 : Bool) :
    (bkResult { a with s := setCD (setFS s f1 f2 f3) c d } (setFS s f1 f2 f3) b).2 =
      setFS (bkResult a s b).2 f1 f1 f1 := by
  rw [bkResult_explicit a s b c d ha,
    bkResult_explicit { a with s := setCD (setFS s f1 f2 f3) c d } (setFS s f1 f2 f3) b c d rfl]
  have h := utxoBatch_setUS
    (applyEffect s.p (histBackupEffect s (s.m.touched ++ a.touched) (bkSt s.m.st a b).txCount))
    (s.p.ustate.map (fun x => { x with firstSync := f3 }))
    d
    (c.map (fun ((txid, idx), cv) => ((pfx txid, idx, cv.txnum), cv.hx)))
    (c.map (fun ((_, idx), cv) => ((cv.hx, idx, cv.txnum), cv.value)))
    [] (s.m.undoU.map (fun (ui, h) => (h, ui))) { bkSt s.m.st a b with firstSync := f1 }
    (bkSt s.m.st a b)
  simp only [setUS] at h
  simp only [setFS, applyEffects, List.foldl_cons, List.foldl_nil, utxoBatchEffect, setCD]
  congr 1

theorem backupFull_setFS {cfg : Cfg} {s s' : Sys} {b : Block} {es : List Effect}
    (h : backupFull cfg s b = .ok (es, s')) (f1 f2 f3 : Bool) :
    ∃ es', backupFull cfg (setFS s f1 f2 f3) b = .ok (es', setFS s' f1 f1 f1) := by
  rw [backupFull_eq] at h
  split at h
  · simp at h
  next hfa =>
  split at h
  · simp at h
  next hpos =>
  split at h
  · simp at h
  next undo hundo =>
  split at h
  · simp at h
  next a undoLeft hbt =>
  split at h
  · simp at h
  next hempty =>
  simp only [Except.ok.injEq] at h
  obtain ⟨c, d, ha, hsim⟩ := backupTxs_sim cfg s.m.st.height.toNat b.txs.reverse undo
    { s := s, txNum := 0 } a undoLeft (setFS s f1 f2 f3) (uAgree_setFS s f1 f2 f3) hbt
  simp only at ha
  have hsim' : backupTxs sysOps cfg (setFS s f1 f2 f3).m.st.height.toNat b.txs.reverse undo
      { s := setFS s f1 f2 f3, txNum := 0 } =
      .ok ({ a with s := setCD (setFS s f1 f2 f3) c d }, undoLeft) := hsim
  have hfa' : ¬ (!assertFlushed (setFS s f1 f2 f3)) = true := hfa
  have hpos' : ¬ (setFS s f1 f2 f3).m.st.height ≤ 0 := hpos
  have hundo' : alookup (setFS s f1 f2 f3).m.st.height.toNat (setFS s f1 f2 f3).p.undo = some undo :=
    hundo
  refine ⟨(bkResult { a with s := setCD (setFS s f1 f2 f3) c d } (setFS s f1 f2 f3) b).1, ?_⟩
  rw [backupFull_eq, if_neg hfa', if_neg hpos']
  simp only [hundo', hsim', hempty, Bool.false_eq_true, if_false]
  have h2 : s' = (bkResult a s b).2 := by rw [h]
  rw [h2, ← bkResult_setFS a s b c d ha f1 f2 f3]

end EV.Index

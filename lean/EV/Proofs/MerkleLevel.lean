import EV.Proofs.MerkleSpec

/-!
C12, part 2: `Merkle.level` is the `d`-th level of the tree, and a branch assembled from a cached
level plus one `2^d`-aligned segment of leaves is the branch of the whole list.
-/
namespace EV.Merkle

variable {Node : Type} (H : Node → Node → Node)

/-! ### levels distribute over aligned concatenation -/

theorem pairs_append : ∀ (xs ys : List Node), xs.length % 2 = 0 →
    pairs H (xs ++ ys) = pairs H xs ++ pairs H ys
  | [], _, _ => by simp [pairs]
  | [_], _, h => by simp at h
  | a :: b :: rest, ys, h => by
    have := pairs_append rest ys (by simp only [List.length_cons] at h; omega)
    simp only [List.cons_append, pairs, this]

theorem pairs_length_aligned (xs : List Node) (c n : Nat) (h : xs.length = c * 2 ^ (n + 1)) :
    xs.length % 2 = 0 ∧ (pairs H xs).length = c * 2 ^ n := by
  rw [pairs_length, h, Nat.pow_succ, ← Nat.mul_assoc]
  generalize c * 2 ^ n = x
  omega

theorem lvl_append : ∀ (n : Nat) (xs ys : List Node) (c : Nat), xs.length = c * 2 ^ n →
    lvl H n (xs ++ ys) = lvl H n xs ++ lvl H n ys
  | 0, _, _, _, _ => rfl
  | n + 1, xs, ys, c, h => by
    obtain ⟨h1, h2⟩ := pairs_length_aligned H xs c n h
    rw [lvl, lvl, lvl, pairs_append H xs ys h1, lvl_append n _ _ c h2]

theorem lvl_nil : ∀ (n : Nat), lvl H n ([] : List Node) = []
  | 0 => rfl
  | n + 1 => by rw [lvl, pairs, lvl_nil n]

theorem lvl_length_aligned : ∀ (n : Nat) (xs : List Node) (c : Nat), xs.length = c * 2 ^ n →
    (lvl H n xs).length = c
  | 0, xs, c, h => by simpa [lvl] using h
  | n + 1, xs, c, h => by
    rw [lvl, lvl_length_aligned n _ c (pairs_length_aligned H xs c n h).2]

/-- a non-empty list of at most `2^n` nodes has a one-element level `n` -/
theorem lvl_length_small : ∀ (n : Nat) (xs : List Node), 0 < xs.length → xs.length ≤ 2 ^ n →
    (lvl H n xs).length = 1
  | 0, xs, h1, h2 => by simp [lvl] at *; omega
  | n + 1, xs, h1, h2 => by
    rw [lvl]
    apply lvl_length_small n
    · rw [pairs_length]; omega
    · rw [pairs_length]; rw [Nat.pow_succ] at h2; omega

/-! ### `Merkle.level` -/

/-- `branch_and_root` with an explicit `length ≥` the natural one: total, result read off level `l` -/
theorem branchAndRoot_some' (tsc : Bool) (hs : List Node) (idx l : Nat) (h : idx < hs.length)
    (hl : hs.length ≤ 2 ^ l) :
    ∃ r, (lvl H l hs).head? = some r ∧
      branchAndRoot H hs (.int idx) (some (.int l)) tsc = .ok (specBranch H tsc l hs idx, r) := by
  have hcl : Nat.clog 2 hs.length ≤ l := (Nat.clog_le_iff_le_pow (by omega)).mpr hl
  have hne : hs ≠ [] := List.ne_nil_of_length_pos (by omega)
  exact ⟨_, lvl_head H hs hne l hcl, branchAndRoot_some H tsc hs idx l h hcl⟩

theorem root_chunk (chunk : List Node) (d : Nat) (h1 : 0 < chunk.length) (h2 : chunk.length ≤ 2 ^ d) :
    ∃ r, lvl H d chunk = [r] ∧ root H chunk (some (.int d)) = .ok r := by
  obtain ⟨r, hr, hb⟩ := branchAndRoot_some' H false chunk 0 d h1 h2
  have hlen := lvl_length_small H d chunk h1 h2
  refine ⟨r, ?_, ?_⟩
  · cases hL : lvl H d chunk with
    | nil => rw [hL] at hlen; simp at hlen
    | cons a rest =>
      rw [hL] at hlen hr
      simp at hlen hr
      subst hlen hr; rfl
  · have : (Int.ofNat 0) = (0 : Int) := rfl
    simp only [root]
    have hb' : branchAndRoot H chunk (.int 0) (some (.int d)) false = .ok (specBranch H false d chunk 0, r) := hb
    rw [hb']

theorem levelAux_map_succ (hs : List Node) (d : Nat) : ∀ (js : List Nat),
    levelAux H hs d (js.map (· + 1)) = levelAux H (hs.drop (2 ^ d)) d js
  | [] => rfl
  | j :: js => by
    simp only [List.map_cons, levelAux, levelAux_map_succ hs d js, Nat.one_shiftLeft, List.drop_drop]
    have : 2 ^ d + j * 2 ^ d = (j + 1) * 2 ^ d := by rw [Nat.add_mul]; omega
    rw [this]

theorem ceil_succ (L p : Nat) (hp : 0 < p) (hL : 0 < L) : (L + p - 1) / p = (L - p + p - 1) / p + 1 := by
  by_cases h : p ≤ L
  · have : L + p - 1 = (L - p + p - 1) + p := by omega
    rw [this, Nat.add_div_right _ hp]
  · have h1 : L - p = 0 := by omega
    rw [h1, Nat.zero_add, Nat.div_eq_of_lt (by omega : p - 1 < p)]
    apply Nat.div_eq_of_lt_le <;> omega

theorem level_nil (d : Nat) : level H ([] : List Node) d = .ok [] := by
  have hp : 0 < 2 ^ d := Nat.pow_pos (by omega)
  have : (2 ^ d - 1) / 2 ^ d = 0 := Nat.div_eq_of_lt (by omega)
  simp only [level, Nat.one_shiftLeft, List.length_nil, Nat.zero_add, this, List.range_zero, levelAux]

/-- **`Merkle.level(hashes, d)` is level `d` of the tree of `hashes`**, and never raises -/
theorem level_eq (d : Nat) : ∀ (k : Nat) (hs : List Node), hs.length ≤ k * 2 ^ d →
    level H hs d = .ok (lvl H d hs)
  | 0, hs, h => by
    have : hs = [] := by
      apply List.eq_nil_of_length_eq_zero; omega
    subst this
    rw [level_nil, lvl_nil]
  | k + 1, hs, h => by
    have hp : 0 < 2 ^ d := Nat.pow_pos (by omega)
    by_cases hne : hs.length = 0
    · have : hs = [] := List.eq_nil_of_length_eq_zero hne
      subst this
      rw [level_nil, lvl_nil]
    · have hpos : 0 < hs.length := by omega
      have hdrop : (hs.drop (2 ^ d)).length ≤ k * 2 ^ d := by
        rw [List.length_drop]; rw [Nat.add_mul] at h; omega
      have ih := level_eq d k (hs.drop (2 ^ d)) hdrop
      have htake1 : 0 < (hs.take (2 ^ d)).length := by rw [List.length_take]; omega
      have htake2 : (hs.take (2 ^ d)).length ≤ 2 ^ d := by rw [List.length_take]; omega
      obtain ⟨r, hr1, hr2⟩ := root_chunk H (hs.take (2 ^ d)) d htake1 htake2
      simp only [level, Nat.one_shiftLeft] at ih ⊢
      rw [ceil_succ hs.length (2 ^ d) hp hpos, List.range_succ_eq_map]
      simp only [levelAux, Nat.zero_mul, List.drop_zero, Nat.one_shiftLeft, hr2]
      have : (fun x => x + 1) = Nat.succ := rfl
      rw [← this, levelAux_map_succ, List.length_drop] at *
      rw [ih]
      simp only
      congr 1
      -- lvl d hs = [r] ++ lvl d (drop)
      conv => rhs; rw [← List.take_append_drop (2 ^ d) hs]
      by_cases hfull : 2 ^ d ≤ hs.length
      · rw [lvl_append H d _ _ 1 (by rw [List.length_take]; omega), hr1]; rfl
      · have : hs.drop (2 ^ d) = [] := by
          apply List.eq_nil_of_length_eq_zero; rw [List.length_drop]; omega
        rw [this, lvl_nil, List.append_nil, hr1]

theorem level_eq' (hs : List Node) (d : Nat) : level H hs d = .ok (lvl H d hs) := by
  apply level_eq H d hs.length
  have : 1 ≤ 2 ^ d := Nat.pow_pos (by omega)
  calc hs.length = hs.length * 1 := by omega
    _ ≤ hs.length * 2 ^ d := Nat.mul_le_mul_left _ this

/-! ### branches of aligned segments -/

theorem sib_append_left (tsc : Bool) : ∀ (A L : List Node) (i : Nat), A.length % 2 = 0 →
    sib tsc (A ++ L) (A.length + i) = sib tsc L i
  | [], L, i, _ => by simp
  | [_], _, _, h => by simp at h
  | a :: b :: rest, L, i, h => by
    have ih := sib_append_left tsc rest L i (by simp only [List.length_cons] at h; omega)
    have : (a :: b :: rest).length + i = (rest.length + i) + 2 := by simp only [List.length_cons]; omega
    rw [this, List.cons_append, List.cons_append, sib, ih]

theorem sib_append_right (tsc : Bool) : ∀ (L B : List Node) (i : Nat), L.length % 2 = 0 →
    i < L.length → sib tsc (L ++ B) i = sib tsc L i
  | [], _, _, _, h => by simp at h
  | [_], _, _, h, _ => by simp at h
  | a :: b :: rest, B, 0, _, _ => rfl
  | a :: b :: rest, B, 1, _, _ => rfl
  | a :: b :: rest, B, j + 2, h, hj => by
    have ih := sib_append_right tsc rest B j (by simp only [List.length_cons] at h; omega)
      (by simpa using hj)
    rw [List.cons_append, List.cons_append, sib, sib, ih]

theorem specBranch_append_left (tsc : Bool) : ∀ (n : Nat) (A L : List Node) (i c : Nat),
    A.length = c * 2 ^ n →
    specBranch H tsc n (A ++ L) (A.length + i) = specBranch H tsc n L i
  | 0, _, _, _, _, _ => rfl
  | n + 1, A, L, i, c, h => by
    obtain ⟨h1, h2⟩ := pairs_length_aligned H A c n h
    have e : (A.length + i) / 2 = (pairs H A).length + i / 2 := by
      rw [pairs_length]; omega
    rw [specBranch, specBranch, sib_append_left tsc A L i h1, pairs_append H A L h1, e,
      specBranch_append_left tsc n _ _ _ c h2]

theorem specBranch_append_right (tsc : Bool) : ∀ (n : Nat) (L B : List Node) (i c : Nat),
    L.length = c * 2 ^ n → i < L.length →
    specBranch H tsc n (L ++ B) i = specBranch H tsc n L i
  | 0, _, _, _, _, _, _ => rfl
  | n + 1, L, B, i, c, h, hi => by
    obtain ⟨h1, h2⟩ := pairs_length_aligned H L c n h
    rw [specBranch, specBranch, sib_append_right tsc L B i h1 hi, pairs_append H L B h1,
      specBranch_append_right tsc n _ _ _ c h2 (half_lt_pairs H hi)]

theorem specBranch_add (tsc : Bool) : ∀ (m n : Nat) (hs : List Node) (idx : Nat),
    specBranch H tsc (m + n) hs idx =
      specBranch H tsc m hs idx ++ specBranch H tsc n (lvl H m hs) (idx / 2 ^ m)
  | 0, n, hs, idx => by simp [specBranch, lvl]
  | m + 1, n, hs, idx => by
    have : m + 1 + n = (m + n) + 1 := by omega
    rw [this, specBranch, specBranch, lvl, specBranch_add tsc m n, List.cons_append,
      Nat.div_div_eq_div_mul, Nat.pow_succ, Nat.mul_comm 2]

theorem clog_lvl : ∀ (d : Nat) (hs : List Node), d ≤ Nat.clog 2 hs.length →
    Nat.clog 2 hs.length = d + Nat.clog 2 (lvl H d hs).length
  | 0, hs, _ => by simp [lvl]
  | d + 1, hs, h => by
    have h2 : 2 ≤ hs.length := by
      by_contra hc
      rw [Nat.clog_of_right_le_one (by omega)] at h; omega
    rw [clog_step h2, ← pairs_length H] at h ⊢
    rw [lvl, clog_lvl d (pairs H hs) (by omega)]
    omega

theorem merkleRoot_lvl (d : Nat) (hs : List Node) (hne : hs ≠ []) (h : d ≤ Nat.clog 2 hs.length) :
    merkleRoot H (lvl H d hs) (lvl_ne_nil H d hs hne) = merkleRoot H hs hne := by
  have h1 := lvl_head H hs hne _ (Nat.le_refl _)
  have h2 := lvl_head H (lvl H d hs) (lvl_ne_nil H d hs hne) _ (Nat.le_refl _)
  rw [← lvl_add, ← clog_lvl H d hs h, h1] at h2
  simpa [dupN] using h2.symm

/-! ### `branch_and_root_from_level` -/

theorem int_shift (idx d : Nat) :
    (idx : Int) / 2 ^ d = ((idx / 2 ^ d : Nat) : Int) ∧
    (idx : Int) - ((idx / 2 ^ d : Nat) : Int) * 2 ^ d = ((idx % 2 ^ d : Nat) : Int) := by
  have h1 : (idx : Int) / 2 ^ d = ((idx / 2 ^ d : Nat) : Int) := by
    rw [Int.natCast_ediv]; simp
  refine ⟨h1, ?_⟩
  have := Nat.div_add_mod idx (2 ^ d)
  have h3 : ((idx / 2 ^ d : Nat) : Int) * 2 ^ d = ((idx / 2 ^ d * 2 ^ d : Nat) : Int) := by
    rw [Int.natCast_mul]; simp
  rw [h3]
  rw [Nat.mul_comm] at this
  omega

/-- decomposition of a list around the `2^d`-aligned segment containing `idx` -/
theorem segment_facts (hs : List Node) (p idx : Nat) (hp : 0 < p) (hidx : idx < hs.length) :
    hs = hs.take (idx / p * p) ++ ((hs.drop (idx / p * p)).take p ++ (hs.drop (idx / p * p)).drop p) ∧
      (hs.take (idx / p * p)).length = idx / p * p ∧
      idx = (hs.take (idx / p * p)).length + idx % p ∧
      idx % p < ((hs.drop (idx / p * p)).take p).length ∧
      ((hs.drop (idx / p * p)).take p).length ≤ p ∧
      ((hs.drop (idx / p * p)).drop p = [] ∨ ((hs.drop (idx / p * p)).take p).length = 1 * p) := by
  have hjp : idx / p * p ≤ idx := Nat.div_mul_le_self idx p
  have hmod : idx = idx / p * p + idx % p := by
    have := Nat.div_add_mod idx p; rw [Nat.mul_comm] at this; omega
  have hml : idx % p < p := Nat.mod_lt _ hp
  generalize idx / p * p = s at *
  have hA : (hs.take s).length = s := by simp only [List.length_take]; omega
  refine ⟨?_, hA, by omega, ?_, ?_, ?_⟩
  · simp only [List.take_append_drop]
  · simp only [List.length_take, List.length_drop]; omega
  · simp only [List.length_take]; omega
  · by_cases h : (hs.drop s).length ≤ p
    · left; apply List.eq_nil_of_length_eq_zero; simp only [List.length_drop] at h ⊢; omega
    · right; simp only [List.length_take, List.length_drop] at h ⊢; omega

/-- **from_level**: for a list at least `2^(d-1)+1` long (in particular whenever `2^d ≤ len`, the
    path `MerkleCache` takes), the branch assembled from level `d` of the tree and the
    `2^d`-aligned segment of leaves around `idx` (the final one may be partial) is exactly
    `branch_and_root` of the whole list — in both formats, and the consistency check passes. -/
theorem from_level_eq [DecidableEq Node] (tsc : Bool) (hs : List Node) (d idx : Nat)
    (hidx : idx < hs.length) (hd : d ≤ Nat.clog 2 hs.length) :
    branchAndRootFromLevel H (.list (lvl H d hs))
        (.list ((hs.drop (idx / 2 ^ d * 2 ^ d)).take (2 ^ d))) (.int idx) d tsc =
      branchAndRoot H hs (.int idx) none tsc := by
  obtain ⟨hsplit, hA, hidx', hloc, hseg, hB⟩ := segment_facts hs (2 ^ d) idx (Nat.pow_pos (by omega)) hidx
  generalize hAdef : hs.take (idx / 2 ^ d * 2 ^ d) = A at hsplit hA hidx'
  generalize hsegdef : (hs.drop (idx / 2 ^ d * 2 ^ d)).take (2 ^ d) = seg at hsplit hloc hseg hB
  generalize hBdef : (hs.drop (idx / 2 ^ d * 2 ^ d)).drop (2 ^ d) = B at hsplit hB
  have hne : hs ≠ [] := List.ne_nil_of_length_pos (by omega)
  -- the leaf part
  obtain ⟨r, hr1, hr2⟩ := branchAndRoot_some' H tsc seg (idx % 2 ^ d) d hloc hseg
  have hseg1 : lvl H d seg = [r] := by
    have hlen := lvl_length_small H d seg (by omega) hseg
    cases hL : lvl H d seg with
    | nil => rw [hL] at hlen; simp at hlen
    | cons a rest =>
      rw [hL] at hlen hr1
      simp at hlen hr1
      subst hlen hr1; rfl
  have hbranch : specBranch H tsc d hs idx = specBranch H tsc d seg (idx % 2 ^ d) := by
    conv => lhs; rw [hsplit, hidx']
    rw [specBranch_append_left H tsc d A (seg ++ B) _ _ hA]
    rcases hB with hB | hB
    · rw [hB, List.append_nil]
    · exact specBranch_append_right H tsc d seg B _ 1 hB hloc
  -- the cached level
  have hlevel : (lvl H d hs)[idx / 2 ^ d]? = some r := by
    have hAl : (lvl H d A).length = idx / 2 ^ d := lvl_length_aligned H d A _ hA
    conv => lhs; rw [hsplit]
    rw [lvl_append H d A _ _ hA, List.getElem?_append_right (by omega), hAl, Nat.sub_self]
    rcases hB with hB | hB
    · rw [hB, List.append_nil, hseg1]; rfl
    · rw [lvl_append H d seg B 1 hB, hseg1]; rfl
  have hj : idx / 2 ^ d < (lvl H d hs).length := by
    by_contra hc
    rw [List.getElem?_eq_none (by omega)] at hlevel
    simp at hlevel
  have hlv := branchAndRoot_none H tsc (lvl H d hs) (idx / 2 ^ d) hj
  -- assemble
  obtain ⟨e1, e2⟩ := int_shift idx d
  simp only [branchAndRootFromLevel, e1, e2, hr2, hlv, Int.toNat_natCast, hlevel, ne_eq,
    not_true_eq_false, if_false]
  rw [branchAndRoot_none H tsc hs idx hidx]
  congr 2
  · rw [clog_lvl H d hs hd, specBranch_add, hbranch]
  · exact merkleRoot_lvl H d hs hne hd

end EV.Merkle

import EV.Proofs.Crash

/-!
# Crash layer, part 2: every cut of `flush_dbs` (C04)

`FlushPre s` — the invariants of the state a flush starts from (explicit, with a non-vacuity
example in `EV/Props/C04.lean`).
`RecoversSame cfg p q` — restarting on `q` gives the same committed index as restarting on `p`.

* a cut that does not contain the UTXO batch recovers to the pre-flush committed state
  (`recoversSame_of_cut_before`);
* a cut that contains it leaves the same store as the complete flush (`cut_after_eq`).
-/
namespace EV.Index

/-- invariants of the state a flush starts from -/
structure FlushPre (s : Sys) : Prop where
  /-- `History.flush_count` in memory is the one in the history DB's state record -/
  hfc : s.m.histFlush = (s.p.hstate.getD {}).flushCount
  /-- the history DB is not *behind* the UTXO DB (false exactly after a compaction whose final
      `set_flush_count` was lost: finding F9) -/
  ufc : (s.p.ustate.getD {}).flushCount ≤ s.m.histFlush
  /-- no history row carries a flush id above the history flush count -/
  ids : ∀ e ∈ s.p.hist, e.1.2 ≤ s.m.histFlush
  /-- the files are written ahead of the UTXO state, never behind it -/
  fsH : (s.p.ustate.getD {}).height ≤ s.m.fsHeight
  fsTx : (s.p.ustate.getD {}).txCount ≤
    (if s.m.fsHeight ≥ 0 then s.m.txCounts.getD s.m.fsHeight.toNat 0 else 0)
  /-- the files cover the committed height / tx count -/
  lenH : ((s.p.ustate.getD {}).height + 1).toNat ≤ s.p.headers.length
  lenC : ((s.p.ustate.getD {}).height + 1).toNat ≤ s.p.txcounts.length
  lenX : (s.p.ustate.getD {}).txCount ≤ s.p.hashes.length

/-- `q` differs from `p` at most in the file regions beyond what `p`'s UTXO state commits to -/
structure FilesEq (p q : Store) : Prop where
  h : q.h = p.h
  u : q.u = p.u
  undo : q.undo = p.undo
  ustate : q.ustate = p.ustate
  hist : q.hist = p.hist
  hstate : q.hstate = p.hstate
  headers : q.headers.take ((p.ustate.getD {}).height + 1).toNat =
              p.headers.take ((p.ustate.getD {}).height + 1).toNat
  txcounts : q.txcounts.take ((p.ustate.getD {}).height + 1).toNat =
               p.txcounts.take ((p.ustate.getD {}).height + 1).toNat
  hashes : q.hashes.take (p.ustate.getD {}).txCount = p.hashes.take (p.ustate.getD {}).txCount

theorem FilesEq.refl (p : Store) : FilesEq p p := ⟨rfl, rfl, rfl, rfl, rfl, rfl, rfl, rfl, rfl⟩

/-- a file write at or beyond the committed length of its file -/
def SafeWrite (p : Store) : Effect → Prop
  | .writeHeaders off _ =>
    ((p.ustate.getD {}).height + 1).toNat ≤ off ∧ ((p.ustate.getD {}).height + 1).toNat ≤ p.headers.length
  | .writeTxCounts off _ =>
    ((p.ustate.getD {}).height + 1).toNat ≤ off ∧ ((p.ustate.getD {}).height + 1).toNat ≤ p.txcounts.length
  | .writeHashes off _ =>
    (p.ustate.getD {}).txCount ≤ off ∧ (p.ustate.getD {}).txCount ≤ p.hashes.length
  | .histBatch _ _ _ => False
  | .utxoBatch _ _ _ _ _ _ => False
  | .putUState _ => False

theorem FilesEq.safeWrite {p q : Store} (hq : FilesEq p q) {e : Effect} (he : SafeWrite p e) :
    FilesEq p (applyEffect q e) := by
  cases e with
  | writeHeaders off d =>
    refine ⟨hq.h, hq.u, hq.undo, hq.ustate, hq.hist, hq.hstate, ?_, hq.txcounts, hq.hashes⟩
    show (fileWrite q.headers off d).take _ = _
    rw [take_fileWrite _ _ _ _ he.1 (length_of_take_eq hq.headers he.2)]
    exact hq.headers
  | writeTxCounts off d =>
    refine ⟨hq.h, hq.u, hq.undo, hq.ustate, hq.hist, hq.hstate, hq.headers, ?_, hq.hashes⟩
    show (fileWrite q.txcounts off d).take _ = _
    rw [take_fileWrite _ _ _ _ he.1 (length_of_take_eq hq.txcounts he.2)]
    exact hq.txcounts
  | writeHashes off d =>
    refine ⟨hq.h, hq.u, hq.undo, hq.ustate, hq.hist, hq.hstate, hq.headers, hq.txcounts, ?_⟩
    show (fileWrite q.hashes off d).take _ = _
    rw [take_fileWrite _ _ _ _ he.1 (length_of_take_eq hq.hashes he.2)]
    exact hq.hashes
  | histBatch _ _ _ => exact he.elim
  | utxoBatch _ _ _ _ _ _ => exact he.elim
  | putUState _ => exact he.elim

theorem SafeWrite.torn {p : Store} {e t : Effect} (he : SafeWrite p e) (ht : t ∈ tornPrefixes e) :
    SafeWrite p t := by
  cases e <;> simp only [tornPrefixes, List.mem_map, List.mem_range, List.not_mem_nil] at ht
  all_goals first
    | (obtain ⟨j, _, rfl⟩ := ht; exact he)
    | exact ht.elim

/-- every cut of a list of safe file writes leaves the committed part alone -/
theorem FilesEq.ofCuts {p : Store} {es : List Effect} (hes : ∀ e ∈ es, SafeWrite p e)
    {c : List Effect} (hc : c ∈ cuts es) {q : Store} (hq : FilesEq p q) :
    FilesEq p (applyEffects q c) := by
  induction es generalizing c q with
  | nil =>
    simp only [cuts, List.mem_singleton] at hc
    subst hc
    exact hq
  | cons e es ih =>
    simp only [cuts, List.mem_cons, List.mem_append, List.mem_map] at hc
    rcases hc with rfl | ⟨t, ht, rfl⟩ | ⟨c0, hc0, rfl⟩
    · exact hq
    · exact hq.safeWrite ((hes e (List.mem_cons_self ..)).torn ht)
    · show FilesEq p (applyEffects (applyEffect q e) c0)
      exact ih (fun e' he' => hes e' (List.mem_cons_of_mem _ he')) hc0
        (hq.safeWrite (hes e (List.mem_cons_self ..)))

/-- `flush_fs` writes at the first height / tx number not yet on the files -/
theorem flushFs_safe {s : Sys} (hpre : FlushPre s) : ∀ e ∈ flushFsEffects s, SafeWrite s.p e := by
  intro e he
  simp only [flushFsEffects, List.mem_cons, List.not_mem_nil, or_false] at he
  have h1 : ((s.p.ustate.getD {}).height + 1).toNat ≤ (s.m.fsHeight + 1).toNat := by
    have := hpre.fsH; omega
  rcases he with rfl | rfl | rfl
  · exact ⟨h1, hpre.lenH⟩
  · exact ⟨h1, hpre.lenC⟩
  · exact ⟨hpre.fsTx, hpre.lenX⟩

/-! ### restarting -/

theorem openHistState_eq (p : Store) :
    openHistState p =
      if (p.hstate.getD {}).flushCount ≤ (p.ustate.getD {}).flushCount then p.hstate.getD {}
      else { (p.hstate.getD {}) with flushCount := (p.ustate.getD {}).flushCount } := by
  unfold openHistState clearExcessEffect
  by_cases h : (p.hstate.getD {}).flushCount ≤ (p.ustate.getD {}).flushCount <;> simp [h]

/-- when the history DB is not behind the UTXO DB, `_open_dbs` ends with both flush counts equal to
    the UTXO one and no compaction in progress -/
theorem openState_of_ge (p : Store)
    (h : (p.ustate.getD {}).flushCount ≤ (p.hstate.getD {}).flushCount) :
    openState p false =
      ({ (p.ustate.getD {}) with flushCount := (p.ustate.getD {}).flushCount },
       { flushCount := (p.ustate.getD {}).flushCount, compFlushCount := -1, compCursor := -1 }) := by
  simp only [openState, openHistState_eq, Bool.false_eq_true, if_false]
  by_cases hle : (p.hstate.getD {}).flushCount ≤ (p.ustate.getD {}).flushCount
  · have : (p.hstate.getD {}).flushCount = (p.ustate.getD {}).flushCount := by omega
    rw [if_pos hle, this]
  · rw [if_neg hle]

/-- restarting on `q` yields the same committed index as restarting on `p`: identical tables, state
    records and in-memory state; identical files up to the committed lengths -/
structure RecoversSame (cfg : Cfg) (p q : Store) : Prop where
  h : (openStore cfg q).h = (openStore cfg p).h
  u : (openStore cfg q).u = (openStore cfg p).u
  undo : (openStore cfg q).undo = (openStore cfg p).undo
  ustate : (openStore cfg q).ustate = (openStore cfg p).ustate
  /-- the history table, row for row (so `get_txnums` agrees for every script hash and limit) -/
  hist : (openStore cfg q).hist = (openStore cfg p).hist
  hfc : ((openStore cfg q).hstate.getD {}).flushCount = ((openStore cfg p).hstate.getD {}).flushCount
  headers : (openStore cfg q).headers.take ((p.ustate.getD {}).height + 1).toNat =
              (openStore cfg p).headers.take ((p.ustate.getD {}).height + 1).toNat
  txcounts : (openStore cfg q).txcounts.take ((p.ustate.getD {}).height + 1).toNat =
               (openStore cfg p).txcounts.take ((p.ustate.getD {}).height + 1).toNat
  hashes : (openStore cfg q).hashes.take (p.ustate.getD {}).txCount =
             (openStore cfg p).hashes.take (p.ustate.getD {}).txCount
  /-- `DB.state` and the history counters in memory after `_open_dbs` -/
  state : openState q false = openState p false
  /-- `_read_tx_counts` succeeds iff it did, with the same result -/
  txc : openTxCounts (openStore cfg q) (openState q false).1 none =
          openTxCounts (openStore cfg p) (openState p false).1 none

theorem openTxCounts_congr {a b : Store} (st : CState)
    (h : a.txcounts.take (st.height + 1).toNat = b.txcounts.take (st.height + 1).toNat) :
    openTxCounts a st none = openTxCounts b st none := by
  simp only [openTxCounts, h]

theorem openState_height (p : Store) (c : Bool) : (openState p c).1.height = (p.ustate.getD {}).height := by
  simp [openState]

theorem recoversSame_of_filesEq (cfg : Cfg) {p q : Store} (hq : FilesEq p q) : RecoversSame cfg p q := by
  have hst : openState q false = openState p false := by
    simp only [openState, openHistState_eq, hq.hstate, hq.ustate]
  have hfiles := openStore1_rest q
  have hfilesp := openStore1_rest p
  have h1 : (openStore1 q).hist = (openStore1 p).hist ∧ (openStore1 q).hstate = (openStore1 p).hstate := by
    by_cases hle : (p.hstate.getD {}).flushCount ≤ (p.ustate.getD {}).flushCount
    · have hle' : (q.hstate.getD {}).flushCount ≤ (q.ustate.getD {}).flushCount := by
        rw [hq.hstate, hq.ustate]; exact hle
      rw [openStore1_of_le hle, openStore1_of_le hle']
      exact ⟨hq.hist, hq.hstate⟩
    · have hgt : (p.ustate.getD {}).flushCount < (p.hstate.getD {}).flushCount := by omega
      have hgt' : (q.ustate.getD {}).flushCount < (q.hstate.getD {}).flushCount := by
        rw [hq.hstate, hq.ustate]; exact hgt
      rw [openStore1_of_gt hgt, openStore1_of_gt hgt']
      simp only [hq.hist, hq.hstate, hq.ustate, and_self]
  refine ⟨?_, ?_, ?_, ?_, ?_, ?_, ?_, ?_, ?_, hst, ?_⟩
  · simp only [openStore_eq, hfiles.1, hfilesp.1, hq.h]
  · simp only [openStore_eq, hfiles.2.1, hfilesp.2.1, hq.u]
  · simp only [openStore_eq, hq.undo, hq.ustate]
  · simp only [openStore_eq, hfiles.2.2.2.1, hfilesp.2.2.2.1, hq.ustate]
  · simp only [openStore_eq, h1.1]
  · simp only [openStore_eq, h1.2]
  · simp only [openStore_eq, hfiles.2.2.2.2.1, hfilesp.2.2.2.2.1, hq.headers]
  · simp only [openStore_eq, hfiles.2.2.2.2.2.1, hfilesp.2.2.2.2.2.1, hq.txcounts]
  · simp only [openStore_eq, hfiles.2.2.2.2.2.2, hfilesp.2.2.2.2.2.2, hq.hashes]
  · rw [hst]
    apply openTxCounts_congr
    rw [openState_height]
    simp only [openStore_eq, hfiles.2.2.2.2.2.1, hfilesp.2.2.2.2.2.1, hq.txcounts]

/-- `History.flush` applied to any store: new rows under id `histFlush + 1`, state record updated -/
theorem applyEffect_histFlush (q : Store) (s : Sys) :
    applyEffect q (histFlushEffect s) =
      { q with
        hist := ((sortByKey s.m.unflushed).map (fun (hx, nums) => ((hx, s.m.histFlush + 1), nums))).foldl
                  (fun hs (k, v) => ainsert k v hs) q.hist,
        hstate := some { hstateOf s.m with flushCount := s.m.histFlush + 1 } } := by
  simp [applyEffect, histFlushEffect]

/-- the cut right after the history batch (and before the UTXO batch): `clear_excess` removes exactly
    the rows the flush wrote, and resets the history flush count -/
theorem recoversSame_histFlush (cfg : Cfg) {s : Sys} (hpre : FlushPre s) {q3 : Store}
    (h3 : FilesEq s.p q3) : RecoversSame cfg s.p (applyEffect q3 (histFlushEffect s)) := by
  have hufc := hpre.ufc
  have hhfc := hpre.hfc
  -- the store after the history batch
  have hq : applyEffect q3 (histFlushEffect s) = _ := applyEffect_histFlush q3 s
  generalize applyEffect q3 (histFlushEffect s) = q at hq
  have hq_h : q.h = s.p.h := by rw [hq]; exact h3.h
  have hq_u : q.u = s.p.u := by rw [hq]; exact h3.u
  have hq_undo : q.undo = s.p.undo := by rw [hq]; exact h3.undo
  have hq_us : q.ustate = s.p.ustate := by rw [hq]; exact h3.ustate
  have hq_hs : q.hstate = some { hstateOf s.m with flushCount := s.m.histFlush + 1 } := by rw [hq]
  have hq_fc : (q.hstate.getD {}).flushCount = s.m.histFlush + 1 := by rw [hq_hs]; rfl
  have hq_hist : histUpTo q.hist (s.p.ustate.getD {}).flushCount =
      histUpTo s.p.hist (s.p.ustate.getD {}).flushCount := by
    rw [hq]
    show histUpTo (List.foldl _ q3.hist _) _ = _
    rw [histUpTo_foldl_ainsert_above, h3.hist]
    intro e he
    simp only [List.mem_map] at he
    obtain ⟨x, _, rfl⟩ := he
    show _ < s.m.histFlush + 1
    omega
  have hq_hdr : q.headers = q3.headers := by rw [hq]
  have hq_txc : q.txcounts = q3.txcounts := by rw [hq]
  have hq_hsh : q.hashes = q3.hashes := by rw [hq]
  have hgt : (q.ustate.getD {}).flushCount < (q.hstate.getD {}).flushCount := by
    rw [hq_us, hq_fc]; omega
  -- `clear_excess` on both sides
  have hq1 := openStore1_of_gt hgt
  have hp1 : (openStore1 s.p).hist = histUpTo s.p.hist (s.p.ustate.getD {}).flushCount ∧
      ((openStore1 s.p).hstate.getD {}).flushCount = (s.p.ustate.getD {}).flushCount := by
    by_cases hle : (s.p.hstate.getD {}).flushCount ≤ (s.p.ustate.getD {}).flushCount
    · rw [openStore1_of_le hle]
      have heq : (s.p.ustate.getD {}).flushCount = s.m.histFlush := by omega
      refine ⟨(histUpTo_self ?_).symm, by omega⟩
      intro e he
      have := hpre.ids e he
      omega
    · rw [openStore1_of_gt (by omega)]
      exact ⟨rfl, rfl⟩
  have hst : openState q false = openState s.p false := by
    rw [openState_of_ge q (by omega), openState_of_ge s.p (by omega), hq_us]
  have hfq := openStore1_rest q
  have hfp := openStore1_rest s.p
  refine ⟨?_, ?_, ?_, ?_, ?_, ?_, ?_, ?_, ?_, hst, ?_⟩
  · simp only [openStore_eq, hfq.1, hfp.1, hq_h]
  · simp only [openStore_eq, hfq.2.1, hfp.2.1, hq_u]
  · simp only [openStore_eq, hq_undo, hq_us]
  · simp only [openStore_eq, hfq.2.2.2.1, hfp.2.2.2.1, hq_us]
  · simp only [openStore_eq, hp1.1]
    rw [hq1]
    show histUpTo q.hist (q.ustate.getD {}).flushCount = _
    rw [hq_us, hq_hist]
  · simp only [openStore_eq, hp1.2]
    rw [hq1]
    show (q.ustate.getD {}).flushCount = _
    rw [hq_us]
  · simp only [openStore_eq, hfq.2.2.2.2.1, hfp.2.2.2.2.1, hq_hdr, h3.headers]
  · simp only [openStore_eq, hfq.2.2.2.2.2.1, hfp.2.2.2.2.2.1, hq_txc, h3.txcounts]
  · simp only [openStore_eq, hfq.2.2.2.2.2.2, hfp.2.2.2.2.2.2, hq_hsh, h3.hashes]
  · rw [hst]
    apply openTxCounts_congr
    rw [openState_height]
    simp only [openStore_eq, hfq.2.2.2.2.2.1, hfp.2.2.2.2.2.1, hq_txc, h3.txcounts]

/-! ### the cuts of a flush -/

/-- the part of a flush that precedes the UTXO batch -/
def flushHead (s : Sys) : List Effect := flushFsEffects s ++ [histFlushEffect s]

theorem cuts_singleton_atomic (e : Effect) (h : tornPrefixes e = []) : cuts [e] = [[], [e]] := by
  simp [cuts, h]

theorem applyEffects_append (p : Store) (a b : List Effect) :
    applyEffects p (a ++ b) = applyEffects (applyEffects p a) b := by
  simp [applyEffects, List.foldl_append]

/-- every cut of the files-then-history part recovers to the pre-flush committed state -/
theorem recoversSame_of_cut_head (cfg : Cfg) {s : Sys} (hpre : FlushPre s) {c : List Effect}
    (hc : c ∈ cuts (flushHead s)) : RecoversSame cfg s.p (applyEffects s.p c) := by
  rcases mem_cuts_append hc with h1 | ⟨c', hc', rfl⟩
  · exact recoversSame_of_filesEq cfg (FilesEq.ofCuts (flushFs_safe hpre) h1 (FilesEq.refl _))
  · rw [cuts_singleton_atomic _ (by rfl)] at hc'
    simp only [List.mem_cons, List.not_mem_nil, or_false] at hc'
    have hfs : FilesEq s.p (applyEffects s.p (flushFsEffects s)) :=
      FilesEq.ofCuts (flushFs_safe hpre) (self_mem_cuts _) (FilesEq.refl _)
    rcases hc' with rfl | rfl
    · rw [List.append_nil]
      exact recoversSame_of_filesEq cfg hfs
    · rw [applyEffects_append]
      exact recoversSame_histFlush cfg hpre hfs

/-- the effect list of a flush that has something to flush -/
theorem flushDbs_effects {s : Sys} {fu : Bool} {es : List Effect} {m' : Mem}
    (h : flushDbs s fu = some (es, m')) :
    es = [] ∨ es = flushHead s ∨
      (fu = true ∧ es = flushHead s ++ [utxoBatchEffect s { s.m.st with flushCount := s.m.histFlush + 1 },
                       .putUState { s.m.st with flushCount := s.m.histFlush + 1 }]) := by
  unfold flushDbs at h
  split at h
  · split at h
    · simp only [Option.some.injEq, Prod.mk.injEq] at h
      exact Or.inl h.1.symm
    · simp at h
  · split at h
    · simp at h
    · simp only at h
      split at h
      · next hfu =>
        simp only [Option.some.injEq, Prod.mk.injEq] at h
        exact Or.inr (Or.inr ⟨hfu, h.1.symm⟩)
      · simp only [Option.some.injEq, Prod.mk.injEq] at h
        exact Or.inr (Or.inl h.1.symm)

theorem no_utxoBatch_in_cut {es c : List Effect} (hes : ∀ e ∈ es, e.isUtxoBatch = false)
    (hc : c ∈ cuts es) : ∀ e ∈ c, e.isUtxoBatch = false := by
  induction es generalizing c with
  | nil =>
    simp only [cuts, List.mem_singleton] at hc
    subst hc
    simp
  | cons e es ih =>
    simp only [cuts, List.mem_cons, List.mem_append, List.mem_map] at hc
    rcases hc with rfl | ⟨t, ht, rfl⟩ | ⟨c0, hc0, rfl⟩
    · simp
    · intro e' he'
      simp only [List.mem_singleton] at he'
      subst he'
      cases e <;> simp only [tornPrefixes, List.mem_map, List.mem_range, List.not_mem_nil] at ht
      all_goals first
        | (obtain ⟨j, _, rfl⟩ := ht; rfl)
        | exact ht.elim
    · intro e' he'
      rcases List.mem_cons.mp he' with rfl | h
      · exact hes _ (List.mem_cons_self ..)
      · exact ih (fun e he => hes e (List.mem_cons_of_mem _ he)) hc0 e' h

theorem flushHead_no_utxoBatch (s : Sys) : ∀ e ∈ flushHead s, e.isUtxoBatch = false := by
  intro e he
  simp only [flushHead, flushFsEffects, histFlushEffect, List.cons_append, List.nil_append,
    List.mem_cons, List.not_mem_nil, or_false] at he
  rcases he with rfl | rfl | rfl | rfl <;> rfl

/-- the trailing direct `put` of the state record repeats what the UTXO batch already wrote -/
theorem putUState_idem (p : Store) (d : List DelKey) (hp : List (HKey × HashX)) (up : List (UKey × Nat))
    (ud : List Nat) (upp : List (Nat × List CacheVal)) (st : CState) :
    applyEffect (applyEffect p (.utxoBatch d hp up ud upp (some st))) (.putUState st) =
      applyEffect p (.utxoBatch d hp up ud upp (some st)) := by
  simp [applyEffect]

end EV.Index

import EV.Proofs.CompactInv

/-!
Whole runs: the driver script (open-for-compacting, batches, `set_flush_count`), interruption
after any batch, resumption, normal server starts in between - as a list of events on the
*persistent* store - and the invariant `PInv` that every reachable store satisfies.  Core only.
-/
namespace EV.Compact
open EV.Index

/-- the history DB's state record (defaults as `read_state` on an empty DB) -/
def hsOf (p : Store) : HState := p.hstate.getD {}
/-- `flush_count` of the history DB -/
def hF (p : Store) : Nat := (hsOf p).flushCount
/-- `flush_count` of the UTXO DB -/
def uF (p : Store) : Nat := (p.ustate.getD {}).flushCount

/-- what holds of the store on disk at every point where a process (compaction or server) can start -/
structure PInv (maxRow : Nat) (p : Store) : Prop where
  nodup : NodupKeys p.hist
  width : HxWidth p.hist
  ordered : IdsOrdered p.hist (hF p) (hsOf p).compFlushCount (hsOf p).compCursor
  tight : IdsTight maxRow p (hsOf p).compCursor
  cfcTight : CfcTight maxRow p (hsOf p).compFlushCount
  notAhead : hF p ≤ uF p

theorem getTxnums_hist_congr {p p' : Store} (h : p'.hist = p.hist) (hx : HashX) :
    getTxnums p' hx none = getTxnums p hx none := by
  rw [getTxnums_eq, getTxnums_eq, h]

theorem nchunks_congr {maxRow : Nat} {p p' : Store}
    (h : ∀ hx, getTxnums p' hx none = getTxnums p hx none) (hx : HashX) :
    nchunks maxRow p' hx = nchunks maxRow p hx := by
  unfold nchunks; rw [h]

theorem cfcTight_congr {maxRow : Nat} {p p' : Store}
    (h : ∀ hx, getTxnums p' hx none = getTxnums p hx none) {x : Int} (ht : CfcTight maxRow p x) :
    CfcTight maxRow p' x := by
  rcases ht with ht | ⟨hx, ht⟩
  · exact Or.inl ht
  · exact Or.inr ⟨hx, by rw [nchunks_congr h]; exact ht⟩

theorem idsTight_congr {maxRow : Nat} {p p' : Store} (h : p'.hist = p.hist) {c : Int}
    (ht : IdsTight maxRow p c) : IdsTight maxRow p' c := by
  intro e he hlt
  rw [h] at he
  rw [nchunks_congr (fun hx => getTxnums_hist_congr h hx)]
  exact ht e he hlt

theorem pinv_congr {maxRow : Nat} {p p' : Store} (h1 : p'.hist = p.hist) (h2 : p'.hstate = p.hstate)
    (h3 : p'.ustate = p.ustate) (hP : PInv maxRow p) : PInv maxRow p' := by
  have hs : hsOf p' = hsOf p := by unfold hsOf; rw [h2]
  have hf : hF p' = hF p := by unfold hF; rw [hs]
  have hu : uF p' = uF p := by unfold uF; rw [h3]
  refine ⟨?_, ?_, ?_, ?_, ?_, ?_⟩
  · rw [h1]; exact hP.nodup
  · rw [h1]; exact hP.width
  · rw [h1, hf, hs]; exact hP.ordered
  · rw [hs]; exact idsTight_congr h1 hP.tight
  · rw [hs]; exact cfcTight_congr (fun hx => getTxnums_hist_congr h1 hx) hP.cfcTight
  · rw [hf, hu]; exact hP.notAhead

/-! ### opening the databases -/

theorem applyEffects_undoOnly (p : Store) (b : Bool) (dk : List Nat) :
    (applyEffects p (if b then [] else [.utxoBatch [] [] [] dk [] none])).hist = p.hist ∧
    (applyEffects p (if b then [] else [.utxoBatch [] [] [] dk [] none])).hstate = p.hstate ∧
    (applyEffects p (if b then [] else [.utxoBatch [] [] [] dk [] none])).ustate = p.ustate := by
  cases b <;> simp [applyEffects, applyEffect]

/-- `_open_dbs` on a store whose history is not ahead of the UTXO DB: `clear_excess` is idle, the
    history table and both state records stay as they are -/
theorem openDbs_spec (cfg : Cfg) (p : Store) (compacting : Bool) (keep : Option (List Nat))
    (es : List Effect) (s : Sys) (hna : hF p ≤ uF p)
    (h : openDbs cfg p compacting keep = some (es, s)) :
    s.p.hist = p.hist ∧ s.p.hstate = p.hstate ∧ s.p.ustate = p.ustate ∧ s.m.histFlush = hF p ∧
    s.m.dbst = { (p.ustate.getD {}) with flushCount := hF p } ∧
    s.m.compFlush = (if compacting then (hsOf p).compFlushCount else -1) ∧
    s.m.compCursor = (if compacting then (hsOf p).compCursor else -1) := by
  have he : clearExcessEffect p (p.hstate.getD {}) (p.ustate.getD {}).flushCount = none := by
    unfold clearExcessEffect; unfold hF uF hsOf at hna; rw [if_pos hna]
  have hs1 : openStore1 p = p := by unfold openStore1; rw [he]; rfl
  have hh : openHistState p = p.hstate.getD {} := by unfold openHistState; rw [he]
  obtain ⟨u1, u2, u3⟩ : (openStore cfg p).hist = p.hist ∧ (openStore cfg p).hstate = p.hstate ∧
      (openStore cfg p).ustate = p.ustate := by
    unfold openStore openUndoEffects
    rw [hs1]
    exact applyEffects_undoOnly p _ _
  unfold openDbs at h
  split at h
  · cases h
  · simp only [Option.some.injEq, Prod.mk.injEq] at h
    obtain ⟨_, rfl⟩ := h
    refine ⟨u1, u2, u3, ?_, ?_, ?_, ?_⟩ <;> unfold openState <;> rw [hh] <;> cases compacting <;>
      simp [hF, hsOf]

/-! ### the driver loop -/

theorem driverLoop_done (maxRow : Nat) (limits : List Nat) (s : Sys) (h : s.m.compCursor = -1) :
    driverLoop maxRow limits s = (s, true) := by
  cases limits with
  | nil => simp [driverLoop, h]
  | cons l r => simp [driverLoop, h]

/-- what is known after the driver loop, started in `s`, returned `r` -/
def LoopPost (maxRow : Nat) (s : Sys) (r : Sys × Bool) : Prop :=
  (∀ hx, getTxnums r.1.p hx none = getTxnums s.p hx none) ∧
  SInv maxRow r.1 ∧ SameOther s.p r.1.p ∧ r.1.m.dbst = s.m.dbst ∧ hF r.1.p = r.1.m.histFlush ∧
  (r.2 = false → r.1.m.compCursor ≠ -1) ∧
  (r.1 = s ∨ r.1.p.hstate = some (hstateOf r.1.m)) ∧
  (r.1.m.histFlush = s.m.histFlush ∨ (r.1.m.compCursor = -1 ∧ CfcTight maxRow s.p r.1.m.histFlush))

theorem loopPost_stay (maxRow : Nat) (s : Sys) (b : Bool) (hI : SInv maxRow s)
    (hF0 : hF s.p = s.m.histFlush) (hb : b = false → s.m.compCursor ≠ -1) : LoopPost maxRow s (s, b) :=
  ⟨fun _ => rfl, hI, ⟨rfl, rfl, rfl, rfl, rfl, rfl, rfl⟩, rfl, hF0, hb, Or.inl rfl, Or.inl rfl⟩

theorem driverLoop_inv (maxRow : Nat) (hm : 0 < maxRow) (limits : List Nat) (s : Sys)
    (hI : SInv maxRow s) (hF0 : hF s.p = s.m.histFlush) :
    LoopPost maxRow s (driverLoop maxRow limits s) := by
  induction limits generalizing s with
  | nil =>
    unfold driverLoop
    exact loopPost_stay maxRow s _ hI hF0 (by intro h; simpa using h)
  | cons limit rest ih =>
    by_cases hc : s.m.compCursor = -1
    · rw [driverLoop_done maxRow _ s hc]
      exact loopPost_stay maxRow s _ hI hF0 (by intro h; cases h)
    · unfold driverLoop
      rw [if_neg hc]
      cases hb : compactHistory maxRow limit s with
      | error e => exact loopPost_stay maxRow s _ hI hF0 (fun _ => hc)
      | ok r =>
        obtain ⟨e, s'⟩ := r
        show LoopPost maxRow s (driverLoop maxRow rest s')
        obtain ⟨b1, b2, _, _, b5, b6, b7, b8⟩ := batch_inv maxRow limit hm s e s' hI hb
        have hF' : hF s'.p = s'.m.histFlush := by unfold hF hsOf; rw [b5]; rfl
        rcases b8 with b8 | ⟨b8, _, b9⟩
        · -- an intermediate batch
          obtain ⟨i1, i2, i3, i4, i5, i6, i7, i8⟩ := ih s' b2 hF'
          have hflush : s'.m.histFlush = s.m.histFlush := by
            rcases b8 with ⟨b8, _⟩ | ⟨_, b8⟩
            · exact b8
            · rw [b8]
          refine ⟨fun hx => by rw [i1, b1], i2, ?_, by rw [i4, b7], i5, i6, ?_, ?_⟩
          · obtain ⟨a1, a2, a3, a4, a5, a6, a7⟩ := i3
            obtain ⟨c1, c2, c3, c4, c5, c6, c7⟩ := b6
            exact ⟨by rw [a1, c1], by rw [a2, c2], by rw [a3, c3], by rw [a4, c4], by rw [a5, c5],
              by rw [a6, c6], by rw [a7, c7]⟩
          · rcases i7 with i7 | i7
            · right; rw [i7]; exact b5
            · right; exact i7
          · rcases i8 with i8 | ⟨i8, i9⟩
            · left; rw [i8, hflush]
            · right; exact ⟨i8, cfcTight_congr (fun hx => (b1 hx).symm) i9⟩
        · -- the final batch
          rw [driverLoop_done maxRow rest s' b8]
          exact ⟨b1, b2, b6, b7, hF', fun h => Bool.noConfusion h, Or.inr b5, Or.inr ⟨b8, b9⟩⟩

/-! ### one run of the script -/

/-- no hashX needs more than `F + 1` rows when compacted (ids `0 … F`) -/
def RowsFit (maxRow : Nat) (p : Store) (F : Nat) : Prop := ∀ hx, nchunks maxRow p hx ≤ F + 1

theorem idsOrdered_init {hist : List Row} {F : Nat} {cfc cursor : Int} (h : IdsOrdered hist F cfc cursor) :
    IdsOrdered hist F (max cfc 1) (if cursor = -1 then 0 else cursor) := by
  intro e he
  have ho := h e he
  by_cases hc : cursor = -1
  · rw [if_pos hc]
    rw [hc] at ho
    have h1 : ¬ ((prefixOf e.1.1 : Int) < -1) := by omega
    rw [if_neg h1] at ho
    have h2 : ¬ ((prefixOf e.1.1 : Int) < 0) := by omega
    rw [if_neg h2]; exact ho
  · rw [if_neg hc]
    split
    · next hlt => rw [if_pos hlt] at ho; omega
    · next hlt => rw [if_neg hlt] at ho; exact ho

theorem sinv_driverInit (maxRow : Nat) (p : Store) (s : Sys) (hP : PInv maxRow p)
    (h1 : s.p.hist = p.hist) (h4 : s.m.histFlush = hF p)
    (h6 : s.m.compFlush = (hsOf p).compFlushCount) (h7 : s.m.compCursor = (hsOf p).compCursor) :
    SInv maxRow { s with m := driverInit s.m } := by
  have hg : ∀ hx, getTxnums s.p hx none = getTxnums p hx none := fun hx => getTxnums_hist_congr h1 hx
  refine ⟨?_, ?_, ?_, ?_, ?_⟩
  · show NodupKeys s.p.hist; rw [h1]; exact hP.nodup
  · show HxWidth s.p.hist; rw [h1]; exact hP.width
  · show IdsOrdered s.p.hist s.m.histFlush (max s.m.compFlush 1)
      (if s.m.compCursor = -1 then 0 else s.m.compCursor)
    rw [h1, h4, h6, h7]
    exact idsOrdered_init hP.ordered
  · show IdsTight maxRow s.p (if s.m.compCursor = -1 then 0 else s.m.compCursor)
    intro e he hlt
    rw [h1] at he
    rw [nchunks_congr hg]
    rw [h7] at hlt
    by_cases hc : (hsOf p).compCursor = -1
    · rw [if_pos hc] at hlt; omega
    · rw [if_neg hc] at hlt; exact hP.tight e he hlt
  · show CfcTight maxRow s.p (max s.m.compFlush 1)
    rw [h6]
    apply cfcTight_congr hg
    rcases hP.cfcTight with t | ⟨hx, t⟩
    · left; omega
    · by_cases h1 : (hsOf p).compFlushCount ≤ 1
      · left; omega
      · right; exact ⟨hx, by omega⟩

/-- **one run of the compaction script**, cut short anywhere between batches or before
    `set_flush_count`: histories unchanged, invariant re-established.  When `set_flush_count` is
    lost (`b = false`) this needs the UTXO flush count to cover every compacted row id. -/
theorem compactScript_inv (cfg : Cfg) (maxRow : Nat) (hm : 0 < maxRow) (p : Store) (limits : List Nat)
    (b : Bool) (hP : PInv maxRow p)
    (hok : b = true ∨ (1 ≤ uF p ∧ RowsFit maxRow p (uF p))) :
    (∀ hx, getTxnums (compactScript cfg maxRow p limits b) hx none = getTxnums p hx none) ∧
    PInv maxRow (compactScript cfg maxRow p limits b) := by
  unfold compactScript
  cases ho : openDbs cfg p true none with
  | none => exact ⟨fun _ => rfl, hP⟩
  | some r =>
    obtain ⟨es, s⟩ := r
    obtain ⟨o1, o2, o3, o4, o5, o6, o7⟩ := openDbs_spec cfg p true none es s hP.notAhead ho
    simp only [if_true] at o6 o7
    have hPs : PInv maxRow s.p := pinv_congr o1 o2 o3 hP
    have hgs : ∀ hx, getTxnums s.p hx none = getTxnums p hx none := fun hx => getTxnums_hist_congr o1 hx
    simp only
    split
    · exact ⟨hgs, hPs⟩
    · have hI := sinv_driverInit maxRow p s hP o1 o4 o6 o7
      have hF0 : hF ({ s with m := driverInit s.m } : Sys).p = ({ s with m := driverInit s.m } : Sys).m.histFlush := by
        show hF s.p = s.m.histFlush
        rw [o4]; unfold hF hsOf; rw [o2]
      obtain ⟨d1, d2, d3, d4, d5, d6, d7, d8⟩ := driverLoop_inv maxRow hm limits _ hI hF0
      generalize driverLoop maxRow limits { s with m := driverInit s.m } = r at *
      obtain ⟨s', fin⟩ := r
      simp only at d1 d2 d3 d4 d5 d6 d7 d8
      have hg' : ∀ hx, getTxnums s'.p hx none = getTxnums p hx none := fun hx => by rw [d1, hgs]
      have hu' : uF s'.p = uF p := by unfold uF; rw [d3.2.2.2.1, o3]
      -- everything in `PInv s'.p` except `notAhead`
      have hcore : NodupKeys s'.p.hist ∧ HxWidth s'.p.hist ∧
          IdsOrdered s'.p.hist (hF s'.p) (hsOf s'.p).compFlushCount (hsOf s'.p).compCursor ∧
          IdsTight maxRow s'.p (hsOf s'.p).compCursor ∧ CfcTight maxRow s'.p (hsOf s'.p).compFlushCount := by
        rcases d7 with d7 | d7
        · have : s'.p = s.p := by rw [d7]
          rw [this]
          exact ⟨hPs.nodup, hPs.width, hPs.ordered, hPs.tight, hPs.cfcTight⟩
        · have hs : hsOf s'.p = hstateOf s'.m := by unfold hsOf; rw [d7]; rfl
          refine ⟨d2.nodup, d2.width, ?_, ?_, ?_⟩
          · rw [d5, hs]; exact d2.ordered
          · rw [hs]; exact d2.tight
          · rw [hs]; exact d2.cfcTight
      -- `notAhead` when the UTXO state record is not rewritten
      have hna : (fin = false ∨ b = false) → hF s'.p ≤ uF s'.p := by
        intro hcase
        rw [d5, hu']
        rcases d8 with d8 | ⟨d8, d9⟩
        · have : s'.m.histFlush = s.m.histFlush := d8
          rw [this, o4]; exact hP.notAhead
        · rcases hcase with hfin | hb
          · exact absurd d8 (d6 hfin)
          · rcases hok with hok | ⟨hok1, hok2⟩
            · rw [hb] at hok; cases hok
            · have d9' : CfcTight maxRow p s'.m.histFlush := cfcTight_congr (fun hx => (hgs hx).symm) d9
              rcases d9' with t | ⟨hx, t⟩
              · omega
              · have := hok2 hx; omega
      cases fin with
      | false =>
        simp only
        obtain ⟨c1, c2, c3, c4, c5⟩ := hcore
        exact ⟨hg', ⟨c1, c2, c3, c4, c5, hna (Or.inl rfl)⟩⟩
      | true =>
        simp only
        cases b with
        | false =>
          simp only [Bool.false_eq_true, if_false]
          obtain ⟨c1, c2, c3, c4, c5⟩ := hcore
          exact ⟨hg', ⟨c1, c2, c3, c4, c5, hna (Or.inr rfl)⟩⟩
        | true =>
          simp only [if_true]
          have e1 : (applyEffect s'.p (setFlushCountEffect s')).hist = s'.p.hist := rfl
          have e2 : (applyEffect s'.p (setFlushCountEffect s')).hstate = s'.p.hstate := rfl
          have e3 : uF (applyEffect s'.p (setFlushCountEffect s')) = s'.m.histFlush := rfl
          have hs : hsOf (applyEffect s'.p (setFlushCountEffect s')) = hsOf s'.p := by unfold hsOf; rw [e2]
          have hf : hF (applyEffect s'.p (setFlushCountEffect s')) = hF s'.p := by unfold hF; rw [hs]
          obtain ⟨c1, c2, c3, c4, c5⟩ := hcore
          refine ⟨fun hx => by rw [getTxnums_hist_congr e1, hg'], ⟨?_, ?_, ?_, ?_, ?_, ?_⟩⟩
          · rw [e1]; exact c1
          · rw [e1]; exact c2
          · rw [e1, hf, hs]; exact c3
          · rw [hs]; exact idsTight_congr e1 c4
          · rw [hs]; exact cfcTight_congr (fun hx => getTxnums_hist_congr e1 hx) c5
          · rw [hf, e3, d5]; exact Nat.le_refl _

theorem serverStart_inv (cfg : Cfg) (maxRow : Nat) (p : Store) (hP : PInv maxRow p) :
    (∀ hx, getTxnums (serverStart cfg p) hx none = getTxnums p hx none) ∧
    PInv maxRow (serverStart cfg p) := by
  unfold serverStart
  cases ho : openDbs cfg p false none with
  | none => exact ⟨fun _ => rfl, hP⟩
  | some r =>
    obtain ⟨es, s⟩ := r
    obtain ⟨o1, o2, o3, _⟩ := openDbs_spec cfg p false none es s hP.notAhead ho
    exact ⟨fun hx => getTxnums_hist_congr o1 hx, pinv_congr o1 o2 o3 hP⟩

/-! ### histories of events -/

/-- what can happen to the database directory, one process at a time -/
inductive Ev where
  /-- a run of `electrumx_compact_history` that performs the batches with these limits and is then
      stopped or killed (or runs to the end, if the cursor wraps before the list is exhausted);
      `setFlush = false`: the process died between the final batch and `set_flush_count` -/
  | compact (limits : List Nat) (setFlush : Bool)
  /-- a normal start of the server (`open_for_sync` / `open_for_serving`), no block indexed -/
  | serverStart
deriving Repr

def runEv (cfg : Cfg) (maxRow : Nat) (p : Store) : Ev → Store
  | .compact limits b => compactScript cfg maxRow p limits b
  | .serverStart => serverStart cfg p

def runEvs (cfg : Cfg) (maxRow : Nat) (p : Store) (evs : List Ev) : Store :=
  evs.foldl (runEv cfg maxRow) p

/-- the side condition of an event, evaluated on the store it starts from -/
def EvOK (maxRow : Nat) (p : Store) : Ev → Prop
  | .compact _ b => b = true ∨ (1 ≤ uF p ∧ RowsFit maxRow p (uF p))
  | .serverStart => True

def AllOK (cfg : Cfg) (maxRow : Nat) : Store → List Ev → Prop
  | _, [] => True
  | p, ev :: evs => EvOK maxRow p ev ∧ AllOK cfg maxRow (runEv cfg maxRow p ev) evs

theorem runEv_inv (cfg : Cfg) (maxRow : Nat) (hm : 0 < maxRow) (p : Store) (ev : Ev)
    (hP : PInv maxRow p) (hok : EvOK maxRow p ev) :
    (∀ hx, getTxnums (runEv cfg maxRow p ev) hx none = getTxnums p hx none) ∧
    PInv maxRow (runEv cfg maxRow p ev) := by
  cases ev with
  | compact limits b => exact compactScript_inv cfg maxRow hm p limits b hP hok
  | serverStart => exact serverStart_inv cfg maxRow p hP

theorem runEvs_inv (cfg : Cfg) (maxRow : Nat) (hm : 0 < maxRow) (p : Store) (evs : List Ev)
    (hP : PInv maxRow p) (hok : AllOK cfg maxRow p evs) :
    (∀ hx, getTxnums (runEvs cfg maxRow p evs) hx none = getTxnums p hx none) ∧
    PInv maxRow (runEvs cfg maxRow p evs) := by
  induction evs generalizing p with
  | nil => exact ⟨fun _ => rfl, hP⟩
  | cons ev evs ih =>
    obtain ⟨h1, h2⟩ := runEv_inv cfg maxRow hm p ev hP hok.1
    obtain ⟨i1, i2⟩ := ih (runEv cfg maxRow p ev) h2 hok.2
    exact ⟨fun hx => by unfold runEvs at *; rw [List.foldl_cons, i1, h1], by
      unfold runEvs at *; rw [List.foldl_cons]; exact i2⟩

end EV.Compact

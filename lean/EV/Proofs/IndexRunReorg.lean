import EV.Proofs.IndexRunReopen

/-!
Whole-run refinement with back-outs and restarts as run operations.

  `IOp2`      `adv b daemonH` | `flush utxos` | `backup b` | `reopen`
  `runOps2`   the concrete model run (`advance`, `flush`, `backup` = `backupFull`, `reopen` = `openDbs`
              on the persistent part with fresh memory — in ANY state: a restart after a full flush
              loses nothing, a restart in between loses the blocks indexed since the last UTXO flush)
  `Track`     the ghost bookkeeping of a run, computed from the operation history alone: the
              surviving chain, the heights whose undo information is retained, and the number of
              blocks committed by the last full flush / back-out
  `ValidOps2` validity of an operation list w.r.t. the evolving `Track` (decidable for `backup` and
              `reopen`; for `adv` it is `ValidNext`, as in `ValidOps`)
  `trackInv_run`  every valid operation list runs without error and `FullInv'` holds for the
              SURVIVING chain afterwards (hence after every step: prefixes of valid lists are valid)
  `obsEq_of_fullInv`, `fresh_index`   after a final full flush every observable equals the one of a
              server that only ever advanced the surviving chain
  `kept_window`, `backOuts_valid`, `reorg_window_run`   (C15) after a back-out-free stretch whose
              daemon heights did not exceed the final height `H`, the top `k ≤ reorgLimit` blocks
              can be backed out one after the other

`IndexRun.lean`'s `IOp`/`runOps`/`ValidOps` are left as they are.  Core only.
-/
namespace EV.Index
open EV.Spec

/-! ### operations and the concrete run -/

inductive IOp2 where
  | adv (b : Block) (daemonH : Int)
  | flush (utxos : Bool)
  | backup (b : Block)
  | reopen
deriving DecidableEq, Repr

/-- a restart: `_open_dbs(for_sync, compacting = False)` on the persistent store, all memory fresh
    (`none` = an assertion of `_read_tx_counts` failed) -/
def reopen (cfg : Cfg) (s : Sys) : Except Err Sys :=
  match openDbs cfg s.p false none with
  | none => .error .assertion
  | some (_, s') => .ok s'

theorem backup_of_ok {cfg : Cfg} {s s' : Sys} {b : Block} {es : List Effect}
    (h : backupFull cfg s b = .ok (es, s')) : backup cfg s b = .ok s' := by
  delta backup
  rw [h]

theorem reopen_of_some {cfg : Cfg} {s s' : Sys} {es : List Effect}
    (h : openDbs cfg s.p false none = some (es, s')) : reopen cfg s = .ok s' := by
  delta reopen
  rw [h]

def stepOp2 (cfg : Cfg) (s : Sys) : IOp2 → Except Err Sys
  | .adv b d => advance cfg d s b
  | .flush fu => flush s fu
  | .backup b => backup cfg s b
  | .reopen => reopen cfg s

def runOps2 (cfg : Cfg) : Sys → List IOp2 → Except Err Sys
  | s, [] => .ok s
  | s, op :: r =>
    match stepOp2 cfg s op with
    | .error e => .error e
    | .ok s' => runOps2 cfg s' r

/-- the surviving chain, from chain `c` of which the first `n` blocks are committed: advances
    append, a full flush commits everything, back-outs pop the last block, a restart falls back to
    the committed blocks -/
def chainOf2 : List Block → Nat → List IOp2 → List Block
  | c, _, [] => c
  | c, n, .adv b _ :: r => chainOf2 (c ++ [b]) n r
  | c, n, .flush fu :: r => chainOf2 c (if fu then c.length else n) r
  | c, _, .backup _ :: r => chainOf2 c.dropLast (c.length - 1) r
  | c, n, .reopen :: r => chainOf2 (c.take n) n r

theorem runOps2_append (cfg : Cfg) (s : Sys) (a b : List IOp2) :
    runOps2 cfg s (a ++ b) =
      match runOps2 cfg s a with
      | .error e => .error e
      | .ok s' => runOps2 cfg s' b := by
  induction a generalizing s with
  | nil => rfl
  | cons op r ih =>
    simp only [List.cons_append, runOps2]
    cases stepOp2 cfg s op with
    | error e => rfl
    | ok s' => exact ih s'

/-! ### the ghost bookkeeping -/

/-- what a run has established, as a function of the operation history -/
structure Track where
  /-- the surviving chain -/
  chain : List Block := []
  /-- heights whose undo information is retained (and is the right one) -/
  kept : List Nat := []
  /-- number of blocks committed by the last full flush / back-out (`DB.state.height + 1`) -/
  dbLen : Nat := 0
deriving Repr

def Track.step (cfg : Cfg) (t : Track) : IOp2 → Track
  | .adv b d => { chain := t.chain ++ [b], kept := keptAfterAdv cfg d t.chain.length t.kept,
                  dbLen := t.dbLen }
  | .flush fu => { t with dbLen := if fu then t.chain.length else t.dbLen }
  | .backup _ => { chain := t.chain.dropLast, kept := keptAfterBackup (t.chain.length - 1) t.kept,
                   dbLen := t.chain.length - 1 }
  | .reopen => { chain := t.chain.take t.dbLen, kept := keptAfterReopen cfg t.dbLen t.kept,
                 dbLen := t.dbLen }

def Track.run (cfg : Cfg) (t : Track) (ops : List IOp2) : Track := ops.foldl (Track.step cfg) t

/-- the back-out condition, a decidable predicate over the op history: fully flushed (every block is
    committed), the block handed to `backup_block` is the tip, the tip is above height 0, and the
    tip height is retained -/
def BackupOk (t : Track) (b : Block) : Bool :=
  decide (t.dbLen = t.chain.length) && decide (t.chain.getLast? = some b) &&
  decide (2 ≤ t.chain.length) && decide ((t.chain.length - 1) ∈ t.kept)

/-- when an operation may be applied (flushes and restarts: always) -/
def OkOp (cfg : Cfg) (t : Track) : IOp2 → Prop
  | .adv b _ => ValidNext cfg t.chain b
  | .flush _ => True
  | .backup b => BackupOk t b = true
  | .reopen => True

def ValidOps2 (cfg : Cfg) : Track → List IOp2 → Prop
  | _, [] => True
  | t, op :: r => OkOp cfg t op ∧ ValidOps2 cfg (t.step cfg op) r

/-! ### validity is decidable

`ValidOps2` is a decidable predicate over the operation history (the specification state needed for
`ValidTxs` is computed from the surviving chain), so concrete runs are checked by `decide`. -/

instance decInputsOK : ∀ (U : List Utxo) (ins : List TxIn), Decidable (InputsOK U ins)
  | _, [] => isTrue trivial
  | U, i :: r =>
    have := decInputsOK U r
    have := decInputsOK (U.filter (fun u => !names i u)) r
    by unfold InputsOK; exact inferInstance

instance decValidTxs (act height : Nat) :
    ∀ (S : St) (txs : List Tx), Decidable (ValidTxs act height S txs)
  | _, [] => isTrue trivial
  | S, tx :: r =>
    have := decValidTxs act height (applyTx act height S tx) r
    by unfold ValidTxs; exact inferInstance

instance decValidNext (cfg : Cfg) (chain : List Block) (b : Block) :
    Decidable (ValidNext cfg chain b) := by
  unfold ValidNext; exact inferInstance

instance decOkOp (cfg : Cfg) (t : Track) : ∀ op, Decidable (OkOp cfg t op)
  | .adv _ _ => by unfold OkOp; exact inferInstance
  | .flush _ => isTrue trivial
  | .backup _ => by unfold OkOp; exact inferInstance
  | .reopen => isTrue trivial

instance decValidOps2 (cfg : Cfg) : ∀ (t : Track) (ops : List IOp2), Decidable (ValidOps2 cfg t ops)
  | _, [] => isTrue trivial
  | t, op :: r =>
    have := decValidOps2 cfg (t.step cfg op) r
    by unfold ValidOps2; exact inferInstance

theorem Track.run_cons (cfg : Cfg) (t : Track) (op : IOp2) (r : List IOp2) :
    t.run cfg (op :: r) = (t.step cfg op).run cfg r := rfl

theorem Track.run_append (cfg : Cfg) (t : Track) (a b : List IOp2) :
    t.run cfg (a ++ b) = (t.run cfg a).run cfg b := by
  simp [Track.run, List.foldl_append]

theorem Track.run_chain (cfg : Cfg) (t : Track) (ops : List IOp2) :
    (t.run cfg ops).chain = chainOf2 t.chain t.dbLen ops := by
  induction ops generalizing t with
  | nil => rfl
  | cons op r ih =>
    rw [Track.run_cons, ih]
    cases op <;> rfl

theorem validOps2_append (cfg : Cfg) (t : Track) (a b : List IOp2) :
    ValidOps2 cfg t (a ++ b) ↔ ValidOps2 cfg t a ∧ ValidOps2 cfg (t.run cfg a) b := by
  induction a generalizing t with
  | nil => simp [ValidOps2, Track.run]
  | cons op r ih =>
    simp only [List.cons_append, ValidOps2, Track.run_cons, ih, and_assoc]

/-- prefixes of valid operation lists are valid -/
theorem validOps2_take {cfg : Cfg} {t : Track} {ops : List IOp2} (h : ValidOps2 cfg t ops) (k : Nat) :
    ValidOps2 cfg t (ops.take k) := by
  have := (validOps2_append cfg t (ops.take k) (ops.drop k)).mp (by rw [List.take_append_drop]; exact h)
  exact this.1

/-! ### the run invariant -/

structure TrackInv (cfg : Cfg) (t : Track) (s : Sys) : Prop where
  inv : FullInv' cfg t.chain t.kept s
  /-- the bookkeeping's committed length is `DB.state.height + 1` -/
  db : s.m.dbst.height = (t.dbLen : Int) - 1

theorem trackInv_init (cfg : Cfg) : TrackInv cfg {} {} :=
  ⟨fullInv'_init cfg, rfl⟩

theorem TrackInv.dbLen_le {cfg : Cfg} {t : Track} {s : Sys} (ti : TrackInv cfg t s) :
    t.dbLen ≤ t.chain.length := by
  have := ti.inv.base.files.dbK
  have := ti.db
  omega

/-- every block committed = `DB.state` at the tip -/
theorem TrackInv.flushed {cfg : Cfg} {t : Track} {s : Sys} (ti : TrackInv cfg t s)
    (h : t.dbLen = t.chain.length) : s.m.dbst.height = s.m.st.height := by
  rw [ti.db, ti.inv.base.files.height, h]

theorem backupOk_iff {t : Track} {b : Block} :
    BackupOk t b = true ↔
      t.dbLen = t.chain.length ∧ t.chain.getLast? = some b ∧ 2 ≤ t.chain.length ∧
      (t.chain.length - 1) ∈ t.kept := by
  simp only [BackupOk, Bool.and_eq_true, decide_eq_true_eq, and_assoc]

/-- **One step.**  Every admissible operation succeeds on an invariant state and re-establishes the
invariant for the updated bookkeeping. -/
theorem trackInv_step {cfg : Cfg} {t : Track} {s : Sys} (ti : TrackInv cfg t s) (op : IOp2)
    (hok : OkOp cfg t op) :
    ∃ s', stepOp2 cfg s op = .ok s' ∧ TrackInv cfg (t.step cfg op) s' := by
  cases op with
  | adv b d =>
    obtain ⟨s', h1, inv', hdb⟩ := fullInv'_advance (daemonH := d) ti.inv hok
    exact ⟨s', h1, inv', by rw [hdb]; exact ti.db⟩
  | flush fu =>
    obtain ⟨s', h1, inv', hdb⟩ := fullInv'_flush ti.inv fu
    refine ⟨s', h1, inv', ?_⟩
    show s'.m.dbst.height = (((if fu then t.chain.length else t.dbLen : Nat) : Int)) - 1
    rw [hdb]
    cases fu
    · exact ti.db
    · exact ti.inv.base.files.height
  | backup b =>
    obtain ⟨hcl, hlast, hlen, hk⟩ := backupOk_iff.mp hok
    obtain ⟨pre0, hc0⟩ := List.getLast?_eq_some_iff.mp hlast
    have hchain : t.chain = t.chain.dropLast ++ [b] := by
      have : t.chain.dropLast = pre0 := by rw [hc0, List.dropLast_concat]
      rw [this]; exact hc0
    have hplen : t.chain.dropLast.length = t.chain.length - 1 := List.length_dropLast
    have inv := ti.inv
    rw [hchain] at inv
    have hpre : t.chain.dropLast ≠ [] := by
      intro h0
      rw [h0] at hplen
      simp at hplen
      omega
    obtain ⟨e1, e2, s', h1, inv', hfl'⟩ :=
      fullInv'_backup inv (ti.flushed hcl) hpre (by rw [hplen]; exact hk)
    refine ⟨s', backup_of_ok h1, ?_, ?_⟩
    · rw [hplen] at inv'
      exact inv'
    · show s'.m.dbst.height = ((t.chain.length - 1 : Nat) : Int) - 1
      rw [hfl', inv'.base.files.height, hplen]
  | reopen =>
    have hK : (s.m.dbst.height + 1).toNat = t.dbLen := by have := ti.db; omega
    obtain ⟨es, s', h1, inv', -, hdb'⟩ := fullInv'_reopen ti.inv
    rw [hK] at inv'
    exact ⟨s', reopen_of_some h1, inv', by rw [hdb']; exact ti.db⟩

/-- **Whole-run refinement with back-outs and restarts**, from any invariant state: every valid
operation list runs without error and ends in a state satisfying the invariant for the surviving
chain. -/
theorem trackInv_run {cfg : Cfg} (ops : List IOp2) {t : Track} {s : Sys} (ti : TrackInv cfg t s)
    (hv : ValidOps2 cfg t ops) :
    ∃ s', runOps2 cfg s ops = .ok s' ∧ TrackInv cfg (t.run cfg ops) s' := by
  induction ops generalizing t s with
  | nil => exact ⟨s, rfl, ti⟩
  | cons op r ih =>
    obtain ⟨hop, hr⟩ := hv
    obtain ⟨s1, h1, ti1⟩ := trackInv_step ti op hop
    obtain ⟨s', h2, ti2⟩ := ih ti1 hr
    exact ⟨s', by simp only [runOps2, h1]; exact h2, ti2⟩

/-- …and after every step of the run, not only at its end -/
theorem trackInv_run_prefix {cfg : Cfg} (ops : List IOp2) {t : Track} {s : Sys}
    (ti : TrackInv cfg t s) (hv : ValidOps2 cfg t ops) (k : Nat) :
    ∃ s', runOps2 cfg s (ops.take k) = .ok s' ∧
      FullInv' cfg (chainOf2 t.chain t.dbLen (ops.take k)) (t.run cfg (ops.take k)).kept s' := by
  obtain ⟨s', h1, ti'⟩ := trackInv_run (ops.take k) ti (validOps2_take hv k)
  refine ⟨s', h1, ?_⟩
  have := ti'.inv
  rwa [Track.run_chain] at this

/-! ### observables: identical to a server that only ever saw the surviving chain -/

/-- what the read path answers, compared between two systems -/
structure SameAnswers (s s0 : Sys) : Prop where
  history : ∀ hx limit, limitedHistory s hx limit = limitedHistory s0 hx limit
  utxos : ∀ hx, ∃ rows rows0, allUtxos s hx = some rows ∧ allUtxos s0 hx = some rows0 ∧
            rows.Perm rows0
  utxoCount : s.m.st.utxoCount = s0.m.st.utxoCount
  txCount : s.m.st.txCount = s0.m.st.txCount
  height : s.m.st.height = s0.m.st.height
  tip : s.m.st.tip = s0.m.st.tip
  chainSize : s.m.st.chainSize = s0.m.st.chainSize
  headers : ∀ start count, readHeaders s start count = readHeaders s0 start count
  txHashes : ∀ h, txHashesAt s h = txHashesAt s0 h

/-- two fully flushed invariant states of the same chain answer every query alike -/
theorem obsEq_of_fullInv {cfg : Cfg} {chain : List Block} {K K0 : List Nat} {s s0 : Sys}
    (inv' : FullInv' cfg chain K s) (hf : s.m.dbst.height = s.m.st.height)
    (inv0' : FullInv' cfg chain K0 s0) (hf0 : s0.m.dbst.height = s0.m.st.height) :
    SameAnswers s s0 := by
  have inv := inv'.base
  have inv0 := inv0'.base
  obtain ⟨u1, h1, c1, t1⟩ := C01_observables inv (flushed_of_db inv hf)
  obtain ⟨u0, h0, c0, t0⟩ := C01_observables inv0 (flushed_of_db inv0 hf0)
  have hh : s.m.st.height = s0.m.st.height := by rw [inv.files.height, inv0.files.height]
  have hdb : s.m.dbst.height = s0.m.dbst.height := by rw [hf, hf0, hh]
  exact {
    history := fun hx limit => by rw [h1, h0]
    utxos := fun hx => by
      obtain ⟨r, hr, pr⟩ := u1 hx
      obtain ⟨r0, hr0, pr0⟩ := u0 hx
      exact ⟨r, r0, hr, hr0, pr.trans pr0.symm⟩
    utxoCount := by rw [c1, c0]
    txCount := by rw [t1, t0]
    height := hh
    tip := by rw [inv.tip, inv0.tip]
    chainSize := by rw [inv'.chainSize, inv0'.chainSize]
    headers := fun start count => by
      rw [readHeaders_of_files inv.files, readHeaders_of_files inv0.files, hdb]
    txHashes := fun h => by
      by_cases hle : (h : Int) ≤ s.m.dbst.height
      · have hlt : h < chain.length := by
          have := inv.files.height; omega
        have hb : chain[h]? = some chain[h] := List.getElem?_eq_getElem hlt
        rw [txHashesAt_of_files inv.files hb hle, txHashesAt_of_files inv0.files hb (by omega)]
      · have h1 : txHashesAt s h = none := by
          unfold txHashesAt; rw [if_pos (by omega)]
        have h2 : txHashesAt s0 h = none := by
          unfold txHashesAt; rw [if_pos (by omega)]
        rw [h1, h2] }

/-- **What a flushed invariant state answers**: every observable is the specification's of the
chain — UTXOs (hence balances), histories for every limit, counters, height, tip, chain size,
headers, per-block transaction hashes. -/
theorem observables_of_fullInv' {cfg : Cfg} {chain : List Block} {K : List Nat} {s : Sys}
    (inv : FullInv' cfg chain K s) (hf : s.m.dbst.height = s.m.st.height) :
    (∀ hx, ∃ rows, allUtxos s hx = some rows ∧
        rows.Perm (((specChain cfg.act chain).utxos.filter (·.hx == hx)).map
          (fun u => ⟨u.txnum, u.idx, u.txid, u.height, u.value⟩))) ∧
    (∀ hx limit, limitedHistory s hx limit =
        some (historyPairs (specChain cfg.act chain) hx limit)) ∧
    s.m.st.utxoCount = ((specChain cfg.act chain).utxos.length : Int) ∧
    s.m.st.txCount = (specChain cfg.act chain).txs.length ∧
    s.m.st.height = (chain.length : Int) - 1 ∧
    s.m.st.tip = (chain.getLast?.map (·.hash)).getD 0 ∧
    s.m.st.chainSize = (chain.map (·.size)).sum ∧
    (∀ start count, readHeaders s start count =
      ((chain.map (·.header)).drop start).take (min (count : Int) ((chain.length : Int) - start)).toNat) ∧
    (∀ (h : Nat) (b : Block), chain[h]? = some b → txHashesAt s h = some (b.txs.map (·.id))) := by
  obtain ⟨u1, h1, c1, t1⟩ := C01_observables inv.base (flushed_of_db inv.base hf)
  have f := inv.base.files
  refine ⟨u1, h1, c1, t1, f.height, inv.base.tip, inv.chainSize, ?_, ?_⟩
  · intro start count
    rw [readHeaders_of_files f, hf, f.height]
    congr 2
    omega
  · intro h b hb
    apply txHashesAt_of_files f hb
    have hlt := (List.getElem?_eq_some_iff.mp hb).1
    have := f.height
    omega

/-- the operations of `IndexRun.lean` as operations of this file -/
def IOp.to2 : IOp → IOp2
  | .adv b d => .adv b d
  | .flush fu => .flush fu

theorem runOps2_map_to2 (cfg : Cfg) (s : Sys) (ops : List IOp) :
    runOps2 cfg s (ops.map IOp.to2) = runOps cfg s ops := by
  induction ops generalizing s with
  | nil => rfl
  | cons op r ih =>
    cases op with
    | adv b d =>
      simp only [List.map_cons, IOp.to2, runOps2, stepOp2, runOps]
      cases advance cfg d s b with
      | error e => rfl
      | ok s' => exact ih s'
    | flush fu =>
      simp only [List.map_cons, IOp.to2, runOps2, stepOp2, runOps]
      cases flush s fu with
      | error e => rfl
      | ok s' => exact ih s'

theorem validOps2_map_to2 {cfg : Cfg} (ops : List IOp) (t : Track) (h : ValidOps cfg t.chain ops) :
    ValidOps2 cfg t (ops.map IOp.to2) := by
  induction ops generalizing t with
  | nil => trivial
  | cons op r ih =>
    cases op with
    | adv b d => exact ⟨h.1, ih (t.step cfg (.adv b d)) h.2⟩
    | flush fu => exact ⟨trivial, ih (t.step cfg (.flush fu)) h⟩

theorem Track.run_flushTrue (cfg : Cfg) (t : Track) (ops : List IOp2) :
    t.run cfg (ops ++ [.flush true]) =
      { t.run cfg ops with dbLen := (t.run cfg ops).chain.length } := by
  rw [Track.run_append]; rfl

theorem chainOf2_flushTrue (c : List Block) (n : Nat) (ops : List IOp2) :
    chainOf2 c n (ops ++ [.flush true]) = chainOf2 c n ops := by
  induction ops generalizing c n with
  | nil => rfl
  | cons op r ih => cases op <;> simp only [List.cons_append, chainOf2, ih]

theorem chainOf2_map_to2 (ops : List IOp) (c : List Block) (n : Nat) :
    chainOf2 c n (ops.map IOp.to2) = c ++ chainOf ops := by
  induction ops generalizing c n with
  | nil => simp [chainOf2, chainOf]
  | cons op r ih =>
    cases op with
    | adv b d => simp only [List.map_cons, IOp.to2, chainOf2, chainOf, ih]; simp
    | flush fu => simp only [List.map_cons, IOp.to2, chainOf2, chainOf, ih]

theorem validOps_snoc_flush {cfg : Cfg} (l : List IOp) (c : List Block) (fu : Bool)
    (h : ValidOps cfg c l) : ValidOps cfg c (l ++ [.flush fu]) := by
  induction l generalizing c with
  | nil => exact trivial
  | cons op r ih =>
    cases op with
    | adv b d => exact ⟨h.1, ih _ h.2⟩
    | flush fu' => exact ih _ h

theorem chainOf_snoc_flush (l : List IOp) (fu : Bool) : chainOf (l ++ [.flush fu]) = chainOf l := by
  induction l with
  | nil => rfl
  | cons op r ih => cases op <;> simp only [List.cons_append, chainOf, ih]

/-- **After any valid run with back-outs and restarts, followed by a full flush, the index answers
exactly like a fresh index that only ever advanced the surviving chain** (`s0`: the run of
`C01run_end_to_end` for that chain; both satisfy the invariant for it, so both answer as the
specification of the surviving chain says, `C01_observables`). -/
theorem fresh_index (cfg : Cfg) (ops : List IOp2) (hv : ValidOps2 cfg {} ops) :
    ∃ s s0 K, runOps2 cfg {} (ops ++ [.flush true]) = .ok s ∧
      runOps cfg {} (advOnly (chainOf2 [] 0 ops) ++ [.flush true]) = .ok s0 ∧
      ValidOps cfg [] (advOnly (chainOf2 [] 0 ops)) ∧
      FullInv' cfg (chainOf2 [] 0 ops) K s ∧ s.m.dbst.height = s.m.st.height ∧
      SameAnswers s s0 := by
  have hv' : ValidOps2 cfg {} (ops ++ [.flush true]) :=
    (validOps2_append cfg {} ops [.flush true]).mpr ⟨hv, trivial, trivial⟩
  obtain ⟨s, hrun, ti⟩ := trackInv_run _ (trackInv_init cfg) hv'
  have hchain : (Track.run cfg {} (ops ++ [.flush true])).chain = chainOf2 [] 0 ops := by
    rw [Track.run_chain, chainOf2_flushTrue]
  have hfl : s.m.dbst.height = s.m.st.height :=
    ti.flushed (by rw [Track.run_flushTrue])
  have inv := ti.inv
  rw [hchain] at inv
  -- the server that only ever saw the surviving chain
  have hvo : ValidOps cfg [] (advOnly (chainOf2 [] 0 ops)) :=
    validOps_advOnly [] _ (by simpa using inv.valid)
  have hvo' := validOps_snoc_flush _ _ true hvo
  obtain ⟨s0, hr0, ti0⟩ := trackInv_run _ (trackInv_init cfg)
    (validOps2_map_to2 (advOnly (chainOf2 [] 0 ops) ++ [IOp.flush true]) {} hvo')
  rw [runOps2_map_to2] at hr0
  have hmap : (advOnly (chainOf2 [] 0 ops) ++ [IOp.flush true]).map IOp.to2 =
      (advOnly (chainOf2 [] 0 ops)).map IOp.to2 ++ [IOp2.flush true] := by
    rw [List.map_append]; rfl
  have hchain0 : (Track.run cfg {} ((advOnly (chainOf2 [] 0 ops) ++ [IOp.flush true]).map IOp.to2)).chain =
      chainOf2 [] 0 ops := by
    rw [Track.run_chain, chainOf2_map_to2, chainOf_snoc_flush, chainOf_advOnly]; rfl
  have hfl0 : s0.m.dbst.height = s0.m.st.height :=
    ti0.flushed (by rw [hmap, Track.run_flushTrue])
  have inv0 := ti0.inv
  rw [hchain0] at inv0
  exact ⟨s, s0, _, hrun, hr0, hvo, inv, hfl, obsEq_of_fullInv inv hfl inv0 hfl0⟩

/-! ### C15: the window of blocks that can be backed out -/

def NoBackup (ops : List IOp2) : Prop := ∀ b, IOp2.backup b ∉ ops

/-- every daemon height seen by an advance of the list is at most `H` -/
def DaemonLe (H : Int) (ops : List IOp2) : Prop := ∀ b d, IOp2.adv b d ∈ ops → d ≤ H

theorem NoBackup.tail {op : IOp2} {r : List IOp2} (h : NoBackup (op :: r)) : NoBackup r :=
  fun b hb => h b (List.mem_cons_of_mem _ hb)

theorem DaemonLe.tail {H : Int} {op : IOp2} {r : List IOp2} (h : DaemonLe H (op :: r)) :
    DaemonLe H r :=
  fun b d hb => h b d (List.mem_cons_of_mem _ hb)

/-- without back-outs the committed length never decreases, and it never exceeds the chain length -/
theorem dbLen_mono (cfg : Cfg) (ops : List IOp2) (t : Track) (hnb : NoBackup ops)
    (hdb : t.dbLen ≤ t.chain.length) :
    t.dbLen ≤ (t.run cfg ops).dbLen ∧ (t.run cfg ops).dbLen ≤ (t.run cfg ops).chain.length := by
  induction ops generalizing t with
  | nil => exact ⟨Nat.le_refl _, hdb⟩
  | cons op r ih =>
    rw [Track.run_cons]
    cases op with
    | adv b d =>
      have := ih (t.step cfg (.adv b d)) hnb.tail (by
        show t.dbLen ≤ (t.chain ++ [b]).length
        rw [List.length_append]; omega)
      exact this
    | flush fu =>
      have h1 : t.dbLen ≤ (t.step cfg (.flush fu)).dbLen := by
        show t.dbLen ≤ (if fu then t.chain.length else t.dbLen)
        split <;> omega
      have := ih (t.step cfg (.flush fu)) hnb.tail (by
        show (if fu then t.chain.length else t.dbLen) ≤ t.chain.length
        split <;> omega)
      exact ⟨Nat.le_trans h1 this.1, this.2⟩
    | backup b => exact absurd (List.mem_cons_self ..) (hnb b)
    | reopen =>
      have := ih (t.step cfg .reopen) hnb.tail (by
        show t.dbLen ≤ (t.chain.take t.dbLen).length
        rw [List.length_take]; omega)
      exact this

/-- **Retention over a back-out-free stretch.**  If no daemon height seen during the stretch exceeds
`H` and the stretch ends at a height `≤ H`, then every height `h` above `H − reorgLimit` that is on
the chain at the end of the stretch, and was either retained at its start or not yet indexed then,
is retained at the end — restarts in between included, clean or not (they prune only below their
own, lower, window; blocks they lose are indexed again during the stretch). -/
theorem kept_window (cfg : Cfg) (H : Int) (ops : List IOp2) (t : Track) (hnb : NoBackup ops)
    (hd : DaemonLe H ops) (hdb : t.dbLen ≤ t.chain.length)
    (hH : ((t.run cfg ops).chain.length : Int) - 1 ≤ H) (h : Nat)
    (hw : H - cfg.reorgLimit < h) (hfin : h < (t.run cfg ops).chain.length)
    (hin : h < t.chain.length → h ∈ t.kept) :
    h ∈ (t.run cfg ops).kept := by
  induction ops generalizing t with
  | nil => exact hin hfin
  | cons op r ih =>
    rw [Track.run_cons] at hH hfin ⊢
    cases op with
    | adv b d =>
      have hdle : d ≤ H := hd b d (List.mem_cons_self ..)
      apply ih (t.step cfg (.adv b d)) hnb.tail hd.tail
        (by show t.dbLen ≤ (t.chain ++ [b]).length; rw [List.length_append]; omega) hH hfin
      intro hlt
      have hlt' : h < (t.chain ++ [b]).length := hlt
      rw [List.length_append, List.length_singleton] at hlt'
      show h ∈ keptAfterAdv cfg d t.chain.length t.kept
      by_cases heq : h = t.chain.length
      · have hk : undoKept cfg d t.chain.length = true :=
          undoKept_of_window cfg H d t.chain.length hdle (by omega)
        simp only [keptAfterAdv, hk, if_true, heq, List.mem_cons, true_or]
      · have := hin (by omega)
        simp only [keptAfterAdv]
        split
        · exact List.mem_cons_of_mem _ this
        · exact this
    | flush fu =>
      exact ih (t.step cfg (.flush fu)) hnb.tail hd.tail
        (by show (if fu then t.chain.length else t.dbLen) ≤ t.chain.length; split <;> omega)
        hH hfin hin
    | backup b => exact absurd (List.mem_cons_self ..) (hnb b)
    | reopen =>
      have hlen1 : (t.chain.take t.dbLen).length = t.dbLen := by
        rw [List.length_take]; omega
      have hdb1 : (t.step cfg .reopen).dbLen ≤ (t.step cfg .reopen).chain.length := by
        show t.dbLen ≤ (t.chain.take t.dbLen).length
        omega
      have hfinal := (dbLen_mono cfg r (t.step cfg .reopen) hnb.tail hdb1)
      have hdbH : (t.dbLen : Int) - 1 ≤ H := by
        have h1 : t.dbLen ≤ ((t.step cfg .reopen).run cfg r).dbLen := hfinal.1
        have h2 := hfinal.2
        omega
      apply ih (t.step cfg .reopen) hnb.tail hd.tail hdb1 hH hfin
      intro hlt
      have hlt' : h < (t.chain.take t.dbLen).length := hlt
      rw [hlen1] at hlt'
      show h ∈ keptAfterReopen cfg t.dbLen t.kept
      simp only [keptAfterReopen, List.mem_filter, Bool.and_eq_true, decide_eq_true_eq]
      exact ⟨hin (by omega), hlt', by omega⟩

/-- back out the last `k` blocks of `chain`, tip first -/
def backOuts : List Block → Nat → List IOp2
  | _, 0 => []
  | chain, k + 1 =>
    match chain.getLast? with
    | none => []
    | some b => .backup b :: backOuts chain.dropLast k

/-- `k` consecutive back-outs are admissible in a fully flushed state whose top `k` heights are
    retained (and which keeps at least one block); they leave the first `length − k` blocks, fully
    flushed -/
theorem backOuts_valid (cfg : Cfg) (k : Nat) (t : Track) (hcl : t.dbLen = t.chain.length)
    (hlen : k + 1 ≤ t.chain.length)
    (hk : ∀ h, t.chain.length - k ≤ h → h < t.chain.length → h ∈ t.kept) :
    ValidOps2 cfg t (backOuts t.chain k) ∧
    (t.run cfg (backOuts t.chain k)).chain = t.chain.take (t.chain.length - k) ∧
    (t.run cfg (backOuts t.chain k)).dbLen = (t.run cfg (backOuts t.chain k)).chain.length := by
  induction k generalizing t with
  | zero => exact ⟨trivial, by simp [backOuts, Track.run], hcl⟩
  | succ k ih =>
    have hne : t.chain ≠ [] := by
      intro h0; rw [h0] at hlen; simp at hlen
    obtain ⟨b, hb⟩ : ∃ b, t.chain.getLast? = some b :=
      ⟨t.chain.getLast hne, List.getLast?_eq_some_getLast hne⟩
    have hbo : backOuts t.chain (k + 1) = .backup b :: backOuts t.chain.dropLast k := by
      simp only [backOuts, hb]
    rw [hbo]
    have hok : BackupOk t b = true :=
      backupOk_iff.mpr ⟨hcl, hb, by omega, hk _ (by omega) (by omega)⟩
    have hdl : t.chain.dropLast.length = t.chain.length - 1 := List.length_dropLast
    obtain ⟨h1, h2, h3⟩ : ValidOps2 cfg (t.step cfg (.backup b)) (backOuts t.chain.dropLast k) ∧
        ((t.step cfg (.backup b)).run cfg (backOuts t.chain.dropLast k)).chain =
          t.chain.dropLast.take (t.chain.dropLast.length - k) ∧
        ((t.step cfg (.backup b)).run cfg (backOuts t.chain.dropLast k)).dbLen =
          ((t.step cfg (.backup b)).run cfg (backOuts t.chain.dropLast k)).chain.length :=
      ih (t.step cfg (.backup b)) (by show t.chain.length - 1 = t.chain.dropLast.length; omega)
      (by show k + 1 ≤ t.chain.dropLast.length; omega)
      (by
        intro h hlo hhi
        have hlo' : t.chain.dropLast.length - k ≤ h := hlo
        have hhi' : h < t.chain.dropLast.length := hhi
        show h ∈ keptAfterBackup (t.chain.length - 1) t.kept
        simp only [keptAfterBackup, List.mem_filter, decide_eq_true_eq]
        exact ⟨hk h (by omega) (by omega), by omega⟩)
    refine ⟨⟨hok, h1⟩, ?_, ?_⟩
    · rw [Track.run_cons, h2]
      rw [hdl, List.dropLast_eq_take, List.take_take]
      congr 1
      omega
    · rw [Track.run_cons]; exact h3

/-- **C15 over whole runs.**  From any invariant state: run a valid back-out-free stretch `ops`
(advances, flushes of either kind, restarts — clean or losing unflushed blocks) that ends with
`H + 1` blocks indexed and during which no daemon height exceeded `H`; then a full flush and
`k ≤ reorgLimit`, `k ≤ H` consecutive back-outs (tip first) all succeed, and the result is a fully
flushed invariant state of the first `H + 1 − k` blocks.  Heights of the window that were already
indexed before the stretch must have been retained then (vacuous when the stretch starts from the
empty index). -/
theorem reorg_window_run {cfg : Cfg} {t : Track} {s : Sys} (ti : TrackInv cfg t s)
    (ops : List IOp2) (hv : ValidOps2 cfg t ops) (hnb : NoBackup ops) (H : Nat)
    (hH : (chainOf2 t.chain t.dbLen ops).length = H + 1) (hd : DaemonLe H ops)
    (k : Nat) (hk1 : k ≤ cfg.reorgLimit) (hk2 : k ≤ H)
    (hold : ∀ h, H + 1 - k ≤ h → h < t.chain.length → h ∈ t.kept) :
    ValidOps2 cfg t (ops ++ [.flush true] ++ backOuts (chainOf2 t.chain t.dbLen ops) k) ∧
    ∃ s' K', runOps2 cfg s (ops ++ [.flush true] ++ backOuts (chainOf2 t.chain t.dbLen ops) k)
        = .ok s' ∧
      FullInv' cfg ((chainOf2 t.chain t.dbLen ops).take (H + 1 - k)) K' s' ∧
      s'.m.dbst.height = s'.m.st.height := by
  have hrc : (t.run cfg ops).chain = chainOf2 t.chain t.dbLen ops := Track.run_chain cfg t ops
  -- the bookkeeping after the stretch and the full flush
  have hchain1 : (t.run cfg (ops ++ [.flush true])).chain = chainOf2 t.chain t.dbLen ops := by
    rw [Track.run_flushTrue]; exact hrc
  have hkept1 : (t.run cfg (ops ++ [.flush true])).kept = (t.run cfg ops).kept := by
    rw [Track.run_flushTrue]
  have hclean1 : (t.run cfg (ops ++ [.flush true])).dbLen =
      (t.run cfg (ops ++ [.flush true])).chain.length := by
    rw [Track.run_flushTrue]
  have hwin : ∀ h, (t.run cfg (ops ++ [.flush true])).chain.length - k ≤ h →
      h < (t.run cfg (ops ++ [.flush true])).chain.length →
      h ∈ (t.run cfg (ops ++ [.flush true])).kept := by
    intro h hlo hhi
    rw [hchain1, hH] at hlo hhi
    rw [hkept1]
    apply kept_window cfg (H : Int) ops t hnb hd ti.dbLen_le (by rw [hrc, hH]; omega) h (by omega)
      (by rw [hrc, hH]; exact hhi)
    intro hlt
    exact hold h hlo hlt
  obtain ⟨hvb, hcb, hdbb⟩ := backOuts_valid cfg k (t.run cfg (ops ++ [.flush true])) hclean1
    (by rw [hchain1, hH]; omega) hwin
  rw [hchain1] at hvb hcb hdbb
  have hvall : ValidOps2 cfg t (ops ++ [.flush true] ++ backOuts (chainOf2 t.chain t.dbLen ops) k) :=
    (validOps2_append cfg t _ _).mpr
      ⟨(validOps2_append cfg t ops [.flush true]).mpr ⟨hv, trivial, trivial⟩, hvb⟩
  refine ⟨hvall, ?_⟩
  obtain ⟨s', hrun, ti'⟩ := trackInv_run _ ti hvall
  refine ⟨s', ((t.run cfg (ops ++ [.flush true])).run cfg
    (backOuts (chainOf2 t.chain t.dbLen ops) k)).kept, hrun, ?_, ?_⟩
  · have := ti'.inv
    rw [Track.run_append, hcb, hH] at this
    exact this
  · apply ti'.flushed
    rw [Track.run_append]
    exact hdbb

end EV.Index

import EV.Proofs.CompactTotal
import EV.Proofs.IndexRunReorg
import EV.Proofs.CrashRecover
import EV.Proofs.CrashRedo
import EV.Proofs.CarrierLoop

/-!
`PInv` (the precondition of every C14 run theorem, `EV/Proofs/CompactRun.lean`) derived from how the
index writes history rows.

* `RunShape` — a NEW invariant of index runs (`runOps2`: advances, flushes of either kind, back-outs,
  restarts), proved by induction over the run without any validity hypothesis: no compaction is in
  progress in memory or in the history state record on disk (`comp_flush_count = comp_cursor = -1`),
  no history row on disk and no `unflushed` entry is empty.
* `specChain_width` — every script hash the specification of a chain touches is the hashX of an
  output of the chain; with the hypothesis `ChainHxWidth` (11-byte hashXs) and `FullInv.hist` this gives
  `HxWidth` of the history table.
* `IdleStore` — what the two invariants say about the store on disk; `pinv_of_idle`: it is `PInv` as soon
  as the history flush count is not ahead of the UTXO one, `idleStore_openStore`: and `_open_dbs`
  (`clear_excess`) establishes exactly that.
Core only.
-/
namespace EV.Compact
open EV.Index EV.Spec

/-! ### the shape invariant of index runs -/

/-- what every state of an index run satisfies, whatever the blocks -/
structure RunShape (s : Sys) : Prop where
  memFlush : s.m.compFlush = -1
  memCursor : s.m.compCursor = -1
  diskFlush : (hsOf s.p).compFlushCount = -1
  diskCursor : (hsOf s.p).compCursor = -1
  noEmpty : NoEmptyRows s.p.hist
  unfNoEmpty : ∀ e ∈ s.m.unflushed, e.2 ≠ []

theorem runShape_init : RunShape {} :=
  ⟨rfl, rfl, rfl, rfl, by intro e he; simp at he, by intro e he; simp at he⟩

/-! #### `advance_block` -/

theorem mem_ainsert_gen {κ ν : Type} [DecidableEq κ] {k : κ} {v : ν} {l : List (κ × ν)} {e : κ × ν}
    (h : e ∈ ainsert k v l) : e = (k, v) ∨ e ∈ l := by
  simp only [ainsert, aerase, List.mem_cons, List.mem_filter] at h
  rcases h with h | h
  · exact Or.inl h
  · exact Or.inr h.1

theorem addUnflushed_inner_noEmpty (n : Nat) (hxs : List HashX) (unf : List (HashX × List Nat))
    (h : ∀ e ∈ unf, e.2 ≠ []) :
    ∀ e ∈ hxs.foldl (fun unf hx => ainsert hx ((alookup hx unf).getD [] ++ [n]) unf) unf, e.2 ≠ [] := by
  induction hxs generalizing unf with
  | nil => simpa using h
  | cons a r ih =>
    simp only [List.foldl_cons]
    apply ih
    intro e he
    rcases mem_ainsert_gen he with rfl | he
    · simp
    · exact h e he

theorem addUnflushed_noEmpty (unf : List (HashX × List Nat)) (hxsByTx : List (List HashX)) (first : Nat)
    (h : ∀ e ∈ unf, e.2 ≠ []) : ∀ e ∈ addUnflushed unf hxsByTx first, e.2 ≠ [] := by
  induction hxsByTx generalizing unf first with
  | nil => simpa [addUnflushed] using h
  | cons hxs r ih =>
    have := ih (hxs.eraseDups.foldl (fun unf hx => ainsert hx ((alookup hx unf).getD [] ++ [first]) unf) unf)
      (first + 1) (addUnflushed_inner_noEmpty first _ unf h)
    simpa only [addUnflushed, List.zipIdx_cons, List.foldl_cons] using this

/-- what `advance_block` does to the fields `RunShape` talks about -/
theorem advance_shape_facts {cfg : Cfg} {daemonH : Int} {s s' : Sys} {b : Block}
    (h : advance cfg daemonH s b = .ok s') :
    s'.p = s.p ∧ s'.m.compFlush = s.m.compFlush ∧ s'.m.compCursor = s.m.compCursor ∧
    ∃ hxs n, s'.m.unflushed = addUnflushed s.m.unflushed hxs n := by
  unfold advance at h
  split at h
  · simp at h
  · dsimp only at h
    split at h
    · simp at h
    · next a ha =>
      obtain ⟨c, d, hs⟩ := advanceTxs_same _ _ _ _ ha
      simp only at hs
      simp only [Except.ok.injEq] at h
      subst h
      refine ⟨by simp [hs], by simp [hs], by simp [hs], a.hashXsByTx, s.m.st.txCount, by simp [hs]⟩

theorem runShape_advance {cfg : Cfg} {daemonH : Int} {s s' : Sys} {b : Block} (hI : RunShape s)
    (h : advance cfg daemonH s b = .ok s') : RunShape s' := by
  obtain ⟨h1, h2, h3, hxs, n, h4⟩ := advance_shape_facts h
  refine ⟨by rw [h2]; exact hI.memFlush, by rw [h3]; exact hI.memCursor, by rw [h1]; exact hI.diskFlush,
    by rw [h1]; exact hI.diskCursor, by rw [h1]; exact hI.noEmpty, ?_⟩
  rw [h4]
  exact addUnflushed_noEmpty _ _ _ hI.unfNoEmpty

/-! #### `flush_dbs` -/

theorem mem_foldl_ainsert_sub (puts : List Row) (l : List Row) (e : Row)
    (h : e ∈ puts.foldl (fun hs (kv : Row) => ainsert kv.1 kv.2 hs) l) : e ∈ puts ∨ e ∈ l := by
  induction puts generalizing l with
  | nil => exact Or.inr h
  | cons kv ps ih =>
    rcases ih _ h with h1 | h1
    · exact Or.inl (List.mem_cons_of_mem _ h1)
    · rcases mem_ainsert.mp h1 with h2 | h2
      · exact Or.inl (by rw [h2]; exact List.mem_cons_self)
      · exact Or.inr h2.1

/-- a row of the table after a write batch was put by the batch or was there before -/
theorem mem_histBatch_sub (p : Store) (dels : List (HashX × Nat)) (puts : List Row) (st : HState) (e : Row)
    (h : e ∈ (applyEffect p (.histBatch dels puts st)).hist) : e ∈ puts ∨ e ∈ p.hist := by
  rw [hist_applyEffect_histBatch] at h
  rcases mem_foldl_ainsert_sub _ _ _ h with h | h
  · exact Or.inl h
  · exact Or.inr ((mem_foldl_aerase _ _ _).mp h).1

/-- `History.flush` never writes an empty row if `unflushed` has no empty entry -/
theorem noEmpty_histFlush (s : Sys) (hn : NoEmptyRows s.p.hist) (hu : ∀ e ∈ s.m.unflushed, e.2 ≠ []) :
    NoEmptyRows (applyEffect s.p (histFlushEffect s)).hist := by
  intro e he
  unfold histFlushEffect at he
  rcases mem_histBatch_sub _ _ _ _ _ he with h | h
  · simp only [List.mem_map] at h
    obtain ⟨x, hx, rfl⟩ := h
    have hx' : x ∈ s.m.unflushed := (List.mergeSort_perm _ _).mem_iff.mp hx
    exact hu x hx'
  · exact hn e h

theorem hstate_histFlush_comp (s : Sys) :
    (hsOf (applyEffect s.p (histFlushEffect s))).compFlushCount = s.m.compFlush ∧
    (hsOf (applyEffect s.p (histFlushEffect s))).compCursor = s.m.compCursor := by
  unfold hsOf
  rw [hstate_histFlush]
  exact ⟨rfl, rfl⟩

/-- a UTXO batch leaves the history DB alone -/
theorem hist_utxoBatch (p : Store) (dels : List DelKey) (hp : List (HKey × HashX)) (up : List (UKey × Nat))
    (ud : List Nat) (upu : List (Nat × List CacheVal)) (st : Option CState) :
    (applyEffect p (.utxoBatch dels hp up ud upu st)).hist = p.hist ∧
    (applyEffect p (.utxoBatch dels hp up ud upu st)).hstate = p.hstate := by
  simp only [applyEffect]
  exact ⟨(foldl_applyDelKey_rest _ _).2.2.1, (foldl_applyDelKey_rest _ _).2.2.2.1⟩

/-- the history table and state record after the effects of a non-trivial `flush_dbs` -/
theorem flushTail_hist (s : Sys) (tail : List Effect)
    (ht : tail = [] ∨ ∃ st', tail = [utxoBatchEffect s st', .putUState st']) :
    (applyEffects s.p (flushFsEffects s ++ [histFlushEffect s] ++ tail)).hist =
      (applyEffect s.p (histFlushEffect s)).hist ∧
    (applyEffects s.p (flushFsEffects s ++ [histFlushEffect s] ++ tail)).hstate =
      (applyEffect s.p (histFlushEffect s)).hstate := by
  rcases ht with rfl | ⟨st', rfl⟩
  · simp [applyEffects, applyEffect, flushFsEffects, histFlushEffect]
  · simp only [applyEffects, flushFsEffects, utxoBatchEffect, List.cons_append, List.nil_append,
      List.foldl_cons, List.foldl_nil]
    simp only [applyEffect, histFlushEffect]
    exact ⟨by simp [(foldl_applyDelKey_rest _ _).2.2.1], by simp [(foldl_applyDelKey_rest _ _).2.2.2.1]⟩

/-- what `flush_dbs` does to the fields `RunShape` talks about -/
theorem flush_shape_facts {s s' : Sys} {fu : Bool} (h : flush s fu = .ok s') :
    s' = s ∨
    (s'.p.hist = (applyEffect s.p (histFlushEffect s)).hist ∧
     s'.p.hstate = (applyEffect s.p (histFlushEffect s)).hstate ∧
     s'.m.unflushed = [] ∧ s'.m.compFlush = s.m.compFlush ∧ s'.m.compCursor = s.m.compCursor) := by
  unfold flush at h
  cases hf : flushDbs s fu with
  | none => rw [hf] at h; cases h
  | some r =>
    obtain ⟨es, m⟩ := r
    rw [hf] at h
    simp only [Except.ok.injEq] at h
    subst h
    unfold flushDbs at hf
    split at hf
    · split at hf
      · simp only [Option.some.injEq, Prod.mk.injEq] at hf
        obtain ⟨rfl, rfl⟩ := hf
        exact Or.inl rfl
      · cases hf
    · split at hf
      · cases hf
      · right
        simp only at hf
        split at hf
        · simp only [Option.some.injEq, Prod.mk.injEq] at hf
          obtain ⟨rfl, rfl⟩ := hf
          obtain ⟨t1, t2⟩ := flushTail_hist s _ (Or.inr ⟨_, rfl⟩)
          exact ⟨t1, t2, rfl, rfl, rfl⟩
        · simp only [Option.some.injEq, Prod.mk.injEq] at hf
          obtain ⟨rfl, rfl⟩ := hf
          obtain ⟨t1, t2⟩ := flushTail_hist s [] (Or.inl rfl)
          rw [List.append_nil] at t1 t2
          exact ⟨t1, t2, rfl, rfl, rfl⟩

theorem runShape_flush {s s' : Sys} {fu : Bool} (hI : RunShape s) (h : flush s fu = .ok s') :
    RunShape s' := by
  rcases flush_shape_facts h with rfl | ⟨h1, h2, h3, h4, h5⟩
  · exact hI
  · have hs : hsOf s'.p = hsOf (applyEffect s.p (histFlushEffect s)) := by unfold hsOf; rw [h2]
    obtain ⟨c1, c2⟩ := hstate_histFlush_comp s
    refine ⟨by rw [h4]; exact hI.memFlush, by rw [h5]; exact hI.memCursor,
      by rw [hs, c1]; exact hI.memFlush, by rw [hs, c2]; exact hI.memCursor, ?_, ?_⟩
    · rw [h1]; exact noEmpty_histFlush s hI.noEmpty hI.unfNoEmpty
    · rw [h3]; intro e he; simp at he

/-! #### `backup_block` + `flush_backup` -/

theorem histBackupOne_puts_noEmpty (tc : Nat) (rd : List Row) :
    ∀ e ∈ (histBackupOne tc rd).2, e.2 ≠ [] := by
  induction rd with
  | nil => simp [histBackupOne]
  | cons e rest ih =>
    obtain ⟨k, nums⟩ := e
    by_cases h : bisectLeft nums tc > 0
    · rw [HistAux.histBackupOne_pos _ _ _ _ h]
      intro e he
      simp only [List.mem_singleton] at he
      subst he
      cases nums with
      | nil => simp [bisectLeft] at h
      | cons c cs =>
        obtain ⟨j, hj⟩ : ∃ j, bisectLeft (c :: cs) tc = j + 1 := ⟨bisectLeft (c :: cs) tc - 1, by omega⟩
        simp [hj]
    · rw [HistAux.histBackupOne_neg _ _ _ _ h]
      exact ih

/-- `History.backup` never writes an empty row -/
theorem noEmpty_histBackup (s : Sys) (touched : List HashX) (tc : Nat) (hn : NoEmptyRows s.p.hist) :
    NoEmptyRows (applyEffect s.p (histBackupEffect s touched tc)).hist := by
  intro e he
  unfold histBackupEffect at he
  rcases mem_histBatch_sub _ _ _ _ _ he with h | h
  · simp only [List.mem_flatMap, List.mem_map] at h
    obtain ⟨part, ⟨hx, _, rfl⟩, hpart⟩ := h
    exact histBackupOne_puts_noEmpty _ _ e hpart
  · exact hn e h

theorem uAgree_refl (s : Sys) : UAgree s s := ⟨rfl, rfl, rfl, rfl, rfl, rfl, rfl⟩

/-- what a back-out does to the fields `RunShape` talks about -/
theorem backup_shape_facts {cfg : Cfg} {s s' : Sys} {b : Block} (h : backup cfg s b = .ok s') :
    ∃ (s1 : Sys) (T : List HashX) (tc : Nat), s1.p = s.p ∧ s1.m.compFlush = s.m.compFlush ∧
      s1.m.compCursor = s.m.compCursor ∧
      s'.p.hist = (applyEffect s.p (histBackupEffect s1 T tc)).hist ∧
      s'.p.hstate = (applyEffect s.p (histBackupEffect s1 T tc)).hstate ∧
      s'.m.unflushed = s.m.unflushed ∧ s'.m.compFlush = s.m.compFlush ∧
      s'.m.compCursor = s.m.compCursor := by
  unfold backup at h
  cases hb : backupFull cfg s b with
  | error e => rw [hb] at h; cases h
  | ok r =>
    obtain ⟨es, s2⟩ := r
    rw [hb] at h
    simp only [Except.ok.injEq] at h
    subst h
    rw [backupFull_eq] at hb
    split at hb
    · cases hb
    split at hb
    · cases hb
    split at hb
    · cases hb
    next undo hundo =>
    split at hb
    · cases hb
    next a undoLeft hbt =>
    split at hb
    · cases hb
    simp only [Except.ok.injEq] at hb
    obtain ⟨c, d, ha, -⟩ := backupTxs_sim cfg s.m.st.height.toNat b.txs.reverse undo
      { s := s, txNum := 0 } a undoLeft s (uAgree_refl s) hbt
    simp only at ha
    obtain ⟨r1, r2, -⟩ := bkResult_on a s b c d ha
    rw [hb] at r1 r2
    simp only at r1 r2
    refine ⟨{ m := { s.m with cache := c, deletes := d, touched := s.m.touched ++ a.touched,
                              st := bkSt s.m.st a b, txCounts := s.m.txCounts.dropLast,
                              fsHeight := (bkSt s.m.st a b).height, fsTxCount := (bkSt s.m.st a b).txCount },
              p := s.p }, s.m.touched ++ a.touched, (bkSt s.m.st a b).txCount,
      rfl, rfl, rfl, ?_, ?_, ?_, ?_, ?_⟩
    · rw [r2, r1]
      simp only [applyEffects, List.foldl_cons, List.foldl_nil]
      exact (hist_utxoBatch _ _ _ _ _ _ _).1
    · rw [r2, r1]
      simp only [applyEffects, List.foldl_cons, List.foldl_nil]
      exact (hist_utxoBatch _ _ _ _ _ _ _).2
    · have hs2 : s2 = (bkResult a s b).2 := by rw [hb]
      rw [hs2]; simp [bkResult, ha, setCD]
    · have hs2 : s2 = (bkResult a s b).2 := by rw [hb]
      rw [hs2]; simp [bkResult, ha, setCD]
    · have hs2 : s2 = (bkResult a s b).2 := by rw [hb]
      rw [hs2]; simp [bkResult, ha, setCD]

theorem runShape_backup {cfg : Cfg} {s s' : Sys} {b : Block} (hI : RunShape s)
    (h : backup cfg s b = .ok s') : RunShape s' := by
  obtain ⟨s1, T, tc, h1, h2, h3, h4, h5, h6, h7, h8⟩ := backup_shape_facts h
  have hs : hsOf s'.p = { hstateOf s1.m with flushCount := s1.m.histFlush + 1 } := by
    unfold hsOf
    rw [h5, ← h1, hstate_histBackup]
    rfl
  refine ⟨by rw [h7]; exact hI.memFlush, by rw [h8]; exact hI.memCursor, ?_, ?_, ?_,
    by rw [h6]; exact hI.unfNoEmpty⟩
  · rw [hs]; show s1.m.compFlush = -1; rw [h2]; exact hI.memFlush
  · rw [hs]; show s1.m.compCursor = -1; rw [h3]; exact hI.memCursor
  · rw [h4, ← h1]
    exact noEmpty_histBackup s1 T tc (by rw [h1]; exact hI.noEmpty)

/-! #### `_open_dbs` -/

/-- what `_open_dbs` (`clear_excess`, `clear_excess_undo_info`) does to the history DB and to the UTXO
    state record: nothing when the history flush count is not ahead; otherwise the rows above the
    UTXO flush count go and the history flush count becomes the UTXO one -/
theorem openStore_hist_facts (cfg : Cfg) (p : Store) :
    (openStore cfg p).ustate = p.ustate ∧
    ((hF p ≤ uF p ∧ (openStore cfg p).hist = p.hist ∧ (openStore cfg p).hstate = p.hstate) ∨
     (uF p < hF p ∧ (openStore cfg p).hist = histUpTo p.hist (uF p) ∧
       (openStore cfg p).hstate = some { hsOf p with flushCount := uF p })) := by
  rw [openStore_eq]
  by_cases h : (p.hstate.getD {}).flushCount ≤ (p.ustate.getD {}).flushCount
  · rw [openStore1_of_le h]
    exact ⟨rfl, Or.inl ⟨h, rfl, rfl⟩⟩
  · rw [openStore1_of_gt (by omega)]
    exact ⟨rfl, Or.inr ⟨by unfold hF uF hsOf; omega, rfl, rfl⟩⟩

theorem openDbs_shape_facts {cfg : Cfg} {p : Store} {keep : Option (List Nat)} {es : List Effect} {s : Sys}
    (h : openDbs cfg p false keep = some (es, s)) :
    s.p = openStore cfg p ∧ s.m.unflushed = [] ∧ s.m.compFlush = -1 ∧ s.m.compCursor = -1 := by
  unfold openDbs at h
  split at h
  · cases h
  · simp only [Option.some.injEq, Prod.mk.injEq] at h
    obtain ⟨-, rfl⟩ := h
    exact ⟨rfl, rfl, rfl, rfl⟩

theorem runShape_reopen {cfg : Cfg} {s s' : Sys} (hI : RunShape s) (h : reopen cfg s = .ok s') :
    RunShape s' := by
  unfold reopen at h
  cases ho : openDbs cfg s.p false none with
  | none => rw [ho] at h; cases h
  | some r =>
    obtain ⟨es, s2⟩ := r
    rw [ho] at h
    simp only [Except.ok.injEq] at h
    subst h
    obtain ⟨o1, o2, o3, o4⟩ := openDbs_shape_facts ho
    obtain ⟨-, hc⟩ := openStore_hist_facts cfg s.p
    refine ⟨o3, o4, ?_, ?_, ?_, by rw [o2]; intro e he; simp at he⟩
    · rcases hc with ⟨-, -, c3⟩ | ⟨-, -, c3⟩
      · unfold hsOf; rw [o1, c3]; exact hI.diskFlush
      · unfold hsOf; rw [o1, c3]; exact hI.diskFlush
    · rcases hc with ⟨-, -, c3⟩ | ⟨-, -, c3⟩
      · unfold hsOf; rw [o1, c3]; exact hI.diskCursor
      · unfold hsOf; rw [o1, c3]; exact hI.diskCursor
    · rcases hc with ⟨-, c2, -⟩ | ⟨-, c2, -⟩
      · rw [o1, c2]; exact hI.noEmpty
      · rw [o1, c2]
        intro e he
        exact hI.noEmpty e (List.mem_filter.mp he).1

/-! #### whole runs -/

theorem runShape_step {cfg : Cfg} {s s' : Sys} (op : IOp2) (hI : RunShape s)
    (h : stepOp2 cfg s op = .ok s') : RunShape s' := by
  cases op with
  | adv b d => exact runShape_advance hI h
  | flush fu => exact runShape_flush hI h
  | backup b => exact runShape_backup hI h
  | reopen => exact runShape_reopen hI h

/-- **the shape invariant holds after every index run** — any operation list, valid or not, as long
    as no operation fails -/
theorem runShape_run {cfg : Cfg} (ops : List IOp2) {s s' : Sys} (hI : RunShape s)
    (h : runOps2 cfg s ops = .ok s') : RunShape s' := by
  induction ops generalizing s with
  | nil =>
    simp only [runOps2, Except.ok.injEq] at h
    subst h; exact hI
  | cons op r ih =>
    simp only [runOps2] at h
    cases hst : stepOp2 cfg s op with
    | error e => rw [hst] at h; cases h
    | ok s1 =>
      rw [hst] at h
      exact ih (runShape_step op hI hst) h

/-! ### hashX width: from the blocks of the chain to the history table -/

/-- **the hypothesis on the blocks**: every output of every transaction of the chain has an 11-byte
    script hash.  (The real `hashX` is `sha256(script)[:11]`; the index model's `HashX` is an
    unbounded number, so this cannot be derived inside the model.)  Decidable. -/
def ChainHxWidth (chain : List Block) : Prop :=
  ∀ b ∈ chain, ∀ tx ∈ b.txs, ∀ o ∈ tx.outs, o.hx < 2 ^ 88

instance (chain : List Block) : Decidable (ChainHxWidth chain) := by
  unfold ChainHxWidth; exact inferInstance

/-- every script hash the specification state knows is 11 bytes wide -/
def StWidth (S : St) : Prop :=
  (∀ u ∈ S.utxos, u.hx < 2 ^ 88) ∧ (∀ l ∈ S.touched, ∀ hx ∈ l, hx < 2 ^ 88)

theorem spendInput_width (st : List Utxo × List HashX) (i : TxIn)
    (h : (∀ u ∈ st.1, u.hx < 2 ^ 88) ∧ (∀ hx ∈ st.2, hx < 2 ^ 88)) :
    (∀ u ∈ (spendInput st i).1, u.hx < 2 ^ 88) ∧ (∀ hx ∈ (spendInput st i).2, hx < 2 ^ 88) := by
  unfold spendInput
  split
  · exact h
  · refine ⟨fun u hu => h.1 u (List.mem_filter.mp hu).1, ?_⟩
    intro hx hm
    simp only [List.mem_append, List.mem_map] at hm
    rcases hm with hm | ⟨u, hu, rfl⟩
    · exact h.2 hx hm
    · exact h.1 u (List.mem_filter.mp hu).1

theorem foldl_spendInput_width (ins : List TxIn) (st : List Utxo × List HashX)
    (h : (∀ u ∈ st.1, u.hx < 2 ^ 88) ∧ (∀ hx ∈ st.2, hx < 2 ^ 88)) :
    (∀ u ∈ (ins.foldl spendInput st).1, u.hx < 2 ^ 88) ∧
    (∀ hx ∈ (ins.foldl spendInput st).2, hx < 2 ^ 88) := by
  induction ins generalizing st with
  | nil => exact h
  | cons i r ih => exact ih _ (spendInput_width st i h)

theorem newUtxos_width (act height txnum : Nat) (txid : Hash) (outs : List TxOut) (idx : Nat)
    (h : ∀ o ∈ outs, o.hx < 2 ^ 88) : ∀ u ∈ newUtxos act height txnum txid outs idx, u.hx < 2 ^ 88 := by
  induction outs generalizing idx with
  | nil => intro u hu; simp [newUtxos] at hu
  | cons o r ih =>
    intro u hu
    simp only [newUtxos] at hu
    split at hu
    · exact ih (idx + 1) (fun o' ho' => h o' (List.mem_cons_of_mem _ ho')) u hu
    · rcases List.mem_cons.mp hu with rfl | hu
      · exact h o List.mem_cons_self
      · exact ih (idx + 1) (fun o' ho' => h o' (List.mem_cons_of_mem _ ho')) u hu

theorem applyTx_width (act height : Nat) (S : St) (tx : Tx) (hS : StWidth S)
    (h : ∀ o ∈ tx.outs, o.hx < 2 ^ 88) : StWidth (applyTx act height S tx) := by
  obtain ⟨f1, f2⟩ := foldl_spendInput_width tx.ins (S.utxos, []) ⟨hS.1, by intro hx hm; simp at hm⟩
  have hn := newUtxos_width act height S.txs.length tx.id tx.outs 0 h
  refine ⟨?_, ?_⟩
  · intro u hu
    simp only [applyTx, List.mem_append] at hu
    rcases hu with hu | hu
    · exact f1 u hu
    · exact hn u hu
  · intro l hl hx hm
    simp only [applyTx, List.mem_append, List.mem_singleton] at hl
    rcases hl with hl | rfl
    · exact hS.2 l hl hx hm
    · simp only [List.mem_append, List.mem_map] at hm
      rcases hm with hm | ⟨u, hu, rfl⟩
      · exact f2 hx hm
      · exact hn u hu

theorem foldl_applyTx_width (act height : Nat) (txs : List Tx) (S : St) (hS : StWidth S)
    (h : ∀ tx ∈ txs, ∀ o ∈ tx.outs, o.hx < 2 ^ 88) : StWidth (txs.foldl (applyTx act height) S) := by
  induction txs generalizing S with
  | nil => exact hS
  | cons tx r ih =>
    exact ih _ (applyTx_width act height S tx hS (h tx List.mem_cons_self))
      (fun tx' ht => h tx' (List.mem_cons_of_mem _ ht))

theorem specFrom_width (act : Nat) (chain : List Block) (S : St) (height : Nat) (hS : StWidth S)
    (h : ChainHxWidth chain) : StWidth (specFrom act S height chain) := by
  induction chain generalizing S height with
  | nil => exact hS
  | cons b r ih =>
    exact ih _ _ (foldl_applyTx_width act height b.txs S hS (h b List.mem_cons_self))
      (fun b' hb => h b' (List.mem_cons_of_mem _ hb))

/-- every script hash touched by the specification of a chain of 11-byte outputs is 11 bytes wide -/
theorem specChain_width (act : Nat) (chain : List Block) (h : ChainHxWidth chain) :
    StWidth (specChain act chain) :=
  specFrom_width act chain {} 0 ⟨by intro u hu; simp at hu, by intro l hl; simp at hl⟩ h

/-- a script hash with a non-empty history is touched -/
theorem width_of_history {S : St} (hS : StWidth S) {hx : HashX} {n : Nat} (hn : n ∈ historyOf S hx) :
    hx < 2 ^ 88 := by
  unfold historyOf at hn
  obtain ⟨hr, hc⟩ := List.mem_filter.mp hn
  simp only [List.mem_range] at hr
  simp only [List.contains_eq_mem, decide_eq_true_eq] at hc
  rw [List.getD_eq_getElem?_getD, List.getElem?_eq_getElem hr, Option.getD_some] at hc
  exact hS.2 _ (List.getElem_mem hr) hx hc

/-- the entries of a row are part of the history of its hashX -/
theorem row_sub_getTxnums (p : Store) (e : Row) (he : e ∈ p.hist) (n : Nat) (hn : n ∈ e.2) :
    n ∈ getTxnums p e.1.1 none := by
  rw [getTxnums_eq]
  simp only [List.mem_flatMap]
  refine ⟨e, ?_, hn⟩
  unfold rowsOf
  rw [List.mem_mergeSort]
  exact List.mem_filter.mpr ⟨he, by simp⟩

/-- **`HxWidth` of the history table**: rows are non-empty, their entries belong to the
    specification's history of the row's hashX, and the specification only touches script hashes of
    outputs of the chain -/
theorem hxWidth_of_histInv {S : St} {p : Store} {unf : List (HashX × List Nat)} {fc : Nat}
    (hinv : HistInv S p unf fc) (hS : StWidth S) (hne : NoEmptyRows p.hist) : HxWidth p.hist := by
  intro e he
  cases hnums : e.2 with
  | nil => exact absurd hnums (hne e he)
  | cons n r =>
    have hn : n ∈ getTxnums p e.1.1 none := row_sub_getTxnums p e he n (by rw [hnums]; exact List.mem_cons_self)
    have : n ∈ historyOf S e.1.1 := by
      rw [← hinv.eq e.1.1]
      exact List.mem_append_left _ hn
    exact width_of_history hS this

/-! ### the store an index run leaves on disk -/

/-- what the index invariants say about the history DB on disk: distinct keys, 11-byte hashXs, every
    row id `≤` the history flush count, no compaction in progress, no empty row -/
structure IdleStore (p : Store) : Prop where
  nodup : NodupKeys p.hist
  width : HxWidth p.hist
  idsLE : ∀ e ∈ p.hist, e.1.2 ≤ hF p
  cfc : (hsOf p).compFlushCount = -1
  cursor : (hsOf p).compCursor = -1
  noEmpty : NoEmptyRows p.hist

/-- `IdleStore` only looks at the history table and its state record -/
theorem idleStore_congr {p p' : Store} (h1 : p'.hist = p.hist) (h2 : p'.hstate = p.hstate)
    (hI : IdleStore p) : IdleStore p' := by
  have hs : hsOf p' = hsOf p := by unfold hsOf; rw [h2]
  have hf : hF p' = hF p := by unfold hF; rw [hs]
  exact ⟨by rw [h1]; exact hI.nodup, by rw [h1]; exact hI.width, by rw [h1, hf]; exact hI.idsLE,
    by rw [hs]; exact hI.cfc, by rw [hs]; exact hI.cursor, by rw [h1]; exact hI.noEmpty⟩

/-- **`PInv` of an idle store**: all that is left to ask is that the history flush count is not
    ahead of the UTXO one -/
theorem pinv_of_idle (maxRow : Nat) {p : Store} (hI : IdleStore p) (hna : hF p ≤ uF p) : PInv maxRow p := by
  refine ⟨hI.nodup, hI.width, ?_, ?_, ?_, hna⟩
  · intro e he
    rw [hI.cursor]
    have h1 : ¬ ((prefixOf e.1.1 : Int) < -1) := by omega
    rw [if_neg h1]
    exact hI.idsLE e he
  · intro e _ hlt
    rw [hI.cursor] at hlt
    omega
  · left; rw [hI.cfc]; omega

/-- **`_open_dbs` makes an idle store satisfy `PInv`**, whatever the two flush counts were: nothing
    changes when the history DB is not ahead; otherwise `clear_excess` removes the rows above the UTXO
    flush count and lowers the history flush count to it -/
theorem idleStore_openStore (cfg : Cfg) {p : Store} (hI : IdleStore p) :
    IdleStore (openStore cfg p) ∧ hF (openStore cfg p) ≤ uF (openStore cfg p) := by
  obtain ⟨hu, hc⟩ := openStore_hist_facts cfg p
  have hu' : uF (openStore cfg p) = uF p := by unfold uF; rw [hu]
  rcases hc with ⟨c1, c2, c3⟩ | ⟨c1, c2, c3⟩
  · have hI' := idleStore_congr c2 c3 hI
    refine ⟨hI', ?_⟩
    have : hF (openStore cfg p) = hF p := by unfold hF hsOf; rw [c3]
    rw [this, hu']; exact c1
  · have hs : hsOf (openStore cfg p) = { hsOf p with flushCount := uF p } := by unfold hsOf; rw [c3]; rfl
    have hf : hF (openStore cfg p) = uF p := by unfold hF; rw [hs]
    have hsub : ∀ e ∈ (openStore cfg p).hist, e ∈ p.hist ∧ e.1.2 ≤ uF p := by
      intro e he
      rw [c2] at he
      obtain ⟨h1, h2⟩ := List.mem_filter.mp he
      exact ⟨h1, by simpa using h2⟩
    refine ⟨⟨?_, ?_, ?_, ?_, ?_, ?_⟩, by rw [hf, hu']; exact Nat.le_refl _⟩
    · rw [c2]
      unfold NodupKeys histUpTo
      exact List.Nodup.sublist (List.Sublist.map _ List.filter_sublist) hI.nodup
    · intro e he; exact hI.width e (hsub e he).1
    · intro e he; rw [hf]; exact (hsub e he).2
    · rw [hs]; exact hI.cfc
    · rw [hs]; exact hI.cursor
    · intro e he; exact hI.noEmpty e (hsub e he).1

/-- on an idle store without rows above the UTXO flush count (every fully flushed index state)
    `_open_dbs` leaves the history table as it is -/
theorem openStore_hist_of_flushed (cfg : Cfg) {p : Store} (h : ∀ e ∈ p.hist, e.1.2 ≤ uF p) :
    (openStore cfg p).hist = p.hist := by
  obtain ⟨-, hc⟩ := openStore_hist_facts cfg p
  rcases hc with ⟨-, c2, -⟩ | ⟨-, c2, -⟩
  · exact c2
  · rw [c2]; exact histUpTo_self h

/-- **the store of every invariant index state is idle** -/
theorem idleStore_of_fullInv' {cfg : Cfg} {chain : List Block} {K : List Nat} {s : Sys}
    (inv : FullInv' cfg chain K s) (hI : RunShape s) (hw : ChainHxWidth chain) : IdleStore s.p := by
  have hf : hF s.p = s.m.histFlush := inv.hstate
  exact ⟨inv.base.hist.wf.keys,
    hxWidth_of_histInv inv.base.hist (specChain_width cfg.act chain hw) hI.noEmpty,
    by rw [hf]; exact inv.base.hist.wf.ids, hI.diskFlush, hI.diskCursor, hI.noEmpty⟩

/-- **the store of the end state of every valid index run is idle** (from the empty store; advances,
    flushes of either kind, back-outs, restarts) -/
theorem idleStore_of_run (cfg : Cfg) (ops : List IOp2) (hv : ValidOps2 cfg {} ops)
    (hw : ChainHxWidth (chainOf2 [] 0 ops)) {s : Sys} (hs : runOps2 cfg {} ops = .ok s) :
    IdleStore s.p := by
  obtain ⟨s', h1, ti⟩ := trackInv_run ops (trackInv_init cfg) hv
  rw [hs] at h1
  cases h1
  have inv := ti.inv
  rw [Track.run_chain] at inv
  exact idleStore_of_fullInv' inv (runShape_run ops runShape_init hs) hw

/-! ### every process starts with `_open_dbs`

so an event sequence on a store `p` that can be opened is the same as on `openStore cfg p` -/

theorem openHistState_openStore (cfg : Cfg) (p : Store) :
    openHistState (openStore cfg p) = openHistState p := by
  rw [openHistState_eq, openHistState_eq]
  obtain ⟨hu, hc⟩ := openStore_hist_facts cfg p
  rcases hc with ⟨-, -, c3⟩ | ⟨c1, -, c3⟩
  · rw [hu, c3]
  · rw [hu, c3]
    have h1 : ¬ (p.hstate.getD {}).flushCount ≤ (p.ustate.getD {}).flushCount := by
      unfold hF uF hsOf at c1; omega
    rw [if_neg h1]
    simp [uF, hsOf]

theorem openState_openStore_any (cfg : Cfg) (p : Store) (c : Bool) :
    openState (openStore cfg p) c = openState p c := by
  unfold openState
  rw [openHistState_openStore, (openStore_hist_facts cfg p).1]

/-- opening a store that `_open_dbs` has already been through gives the same system -/
theorem openDbs_openStore (cfg : Cfg) (p : Store) (c : Bool) :
    (openDbs cfg (openStore cfg p) c none).map (·.2) = (openDbs cfg p c none).map (·.2) := by
  simp only [openDbs, openStore_idem, openState_openStore_any]
  cases openTxCounts (openStore cfg p) (openState p c).1 none <;> rfl

theorem compactScript_openStore (cfg : Cfg) (maxRow : Nat) (p : Store) (limits : List Nat) (b : Bool)
    (hopen : (openDbs cfg p true none).isSome = true) :
    compactScript cfg maxRow (openStore cfg p) limits b = compactScript cfg maxRow p limits b := by
  have h := openDbs_openStore cfg p true
  unfold compactScript
  cases h1 : openDbs cfg p true none with
  | none => rw [h1] at hopen; cases hopen
  | some r =>
    cases h2 : openDbs cfg (openStore cfg p) true none with
    | none => rw [h1, h2] at h; cases h
    | some r2 =>
      rw [h1, h2] at h
      obtain ⟨es, s⟩ := r
      obtain ⟨es2, s2⟩ := r2
      simp only [Option.map_some, Option.some.injEq] at h
      subst h
      rfl

theorem serverStart_eq_openStore (cfg : Cfg) (p : Store) (hopen : (openDbs cfg p false none).isSome = true) :
    serverStart cfg p = openStore cfg p := by
  unfold serverStart
  cases h1 : openDbs cfg p false none with
  | none => rw [h1] at hopen; cases hopen
  | some r =>
    obtain ⟨es, s⟩ := r
    exact (openDbs_shape_facts h1).1

theorem serverStart_openStore (cfg : Cfg) (p : Store) (hopen : (openDbs cfg p false none).isSome = true) :
    serverStart cfg (openStore cfg p) = serverStart cfg p := by
  have h := openDbs_openStore cfg p false
  have hopen2 : (openDbs cfg (openStore cfg p) false none).isSome = true := by
    cases h1 : openDbs cfg p false none with
    | none => rw [h1] at hopen; cases hopen
    | some r =>
      cases h2 : openDbs cfg (openStore cfg p) false none with
      | none => rw [h1, h2] at h; cases h
      | some r2 => rfl
  rw [serverStart_eq_openStore cfg p hopen, serverStart_eq_openStore cfg _ hopen2, openStore_idem]

/-- whether `_open_dbs` succeeds (`_read_tx_counts`' assertions) does not depend on `compacting` -/
theorem openDbs_isSome_compacting (cfg : Cfg) (p : Store) :
    (openDbs cfg p true none).isSome = (openDbs cfg p false none).isSome := by
  have h : (openState p true).1 = (openState p false).1 := rfl
  unfold openDbs
  rw [h]
  cases openTxCounts (openStore cfg p) (openState p false).1 none <;> rfl

/-- **the first event of a sequence opens the store**: running a non-empty event sequence on `p` is
    running it on `openStore cfg p` -/
theorem runEvs_openStore (cfg : Cfg) (maxRow : Nat) (p : Store) (ev : Ev) (evs : List Ev)
    (hopen : (openDbs cfg p false none).isSome = true) :
    runEvs cfg maxRow (openStore cfg p) (ev :: evs) = runEvs cfg maxRow p (ev :: evs) := by
  unfold runEvs
  simp only [List.foldl_cons]
  congr 1
  cases ev with
  | compact limits b =>
    exact compactScript_openStore cfg maxRow p limits b (by rw [openDbs_isSome_compacting]; exact hopen)
  | serverStart => exact serverStart_openStore cfg p hopen

/-! ### the `first_sync` flag

`runOps2` never clears `ChainState.first_sync` (the model's `on_caught_up` does, see
`EV/Proofs/CarrierFS.lean`), and the compaction script refuses a store whose flag is set.  Nothing
of the above depends on the flag, so everything is stated for the run's store with EITHER flag. -/

/-- the store with `first_sync := f` in the UTXO state record (if there is one) -/
def setFSp (f : Bool) (p : Store) : Store :=
  { p with ustate := p.ustate.map (fun x => { x with firstSync := f }) }

theorem uF_setFSp (f : Bool) (p : Store) : uF (setFSp f p) = uF p := by
  unfold uF setFSp
  cases p.ustate <;> rfl

theorem hF_setFSp (f : Bool) (p : Store) : hF (setFSp f p) = hF p := rfl

theorem idleStore_setFSp (f : Bool) {p : Store} (hI : IdleStore p) : IdleStore (setFSp f p) :=
  idleStore_congr (p := p) (p' := setFSp f p) rfl rfl hI

theorem openStore_txcounts (cfg : Cfg) (p : Store) : (openStore cfg p).txcounts = p.txcounts := by
  rw [openStore_eq]
  exact (openStore1_rest p).2.2.2.2.2.1

/-- whether `_open_dbs` succeeds does not depend on the flag -/
theorem openDbs_isSome_setFSp (cfg : Cfg) (f : Bool) (p : Store) (c : Bool) :
    (openDbs cfg (setFSp f p) c none).isSome = (openDbs cfg p c none).isSome := by
  have h1 : (openState (setFSp f p) c).1.height = (openState p c).1.height := by
    unfold openState setFSp; cases p.ustate <;> rfl
  have h2 : (openState (setFSp f p) c).1.txCount = (openState p c).1.txCount := by
    unfold openState setFSp; cases p.ustate <;> rfl
  have h3 : openTxCounts (openStore cfg (setFSp f p)) (openState (setFSp f p) c).1 none =
      openTxCounts (openStore cfg p) (openState p c).1 none := by
    unfold openTxCounts
    simp only [openStore_txcounts, h1, h2]
    rfl
  unfold openDbs
  rw [h3]
  cases openTxCounts (openStore cfg p) (openState p c).1 none <;> rfl

/-- the flag the compaction script asserts on is the one of the state record -/
theorem openDbs_firstSync {cfg : Cfg} {p : Store} {c : Bool} {es : List Effect} {s : Sys}
    (h : openDbs cfg p c none = some (es, s)) : s.m.dbst.firstSync = (p.ustate.getD {}).firstSync := by
  unfold openDbs at h
  split at h
  · cases h
  · simp only [Option.some.injEq, Prod.mk.injEq] at h
    obtain ⟨-, rfl⟩ := h
    rfl

/-! ### crashes inside a flush or a back-out

A crash leaves a *cut* of the effect list being executed (`EV/Model/Crash.lean`).  The history table
and its state record after a cut are those after a complete prefix of the list: a torn file write
does not touch the history DB. -/

/-- the effect does not touch the history DB -/
def KeepsHist (e : Effect) : Prop :=
  ∀ p, (applyEffect p e).hist = p.hist ∧ (applyEffect p e).hstate = p.hstate

theorem keepsHist_files (e : Effect) (h : e.isHistBatch = false) : KeepsHist e := by
  intro p
  cases e with
  | writeHeaders off d => exact ⟨rfl, rfl⟩
  | writeTxCounts off d => exact ⟨rfl, rfl⟩
  | writeHashes off d => exact ⟨rfl, rfl⟩
  | histBatch a b c => simp [Effect.isHistBatch] at h
  | utxoBatch a b c d e f => exact hist_utxoBatch p a b c d e f
  | putUState st => exact ⟨rfl, rfl⟩

theorem applyEffects_keepsHist (l : List Effect) (p : Store) (h : ∀ e ∈ l, KeepsHist e) :
    (applyEffects p l).hist = p.hist ∧ (applyEffects p l).hstate = p.hstate := by
  induction l generalizing p with
  | nil => exact ⟨rfl, rfl⟩
  | cons e r ih =>
    obtain ⟨h1, h2⟩ := ih (applyEffect p e) (fun e' he' => h e' (List.mem_cons_of_mem _ he'))
    obtain ⟨k1, k2⟩ := h e List.mem_cons_self p
    exact ⟨by show (applyEffects (applyEffect p e) r).hist = _; rw [h1, k1],
      by show (applyEffects (applyEffect p e) r).hstate = _; rw [h2, k2]⟩

theorem torn_not_histBatch {e t : Effect} (h : t ∈ tornPrefixes e) : t.isHistBatch = false := by
  cases e <;> simp only [tornPrefixes, List.mem_map, List.not_mem_nil] at h <;>
    (try (obtain ⟨j, -, rfl⟩ := h; rfl))

/-- the history DB after a cut is the history DB after a complete prefix -/
theorem cut_hist (es : List Effect) (p : Store) (c : List Effect) (hc : c ∈ cuts es) :
    ∃ k, (applyEffects p c).hist = (applyEffects p (es.take k)).hist ∧
      (applyEffects p c).hstate = (applyEffects p (es.take k)).hstate := by
  induction es generalizing p c with
  | nil =>
    simp only [cuts, List.mem_singleton] at hc
    subst hc
    exact ⟨0, rfl, rfl⟩
  | cons e es ih =>
    simp only [cuts, List.mem_cons, List.mem_append, List.mem_map] at hc
    rcases hc with rfl | ⟨t, ht, rfl⟩ | ⟨c0, hc0, rfl⟩
    · exact ⟨0, rfl, rfl⟩
    · refine ⟨0, ?_⟩
      exact keepsHist_files t (torn_not_histBatch ht) p
    · obtain ⟨k, h1, h2⟩ := ih (applyEffect p e) c0 hc0
      exact ⟨k + 1, h1, h2⟩

/-- the history DB after any cut of a `flush_dbs`: untouched, or as after `History.flush` -/
theorem flush_cut_hist {s : Sys} {fu : Bool} {es : List Effect} {m' : Mem}
    (hf : flushDbs s fu = some (es, m')) {c : List Effect} (hc : c ∈ cuts es) :
    ((applyEffects s.p c).hist = s.p.hist ∧ (applyEffects s.p c).hstate = s.p.hstate) ∨
    ((applyEffects s.p c).hist = (applyEffect s.p (histFlushEffect s)).hist ∧
     (applyEffects s.p c).hstate = (applyEffect s.p (histFlushEffect s)).hstate) := by
  obtain ⟨k, h1, h2⟩ := cut_hist es s.p c hc
  rw [h1, h2]
  have hfiles : ∀ e ∈ flushFsEffects s, KeepsHist e := by
    intro e he
    simp only [flushFsEffects, List.mem_cons, List.not_mem_nil, or_false] at he
    rcases he with rfl | rfl | rfl <;> exact keepsHist_files _ rfl
  have htail : ∀ st', ∀ e ∈ [utxoBatchEffect s st', Effect.putUState st'], KeepsHist e := by
    intro st' e he
    simp only [List.mem_cons, List.not_mem_nil, or_false] at he
    rcases he with rfl | rfl <;> exact keepsHist_files _ rfl
  -- a prefix of `files ++ [hist batch] ++ tail`
  have key : ∀ (tail : List Effect), (∀ e ∈ tail, KeepsHist e) →
      (((applyEffects s.p ((flushFsEffects s ++ [histFlushEffect s] ++ tail).take k)).hist = s.p.hist ∧
        (applyEffects s.p ((flushFsEffects s ++ [histFlushEffect s] ++ tail).take k)).hstate = s.p.hstate) ∨
       ((applyEffects s.p ((flushFsEffects s ++ [histFlushEffect s] ++ tail).take k)).hist =
          (applyEffect s.p (histFlushEffect s)).hist ∧
        (applyEffects s.p ((flushFsEffects s ++ [histFlushEffect s] ++ tail).take k)).hstate =
          (applyEffect s.p (histFlushEffect s)).hstate)) := by
    intro tail htl
    by_cases hk : k ≤ (flushFsEffects s).length
    · left
      rw [List.append_assoc, List.take_append_of_le_length hk]
      exact applyEffects_keepsHist _ _ (fun e he => hfiles e (List.mem_of_mem_take he))
    · right
      have h3 : (flushFsEffects s).length = 3 := rfl
      have hk' : k = (flushFsEffects s ++ [histFlushEffect s]).length + (k - 4) := by
        simp only [List.length_append, h3, List.length_singleton]; omega
      rw [hk', List.take_length_add_append, applyEffects_append, applyEffects_append]
      obtain ⟨t1, t2⟩ := applyEffects_keepsHist (tail.take (k - 4))
        (applyEffects (applyEffects s.p (flushFsEffects s)) [histFlushEffect s])
        (fun e he => htl e (List.mem_of_mem_take he))
      rw [t1, t2]
      obtain ⟨f1, f2⟩ := flushTail_hist s [] (Or.inl rfl)
      rw [List.append_nil, applyEffects_append] at f1 f2
      exact ⟨f1, f2⟩
  rcases flushDbs_effects hf with rfl | rfl | ⟨-, rfl⟩
  · left; simp [applyEffects]
  · have := key [] (by intro e he; simp at he)
    rw [List.append_nil] at this
    exact this
  · exact key _ (htail _)

/-- the two batches of a back-out: the second one does not touch the history DB -/
theorem backupFull_effects {cfg : Cfg} {s s' : Sys} {b : Block} {es : List Effect}
    (h : backupFull cfg s b = .ok (es, s')) :
    ∃ e1 e2, es = [e1, e2] ∧ e2.isHistBatch = false ∧ s'.p = applyEffects s.p es := by
  rw [backupFull_eq] at h
  split at h
  · cases h
  split at h
  · cases h
  split at h
  · cases h
  split at h
  · cases h
  next a undoLeft hbt =>
  split at h
  · cases h
  simp only [Except.ok.injEq] at h
  have h1 : es = (bkResult a s b).1 := by rw [h]
  have h2 : s' = (bkResult a s b).2 := by rw [h]
  subst h1 h2
  exact ⟨_, _, rfl, rfl, rfl⟩

/-- the history DB after any cut of a back-out: untouched, or as after the complete back-out -/
theorem backup_cut_hist {cfg : Cfg} {s s' : Sys} {b : Block} {es : List Effect}
    (h : backupFull cfg s b = .ok (es, s')) {c : List Effect} (hc : c ∈ cuts es) :
    ((applyEffects s.p c).hist = s.p.hist ∧ (applyEffects s.p c).hstate = s.p.hstate) ∨
    ((applyEffects s.p c).hist = s'.p.hist ∧ (applyEffects s.p c).hstate = s'.p.hstate) := by
  obtain ⟨e1, e2, rfl, hk2, hp⟩ := backupFull_effects h
  obtain ⟨k, h1, h2⟩ := cut_hist [e1, e2] s.p c hc
  rw [h1, h2, hp]
  obtain ⟨k1, k2⟩ := keepsHist_files e2 hk2 (applyEffect s.p e1)
  have hfull : (applyEffects s.p [e1, e2]).hist = (applyEffect s.p e1).hist ∧
      (applyEffects s.p [e1, e2]).hstate = (applyEffect s.p e1).hstate := ⟨k1, k2⟩
  match k with
  | 0 => exact Or.inl ⟨rfl, rfl⟩
  | 1 => right; rw [hfull.1, hfull.2]; exact ⟨rfl, rfl⟩
  | k + 2 =>
    right
    have ht : List.take (k + 2) [e1, e2] = [e1, e2] := by simp
    rw [ht]; exact ⟨rfl, rfl⟩

/-! ### the block-processing task (`EV.SyncLoopT`: batches, `on_caught_up`, `reorg_chain`)

`RunShape` along the server-level loop model, whose `on_caught_up` clears `first_sync`; again no
validity hypothesis.  `RunShape` does not look at the `first_sync` flags, so it passes to the ghost
system of `EV/Proofs/CarrierLoop.lean` (`Ghost`: the real system is `setFS` of a `TrackInv` state). -/

theorem runShape_of_setFS {s : Sys} {f1 f2 f3 : Bool} (h : RunShape (setFS s f1 f2 f3)) : RunShape s :=
  ⟨h.memFlush, h.memCursor, h.diskFlush, h.diskCursor, h.noEmpty, h.unfNoEmpty⟩

theorem runShape_clearFirstSync {s : Sys} (h : RunShape s) : RunShape (EV.SyncLoop.clearFirstSync s) :=
  ⟨h.memFlush, h.memCursor, h.diskFlush, h.diskCursor, h.noEmpty, h.unfNoEmpty⟩

theorem runShape_resetTouched {s : Sys} (h : RunShape s) : RunShape (EV.SyncLoopT.resetTouched s) :=
  ⟨h.memFlush, h.memCursor, h.diskFlush, h.diskCursor, h.noEmpty, h.unfNoEmpty⟩

theorem runShape_backups {cfg : Cfg} (bs : List Block) {s s' : Sys} (hI : RunShape s)
    (h : EV.SyncLoopT.backups cfg s bs = .ok s') : RunShape s' := by
  induction bs generalizing s with
  | nil =>
    have h2 : (Except.ok s : Except Err Sys) = .ok s' := h
    cases h2
    exact hI
  | cons b r ih =>
    cases hb : backup cfg s b with
    | error e =>
      have : EV.SyncLoopT.backups cfg s (b :: r) = .error e := by
        show (match backup cfg s b with
              | Except.error e => Except.error e
              | Except.ok s' => EV.SyncLoopT.backups cfg s' r) = _
        rw [hb]
      rw [this] at h; cases h
    | ok s1 =>
      rw [EV.SyncLoopT.backups_cons_ok r hb] at h
      exact ih (runShape_backup hI hb) h

theorem runShape_syncStep {cfg : Cfg} {l l' : EV.SyncLoop.Loop} {e : EV.SyncLoopT.Ev}
    {o : Option EV.SyncLoopT.Out} (hI : RunShape l.s) (h : EV.SyncLoopT.step cfg l e = .ok (l', o)) :
    RunShape l'.s := by
  cases e with
  | block b d arg =>
    simp only [EV.SyncLoopT.step, EV.SyncLoop.step] at h
    cases ha : advance cfg d l.s b with
    | error e => rw [ha] at h; cases h
    | ok s1 =>
      rw [ha] at h
      have h1 := runShape_advance hI ha
      cases arg with
      | none =>
        simp only [Except.ok.injEq, Prod.mk.injEq] at h
        obtain ⟨rfl, -⟩ := h
        exact h1
      | some a =>
        simp only at h
        cases hf : flush s1 a with
        | error e => rw [hf] at h; cases h
        | ok s2 =>
          rw [hf] at h
          simp only [Except.ok.injEq, Prod.mk.injEq] at h
          obtain ⟨rfl, -⟩ := h
          exact runShape_flush h1 hf
  | stale arg =>
    cases arg with
    | none =>
      simp only [EV.SyncLoopT.step, Except.ok.injEq, Prod.mk.injEq] at h
      obtain ⟨rfl, -⟩ := h
      exact hI
    | some a =>
      simp only [EV.SyncLoopT.step] at h
      cases hf : flush l.s a with
      | error e => rw [hf] at h; cases h
      | ok s1 =>
        rw [hf] at h
        simp only [Except.ok.injEq, Prod.mk.injEq] at h
        obtain ⟨rfl, -⟩ := h
        exact runShape_flush hI hf
  | batchEnd =>
    simp only [EV.SyncLoopT.step, Except.ok.injEq, Prod.mk.injEq] at h
    obtain ⟨rfl, -⟩ := h
    split
    · exact hI
    · exact runShape_resetTouched hI
  | caughtUp =>
    simp only [EV.SyncLoopT.step, EV.SyncLoop.step] at h
    cases hf : flush (EV.SyncLoop.clearFirstSync l.s) true with
    | error e => rw [hf] at h; cases h
    | ok s1 =>
      rw [hf] at h
      have h1 := runShape_flush (runShape_clearFirstSync hI) hf
      by_cases hc : l.caughtUp = true
      · simp only [hc, if_true, Except.ok.injEq, Prod.mk.injEq] at h
        obtain ⟨rfl, -⟩ := h
        exact runShape_resetTouched h1
      · simp only [hc, Bool.false_eq_true, if_false, Except.ok.injEq, Prod.mk.injEq] at h
        obtain ⟨rfl, -⟩ := h
        exact h1
  | reorg bs =>
    simp only [EV.SyncLoopT.step] at h
    cases hf : flush l.s true with
    | error e => rw [hf] at h; cases h
    | ok s1 =>
      rw [hf] at h
      simp only at h
      cases hb : EV.SyncLoopT.backups cfg s1 bs with
      | error e => rw [hb] at h; cases h
      | ok s2 =>
        rw [hb] at h
        simp only [Except.ok.injEq, Prod.mk.injEq] at h
        obtain ⟨rfl, -⟩ := h
        exact runShape_backups bs (runShape_flush hI hf) hb

/-- **the shape invariant holds along every run of the block-processing task** -/
theorem runShape_syncRun {cfg : Cfg} (evs : List EV.SyncLoopT.Ev) {l l' : EV.SyncLoop.Loop}
    {outs : List EV.SyncLoopT.Out} (hI : RunShape l.s) (h : EV.SyncLoopT.run cfg l evs = .ok (l', outs)) :
    RunShape l'.s := by
  induction evs generalizing l outs with
  | nil =>
    simp only [EV.SyncLoopT.run, Except.ok.injEq, Prod.mk.injEq] at h
    obtain ⟨rfl, -⟩ := h
    exact hI
  | cons e r ih =>
    simp only [EV.SyncLoopT.run] at h
    cases hs : EV.SyncLoopT.step cfg l e with
    | error err => rw [hs] at h; cases h
    | ok x =>
      obtain ⟨l1, o⟩ := x
      rw [hs] at h
      simp only at h
      cases hr : EV.SyncLoopT.run cfg l1 r with
      | error err => rw [hr] at h; cases h
      | ok y =>
        obtain ⟨l2, os⟩ := y
        rw [hr] at h
        simp only [Except.ok.injEq, Prod.mk.injEq] at h
        obtain ⟨rfl, -⟩ := h
        exact ih (runShape_syncStep hI hs) hr

end EV.Compact

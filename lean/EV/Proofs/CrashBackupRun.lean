import EV.Proofs.CrashResume
import EV.Proofs.CrashRedo

/-!
# Crash layer, part 8: crashes inside back-outs of whole runs (C05 over runs)

* `flushedB_of_fullInv'` — the hypothesis `FlushedB` of `C05_newbranch_partial` holds in every fully
  flushed state of the whole-run invariant above height −1.
* `withHist` / `histOnly_step` — **the history table is write-only for the sync**: replacing the
  history table of a system by ANY other table changes the outcome of no run operation
  (`advance_block`, either flush, a back-out, a restart): same error, or the same new memory and the
  same new store except, again, for the history table.
* `HRel a b` — `ResEq` up to the history table (`ResEq a (withHist b a.p.hist)`): same memory, same
  `h`/`u`/undo tables, same state records (history one: same flush count), files equal up to the file
  pointers; history tables unrelated.  `hrel_step`: every run operation keeps it, with equal errors.
* `Twin cfg t a b` — `HRel a b` and BOTH states in the run invariant for the same bookkeeping `t`;
  `twin_step`, `twin_run`; `Twin.obs`: every read-path answer of `b` is `a`'s (the history answers
  because both tables are the specification's histories of the same chain).
* `fullInv'_withHist` — the run invariant only needs of the history table: unique keys, ids up to the
  UTXO flush count, and the histories (`get_txnums`) themselves.
* `redo_twin` — the base case for the cut between the two batches of a back-out (below).
* `trackInv_of_resEq` — the run invariant transfers along `ResEq` (it only looks at the committed part
  of the files); `HRel.trans`, `Twin.of_resEq`, `Twin.trans`; `twin_backup_mid` — the crash between the
  two batches at a `Twin` PAIR (what the closure under any number of crashes needs).
-/
namespace EV.Index
open EV.Spec

/-! ### `FlushedB` from the run invariant -/

/-- **`FlushedB` holds in every fully flushed state of the whole-run invariant** that has indexed at
least one block (`backup_block` is only ever admissible above height 0) when some undo information
is retained at all. -/
theorem flushedB_of_fullInv' {cfg : Cfg} {chain : List Block} {K : List Nat} {s : Sys}
    (inv : FullInv' cfg chain K s) (hfl : s.m.dbst.height = s.m.st.height) (hpos : 0 ≤ s.m.st.height)
    (hlim : 0 < cfg.reorgLimit) : FlushedB cfg s := by
  have base := inv.base
  have f := base.files
  have hdb : s.m.dbst = s.m.st := inv.dbEq hfl
  obtain ⟨-, -, hunf0, -, hfs⟩ := flushed_of_db base hfl
  have hall : (s.m.st.height + 1).toNat = chain.length := by have := f.height; omega
  have htake := txcounts_committed f
  rw [hfl, hall, List.take_length] at htake
  refine ⟨assertFlushed_of_inv base hfl.symm, ?_, hdb, ?_, ?_, ?_, base.hist.wf.keys, ?_, ?_, ?_, hlim⟩
  · rcases base.ustate with ⟨-, h2⟩ | h
    · rw [h2] at hfl
      have : (-1 : Int) = s.m.st.height := hfl
      omega
    · rw [h, hdb]
  · rw [hall, htake]; exact f.txCounts
  · rw [f.txCounts, cumCounts_length, hall]
  · rw [f.txCounts, cumCounts_getLast, f.stTx]
  · intro e he
    have := inv.histIds hfl e he
    rw [hdb] at this
    exact this
  · intro hx
    have := base.hist.eq hx
    rw [hunf0] at this
    simp only [unfOf, alookup_nil, Option.getD_none, List.append_nil] at this
    rw [this]; exact historyOf_pairwise _ _
  · have := inv.fcLe
    rw [hdb] at this
    exact this

/-! ### the history table is write-only -/

/-- the same store with another history table -/
def setH (p : Store) (H : List ((HashX × Nat) × List Nat)) : Store := { p with hist := H }

/-- the same system with another history table -/
def withHist (s : Sys) (H : List ((HashX × Nat) × List Nat)) : Sys := { m := s.m, p := setH s.p H }

theorem withHist_self (s : Sys) : withHist s s.p.hist = s := rfl

theorem withHist_withHist (s : Sys) (H H' : List ((HashX × Nat) × List Nat)) :
    withHist (withHist s H) H' = withHist s H' := rfl

theorem withHist_eq_swp (s : Sys) (H : List ((HashX × Nat) × List Nat)) :
    withHist s H = swp (setH s.p H) s := rfl

theorem agree_setH (s : Sys) (H : List ((HashX × Nat) × List Nat)) : Agree (setH s.p H) s :=
  ⟨rfl, rfl, fun _ => rfl⟩

theorem foldl_applyDelKey_setH (dels : List DelKey) (p : Store) (H : List ((HashX × Nat) × List Nat)) :
    dels.foldl applyDelKey (setH p H) = setH (dels.foldl applyDelKey p) H := by
  induction dels generalizing p with
  | nil => rfl
  | cons d r ih =>
    cases d with
    | h k => exact ih (applyDelKey p (.h k))
    | u k => exact ih (applyDelKey p (.u k))

/-- one effect on a store with another history table: everything but the history table comes out the same -/
theorem applyEffect_setH (p : Store) (H : List ((HashX × Nat) × List Nat)) (e : Effect) :
    applyEffect (setH p H) e = setH (applyEffect p e) (applyEffect (setH p H) e).hist := by
  cases e with
  | writeHeaders off d => rfl
  | writeTxCounts off d => rfl
  | writeHashes off d => rfl
  | histBatch dels puts st => rfl
  | putUState st => rfl
  | utxoBatch dels hp up ud upp st =>
    simp only [applyEffect, foldl_applyDelKey_setH]
    rfl

theorem applyEffects_setH (es : List Effect) (p : Store) (H : List ((HashX × Nat) × List Nat)) :
    applyEffects (setH p H) es = setH (applyEffects p es) (applyEffects (setH p H) es).hist := by
  induction es generalizing p H with
  | nil => rfl
  | cons e r ih =>
    show applyEffects (applyEffect (setH p H) e) r = setH (applyEffects (applyEffect p e) r) _
    have h1 := applyEffect_setH p H e
    have h2 := ih (applyEffect p e) (applyEffect (setH p H) e).hist
    rw [← h1] at h2
    exact h2

/-- outcomes equal up to the history table: the same error, or results that differ in the history
    table only -/
def HOE : Except Err Sys → Except Err Sys → Prop
  | .error e1, .error e2 => e1 = e2
  | .ok x, .ok y => ∃ H, y = withHist x H
  | _, _ => False

theorem advance_withHist (cfg : Cfg) (d : Int) (s : Sys) (H : List ((HashX × Nat) × List Nat)) (b : Block) :
    HOE (advance cfg d s b) (advance cfg d (withHist s H) b) := by
  rw [withHist_eq_swp, advance_swp cfg d b (agree_setH s H)]
  cases hadv : advance cfg d s b with
  | error e => exact rfl
  | ok s' =>
    obtain ⟨hp, -, -⟩ := advance_keeps hadv
    refine ⟨H, ?_⟩
    show swp (setH s.p H) s' = withHist s' H
    rw [withHist_eq_swp, hp]

theorem flush_withHist (s : Sys) (H : List ((HashX × Nat) × List Nat)) (fu : Bool) :
    HOE (flush s fu) (flush (withHist s H) fu) := by
  unfold flush
  rw [flushDbs_congr (a := s) (b := withHist s H) rfl fu]
  cases hf : flushDbs s fu with
  | none => exact rfl
  | some r =>
    obtain ⟨es, m'⟩ := r
    refine ⟨(applyEffects (setH s.p H) es).hist, ?_⟩
    show (⟨m', applyEffects (setH s.p H) es⟩ : Sys) = ⟨m', setH (applyEffects s.p es) _⟩
    rw [← applyEffects_setH]

/-- **`backup_block` + `flush_backup` on a store with the same UTXO view and undo table but ANY
    history table**: same refusal, or the same new memory and the same UTXO batch; the history batch
    is `History.backup` of the same touched set and tx count, computed on the other table -/
theorem backupFull_swpH {q : Store} {s : Sys} (cfg : Cfg) (b : Block) (h : Agree q s)
    (hundo : q.undo = s.p.undo) :
    backupFull cfg (swp q s) b =
      match backupFull cfg s b with
      | .ok (es, s') =>
        .ok (histBackupEffect (swp q s) s'.m.touched s'.m.st.txCount :: es.drop 1,
             { m := s'.m,
               p := applyEffects q (histBackupEffect (swp q s) s'.m.touched s'.m.st.txCount :: es.drop 1) })
      | .error e => .error e := by
  rw [backupFull_eq, backupFull_eq]
  have h1 : assertFlushed (swp q s) = assertFlushed s := rfl
  have h2 : (swp q s).m = s.m := rfl
  have h3 : (swp q s).p.undo = s.p.undo := hundo
  rw [h1, h2, h3]
  by_cases ha : (!assertFlushed s) = true
  · rw [if_pos ha, if_pos ha]
  · rw [if_neg ha, if_neg ha]
    by_cases hh : s.m.st.height ≤ 0
    · rw [if_pos hh, if_pos hh]
    · rw [if_neg hh, if_neg hh]
      cases hl : alookup s.m.st.height.toNat s.p.undo with
      | none => rfl
      | some undo =>
        simp only
        have e' : backupTxs sysOps cfg s.m.st.height.toNat b.txs.reverse undo
            { s := swp q s, txNum := 0 } = _ :=
          backupTxs_swp q cfg s.m.st.height.toNat b.txs.reverse undo { s := s, txNum := 0 } h
        rw [e']
        cases hb : backupTxs sysOps cfg s.m.st.height.toNat b.txs.reverse undo { s := s, txNum := 0 } with
        | error e => rfl
        | ok r =>
          obtain ⟨a, undoLeft⟩ := r
          simp only
          by_cases hu : (!undoLeft.isEmpty) = true
          · rw [if_pos hu, if_pos hu]
          · rw [if_neg hu, if_neg hu]
            obtain ⟨c, d, e1, -⟩ := backupTxs_sim cfg s.m.st.height.toNat b.txs.reverse undo
              { s := s, txNum := 0 } a undoLeft s (UAgree.refl _) hb
            have e1' : (swpA q a).s = setCD (swp q s) c d := by
              show swp q a.s = _
              rw [e1]; rfl
            rw [bkResult_explicit (swpA q a) (swp q s) b c d e1', bkResult_explicit a s b c d e1]
            rfl

/-- a history batch followed by any effect, on two stores that differ in the history table and the
    history state record only: the results differ in the history table only (the batch overwrites the
    record) -/
theorem two_batch_frame (p : Store) (H : List ((HashX × Nat) × List Nat)) (hs : Option HState)
    (d1 d2 : List (HashX × Nat)) (p1 p2 : List ((HashX × Nat) × List Nat)) (st : HState) (e2 : Effect) :
    applyEffects { p with hist := H, hstate := hs } [.histBatch d2 p2 st, e2] =
      setH (applyEffects p [.histBatch d1 p1 st, e2])
        (applyEffects { p with hist := H, hstate := hs } [.histBatch d2 p2 st, e2]).hist := by
  show applyEffect (applyEffect _ _) e2 = setH (applyEffect (applyEffect p _) e2) (applyEffect (applyEffect _ _) e2).hist
  have h1 : applyEffect { p with hist := H, hstate := hs } (.histBatch d2 p2 st) =
      setH (applyEffect p (.histBatch d1 p1 st))
        (applyEffect { p with hist := H, hstate := hs } (.histBatch d2 p2 st)).hist := rfl
  rw [h1]
  exact applyEffect_setH _ _ e2

/-- the explicit form of a successful back-out: `History.backup` of the accumulated touched set at
    the new tx count, then a UTXO batch; the history flush count goes up by one -/
theorem backupFull_explicit {cfg : Cfg} {s s' : Sys} {b : Block} {es : List Effect}
    (h : backupFull cfg s b = .ok (es, s')) :
    ∃ e2, e2.isUtxoBatch = true ∧ es = [histBackupEffect s s'.m.touched s'.m.st.txCount, e2] ∧
      s'.p = applyEffects s.p es ∧ s'.m.histFlush = s.m.histFlush + 1 ∧
      s'.m.dbst = s'.m.st ∧ s'.m.st.flushCount = s.m.st.flushCount ∧
      s'.m.st.height = s.m.st.height - 1 := by
  obtain ⟨-, a0, c, d, e1, hres⟩ := backupFull_ok h
  rw [bkResult_explicit a0 s b c d e1] at hres
  simp only [Prod.mk.injEq] at hres
  obtain ⟨rfl, rfl⟩ := hres
  exact ⟨_, rfl, rfl, rfl, rfl, rfl, rfl, rfl⟩

theorem backup_withHist (cfg : Cfg) (s : Sys) (H : List ((HashX × Nat) × List Nat)) (b : Block) :
    HOE (backup cfg s b) (backup cfg (withHist s H) b) := by
  unfold backup
  rw [withHist_eq_swp, backupFull_swpH cfg b (agree_setH s H) rfl]
  cases hb : backupFull cfg s b with
  | error e => exact rfl
  | ok r =>
    obtain ⟨es, s'⟩ := r
    obtain ⟨e2, -, rfl, hp, -⟩ := backupFull_explicit hb
    refine ⟨(applyEffects (setH s.p H)
      [histBackupEffect (swp (setH s.p H) s) s'.m.touched s'.m.st.txCount, e2]).hist, ?_⟩
    show (⟨s'.m, applyEffects (setH s.p H) [_, e2]⟩ : Sys) = ⟨s'.m, setH s'.p _⟩
    rw [hp]
    simp only [histBackupEffect]
    exact congrArg (Sys.mk s'.m) (two_batch_frame s.p H s.p.hstate _ _ _ _ _ e2)

/-- the store `_open_dbs` leaves, on a store with another history table -/
theorem openStore_setH (cfg : Cfg) (p : Store) (H : List ((HashX × Nat) × List Nat)) :
    openStore cfg (setH p H) = setH (openStore cfg p) (openStore cfg (setH p H)).hist := by
  rw [openStore_eq, openStore_eq]
  by_cases hle : (p.hstate.getD {}).flushCount ≤ (p.ustate.getD {}).flushCount
  · rw [openStore1_of_le (p := setH p H) hle, openStore1_of_le hle]
    rfl
  · have hgt : (p.ustate.getD {}).flushCount < (p.hstate.getD {}).flushCount := by omega
    rw [openStore1_of_gt (p := setH p H) hgt, openStore1_of_gt (p := p) hgt]
    rfl

theorem openState_setH (p : Store) (H : List ((HashX × Nat) × List Nat)) (c : Bool) :
    openState (setH p H) c = openState p c := by
  simp only [openState, openHistState_eq]
  rfl

theorem reopen_withHist (cfg : Cfg) (s : Sys) (H : List ((HashX × Nat) × List Nat)) :
    HOE (reopen cfg s) (reopen cfg (withHist s H)) := by
  have htc : openTxCounts (openStore cfg (setH s.p H)) (openState (setH s.p H) false).1 none =
      openTxCounts (openStore cfg s.p) (openState s.p false).1 none := by
    rw [openState_setH, openStore_setH]
    rfl
  have hw : (withHist s H).p = setH s.p H := rfl
  unfold reopen openDbs
  rw [hw, htc]
  cases openTxCounts (openStore cfg s.p) (openState s.p false).1 none with
  | none => exact rfl
  | some l =>
    refine ⟨(openStore cfg (setH s.p H)).hist, ?_⟩
    simp only [openState_setH]
    exact congrArg (Sys.mk _) (openStore_setH cfg s.p H)

/-- **The history table is write-only for the sync.**  Replacing the history table of a system by
ANY other table changes the outcome of no run operation: the same error, or the same new memory and
the same new store except for the history table. -/
theorem histOnly_step (cfg : Cfg) (s : Sys) (H : List ((HashX × Nat) × List Nat)) (op : IOp2) :
    HOE (stepOp2 cfg s op) (stepOp2 cfg (withHist s H) op) := by
  cases op with
  | adv blk d => exact advance_withHist cfg d s H blk
  | flush fu => exact flush_withHist s H fu
  | backup blk => exact backup_withHist cfg s H blk
  | reopen => exact reopen_withHist cfg s H

/-! ### `ResEq` up to the history table -/

/-- same memory, same `h`/`u`/undo tables, same UTXO state record, same history flush count, files
    equal up to the file pointers — the history TABLES are not compared -/
def HRel (a b : Sys) : Prop := ResEq a (withHist b a.p.hist)

def HRelE : Except Err Sys → Except Err Sys → Prop
  | .error e1, .error e2 => e1 = e2
  | .ok a, .ok b => HRel a b
  | _, _ => False

theorem HRel.refl (a : Sys) : HRel a a := ResEq.refl a

theorem HRel.of_withHist (a : Sys) (H : List ((HashX × Nat) × List Nat)) : HRel a (withHist a H) :=
  ResEq.refl a

theorem HRel.of_resEq {a b : Sys} (R : ResEq a b) : HRel a b := by
  have : withHist b a.p.hist = b := by
    show withHist b a.p.hist = withHist b b.p.hist
    rw [R.hist]
  show ResEq a (withHist b a.p.hist)
  rw [this]; exact R

theorem HRel.m {a b : Sys} (R : HRel a b) : b.m = a.m := ResEq.m (b := withHist b a.p.hist) R
theorem HRel.undo {a b : Sys} (R : HRel a b) : b.p.undo = a.p.undo := ResEq.undo (b := withHist b a.p.hist) R
theorem HRel.h {a b : Sys} (R : HRel a b) : b.p.h = a.p.h := ResEq.h (b := withHist b a.p.hist) R
theorem HRel.u {a b : Sys} (R : HRel a b) : b.p.u = a.p.u := ResEq.u (b := withHist b a.p.hist) R
theorem HRel.ustate {a b : Sys} (R : HRel a b) : b.p.ustate = a.p.ustate :=
  ResEq.ustate (b := withHist b a.p.hist) R

/-- **One operation.**  In every state `a` of the reference run (whole-system invariant) and every
`HRel` state `b`, each run operation — `advance_block` of ANY block, a flush of either kind, a
back-out of ANY block, a restart — fails on both with the same error or succeeds on both with `HRel`
results. -/
theorem hrel_step {cfg : Cfg} {chain : List Block} {a b : Sys} (inv : FullInv cfg chain a)
    (R : HRel a b) (op : IOp2) : HRelE (stepOp2 cfg a op) (stepOp2 cfg b op) := by
  have h1 := resEq_step (cfg := cfg) inv R op
  have h2 := histOnly_step cfg (withHist b a.p.hist) b.p.hist op
  rw [withHist_withHist, withHist_self] at h2
  cases ha : stepOp2 cfg a op with
  | error e =>
    rw [ha] at h1
    cases hb0 : stepOp2 cfg (withHist b a.p.hist) op with
    | ok x => rw [hb0] at h1; exact h1.elim
    | error e0 =>
      rw [hb0] at h1 h2
      cases hb : stepOp2 cfg b op with
      | ok y => rw [hb] at h2; exact h2.elim
      | error e1 =>
        rw [hb] at h2
        show e = e1
        exact (show e0 = e from h1).symm.trans h2
  | ok a' =>
    rw [ha] at h1
    cases hb0 : stepOp2 cfg (withHist b a.p.hist) op with
    | error e0 => rw [hb0] at h1; exact h1.elim
    | ok b0 =>
      rw [hb0] at h1 h2
      cases hb : stepOp2 cfg b op with
      | error e1 => rw [hb] at h2; exact h2.elim
      | ok b' =>
        rw [hb] at h2
        obtain ⟨H', rfl⟩ := h2
        have R' : ResEq a' b0 := h1
        show ResEq a' (withHist (withHist b0 H') a'.p.hist)
        rw [withHist_withHist, ← R'.hist, withHist_self]
        exact R'

/-! ### both sides in the run invariant -/

/-- `b` is `HRel` to the reference state `a` and BOTH satisfy the run invariant for the same
    bookkeeping (surviving chain, retained heights, committed length) -/
structure Twin (cfg : Cfg) (t : Track) (a b : Sys) : Prop where
  ta : TrackInv cfg t a
  tb : TrackInv cfg t b
  rel : HRel a b

/-- **One admissible operation** succeeds on both and keeps `Twin`. -/
theorem twin_step {cfg : Cfg} {t : Track} {a b : Sys} (T : Twin cfg t a b) (op : IOp2)
    (hok : OkOp cfg t op) :
    ∃ a' b', stepOp2 cfg a op = .ok a' ∧ stepOp2 cfg b op = .ok b' ∧ Twin cfg (t.step cfg op) a' b' := by
  obtain ⟨a', ha, ta'⟩ := trackInv_step T.ta op hok
  obtain ⟨b', hb, tb'⟩ := trackInv_step T.tb op hok
  have h := hrel_step (cfg := cfg) T.ta.inv.base T.rel op
  rw [ha, hb] at h
  exact ⟨a', b', ha, hb, ta', tb', h⟩

/-- **Whole runs.**  Every valid operation list runs without error on both sides and keeps `Twin`. -/
theorem twin_run {cfg : Cfg} (ops : List IOp2) {t : Track} {a b : Sys} (T : Twin cfg t a b)
    (hv : ValidOps2 cfg t ops) :
    ∃ a' b', runOps2 cfg a ops = .ok a' ∧ runOps2 cfg b ops = .ok b' ∧
      Twin cfg (t.run cfg ops) a' b' := by
  induction ops generalizing t a b with
  | nil => exact ⟨a, b, rfl, rfl, T⟩
  | cons op r ih =>
    obtain ⟨hop, hr⟩ := hv
    obtain ⟨a1, b1, h1, h2, T1⟩ := twin_step T op hop
    obtain ⟨a', b', h3, h4, T'⟩ := ih T1 hr
    exact ⟨a', b', by simp only [runOps2, h1]; exact h3, by simp only [runOps2, h2]; exact h4, T'⟩

/-- ANY next operation, admissible or not: the same error, or `HRel` results -/
theorem Twin.next {cfg : Cfg} {t : Track} {a b : Sys} (T : Twin cfg t a b) (op : IOp2) :
    HRelE (stepOp2 cfg a op) (stepOp2 cfg b op) :=
  hrel_step (cfg := cfg) T.ta.inv.base T.rel op

theorem getTxnums_of_none {p q : Store} (h : ∀ hx, getTxnums q hx none = getTxnums p hx none)
    (hx : HashX) (limit : Option Nat) : getTxnums q hx limit = getTxnums p hx limit := by
  cases limit with
  | none => exact h hx
  | some n =>
    have := h hx
    simp only [getTxnums] at this ⊢
    rw [this]

/-- the histories (`get_txnums`) of the two sides are equal: both are the specification's -/
theorem Twin.txnums {cfg : Cfg} {t : Track} {a b : Sys} (T : Twin cfg t a b) (hx : HashX)
    (limit : Option Nat) : getTxnums b.p hx limit = getTxnums a.p hx limit := by
  apply getTxnums_of_none
  intro hx
  have h1 := T.ta.inv.base.hist.eq hx
  have h2 := T.tb.inv.base.hist.eq hx
  rw [T.rel.m, ← h1] at h2
  exact List.append_cancel_right h2

/-- **every read-path answer of `b` is `a`'s** -/
theorem Twin.obs {cfg : Cfg} {t : Track} {a b : Sys} (T : Twin cfg t a b) : ObsEq a b := by
  have o : ObsEq a (withHist b a.p.hist) := obsEq_of_resEq T.ta.inv.base.files T.rel
  refine ⟨o.state, o.fsTxHash, o.utxos, ?_, o.lookup, o.txHashes, o.headers⟩
  intro hx limit
  have hfs : ∀ n, fsTxHash b n = fsTxHash a n := o.fsTxHash
  simp only [limitedHistory, T.txnums hx limit, hfs]

/-- `read_undo_info` of every height, on disk and pending -/
theorem Twin.undoRows {cfg : Cfg} {t : Track} {a b : Sys} (T : Twin cfg t a b) (h : Nat) :
    alookup h b.p.undo = alookup h a.p.undo ∧ undoLookup b h = undoLookup a h :=
  ResEq.undoRows (b := withHist b a.p.hist) T.rel h

/-- the effect list (and new memory) of the next flush of either kind -/
theorem Twin.flushDbs {cfg : Cfg} {t : Track} {a b : Sys} (T : Twin cfg t a b) (fu : Bool) :
    EV.Index.flushDbs b fu = EV.Index.flushDbs a fu := flushDbs_congr T.rel.m fu

/-! ### the run invariant and the history table -/

/-- **What the run invariant needs of the history table.**  In a fully flushed invariant state the
history table may be replaced by any table with unique keys, no id above the UTXO flush count and the
same histories (`get_txnums` of every script hash). -/
theorem fullInv'_withHist {cfg : Cfg} {chain : List Block} {K : List Nat} {a : Sys}
    (inv : FullInv' cfg chain K a) (hfl : a.m.dbst.height = a.m.st.height)
    (H : List ((HashX × Nat) × List Nat)) (hkeys : (H.map (·.1)).Nodup)
    (hids : ∀ e ∈ H, e.1.2 ≤ a.m.dbst.flushCount)
    (heq : ∀ hx, getTxnums (setH a.p H) hx none = getTxnums a.p hx none) :
    FullInv' cfg chain K (withHist a H) := by
  have base := inv.base
  have f := base.files
  obtain ⟨D, Del, w⟩ := base.rep
  refine
    { base :=
        { rep := ⟨D, Del, repSysW_congr w rfl rfl rfl rfl (fun u hu => w.res u hu)⟩
          hist := ⟨⟨hkeys, fun e he => Nat.le_trans (hids e he) inv.fcLe⟩, base.hist.unfKeys, ?_⟩
          files :=
            { txCounts := f.txCounts, height := f.height, order := f.order, fsTx := f.fsTx,
              stTx := f.stTx, dbTx := f.dbTx, hashes := f.hashes, hashesU := f.hashesU,
              headersU := f.headersU, headers := f.headers, txcountsFile := f.txcountsFile }
          tip := base.tip, dbTip := base.dbTip, utxoCount := base.utxoCount,
          flushedU := base.flushedU, flushedH := base.flushedH, ustate := base.ustate }
      valid := inv.valid, kBound := inv.kBound
      undo := undoInv_congr inv.undo (fun k _ => rfl)
      dbEq := inv.dbEq, hstate := inv.hstate, fcLe := inv.fcLe
      histIds := fun _ => hids
      chainSize := inv.chainSize
      db := { rowsH := inv.db.rowsH, rowsU := inv.db.rowsU, hist := ?_,
              utxoCount := inv.db.utxoCount, chainSize := inv.db.chainSize }
      undoUAbove := inv.undoUAbove }
  · intro hx
    rw [← base.hist.eq hx]
    exact congrArg (· ++ unfOf a.m.unflushed hx) (heq hx)
  · intro hx
    have h0 := inv.db.hist hx
    rw [histUpTo_self (inv.histIds hfl)] at h0
    show getTxnums { setH a.p H with hist := histUpTo H a.m.dbst.flushCount } hx none =
      historyOf (specChain cfg.act (chain.take (a.m.dbst.height + 1).toNat)) hx
    rw [← h0, histUpTo_self hids]
    exact heq hx

/-! ### the cut between the two batches of a back-out: restart, back out again -/

theorem store_eq_hh {p q : Store} (h1 : q.h = p.h) (h2 : q.u = p.u) (h3 : q.undo = p.undo)
    (h4 : q.ustate = p.ustate) (h5 : q.headers = p.headers) (h6 : q.txcounts = p.txcounts)
    (h7 : q.hashes = p.hashes) : q = { p with hist := q.hist, hstate := q.hstate } := by
  cases p; cases q; simp_all

/-- an admissible back-out right after a restart needs a non-empty undo window -/
theorem lim_pos_of_backupOk_reopen {cfg : Cfg} {t : Track} {b : Block}
    (hcl : t.dbLen = t.chain.length) (hok2 : BackupOk (t.step cfg .reopen) b = true) :
    0 < cfg.reorgLimit := by
  obtain ⟨-, -, hlen, hk⟩ := backupOk_iff.mp hok2
  have hc : (t.step cfg .reopen).chain = t.chain := by
    show t.chain.take t.dbLen = t.chain
    rw [hcl, List.take_length]
  rw [hc] at hlen hk
  have hk' : t.chain.length - 1 ∈ keptAfterReopen cfg t.dbLen t.kept := hk
  simp only [keptAfterReopen, List.mem_filter, Bool.and_eq_true, decide_eq_true_eq] at hk'
  omega

/-- the history table a UTXO batch leaves is the one it found -/
theorem hist_applyEffect_utxoBatch {e : Effect} (he : e.isUtxoBatch = true) (p : Store) :
    (applyEffect p e).hist = p.hist := by
  cases e <;> simp only [Effect.isUtxoBatch, Bool.false_eq_true] at he
  exact (utxoBatch_others p _ _ _ _ _ _).1

/-- **The base case of the new-branch continuation.**  `s`: a state of the run invariant in which the
back-out of `b` is admissible (`hok`) and would still be after a restart (`hok2`: the undo window is
not empty); `[e1, e2]` the two batches of the back-out.  The process dies between them.  Then

* the restart on the cut store succeeds (`r`), as does the clean restart `r0` of the store the
  back-out started from; `r` and `r0` have the same memory and the same store except for the history
  table (and the representation of the history state record);
* backing `b` out again succeeds on `r` with THE SAME UTXO batch `e2`, as it does on `r0`;
* the two results are `Twin`: `HRel`, and both in the run invariant for the bookkeeping of the
  crash-free run `… reopen, backup b`. -/
theorem redo_twin {cfg : Cfg} {t : Track} {s : Sys} {b : Block} (ti : TrackInv cfg t s)
    (hok : BackupOk t b = true) (hok2 : BackupOk (t.step cfg .reopen) b = true)
    {e1 e2 : Effect} {s' : Sys} (hb : backupFull cfg s b = .ok ([e1, e2], s')) :
    ∃ er r e0 r0 e1' s2 f1 s2',
      recover cfg (applyEffects s.p [e1]) = some (er, r) ∧
      recover cfg s.p = some (e0, r0) ∧
      r = { m := r0.m, p := { r0.p with hist := r.p.hist, hstate := r.p.hstate } } ∧
      r.p.hist = (applyEffects s.p [e1]).hist ∧
      r.m.dbst = s.m.st ∧
      TrackInv cfg (t.step cfg .reopen) r0 ∧
      backupFull cfg r b = .ok ([e1', e2], s2) ∧
      backupFull cfg r0 b = .ok ([f1, e2], s2') ∧
      Twin cfg ((t.step cfg .reopen).step cfg (.backup b)) s2' s2 := by
  obtain ⟨hcl, hlast, hlen, hk⟩ := backupOk_iff.mp hok
  have hfl : s.m.dbst.height = s.m.st.height := ti.flushed hcl
  have hht := ti.inv.base.files.height
  have hlim := lim_pos_of_backupOk_reopen hcl hok2
  have hF : FlushedB cfg s := flushedB_of_fullInv' ti.inv hfl (by omega) hlim
  -- the uninterrupted back-out
  obtain ⟨e2x, -, hes, hp', -, -, -, -⟩ := backupFull_explicit hb
  simp only [List.cons.injEq, and_true] at hes
  obtain ⟨he1, -⟩ := hes
  obtain ⟨er, r, e1', s2, hrec, hbk, -, -, -, -, -, -, -, -, -, -, hget⟩ := redo_backup hF hb
  -- the restart after the cut
  have hpc : applyEffect s.p e1 = applyEffect s.p
      (histBackupEffect { m := s.m, p := s.p } s'.m.touched s'.m.st.txCount) := by rw [he1]
  obtain ⟨⟨er', hrec'⟩, rhist, rh, ru, rundo, rhdr, rtxc, rhsh⟩ :=
    recover_after_histBackup hF s.m rfl s'.m.touched s'.m.st.txCount (applyEffect s.p e1) hpc
  obtain ⟨-, -, -, pcus, -, -, -, -, pcids⟩ :=
    histBackup_store hF s.m rfl s'.m.touched s'.m.st.txCount (applyEffect s.p e1) hpc
  have hr : r = redoSys cfg s (applyEffect s.p e1) := by
    have := hrec.symm.trans hrec'
    simp only [Option.some.injEq, Prod.mk.injEq] at this
    exact this.2
  -- the clean restart
  obtain ⟨e0, hopen⟩ := openDbs_inv ti.inv
  obtain ⟨x, hx, ti0⟩ := trackInv_step ti .reopen trivial
  have hx' : reopen cfg s = .ok x := hx
  rw [reopen_of_some hopen] at hx'
  cases hx'
  obtain ⟨hus, oh, ou, oust, ohdr, otxc, ohsh, ohist, oundo, ohfc⟩ := openStore_inv ti.inv
  have hm : (redoSys cfg s (applyEffect s.p e1)).m = (reopenSys cfg s).m := by
    simp only [redoSys, reopenSys, hF.dbst, ← hF.txc]
  have hrs : redoSys cfg s (applyEffect s.p e1) =
      swp (openStore cfg (applyEffect s.p e1)) (reopenSys cfg s) :=
    congrArg (fun m => Sys.mk m (openStore cfg (applyEffect s.p e1))) hm
  have hagree : Agree (openStore cfg (applyEffect s.p e1)) (reopenSys cfg s) := by
    refine ⟨rh.trans oh.symm, ru.trans ou.symm, fun n => ?_⟩
    show fsTxHash ⟨(reopenSys cfg s).m, openStore cfg (applyEffect s.p e1)⟩ n = fsTxHash (reopenSys cfg s) n
    simp only [fsTxHash, rhsh, reopenSys, ohsh]
  have hundo : (openStore cfg (applyEffect s.p e1)).undo = (reopenSys cfg s).p.undo := by
    rw [rundo]
    show _ = (openStore cfg s.p).undo
    rw [oundo, hfl]
  have hustate : (openStore cfg (applyEffect s.p e1)).ustate = (reopenSys cfg s).p.ustate := by
    rw [openStore_eq]
    show (openStore1 (applyEffect s.p e1)).ustate = (openStore cfg s.p).ustate
    rw [(openStore1_rest _).2.2.2.1, pcus, oust, hF.ustate]
  have hq : openStore cfg (applyEffect s.p e1) =
      { (reopenSys cfg s).p with hist := (openStore cfg (applyEffect s.p e1)).hist,
                                 hstate := (openStore cfg (applyEffect s.p e1)).hstate } :=
    store_eq_hh (rh.trans oh.symm) (ru.trans ou.symm) hundo hustate (rhdr.trans ohdr.symm)
      (rtxc.trans otxc.symm) (rhsh.trans ohsh.symm)
  -- the back-out on the clean restart
  obtain ⟨s2', hs2', ti2'⟩ := trackInv_step ti0 (.backup b) hok2
  have hs2'' : backup cfg (reopenSys cfg s) b = .ok s2' := hs2'
  unfold backup at hs2''
  cases hbf : backupFull cfg (reopenSys cfg s) b with
  | error e => rw [hbf] at hs2''; cases hs2''
  | ok res =>
    obtain ⟨es0, y⟩ := res
    rw [hbf] at hs2''
    simp only [Except.ok.injEq] at hs2''
    subst hs2''
    obtain ⟨e2y, he2y, hes0, hp0, -, hdbst0, hfc0, -⟩ := backupFull_explicit hbf
    subst hes0
    -- the back-out on the restart after the cut
    have hsw := backupFull_swpH cfg b hagree hundo
    have hbk' : backupFull cfg (swp (openStore cfg (applyEffect s.p e1)) (reopenSys cfg s)) b =
        .ok ([e1', e2], s2) := by rw [← hrs, ← hr]; exact hbk
    rw [hbf, hbk'] at hsw
    simp only [Except.ok.injEq, Prod.mk.injEq, List.drop_succ_cons, List.drop_zero, List.cons.injEq,
      and_true] at hsw
    obtain ⟨⟨he1', he2⟩, hs2⟩ := hsw
    subst he2
    -- the store of the result: that of the clean side with another history table
    have hs2p : s2 = withHist y s2.p.hist := by
      rw [hs2]
      show Sys.mk _ _ = Sys.mk _ (setH y.p _)
      rw [hp0]
      simp only [histBackupEffect]
      rw [hq]
      exact congrArg (Sys.mk y.m) (two_batch_frame _ _ _ _ _ _ _ _ e2)
    -- the history table of the result
    have hH2 : s2.p.hist = (applyEffect (openStore cfg (applyEffect s.p e1))
        (histBackupEffect (swp (openStore cfg (applyEffect s.p e1)) (reopenSys cfg s))
          y.m.touched y.m.st.txCount)).hist := by
      rw [hs2]
      exact hist_applyEffect_utxoBatch he2y (applyEffect _ _)
    have hkeys1 : ((applyEffect s.p e1).hist.map (·.1)).Nodup := by
      rw [hpc]; exact nodup_keys_histBackup _ _ _ hF.keys
    have hfc1 : (reopenSys cfg s).m.histFlush = s.m.st.flushCount := by
      show s.m.dbst.flushCount = _
      rw [hF.dbst]
    have hwf : HistWF (swp (openStore cfg (applyEffect s.p e1)) (reopenSys cfg s)).p.hist
        (swp (openStore cfg (applyEffect s.p e1)) (reopenSys cfg s)).m.histFlush := by
      refine ⟨?_, ?_⟩
      · show ((openStore cfg (applyEffect s.p e1)).hist.map (·.1)).Nodup
        rw [rhist]; exact hkeys1
      · show ∀ e ∈ (openStore cfg (applyEffect s.p e1)).hist, e.1.2 ≤ (reopenSys cfg s).m.histFlush
        rw [rhist, hfc1]; exact pcids
    have hwf2 := histWF_histBackup _ y.m.touched y.m.st.txCount hwf
    -- the histories of the result are the specification's
    have hchain2 : ((t.step cfg .reopen).step cfg (.backup b)).chain = t.chain.dropLast := by
      show (t.chain.take t.dbLen).dropLast = _
      rw [hcl, List.take_length]
    have hfl2' : y.m.dbst.height = y.m.st.height := by rw [hdbst0]
    obtain ⟨s'x, hs'x, ti'⟩ := trackInv_step ti (.backup b) hok
    have hs'x' : backup cfg s b = .ok s'x := hs'x
    rw [backup_of_ok hb] at hs'x'
    cases hs'x'
    have hfl' : s'.m.dbst.height = s'.m.st.height := by
      apply ti'.flushed
      show t.chain.length - 1 = t.chain.dropLast.length
      rw [List.length_dropLast]
    have hspec' : ∀ hx, getTxnums s'.p hx none = historyOf (specChain cfg.act t.chain.dropLast) hx := by
      intro hx
      obtain ⟨-, -, hunf, -, -⟩ := flushed_of_db ti'.inv.base hfl'
      have := ti'.inv.base.hist.eq hx
      have hc : (t.step cfg (.backup b)).chain = t.chain.dropLast := rfl
      rw [hunf, hc] at this
      simpa only [unfOf, alookup_nil, Option.getD_none, List.append_nil] using this
    have hspec2' : ∀ hx, getTxnums y.p hx none = historyOf (specChain cfg.act t.chain.dropLast) hx := by
      intro hx
      obtain ⟨-, -, hunf, -, -⟩ := flushed_of_db ti2'.inv.base hfl2'
      have := ti2'.inv.base.hist.eq hx
      rw [hunf, hchain2] at this
      simpa only [unfOf, alookup_nil, Option.getD_none, List.append_nil] using this
    have inv2 := fullInv'_withHist ti2'.inv hfl2' s2.p.hist
      (by rw [hH2]; exact hwf2.keys)
      (by
        rw [hH2, hdbst0, hfc0]
        intro e he
        have := hwf2.ids e he
        exact this)
      (by
        intro hx
        rw [getTxnums_congr (p := setH y.p s2.p.hist) (q := s2.p) rfl hx none, hget hx, hspec' hx,
          hspec2' hx])
    rw [← hs2p] at inv2
    have tb : TrackInv cfg ((t.step cfg .reopen).step cfg (.backup b)) s2 := by
      refine ⟨inv2, ?_⟩
      rw [hs2p]
      exact ti2'.db
    refine ⟨er, r, e0, reopenSys cfg s, e1', s2, _, y, hrec, hopen, ?_, ?_, ?_, ti0, hbk, hbf,
      ti2', tb, ?_⟩
    · rw [hr, hrs]
      show Sys.mk _ _ = Sys.mk _ _
      exact congrArg (Sys.mk _) hq
    · rw [hr]
      exact rhist
    · rw [hr]; rfl
    · rw [hs2p]
      exact HRel.of_withHist y s2.p.hist

/-! ### composing with C04's crashes: the run invariant along `ResEq`, transitivity -/

/-- **The run invariant only looks at the committed part of the files**: a state that is `ResEq` to
an invariant state (same memory and tables, files equal up to the file pointers — e.g. the restart
after a crash inside a flush, with torn data beyond the committed lengths) satisfies the run invariant
itself, for the same bookkeeping. -/
theorem trackInv_of_resEq {cfg : Cfg} {t : Track} {a b : Sys} (ti : TrackInv cfg t a) (R : ResEq a b) :
    TrackInv cfg t b := by
  obtain ⟨bm, bp⟩ := b
  have hm : bm = a.m := R.m
  subst hm
  have inv := ti.inv
  have base := inv.base
  have f := base.files
  obtain ⟨D, Del, w⟩ := base.rep
  refine ⟨?_, ti.db⟩
  exact
    { base :=
        { rep := ⟨D, Del, repSysW_congr w R.h R.u rfl rfl (fun u hu => by
            show (fsTxHash _ _).1 = _
            rw [fsTxHash_of_resEq f R]
            exact w.res u hu)⟩
          hist := histInv_congr base.hist R.hist
          files :=
            { txCounts := f.txCounts, height := f.height, order := f.order, fsTx := f.fsTx,
              stTx := f.stTx, dbTx := f.dbTx, hashes := R.hashes.trans f.hashes, hashesU := f.hashesU,
              headersU := f.headersU, headers := R.headers.trans f.headers,
              txcountsFile := R.txcounts.trans f.txcountsFile }
          tip := base.tip, dbTip := base.dbTip, utxoCount := base.utxoCount,
          flushedU := base.flushedU, flushedH := base.flushedH
          ustate := by
            show (bp.ustate = none ∧ a.m.dbst = {}) ∨ bp.ustate = some a.m.dbst
            rw [show bp.ustate = a.p.ustate from R.ustate]
            exact base.ustate }
      valid := inv.valid, kBound := inv.kBound
      undo := undoInv_congr inv.undo (fun k _ =>
        undoLookup_congr (s := a) (s' := ⟨a.m, bp⟩) rfl R.undo k)
      dbEq := inv.dbEq
      hstate := (R.hfc).trans inv.hstate
      fcLe := inv.fcLe
      histIds := fun h e he => inv.histIds h e (by rw [← show bp.hist = a.p.hist from R.hist]; exact he)
      chainSize := inv.chainSize
      db := dbInv_congr inv.db R.h R.u (by rw [show bp.hist = a.p.hist from R.hist]) rfl
      undoUAbove := inv.undoUAbove }

theorem ResEq.withHist {b c : Sys} (R : ResEq b c) (H : List ((HashX × Nat) × List Nat)) :
    ResEq (EV.Index.withHist b H) (EV.Index.withHist c H) :=
  ⟨R.m, ⟨R.h, R.u, R.undo, R.ustate, rfl, R.hfc, R.headers, R.txcounts, R.hashes⟩⟩

theorem HRel.trans_resEq {a b c : Sys} (h1 : HRel a b) (h2 : ResEq b c) : HRel a c :=
  ResEq.trans h1 (h2.withHist a.p.hist)

theorem HRel.trans {a b c : Sys} (h1 : HRel a b) (h2 : HRel b c) : HRel a c :=
  ResEq.trans h1 (ResEq.withHist (c := EV.Index.withHist c b.p.hist) h2 a.p.hist)

/-- the reference side moves on, the other side is replaced by a `ResEq` state -/
theorem Twin.of_resEq {cfg : Cfg} {t : Track} {a b c : Sys} (T : Twin cfg t a b) (R : ResEq b c) :
    Twin cfg t a c :=
  ⟨T.ta, trackInv_of_resEq T.tb R, T.rel.trans_resEq R⟩

theorem Twin.trans {cfg : Cfg} {t : Track} {a b c : Sys} (T1 : Twin cfg t a b) (T2 : Twin cfg t b c) :
    Twin cfg t a c :=
  ⟨T1.ta, T2.tb, T1.rel.trans T2.rel⟩

theorem Twin.refl {cfg : Cfg} {t : Track} {a : Sys} (ti : TrackInv cfg t a) : Twin cfg t a a :=
  ⟨ti, ti, HRel.refl a⟩

/-- a back-out that succeeds starts from a fully flushed state -/
theorem flushed_of_backupFull {cfg : Cfg} {s s' : Sys} {b : Block} {es : List Effect}
    (h : backupFull cfg s b = .ok (es, s')) : s.m.dbst.height = s.m.st.height := by
  obtain ⟨haf, -⟩ := backupFull_ok h
  simp only [assertFlushed, Bool.and_eq_true, beq_iff_eq] at haf
  have h1 : s.m.st.height = s.m.fsHeight := haf.1.1.1.1.1.1.1.1.2
  have h2 : s.m.fsHeight = s.m.dbst.height := haf.1.1.1.1.1.1.1.2
  omega

/-- a back-out admissible after a restart of a fully committed state was admissible before it -/
theorem backupOk_of_reopen {cfg : Cfg} {t : Track} {b : Block} (hcl : t.dbLen = t.chain.length)
    (hok2 : BackupOk (t.step cfg .reopen) b = true) : BackupOk t b = true := by
  obtain ⟨-, hlast, hlen, hk⟩ := backupOk_iff.mp hok2
  have hc : (t.step cfg .reopen).chain = t.chain := by
    show t.chain.take t.dbLen = t.chain
    rw [hcl, List.take_length]
  rw [hc] at hlast hlen hk
  have hk' : t.chain.length - 1 ∈ keptAfterReopen cfg t.dbLen t.kept := hk
  exact backupOk_iff.mpr ⟨hcl, hlast, hlen, (List.mem_filter.mp hk').1⟩

/-- **A crash between the two batches of a back-out, at a `Twin` pair.**  `a`: reference state, `b`
`Twin` to it; a back-out of `blk` issued in `b` dies between its two batches; the process restarts
(`r`) and backs `blk` out again (`r2`).  If `reopen, backup blk` is admissible for the reference run,
it succeeds there (`a2`) and `r2` is `Twin` to `a2`. -/
theorem twin_backup_mid {cfg : Cfg} {t : Track} {a b : Sys} (T : Twin cfg t a b) {blk : Block}
    {e1 e2 : Effect} {b' : Sys} (hb : backupFull cfg b blk = .ok ([e1, e2], b'))
    {e : List Effect} {r : Sys} (hrec : recover cfg (applyEffects b.p [e1]) = some (e, r))
    {es2 : List Effect} {r2 : Sys} (hbk : backupFull cfg r blk = .ok (es2, r2))
    (hok2 : BackupOk (t.step cfg .reopen) blk = true) :
    ∃ a1 a2, stepOp2 cfg a .reopen = .ok a1 ∧ stepOp2 cfg a1 (.backup blk) = .ok a2 ∧
      Twin cfg ((t.step cfg .reopen).step cfg (.backup blk)) a2 r2 ∧
      ∃ e1', es2 = [e1', e2] := by
  have hfl := flushed_of_backupFull hb
  have hcl : t.dbLen = t.chain.length := by
    have h1 := T.tb.db
    have h2 := T.tb.inv.base.files.height
    omega
  have hok := backupOk_of_reopen hcl hok2
  obtain ⟨er, r', e0, rb0, e1', s2, f1, s2', hrec', hrec0, -, -, -, -, hbk', hbk0, TR⟩ :=
    redo_twin T.tb hok hok2 hb
  have hr : r' = r := by
    have := hrec'.symm.trans hrec
    simp only [Option.some.injEq, Prod.mk.injEq] at this
    exact this.2
  subst hr
  rw [hbk] at hbk'
  simp only [Except.ok.injEq, Prod.mk.injEq] at hbk'
  obtain ⟨hes, rfl⟩ := hbk'
  obtain ⟨a1, b1, ha1, hb1, T1⟩ := twin_step T .reopen trivial
  have hb1' : reopen cfg b = .ok b1 := hb1
  rw [reopen_of_some (show openDbs cfg b.p false none = _ from hrec0)] at hb1'
  cases hb1'
  obtain ⟨a2, b2, ha2, hb2, T2⟩ := twin_step T1 (.backup blk) hok2
  have hb2' : backup cfg rb0 blk = .ok b2 := hb2
  rw [backup_of_ok hbk0] at hb2'
  cases hb2'
  exact ⟨a1, a2, ha1, ha2, T2.trans TR, e1', hes⟩

end EV.Index

import EV.Proofs.CarrierSpec
import EV.Proofs.IndexRunReorg

/-!
Carrier completeness, model level: in invariant states, `advance` (`advance_block`) appends exactly
the block's touched list to `BlockProcessor.touched`, `backupFull` (`backup_block` + `flush_backup`)
keeps what is there and adds every script hash of the block's touched list, flushes leave the set
alone.  Together with `CarrierSpec.lean`: after either step `touched` contains what was there before
and every script hash whose client-visible confirmed state the step changed.
Also: the invariants do not mention `touched`, so `self.touched = set()` preserves them.
Core only.
-/
namespace EV.Index
open EV.Spec

/-! ### `advance_block` -/

/-- `advance_block` of a valid next block in an invariant state appends the block's touched list
    (per tx: script hashes of the spent outputs, then of the new spendable outputs) -/
theorem advance_touched {cfg : Cfg} {daemonH : Int} {chain : List Block} {s s' : Sys} {b : Block}
    (inv : FullInv cfg chain s) (hv : ValidNext cfg chain b)
    (h : advance cfg daemonH s b = .ok s') :
    s'.m.touched = s.m.touched ++ touchedBy cfg.act chain b := by
  have f := inv.files
  have hheight : (s.m.st.height + 1).toNat = chain.length := by have := f.height; omega
  have hn : s.m.st.txCount = (specChain cfg.act chain).txs.length := by
    rw [f.stTx, specChain_txs_length]
  obtain ⟨a, ha, -, -, -, -, -, -, htouched⟩ :=
    advanceTxs_spec sysIface cfg chain.length b.txs (specChain cfg.act chain)
      { s := s, txNum := s.m.st.txCount } inv.rep hn hv.2
  rw [← hheight] at ha
  obtain ⟨c, d, hs⟩ := advanceTxs_same _ _ _ _ ha
  simp only at hs
  have hprev : b.prev = s.m.st.tip := hv.1.trans inv.tip.symm
  unfold advance at h
  simp only [hprev, ne_eq, not_true_eq_false, if_false, ha, Except.ok.injEq] at h
  subst h
  simp only [hs, htouched, List.nil_append, touchedBy]

/-- **Model-level carrier completeness, forward.**  After `advance_block` of a valid next block,
`touched` contains everything it contained before and every script hash whose client-visible
confirmed state differs between the chain before and after the block. -/
theorem advance_carries {cfg : Cfg} {daemonH : Int} {chain : List Block} {s s' : Sys} {b : Block}
    (inv : FullInv cfg chain s) (hv : ValidNext cfg chain b)
    (h : advance cfg daemonH s b = .ok s') :
    (∀ hx ∈ s.m.touched, hx ∈ s'.m.touched) ∧
    (∀ hx, confState cfg.act chain hx ≠ confState cfg.act (chain ++ [b]) hx → hx ∈ s'.m.touched) := by
  rw [advance_touched inv hv h]
  exact ⟨fun hx hm => List.mem_append_left _ hm,
    fun hx hne => List.mem_append_right _ (confState_change_advance cfg.act chain b hx hne)⟩

/-! ### flushes -/

/-- a flush of either kind leaves `touched` alone -/
theorem flush_touched {s s' : Sys} {fu : Bool} (h : flush s fu = .ok s') :
    s'.m.touched = s.m.touched := by
  unfold flush at h
  split at h
  · simp at h
  · next es m hfd =>
    simp only [Except.ok.injEq] at h
    subst h
    unfold flushDbs at hfd
    split at hfd
    · split at hfd
      · simp only [Option.some.injEq, Prod.mk.injEq] at hfd
        rw [← hfd.2]
      · simp at hfd
    · split at hfd
      · simp at hfd
      · dsimp only at hfd
        split at hfd
        · simp only [Option.some.injEq, Prod.mk.injEq] at hfd
          rw [← hfd.2]
        · simp only [Option.some.injEq, Prod.mk.injEq] at hfd
          rw [← hfd.2]

/-! ### `backup_block` -/

/-- **Model-level carrier completeness, back-out.**  In a fully flushed invariant state of
`pre ++ [b]` whose tip height is retained (the hypotheses of `fullInv'_backup`), a successful
`backup_block` + `flush_backup` of `b` leaves a `touched` that contains everything it contained
before, every script hash of the block's touched list, and hence every script hash whose
client-visible confirmed state differs between `pre ++ [b]` and `pre`. -/
theorem backup_carries {cfg : Cfg} {pre : List Block} {b : Block} {K : List Nat} {s s' : Sys}
    {es : List Effect}
    (inv : FullInv' cfg (pre ++ [b]) K s) (hfl : s.m.dbst.height = s.m.st.height)
    (hpre : pre ≠ []) (hk : pre.length ∈ K) (h : backupFull cfg s b = .ok (es, s')) :
    (∀ hx ∈ s.m.touched, hx ∈ s'.m.touched) ∧
    (∀ hx ∈ touchedBy cfg.act pre b, hx ∈ s'.m.touched) ∧
    (∀ hx, confState cfg.act (pre ++ [b]) hx ≠ confState cfg.act pre hx → hx ∈ s'.m.touched) := by
  have base := inv.base
  have f := base.files
  obtain ⟨-, -, hundoU0⟩ := base.flushedU hfl
  have hassert := assertFlushed_of_inv base hfl.symm
  have hH : s.m.st.height = (pre.length : Int) := by
    have := f.height; rw [List.length_append, List.length_singleton] at this; omega
  have hprelen : 0 < pre.length := List.length_pos_iff.mpr hpre
  have hposH : ¬ s.m.st.height ≤ 0 := by omega
  have htoNat : s.m.st.height.toNat = pre.length := by omega
  have hvn := validChain_last inv.valid
  have hvalidPre := validChain_prefix inv.valid
  have hS := specChain_nodup pre hvalidPre
  have hspec : specChain cfg.act (pre ++ [b]) =
      b.txs.foldl (applyTx cfg.act pre.length) (specChain cfg.act pre) := by
    rw [specChain_snoc]; rfl
  have hundoRow : alookup pre.length s.p.undo =
      some (blockUndo cfg.act pre.length (specChain cfg.act pre) b.txs) := by
    rw [← undoLookup_of_nil hundoU0]
    exact inv.undo pre.length hk pre b [] rfl rfl
  have hrep : RepSys s (b.txs.foldl (applyTx cfg.act pre.length) (specChain cfg.act pre)).utxos := by
    rw [← hspec]; exact base.rep
  obtain ⟨a, hbt, -, -, -, htouched⟩ :=
    backupTxs_inverts sysIface cfg pre.length b.txs (specChain cfg.act pre) hS hvn.2 []
      { s := s, txNum := 0 } hrep
  simp only [List.nil_append] at hbt
  obtain ⟨c, d, ha, -⟩ := backupTxs_sim cfg pre.length b.txs.reverse _ { s := s, txNum := 0 } a [] s
    ⟨rfl, rfl, rfl, rfl, rfl, rfl, rfl⟩ hbt
  simp only at ha
  have hfull : backupFull cfg s b = .ok (bkResult a s b) := by
    rw [backupFull_eq]
    simp [hassert, hposH, htoNat, hundoRow, hbt]
  rw [bkResult_explicit a s b c d ha, h] at hfull
  simp only [Except.ok.injEq, Prod.mk.injEq] at hfull
  obtain ⟨-, hs'⟩ := hfull
  have ht : s'.m.touched = s.m.touched ++ a.touched := by rw [hs']
  have hblock : ∀ hx ∈ touchedBy cfg.act pre b, hx ∈ s'.m.touched := by
    intro hx hm
    rw [ht]
    exact List.mem_append_right _ (htouched hx (Or.inr hm))
  refine ⟨fun hx hm => by rw [ht]; exact List.mem_append_left _ hm, hblock, ?_⟩
  intro hx hne
  exact hblock hx (confState_change_backout cfg.act pre b hx hne)

/-! ### `self.touched = set()` -/

/-- replace `BlockProcessor.touched` -/
def setTouched (s : Sys) (T : List HashX) : Sys := { s with m := { s.m with touched := T } }

theorem fullInv_setTouched {cfg : Cfg} {chain : List Block} {s : Sys} (inv : FullInv cfg chain s)
    (T : List HashX) : FullInv cfg chain (setTouched s T) := by
  obtain ⟨⟨D, Del, w⟩, hist, files, tip, dbTip, utxoCount, flushedU, flushedH, ustate⟩ := inv
  obtain ⟨f1, f2, f3, f4, f5, f6, f7, f8, f9, f10, f11⟩ := files
  exact ⟨⟨D, Del, repSysW_congr w rfl rfl rfl rfl (fun u hu => w.res u hu)⟩, hist,
    ⟨f1, f2, f3, f4, f5, f6, f7, f8, f9, f10, f11⟩, tip, dbTip, utxoCount, flushedU, flushedH, ustate⟩

/-- none of the invariants mentions `touched` -/
theorem fullInv'_setTouched {cfg : Cfg} {chain : List Block} {K : List Nat} {s : Sys}
    (inv : FullInv' cfg chain K s) (T : List HashX) : FullInv' cfg chain K (setTouched s T) where
  base := fullInv_setTouched inv.base T
  valid := inv.valid
  kBound := inv.kBound
  undo := undoInv_congr inv.undo (fun k _ => undoLookup_congr rfl rfl k)
  dbEq := inv.dbEq
  hstate := inv.hstate
  fcLe := inv.fcLe
  histIds := inv.histIds
  chainSize := inv.chainSize
  db := dbInv_congr inv.db rfl rfl rfl rfl
  undoUAbove := inv.undoUAbove

theorem trackInv_setTouched {cfg : Cfg} {t : Track} {s : Sys} (ti : TrackInv cfg t s)
    (T : List HashX) : TrackInv cfg t (setTouched s T) :=
  ⟨fullInv'_setTouched ti.inv T, ti.db⟩

end EV.Index

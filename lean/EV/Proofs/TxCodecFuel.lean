import EV.Proofs.TxCodecTrunc

/-! The fuel of the loops never runs out, for *every* file content and chunk size: `outOfFuel`
is not a reachable outcome of `iterTxs`, `chunkOffsetsG`, `iterTxsReversedG`. -/
namespace EV.TxCodec

/-- the reader never reports `outOfFuel`, and a successful read moves the cursor forward and stays
    inside the buffer -/
structure Progress {α : Type} (r : Bytes → Nat → Except PyExc (α × Nat)) : Prop where
  noOof : ∀ buf c, r buf c ≠ .error .outOfFuel
  adv : ∀ buf c x e, r buf c = .ok (x, e) → c < e ∧ e ≤ buf.length

theorem unpackErr_ne (c : Nat) : unpackErr c ≠ .outOfFuel := by
  unfold unpackErr; split <;> simp

theorem readLeU_noOof (w : Nat) (buf : Bytes) (c : Nat) : readLeU w buf c ≠ .error .outOfFuel := by
  unfold readLeU; split
  · simp
  · intro h; exact unpackErr_ne c (by simpa using h)

theorem readLeI32_noOof (buf : Bytes) (c : Nat) : readLeI32 buf c ≠ .error .outOfFuel := by
  unfold readLeI32; split
  · simp
  · intro h; exact unpackErr_ne c (by simpa using h)

theorem readLeI64_noOof (buf : Bytes) (c : Nat) : readLeI64 buf c ≠ .error .outOfFuel := by
  unfold readLeI64; split
  · simp
  · intro h; exact unpackErr_ne c (by simpa using h)

theorem readVarint_noOof (buf : Bytes) (c : Nat) : readVarint buf c ≠ .error .outOfFuel := by
  unfold readVarint
  split
  · simp
  · split
    · simp
    · split
      · exact readLeU_noOof _ _ _
      · split <;> exact readLeU_noOof _ _ _

theorem readVarbytes_noOof (buf : Bytes) (c : Nat) : readVarbytes buf c ≠ .error .outOfFuel := by
  unfold readVarbytes
  split
  · rename_i e he; intro h
    simp only [Except.error.injEq] at h; subst h
    exact readVarint_noOof _ _ he
  · simp

theorem readInput_noOof (buf : Bytes) (c : Nat) : readInput buf c ≠ .error .outOfFuel := by
  unfold readInput
  split
  · rename_i e he; intro h; simp only [Except.error.injEq] at h; subst h; exact readLeU_noOof _ _ _ he
  · split
    · rename_i e he; intro h; simp only [Except.error.injEq] at h; subst h; exact readVarbytes_noOof _ _ he
    · split
      · rename_i e he; intro h; simp only [Except.error.injEq] at h; subst h; exact readLeU_noOof _ _ _ he
      · simp

theorem readOutput_noOof (buf : Bytes) (c : Nat) : readOutput buf c ≠ .error .outOfFuel := by
  unfold readOutput
  split
  · rename_i e he; intro h; simp only [Except.error.injEq] at h; subst h; exact readLeI64_noOof _ _ he
  · split
    · rename_i e he; intro h; simp only [Except.error.injEq] at h; subst h; exact readVarbytes_noOof _ _ he
    · simp

theorem readItems_noOof {α : Type} {reader : Bytes → Nat → Except PyExc (α × Nat)}
    (hr : ∀ buf c, reader buf c ≠ .error .outOfFuel) (buf : Bytes) (k : Nat) :
    ∀ c, readItems reader buf k c ≠ .error .outOfFuel := by
  induction k with
  | zero => intro c; simp [readItems]
  | succ k ih =>
    intro c
    simp only [readItems]
    split
    · rename_i e he; intro h; simp only [Except.error.injEq] at h; subst h; exact hr _ _ he
    · split
      · rename_i e he; intro h; simp only [Except.error.injEq] at h; subst h; exact ih _ he
      · simp

theorem readMany_noOof {α : Type} {reader : Bytes → Nat → Except PyExc (α × Nat)}
    (hr : ∀ buf c, reader buf c ≠ .error .outOfFuel) (buf : Bytes) (c : Nat) :
    readMany reader buf c ≠ .error .outOfFuel := by
  unfold readMany
  split
  · rename_i e he; intro h; simp only [Except.error.injEq] at h; subst h; exact readVarint_noOof _ _ he
  · exact readItems_noOof hr _ _ _

theorem readTx_noOof (buf : Bytes) (c : Nat) : readTx buf c ≠ .error .outOfFuel := by
  unfold readTx
  split
  · rename_i e he; intro h; simp only [Except.error.injEq] at h; subst h; exact readLeI32_noOof _ _ he
  · split
    · rename_i e he; intro h; simp only [Except.error.injEq] at h; subst h
      exact readMany_noOof readInput_noOof _ _ he
    · split
      · rename_i e he; intro h; simp only [Except.error.injEq] at h; subst h
        exact readMany_noOof readOutput_noOof _ _ he
      · split
        · rename_i e he; intro h; simp only [Except.error.injEq] at h; subst h
          exact readLeU_noOof _ _ _ he
        · simp

theorem progress_readTx : Progress readTx where
  noOof := readTx_noOof
  adv := fun _ _ _ _ h => by have := readTx_bounds h; omega

theorem progress_readTxAndHash : Progress readTxAndHash where
  noOof := fun buf c => by
    unfold readTxAndHash
    split
    · rename_i e he; intro h; simp only [Except.error.injEq] at h; subst h; exact readTx_noOof _ _ he
    · simp
  adv := fun buf c x e h => by
    unfold readTxAndHash at h
    split at h
    · cases h
    · rename_i t e' he
      simp only [Except.ok.injEq, Prod.mk.injEq] at h
      obtain ⟨_, rfl⟩ := h
      have := readTx_bounds he; omega

theorem parseRun_fuel {α : Type} {reader : Bytes → Nat → Except PyExc (α × Nat)} (P : Progress reader)
    (buf : Bytes) : ∀ (fuel c : Nat), 1 ≤ fuel → buf.length < fuel + c →
      (parseRun reader buf fuel c).exc ≠ .outOfFuel := by
  intro fuel
  induction fuel with
  | zero => intro c h; omega
  | succ f ih =>
    intro c _ h
    simp only [parseRun]
    split
    · rename_i e he; intro h'; simp only at h'; subst h'; exact P.noOof _ _ he
    · rename_i x c1 he
      have := P.adv _ _ _ _ he
      simp only [Run.cons]
      exact ih c1 (by omega) (by omega)

theorem GenRes.prepend_err {α : Type} (xs : List α) (r : GenRes α) : (r.prepend xs).err = r.err := rfl

theorem drop_lt_of_take_ne_nil {α : Type} (l : List α) (n : Nat) (h : (l.take n).isEmpty = false) :
    (l.drop n).length < l.length := by
  have : (l.take n).length ≠ 0 := by
    intro h0; rw [List.eq_nil_of_length_eq_zero h0] at h; simp at h
  simp only [List.length_take, List.length_drop] at this ⊢; omega

theorem iterLoop_fuel (chunk N : Nat) : ∀ (fuel : Nat) (raw : Bytes) (c : Nat) (rest : Bytes) (count : Nat),
    rest.length < fuel → (iterLoop chunk N fuel raw c rest count).err ≠ some .outOfFuel := by
  intro fuel
  induction fuel with
  | zero => intro raw c rest count h; omega
  | succ f ih =>
    intro raw c rest count h
    have hp := parseRun_fuel progress_readTxAndHash raw (raw.length + 1) c (by omega) (by omega)
    simp only [iterLoop]
    generalize parseRun readTxAndHash raw (raw.length + 1) c = r at hp ⊢
    obtain ⟨items, cur, e⟩ := r
    simp only at hp ⊢
    split
    · simp only [Option.some.injEq, ne_eq]; exact hp
    · split
      · simp
      · split
        · simp
        · rename_i h3
          rw [GenRes.prepend_err]
          have := drop_lt_of_take_ne_nil rest chunk (by simpa using h3)
          exact ih _ _ _ _ (by omega)

theorem iterTxs_fuel (chunk : Nat) (data : Bytes) : (iterTxs chunk data).err ≠ some .outOfFuel := by
  unfold iterTxs
  split
  · simp
  · rename_i h1
    split
    · simp
    · split
      · rename_i e he
        simp only [Option.some.injEq, ne_eq]
        intro h; subst h; exact readVarint_noOof _ _ he
      · apply iterLoop_fuel
        have : data ≠ [] := by intro h; simp [h] at h1
        have : data.length ≠ 0 := fun h => this (List.eq_nil_of_length_eq_zero h)
        simp only [List.length_drop]; omega

theorem offLoop_fuel (fixed : Bool) (chunk : Nat) :
    ∀ (fuel : Nat) (raw : Bytes) (c : Nat) (rest : Bytes) (base : Nat) (txCount : Int) (offs : List Nat),
    rest.length < fuel → offLoop fixed chunk fuel raw c rest base txCount offs ≠ .error .outOfFuel := by
  intro fuel
  induction fuel with
  | zero => intro raw c rest base txCount offs h; omega
  | succ f ih =>
    intro raw c rest base txCount offs h
    have hp := parseRun_fuel progress_readTx raw (raw.length + 1) c (by omega) (by omega)
    simp only [offLoop]
    generalize parseRun readTx raw (raw.length + 1) c = r at hp ⊢
    obtain ⟨items, cur, e⟩ := r
    simp only at hp ⊢
    split
    · simp only [ne_eq, Except.error.injEq]; exact hp
    · split
      · simp
      · split
        · simp
        · rename_i h3
          have := drop_lt_of_take_ne_nil rest chunk (by simpa using h3)
          exact ih _ _ _ _ _ _ (by omega)

theorem chunkOffsetsG_fuel (fixed : Bool) (chunk : Nat) (data : Bytes) :
    chunkOffsetsG fixed chunk data ≠ .error .outOfFuel := by
  unfold chunkOffsetsG
  split
  · simp
  · rename_i h1
    split
    · simp
    · split
      · simp
      · split
        · rename_i e he
          simp only [ne_eq, Except.error.injEq]
          intro h; subst h; exact readVarint_noOof _ _ he
        · apply offLoop_fuel
          have : data ≠ [] := by intro h; simp [h] at h1
          have : data.length ≠ 0 := fun h => this (List.eq_nil_of_length_eq_zero h)
          simp only [List.length_drop]; omega

theorem readAll_fuel (buf : Bytes) : ∀ (fuel c : Nat), buf.length ≤ fuel + c →
    readAll buf buf.length fuel c ≠ .error .outOfFuel := by
  intro fuel
  induction fuel with
  | zero =>
    intro c h
    simp only [readAll]
    rw [if_neg (by omega)]; simp
  | succ f ih =>
    intro c h
    simp only [readAll]
    split
    · split
      · rename_i e he; intro h'; simp only [Except.error.injEq] at h'; subst h'
        exact progress_readTxAndHash.noOof _ _ he
      · rename_i x c1 he
        have := progress_readTxAndHash.adv _ _ _ _ he
        split
        · rename_i e he2; intro h'; simp only [Except.error.injEq] at h'; subst h'
          exact ih c1 (by omega) he2
        · simp
    · simp

theorem revChunks_fuel (data : Bytes) (ps : List (Nat × Nat)) :
    (revChunks data ps).err ≠ some .outOfFuel := by
  induction ps with
  | nil => simp [revChunks]
  | cons p ps ih =>
    obtain ⟨a, b⟩ := p
    simp only [revChunks]
    split
    · simp
    · split
      · simp
      · rename_i h1 h2
        have hl : (slice data a b).length = b - a := by simpa using h2
        split
        · rename_i e he
          simp only [Option.some.injEq, ne_eq]
          intro h; subst h
          have := readAll_fuel (slice data a b) (b - a) 0 (by omega)
          rw [hl] at this
          exact this he
        · rw [GenRes.prepend_err]; exact ih

theorem iterTxsReversedG_fuel (fixed : Bool) (chunk : Nat) (data : Bytes) :
    (iterTxsReversedG fixed chunk data).err ≠ some .outOfFuel := by
  unfold iterTxsReversedG
  split
  · rename_i e he
    simp only [Option.some.injEq, ne_eq]
    intro h; subst h; exact chunkOffsetsG_fuel _ _ _ he
  · exact revChunks_fuel _ _

end EV.TxCodec

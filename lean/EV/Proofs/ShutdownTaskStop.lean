import EV.Proofs.ShutdownTaskCancel

/-!
Task-level shutdown model: "the server stops" — after the request the handler is never stuck and
ends after a bounded number of steps of the inner tasks and the worker.
-/
namespace EV.ShutdownTask
open EV.Index

/-- steps of the inner tasks and the worker thread (not of the environment) -/
def Ev.isWork : Ev → Bool
  | .innerStart | .hStart | .jobEnd _ | .deliver => true
  | _ => false

def innerTodo : Option Inner → Nat
  | none => 0
  | some (.wantLock _) => 7
  | some (.job _ (.adv _)) => 6
  | some (.jobDone _ (.adv _) _) => 5
  | some (.job _ _) => 2
  | some (.jobDone _ _ _) => 1

/-- an upper bound on the work steps left until the task ends, once it is in the handler -/
def todo (st : St) : Nat :=
  match st.outer with
  | .handler => if isSafe st.inner then innerTodo st.inner else innerTodo st.inner + 4
  | _ => 0

theorem todo_le (st : St) : todo st ≤ 11 := by
  unfold todo
  split
  · split
    · unfold innerTodo; (repeat' split) <;> omega
    · unfold innerTodo; (repeat' split) <;> omega
  · omega

/-- in the handler some step of an inner task or of the worker is always enabled: the handler
    cannot wait for the lock forever -/
theorem stop_enabled (cfg : Cfg) {st : St} (w : Shape st) (ho : st.outer = .handler) :
    ∃ e, e.isWork = true ∧ (step cfg st e).isSome = true := by
  have hl := w.lock
  cases hin : st.inner with
  | none =>
    rw [hin] at hl
    refine ⟨.hStart, rfl, ?_⟩
    simp only [step, ho, hin]
    simp at hl
    rw [hl]
    simp
    split <;> simp
  | some i =>
    rw [hin] at hl
    have hwf := w.wf _ hin
    cases i with
    | wantLock sec =>
      refine ⟨.innerStart, rfl, ?_⟩
      simp [Inner.holds] at hl
      simp only [step, hl, hin]
      cases sec <;> simp_all [InnerWf]
    | job sec j => exact ⟨.jobEnd 0, rfl, by simp [step, hin]⟩
    | jobDone sec j err => exact ⟨.deliver, rfl, by simp [step, hin]⟩

theorem todo_handler_pos {st : St} (ho : st.outer = .handler) (w : Shape st) : 0 < todo st := by
  unfold todo
  rw [ho]
  simp only
  split
  · rename_i hs
    cases hin : st.inner with
    | none => rw [hin] at hs; simp [isSafe] at hs
    | some i =>
      have hwf := w.wf _ hin
      rw [hin] at hs
      cases i with
      | wantLock sec => simp [innerTodo]
      | job sec j => unfold innerTodo; split <;> simp_all
      | jobDone sec j e => unfold innerTodo; split <;> simp_all
  · omega

/-- every step of an inner task or the worker in the handler strictly decreases the bound -/
theorem stop_decreases {cfg : Cfg} {st st' : St} {e : Ev} (w : Shape st) (ho : st.outer = .handler)
    (hw : e.isWork = true) (h : step cfg st e = some st') : todo st' < todo st := by
  have hpos := todo_handler_pos ho w
  cases e <;> simp [Ev.isWork] at hw <;> simp only [step] at h
  case innerStart =>
    split at h
    · simp at h
    · split at h <;> simp at h <;> subst h <;> rename_i hin <;>
        simp [todo, ho, hin, isSafe, Inner.sec, innerTodo]
  case hStart =>
    split at h
    · simp at h
    · split at h
      · rename_i hin
        split at h <;> simp at h <;> subst h
        · simp [todo, ho, hin, isSafe, Inner.sec, innerTodo]
        · simp only [todo] at hpos ⊢; simpa using hpos
      · simp at h
  case jobEnd d =>
    split at h <;> simp at h
    subst h
    rename_i sec j hin
    obtain ⟨⟨e, he⟩, hout, -⟩ := runJob_ctl cfg st sec j d
    unfold todo
    rw [hout, ho, he, hin]
    simp only [isSafe, Inner.sec]
    by_cases hs : sec = .safe <;> cases j <;> simp [hs, innerTodo]
  case deliver =>
    split at h <;> simp at h
    subst h
    rename_i sec j err hin
    by_cases hs : sec = .safe
    · subst hs
      rw [continueSec_safe]
      have : (finish st .safe err).outer ≠ .handler := by
        unfold finish; cases err <;> simp
      unfold todo at hpos ⊢
      split
      · rename_i hh; exact absurd hh this
      · exact hpos
    · obtain ⟨hout, hinn⟩ := continueSec_handler ho hs j err
      have hwf : JobFor sec j := w.wf _ hin
      unfold todo
      rw [hout, ho, hin]
      simp only [isSafe, Inner.sec, hs, decide_false]
      rcases hinn with hinn | ⟨a, hinn⟩
      · rw [hinn]
        simp only [isSafe, innerTodo]
        cases j <;> simp [innerTodo]
      · rw [hinn]
        simp only [isSafe, Inner.sec, hs, decide_false]
        -- the section goes on with its flush: it was an advance job that was delivered
        have hj : ∃ b, j = .adv b := by
          have hc : (continueSec st sec j err).inner = some (.job sec (.flush a)) := hinn
          unfold continueSec at hc
          split at hc
          · rw [finish_inner] at hc; simp at hc
          · split at hc
            · exact ⟨_, rfl⟩
            · rw [finish_inner] at hc; simp at hc
        obtain ⟨b, rfl⟩ := hj
        simp [innerTodo]

/-- after the request, the environment's events leave the bound alone, and a step of an inner task
    or the worker is possible only in the handler -/
theorem stop_other {cfg : Cfg} {st st' : St} {e : Ev} (w : Shape st) (hc : st.cancelled = true)
    (h : step cfg st e = some st') :
    (e.isWork = true → st.outer = .handler) ∧ (e.isWork = false → todo st' = todo st) := by
  have w3 := w.outer
  rcases w.canc2 hc with ho | ho | ho
  · refine ⟨fun _ => ho, ?_⟩
    intro hw
    cases e <;> simp [Ev.isWork] at hw <;> simp only [step] at h
    case pressure a => simp at h; subst h; rfl
    case forceReorg n => split at h <;> simp at h; subst h; rfl
    all_goals (repeat' split at h) <;> simp_all
  all_goals
    rw [ho] at w3
    simp only at w3
    constructor
    · intro hw
      cases e <;> simp [Ev.isWork] at hw <;> simp only [step] at h <;>
        (repeat' split at h) <;> simp_all
    · intro hw
      cases e <;> simp [Ev.isWork] at hw <;> simp only [step] at h
      case pressure a => simp at h; subst h; rfl
      case forceReorg n => split at h <;> simp at h; subst h; rfl
      all_goals (repeat' split at h) <;> simp_all

/-- number of steps of the inner tasks and the worker in an event sequence -/
def workCount (evs : List Ev) : Nat := (evs.filter Ev.isWork).length

/-- **bounded**: from any state after the request, every continuation contains at most `todo st`
    (≤ 11) steps of the inner tasks and the worker -/
theorem stop_bound {cfg : Cfg} (evs : List Ev) :
    ∀ {st st' : St}, Shape st → st.cancelled = true → run cfg st evs = some st' →
      workCount evs + todo st' ≤ todo st := by
  induction evs with
  | nil => intro st st' _ _ h; simp [run] at h; subst h; simp [workCount]
  | cons e r ih =>
    intro st st' w hc h
    simp only [run] at h
    cases hs : step cfg st e with
    | none => rw [hs] at h; simp at h
    | some s1 =>
      rw [hs] at h
      have w1 := shape_step w hs
      have hc1 : s1.cancelled = true := by
        by_cases hce : e = .cancel
        · subst hce; simp [step, hc] at hs
        · rw [(step_ghost hs hce).1]; exact hc
      have := ih w1 hc1 h
      obtain ⟨o1, o2⟩ := stop_other w hc hs
      cases hw : e.isWork with
      | true =>
        have := stop_decreases w (o1 hw) hw hs
        simp only [workCount, List.filter_cons, hw, if_true, List.length_cons] at *
        omega
      | false =>
        have := o2 hw
        simp only [workCount, List.filter_cons, hw] at *
        simp at *
        omega

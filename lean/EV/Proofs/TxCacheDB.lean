import EV.Model.TxCache

/-!
C11 (transaction proofs) / C10 (by-height answers): the DB side of `EV.TxCache`.

`DBInv`: `tx_counts`, the hashes file and the headers file are consistent with the ghost block list
`disk` (what `flush_fs` wrote and no back-out removed) and the unflushed blocks of the block
processor, in every phase of a flush and of a back-out.  Consequence (`readTx_got`, `readHdr_got`):
whatever a worker-thread read returns *is* the tx-hash list / header of the block at that height on
the chain visible at that moment — provided the read is bounded by `DB.state.height`.
-/
namespace EV.TxCache

variable {Node : Type}

/-- number of tx hashes of a list of blocks -/
def total (l : List (Block Node)) : Nat := (l.flatMap (·.txs)).length

@[simp] theorem total_nil : total ([] : List (Block Node)) = 0 := rfl

theorem total_cons (b : Block Node) (l : List (Block Node)) : total (b :: l) = b.txs.length + total l := by
  simp [total]

theorem total_append (l m : List (Block Node)) : total (l ++ m) = total l + total m := by
  simp [total]

theorem cumFrom_length (a : Nat) (l : List (Block Node)) : (cumFrom a l).length = l.length := by
  induction l generalizing a with
  | nil => rfl
  | cons b l ih => simp [cumFrom, ih]

theorem cumFrom_getElem? (a : Nat) (l : List (Block Node)) (i : Nat) (hi : i < l.length) :
    (cumFrom a l)[i]? = some (a + total (l.take (i + 1))) := by
  induction l generalizing a i with
  | nil => simp at hi
  | cons b l ih =>
    cases i with
    | zero => simp [cumFrom, total]
    | succ i =>
      simp only [List.length_cons, Nat.add_lt_add_iff_right] at hi
      simp only [cumFrom, List.getElem?_cons_succ, List.take_succ_cons, total_cons]
      rw [ih _ _ hi]
      simp only [Option.some.injEq]
      omega

theorem cumFrom_append (a : Nat) (l : List (Block Node)) (b : Block Node) :
    cumFrom a (l ++ [b]) = cumFrom a l ++ [(cumFrom a l).getLastD a + b.txs.length] := by
  induction l generalizing a with
  | nil => simp [cumFrom]
  | cons c l ih => simp only [List.cons_append, cumFrom, ih, List.getLastD_cons]

theorem cumFrom_dropLast (a : Nat) (l : List (Block Node)) :
    cumFrom a l.dropLast = (cumFrom a l).dropLast := by
  induction l generalizing a with
  | nil => rfl
  | cons c l ih =>
    cases l with
    | nil => rfl
    | cons d l => simp only [List.dropLast_cons_cons, cumFrom] at ih ⊢; rw [ih]

theorem total_take_succ (l : List (Block Node)) (h : Nat) (hh : h < l.length) :
    total (l.take (h + 1)) = total (l.take h) + l[h].txs.length := by
  rw [List.take_succ_eq_append_getElem hh, total_append]
  simp [total]

/-- the slice of the hashes file that `tx_counts` delimits for height `h` is the block's list -/
theorem file_slice (l : List (Block Node)) (G : List Node) (h : Nat) (hh : h < l.length) :
    ((l.flatMap (·.txs) ++ G).drop (total (l.take h))).take l[h].txs.length = l[h].txs := by
  induction l generalizing h with
  | nil => simp at hh
  | cons b l ih =>
    cases h with
    | zero =>
      simp only [List.take_zero, total_nil, List.drop_zero, List.flatMap_cons, List.getElem_cons_zero,
        List.append_assoc]
      rw [List.take_left']
      rfl
    | succ h =>
      simp only [List.length_cons, Nat.add_lt_add_iff_right] at hh
      simp only [List.take_succ_cons, total_cons, List.flatMap_cons, List.getElem_cons_succ, List.append_assoc]
      rw [← List.drop_drop, List.drop_left]
      exact ih h hh

structure DBInv (s : St Node) : Prop where
  tc : s.txCounts = cumFrom 0 (match s.bp with
                               | .backing _ true => s.disk.dropLast
                               | _ => s.disk ++ s.unfl)
  len : s.disk.length = s.fsN
  vis : s.vis ≤ s.fsN
  file : s.disk.flatMap (·.txs) <+: s.file
  hdrs : s.disk.map (·.hdr) <+: s.hdrs
  busy : s.bp ≠ .idle → s.unfl = [] ∧ s.vis = s.fsN
  left : ∀ n p, s.bp = .backing n p → n < s.vis

theorem visible_length {s : St Node} (h : DBInv s) : (visible s).length = s.vis := by
  simp only [visible, List.length_take, h.len]
  have := h.vis
  omega

theorem visible_getElem? {s : St Node} (_h : DBInv s) (k : Nat) (hk : k < s.vis) :
    (visible s)[k]? = s.disk[k]? := by
  simp only [visible, List.getElem?_take, hk, if_true]

/-- `tx_counts` is the running total of a block list that agrees with `disk` on the visible heights -/
theorem counted {s : St Node} (hinv : DBInv s) :
    ∃ D : List (Block Node), s.txCounts = cumFrom 0 D ∧
      ∀ k, k < D.length → k < s.vis → D.take (k + 1) = s.disk.take (k + 1) := by
  have hlen := hinv.len
  have hvis := hinv.vis
  have htc := hinv.tc
  cases hbp : s.bp with
  | idle =>
    simp only [hbp] at htc
    exact ⟨_, htc, fun k _ hv => by rw [List.take_append_of_le_length (by omega)]⟩
  | backing n p =>
    cases p with
    | false =>
      simp only [hbp] at htc
      exact ⟨_, htc, fun k _ hv => by rw [List.take_append_of_le_length (by omega)]⟩
    | true =>
      simp only [hbp] at htc
      refine ⟨_, htc, fun k hk _ => ?_⟩
      rw [List.dropLast_eq_take, List.length_take] at hk
      rw [List.dropLast_eq_take, List.take_take]
      congr 1
      omega

/-- **a tx-hash read bounded by `DB.state.height` returns the visible chain's block** -/
theorem readTx_got {s : St Node} (cfg : Cfg) (hb : cfg.stateBound = true) (hinv : DBInv s) (h : Nat)
    (L : List Node) (hr : readTx cfg s h = .got L) :
    ∃ b, (visible s)[h]? = some b ∧ L = b.txs := by
  unfold readTx at hr
  rw [hb] at hr
  simp only [if_true] at hr
  split at hr
  · cases hr
  · rename_i hlt
    have hv : h < s.vis := by omega
    split at hr
    · rename_i first last hf hl
      obtain ⟨hk, _⟩ := List.getElem?_eq_some_iff.mp hl
      obtain ⟨D, hD, hDall⟩ := counted hinv
      have hDl : h < D.length := by rw [hD, cumFrom_length] at hk; exact hk
      have hDt := hDall h hDl hv
      have hdl : h < s.disk.length := by have := hinv.len; have := hinv.vis; omega
      have hDh : D.take h = s.disk.take h := by
        have := congrArg (List.take h) hDt
        rwa [List.take_take, List.take_take, Nat.min_eq_left (by omega)] at this
      have hlast : last = total (s.disk.take (h + 1)) := by
        rw [hD, cumFrom_getElem? 0 D h hDl, hDt] at hl
        simp only [Option.some.injEq] at hl
        omega
      have hfirst : first = total (s.disk.take h) := by
        by_cases h0 : h = 0
        · subst h0
          simp only [if_true, Option.some.injEq] at hf
          simp [← hf]
        · simp only [h0, if_false] at hf
          have : h - 1 < D.length := by omega
          rw [hD, cumFrom_getElem? 0 D (h - 1) this] at hf
          simp only [Option.some.injEq] at hf
          have e : h - 1 + 1 = h := by omega
          rw [e, hDh] at hf
          omega
      have hn : last - first = s.disk[h].txs.length := by
        rw [hlast, hfirst, total_take_succ _ _ hdl]; omega
      obtain ⟨G, hG⟩ := hinv.file
      have hslice := file_slice s.disk G h hdl
      rw [hG, ← hfirst, ← hn] at hslice
      split at hr
      · injection hr with hr
        refine ⟨s.disk[h], ?_, ?_⟩
        · rw [visible_getElem? hinv h hv, List.getElem?_eq_getElem hdl]
        · rw [← hr, hslice]
      · cases hr
    · cases hr

/-- **a header read returns the visible chain's header** -/
theorem readHdr_got {s : St Node} (hinv : DBInv s) (h : Nat) (hd : Hdr Node)
    (hr : readHdr s h = .got hd) : ∃ b, (visible s)[h]? = some b ∧ b.hdr = hd := by
  unfold readHdr at hr
  split at hr
  · rename_i hv
    have hdl : h < s.disk.length := by have := hinv.len; have := hinv.vis; omega
    split at hr
    · rename_i x hx
      injection hr with hr
      subst hr
      refine ⟨s.disk[h], ?_, ?_⟩
      · rw [visible_getElem? hinv h hv, List.getElem?_eq_getElem hdl]
      · obtain ⟨G, hG⟩ := hinv.hdrs
        rw [← hG, List.getElem?_append_left (by simpa using hdl)] at hx
        simpa [List.getElem?_map, List.getElem?_eq_getElem hdl] using hx
    · cases hr
  · cases hr

/-- a read beyond `DB.state.height` is refused (both kinds) -/
theorem read_beyond (cfg : Cfg) (hb : cfg.stateBound = true) (s : St Node) (h : Nat) (hv : s.vis ≤ h) :
    readTx cfg s h = .dbError ∧ readHdr s h = .outOfRange := by
  constructor
  · simp [readTx, hb, hv]
  · unfold readHdr
    rw [if_neg (by omega)]



/-! ### every event preserves `DBInv` (every variant of the code) -/

theorem writeAt_prefix {α : Type} (X G d : List α) :
    writeAt (X ++ G) X.length d = X ++ d ++ G.drop d.length := by
  simp only [writeAt, List.take_left', List.drop_append]
  congr 1
  rw [List.drop_eq_nil_of_le (by omega), List.nil_append]
  congr 1
  omega

theorem flatMap_prefix {α β : Type} (f : α → List β) {l m : List α} (h : l <+: m) :
    l.flatMap f <+: m.flatMap f := by
  obtain ⟨t, rfl⟩ := h
  rw [List.flatMap_append]
  exact List.prefix_append _ _

theorem map_prefix {α β : Type} (f : α → β) {l m : List α} (h : l <+: m) : l.map f <+: m.map f := by
  obtain ⟨t, rfl⟩ := h
  rw [List.map_append]
  exact List.prefix_append _ _

/-- `prior_tx_count = self.tx_counts[self.fs_height] if self.fs_height >= 0 else 0` is the number of
    hashes of the blocks on disk -/
theorem prior_eq {s : St Node} (hinv : DBInv s) (hidle : s.bp = .idle) :
    (if s.fsN = 0 then 0 else s.txCounts.getD (s.fsN - 1) 0) = (s.disk.flatMap (·.txs)).length := by
  have hlen := hinv.len
  have htc := hinv.tc
  simp only [hidle] at htc
  split
  · rename_i h0
    have : s.disk = [] := List.eq_nil_of_length_eq_zero (by omega)
    rw [this]; rfl
  · rename_i h0
    have hk : s.fsN - 1 < (s.disk ++ s.unfl).length := by rw [List.length_append]; omega
    rw [List.getD_eq_getElem?_getD, htc, cumFrom_getElem? 0 _ _ hk]
    have e : s.fsN - 1 + 1 = s.disk.length := by omega
    rw [e, List.take_left' rfl]
    simp [total]

variable [DecidableEq Node] (H : Node → Node → Node)

theorem dbInv_step (cfg : Cfg) (s : St Node) (ev : Ev Node) (hinv : DBInv s) :
    DBInv (step H cfg s ev) := by
  have hlen := hinv.len
  have hvis := hinv.vis
  cases ev with
  | start k h => exact ⟨hinv.tc, hinv.len, hinv.vis, hinv.file, hinv.hdrs, hinv.busy, hinv.left⟩
  | perform i =>
    simp only [step]
    split
    · exact hinv
    · exact ⟨hinv.tc, hinv.len, hinv.vis, hinv.file, hinv.hdrs, hinv.busy, hinv.left⟩
  | deliver i =>
    simp only [step]
    split
    · exact hinv
    · exact ⟨hinv.tc, hinv.len, hinv.vis, hinv.file, hinv.hdrs, hinv.busy, hinv.left⟩
  | evictTx h => exact ⟨hinv.tc, hinv.len, hinv.vis, hinv.file, hinv.hdrs, hinv.busy, hinv.left⟩
  | evictMc h => exact ⟨hinv.tc, hinv.len, hinv.vis, hinv.file, hinv.hdrs, hinv.busy, hinv.left⟩
  | advance b =>
    simp only [step]
    split
    · rename_i hg
      have htc := hinv.tc
      simp only [hg.1] at htc
      refine ⟨?_, hinv.len, hinv.vis, hinv.file, hinv.hdrs, fun h => absurd hg.1 h, hinv.left⟩
      simp only [hg.1]
      rw [← List.append_assoc, cumFrom_append, ← htc]
    · exact hinv
  | flushFs =>
    simp only [step]
    split
    · rename_i hg
      have htc := hinv.tc
      simp only [hg.1] at htc
      obtain ⟨G, hG⟩ := hinv.file
      obtain ⟨G2, hG2⟩ := hinv.hdrs
      refine ⟨?_, ?_, ?_, ?_, ?_, fun h => absurd hg.1 h, hinv.left⟩
      · simp only [hg.1, List.append_nil]; exact htc
      · simp only [List.length_append]; omega
      · show s.vis ≤ s.fsN + s.unfl.length
        omega
      · show (s.disk ++ s.unfl).flatMap (·.txs) <+: writeAt s.file _ _
        rw [prior_eq hinv hg.1, ← hG, writeAt_prefix, List.flatMap_append]
        exact List.prefix_append _ _
      · show (s.disk ++ s.unfl).map (·.hdr) <+: writeAt s.hdrs s.fsN _
        have e : s.fsN = (s.disk.map (·.hdr)).length := by rw [List.length_map]; omega
        rw [e, ← hG2, writeAt_prefix, List.map_append]
        exact List.prefix_append _ _
    · exact hinv
  | flushSt =>
    simp only [step]
    split
    · exact ⟨hinv.tc, hinv.len, Nat.le_refl _, hinv.file, hinv.hdrs, fun h => ⟨(hinv.busy h).1, rfl⟩,
        fun n p h => by have := hinv.left n p h; show n < s.fsN; omega⟩
    · exact hinv
  | reorgStart n =>
    simp only [step]
    split
    · rename_i hg
      have htc := hinv.tc
      simp only [hg.1] at htc
      refine ⟨htc, hinv.len, hinv.vis, hinv.file, hinv.hdrs, fun _ => ⟨hg.2.1, hg.2.2.1⟩, ?_⟩
      intro n' p h
      injection h with h1 h2
      subst h1
      exact hg.2.2.2.2
    · exact hinv
  | boPop =>
    simp only [step]
    split
    · rename_i n hbp
      have htc := hinv.tc
      have hb := hinv.busy (by rw [hbp]; exact fun h => by cases h)
      simp only [hbp, hb.1, List.append_nil] at htc
      refine ⟨?_, hinv.len, hinv.vis, hinv.file, hinv.hdrs, fun _ => hb, ?_⟩
      · show s.txCounts.dropLast = cumFrom 0 s.disk.dropLast
        rw [cumFrom_dropLast, htc]
      · intro n' p h
        injection h with h1 h2
        subst h1
        exact hinv.left _ _ hbp
    · exact hinv
  | boLower =>
    simp only [step]
    split
    · rename_i n hbp
      have htc := hinv.tc
      have hb := hinv.busy (by rw [hbp]; exact fun h => by cases h)
      have hl := hinv.left _ _ hbp
      simp only [hbp] at htc
      refine ⟨?_, ?_, ?_, ?_, ?_, fun _ => ⟨hb.1, ?_⟩, ?_⟩
      · show s.txCounts = cumFrom 0 (s.disk.dropLast ++ s.unfl)
        rw [hb.1, List.append_nil]; exact htc
      · show s.disk.dropLast.length = s.fsN - 1
        rw [List.length_dropLast]; omega
      · show s.vis - 1 ≤ s.fsN - 1
        omega
      · exact (flatMap_prefix _ (List.dropLast_prefix _)).trans hinv.file
      · exact (map_prefix _ (List.dropLast_prefix _)).trans hinv.hdrs
      · show s.vis - 1 = s.fsN - 1
        omega
      · intro n' p h
        cases h
        show n < s.vis - 1
        omega
    · exact hinv
  | reorgEnd =>
    simp only [step]
    split
    · rename_i k hbp
      have htc := hinv.tc
      simp only [hbp] at htc
      exact ⟨htc, hinv.len, hinv.vis, hinv.file, hinv.hdrs, fun h => absurd rfl h, fun n p h => by cases h⟩
    · exact hinv
  | handler =>
    simp only [step]
    split
    · exact ⟨hinv.tc, hinv.len, hinv.vis, hinv.file, hinv.hdrs, hinv.busy, hinv.left⟩
    · exact hinv

omit [DecidableEq Node] in
/-- a caught-up server over any chain satisfies the DB invariant -/
theorem dbInv_ofChain (ch : List (Block Node)) : DBInv (St.ofChain ch) :=
  ⟨by simp [St.ofChain], rfl, Nat.le_refl _, List.prefix_refl _, List.prefix_refl _,
    fun h => absurd rfl h, fun n p h => by cases h⟩

end EV.TxCache

import EV.Proofs.IndexRunBackup

/-!
A restart as a step of the whole-run invariant: `_open_dbs` (`History.open_db` with `clear_excess`,
`_read_tx_counts`, `clear_excess_undo_info`) on the persistent part of ANY invariant state, all
memory dropped — a clean restart after a full flush as well as a restart (kill between operations)
that loses every block indexed since the last UTXO flush.  `_open_dbs` succeeds
(`_read_tx_counts`' assertions hold), and the result is a fully flushed invariant state of the chain
as of the last UTXO flush, `chain.take (DB.state.height + 1)`: `clear_excess` removes exactly the
history rows written after that flush, the meta files are read up to the committed lengths, and the
undo rows below `height − reorg_limit + 1` are pruned — the retained heights shrink to the committed
heights inside the window.

Not covered here: a crash INSIDE an operation (between the effects of a flush / back-out, or inside a
file write); that is the crash layer (`EV/Proofs/Crash*.lean`, C04/C05).
Core only.
-/
namespace EV.Index
open EV.Spec

/-- the retained heights after a restart with `n` blocks committed (tip height `n − 1`) -/
def keptAfterReopen (cfg : Cfg) (n : Nat) (K : List Nat) : List Nat :=
  K.filter (fun h => decide (h < n) && decide ((n : Int) - 1 - cfg.reorgLimit + 1 ≤ h))

/-- the system `_open_dbs` builds on the persistent part of `s` -/
def reopenSys (cfg : Cfg) (s : Sys) : Sys :=
  { p := openStore cfg s.p,
    m := { st := s.m.dbst, dbst := s.m.dbst, fsHeight := s.m.dbst.height,
           fsTxCount := s.m.dbst.txCount,
           txCounts := s.p.txcounts.take (s.m.dbst.height + 1).toNat,
           histFlush := s.m.dbst.flushCount, compFlush := -1, compCursor := -1 } }

theorem cumCounts_take_eq (chain : List Block) {k : Nat} (hk : k ≤ chain.length) :
    (cumCounts chain).take k = cumCounts (chain.take k) := by
  rw [cumCounts_take chain k]
  exact List.take_left' (by rw [cumCounts_length, List.length_take, Nat.min_eq_left hk])

/-- the store `_open_dbs` leaves: the history table is cut to the rows with ids up to the UTXO flush
    count, the undo table is pruned, the history flush count is the UTXO one; nothing else changes -/
theorem openStore_inv {cfg : Cfg} {chain : List Block} {K : List Nat} {s : Sys}
    (inv : FullInv' cfg chain K s) :
    s.p.ustate.getD {} = s.m.dbst ∧
    (openStore cfg s.p).h = s.p.h ∧ (openStore cfg s.p).u = s.p.u ∧
    (openStore cfg s.p).ustate = s.p.ustate ∧ (openStore cfg s.p).headers = s.p.headers ∧
    (openStore cfg s.p).txcounts = s.p.txcounts ∧ (openStore cfg s.p).hashes = s.p.hashes ∧
    (openStore cfg s.p).hist = histUpTo s.p.hist s.m.dbst.flushCount ∧
    (openStore cfg s.p).undo = undoAfterOpen s.p.undo (s.m.dbst.height - cfg.reorgLimit + 1) ∧
    ((openStore cfg s.p).hstate.getD {}).flushCount = s.m.dbst.flushCount := by
  have hus : s.p.ustate.getD {} = s.m.dbst := by
    rcases inv.base.ustate with ⟨h1, h2⟩ | h1
    · rw [h1, h2]; rfl
    · rw [h1]; rfl
  have hrest := openStore1_rest s.p
  have hfc := inv.fcLe
  have hhs := inv.hstate
  have h1 : (openStore1 s.p).hist = histUpTo s.p.hist s.m.dbst.flushCount ∧
      ((openStore1 s.p).hstate.getD {}).flushCount = s.m.dbst.flushCount := by
    by_cases hle : (s.p.hstate.getD {}).flushCount ≤ (s.p.ustate.getD {}).flushCount
    · rw [openStore1_of_le hle]
      rw [hus, hhs] at hle
      refine ⟨(histUpTo_self ?_).symm, by rw [hhs]; omega⟩
      intro e he
      have := inv.base.hist.wf.ids e he
      omega
    · rw [openStore1_of_gt (by omega), hus]
      exact ⟨rfl, rfl⟩
  rw [openStore_eq, hus]
  exact ⟨rfl, hrest.1, hrest.2.1, hrest.2.2.2.1, hrest.2.2.2.2.1, hrest.2.2.2.2.2.1,
    hrest.2.2.2.2.2.2, h1.1, rfl, h1.2⟩

/-- the committed prefix of the tx-counts file is the tx-number table of the committed chain -/
theorem txcounts_committed {chain : List Block} {s : Sys} (f : FilesInv chain s) :
    s.p.txcounts.take (s.m.dbst.height + 1).toNat =
      cumCounts (chain.take (s.m.dbst.height + 1).toNat) := by
  have hle : (s.m.dbst.height + 1).toNat ≤ (s.m.fsHeight + 1).toNat := by have := f.order; omega
  rw [take_of_take_eq f.txcountsFile hle, cumCounts_take_eq chain f.dbK]

/-- `_open_dbs` on the store of any invariant state succeeds -/
theorem openDbs_inv {cfg : Cfg} {chain : List Block} {K : List Nat} {s : Sys}
    (inv : FullInv' cfg chain K s) :
    ∃ es, openDbs cfg s.p false none = some (es, reopenSys cfg s) := by
  have f := inv.base.files
  obtain ⟨hus, -, -, -, -, htxc, -, -, -, -⟩ := openStore_inv inv
  have hge : (s.p.ustate.getD {}).flushCount ≤ (s.p.hstate.getD {}).flushCount := by
    rw [hus, inv.hstate]; exact inv.fcLe
  have hstate : openState s.p false =
      (s.m.dbst, { flushCount := s.m.dbst.flushCount, compFlushCount := -1, compCursor := -1 }) := by
    rw [openState_of_ge s.p hge, hus]
  have hdbK := f.dbK
  have htake := txcounts_committed f
  have htc : openTxCounts (openStore cfg s.p) s.m.dbst none =
      some (s.p.txcounts.take (s.m.dbst.height + 1).toNat) := by
    have hlen : (s.p.txcounts.take (s.m.dbst.height + 1).toNat).length =
        (s.m.dbst.height + 1).toNat := by
      rw [htake, cumCounts_length, List.length_take, Nat.min_eq_left hdbK]
    have hlast : (s.p.txcounts.take (s.m.dbst.height + 1).toNat).getLast?.getD 0 =
        s.m.dbst.txCount := by
      rw [htake, cumCounts_getLast, f.dbTx]
    simp only [openTxCounts, htxc, hlen, hlast, beq_self_eq_true, Bool.and_self, if_true]
  exact ⟨(clearExcessEffect s.p (s.p.hstate.getD {}) (s.p.ustate.getD {}).flushCount).toList ++
      openUndoEffects cfg (openStore1 s.p) (s.p.ustate.getD {}).height,
    by simp only [openDbs, hstate, htc, reopenSys]⟩

/-- no unflushed undo list belongs to a committed height -/
theorem undoLookup_committed {cfg : Cfg} {chain : List Block} {K : List Nat} {s : Sys}
    (inv : FullInv' cfg chain K s) {h : Nat} (hh : (h : Int) ≤ s.m.dbst.height) :
    undoLookup s h = alookup h s.p.undo := by
  have hnone : alookup h ((s.m.undoU.map (fun (ui, h) => (h, ui))).reverse) = none := by
    apply alookup_none_of_not_mem_keys
    intro hm
    simp only [List.map_reverse, List.mem_reverse, List.map_map, List.mem_map,
      Function.comp] at hm
    obtain ⟨e, he, rfl⟩ := hm
    have := inv.undoUAbove e he
    omega
  simp only [undoLookup, hnone]

/-- **A restart preserves the extended invariant — for the committed chain.**  From ANY invariant
state (flushed or not), `_open_dbs` on the persistent part (memory dropped) succeeds and yields a
fully flushed invariant state of the chain as of the last UTXO flush; the retained heights are the
previous ones that are committed and inside the window `height − reorg_limit + 1 ..` (older rows are
pruned).  On a fully flushed state (`DB.state.height = state.height`) the committed chain is the
whole chain: a clean restart loses nothing. -/
theorem fullInv'_reopen {cfg : Cfg} {chain : List Block} {K : List Nat} {s : Sys}
    (inv : FullInv' cfg chain K s) :
    ∃ es s', openDbs cfg s.p false none = some (es, s') ∧
      FullInv' cfg (chain.take (s.m.dbst.height + 1).toNat)
        (keptAfterReopen cfg (s.m.dbst.height + 1).toNat K) s' ∧
      s'.m.dbst.height = s'.m.st.height ∧ s'.m.dbst.height = s.m.dbst.height := by
  obtain ⟨es, hopen⟩ := openDbs_inv inv
  refine ⟨es, _, hopen, ?_, rfl, rfl⟩
  have base := inv.base
  have f := base.files
  have hord := f.order
  have hdbK := f.dbK
  obtain ⟨hus, hh, hu, hust, hhdr, htxc, hhsh, hhist, hundo, hhfc⟩ := openStore_inv inv
  have hlen : (chain.take (s.m.dbst.height + 1).toNat).length = (s.m.dbst.height + 1).toNat := by
    rw [List.length_take, Nat.min_eq_left hdbK]
  have htt : (chain.take (s.m.dbst.height + 1).toNat).take (s.m.dbst.height + 1).toNat =
      chain.take (s.m.dbst.height + 1).toNat := by
    rw [List.take_take, Nat.min_self]
  have hsplit : chain = chain.take (s.m.dbst.height + 1).toNat ++
      chain.drop (s.m.dbst.height + 1).toNat := (List.take_append_drop _ _).symm
  have hvalid : ValidChain cfg (chain.take (s.m.dbst.height + 1).toNat) := by
    have := inv.valid
    rw [hsplit] at this
    exact validChain_prefix this
  have hdrop : (chain.take (s.m.dbst.height + 1).toNat).drop (s.m.dbst.height + 1).toNat = [] :=
    List.drop_of_length_le (by rw [hlen]; exact Nat.le_refl _)
  have hKle : (s.m.dbst.height + 1).toNat ≤ (s.m.fsHeight + 1).toNat := by omega
  have htxle : s.m.dbst.txCount ≤ s.m.fsTxCount := by
    rw [f.dbTx, f.fsTx]; exact allTxids_take_mono chain hKle
  have hids : ∀ e ∈ (openStore cfg s.p).hist, e.1.2 ≤ s.m.dbst.flushCount := by
    intro e he
    rw [hhist] at he
    simpa [histUpTo] using (List.mem_filter.mp he).2
  -- files
  have f' : FilesInv (chain.take (s.m.dbst.height + 1).toNat) (reopenSys cfg s) := {
    txCounts := txcounts_committed f
    height := by
      show s.m.dbst.height = _
      rw [hlen]; omega
    order := ⟨hord.1, Int.le_refl _, Int.le_refl _⟩
    fsTx := by
      show s.m.dbst.txCount = _
      rw [show (reopenSys cfg s).m.fsHeight = s.m.dbst.height from rfl, htt]; exact f.dbTx
    stTx := f.dbTx
    dbTx := by
      show s.m.dbst.txCount = _
      rw [show (reopenSys cfg s).m.dbst.height = s.m.dbst.height from rfl, htt]; exact f.dbTx
    hashes := by
      show (openStore cfg s.p).hashes.take s.m.dbst.txCount =
        (allTxids (chain.take (s.m.dbst.height + 1).toNat)).take s.m.dbst.txCount
      rw [hhsh, take_of_take_eq f.hashes htxle, allTxids_split chain (s.m.dbst.height + 1).toNat,
        List.take_left' f.dbTx.symm, f.dbTx, List.take_length]
    hashesU := by
      show ([] : List (List Hash)) = ((chain.take (s.m.dbst.height + 1).toNat).drop
        (s.m.dbst.height + 1).toNat).map _
      rw [hdrop]; rfl
    headersU := by
      show ([] : List Nat) = ((chain.take (s.m.dbst.height + 1).toNat).drop
        (s.m.dbst.height + 1).toNat).map _
      rw [hdrop]; rfl
    headers := by
      show (openStore cfg s.p).headers.take (s.m.dbst.height + 1).toNat =
        ((chain.take (s.m.dbst.height + 1).toNat).take (s.m.dbst.height + 1).toNat).map (·.header)
      have fh := f.headers
      rw [List.map_take] at fh
      rw [hhdr, take_of_take_eq fh hKle, htt, List.map_take]
    txcountsFile := by
      show (openStore cfg s.p).txcounts.take (s.m.dbst.height + 1).toNat =
        (cumCounts (chain.take (s.m.dbst.height + 1).toNat)).take (s.m.dbst.height + 1).toNat
      rw [htxc, txcounts_committed f]
      exact (List.take_of_length_le (by rw [cumCounts_length, hlen]; exact Nat.le_refl _)).symm }
  -- the UTXO rows
  have hnod := specChain_nodup _ hvalid
  have hkeys : (s.p.h.map (·.1)).Nodup ∧ (s.p.u.map (·.1)).Nodup := by
    obtain ⟨D, Del, w⟩ := base.rep
    exact ⟨w.hKeys, w.uKeys⟩
  have hw' : RepSysW (reopenSys cfg s)
      (specChain cfg.act (chain.take (s.m.dbst.height + 1).toNat)).utxos
      (specChain cfg.act (chain.take (s.m.dbst.height + 1).toNat)).utxos [] := {
    uNodup := hnod
    dNodup := hnod
    hRows := by
      show ∀ e, e ∈ (openStore cfg s.p).h ↔ _
      rw [hh]; exact inv.db.rowsH
    uRows := by
      show ∀ e, e ∈ (openStore cfg s.p).u ↔ _
      rw [hu]; exact inv.db.rowsU
    hKeys := by
      show ((openStore cfg s.p).h.map (·.1)).Nodup
      rw [hh]; exact hkeys.1
    uKeys := by
      show ((openStore cfg s.p).u.map (·.1)).Nodup
      rw [hu]; exact hkeys.2
    cacheKeys := List.nodup_nil
    res := by
      intro u hu'
      have hu'' := (specOK_chain cfg.act _).utxoTx u hu'
      obtain ⟨hid, -⟩ := spec_height_eq_bisect cfg.act _ hu''
      have hlt : u.txnum < (allTxids (chain.take (s.m.dbst.height + 1).toNat)).length := by
        rw [← specChain_txs_length cfg.act]
        exact (List.getElem?_eq_some_iff.mp hu'').1
      rw [hid]
      apply resolve_of_files f'
      show u.txnum < (allTxids ((chain.take (s.m.dbst.height + 1).toNat).take
        (s.m.dbst.height + 1).toNat)).length
      rw [htt]; exact hlt
    delSub := by simp
    dels := by
      intro dk
      show dk ∈ ([] : List DelKey) ↔ _
      simp
    inU := fun u hu' => Or.inr ⟨rfl, hu', by simp⟩
    cacheU := by
      intro op cv hl
      have : alookup op ([] : List ((Hash × Nat) × CacheVal)) = some cv := hl
      simp at this
    dbU := fun u hu' _ => ⟨hu', rfl⟩ }
  -- the history
  have hhistInv : HistInv (specChain cfg.act (chain.take (s.m.dbst.height + 1).toNat))
      (openStore cfg s.p) [] s.m.dbst.flushCount := by
    refine ⟨⟨?_, hids⟩, List.nodup_nil, ?_⟩
    · rw [hhist]
      exact List.Nodup.sublist (List.Sublist.map _ List.filter_sublist) base.hist.wf.keys
    · intro hx
      simp only [unfOf, alookup_nil, Option.getD_none, List.append_nil]
      rw [← inv.db.hist hx]
      exact getTxnums_congr hhist hx none
  exact {
    base := {
      rep := ⟨_, [], hw'⟩
      hist := hhistInv
      files := f'
      tip := base.dbTip
      dbTip := by
        show s.m.dbst.tip = (((chain.take (s.m.dbst.height + 1).toNat).take
          (s.m.dbst.height + 1).toNat).getLast?.map (·.hash)).getD 0
        rw [htt]; exact base.dbTip
      utxoCount := inv.db.utxoCount
      flushedU := fun _ => ⟨rfl, rfl, rfl⟩
      flushedH := fun _ => rfl
      ustate := by
        show ((openStore cfg s.p).ustate = none ∧ s.m.dbst = {}) ∨
          (openStore cfg s.p).ustate = some s.m.dbst
        rw [hust]; exact base.ustate }
    valid := hvalid
    kBound := by
      intro h hh'
      simp only [keptAfterReopen, List.mem_filter, Bool.and_eq_true, decide_eq_true_eq] at hh'
      rw [hlen]; exact hh'.2.1
    undo := by
      intro h hh' pre b suf hc hl
      simp only [keptAfterReopen, List.mem_filter, Bool.and_eq_true, decide_eq_true_eq] at hh'
      obtain ⟨hk, hlt, hwin⟩ := hh'
      have hc' : chain = pre ++ b :: (suf ++ chain.drop (s.m.dbst.height + 1).toNat) := by
        have h1 : chain = (pre ++ b :: suf) ++ chain.drop (s.m.dbst.height + 1).toNat := by
          rw [← hc]; exact hsplit
        rw [List.append_assoc, List.cons_append] at h1
        exact h1
      rw [← inv.undo h hk pre b _ hc' hl, undoLookup_of_nil (by rfl),
        undoLookup_committed inv (by omega)]
      show alookup h (openStore cfg s.p).undo = _
      rw [hundo]
      exact alookup_undoAfterOpen _ _ _ (by omega)
    dbEq := fun _ => rfl
    hstate := hhfc
    fcLe := Nat.le_refl _
    histIds := fun _ => hids
    chainSize := inv.db.chainSize
    db := by
      show DbInv cfg ((chain.take (s.m.dbst.height + 1).toNat).take (s.m.dbst.height + 1).toNat) _
      rw [htt]
      exact dbInv_flushed hw'.hRows hw'.uRows hhistInv hids inv.db.utxoCount inv.db.chainSize
    undoUAbove := by intro e he; exact absurd he List.not_mem_nil }

end EV.Index

import EV.Proofs.ShutdownTaskInv

/-!
Task-level shutdown model: in a valid environment every job succeeds and the jobs, in the order in
which they ended, form a `ValidOps2` run.
-/
namespace EV.ShutdownTask
open EV.Index

/-- What the environment has to guarantee for one job, given the bookkeeping `t` of the jobs before
it.  For an advance: the block's transactions are valid on top of the surviving chain (that the
block links to the tip is checked by `advance_block` itself).  For a back-out: the daemon serves,
for the tip's hash, the block that was indexed under it; the tip is above height 0; its undo
information is retained (C15: reorganisations within the window).  That the index is fully flushed
at that moment is NOT assumed: it follows from the task's control flow. -/
def OkEnv (cfg : Cfg) (t : Track) : IOp2 → Prop
  | .adv b _ => EV.Index.ValidTxs cfg.act t.chain.length (EV.Spec.specChain cfg.act t.chain) b.txs
  | .backup b =>
    (match t.chain.getLast? with
     | some last => last.hash = b.hash → last = b
     | none => True) ∧
    2 ≤ t.chain.length ∧ (t.chain.length - 1) ∈ t.kept
  | _ => True

def EnvOk (cfg : Cfg) : Track → List IOp2 → Prop
  | _, [] => True
  | t, op :: r => OkEnv cfg t op ∧ EnvOk cfg (t.step cfg op) r

instance decOkEnv (cfg : Cfg) (t : Track) : ∀ op, Decidable (OkEnv cfg t op)
  | .adv _ _ => by unfold OkEnv; exact inferInstance
  | .flush _ => isTrue trivial
  | .backup b => by
    unfold OkEnv
    cases t.chain.getLast? <;> exact inferInstance
  | .reopen => isTrue trivial

instance decEnvOk (cfg : Cfg) : ∀ (t : Track) (ops : List IOp2), Decidable (EnvOk cfg t ops)
  | _, [] => isTrue trivial
  | t, op :: r =>
    have := decEnvOk cfg (t.step cfg op) r
    by unfold EnvOk; exact inferInstance

theorem envOk_append (cfg : Cfg) (t : Track) (a b : List IOp2) :
    EnvOk cfg t (a ++ b) ↔ EnvOk cfg t a ∧ EnvOk cfg (t.run cfg a) b := by
  induction a generalizing t with
  | nil => simp [EnvOk, Track.run]
  | cons op r ih => simp only [List.cons_append, EnvOk, Track.run_cons, ih, and_assoc]

/-- the attempted operations a job end adds to the log -/
def jobOps (st : St) (j : JobK) (dH : Int) : List IOp2 :=
  match j with
  | .adv b => if b.prev ≠ st.sys.m.st.tip then [] else [.adv b dH]
  | .flush a => [.flush a]
  | .backup b => [.backup b]

theorem att_runJob (cfg : Cfg) (st : St) (sec : Sec) (j : JobK) (dH : Int) :
    att (runJob cfg st sec j dH).log = att st.log ++ jobOps st j dH := by
  unfold runJob jobOps
  cases j with
  | adv b =>
    simp only
    split
    · simp
    · split <;> simp [att_append, Op.to2]
  | flush a => simp only; split <;> simp [att_append, Op.to2]
  | backup b => simp only; split <;> simp [att_append, Op.to2]

/-- what holds of a state all of whose jobs were admissible -/
structure Good (cfg : Cfg) (st : St) : Prop where
  valid : ValidOps2 cfg {} (att st.log)
  allOk : ∀ e ∈ st.log, e.2 = true
  ok : st.ok = true
  noErrI : ∀ sec j e, st.inner ≠ some (.jobDone sec j (some e))
  noErrO : ∀ p e, st.outer ≠ .secReady p (some e)
  died : st.outer = .died → st.log = []
  startLog : st.outer = .start → st.log = []

theorem good_init (cfg : Cfg) : Good cfg {} :=
  ⟨trivial, by simp, rfl, by simp, by simp, by simp, by simp⟩

/-- the index state is the one the whole-run theorem speaks about -/
theorem trackInv_of_good {cfg : Cfg} {st : St} (i : Inv1 cfg st) (g : Good cfg st) :
    TrackInv cfg (Track.run cfg {} (att st.log)) st.sys := by
  obtain ⟨s', h1, ti⟩ := trackInv_run (att st.log) (trackInv_init cfg) g.valid
  have hq : runOps2 cfg {} (att st.log) = .ok st.sys := by
    rw [← okOps_eq_att g.allOk]; exact i.seq
  rw [hq] at h1
  cases h1
  exact ti

theorem good_snoc {cfg : Cfg} {st st' : St} (g : Good cfg st) {op : Op}
    (hok : OkOp cfg (Track.run cfg {} (att st.log)) op.to2)
    (hlog : st'.log = st.log ++ [(op, true)]) (hokf : st'.ok = st.ok)
    (hout : st'.outer = st.outer) {sec : Sec} {j : JobK} (hin : st'.inner = some (.jobDone sec j none))
    (hne : st.outer ≠ .died ∧ st.outer ≠ .start) : Good cfg st' := by
  refine ⟨?_, ?_, ?_, ?_, ?_, ?_, ?_⟩
  · rw [hlog, att_append, att_single]
    exact (validOps2_append cfg {} _ _).mpr ⟨g.valid, hok, trivial⟩
  · intro e he
    rw [hlog] at he
    rcases List.mem_append.mp he with he | he
    · exact g.allOk e he
    · simp at he; subst he; rfl
  · rw [hokf]; exact g.ok
  · intro sec' j' e; rw [hin]; simp
  · rw [hout]; exact g.noErrO
  · rw [hout]; intro h; exact absurd h hne.1
  · rw [hout]; intro h; exact absurd h hne.2

/-- with a job in flight the task is past its start and has not died -/
theorem outer_of_job {st : St} (w : Shape st) {i : Inner} (hin : st.inner = some i) :
    st.outer ≠ .died ∧ st.outer ≠ .start := by
  have w3 := w.outer
  constructor <;> intro h <;> rw [h] at w3 <;> simp [hin] at w3

theorem good_runJob {cfg : Cfg} {st : St} (i : Inv1 cfg st) (g : Good cfg st) {sec : Sec} {j : JobK}
    (hin : st.inner = some (.job sec j)) (dH : Int)
    (henv : EnvOk cfg (Track.run cfg {} (att st.log)) (jobOps st j dH)) :
    Good cfg (runJob cfg st sec j dH) := by
  have ti := trackInv_of_good i g
  have hne := outer_of_job i.shape hin
  have hj : JobFor sec j := i.shape.wf _ hin
  unfold runJob
  unfold jobOps at henv
  cases j with
  | adv b =>
    simp only at henv ⊢
    split
    · -- the block does not connect: nothing happened
      refine ⟨g.valid, g.allOk, g.ok, ?_, g.noErrO, g.died, g.startLog⟩
      intro sec' j' e; simp
    · rename_i hprev
      rw [if_neg hprev] at henv
      have hok : OkOp cfg (Track.run cfg {} (att st.log)) (.adv b dH) := by
        refine ⟨?_, henv.1⟩
        rw [← ti.inv.base.tip]
        exact Decidable.of_not_not hprev
      obtain ⟨s1, h1, -⟩ := trackInv_step ti (.adv b dH) hok
      simp only [stepOp2] at h1
      rw [h1]
      exact good_snoc (op := .adv b dH) g hok rfl rfl rfl rfl hne
  | flush a =>
    simp only
    obtain ⟨s1, h1, -⟩ := trackInv_step ti (.flush a) trivial
    simp only [stepOp2] at h1
    rw [h1]
    exact good_snoc (op := .flush a) g trivial rfl rfl rfl rfl hne
  | backup b =>
    simp only at henv ⊢
    have hsec := jobFor_backup hj
    subst hsec
    have hfl : Fl (Track.run cfg {} (att st.log)) := by
      rw [← okOps_eq_att g.allOk]
      apply i.fl
      simp [hin, innerFl]
    have htip : b.hash = st.sys.m.st.tip := i.tip b (Or.inr hin)
    obtain ⟨⟨hdet, hlen, hkept⟩, -⟩ := henv
    have hok : OkOp cfg (Track.run cfg {} (att st.log)) (.backup b) := by
      apply backupOk_iff.mpr
      refine ⟨hfl, ?_, hlen, hkept⟩
      cases hl : (Track.run cfg {} (att st.log)).chain.getLast? with
      | none =>
        rw [List.getLast?_eq_none_iff] at hl
        rw [hl] at hlen; simp at hlen
      | some last =>
        have h2 := ti.inv.base.tip
        rw [hl] at h2 hdet
        simp at h2 hdet
        rw [hdet (by rw [htip, h2])]
    obtain ⟨s1, h1, -⟩ := trackInv_step ti (.backup b) hok
    simp only [stepOp2] at h1
    rw [h1]
    exact good_snoc (op := .backup b) g hok rfl rfl rfl rfl hne

theorem finish_none_outer (st : St) (sec : Sec) :
    (finish st sec none).outer = .returned ∨ (∃ p, (finish st sec none).outer = .secReady p none) ∨
      (finish st sec none).outer = st.outer := by
  unfold finish
  cases sec <;> simp <;> (split <;> simp)

/-- a section whose job succeeded ends, or goes on with its flush, without failure -/
theorem continueSec_none (st : St) (sec : Sec) (j : JobK) :
    ((continueSec st sec j none).inner = none ∨ ∃ a, (continueSec st sec j none).inner = some (.job sec (.flush a))) ∧
    ((continueSec st sec j none).outer = .returned ∨
      (∃ p, (continueSec st sec j none).outer = .secReady p none) ∨
      (continueSec st sec j none).outer = st.outer) := by
  unfold continueSec
  split
  · rename_i h; simp at h
  · split
    · split
      · simp
      · exact ⟨Or.inl (finish_inner _ _ _), finish_none_outer _ _⟩
    · exact ⟨Or.inl (finish_inner _ _ _), finish_none_outer _ _⟩

/-- control-flow part of `Good`: no event other than a job end introduces a failure -/
theorem good_ctl {cfg : Cfg} {st st' : St} {e : Ev} (w : Shape st)
    (g4 : ∀ sec j e, st.inner ≠ some (.jobDone sec j (some e)))
    (g5 : ∀ p e, st.outer ≠ .secReady p (some e))
    (g6 : st.outer = .died → st.log = []) (g7 : st.outer = .start → st.log = [])
    (h : step cfg st e = some st') (hne : ∀ d, e ≠ .jobEnd d) :
    (∀ sec j e, st'.inner ≠ some (.jobDone sec j (some e))) ∧
    (∀ p e, st'.outer ≠ .secReady p (some e)) ∧
    (st'.outer = .died → st.log = []) ∧ (st'.outer = .start → st.log = []) := by
  have w3 := w.outer
  cases e <;> simp only [step] at h
  case jobEnd d => exact absurd rfl (hne d)
  case deliver =>
    split at h <;> simp at h
    subst h
    rename_i sec j err hin
    cases err with
    | some e0 => exact absurd hin (g4 sec j e0)
    | none =>
      have hns := outer_of_job w hin
      obtain ⟨hi, ho⟩ := continueSec_none st sec j
      refine ⟨?_, ?_, ?_, ?_⟩
      · intro sec' j' e'
        rcases hi with hi | ⟨a, hi⟩ <;> rw [hi] <;> simp
      · intro p e'
        rcases ho with ho | ⟨p', ho⟩ | ho <;> rw [ho]
        · simp
        · simp
        · exact g5 p e'
      · intro hd
        rcases ho with ho | ⟨p', ho⟩ | ho <;> rw [ho] at hd
        · simp at hd
        · simp at hd
        · exact absurd hd hns.1
      · intro hd
        rcases ho with ho | ⟨p', ho⟩ | ho <;> rw [ho] at hd
        · simp at hd
        · simp at hd
        · exact absurd hd hns.2
  all_goals
    (repeat' split at h) <;> simp_all <;> (try subst h) <;> (try unfold afterBody) <;>
      (try (repeat' split)) <;> simp_all

theorem good_frame {cfg : Cfg} {st st' : St} {e : Ev} (w : Shape st) (g : Good cfg st)
    (h : step cfg st e = some st') (hne : ∀ d, e ≠ .jobEnd d) : Good cfg st' := by
  obtain ⟨h1, h2, h3⟩ := step_frame h hne
  obtain ⟨c1, c2, c3, c4⟩ := good_ctl w g.noErrI g.noErrO g.died g.startLog h hne
  exact ⟨by rw [h2]; exact g.valid, by rw [h2]; exact g.allOk, by rw [h3]; exact g.ok, c1, c2,
    by rw [h2]; exact c3, by rw [h2]; exact c4⟩

/-- `Good` relative to the environment: if every job so far was admissible -/
def GoodIf (cfg : Cfg) (st : St) : Prop := EnvOk cfg {} (att st.log) → Good cfg st

theorem goodIf_step {cfg : Cfg} {st st' : St} {e : Ev} (i : Inv1 cfg st) (v : GoodIf cfg st)
    (h : step cfg st e = some st') : GoodIf cfg st' := by
  intro henv
  by_cases hj : ∃ d, e = .jobEnd d
  · obtain ⟨d, rfl⟩ := hj
    simp only [step] at h
    split at h <;> simp at h
    subst h
    rename_i sec j hin
    rw [att_runJob, envOk_append] at henv
    exact good_runJob i (v henv.1) hin d henv.2
  · have hne : ∀ d, e ≠ .jobEnd d := by intro d hd; exact hj ⟨d, hd⟩
    obtain ⟨-, h2, -⟩ := step_frame h hne
    rw [h2] at henv
    exact good_frame i.shape (v henv) h hne

/-- **In a valid environment every reachable state is good**: the jobs that ended form a
`ValidOps2` run, none of them raised, `ok` holds, the task has not failed. -/
theorem good_run {cfg : Cfg} {evs : List Ev} {st : St} (h : run cfg {} evs = some st)
    (henv : EnvOk cfg {} (att st.log)) : Inv1 cfg st ∧ Good cfg st := by
  have := run_induct (P := fun s => Inv1 cfg s ∧ GoodIf cfg s) (cfg := cfg)
    ⟨inv1_init cfg, fun _ => good_init cfg⟩
    (fun _ _ _ p hs => ⟨inv1_step p.1 hs, goodIf_step p.1 p.2 hs⟩) evs st h
  exact ⟨this.1, this.2 henv⟩

import EV.Proofs.IndexStore
import EV.Proofs.IndexBackup

/-!
What a flushed store answers: `all_utxos` and `lookup_utxos` read exactly the represented UTXO
list when the cache and the delete queue are empty (the state after any full flush).
-/
namespace EV.Index
open EV.Spec

theorem mapM_option_eq_some {α β : Type} (f : α → Option β) (g : α → β) (l : List α)
    (h : ∀ x ∈ l, f x = some (g x)) : l.mapM f = some (l.map g) := by
  induction l with
  | nil => simp
  | cons a l ih =>
    rw [List.mapM_cons, h a (by simp), ih (fun x hx => h x (List.mem_cons_of_mem _ hx))]
    rfl

/-- in a flushed store the rows and the represented list have the same elements -/
theorem flushed_mem_iff {s : Sys} {U D : List Utxo} (w : RepSysW s U D [])
    (hc : s.m.cache = []) : ∀ u, u ∈ U ↔ u ∈ D := by
  intro u
  constructor
  · intro hu
    rcases w.inU u hu with h | ⟨_, h, _⟩
    · simp [hc] at h
    · exact h
  · intro hu
    exact (w.dbU u hu (by simp)).1

theorem nodup_of_map_nodup {α β : Type} (f : α → β) {l : List α} (h : (l.map f).Nodup) : l.Nodup := by
  induction l with
  | nil => simp
  | cons a l ih =>
    simp only [List.map_cons, List.nodup_cons] at h ⊢
    exact ⟨fun hm => h.1 (List.mem_map.mpr ⟨a, hm, rfl⟩), ih h.2⟩

theorem flushed_perm {s : Sys} {U D : List Utxo} (w : RepSysW s U D [])
    (hc : s.m.cache = []) : U.Perm D :=
  (List.perm_ext_iff_of_nodup (nodup_of_map_nodup opOf w.uNodup) (nodup_of_map_nodup opOf w.dNodup)).mpr
    (flushed_mem_iff w hc)

/-- the `u` table is a permutation of the rows of `D` -/
theorem uRows_perm {s : Sys} {U D Del : List Utxo} (w : RepSysW s U D Del) :
    s.p.u.Perm (D.map (fun u => (ukey u, u.value))) := by
  have hinj : ∀ a ∈ D, ∀ b ∈ D, (ukey a, a.value) = (ukey b, b.value) → a = b := by
    intro a ha b hb heq
    -- same u key: both rows are in the table under one key, and the h rows agree too
    have h1 : ukey a = ukey b := congrArg Prod.fst heq
    have hop : opOf a = opOf b := by
      have hra := w.res a ha
      have hrb := w.res b hb
      have htx : a.txnum = b.txnum := by
        have := congrArg (fun k => k.2.2) h1; simpa [ukey] using this
      have hidx : a.idx = b.idx := by
        have := congrArg (fun k => k.2.1) h1; simpa [ukey] using this
      rw [htx, hrb] at hra
      simp only [opOf, Prod.mk.injEq]
      exact ⟨(Option.some.inj hra).symm, hidx⟩
    exact eq_of_mem_nodup w.dNodup ha hb hop
  have hnd : (D.map (fun u => (ukey u, u.value))).Nodup := by
    have hD := nodup_of_map_nodup opOf w.dNodup
    clear w
    induction D with
    | nil => simp
    | cons a D ih =>
      simp only [List.map_cons, List.nodup_cons] at hD ⊢
      refine ⟨?_, ih (fun x hx y hy => hinj x (List.mem_cons_of_mem _ hx) y (List.mem_cons_of_mem _ hy)) hD.2⟩
      intro hm
      obtain ⟨b, hb, heq⟩ := List.mem_map.mp hm
      have := hinj b (List.mem_cons_of_mem _ hb) a (by simp) heq
      exact hD.1 (this ▸ hb)
  refine (List.perm_ext_iff_of_nodup (nodup_of_map_nodup (·.1) w.uKeys) hnd).mpr ?_
  intro e
  rw [w.uRows e]
  simp only [List.mem_map]
  constructor
  · rintro ⟨u, hu, rfl⟩; exact ⟨u, hu, rfl⟩
  · rintro ⟨u, hu, rfl⟩; exact ⟨u, hu, rfl⟩

/-- **`all_utxos` on a flushed index** returns, up to order, exactly the represented UTXOs paying
to the script hash: tx number, output position, the tx hash the files resolve the number to (which
is the UTXO's txid), the height `bisect_right(tx_counts, tx_num)`, and the value. -/
theorem allUtxos_flushed {s : Sys} {U D : List Utxo} (w : RepSysW s U D [])
    (hc : s.m.cache = []) (hx : HashX) :
    ∃ rows, allUtxos s hx = some rows ∧
      rows.Perm ((U.filter (fun u => u.hx == hx)).map
        (fun u => ⟨u.txnum, u.idx, u.txid, (fsTxHash s u.txnum).2, u.value⟩)) := by
  have hperm := uRows_perm w
  have hpU := flushed_perm w hc
  -- every filtered row resolves
  have hall : ∀ e ∈ s.p.u.filter (fun e => e.1.1 == hx),
      (match fsTxHash s e.1.2.2 with
       | (some h, ht) => some (⟨e.1.2.2, e.1.2.1, h, ht, e.2⟩ : UtxoRow)
       | (none, _) => none) =
      some ⟨e.1.2.2, e.1.2.1, ((fsTxHash s e.1.2.2).1).getD 0, (fsTxHash s e.1.2.2).2, e.2⟩ := by
    intro e he
    obtain ⟨u, hu, rfl⟩ := (w.uRows e).mp (List.mem_filter.mp he).1
    have := w.res u hu
    simp only [resolve] at this
    simp only [ukey]
    rcases hfs : fsTxHash s u.txnum with ⟨a, b⟩
    rw [hfs] at this
    simp only at this
    subst this
    simp
  refine ⟨(s.p.u.filter (fun e => e.1.1 == hx)).map
      (fun e : UKey × Nat => (⟨e.1.2.2, e.1.2.1, ((fsTxHash s e.1.2.2).1).getD 0, (fsTxHash s e.1.2.2).2, e.2⟩ : UtxoRow)), ?_, ?_⟩
  · simp only [allUtxos]
    exact mapM_option_eq_some _ _ _ (by
      intro e he
      obtain ⟨⟨a, b, c⟩, v⟩ := e
      exact hall _ he)
  · -- permutation bookkeeping
    have h1 := (hperm.filter (fun e => e.1.1 == hx)).map
      (fun e : UKey × Nat => (⟨e.1.2.2, e.1.2.1, ((fsTxHash s e.1.2.2).1).getD 0, (fsTxHash s e.1.2.2).2, e.2⟩ : UtxoRow))
    refine h1.trans ?_
    rw [List.filter_map, List.map_map]
    have h2 := ((hpU.symm).filter (fun u => u.hx == hx)).map
      (fun u : Utxo => (⟨u.txnum, u.idx, u.txid, (fsTxHash s u.txnum).2, u.value⟩ : UtxoRow))
    refine List.Perm.trans ?_ h2
    apply List.Perm.of_eq
    apply List.map_congr_left
    intro u hu
    have hres := w.res u (List.mem_filter.mp hu).1
    simp only [resolve] at hres
    simp [ukey, hres]

end EV.Index

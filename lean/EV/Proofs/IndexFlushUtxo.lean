import EV.Proofs.IndexStore

/-!
The UTXO batch of a flush (`flush_utxo_db`): applied to a store that represents `U` through
cache + rows + queued deletes, it leaves rows that are exactly the `h`/`u` rows of `U`.
Core only.
-/
namespace EV.Index
open EV.Spec

/-! ### association lists: folds of erase / insert -/

section alist
variable {κ ν : Type} [DecidableEq κ]

theorem mem_aerase {k : κ} {l : List (κ × ν)} {e : κ × ν} :
    e ∈ aerase k l ↔ e ∈ l ∧ e.1 ≠ k := by
  simp [aerase, List.mem_filter]

theorem mem_ainsert {k : κ} {v : ν} {l : List (κ × ν)} {e : κ × ν} :
    e ∈ ainsert k v l ↔ e = (k, v) ∨ (e ∈ l ∧ e.1 ≠ k) := by
  simp [ainsert, mem_aerase]

theorem mem_foldl_aerase (ks : List κ) (l : List (κ × ν)) (e : κ × ν) :
    e ∈ ks.foldl (fun t k => aerase k t) l ↔ e ∈ l ∧ e.1 ∉ ks := by
  induction ks generalizing l with
  | nil => simp
  | cons k ks ih =>
    simp only [List.foldl_cons, ih, mem_aerase, List.mem_cons, not_or]
    constructor
    · rintro ⟨⟨h1, h2⟩, h3⟩; exact ⟨h1, h2, h3⟩
    · rintro ⟨h1, h2, h3⟩; exact ⟨⟨h1, h2⟩, h3⟩

theorem nodup_keys_foldl_aerase (ks : List κ) {l : List (κ × ν)} (hn : (l.map (·.1)).Nodup) :
    ((ks.foldl (fun t k => aerase k t) l).map (·.1)).Nodup := by
  induction ks generalizing l with
  | nil => exact hn
  | cons k ks ih => exact ih (nodup_keys_aerase k hn)

theorem nodup_keys_foldl_ainsert (puts : List (κ × ν)) {l : List (κ × ν)}
    (hn : (l.map (·.1)).Nodup) :
    ((puts.foldl (fun t (k, v) => ainsert k v t) l).map (·.1)).Nodup := by
  induction puts generalizing l with
  | nil => exact hn
  | cons p puts ih => exact ih (nodup_keys_ainsert p.1 p.2 hn)

/-- with distinct put keys the result is the puts plus the old entries under other keys -/
theorem mem_foldl_ainsert (puts : List (κ × ν)) (hp : (puts.map (·.1)).Nodup)
    (l : List (κ × ν)) (e : κ × ν) :
    e ∈ puts.foldl (fun t (k, v) => ainsert k v t) l ↔
      e ∈ puts ∨ (e ∈ l ∧ e.1 ∉ puts.map (·.1)) := by
  induction puts generalizing l with
  | nil => simp
  | cons p puts ih =>
    obtain ⟨k, v⟩ := p
    simp only [List.map_cons, List.nodup_cons] at hp
    simp only [List.foldl_cons, ih hp.2, mem_ainsert, List.mem_cons, List.map_cons, not_or]
    constructor
    · rintro (h | ⟨h | ⟨h1, h2⟩, h3⟩)
      · exact Or.inl (Or.inr h)
      · exact Or.inl (Or.inl h)
      · exact Or.inr ⟨h1, h2, h3⟩
    · rintro ((h | h) | ⟨h1, h2, h3⟩)
      · subst h; exact Or.inr ⟨Or.inl rfl, hp.1⟩
      · exact Or.inl h
      · exact Or.inr ⟨Or.inr ⟨h1, h2⟩, h3⟩

theorem alookup_append (k : κ) (a b : List (κ × ν)) :
    alookup k (a ++ b) = match alookup k a with
      | some v => some v
      | none => alookup k b := by
  induction a with
  | nil => simp
  | cons e a ih =>
    obtain ⟨k', v⟩ := e
    simp only [List.cons_append, alookup_cons]
    by_cases h : k' = k
    · simp [h]
    · simp only [h, if_false]; exact ih

/-- a sequence of puts as a map: the last put of a key wins, other keys keep their value -/
theorem alookup_foldl_ainsert (k : κ) (puts t : List (κ × ν)) :
    alookup k (puts.foldl (fun t (k, v) => ainsert k v t) t) =
      match alookup k puts.reverse with
      | some v => some v
      | none => alookup k t := by
  induction puts generalizing t with
  | nil => simp
  | cons p puts ih =>
    obtain ⟨k', v⟩ := p
    simp only [List.foldl_cons, List.reverse_cons, ih, alookup_append]
    cases alookup k puts.reverse with
    | some x => rfl
    | none =>
      simp only [alookup_ainsert, alookup_cons, alookup_nil]
      by_cases h : k' = k <;> simp [h]

/-- images under `f` are distinct when equal images force equal `g`-keys and the `g`-keys are distinct -/
theorem nodup_map_of_keys {α β γ : Type} (g : α → γ) (f : α → β) (l : List α)
    (hn : (l.map g).Nodup) (hinj : ∀ a ∈ l, ∀ b ∈ l, f a = f b → g a = g b) :
    (l.map f).Nodup := by
  induction l with
  | nil => simp
  | cons a l ih =>
    simp only [List.map_cons, List.nodup_cons] at hn ⊢
    refine ⟨?_, ih hn.2 (fun x hx y hy => hinj x (List.mem_cons_of_mem _ hx) y (List.mem_cons_of_mem _ hy))⟩
    intro hmem
    obtain ⟨b, hb, hfb⟩ := List.mem_map.mp hmem
    have := hinj a (by simp) b (List.mem_cons_of_mem _ hb) hfb.symm
    exact hn.1 (this ▸ List.mem_map.mpr ⟨b, hb, rfl⟩)

end alist

/-! ### the queued deletes on a store -/

theorem mem_foldl_applyDelKey_h (dels : List DelKey) (p : Store) (e : HKey × HashX) :
    e ∈ (dels.foldl applyDelKey p).h ↔ e ∈ p.h ∧ DelKey.h e.1 ∉ dels := by
  induction dels generalizing p with
  | nil => simp
  | cons d dels ih =>
    simp only [List.foldl_cons, ih, List.mem_cons, not_or]
    cases d with
    | h k =>
      simp only [applyDelKey, mem_aerase, DelKey.h.injEq, ne_eq]
      constructor
      · rintro ⟨⟨h1, h2⟩, h3⟩; exact ⟨h1, h2, h3⟩
      · rintro ⟨h1, h2, h3⟩; exact ⟨⟨h1, h2⟩, h3⟩
    | u k => simp [applyDelKey]

theorem mem_foldl_applyDelKey_u (dels : List DelKey) (p : Store) (e : UKey × Nat) :
    e ∈ (dels.foldl applyDelKey p).u ↔ e ∈ p.u ∧ DelKey.u e.1 ∉ dels := by
  induction dels generalizing p with
  | nil => simp
  | cons d dels ih =>
    simp only [List.foldl_cons, ih, List.mem_cons, not_or]
    cases d with
    | u k =>
      simp only [applyDelKey, mem_aerase, DelKey.u.injEq, ne_eq]
      constructor
      · rintro ⟨⟨h1, h2⟩, h3⟩; exact ⟨h1, h2, h3⟩
      · rintro ⟨h1, h2, h3⟩; exact ⟨⟨h1, h2⟩, h3⟩
    | h k => simp [applyDelKey]

theorem nodup_foldl_applyDelKey (dels : List DelKey) (p : Store)
    (hh : (p.h.map (·.1)).Nodup) (hu : (p.u.map (·.1)).Nodup) :
    ((dels.foldl applyDelKey p).h.map (·.1)).Nodup ∧
    ((dels.foldl applyDelKey p).u.map (·.1)).Nodup := by
  induction dels generalizing p with
  | nil => exact ⟨hh, hu⟩
  | cons d dels ih =>
    cases d with
    | h k => exact ih _ (nodup_keys_aerase k hh) hu
    | u k => exact ih _ hh (nodup_keys_aerase k hu)

/-- the deletes touch only the `h` and `u` tables -/
theorem foldl_applyDelKey_rest (dels : List DelKey) (p : Store) :
    (dels.foldl applyDelKey p).undo = p.undo ∧ (dels.foldl applyDelKey p).ustate = p.ustate ∧
    (dels.foldl applyDelKey p).hist = p.hist ∧ (dels.foldl applyDelKey p).hstate = p.hstate ∧
    (dels.foldl applyDelKey p).headers = p.headers ∧
    (dels.foldl applyDelKey p).txcounts = p.txcounts ∧
    (dels.foldl applyDelKey p).hashes = p.hashes := by
  induction dels generalizing p with
  | nil => simp
  | cons d dels ih =>
    cases d with
    | h k => exact ih _
    | u k => exact ih _

/-! ### key injectivity -/

/-- tx numbers determine txids within U -/
def TxnumFun (U : List Utxo) : Prop := ∀ a ∈ U, ∀ b ∈ U, a.txnum = b.txnum → a.txid = b.txid

/-- resident rows: same output index and tx number ⇒ same UTXO (tx numbers resolve to hashes) -/
theorem eq_of_idx_txnum_D {s : Sys} {U D Del : List Utxo} (w : RepSysW s U D Del) {a b : Utxo}
    (ha : a ∈ D) (hb : b ∈ D) (hidx : a.idx = b.idx) (hnum : a.txnum = b.txnum) : a = b := by
  have h1 := w.res a ha
  have h2 := w.res b hb
  rw [hnum, h2] at h1
  have htx : a.txid = b.txid := (Option.some.inj h1).symm
  exact eq_of_mem_nodup w.dNodup ha hb (by simp [opOf, htx, hidx])

theorem eq_of_idx_txnum_U {U : List Utxo} (hn : (U.map opOf).Nodup) (hfun : TxnumFun U) {a b : Utxo}
    (ha : a ∈ U) (hb : b ∈ U) (hidx : a.idx = b.idx) (hnum : a.txnum = b.txnum) : a = b :=
  eq_of_mem_nodup hn ha hb (by simp [opOf, hfun a ha b hb hnum, hidx])

/-- every cache entry is the entry of a U-element with a cache hit -/
theorem cache_mem {s : Sys} {U D Del : List Utxo} (w : RepSysW s U D Del)
    {c : (Hash × Nat) × CacheVal} (hc : c ∈ s.m.cache) :
    ∃ u ∈ U, c = (opOf u, cvOf u) ∧ alookup (opOf u) s.m.cache = some (cvOf u) := by
  obtain ⟨op, cv⟩ := c
  have hl := alookup_of_mem_nodup w.cacheKeys hc
  obtain ⟨u, hu, h1, h2⟩ := w.cacheU op cv hl
  subst h1; subst h2
  exact ⟨u, hu, rfl, hl⟩

/-! ### one table through the batch (shared by `h` and `u`) -/

/-- `t1` = a table after the deletes (rows of `D` whose key is not a key of `Del`); putting the
    image of every cache entry gives exactly the rows of `U`. -/
theorem batch_rows {K V : Type} [DecidableEq K] (key : Utxo → K) (val : Utxo → V)
    (put : (Hash × Nat) × CacheVal → K × V)
    (hput : ∀ u, put (opOf u, cvOf u) = (key u, val u))
    (hk : ∀ a b, key a = key b → a.idx = b.idx ∧ a.txnum = b.txnum)
    {s : Sys} {U D Del : List Utxo} (w : RepSysW s U D Del) (hfun : TxnumFun U)
    (t1 : List (K × V))
    (rows1 : ∀ e, e ∈ t1 ↔ (∃ u ∈ D, e = (key u, val u)) ∧ ¬ ∃ d ∈ Del, e.1 = key d)
    (keys1 : (t1.map (·.1)).Nodup) :
    (∀ e, e ∈ (s.m.cache.map put).foldl (fun t (k, v) => ainsert k v t) t1 ↔
        ∃ u ∈ U, e = (key u, val u)) ∧
    (((s.m.cache.map put).foldl (fun t (k, v) => ainsert k v t) t1).map (·.1)).Nodup := by
  refine ⟨?_, nodup_keys_foldl_ainsert _ keys1⟩
  have putsNodup : ((s.m.cache.map put).map (·.1)).Nodup := by
    rw [List.map_map]
    apply nodup_map_of_keys (·.1) _ _ w.cacheKeys
    intro a ha b hb hab
    obtain ⟨x, hx, rfl, -⟩ := cache_mem w ha
    obtain ⟨y, hy, rfl, -⟩ := cache_mem w hb
    simp only [Function.comp, hput] at hab
    obtain ⟨h1, h2⟩ := hk x y hab
    rw [eq_of_idx_txnum_U w.uNodup hfun hx hy h1 h2]
  intro e
  rw [mem_foldl_ainsert _ putsNodup]
  constructor
  · rintro (h | ⟨h1, -⟩)
    · obtain ⟨c, hc, rfl⟩ := List.mem_map.mp h
      obtain ⟨x, hx, rfl, -⟩ := cache_mem w hc
      exact ⟨x, hx, hput x⟩
    · obtain ⟨⟨x, hx, rfl⟩, hnd⟩ := (rows1 e).mp h1
      have hxd : x ∉ Del := fun hd => hnd ⟨x, hd, rfl⟩
      exact ⟨x, (w.dbU x hx hxd).1, rfl⟩
  · rintro ⟨x, hx, rfl⟩
    rcases w.inU x hx with hc | ⟨hc, hD, hnDel⟩
    · left
      exact List.mem_map.mpr ⟨(opOf x, cvOf x), alookup_some_mem hc, hput x⟩
    · right
      constructor
      · refine (rows1 _).mpr ⟨⟨x, hD, rfl⟩, ?_⟩
        rintro ⟨d, hd, hkd⟩
        obtain ⟨h1, h2⟩ := hk x d hkd
        exact hnDel (eq_of_idx_txnum_D w hD (w.delSub d hd) h1 h2 ▸ hd)
      · intro hmem
        obtain ⟨kv, hkv, hkeq⟩ := List.mem_map.mp hmem
        obtain ⟨c, hc', rfl⟩ := List.mem_map.mp hkv
        obtain ⟨y, hy, rfl, hl⟩ := cache_mem w hc'
        rw [hput] at hkeq
        obtain ⟨h1, h2⟩ := hk y x hkeq
        have := eq_of_idx_txnum_U w.uNodup hfun hy hx h1 h2
        subst this
        rw [hc] at hl; simp at hl

/-! ### the batch -/

theorem utxoBatch_h (s : Sys) (st' : CState) :
    (applyEffect s.p (utxoBatchEffect s st')).h =
      (s.m.cache.map (fun ((txid, idx), cv) => ((pfx txid, idx, cv.txnum), cv.hx))).foldl
        (fun t (k, v) => ainsert k v t) (s.m.deletes.foldl applyDelKey s.p).h := rfl

theorem utxoBatch_u (s : Sys) (st' : CState) :
    (applyEffect s.p (utxoBatchEffect s st')).u =
      (s.m.cache.map (fun ((_, idx), cv) => ((cv.hx, idx, cv.txnum), cv.value))).foldl
        (fun t (k, v) => ainsert k v t) (s.m.deletes.foldl applyDelKey s.p).u := rfl

theorem utxoBatch_undo (s : Sys) (st' : CState) :
    (applyEffect s.p (utxoBatchEffect s st')).undo =
      (s.m.undoU.map (fun (ui, h) => (h, ui))).foldl
        (fun t (k, v) => ainsert k v t) (s.m.deletes.foldl applyDelKey s.p).undo := rfl

theorem flushUtxo_h {s : Sys} {U D Del : List Utxo} (w : RepSysW s U D Del)
    (hfun : TxnumFun U) (st' : CState) :
    (∀ e, e ∈ (applyEffect s.p (utxoBatchEffect s st')).h ↔ ∃ u ∈ U, e = (hkey u, u.hx)) ∧
    ((applyEffect s.p (utxoBatchEffect s st')).h.map (·.1)).Nodup := by
  rw [utxoBatch_h]
  refine batch_rows hkey (·.hx) _ (fun _ => rfl) ?_ w hfun _ ?_
    (nodup_foldl_applyDelKey _ _ w.hKeys w.uKeys).1
  · intro a b hab
    simp only [hkey, Prod.mk.injEq] at hab
    exact ⟨hab.2.1, hab.2.2⟩
  · intro e
    rw [mem_foldl_applyDelKey_h, w.hRows, w.dels]
    simp

theorem flushUtxo_u {s : Sys} {U D Del : List Utxo} (w : RepSysW s U D Del)
    (hfun : TxnumFun U) (st' : CState) :
    (∀ e, e ∈ (applyEffect s.p (utxoBatchEffect s st')).u ↔ ∃ u ∈ U, e = (ukey u, u.value)) ∧
    ((applyEffect s.p (utxoBatchEffect s st')).u.map (·.1)).Nodup := by
  rw [utxoBatch_u]
  refine batch_rows ukey (·.value) _ (fun _ => rfl) ?_ w hfun _ ?_
    (nodup_foldl_applyDelKey _ _ w.hKeys w.uKeys).2
  · intro a b hab
    simp only [ukey, Prod.mk.injEq] at hab
    exact ⟨hab.2.1, hab.2.2⟩
  · intro e
    rw [mem_foldl_applyDelKey_u, w.uRows, w.dels]
    simp

/-- the fields outside `h`/`u`/`undo` -/
theorem flushUtxo_rest (s : Sys) (st' : CState) :
    (applyEffect s.p (utxoBatchEffect s st')).ustate = some st' ∧
    (applyEffect s.p (utxoBatchEffect s st')).hist = s.p.hist ∧
    (applyEffect s.p (utxoBatchEffect s st')).hstate = s.p.hstate ∧
    (applyEffect s.p (utxoBatchEffect s st')).headers = s.p.headers ∧
    (applyEffect s.p (utxoBatchEffect s st')).txcounts = s.p.txcounts ∧
    (applyEffect s.p (utxoBatchEffect s st')).hashes = s.p.hashes := by
  obtain ⟨-, -, h3, h4, h5, h6, h7⟩ := foldl_applyDelKey_rest s.m.deletes s.p
  exact ⟨rfl, h3, h4, h5, h6, h7⟩

/-- the undo table after the batch: the unflushed undo rows are put in order (a later row of the
    same height wins), all other heights keep their row -/
theorem flushUtxo_undo (s : Sys) (st' : CState) (h : Nat) :
    alookup h (applyEffect s.p (utxoBatchEffect s st')).undo =
      match alookup h ((s.m.undoU.map (fun (ui, h) => (h, ui))).reverse) with
      | some ui => some ui
      | none => alookup h s.p.undo := by
  rw [utxoBatch_undo, alookup_foldl_ainsert, (foldl_applyDelKey_rest s.m.deletes s.p).1]
  cases alookup h ((s.m.undoU.map (fun (ui, h) => (h, ui))).reverse) <;> rfl

/-- The UTXO batch of a flush (`flush_utxo_db`: sorted deletes, then the h/u puts of every cache
    entry, then undo rows, then the state) turns the rows into exactly the rows of `U`. -/
theorem flushUtxo_rows {s : Sys} {U D Del : List Spec.Utxo} (w : RepSysW s U D Del)
    (hfun : TxnumFun U) (st' : CState) :
    let p' := applyEffect s.p (utxoBatchEffect s st')
    (∀ e, e ∈ p'.h ↔ ∃ u ∈ U, e = (hkey u, u.hx)) ∧ (p'.h.map (·.1)).Nodup ∧
    (∀ e, e ∈ p'.u ↔ ∃ u ∈ U, e = (ukey u, u.value)) ∧ (p'.u.map (·.1)).Nodup ∧
    p'.ustate = some st' ∧ p'.hist = s.p.hist ∧ p'.hstate = s.p.hstate ∧
    p'.headers = s.p.headers ∧ p'.txcounts = s.p.txcounts ∧ p'.hashes = s.p.hashes ∧
    (∀ h, alookup h p'.undo =
        match alookup h ((s.m.undoU.map (fun (ui, h) => (h, ui))).reverse) with
        | some ui => some ui
        | none => alookup h s.p.undo) := by
  intro p'
  obtain ⟨h1, h2⟩ := flushUtxo_h w hfun st'
  obtain ⟨u1, u2⟩ := flushUtxo_u w hfun st'
  obtain ⟨r1, r2, r3, r4, r5, r6⟩ := flushUtxo_rest s st'
  exact ⟨h1, h2, u1, u2, r1, r2, r3, r4, r5, r6, flushUtxo_undo s st'⟩

/-- After the batch, with cache and deletes emptied and every element of U still resolvable, the
    system represents the same U with D := U and nothing queued. -/
theorem flushUtxo_rep {s s' : Sys} {U D Del : List Spec.Utxo} (w : RepSysW s U D Del)
    (hfun : TxnumFun U) (st' : CState)
    (hp : s'.p.h = (applyEffect s.p (utxoBatchEffect s st')).h ∧
          s'.p.u = (applyEffect s.p (utxoBatchEffect s st')).u)
    (hcache : s'.m.cache = []) (hdel : s'.m.deletes = [])
    (hres : ∀ u ∈ U, resolve s' u.txnum = some u.txid) :
    RepSysW s' U U [] := by
  obtain ⟨h1, h2⟩ := flushUtxo_h w hfun st'
  obtain ⟨u1, u2⟩ := flushUtxo_u w hfun st'
  exact {
    uNodup := w.uNodup
    dNodup := w.uNodup
    hRows := by rw [hp.1]; exact h1
    uRows := by rw [hp.2]; exact u1
    hKeys := by rw [hp.1]; exact h2
    uKeys := by rw [hp.2]; exact u2
    cacheKeys := by simp [hcache]
    res := hres
    delSub := by simp
    dels := by simp [hdel]
    inU := fun u hu => Or.inr ⟨by simp [hcache], hu, by simp⟩
    cacheU := by simp [hcache]
    dbU := fun u hu _ => ⟨hu, by simp [hcache]⟩ }

/-! ### non-vacuity -/

/-- a system with one cached UTXO, one resident row and one resident row queued for deletion -/
example : ∃ (s : Sys) (U D Del : List Utxo), RepSysW s U D Del ∧ TxnumFun U ∧
    s.m.cache ≠ [] ∧ s.m.deletes ≠ [] ∧ U.length = 2 ∧ D.length = 2 := by
  refine ⟨{ m := { cache := [((7, 0), ⟨5, 2, 30⟩)],
                   deletes := [.h (0, 0, 1), .u (4, 0, 1)],
                   txCounts := [3], dbst := { height := 0 } },
            p := { h := [((0, 0, 0), 3), ((0, 0, 1), 4)],
                   u := [((3, 0, 0), 10), ((4, 0, 1), 20)],
                   hashes := [1, 2] } },
          [⟨1, 0, 0, 0, 10, 3⟩, ⟨7, 0, 2, 0, 30, 5⟩],
          [⟨1, 0, 0, 0, 10, 3⟩, ⟨2, 0, 1, 0, 20, 4⟩],
          [⟨2, 0, 1, 0, 20, 4⟩], ?_, ?_, by simp, by simp, rfl, rfl⟩
  · exact {
      uNodup := by decide
      dNodup := by decide
      hRows := by
        intro e
        simp [hkey, pfx]
      uRows := by
        intro e
        simp [ukey]
      hKeys := by decide
      uKeys := by decide
      cacheKeys := by decide
      res := by
        intro u hu
        simp at hu
        rcases hu with rfl | rfl <;> decide
      delSub := by simp
      dels := by
        intro dk
        simp [hkey, ukey, pfx]
      inU := by
        intro u hu
        simp at hu
        rcases hu with rfl | rfl
        · right; refine ⟨by decide, by simp, by simp⟩
        · left; decide
      cacheU := by
        intro op cv h
        simp only [alookup_cons, alookup_nil] at h
        by_cases hop : (7, 0) = op
        · simp [hop] at h; subst h; subst hop
          exact ⟨⟨7, 0, 2, 0, 30, 5⟩, by simp, rfl, rfl⟩
        · simp [hop] at h
      dbU := by
        intro u hu hnd
        simp at hu hnd
        rcases hu with rfl | rfl
        · exact ⟨by simp, by decide⟩
        · simp at hnd }
  · intro a ha b hb
    simp at ha hb
    rcases ha with rfl | rfl <;> rcases hb with rfl | rfl <;> simp

end EV.Index

import EV.Proofs.System

/-!
The current code (`cmpLive = true`: the second loop of `_notify_inner` compares the new status with the
value that is in `mempool_statuses` at the moment it is replaced; `raiseOnRace = false`:
`_refresh_hsub_results` always reads again): `mempool_statuses` never records a status the client was
not sent, hence nothing is ever `suppressed`; and no notification is ever `lost`.
-/
namespace EV.System

structure FixInv (st : St) : Prop where
  /-- every status recorded in `mempool_statuses` is the one the client holds -/
  msHeld : ∀ s x v, lookup x (msOf st s) = some v → heldOf st s x = some v
  nosupp : st.suppressed = []
  nolost : st.lost = []
  lens : st.held.length = st.ms.length

theorem FixInv.of_eq {st st' : St} (h : FixInv st) (e_ms : st'.ms = st.ms) (e_held : st'.held = st.held)
    (e_supp : st'.suppressed = st.suppressed) (e_lost : st'.lost = st.lost) : FixInv st' :=
  ⟨fun s x v hl => by simp only [msOf, e_ms] at hl; simp only [heldOf, e_held]; exact h.msHeld s x v hl,
   by rw [e_supp]; exact h.nosupp, by rw [e_lost]; exact h.nolost, by rw [e_ms, e_held]; exact h.lens⟩

theorem fixInv_init (n m : Nat) : FixInv (init n m) := by
  refine ⟨?_, rfl, rfl, by simp [init]⟩
  intro s x v hl
  simp only [msOf, init, List.getD_eq_getElem?_getD, List.getElem?_replicate] at hl
  split at hl <;> simp [lookup] at hl

theorem fix_send (st : St) (s hx : Nat) (v : Status) (h : FixInv st) : FixInv (send st s hx v) := by
  refine ⟨?_, h.nosupp, h.nolost, by simp [send, deliver, setMs, length_modifyAt, h.lens]⟩
  intro s' x' v' hl
  rw [msOf_send] at hl
  rw [heldOf_send]
  by_cases hc : s' = s ∧ s < st.ms.length ∧ x' = hx
  · rw [if_pos hc] at hl
    rw [if_pos ⟨hc.1, by rw [h.lens]; exact hc.2.1, hc.2.2⟩]
    split at hl
    · exact hl
    · cases hl
  · rw [if_neg hc] at hl
    rw [if_neg (fun hh => hc ⟨hh.1, by rw [← h.lens]; exact hh.2.1, hh.2.2⟩)]
    exact h.msHeld s' x' v' hl

theorem fix_visit2 (f : Flags) (hb : f.batch = false) (hl : f.cmpLive = true) (st : St) (s hx c : Nat)
    (old : Status) (h : FixInv st) :
    FixInv (visit2 f st s hx c old []).1 ∧ (visit2 f st s hx c old []).2 = [] := by
  unfold visit2
  split
  · rw [visit1_eq f hb]
    exact ⟨fix_send st s hx _ h, rfl⟩
  · next hd =>
    simp only [differs, hl, if_true, bne_iff_ne, ne_eq, Decidable.not_not] at hd
    have hheld : heldOf st s hx = some (c, memOf st hx) := h.msHeld s hx _ hd
    have hne : (heldOf st s hx != some (c, memOf st hx)) = false := by simp [hheld]
    simp only [hne, Bool.false_eq_true, if_false]
    refine ⟨⟨?_, h.nosupp, h.nolost, by simp [setMs, length_modifyAt, h.lens]⟩, trivial⟩
    intro s' x' v' hlk
    have e1 : lookup x' (msOf { (setMs st s hx (c, memOf st hx)) with suppressed := st.suppressed } s') =
        lookup x' (msOf (setMs st s hx (c, memOf st hx)) s') := rfl
    rw [e1, msOf_setMs] at hlk
    show heldOf st s' x' = some v'
    by_cases hc : s' = s ∧ s < st.ms.length ∧ x' = hx
    · rw [if_pos hc] at hlk
      obtain ⟨rfl, _, rfl⟩ := hc
      split at hlk
      · cases hlk; exact hheld
      · cases hlk
    · rw [if_neg hc] at hlk
      exact h.msHeld s' x' v' hlk

theorem fix_suspend (st : St) (t : Task) (h : FixInv st) : FixInv { st with tasks := st.tasks ++ [t] } :=
  h.of_eq rfl rfl rfl rfl

theorem fix_notifyGo2 (f : Flags) (hb : f.batch = false) (hl : f.cmpLive = true) (s : Nat)
    (todo : List (Nat × Status)) (st : St) (h : FixInv st) : FixInv (notifyGo2 f st s todo []) := by
  induction todo generalizing st with
  | nil => simpa [notifyGo2, flushChanged] using h
  | cons e rest ih =>
    obtain ⟨x, old⟩ := e
    rw [notifyGo2]
    split
    · exact ih st h
    · split
      · obtain ⟨h1, e2⟩ := fix_visit2 f hb hl st s x _ old h
        rw [e2]; exact ih _ h1
      · exact fix_suspend st _ h

theorem fix_notifyGo (f : Flags) (hb : f.batch = false) (hl : f.cmpLive = true) (s : Nat)
    (todo : List Nat) (st : St) (h : FixInv st) : FixInv (notifyGo f st s todo []) := by
  induction todo generalizing st with
  | nil =>
    rw [notifyGo]
    split
    · exact fix_notifyGo2 f hb hl s _ st h
    · simpa [flushChanged] using h
  | cons x rest ih =>
    rw [notifyGo]
    split
    · exact ih st h
    · split
      · rw [visit1_eq f hb]; exact ih _ (fix_send st s x _ h)
      · exact fix_suspend st _ h

theorem fix_resume (f : Flags) (hb : f.batch = false) (hl : f.cmpLive = true) (st : St) (hx c : Nat) (k : Cont)
    (hch : (∀ s rest ch, k = .notify s rest ch → ch = []) ∧
      (∀ s old rest ch, k = .notify2 s old rest ch → ch = []))
    (h : FixInv st) : FixInv (resume f st hx c k) := by
  cases k with
  | query => exact h
  | sub s x =>
    simp only [resume]
    exact (fix_send st s x _ h).of_eq rfl rfl rfl rfl
  | notify s rest ch =>
    obtain rfl := hch.1 s rest ch rfl
    simp only [resume, visit1_eq f hb]
    exact fix_notifyGo f hb hl s rest _ (fix_send st s hx _ h)
  | notify2 s old rest ch =>
    obtain rfl := hch.2 s old rest ch rfl
    simp only [resume]
    obtain ⟨h1, e2⟩ := fix_visit2 f hb hl st s hx c old h
    rw [e2]; exact fix_notifyGo2 f hb hl s rest _ h1

theorem fix_startRead (f : Flags) (hb : f.batch = false) (hl : f.cmpLive = true) (st : St) (hx : Nat) (k : Cont)
    (hch : (∀ s rest ch, k = .notify s rest ch → ch = []) ∧
      (∀ s old rest ch, k = .notify2 s old rest ch → ch = []))
    (h : FixInv st) : FixInv (startRead f st hx k) := by
  unfold startRead
  split
  · exact fix_resume f hb hl st hx _ k hch h
  · exact fix_suspend st _ h

theorem fix_finishNotify (f : Flags) (hb : f.batch = false) (hl : f.cmpLive = true) (st : St) (xs : List Nat)
    (hc : Bool) (h : FixInv st) : FixInv (finishNotify f st xs hc) := by
  unfold finishNotify
  have h0 : FixInv { st with cache := st.cache.filter (fun e => !xs.contains e.1) } := h.of_eq rfl rfl rfl rfl
  generalize ({ st with cache := st.cache.filter (fun e => !xs.contains e.1) } : St) = st0 at h0
  generalize List.range st.subs.length = ss
  induction ss generalizing st0 with
  | nil => exact h0
  | cons s ss ih =>
    rw [List.foldl_cons]
    apply ih
    unfold sessionNotify
    have hh : FixInv (hdrNotify st0 s hc) := by
      unfold hdrNotify
      split
      · exact h0.of_eq rfl rfl rfl rfl
      · exact h0
    split
    · exact h0
    · split
      · exact fix_notifyGo f hb hl s _ _ hh
      · exact hh

/-- every event preserves `FixInv` for the current second-loop comparison and the always-retrying refresh -/
theorem fix_step (f : Flags) (hb : f.batch = false) (hl : f.cmpLive = true) (hnr : f.raiseOnRace = false)
    (st : St) (ev : Ev) (hinv : Inv st) (h : FixInv st) : FixInv (step f st ev) := by
  cases ev with
  | change x => exact h.of_eq rfl rfl rfl rfl
  | mpChange x m => exact h.of_eq rfl rfl rfl rfl
  | flip x m =>
    simp only [step]
    split
    · exact h.of_eq rfl rfl rfl rfl
    · exact h
  | advance d => exact h.of_eq rfl rfl rfl rfl
  | backup =>
    simp only [step]
    split
    · exact h
    · exact h.of_eq rfl rfl rfl rfl
  | reorgSignal => exact h.of_eq rfl rfl rfl rfl
  | notify ht xs =>
    simp only [step]
    split
    · exact h.of_eq rfl rfl rfl rfl
    · exact fix_finishNotify f hb hl _ xs false (h.of_eq rfl rfl rfl rfl)
  | subscribe s x =>
    exact fix_startRead f hb hl st x _ ⟨fun _ _ _ hc => (by cases hc), fun _ _ _ _ hc => (by cases hc)⟩ h
  | unsubscribe s x =>
    simp only [step]
    refine ⟨?_, h.nosupp, h.nolost, by simp [length_modifyAt, h.lens]⟩
    intro s' x' v' hlk
    show heldOf st s' x' = some v'
    simp only [msOf, getD_modifyAt] at hlk
    split at hlk
    · rw [lookup_dictErase] at hlk
      split at hlk
      · cases hlk
      · exact h.msHeld s' x' v' hlk
    · exact h.msHeld s' x' v' hlk
  | closeSession s => exact h.of_eq rfl rfl rfl rfl
  | subscribeHeaders s => exact h.of_eq rfl rfl rfl rfl
  | getHistory s x =>
    exact fix_startRead f hb hl st x _ ⟨fun _ _ _ hc => (by cases hc), fun _ _ _ _ hc => (by cases hc)⟩ h
  | evict x => exact h.of_eq rfl rfl rfl rfl
  | readDo i =>
    simp only [step]
    cases nthIdx st.tasks false i with
    | none => exact h
    | some j => exact h.of_eq rfl rfl rfl rfl
  | readFinish i =>
    simp only [step]
    cases nthIdx st.tasks true i with
    | none => exact h
    | some j =>
      simp only
      cases hj : st.tasks[j]? with
      | none => exact h
      | some t =>
        simp only
        have htm : t ∈ st.tasks := List.mem_iff_getElem?.mpr ⟨j, hj⟩
        cases t.value with
        | none => exact h
        | some v =>
          simp only
          split
          · exact h.of_eq rfl rfl rfl rfl
          · exact fix_resume f hb hl _ t.hx v t.cont (hinv.nochg t htm) (h.of_eq rfl rfl rfl rfl)
  | hdrDo i =>
    simp only [step]
    cases nthIdxH st.hreads false i with
    | none => exact h
    | some j => exact h.of_eq rfl rfl rfl rfl
  | hdrFinish i =>
    simp only [step]
    cases nthIdxH st.hreads true i with
    | none => exact h
    | some j =>
      simp only
      cases st.hreads[j]? with
      | none => exact h
      | some r =>
        simp only
        cases r.value with
        | none => exact h
        | some v =>
          cases v with
          | some d => exact fix_finishNotify f hb hl _ r.xs true (h.of_eq rfl rfl rfl rfl)
          | none =>
            simp only [hnr, Bool.false_and, Bool.false_eq_true, if_false]
            exact h.of_eq rfl rfl rfl rfl

theorem fix_run (f : Flags) (hb : f.batch = false) (hcc : f.checkCount = true) (hr : f.recheck = true)
    (hl : f.cmpLive = true) (hnr : f.raiseOnRace = false) (st : St) (evs : List Ev) (hinv : Inv st) (h : FixInv st) :
    FixInv (run f st evs) := by
  induction evs generalizing st with
  | nil => exact h
  | cons ev evs ih =>
    exact ih (step f st ev) (inv_step_flags f hb hcc hr st ev hinv) (fix_step f hb hl hnr st ev hinv h)

end EV.System

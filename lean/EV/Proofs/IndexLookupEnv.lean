import EV.Proofs.IndexLookup
import EV.Proofs.MempoolFinite

/-!
Bridge between the two models: the index model's `DB.lookup_utxos` (`EV.Index.lookupUtxos`) as the
`lookup` parameter of the mempool model (`EV/Model/Mempool.lean`), and the specification's UTXO set
as the confirmed UTXO map `U` of the mempool specification.

Type map (both models use numbers for hashes and script hashes — `EV.Index.Hash = EV.Mempool.Hash =
Nat`, `HashX = Nat`; a prevout is `Hash × Nat` in both):
  * value: `Nat` in the index (`unpack_le_uint64` of the `u` row), `Int` in the mempool model
    (`read_output` reads a signed 64-bit value) — `mpPair` casts;
  * a transaction of the chain `EV.Index.Tx` and the mempool's `RawTx` are related by `WorldHas`:
    the mempool world `W` (function from txids to transactions) knows every transaction of the chain
    with its list of output `(hashX, value)` pairs (ALL outputs, unspendable ones included: the
    mempool's `out_pairs[prev_idx]` indexes the full output list).
Core only.
-/
namespace EV.Index
open EV.Spec

/-- `(hashX, value)` as the mempool model carries it -/
def mpPair (r : HashX × Nat) : EV.Mempool.Pair := (r.1, (r.2 : Int))

/-- the index in state `s` as the `lookup` parameter of the mempool model (the chunk number is
    ignored: the same index answers every chunk) -/
def mpLookup (s : Sys) : Nat → List EV.Mempool.Prevout → List (Option EV.Mempool.Pair) :=
  fun _ ps => (lookupUtxos s ps).map (fun r => r.map mpPair)

/-- a racing index: the answer for the `i`-th prevout of chunk `k` is read in state `σ k i` -/
def mpLookupAt (σ : Nat → Nat → Sys) : Nat → List EV.Mempool.Prevout → List (Option EV.Mempool.Pair) :=
  fun k ps => ps.zipIdx.map (fun pi => (lookupUtxo (σ k pi.2) pi.1.1 pi.1.2).map mpPair)

/-- the racing index at the granularity of the real coroutine: for the `i`-th prevout of chunk `k`,
    job 1 (`lookup_hashXs`) is read in state `σ1 k i` and job 2 (`lookup_utxos`, with the re-check
    of the fix of F22) in state `σ2 k i` -/
def mpLookupSplitAt (σ1 σ2 : Nat → Nat → Sys) :
    Nat → List EV.Mempool.Prevout → List (Option EV.Mempool.Pair) :=
  fun k ps => ps.zipIdx.map (fun pi =>
    (lookupUtxoSplit true (σ1 k pi.2) (σ2 k pi.2) pi.1.1 pi.1.2).map mpPair)

/-- the confirmed UTXO map `U` of the mempool specification, read off a specification state -/
def utxoMap (S : St) : List (EV.Mempool.Prevout × EV.Mempool.Pair) :=
  S.utxos.map (fun u => ((u.txid, u.idx), (u.hx, (u.value : Int))))

/-- the output pairs of a chain transaction as `read_tx` + `hashX_from_script` deliver them -/
def rawOuts (tx : Tx) : List EV.Mempool.Pair := tx.outs.map (fun o => (o.hx, (o.value : Int)))

/-- the mempool model's world knows the chain's transactions and their outputs -/
def WorldHas (W : EV.Mempool.Hash → Option EV.Mempool.RawTx) (chain : List Block) : Prop :=
  ∀ b ∈ chain, ∀ tx ∈ b.txs, (W tx.id).map (·.outs) = some (rawOuts tx)

instance (W : EV.Mempool.Hash → Option EV.Mempool.RawTx) (chain : List Block) :
    Decidable (WorldHas W chain) := by
  unfold WorldHas; exact inferInstance

/-- the daemon side of a quiet refresh: every clause of `EnvQuiet` that does not speak about the
    index (`U` occurs only in `closed`) -/
structure DaemonQuiet (W : EV.Mempool.Hash → Option EV.Mempool.RawTx) (M : List EV.Mempool.Hash)
    (U : List (EV.Mempool.Prevout × EV.Mempool.Pair))
    (fetch : EV.Mempool.Hash → Option EV.Mempool.RawTx) : Prop where
  nodup : M.Nodup
  fetch : ∀ h ∈ M, ∃ t, W h = some t ∧ fetch h = some t
  valid : EV.Mempool.Valid W
  closed : ∀ h ∈ M, ∀ t, W h = some t → ∀ p ∈ (EV.Mempool.mkTx t).prevouts,
    p.1 ∈ M ∨ p ∈ U.map (·.1)
  acyclic : ∃ rank : EV.Mempool.Hash → Nat, ∀ h ∈ M, ∀ t, W h = some t →
    ∀ p ∈ (EV.Mempool.mkTx t).prevouts, p.1 ∈ M → rank p.1 < rank h
  conflictFree : ∀ h₁ ∈ M, ∀ h₂ ∈ M, ∀ t₁ t₂, W h₁ = some t₁ → W h₂ = some t₂ →
    ∀ p, p ∈ (EV.Mempool.mkTx t₁).prevouts → p ∈ (EV.Mempool.mkTx t₂).prevouts → h₁ = h₂

theorem DaemonQuiet.of_envQuiet {W : EV.Mempool.Hash → Option EV.Mempool.RawTx}
    {M : List EV.Mempool.Hash} {U : List (EV.Mempool.Prevout × EV.Mempool.Pair)}
    {fetch : EV.Mempool.Hash → Option EV.Mempool.RawTx}
    {lookup : Nat → List EV.Mempool.Prevout → List (Option EV.Mempool.Pair)}
    (h : EV.Mempool.EnvQuiet W M U fetch lookup) : DaemonQuiet W M U fetch :=
  ⟨h.nodup, h.fetch, h.valid, h.closed, h.acyclic, h.conflictFree⟩

theorem WorldHas.prefix {W : EV.Mempool.Hash → Option EV.Mempool.RawTx} {c chain : List Block}
    (h : WorldHas W chain) (hp : c <+: chain) : WorldHas W c :=
  fun b hb tx htx => h b (hp.subset hb) tx htx

theorem mpLookup_length (s : Sys) (k : Nat) (ps : List EV.Mempool.Prevout) :
    (mpLookup s k ps).length = ps.length := by
  simp [mpLookup, lookupUtxos]

theorem mpLookup_eq_map (s : Sys) (k : Nat) (ps : List EV.Mempool.Prevout) :
    mpLookup s k ps = ps.map (fun p => (lookupUtxo s p.1 p.2).map mpPair) := by
  simp [mpLookup, lookupUtxos]

/-- `U.get(prevout)` on the map read off the specification = the specification's lookup -/
theorem ulookup_utxoMap (S : St) (p : EV.Mempool.Prevout) :
    EV.Mempool.ulookup (utxoMap S) p = (lookupIn S.utxos p.1 p.2).map mpPair := by
  obtain ⟨t, i⟩ := p
  simp only [utxoMap, lookupIn, EV.Mempool.ulookup]
  induction S.utxos with
  | nil => rfl
  | cons u r ih =>
    simp only [List.map_cons, List.find?_cons]
    by_cases h : u.txid = t ∧ u.idx = i
    · obtain ⟨rfl, rfl⟩ := h
      simp [mpPair]
    · have h1 : (((u.txid, u.idx) : EV.Mempool.Prevout) == (t, i)) = false := by
        simp only [beq_eq_false_iff_ne, ne_eq, Prod.mk.injEq]
        exact h
      have h2 : (u.txid == t && u.idx == i) = false := by
        rw [Bool.eq_false_iff]
        simpa using h
      simp only [h1, h2]
      exact ih

/-- what makes an answer *true* in the mempool model's sense: a UTXO that is an output of a chain
    transaction is the `(hashX, value)` of that output of THE transaction with that id -/
theorem truePair_of_outputOf {W : EV.Mempool.Hash → Option EV.Mempool.RawTx} {act : Nat}
    {chain : List Block} {u : Utxo} (hW : WorldHas W chain) (h : OutputOf act chain u) :
    EV.Mempool.truePair W (u.txid, u.idx) = some (u.hx, (u.value : Int)) := by
  obtain ⟨b, tx, o, h1, h2, h3, h4, h5, h6, -⟩ := h
  obtain ⟨t, ht, houts⟩ := Option.map_eq_some_iff.mp (hW b (List.mem_of_getElem? h1) tx h2)
  rw [h3] at ht
  simp only [EV.Mempool.truePair, ht, houts, rawOuts, List.getElem?_map, h4, Option.map_some, h5, h6]

/-- **`utxoTrue`.**  The confirmed UTXO map read off the specification of a chain the world knows
records true outputs. -/
theorem utxoTrue_of_world {W : EV.Mempool.Hash → Option EV.Mempool.RawTx} {act : Nat}
    {chain : List Block} (hW : WorldHas W chain) :
    ∀ b ∈ utxoMap (specChain act chain), EV.Mempool.truePair W b.1 = some b.2 := by
  intro b hb
  simp only [utxoMap, List.mem_map] at hb
  obtain ⟨u, hu, rfl⟩ := hb
  exact truePair_of_outputOf hW (specChain_outputOf act chain u hu)

/-- an answer read from rows that hold the UTXO set of a prefix of a chain the world knows is true -/
theorem truePair_of_rows {W : EV.Mempool.Hash → Option EV.Mempool.RawTx} {act : Nat}
    {c chain : List Block} {s : Sys} (r : RowsOf s (specChain act c).utxos) (hp : c <+: chain)
    (hW : WorldHas W chain) {p : EV.Mempool.Prevout} {pr : EV.Mempool.Pair}
    (h : (lookupUtxo s p.1 p.2).map mpPair = some pr) : EV.Mempool.truePair W p = some pr := by
  rw [lookupUtxo_rows r] at h
  simp only [Option.map_eq_some_iff] at h
  obtain ⟨a, ha, rfl⟩ := h
  obtain ⟨u, hu, h1, h2, rfl⟩ := lookupIn_some_mem ha
  have := truePair_of_outputOf hW ((specChain_outputOf act c u hu).prefix hp)
  rw [h1, h2] at this
  exact this

theorem mem_zip_zipIdx_map {α β : Type} (g : α × Nat → β) {l : List α} {n : Nat} {a : α} {b : β}
    (h : (a, b) ∈ List.zip l ((l.zipIdx n).map g)) : ∃ i, b = g (a, i) := by
  induction l generalizing n with
  | nil => simp at h
  | cons x xs ih =>
    simp only [List.zipIdx_cons, List.map_cons, List.zip_cons_cons, List.mem_cons,
      Prod.mk.injEq] at h
    rcases h with ⟨h1, h2⟩ | h
    · exact ⟨n, by rw [h1, h2]⟩
    · exact ih h

end EV.Index
